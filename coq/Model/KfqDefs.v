(** Step-level model of xenium::kirsch_kfifo_queue<T*, reclaimer<GC>> (kirsch_kfifo_queue.hpp), the
    UNBOUNDED k-FIFO queue: a singly linked list of segments of k slots, head_ / tail_ = (segment
    pointer, 16 bit version tag) words, [push] and [pop] / [try_pop] (= [do_pop]) with [find_index],
    [committed], [advance_tail], [advance_head], over a reclaimer whose guard acquisition is one atomic
    load and whose retired segments are never reused (what C01 guarantees to the container;
    harness/gc_reclaimer.hpp).  One [Step] = one atomic access / fence of the C++ code; [k] is an
    argument of [step].  The "random" start offset of [find_index] ([utils::random()]) is the oracle
    argument of the step that precedes the scan (the load of tail_ in push, the seq_cst fence in pop:
    the runtime prints it as a CHOICE line after that access).

    Blocks: 0 = the queue object (k_ +0, head_ +8, tail_ +16), 1 = the initial segment; every push first
    allocates the pushed object itself (a token block of 8 bytes, harness element kind [ptr]): the
    queue's values are the POINTERS to these blocks, [bval b] is the number printed for the object.
    Segment layout: deleted +16, next +32, items()[i].value +40+16i, size 40+16k.  0 = nullptr.

    Tags.  The model keeps the version tags of head_ / tail_ / next / slots as unbounded numbers; the
    events print them as the code stores them (upper 16 bits of the pointer word).  Model and code
    therefore differ only in executions in which a thread sleeps across 2^16 changes of one word and
    then compares it (ABA through tag wrap-around).

    Ghosts: [g_in] pointers whose insertion was finally committed, in commit order (a pop that takes a
    value whose pusher is still inside [committed] commits it); [g_out] pointers taken by pops;
    [g_ok] pointers whose [push] returned; [g_segs] the segments ever linked, in chain order (the
    initial segment first); [g_retired] segments handed to the reclaimer (head CAS (10) succeeded);
    [g_freed] segments released by their allocator because the link CAS (13) failed;
    [g_nch] number of random draws so far. *)
From Coq Require Import NArith List Bool.
From XV Require Import Base.Word Conc.Lts Conc.Ev.
Import ListNotations.
Local Open Scope N_scope.

Inductive op := OPush (v : N) | OPop.

Definition iw := (N * N)%type.   (* head_ / tail_ / next word: (segment block or 0, tag) *)
Definition sw := (N * N)%type.   (* slot word: (pointer = token block or 0, tag) *)

(** who called advance_tail: push (value b), or do_pop on its way to the CAS (5) of slot j of head segment *)
Inductive cont := KPush (b : N) | KPop (hd : iw) (j p tg : N).

Inductive pc :=
| Idle
| Begin (o : op)
(* push *)
| P1 (b : N)                              (* (1) tail_old.acquire(tail_, acq); random() *)
| PF (b : N) (tl : iw) (ri i : N)         (* find_index<true>: LD slot rlx *)
| P2 (b : N) (tl : iw) (j otag : N)       (* found: LD tail_ rlx (re-check) *)
| P2n (b : N) (tl : iw)                   (* not found: LD tail_ rlx (re-check) *)
| P3 (b : N) (tl : iw) (j otag : N)       (* (2) CAS slot (null,otag) -> (b,otag+1) rel/rlx *)
(* committed(tl, (b,tg), j) *)
| C1 (b : N) (tl : iw) (j tg : N)         (* LD slot rlx; != value: true *)
| C2 (b : N) (tl : iw) (j tg : N)         (* (15) FENCE sc *)
| C3 (b : N) (tl : iw) (j tg : N)         (* LD segment->deleted rlx *)
| C4 (b : N) (tl : iw) (j tg : N)         (* (6) LD head_ acq *)
| C5 (b : N) (tl : iw) (j tg : N) (hc : iw)   (* CAS head_ hc -> (hc, tag+1) rel/rlx *)
| C7 (b : N) (tl : iw) (j tg : N)         (* LD segment->deleted rlx (second) *)
| C9 (b : N) (tl : iw) (j tg : N)         (* CAS slot (b,tg) -> (null,tg+1) rlx (take back) *)
(* advance_tail(tl) *)
| A1 (c : cont) (tl : iw)                 (* (11) LD tl->next acq *)
| A2 (c : cont) (tl nx : iw)              (* LD tail_ rlx; next null: alloc_segment *)
| A3 (c : cont) (tl nx : iw)              (* (12) CAS tail_ tl -> (nx, nx.tag+1) rel/rlx *)
| A4 (c : cont) (tl nx : iw) (n : N)      (* (13) CAS tl->next nx -> (n, nx.tag+1) rel/rlx; failure: release_segment *)
| A5 (c : cont) (tl : iw) (n : N)         (* (14) CAS tail_ tl -> (n, tl.tag+1) rel/rlx *)
(* do_pop *)
| D1                                      (* (3) head_old.acquire(head_, acq) *)
| D1f (hd : iw)                           (* (16) FENCE sc; random() *)
| DF (hd : iw) (ri i : N)                 (* find_index<false>: LD slot rlx *)
| D2 (hd : iw) (j p tg : N)               (* found: LD head_ rlx (re-check) *)
| D2n (hd : iw)                           (* not found: LD head_ rlx (re-check) *)
| D3 (hd : iw) (j p tg : N)               (* (4) LD tail_ acq *)
| D3n (hd : iw)                           (* (4) LD tail_ acq *)
| D4 (hd : iw) (j p tg : N)               (* (5) CAS slot (p,tg) -> (null,tg+1) acq/rlx *)
| DE (hd tl : iw)                         (* LD tail_ rlx; == tl: empty *)
(* advance_head(hd, tl) *)
| H1 (hd tl : iw)                         (* (7) LD hd->next acq *)
| H2 (hd tl hn : iw)                      (* LD head_ rlx *)
| H3 (hd tl hn : iw)                      (* (8) LD tl->next acq *)
| H4 (hd tl hn tn : iw)                   (* LD tail_ rlx *)
| H5 (hd tl hn tn : iw)                   (* (9) CAS tail_ tl -> (tn, tl.tag+1) rel/rlx *)
| H6 (hd hn : iw)                         (* ST hd->deleted true rlx *)
| H7 (hd hn : iw).                        (* (10) CAS head_ hd -> (hn, hd.tag+1) rel/rlx; success: reclaim *)

Record state := mkSt {
  head : iw; tail : iw;
  nxt : N -> iw; del : N -> bool; slot : N -> N -> sw;
  bval : N -> N; nalloc : N; th : nat -> pc;
  g_in : list N; g_out : list N; g_ok : list N;
  g_segs : list N; g_retired : list N; g_freed : list N; g_nch : N }.

(** [Step t r]: thread t performs its next atomic access; [r] is the value of the recorded choice
    (used only by the steps that call [utils::random()]) *)
Inductive action := Start (t : nat) (o : op) | Step (t : nat) (r : N).

Definition L_head := LHeap 0 8.
Definition L_tail := LHeap 0 16.
Definition entry_size : N := 16.          (* sizeof(padded_entry), padding_bytes = 8 *)
Definition L_del (s : N) := LHeap s 16.
Definition L_next (s : N) := LHeap s 32.
Definition L_slot (s j : N) := LHeap s (40 + entry_size * j).
Definition tok_size : N := 8.

(** printed words: marked_ptr<_, 16> keeps the mark in the upper 16 bits *)
Definition pwv (w : N * N) : val :=
  if fst w =? 0 then VInt ((snd w mod 2 ^ 16) * 2 ^ 48) else VPtr (LHeap (fst w) 0) (snd w mod 2 ^ 16).
Definition bv (b : bool) : val := VInt (if b then 1 else 0).

Definition iw_eqb (a b : iw) : bool := (fst a =? fst b) && (snd a =? snd b).
Definition sw_eqb (a b : sw) : bool := (fst a =? fst b) && (snd a =? snd b).

Definition setf {X : Type} (f : N -> X) (i : N) (v : X) : N -> X := fun j => if j =? i then v else f j.
Definition setf2 {X : Type} (f : N -> N -> X) (s i : N) (v : X) : N -> N -> X :=
  fun s' => if s' =? s then setf (f s') i v else f s'.

Definition mem (b : N) (l : list N) : bool := existsb (N.eqb b) l.
Definition commit (b : N) (l : list N) : list N := if mem b l then l else l ++ [b].

Definition init : state :=
  mkSt (1, 0) (1, 0) (fun _ => (0, 0)) (fun _ => false) (fun _ _ => (0, 0)) (fun _ => 0) 2 (fun _ => Idle)
       [] [] [] [1] [] [] 0.

(** state updates *)
Definition set_th (st : state) (t : nat) (p : pc) : state :=
  mkSt (head st) (tail st) (nxt st) (del st) (slot st) (bval st) (nalloc st) (upd (th st) t p)
       (g_in st) (g_out st) (g_ok st) (g_segs st) (g_retired st) (g_freed st) (g_nch st).
Definition set_head (st : state) (w : iw) : state :=
  mkSt w (tail st) (nxt st) (del st) (slot st) (bval st) (nalloc st) (th st)
       (g_in st) (g_out st) (g_ok st) (g_segs st) (g_retired st) (g_freed st) (g_nch st).
Definition set_tail (st : state) (w : iw) : state :=
  mkSt (head st) w (nxt st) (del st) (slot st) (bval st) (nalloc st) (th st)
       (g_in st) (g_out st) (g_ok st) (g_segs st) (g_retired st) (g_freed st) (g_nch st).
(** link segment n behind segment s *)
Definition set_next (st : state) (s : N) (w : iw) : state :=
  mkSt (head st) (tail st) (setf (nxt st) s w) (del st) (slot st) (bval st) (nalloc st) (th st)
       (g_in st) (g_out st) (g_ok st) (g_segs st ++ [fst w]) (g_retired st) (g_freed st) (g_nch st).
Definition set_del (st : state) (s : N) : state :=
  mkSt (head st) (tail st) (nxt st) (setf (del st) s true) (slot st) (bval st) (nalloc st) (th st)
       (g_in st) (g_out st) (g_ok st) (g_segs st) (g_retired st) (g_freed st) (g_nch st).
Definition set_slot (st : state) (s j : N) (w : sw) : state :=
  mkSt (head st) (tail st) (nxt st) (del st) (setf2 (slot st) s j w) (bval st) (nalloc st) (th st)
       (g_in st) (g_out st) (g_ok st) (g_segs st) (g_retired st) (g_freed st) (g_nch st).
Definition set_in (st : state) (l : list N) : state :=
  mkSt (head st) (tail st) (nxt st) (del st) (slot st) (bval st) (nalloc st) (th st)
       l (g_out st) (g_ok st) (g_segs st) (g_retired st) (g_freed st) (g_nch st).
Definition set_out (st : state) (l : list N) : state :=
  mkSt (head st) (tail st) (nxt st) (del st) (slot st) (bval st) (nalloc st) (th st)
       (g_in st) l (g_ok st) (g_segs st) (g_retired st) (g_freed st) (g_nch st).
Definition set_ok (st : state) (l : list N) : state :=
  mkSt (head st) (tail st) (nxt st) (del st) (slot st) (bval st) (nalloc st) (th st)
       (g_in st) (g_out st) l (g_segs st) (g_retired st) (g_freed st) (g_nch st).
Definition retire (st : state) (s : N) : state :=
  mkSt (head st) (tail st) (nxt st) (del st) (slot st) (bval st) (nalloc st) (th st)
       (g_in st) (g_out st) (g_ok st) (g_segs st) (g_retired st ++ [s]) (g_freed st) (g_nch st).
Definition release (st : state) (s : N) : state :=
  mkSt (head st) (tail st) (nxt st) (del st) (slot st) (bval st) (nalloc st) (th st)
       (g_in st) (g_out st) (g_ok st) (g_segs st) (g_retired st) (g_freed st ++ [s]) (g_nch st).
Definition draw (st : state) : state :=
  mkSt (head st) (tail st) (nxt st) (del st) (slot st) (bval st) (nalloc st) (th st)
       (g_in st) (g_out st) (g_ok st) (g_segs st) (g_retired st) (g_freed st) (g_nch st + 1).
(** a token for value v *)
Definition alloc (st : state) (v : N) : state :=
  mkSt (head st) (tail st) (nxt st) (del st) (slot st) (setf (bval st) (nalloc st) v) (nalloc st + 1) (th st)
       (g_in st) (g_out st) (g_ok st) (g_segs st) (g_retired st) (g_freed st) (g_nch st).
(** a segment (deleted{false}, next{}, k value-initialised entries: plain initialisations) *)
Definition alloc_seg (st : state) : state :=
  mkSt (head st) (tail st) (nxt st) (del st) (slot st) (bval st) (nalloc st + 1) (th st)
       (g_in st) (g_out st) (g_ok st) (g_segs st) (g_retired st) (g_freed st) (g_nch st).

(** utils::random() under the harness: xv::choose(64); random_index = random() % k *)
Definition rnd (r : N) : N := r mod 64.
Definition bump (w : iw) : iw := (fst w, snd w + 1).

Section Kfq.
  Variable k : N.

  (** find_index: (random_index + i) % k *)
  Definition fidx (ri i : N) : N := (ri + i) mod k.
  Definition seg_size : N := 40 + entry_size * k.

  (** where advance_tail returns to *)
  Definition kpc (c : cont) : pc :=
    match c with KPush b => P1 b | KPop hd j p tg => D4 hd j p tg end.

  (** results: [1] ok / [1;v] popped payload v / [2] empty *)
  Definition step (st : state) (a : action) : option (state * list ev) :=
    match a with
    | Start t o =>
      match th st t with
      | Idle => Some (set_th st t (Begin o), [])
      | _ => None
      end
    | Step t r =>
      let go (p : pc) (e : list ev) := Some (set_th st t p, e) in
      let ret (s1 : state) (res : list N) (e : list ev) := Some (set_th s1 t Idle, e ++ [ERet t res]) in
      (* push returns for pointer b: committed() answered true *)
      let ret_ok (s1 : state) (b : N) (e : list ev) :=
        ret (set_ok (set_in s1 (commit b (g_in s1))) (g_ok s1 ++ [b])) [1] e in
      match th st t with
      | Idle => None
      | Begin (OPush v) =>
        Some (set_th (alloc st v) t (P1 (nalloc st)), [EStart t 0 [v]; EAlloc t (nalloc st) tok_size])
      | Begin OPop => go D1 [EStart t 1 []]
      (* ---- push ---- *)
      | P1 b =>
        Some (set_th (draw st) t (PF b (tail st) (rnd r mod k) 0),
              [ELoad t L_tail mo_acq (pwv (tail st)); ENote t 130 [rnd r; 64]])
      | PF b tl ri i =>
        let j := fidx ri i in
        let w := slot st (fst tl) j in
        go (if fst w =? 0 then P2 b tl j (snd w) else if i + 1 <? k then PF b tl ri (i + 1) else P2n b tl)
           [ELoad t (L_slot (fst tl) j) mo_rlx (pwv w)]
      | P2 b tl j otag =>
        go (if iw_eqb tl (tail st) then P3 b tl j otag else P1 b) [ELoad t L_tail mo_rlx (pwv (tail st))]
      | P2n b tl =>
        go (if iw_eqb tl (tail st) then A1 (KPush b) tl else P1 b) [ELoad t L_tail mo_rlx (pwv (tail st))]
      | P3 b tl j otag =>
        if sw_eqb (slot st (fst tl) j) (0, otag) then
          Some (set_th (set_slot st (fst tl) j (b, otag + 1)) t (C1 b tl j (otag + 1)),
                [ERmw t (L_slot (fst tl) j) mo_rel (pwv (0, otag)) (pwv (b, otag + 1))])
        else go (P1 b) [ECasF t (L_slot (fst tl) j) mo_rel mo_rlx (pwv (slot st (fst tl) j)) (pwv (0, otag))]
      (* ---- committed ---- *)
      | C1 b tl j tg =>
        let e := [ELoad t (L_slot (fst tl) j) mo_rlx (pwv (slot st (fst tl) j))] in
        if sw_eqb (slot st (fst tl) j) (b, tg) then go (C2 b tl j tg) e else ret_ok st b e
      | C2 b tl j tg => go (C3 b tl j tg) [EFence t mo_sc]
      | C3 b tl j tg =>
        go (if del st (fst tl) then C9 b tl j tg else C4 b tl j tg) [ELoad t (L_del (fst tl)) mo_rlx (bv (del st (fst tl)))]
      | C4 b tl j tg =>
        go (if fst tl =? fst (head st) then C5 b tl j tg (head st) else C7 b tl j tg)
           [ELoad t L_head mo_acq (pwv (head st))]
      | C5 b tl j tg hc =>
        if iw_eqb (head st) hc then
          ret_ok (set_head st (bump hc)) b [ERmw t L_head mo_rel (pwv hc) (pwv (bump hc))]
        else go (C9 b tl j tg) [ECasF t L_head mo_rel mo_rlx (pwv (head st)) (pwv hc)]
      | C7 b tl j tg =>
        let e := [ELoad t (L_del (fst tl)) mo_rlx (bv (del st (fst tl)))] in
        if del st (fst tl) then go (C9 b tl j tg) e else ret_ok st b e
      | C9 b tl j tg =>
        if sw_eqb (slot st (fst tl) j) (b, tg) then
          Some (set_th (set_slot st (fst tl) j (0, tg + 1)) t (P1 b),
                [ERmw t (L_slot (fst tl) j) mo_rlx (pwv (b, tg)) (pwv (0, tg + 1))])
        else ret_ok st b [ECasF t (L_slot (fst tl) j) mo_rlx mo_rlx (pwv (slot st (fst tl) j)) (pwv (b, tg))]
      (* ---- advance_tail ---- *)
      | A1 c tl => go (A2 c tl (nxt st (fst tl))) [ELoad t (L_next (fst tl)) mo_acq (pwv (nxt st (fst tl)))]
      | A2 c tl nx =>
        let e := [ELoad t L_tail mo_rlx (pwv (tail st))] in
        if iw_eqb tl (tail st) then
          if fst nx =? 0 then
            Some (set_th (alloc_seg st) t (A4 c tl nx (nalloc st)), e ++ [EAlloc t (nalloc st) seg_size])
          else go (A3 c tl nx) e
        else go (kpc c) e
      | A3 c tl nx =>
        if iw_eqb (tail st) tl then
          Some (set_th (set_tail st (bump nx)) t (kpc c), [ERmw t L_tail mo_rel (pwv tl) (pwv (bump nx))])
        else go (kpc c) [ECasF t L_tail mo_rel mo_rlx (pwv (tail st)) (pwv tl)]
      | A4 c tl nx n =>
        if iw_eqb (nxt st (fst tl)) nx then
          Some (set_th (set_next st (fst tl) (n, snd nx + 1)) t (A5 c tl n),
                [ERmw t (L_next (fst tl)) mo_rel (pwv nx) (pwv (n, snd nx + 1))])
        else
          Some (set_th (release st n) t (kpc c),
                [ECasF t (L_next (fst tl)) mo_rel mo_rlx (pwv (nxt st (fst tl))) (pwv nx); EFree t n])
      | A5 c tl n =>
        if iw_eqb (tail st) tl then
          Some (set_th (set_tail st (n, snd tl + 1)) t (kpc c), [ERmw t L_tail mo_rel (pwv tl) (pwv (n, snd tl + 1))])
        else go (kpc c) [ECasF t L_tail mo_rel mo_rlx (pwv (tail st)) (pwv tl)]
      (* ---- do_pop ---- *)
      | D1 => go (D1f (head st)) [ELoad t L_head mo_acq (pwv (head st))]
      | D1f hd =>
        Some (set_th (draw st) t (DF hd (rnd r mod k) 0), [EFence t mo_sc; ENote t 130 [rnd r; 64]])
      | DF hd ri i =>
        let j := fidx ri i in
        let w := slot st (fst hd) j in
        go (if negb (fst w =? 0) then D2 hd j (fst w) (snd w) else if i + 1 <? k then DF hd ri (i + 1) else D2n hd)
           [ELoad t (L_slot (fst hd) j) mo_rlx (pwv w)]
      | D2 hd j p tg =>
        go (if iw_eqb hd (head st) then D3 hd j p tg else D1) [ELoad t L_head mo_rlx (pwv (head st))]
      | D2n hd =>
        go (if iw_eqb hd (head st) then D3n hd else D1) [ELoad t L_head mo_rlx (pwv (head st))]
      | D3 hd j p tg =>
        go (if fst hd =? fst (tail st) then A1 (KPop hd j p tg) (tail st) else D4 hd j p tg)
           [ELoad t L_tail mo_acq (pwv (tail st))]
      | D3n hd =>
        go (if fst hd =? fst (tail st) then DE hd (tail st) else H1 hd (tail st))
           [ELoad t L_tail mo_acq (pwv (tail st))]
      | D4 hd j p tg =>
        if sw_eqb (slot st (fst hd) j) (p, tg) then
          let s1 := set_slot st (fst hd) j (0, tg + 1) in
          ret (set_out (set_in s1 (commit p (g_in st))) (g_out st ++ [p])) [1; bval st p]
              [ERmw t (L_slot (fst hd) j) mo_acq (pwv (p, tg)) (pwv (0, tg + 1)); EFree t p]
        else go D1 [ECasF t (L_slot (fst hd) j) mo_acq mo_rlx (pwv (slot st (fst hd) j)) (pwv (p, tg))]
      | DE hd tl =>
        let e := [ELoad t L_tail mo_rlx (pwv (tail st))] in
        if iw_eqb tl (tail st) then ret st [2] e else go (H1 hd tl) e
      (* ---- advance_head ---- *)
      | H1 hd tl => go (H2 hd tl (nxt st (fst hd))) [ELoad t (L_next (fst hd)) mo_acq (pwv (nxt st (fst hd)))]
      | H2 hd tl hn =>
        go (if iw_eqb hd (head st) then (if fst hd =? fst tl then H3 hd tl hn else H6 hd hn) else D1)
           [ELoad t L_head mo_rlx (pwv (head st))]
      | H3 hd tl hn =>
        let tn := nxt st (fst tl) in
        go (if fst tn =? 0 then D1 else H4 hd tl hn tn) [ELoad t (L_next (fst tl)) mo_acq (pwv tn)]
      | H4 hd tl hn tn =>
        go (if iw_eqb tl (tail st) then H5 hd tl hn tn else H6 hd hn) [ELoad t L_tail mo_rlx (pwv (tail st))]
      | H5 hd tl hn tn =>
        if iw_eqb (tail st) tl then
          Some (set_th (set_tail st (fst tn, snd tl + 1)) t (H6 hd hn),
                [ERmw t L_tail mo_rel (pwv tl) (pwv (fst tn, snd tl + 1))])
        else go (H6 hd hn) [ECasF t L_tail mo_rel mo_rlx (pwv (tail st)) (pwv tl)]
      | H6 hd hn =>
        Some (set_th (set_del st (fst hd)) t (H7 hd hn), [EStore t (L_del (fst hd)) mo_rlx (bv true)])
      | H7 hd hn =>
        if iw_eqb (head st) hd then
          Some (set_th (retire (set_head st (fst hn, snd hd + 1)) (fst hd)) t D1,
                [ERmw t L_head mo_rel (pwv hd) (pwv (fst hn, snd hd + 1)); ENote t 120 [fst hd]])
        else go D1 [ECasF t L_head mo_rel mo_rlx (pwv (head st)) (pwv hd)]
      end
    end.
End Kfq.
