(** Step-level model of xenium::reclamation::epoch_based<> = generic_epoch_based<> with the traits
    scan_frequency<1> (harness/recl_types.hpp: EBR), scan::all_threads, abandon::never,
    region_extension::none  (xenium/reclamation/generic_epoch_based.hpp, impl/generic_epoch_based.hpp,
    detail/thread_block_list.hpp, detail/retire_list.hpp), driven by the generic protocol-conforming
    client of harness/h_recl.cpp (built as build/h_recl_ebr / build/h_ebr).

    Client operations (c = cell = a concurrent_ptr of the client, s = a persistent guard_ptr of the thread):
      repl c    g.acquire(cell[c]); n = new Node; if CAS(cell[c], g, n) g.reclaim() else delete n
      clear c   the same with n = nullptr
      read c    g.acquire(cell[c]); dereference; g.reset()
      hold c s  guards[s].acquire(cell[c]); dereference        (stays protected across operations)
      drop s    guards[s].reset()
      deref s   dereference guards[s]
      exit      the thread ends: its guards are reset (harness thread_end), then ~thread_data hands the three
                retire lists over to the global orphan lists and releases the thread control block.
                The exit has no START event: [Start t OExit] moves the thread to the first atomic access
                of the exit sequence (the thread takes no step at all when it never owned a control block).
    Not modelled: enter / leave (region_guard).  With region_extension::none a region_guard only makes sure that the
    thread has a control block; the harness additionally heap-allocates the guard object, and a guard object that is
    still alive at the end of the program is freed by thread_end in the tail of the last operation's final step, which
    a model that does not know the program cannot reproduce.  Also not modelled: copy / move / swap of guards.

    guard_ptr::acquire(p):            A1  p.load(relaxed); nullptr -> reset()
                                          if (!this->ptr) enter_critical()
                                      A2  this->ptr = p.load(acquire); nullptr -> leave_critical()
    enter_critical():                 ensure_has_control_block(); if (++nested_critical_entries == 1) do_enter_critical()
    acquire_control_block():          C1  head.load(acquire)                               (adopt_or_create_entry)
                                      C2  r->state.load(relaxed) == free ?
                                      C3  r->state.CAS(free -> active, acquire)
                                          new thread_control_block  (ALLOC, in the preceding step)
                                      C4  result->state.store(active, relaxed)
                                      C5  h = head.load(relaxed)
                                      C6  head.CAS_weak(h -> result, release/relaxed)      (retry with the seen value)
                                      C7  epoch = global_epoch.load(relaxed)
                                      C8  local_epoch.store(epoch, relaxed); local_epoch_idx = epoch % 3
    do_enter_critical():              E1  is_in_critical_region.store(true, relaxed)
                                      E2  fence(seq_cst)
                                      E3  epoch = global_epoch.load(acquire)
                                      E4  local_epoch.load(relaxed) != epoch ?  -> update_local_epoch(epoch)
                                          else if (critical_entries_since_update++ == 1) scan ...
    scan (all_threads):               S1  head.load(acquire)
                                      S2  p->is_in_critical_region.load(relaxed)
                                      S3  p->local_epoch.load(relaxed) != epoch ? -> give up
    update_global_epoch(e, e+1):      G1  global_epoch.load(relaxed) == e ?   (otherwise straight to update_local_epoch(e+1))
                                      G2  fence(acquire)
                                      G3  orphans[(e+1)%3].head.load(relaxed) == nullptr ?
                                      G4  orphans[(e+1)%3].head.exchange(nullptr, acquire)
                                      G5  global_epoch.CAS(e -> e+1, release/relaxed); success: delete the adopted nodes
                                      G6  (failure, adopted != nullptr) h = orphans[idx].head.load(relaxed)
                                      G7  orphans[idx].head.CAS_weak(h -> adopted, release/relaxed)
    update_local_epoch(new):          U1  old = local_epoch.load(relaxed)
                                      U2  local_epoch.store(new, relaxed); delete retire_lists[(new-i)%3], i < min(3,new-old)
    leave_critical():                 LV  (--nested == 0) is_in_critical_region.store(false, release)
    ~thread_data():                   X0  (harness: the held guards are reset) is_in_critical_region.store(false, release)
                                      X1  h = orphans[i].head.load(relaxed)        for every non-empty retire_lists[i]
                                      X2  orphans[i].head.CAS_weak(h -> first, release/relaxed)
                                      X3  control_block->state.store(free, release)

    One [Step] = one atomic access or fence, emitting exactly the event rt/xvrt prints; allocations and frees are
    not scheduling points and belong to the step of the preceding atomic access.  compare_exchange_weak never
    fails spuriously under xvrt.  Heap blocks are numbered in allocation order (block i = "h<i>"); the cells'
    initial nodes are blocks 0..ncells-1.  The thread block list is immutable except for insertion at the
    head, so a traversal carries the remaining suffix of the list.

    Ghosts: [g_owner b] the thread owning control block b; [g_life n] the life cycle of node n
    (fresh / published in cell c / unlinked and retired by t in local epoch r / dropped by its creator);
    [g_where n] where a retired node is (retire list i of thread t / orphan list i / adopted by t, in flight /
    freed); [g_nfree n] how often the reclaimer freed n; [g_uaf] a dereference hit a destroyed node. *)
From Coq Require Import NArith List Bool.
From XV Require Import Conc.Lts Conc.Ev.
Import ListNotations.
Local Open Scope N_scope.

Inductive op :=
| ORepl (c : N) | OClear (c : N) | ORead (c : N) | OHold (c : N) (s : nat) | ODrop (s : nat) | ODeref (s : nat) | OExit.

(** what an acquire belongs to: repl/clear ([fresh] = a new node is installed), read, hold *)
Inductive ctx := KRepl (c : N) (fresh : bool) | KRead (c : N) | KHold (c : N) (s : nat).

(** what follows leave_critical: the operation returns [r] / repl continues with an empty guard *)
Inductive lcont := LFin (r : list N) | LRepl (c : N) (fresh : bool).

Inductive pc :=
| Idle
| Begin (o : op)
| A1 (k : ctx)
| C1 (k : ctx) | C2 (k : ctx) (r : N) (rest : list N) | C3 (k : ctx) (r : N) (rest : list N)
| C4 (k : ctx) (b : N) | C5 (k : ctx) (b : N) | C6 (k : ctx) (b : N) (h : option N)
| C7 (k : ctx) | C8 (k : ctx) (e : N)
| E1 (k : ctx) | E2 (k : ctx) | E3 (k : ctx) | E4 (k : ctx) (e : N)
| S1 (k : ctx) (e : N) | S2 (k : ctx) (e : N) (p : N) (rest : list N) | S3 (k : ctx) (e : N) (p : N) (rest : list N)
| G1 (k : ctx) (e : N) | G2 (k : ctx) (e : N) | G3 (k : ctx) (e : N) | G4 (k : ctx) (e : N)
| G5 (k : ctx) (e : N) (l : list N) | G6 (k : ctx) (e : N) (l : list N) | G7 (k : ctx) (e : N) (l : list N) (h : option N)
| U1 (k : ctx) (new : N) | U2 (k : ctx) (new old : N)
| A2 (k : ctx)
| R3 (c : N) (g : option N) (n : option N)
| LV (k : lcont)
| X0 | X1 (i : N) | X2 (i : N) (h : option N) | X3.

Inductive life := LNone | LFresh (t : nat) | LPub (c : N) | LRet (t : nat) (r : N) | LDropped.
Inductive place := PNone | PList (t : nat) (i : N) | POrph (i : N) | PFlight (t : nat) | PFreed.

(** thread_data: control_block, nested_critical_entries, critical_entries_since_update (0/1 for scan_frequency 1),
    local_epoch_idx, retire_lists[3]; plus the client's persistent guards of the thread *)
Record tls := mkTl { cb : option N; nest : nat; ces : bool; lidx : N; rl : N -> list N; gs : nat -> option N }.

Record state := mkSt {
  gep : N;                         (* global_epoch *)
  blist : list N;                  (* global_thread_block_list, head first *)
  bstate : N -> N;                 (* entry::state: 0 free, 2 active *)
  bflag : N -> bool;               (* is_in_critical_region *)
  blocal : N -> N;                 (* local_epoch *)
  orph : N -> list N;              (* orphans[i]: the chain hanging off its head *)
  cells : N -> option N;           (* the client's concurrent_ptrs *)
  nalloc : N;                      (* number of tracked heap blocks allocated so far *)
  nextid : N; nid : N -> N;        (* the harness' node ids (what a dereference returns) *)
  th : nat -> pc; tl : nat -> tls;
  g_owner : N -> option nat; g_life : N -> life; g_where : N -> place; g_nfree : N -> nat; g_uaf : bool }.

Inductive action := Start (t : nat) (o : op) | Step (t : nat).

(** ** setters *)
Definition w_gep v (st : state) : state := mkSt v (blist st) (bstate st) (bflag st) (blocal st) (orph st) (cells st) (nalloc st) (nextid st) (nid st) (th st) (tl st) (g_owner st) (g_life st) (g_where st) (g_nfree st) (g_uaf st).
Definition w_blist v (st : state) : state := mkSt (gep st) v (bstate st) (bflag st) (blocal st) (orph st) (cells st) (nalloc st) (nextid st) (nid st) (th st) (tl st) (g_owner st) (g_life st) (g_where st) (g_nfree st) (g_uaf st).
Definition w_bstate v (st : state) : state := mkSt (gep st) (blist st) v (bflag st) (blocal st) (orph st) (cells st) (nalloc st) (nextid st) (nid st) (th st) (tl st) (g_owner st) (g_life st) (g_where st) (g_nfree st) (g_uaf st).
Definition w_bflag v (st : state) : state := mkSt (gep st) (blist st) (bstate st) v (blocal st) (orph st) (cells st) (nalloc st) (nextid st) (nid st) (th st) (tl st) (g_owner st) (g_life st) (g_where st) (g_nfree st) (g_uaf st).
Definition w_blocal v (st : state) : state := mkSt (gep st) (blist st) (bstate st) (bflag st) v (orph st) (cells st) (nalloc st) (nextid st) (nid st) (th st) (tl st) (g_owner st) (g_life st) (g_where st) (g_nfree st) (g_uaf st).
Definition w_orph v (st : state) : state := mkSt (gep st) (blist st) (bstate st) (bflag st) (blocal st) v (cells st) (nalloc st) (nextid st) (nid st) (th st) (tl st) (g_owner st) (g_life st) (g_where st) (g_nfree st) (g_uaf st).
Definition w_cells v (st : state) : state := mkSt (gep st) (blist st) (bstate st) (bflag st) (blocal st) (orph st) v (nalloc st) (nextid st) (nid st) (th st) (tl st) (g_owner st) (g_life st) (g_where st) (g_nfree st) (g_uaf st).
Definition w_nalloc v (st : state) : state := mkSt (gep st) (blist st) (bstate st) (bflag st) (blocal st) (orph st) (cells st) v (nextid st) (nid st) (th st) (tl st) (g_owner st) (g_life st) (g_where st) (g_nfree st) (g_uaf st).
Definition w_nextid v (st : state) : state := mkSt (gep st) (blist st) (bstate st) (bflag st) (blocal st) (orph st) (cells st) (nalloc st) v (nid st) (th st) (tl st) (g_owner st) (g_life st) (g_where st) (g_nfree st) (g_uaf st).
Definition w_nid v (st : state) : state := mkSt (gep st) (blist st) (bstate st) (bflag st) (blocal st) (orph st) (cells st) (nalloc st) (nextid st) v (th st) (tl st) (g_owner st) (g_life st) (g_where st) (g_nfree st) (g_uaf st).
Definition w_th v (st : state) : state := mkSt (gep st) (blist st) (bstate st) (bflag st) (blocal st) (orph st) (cells st) (nalloc st) (nextid st) (nid st) v (tl st) (g_owner st) (g_life st) (g_where st) (g_nfree st) (g_uaf st).
Definition w_tl v (st : state) : state := mkSt (gep st) (blist st) (bstate st) (bflag st) (blocal st) (orph st) (cells st) (nalloc st) (nextid st) (nid st) (th st) v (g_owner st) (g_life st) (g_where st) (g_nfree st) (g_uaf st).
Definition w_g_owner v (st : state) : state := mkSt (gep st) (blist st) (bstate st) (bflag st) (blocal st) (orph st) (cells st) (nalloc st) (nextid st) (nid st) (th st) (tl st) v (g_life st) (g_where st) (g_nfree st) (g_uaf st).
Definition w_g_life v (st : state) : state := mkSt (gep st) (blist st) (bstate st) (bflag st) (blocal st) (orph st) (cells st) (nalloc st) (nextid st) (nid st) (th st) (tl st) (g_owner st) v (g_where st) (g_nfree st) (g_uaf st).
Definition w_g_where v (st : state) : state := mkSt (gep st) (blist st) (bstate st) (bflag st) (blocal st) (orph st) (cells st) (nalloc st) (nextid st) (nid st) (th st) (tl st) (g_owner st) (g_life st) v (g_nfree st) (g_uaf st).
Definition w_g_nfree v (st : state) : state := mkSt (gep st) (blist st) (bstate st) (bflag st) (blocal st) (orph st) (cells st) (nalloc st) (nextid st) (nid st) (th st) (tl st) (g_owner st) (g_life st) (g_where st) v (g_uaf st).
Definition w_g_uaf v (st : state) : state := mkSt (gep st) (blist st) (bstate st) (bflag st) (blocal st) (orph st) (cells st) (nalloc st) (nextid st) (nid st) (th st) (tl st) (g_owner st) (g_life st) (g_where st) (g_nfree st) v.
Definition wt_cb v (x : tls) : tls := mkTl v (nest x) (ces x) (lidx x) (rl x) (gs x).
Definition wt_nest v (x : tls) : tls := mkTl (cb x) v (ces x) (lidx x) (rl x) (gs x).
Definition wt_ces v (x : tls) : tls := mkTl (cb x) (nest x) v (lidx x) (rl x) (gs x).
Definition wt_lidx v (x : tls) : tls := mkTl (cb x) (nest x) (ces x) v (rl x) (gs x).
Definition wt_rl v (x : tls) : tls := mkTl (cb x) (nest x) (ces x) (lidx x) v (gs x).
Definition wt_gs v (x : tls) : tls := mkTl (cb x) (nest x) (ces x) (lidx x) (rl x) v.

Definition updN {X : Type} (f : N -> X) (i : N) (v : X) : N -> X := fun j => if j =? i then v else f j.
Definition set_pc (t : nat) (p : pc) (st : state) : state := w_th (upd (th st) t p) st.
Definition set_tl (t : nat) (x : tls) (st : state) : state := w_tl (upd (tl st) t x) st.

(** ** locations and values *)
Definition L_head := LNamed 0 0.
Definition L_gep := LNamed 1 0.
Definition L_orph (i : N) := LNamed (2 + i) 0.
Definition L_cell (c : N) := LNamed (10 + c) 0.
Definition L_bstate (b : N) := LHeap b 8.      (* thread_control_block: next_entry 0, state 8, is_in_critical_region 12, local_epoch 16 *)
Definition L_bflag (b : N) := LHeap b 12.
Definition L_blocal (b : N) := LHeap b 16.
Definition tcb_size : N := 24.
Definition node_size : N := 40.
Definition vptr (p : option N) : val := match p with None => VInt 0 | Some n => VPtr (LHeap n 0) 0 end.
Definition vbool (b : bool) : val := VInt (if b then 1 else 0).
Definition hd_opt (l : list N) : option N := match l with [] => None | x :: _ => Some x end.
Definition oeqb (a b : option N) : bool :=
  match a, b with None, None => true | Some x, Some y => x =? y | _, _ => false end.
Definition memN (n : N) (l : list N) : bool := existsb (N.eqb n) l.
Definition is_nil (l : list N) : bool := match l with [] => true | _ => false end.
Definition is_some {X} (o : option X) : bool := match o with Some _ => true | None => false end.

(** results: ok / lost / null / the id of the dereferenced node *)
Definition r_ok : list N := [0].
Definition r_lost : list N := [1].
Definition r_null : list N := [2].
Definition r_id (i : N) : list N := [3; i].

Definition opcode (o : op) : N * list N :=
  match o with
  | ORepl c => (0, [c]) | OClear c => (1, [c]) | ORead c => (2, [c])
  | OHold c s => (3, [c; N.of_nat s]) | ODrop s => (4, [N.of_nat s]) | ODeref s => (5, [N.of_nat s]) | OExit => (6, [])
  end.

Definition cell_of (k : ctx) : N := match k with KRepl c _ => c | KRead c => c | KHold c _ => c end.

(** number of non-empty guards among the slots 0..n-1 *)
Fixpoint cnt_held (g : nat -> option N) (n : nat) : nat :=
  match n with O => O | S m => ((if is_some (g m) then 1 else 0) + cnt_held g m)%nat end.

Definition tl0 : tls := mkTl None 0 false 0 (fun _ => []) (fun _ => None).

Definition init (ncells : N) : state :=
  mkSt 0 [] (fun _ => 0) (fun _ => false) (fun _ => 0) (fun _ => [])
       (fun c => if c <? ncells then Some c else None) ncells (ncells + 1) (fun n => n + 1)
       (fun _ => Idle) (fun _ => tl0)
       (fun _ => None) (fun n => if n <? ncells then LPub n else LNone) (fun _ => PNone) (fun _ => O) false.

(** a node the reclaimer has destroyed (or its creator dropped) *)
Definition dead (st : state) (n : N) : bool :=
  negb (Nat.eqb (g_nfree st n) 0) || match g_life st n with LDropped => true | _ => false end.

(** dereference of node n *)
Definition deref (n : N) (st : state) : state := w_g_uaf (g_uaf st || dead st n) st.

(** the reclaimer runs the deleters of the nodes of [l] *)
Definition free_all (l : list N) (st : state) : state :=
  w_g_nfree (fun n => (g_nfree st n + length (filter (N.eqb n) l))%nat)
    (w_g_where (fun n => if memN n l then PFreed else g_where st n) st).
Definition free_evs (t : nat) (l : list N) : list ev := map (EFree t) l.

Definition move_all (l : list N) (p : place) (st : state) : state :=
  w_g_where (fun n => if memN n l then p else g_where st n) st.

(** first non-empty retire list from index i on (thread exit) *)
Definition xnext (r : N -> list N) (i : N) : pc :=
  if (i <=? 0) && negb (is_nil (r 0)) then X1 0
  else if (i <=? 1) && negb (is_nil (r 1)) then X1 1
  else if (i <=? 2) && negb (is_nil (r 2)) then X1 2
  else X3.

(** epoch slots reclaimed by update_local_epoch(new) when the local epoch was old, in the order of the loop *)
Definition uslots (new old : N) : list N :=
  let d := N.min 3 (new - old) in
  if d =? 0 then [] else if d =? 1 then [new mod 3]
  else if d =? 2 then [(new - 1) mod 3; new mod 3] else [(new - 2) mod 3; (new - 1) mod 3; new mod 3].

Definition finish (st : state) (t : nat) (r : list N) (e : list ev) : option (state * list ev) :=
  Some (set_pc t Idle st, e ++ [ERet t r]).

(** the CAS of repl/clear comes next; [repl] allocates its new node first *)
Definition to_cas (st : state) (t : nat) (c : N) (g : option N) (fresh : bool) (e : list ev) : option (state * list ev) :=
  if fresh then
    let n := nalloc st in
    Some (set_pc t (R3 c g (Some n))
            (w_nalloc (n + 1) (w_nextid (nextid st + 1) (w_nid (updN (nid st) n (nextid st)) (w_g_life (updN (g_life st) n (LFresh t)) st)))),
          e ++ [EAlloc t n node_size])
  else Some (set_pc t (R3 c g None) st, e).

Definition do_cont (st : state) (t : nat) (k : lcont) (e : list ev) : option (state * list ev) :=
  match k with LFin r => finish st t r e | LRepl c fresh => to_cas st t c None fresh e end.

(** leave_critical, then [k] *)
Definition leave (st : state) (t : nat) (k : lcont) (e : list ev) : option (state * list ev) :=
  let x := tl st t in
  let st1 := set_tl t (wt_nest (pred (nest x)) x) st in
  if Nat.eqb (pred (nest x)) 0 then Some (set_pc t (LV k) st1, e) else do_cont st1 t k e.

(** enter_critical with a control block: ++nested == 1 -> do_enter_critical *)
Definition enter_cb (st : state) (t : nat) (k : ctx) (e : list ev) : option (state * list ev) :=
  let x := tl st t in
  Some (set_pc t (if Nat.eqb (nest x) 0 then E1 k else A2 k) (set_tl t (wt_nest (S (nest x)) x) st), e).

Definition enter (st : state) (t : nat) (k : ctx) (e : list ev) : option (state * list ev) :=
  match cb (tl st t) with
  | None => Some (set_pc t (C1 k) st, e)
  | Some _ => enter_cb st t k e
  end.

(** adopt_or_create_entry: next entry of the walk, or a new control block (constructor: state active,
    is_in_critical_region false, local_epoch 3) *)
Definition walk (st : state) (t : nat) (k : ctx) (l : list N) (e : list ev) : option (state * list ev) :=
  match l with
  | r :: rest => Some (set_pc t (C2 k r rest) st, e)
  | [] =>
    let b := nalloc st in
    Some (set_pc t (C4 k b)
            (w_nalloc (b + 1) (w_bstate (updN (bstate st) b 2) (w_bflag (updN (bflag st) b false)
               (w_blocal (updN (blocal st) b 3) (w_g_owner (updN (g_owner st) b (Some t)) st))))),
          e ++ [EAlloc t b tcb_size])
  end.

Definition scan_next (st : state) (t : nat) (k : ctx) (ep : N) (l : list N) (e : list ev) : option (state * list ev) :=
  match l with
  | p :: rest => Some (set_pc t (S2 k ep p rest) st, e)
  | [] => Some (set_pc t (G1 k ep) st, e)
  end.

Definition step (nslots : nat) (st : state) (a : action) : option (state * list ev) :=
  match a with
  | Start t o =>
    match th st t with
    | Idle =>
      match o with
      | OExit =>
        match cb (tl st t) with
        | None => None
        | Some _ => Some (set_pc t (if Nat.eqb (cnt_held (gs (tl st t)) nslots) 0 then xnext (rl (tl st t)) 0 else X0) st, [])
        end
      | OHold _ s | ODrop s | ODeref s => if Nat.ltb s nslots then Some (set_pc t (Begin o) st, []) else None
      | _ => Some (set_pc t (Begin o) st, [])
      end
    | _ => None
    end
  | Step t =>
    let x := tl st t in
    let go (p : pc) (e : list ev) := Some (set_pc t p st, e) in
    match th st t with
    | Idle => None
    | Begin o =>
      let es := [EStart t (fst (opcode o)) (snd (opcode o))] in
      match o with
      | ORepl c => go (A1 (KRepl c true)) es
      | OClear c => go (A1 (KRepl c false)) es
      | ORead c => go (A1 (KRead c)) es
      | OHold c s => go (A1 (KHold c s)) es
      | ODrop s =>
        match gs x s with
        | Some _ => leave (set_tl t (wt_gs (upd (gs x) s None) x) st) t (LFin r_ok) es
        | None => finish st t r_ok es
        end
      | ODeref s =>
        match gs x s with
        | Some n => finish (deref n st) t (r_id (nid st n)) es
        | None => finish st t r_null es
        end
      | OExit => None
      end
    (* ---- guard_ptr::acquire ---- *)
    | A1 k =>
      let c := cell_of k in
      let e := [ELoad t (L_cell c) mo_rlx (vptr (cells st c))] in
      match cells st c with
      | None =>
        match k with
        | KRepl c fresh => to_cas st t c None fresh e
        | KRead _ => finish st t r_null e
        | KHold _ s =>
          match gs x s with
          | Some _ => leave (set_tl t (wt_gs (upd (gs x) s None) x) st) t (LFin r_null) e
          | None => finish st t r_null e
          end
        end
      | Some _ =>
        match k with
        | KHold _ s => if is_some (gs x s) then go (A2 k) e else enter st t k e
        | _ => enter st t k e
        end
      end
    (* ---- acquire_control_block ---- *)
    | C1 k => walk st t k (blist st) [ELoad t L_head mo_acq (vptr (hd_opt (blist st)))]
    | C2 k r rest =>
      let e := [ELoad t (L_bstate r) mo_rlx (VInt (bstate st r))] in
      if bstate st r =? 0 then go (C3 k r rest) e else walk st t k rest e
    | C3 k r rest =>
      if bstate st r =? 0 then
        Some (set_pc t (C7 k) (set_tl t (wt_cb (Some r) x) (w_bstate (updN (bstate st) r 2) (w_g_owner (updN (g_owner st) r (Some t)) st))),
              [ERmw t (L_bstate r) mo_acq (VInt 0) (VInt 2)])
      else walk st t k rest [ECasF t (L_bstate r) mo_acq mo_acq (VInt (bstate st r)) (VInt 0)]
    | C4 k b => Some (set_pc t (C5 k b) (w_bstate (updN (bstate st) b 2) st), [EStore t (L_bstate b) mo_rlx (VInt 2)])
    | C5 k b => go (C6 k b (hd_opt (blist st))) [ELoad t L_head mo_rlx (vptr (hd_opt (blist st)))]
    | C6 k b h =>
      if oeqb (hd_opt (blist st)) h then
        Some (set_pc t (C7 k) (set_tl t (wt_cb (Some b) x) (w_blist (b :: blist st) st)),
              [ERmw t L_head mo_rel (vptr h) (vptr (Some b))])
      else go (C6 k b (hd_opt (blist st))) [ECasF t L_head mo_rel mo_rlx (vptr (hd_opt (blist st))) (vptr h)]
    | C7 k => go (C8 k (gep st)) [ELoad t L_gep mo_rlx (VInt (gep st))]
    | C8 k e =>
      match cb x with
      | None => None
      | Some b =>
        enter_cb (set_tl t (wt_lidx (e mod 3) x) (w_blocal (updN (blocal st) b e) st)) t k [EStore t (L_blocal b) mo_rlx (VInt e)]
      end
    (* ---- do_enter_critical ---- *)
    | E1 k =>
      match cb x with
      | None => None
      | Some b => Some (set_pc t (E2 k) (w_bflag (updN (bflag st) b true) st), [EStore t (L_bflag b) mo_rlx (VInt 1)])
      end
    | E2 k => go (E3 k) [EFence t mo_sc]
    | E3 k => go (E4 k (gep st)) [ELoad t L_gep mo_acq (VInt (gep st))]
    | E4 k e =>
      match cb x with
      | None => None
      | Some b =>
        let ev := [ELoad t (L_blocal b) mo_rlx (VInt (blocal st b))] in
        if negb (blocal st b =? e) then Some (set_pc t (U1 k e) (set_tl t (wt_ces false x) st), ev)
        else if ces x then Some (set_pc t (S1 k e) (set_tl t (wt_ces false x) st), ev)
        else Some (set_pc t (A2 k) (set_tl t (wt_ces true x) st), ev)
      end
    (* ---- scan ---- *)
    | S1 k e => scan_next st t k e (blist st) [ELoad t L_head mo_acq (vptr (hd_opt (blist st)))]
    | S2 k e p rest =>
      let ev := [ELoad t (L_bflag p) mo_rlx (vbool (bflag st p))] in
      if bflag st p then go (S3 k e p rest) ev else scan_next st t k e rest ev
    | S3 k e p rest =>
      let ev := [ELoad t (L_blocal p) mo_rlx (VInt (blocal st p))] in
      if negb (blocal st p =? e) then go (A2 k) ev else scan_next st t k e rest ev
    (* ---- update_global_epoch ---- *)
    | G1 k e =>
      let ev := [ELoad t L_gep mo_rlx (VInt (gep st))] in
      if gep st =? e then go (G2 k e) ev else go (U1 k (e + 1)) ev
    | G2 k e => go (G3 k e) [EFence t mo_acq]
    | G3 k e =>
      let i := (e + 1) mod 3 in
      let ev := [ELoad t (L_orph i) mo_rlx (vptr (hd_opt (orph st i)))] in
      if is_nil (orph st i) then go (G5 k e []) ev else go (G4 k e) ev
    | G4 k e =>
      let i := (e + 1) mod 3 in
      let l := orph st i in
      Some (set_pc t (G5 k e l) (move_all l (PFlight t) (w_orph (updN (orph st) i []) st)),
            [ERmw t (L_orph i) mo_acq (vptr (hd_opt l)) (VInt 0)])
    | G5 k e l =>
      if gep st =? e then
        Some (set_pc t (U1 k (e + 1)) (free_all l (w_gep (e + 1) st)),
              ERmw t L_gep mo_rel (VInt e) (VInt (e + 1)) :: free_evs t l)
      else
        let ev := [ECasF t L_gep mo_rel mo_rlx (VInt (gep st)) (VInt e)] in
        if is_nil l then go (U1 k (e + 1)) ev else go (G6 k e l) ev
    | G6 k e l =>
      let i := (e + 1) mod 3 in
      go (G7 k e l (hd_opt (orph st i))) [ELoad t (L_orph i) mo_rlx (vptr (hd_opt (orph st i)))]
    | G7 k e l h =>
      let i := (e + 1) mod 3 in
      if oeqb (hd_opt (orph st i)) h then
        Some (set_pc t (U1 k (e + 1)) (move_all l (POrph i) (w_orph (updN (orph st) i (l ++ orph st i)) st)),
              [ERmw t (L_orph i) mo_rel (vptr h) (vptr (hd_opt l))])
      else go (G7 k e l (hd_opt (orph st i))) [ECasF t (L_orph i) mo_rel mo_rlx (vptr (hd_opt (orph st i))) (vptr h)]
    (* ---- update_local_epoch ---- *)
    | U1 k new =>
      match cb x with
      | None => None
      | Some b => go (U2 k new (blocal st b)) [ELoad t (L_blocal b) mo_rlx (VInt (blocal st b))]
      end
    | U2 k new old =>
      match cb x with
      | None => None
      | Some b =>
        let sl := uslots new old in
        let fl := flat_map (rl x) sl in
        let x' := wt_lidx (if is_nil sl then lidx x else new mod 3) (wt_rl (fun i => if memN i sl then [] else rl x i) x) in
        Some (set_pc t (A2 k) (set_tl t x' (free_all fl (w_blocal (updN (blocal st) b new) st))),
              EStore t (L_blocal b) mo_rlx (VInt new) :: free_evs t fl)
      end
    | A2 k =>
      let c := cell_of k in
      let v := cells st c in
      let e := [ELoad t (L_cell c) mo_acq (vptr v)] in
      match k with
      | KRepl c fresh =>
        match v with
        | None => leave st t (LRepl c fresh) e
        | Some n => to_cas st t c v fresh e
        end
      | KRead _ =>
        match v with
        | None => leave st t (LFin r_null) e
        | Some n => leave (deref n st) t (LFin (r_id (nid st n))) e
        end
      | KHold _ s =>
        let st1 := set_tl t (wt_gs (upd (gs x) s v) x) st in
        match v with
        | None => leave st1 t (LFin r_null) e
        | Some n => finish (deref n st1) t (r_id (nid st n)) e
        end
      end
    (* ---- the client's CAS; success: guard.reclaim() = add_retired_node + reset ---- *)
    | R3 c g n =>
      if oeqb (cells st c) g then
        let e := [ERmw t (L_cell c) mo_acqrel (vptr g) (vptr n)] in
        let st1 := w_cells (updN (cells st) c n) st in
        let st2 := match n with Some n' => w_g_life (updN (g_life st1) n' (LPub c)) st1 | None => st1 end in
        match g with
        | Some old =>
          let r := match cb x with Some b => blocal st b | None => 0 end in
          let st3 := deref old st2 in
          let st4 := set_tl t (wt_rl (updN (rl x) (lidx x) (old :: rl x (lidx x))) x)
                       (w_g_life (updN (g_life st3) old (LRet t r)) (w_g_where (updN (g_where st3) old (PList t (lidx x))) st3)) in
          leave st4 t (LFin r_ok) e
        | None => finish st2 t r_ok e
        end
      else
        let e := ECasF t (L_cell c) mo_acqrel mo_rlx (vptr (cells st c)) (vptr g)
                 :: match n with Some n' => [EFree t n'] | None => [] end in
        let st1 := match n with Some n' => w_g_life (updN (g_life st) n' LDropped) st | None => st end in
        match g with
        | Some _ => leave st1 t (LFin r_lost) e
        | None => finish st1 t r_lost e
        end
    (* ---- leave_critical: clear_critical_region_flag ---- *)
    | LV k =>
      match cb x with
      | None => None
      | Some b => do_cont (w_bflag (updN (bflag st) b false) st) t k [EStore t (L_bflag b) mo_rel (VInt 0)]
      end
    (* ---- thread exit ---- *)
    | X0 =>
      match cb x with
      | None => None
      | Some b =>
        Some (set_pc t (xnext (rl x) 0) (set_tl t (wt_nest O (wt_gs (fun _ => None) x)) (w_bflag (updN (bflag st) b false) st)),
              [EStore t (L_bflag b) mo_rel (VInt 0)])
      end
    | X1 i => go (X2 i (hd_opt (orph st i))) [ELoad t (L_orph i) mo_rlx (vptr (hd_opt (orph st i)))]
    | X2 i h =>
      if oeqb (hd_opt (orph st i)) h then
        let l := rl x i in
        Some (set_pc t (xnext (rl x) (i + 1))
                (set_tl t (wt_rl (updN (rl x) i []) x) (move_all l (POrph i) (w_orph (updN (orph st) i (l ++ orph st i)) st))),
              [ERmw t (L_orph i) mo_rel (vptr h) (vptr (hd_opt l))])
      else go (X2 i (hd_opt (orph st i))) [ECasF t (L_orph i) mo_rel mo_rlx (vptr (hd_opt (orph st i))) (vptr h)]
    | X3 =>
      match cb x with
      | None => None
      | Some b =>
        Some (set_pc t Idle (set_tl t tl0 (w_bstate (updN (bstate st) b 0) (w_g_owner (updN (g_owner st) b None) st))),
              [EStore t (L_bstate b) mo_rel (VInt 0)])
      end
    end
  end.
