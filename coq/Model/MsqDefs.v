(** Step-level model of xenium::michael_scott_queue (michael_scott_queue.hpp) over a reclaimer whose
    guard acquisition is one atomic load and whose reclaimed nodes are never reused (what C01
    guarantees to the container; harness/gc_reclaimer.hpp).  One [Step] = one atomic access. *)
From Coq Require Import NArith List Bool.
From XV Require Import Base.Word Conc.Lts Conc.Ev.
Import ListNotations.
Local Open Scope N_scope.

Inductive op := OPush (v : N) | OPop.

(** node ids are heap block numbers (block 0 = the queue object, block 1 = the initial dummy node); 0 = nullptr *)
Inductive pc :=
| Idle
| Begin (o : op)
(* push *)
| M1 (n : N)                   (* t.acquire(_tail, acq) *)
| M2 (n t : N)                 (* LD t->_next acq *)
| M3 (n t nx : N)              (* CAS _tail t -> nx rel/rlx (help) *)
| M4 (n t : N)                 (* CAS t->_next null -> n rel/rlx (link) *)
| M5 (n t : N)                 (* CAS _tail t -> n rel/rlx (swing) *)
(* pop *)
| D1                           (* h.acquire(_head, acq) *)
| D2 (h : N)                   (* next = acquire_guard(h->_next, acq) *)
| D3 (h nx : N)                (* LD _head rlx; compare *)
| D4 (h nx : N)                (* LD _tail rlx *)
| D5 (h nx t : N)              (* CAS _tail t -> nx rel/rlx (help) *)
| D6 (h nx : N).               (* CAS _head h -> nx rel/rlx; reclaim h; take value of nx *)

(** ghosts: [g_in] values in link order (appended at the successful link CAS M4),
    [g_out] values in unlink order (appended at the successful head CAS D6), [g_retired] retired nodes *)
Record state := mkSt { head : N; tail : N; nval : N -> N; nnext : N -> N; nalloc : N; th : nat -> pc;
                       g_in : list N; g_out : list N; g_retired : list N }.

Inductive action := Start (t : nat) (o : op) | Step (t : nat).

Definition L_head := LNamed 0 0.
Definition L_tail := LNamed 1 0.
Definition next_off : N := 24.     (* offsetof(node, _next); asserted by the harness *)
Definition L_next (n : N) := LHeap n next_off.
Definition vptr (n : N) : val := if n =? 0 then VInt 0 else VPtr (LHeap n 0) 0.

Definition init : state := mkSt 1 1 (fun _ => 0) (fun _ => 0) 2 (fun _ => Idle) [] [] [].

Definition setf (f : N -> N) (i v : N) : N -> N := fun j => if j =? i then v else f j.
Definition node_size : N := 32.

(** results: [1] ok / [1;x] value x / [0] empty *)
Definition step (st : state) (a : action) : option (state * list ev) :=
  match a with
  | Start t o =>
    match th st t with
    | Idle => Some (mkSt (head st) (tail st) (nval st) (nnext st) (nalloc st) (upd (th st) t (Begin o)) (g_in st) (g_out st) (g_retired st), [])
    | _ => None
    end
  | Step t =>
    let go (p : pc) (e : list ev) := Some (mkSt (head st) (tail st) (nval st) (nnext st) (nalloc st) (upd (th st) t p) (g_in st) (g_out st) (g_retired st), e) in
    let fin (r : list N) (e : list ev) := Some (mkSt (head st) (tail st) (nval st) (nnext st) (nalloc st) (upd (th st) t Idle) (g_in st) (g_out st) (g_retired st), e ++ [ERet t r]) in
    match th st t with
    | Idle => None
    | Begin (OPush v) =>
      let n := nalloc st in
      Some (mkSt (head st) (tail st) (setf (nval st) n v) (setf (nnext st) n 0) (n + 1) (upd (th st) t (M1 n)) (g_in st) (g_out st) (g_retired st),
            [EStart t 0 [v]; EAlloc t n node_size])
    | Begin OPop => go D1 [EStart t 1 []]
    (* ---- push ---- *)
    | M1 n => go (M2 n (tail st)) [ELoad t L_tail mo_acq (vptr (tail st))]
    | M2 n tl =>
      let nx := nnext st tl in
      go (if nx =? 0 then M4 n tl else M3 n tl nx) [ELoad t (L_next tl) mo_acq (vptr nx)]
    | M3 n tl nx =>
      if tail st =? tl then
        Some (mkSt (head st) nx (nval st) (nnext st) (nalloc st) (upd (th st) t (M1 n)) (g_in st) (g_out st) (g_retired st),
              [ERmw t L_tail mo_rel (vptr tl) (vptr nx)])
      else go (M1 n) [ECasF t L_tail mo_rel mo_rlx (vptr (tail st)) (vptr tl)]
    | M4 n tl =>
      if nnext st tl =? 0 then
        Some (mkSt (head st) (tail st) (nval st) (setf (nnext st) tl n) (nalloc st) (upd (th st) t (M5 n tl)) (g_in st ++ [nval st n]) (g_out st) (g_retired st),
              [ERmw t (L_next tl) mo_rel (VInt 0) (vptr n)])
      else go (M1 n) [ECasF t (L_next tl) mo_rel mo_rlx (vptr (nnext st tl)) (VInt 0)]
    | M5 n tl =>
      if tail st =? tl then
        Some (mkSt (head st) n (nval st) (nnext st) (nalloc st) (upd (th st) t Idle) (g_in st) (g_out st) (g_retired st),
              [ERmw t L_tail mo_rel (vptr tl) (vptr n); ERet t [1]])
      else fin [1] [ECasF t L_tail mo_rel mo_rlx (vptr (tail st)) (vptr tl)]
    (* ---- pop ---- *)
    | D1 => go (D2 (head st)) [ELoad t L_head mo_acq (vptr (head st))]
    | D2 h => go (D3 h (nnext st h)) [ELoad t (L_next h) mo_acq (vptr (nnext st h))]
    | D3 h nx =>
      let e := [ELoad t L_head mo_rlx (vptr (head st))] in
      if negb (head st =? h) then go D1 e
      else if nx =? 0 then fin [0] e
      else go (D4 h nx) e
    | D4 h nx =>
      let tl := tail st in
      go (if h =? tl then D5 h nx tl else D6 h nx) [ELoad t L_tail mo_rlx (vptr tl)]
    | D5 h nx tl =>
      if tail st =? tl then
        Some (mkSt (head st) nx (nval st) (nnext st) (nalloc st) (upd (th st) t D1) (g_in st) (g_out st) (g_retired st),
              [ERmw t L_tail mo_rel (vptr tl) (vptr nx)])
      else go D1 [ECasF t L_tail mo_rel mo_rlx (vptr (tail st)) (vptr tl)]
    | D6 h nx =>
      if head st =? h then
        Some (mkSt nx (tail st) (nval st) (nnext st) (nalloc st) (upd (th st) t Idle) (g_in st) (g_out st ++ [nval st nx]) (g_retired st ++ [h]),
              [ERmw t L_head mo_rel (vptr h) (vptr nx); ENote t 120 [h]; ERet t [1; nval st nx]])
      else go D1 [ECasF t L_head mo_rel mo_rlx (vptr (head st)) (vptr h)]
    end
  end.
