(** Step-level model of xenium::reclamation::hazard_pointer<> with the static allocation strategy
    hp_allocation::static_strategy<K = 3, A = 0, B = 0>  (harness/recl_types.hpp: HPs<3>;
    xenium/reclamation/hazard_pointer.hpp, impl/hazard_pointer.hpp, detail/thread_block_list.hpp), driven by the
    generic protocol-conforming client of harness/h_recl.cpp (build/h_recl_hp, and build/h_hp = the same client
    with the reclaimer's static members named).

    Client operations (c = cell = a concurrent_ptr of the client, g = index of a persistent guard_ptr of the thread):
      repl c    tmp.acquire(cell[c]); n = new Node; if CAS(cell[c], tmp, n) tmp.reclaim() else delete n
      clear c   the same with n = nullptr
      read c    tmp.acquire(cell[c]); dereference; tmp.reset()
      hold c g  guards[g].acquire(cell[c]); dereference         (stays protected across operations)
      deref g   dereference guards[g]
      drop g    guards[g].reset()
      exit      the thread ends (last operation of a thread's program; the harness prints "inv exit / res ?" for it
                and then runs thread_end + the thread_local destructor): the persistent guards are reset, then
                ~thread_data: scan, abandon_retired_nodes, release_entry.

    guard_ptr::acquire(p, acquire):   Q1  p1 = p.load(relaxed);  p1 == this->ptr -> return
                                          p1 != nullptr && hp == nullptr -> hp = alloc_hazard_pointer()
                                          loop:  p2 == nullptr -> reset() (QR), this->ptr = nullptr, return
                                      Q2  hp->value.store(p1, release)            (set_object)
                                      Q3  fence(seq_cst)
                                      Q4  p2 = p.load(acquire);  p1 == p2 -> this->ptr = p2, return;  else loop
    alloc_hazard_pointer():               ensure_has_control_block()
                                          hint == nullptr -> throw bad_hazard_pointer_alloc  (ALLOC/FREE of the message)
                                      H1  result = hint; hint = result->value.load(relaxed).get()   (get_link)
    ensure_has_control_block():       W0  head.load(acquire)                       (acquire_entry = adopt_or_create_entry)
                                      W1  r->state.load(relaxed) == free ?
                                      W2  r->state.CAS(free -> active, acquire)
                                          new thread_control_block                 (ALLOC, in the preceding step)
                                      A1  b->state.store(active, relaxed)
                                      A2  h = head.load(relaxed)
                                      A3  head.CAS_weak(h -> b, release/relaxed)   (retry with the seen value)
                                      I0  number_of_active_hps.fetch_add(3, relaxed)              (initialize)
                                      I1  pointers[i].value.store(link(i+1), release)   i = 0, 1, 2  (set_link; the last: link(nullptr))
    reset() (hp != nullptr):              hp->value.store(link(hint), release); hint = hp; hp = nullptr; ptr = nullptr
                                          (QR inside acquire, RR guard destructor, R2 inside reclaim, D1 drop, X0 thread_end)
    repl/clear:                       R1  cell.CAS_strong(tmp -> n, acq_rel/relaxed);  failure: delete n, ~tmp (RR)
    tmp.reclaim():                    R2  reset();  add_retired_node(p)
                                      T1  number_of_active_hps.load(relaxed)        (retired_nodes_threshold() = 0 * active + 0)
    scan():                           S0  number_of_active_hps.load(relaxed); protected_pointers.reserve  (ALLOC 8 * active)
                                      S1  fence(seq_cst)
                                      S2  abandoned_retired_nodes.load(relaxed) == nullptr ?
                                      S3  abandoned_retired_nodes.exchange(nullptr, acquire)
                                      S4  head.load(acquire)
                                      S5  r->state.load(relaxed) == active ?
                                      S6  r->pointers[i].value.load(relaxed); no link -> push_back (may reallocate)   i = 0, 1, 2
                                      S7  fence(acquire); sort; reclaim_nodes(retire_list); reclaim_nodes(adopted);
                                          ~vector                                     (FREE of every unprotected node, FREE of the vector)
    ~thread_data():                       retire_list != nullptr -> scan() (S0 ...)
                                      X2  h = abandoned_retired_nodes.load(relaxed)         (still retire_list != nullptr)
                                      X3  abandoned_retired_nodes.CAS_weak(h -> retire_list, release/relaxed)  (retry with the seen value)
                                      X4  number_of_active_hps.fetch_sub(3, relaxed)        (control_block->abandon())
                                      X5  control_block->state.store(free, release)
                                          (the thread_data object is gone: [rcd], [hint], [fl] are reset in the model)

    One [Step] = one atomic access or fence, emitting exactly the event rt/xvrt prints.  Allocations and frees are
    not scheduling points and belong to the step of the preceding atomic access: they are modelled exactly (node
    40 bytes, control block 64, the vector of scan 8 * capacity with libstdc++'s doubling, the message of the
    exception 53), because heap blocks are numbered in allocation order (block i = "h<i>"; the cells' initial
    nodes are blocks 0..ncells-1).  compare_exchange_weak never fails spuriously under xvrt.
    The thread block list is immutable except for insertion at the head, so a traversal carries the remaining
    suffix of the list; [abandoned_retired_nodes] and the retire lists are the chains hanging off their heads.

    Ghosts: [g_owner b] the thread owning control block b; [g_life n] the life cycle of node n (fresh / published
    in cell c / unlinked by t / retired by t / dropped by its creator); [g_where n] where a retired node is
    (retire list of t / the abandoned list / adopted by t, in flight / freed); [g_nfree n] how often n was freed;
    [g_uaf] a dereference hit a destroyed node.  Per guard: [gv] = the protection of [ptr] is validated ([ptr] is
    the real field this->ptr; during a re-acquire it keeps its old value, unused, until the new value is assigned:
    [gv] is false exactly then); per thread [fl] = the free list of hazard pointer slots hanging off [hint]. *)
From Coq Require Import NArith List Bool Arith.
From XV Require Import Conc.Lts Conc.Ev.
Import ListNotations.

Inductive op :=
| ORepl (c : nat) | OClear (c : nat) | ORead (c : nat) | OHold (c g : nat) | ODeref (g : nat) | ODrop (g : nat) | OExit.

(** what an acquire belongs to: repl/clear ([fresh] = a new node is installed), read, hold *)
Inductive ctx := KRepl (c : nat) (fresh : bool) | KRead (c : nat) | KHold (c g : nat).

(** what a scan belongs to: guard_ptr::reclaim of repl/clear, ~thread_data *)
Inductive sctx := SRepl | SExit.

(** std::atomic<marked_ptr<void*,1>> value: mark set = link of the free list (index of the next slot of the same
    block), else the protected object ([VObj None] = the zero-initialised slot of a new block) *)
Inductive slotv := VLink (nx : option nat) | VObj (n : option nat).

(** scan(): capacity and heap block of protected_pointers, its contents, the adopted nodes *)
Record scan := mkScan { s_k : sctx; s_cap : nat; s_vec : option nat; s_prot : list (option nat); s_ad : list nat }.

Inductive pc :=
| Idle | Done
| Begin (o : op)
| Q1 (k : ctx)
| W0 (k : ctx) (p : nat) | W1 (k : ctx) (p : nat) (r : nat) (rest : list nat) | W2 (k : ctx) (p : nat) (r : nat) (rest : list nat)
| A1 (k : ctx) (p : nat) (b : nat) | A2 (k : ctx) (p : nat) (b : nat) | A3 (k : ctx) (p : nat) (b : nat) (h : option nat)
| I0 (k : ctx) (p : nat) | I1 (k : ctx) (p : nat) (i : nat)
| H1 (k : ctx) (p : nat)
| Q2 (k : ctx) (p : nat) | Q3 (k : ctx) (p : nat) | Q4 (k : ctx) (p : nat)
| QR (k : ctx)
| R1 (c : nat) (n : option nat)
| R2 (o : nat)
| RR (r : list N)
| T1
| S0 (k : sctx) | S1 (s : scan) | S2 (s : scan) | S3 (s : scan) | S4 (s : scan)
| S5 (s : scan) (r : nat) (rest : list nat) | S6 (s : scan) (r : nat) (rest : list nat) (i : nat) | S7 (s : scan)
| D1 (g : nat)
| X0 (g : nat) | X2 | X3 (h : option nat) | X4 | X5.

Inductive life := LNone | LFresh (t : nat) | LPub (c : nat) | LUnl (t : nat) | LRet (t : nat) | LDropped.
Inductive place := PNone | PList (t : nat) | PAband | PFlight (t : nat) | PFreed.

(** guard_ptr: hp (index of the slot in the thread's control block), this->ptr, ghost: validated *)
Record guard := mkG { hp : option nat; ptr : option nat; gv : bool }.
Definition g0 : guard := mkG None None true.

(** thread_data: control_block, hint, (ghost: the free list), the client's guards (0..nslots-1 persistent, nslots = the
    temporary guard of repl/clear/read), retire_list (number_of_retired_nodes = its length) *)
Record tls := mkTl { rcd : option nat; hint : option nat; fl : list nat; gd : nat -> guard; rl : list nat }.
Definition tl0 : tls := mkTl None None [] (fun _ => g0) [].

Record state := mkSt {
  cells : nat -> option nat;       (* the client's concurrent_ptrs *)
  blist : list nat;                (* global_thread_block_list, head first *)
  est : nat -> nat;                (* entry::state: 0 free, 2 active *)
  hz : nat -> nat -> slotv;        (* pointers[i].value of control block b *)
  aband : list nat;                (* abandoned_retired_nodes: the chain hanging off it *)
  nact : nat;                      (* number_of_active_hps *)
  nalloc : nat;                    (* number of tracked heap blocks allocated so far *)
  nextid : nat; nid : nat -> nat;  (* the harness' node ids (what a dereference returns) *)
  th : nat -> pc; tl : nat -> tls;
  g_owner : nat -> option nat; g_life : nat -> life; g_where : nat -> place; g_nfree : nat -> nat; g_uaf : bool }.

Inductive action := Start (t : nat) (o : op) | Step (t : nat).

(** ** setters *)
Definition w_cells v (st : state) : state := mkSt v (blist st) (est st) (hz st) (aband st) (nact st) (nalloc st) (nextid st) (nid st) (th st) (tl st) (g_owner st) (g_life st) (g_where st) (g_nfree st) (g_uaf st).
Definition w_blist v (st : state) : state := mkSt (cells st) v (est st) (hz st) (aband st) (nact st) (nalloc st) (nextid st) (nid st) (th st) (tl st) (g_owner st) (g_life st) (g_where st) (g_nfree st) (g_uaf st).
Definition w_est v (st : state) : state := mkSt (cells st) (blist st) v (hz st) (aband st) (nact st) (nalloc st) (nextid st) (nid st) (th st) (tl st) (g_owner st) (g_life st) (g_where st) (g_nfree st) (g_uaf st).
Definition w_hz v (st : state) : state := mkSt (cells st) (blist st) (est st) v (aband st) (nact st) (nalloc st) (nextid st) (nid st) (th st) (tl st) (g_owner st) (g_life st) (g_where st) (g_nfree st) (g_uaf st).
Definition w_aband v (st : state) : state := mkSt (cells st) (blist st) (est st) (hz st) v (nact st) (nalloc st) (nextid st) (nid st) (th st) (tl st) (g_owner st) (g_life st) (g_where st) (g_nfree st) (g_uaf st).
Definition w_nact v (st : state) : state := mkSt (cells st) (blist st) (est st) (hz st) (aband st) v (nalloc st) (nextid st) (nid st) (th st) (tl st) (g_owner st) (g_life st) (g_where st) (g_nfree st) (g_uaf st).
Definition w_nalloc v (st : state) : state := mkSt (cells st) (blist st) (est st) (hz st) (aband st) (nact st) v (nextid st) (nid st) (th st) (tl st) (g_owner st) (g_life st) (g_where st) (g_nfree st) (g_uaf st).
Definition w_nextid v (st : state) : state := mkSt (cells st) (blist st) (est st) (hz st) (aband st) (nact st) (nalloc st) v (nid st) (th st) (tl st) (g_owner st) (g_life st) (g_where st) (g_nfree st) (g_uaf st).
Definition w_nid v (st : state) : state := mkSt (cells st) (blist st) (est st) (hz st) (aband st) (nact st) (nalloc st) (nextid st) v (th st) (tl st) (g_owner st) (g_life st) (g_where st) (g_nfree st) (g_uaf st).
Definition w_th v (st : state) : state := mkSt (cells st) (blist st) (est st) (hz st) (aband st) (nact st) (nalloc st) (nextid st) (nid st) v (tl st) (g_owner st) (g_life st) (g_where st) (g_nfree st) (g_uaf st).
Definition w_tl v (st : state) : state := mkSt (cells st) (blist st) (est st) (hz st) (aband st) (nact st) (nalloc st) (nextid st) (nid st) (th st) v (g_owner st) (g_life st) (g_where st) (g_nfree st) (g_uaf st).
Definition w_g_owner v (st : state) : state := mkSt (cells st) (blist st) (est st) (hz st) (aband st) (nact st) (nalloc st) (nextid st) (nid st) (th st) (tl st) v (g_life st) (g_where st) (g_nfree st) (g_uaf st).
Definition w_g_life v (st : state) : state := mkSt (cells st) (blist st) (est st) (hz st) (aband st) (nact st) (nalloc st) (nextid st) (nid st) (th st) (tl st) (g_owner st) v (g_where st) (g_nfree st) (g_uaf st).
Definition w_g_where v (st : state) : state := mkSt (cells st) (blist st) (est st) (hz st) (aband st) (nact st) (nalloc st) (nextid st) (nid st) (th st) (tl st) (g_owner st) (g_life st) v (g_nfree st) (g_uaf st).
Definition w_g_nfree v (st : state) : state := mkSt (cells st) (blist st) (est st) (hz st) (aband st) (nact st) (nalloc st) (nextid st) (nid st) (th st) (tl st) (g_owner st) (g_life st) (g_where st) v (g_uaf st).
Definition w_g_uaf v (st : state) : state := mkSt (cells st) (blist st) (est st) (hz st) (aband st) (nact st) (nalloc st) (nextid st) (nid st) (th st) (tl st) (g_owner st) (g_life st) (g_where st) (g_nfree st) v.
Definition wt_rcd v (x : tls) : tls := mkTl v (hint x) (fl x) (gd x) (rl x).
Definition wt_hint v (x : tls) : tls := mkTl (rcd x) v (fl x) (gd x) (rl x).
Definition wt_fl v (x : tls) : tls := mkTl (rcd x) (hint x) v (gd x) (rl x).
Definition wt_gd v (x : tls) : tls := mkTl (rcd x) (hint x) (fl x) v (rl x).
Definition wt_rl v (x : tls) : tls := mkTl (rcd x) (hint x) (fl x) (gd x) v.

Definition set_pc (t : nat) (p : pc) (st : state) : state := w_th (upd (th st) t p) st.
Definition set_tl (t : nat) (x : tls) (st : state) : state := w_tl (upd (tl st) t x) st.
Definition upd2 {X : Type} (f : nat -> nat -> X) (a b : nat) (v : X) : nat -> nat -> X :=
  fun i j => if (i =? a) && (j =? b) then v else f i j.

(** ** locations and values *)
Definition L_head := LNamed 0 0.
Definition L_nact := LNamed 1 0.
Definition L_aband := LNamed 2 0.
Definition L_cell (c : nat) := LNamed (N.of_nat (10 + c)) 0.
Definition L_state (b : nat) := LHeap (N.of_nat b) 8.     (* control block: next_entry 0, state 8, pointers[i] 16 + 8 i *)
Definition L_slot (b i : nat) := LHeap (N.of_nat b) (N.of_nat (16 + 8 * i)).
Definition rec_size : N := 64.
Definition node_size : N := 40.
Definition exc_size : N := 53.     (* std::runtime_error("hazard pointer pool exceeded"): the reference counted message *)
Definition vec_size (cap : nat) : N := N.of_nat (8 * cap).
Definition vptr (p : option nat) : val := match p with None => VInt 0 | Some n => VPtr (LHeap (N.of_nat n) 0) 0 end.
Definition vnat (n : nat) : val := VInt (N.of_nat n).
Definition vslot (b : nat) (v : slotv) : val :=
  match v with
  | VLink (Some j) => VPtr (L_slot b j) 32768        (* the mark bit of marked_ptr<void*,1> is bit 63 *)
  | VLink None => VInt 9223372036854775808
  | VObj n => vptr n
  end.
Definition link_of (v : slotv) : option nat := match v with VLink nx => nx | VObj _ => None end.

Definition hd_opt (l : list nat) : option nat := match l with [] => None | x :: _ => Some x end.
Definition oeqb (a b : option nat) : bool :=
  match a, b with None, None => true | Some x, Some y => x =? y | _, _ => false end.
Definition mem (n : nat) (l : list nat) : bool := existsb (Nat.eqb n) l.
Definition is_nil (l : list nat) : bool := match l with [] => true | _ => false end.

(** results: ok / lost / null / the id of the dereferenced node / throw / ? (the harness does not know "exit") *)
Definition r_ok : list N := [0%N].
Definition r_lost : list N := [1%N].
Definition r_null : list N := [2%N].
Definition r_id (i : nat) : list N := [3%N; N.of_nat i].
Definition r_throw : list N := [4%N].
Definition r_exit : list N := [5%N].

Definition opcode (o : op) : N * list N :=
  match o with
  | ORepl c => (0%N, [N.of_nat c]) | OClear c => (1%N, [N.of_nat c]) | ORead c => (2%N, [N.of_nat c])
  | OHold c g => (3%N, [N.of_nat c; N.of_nat g]) | ODeref g => (4%N, [N.of_nat g]) | ODrop g => (5%N, [N.of_nat g])
  | OExit => (6%N, [])
  end.

Definition cell_of (k : ctx) : nat := match k with KRepl c _ => c | KRead c => c | KHold c _ => c end.
(** the guard an acquire works on *)
Definition guard_of (nslots : nat) (k : ctx) : nat := match k with KHold _ g => g | _ => nslots end.

Definition init (ncells : nat) : state :=
  mkSt (fun c => if c <? ncells then Some c else None) [] (fun _ => 0) (fun _ _ => VObj None) [] 0
       ncells (S ncells) (fun n => S n)
       (fun _ => Idle) (fun _ => tl0)
       (fun _ => None) (fun n => if n <? ncells then LPub n else LNone) (fun _ => PNone) (fun _ => 0) false.

(** a node that was destroyed (by the reclaimer, or by its creator after a lost CAS) *)
Definition dead (st : state) (n : nat) : bool := negb (g_nfree st n =? 0).

(** dereference of the node a guard holds *)
Definition deref (n : nat) (st : state) : state := w_g_uaf (g_uaf st || dead st n) st.
Definition deref_res (st : state) (g : guard) : list N :=
  match ptr g with Some n => r_id (nid st n) | None => r_null end.
Definition deref_g (g : guard) (st : state) : state := match ptr g with Some n => deref n st | None => st end.

Definition count (n : nat) (l : list nat) : nat := length (filter (Nat.eqb n) l).

(** the reclaimer runs the deleters of the nodes of [l] *)
Definition free_all (l : list nat) (st : state) : state :=
  w_g_nfree (fun n => g_nfree st n + count n l)
    (w_g_where (fun n => if mem n l then PFreed else g_where st n) st).
Definition free_evs (t : nat) (l : list nat) : list ev := map (fun n => EFree t (N.of_nat n)) l.
Definition move_all (l : list nat) (p : place) (st : state) : state :=
  w_g_where (fun n => if mem n l then p else g_where st n) st.

Definition set_gd (t : nat) (g : nat) (v : guard) (st : state) : state :=
  let x := tl st t in set_tl t (wt_gd (upd (gd x) g v) x) st.

Definition finish (st : state) (t : nat) (r : list N) (e : list ev) : option (state * list ev) :=
  Some (set_pc t Idle st, e ++ [ERet t r]).

(** guard_ptr::reset() of guard [g] holding slot [i] of block [b] *)
Definition reset_guard (st : state) (t : nat) (b i g : nat) : state :=
  let x := tl st t in
  set_tl t (wt_hint (Some i) (wt_fl (i :: fl x) (wt_gd (upd (gd x) g g0) x)))
    (w_hz (upd2 (hz st) b i (VLink (hint x))) st).
Definition reset_ev (st : state) (t : nat) (b i : nat) : ev :=
  EStore t (L_slot b i) mo_rel (vslot b (VLink (hint (tl st t)))).

(** the guard's destructor, then the operation returns [r] *)
Definition ret_reset (nslots : nat) (st : state) (t : nat) (r : list N) (e : list ev) : option (state * list ev) :=
  match hp (gd (tl st t) nslots) with
  | Some _ => Some (set_pc t (RR r) st, e)
  | None => finish st t r e
  end.

(** acquire has returned (this->ptr is set) *)
Definition acq_done (nslots : nat) (st : state) (t : nat) (k : ctx) (e : list ev) : option (state * list ev) :=
  let g := gd (tl st t) (guard_of nslots k) in
  match k with
  | KRead _ => ret_reset nslots (deref_g g st) t (deref_res st g) e
  | KHold _ _ => finish (deref_g g st) t (deref_res st g) e
  | KRepl c fresh =>
    if fresh then
      let n := nalloc st in
      Some (set_pc t (R1 c (Some n))
              (w_nalloc (S n) (w_nextid (S (nextid st)) (w_nid (upd (nid st) n (nextid st)) (w_g_life (upd (g_life st) n (LFresh t)) st)))),
            e ++ [EAlloc t (N.of_nat n) node_size])
    else Some (set_pc t (R1 c None) st, e)
  end.

(** the loop of acquire with the value [p2] just read *)
Definition acq_loop (nslots : nat) (st : state) (t : nat) (k : ctx) (p2 : option nat) (e : list ev) : option (state * list ev) :=
  let gi := guard_of nslots k in
  let g := gd (tl st t) gi in
  match p2 with
  | Some p => Some (set_pc t (Q2 k p) st, e)
  | None =>
    match hp g with
    | Some _ => Some (set_pc t (QR k) st, e)
    | None => acq_done nslots (set_gd t gi (mkG None None true) st) t k e
    end
  end.

(** bad_hazard_pointer_alloc: the exception's message is allocated and freed; the harness returns "throw"
    (hp == nullptr, so the destructor of a temporary guard does nothing) *)
Definition throw (st : state) (t : nat) (e : list ev) : option (state * list ev) :=
  let b := nalloc st in
  finish (w_nalloc (S b) st) t r_throw (e ++ [EAlloc t (N.of_nat b) exc_size; EFree t (N.of_nat b)]).

(** alloc_hazard_pointer with a control block *)
Definition alloc_hp (st : state) (t : nat) (k : ctx) (p : nat) (e : list ev) : option (state * list ev) :=
  match hint (tl st t) with
  | Some _ => Some (set_pc t (H1 k p) st, e)
  | None => throw st t e
  end.

(** adopt_or_create_entry: next entry of the walk, or a new control block (constructor: state active, the
    hazard pointers zero) *)
Definition walk (st : state) (t : nat) (k : ctx) (p : nat) (l : list nat) (e : list ev) : option (state * list ev) :=
  match l with
  | r :: rest => Some (set_pc t (W1 k p r rest) st, e)
  | [] =>
    let b := nalloc st in
    Some (set_pc t (A1 k p b) (w_nalloc (S b) (w_est (upd (est st) b 2) (w_g_owner (upd (g_owner st) b (Some t)) st))),
          e ++ [EAlloc t (N.of_nat b) rec_size])
  end.

(** protected_pointers.push_back(x) (libstdc++: the capacity doubles) *)
Definition push (st : state) (t : nat) (s : scan) (x : option nat) : state * scan * list ev :=
  if length (s_prot s) <? s_cap s then (st, mkScan (s_k s) (s_cap s) (s_vec s) (s_prot s ++ [x]) (s_ad s), [])
  else
    let cap := length (s_prot s) + Nat.max (length (s_prot s)) 1 in
    let b := nalloc st in
    (w_nalloc (S b) st, mkScan (s_k s) cap (Some b) (s_prot s ++ [x]) (s_ad s),
     EAlloc t (N.of_nat b) (vec_size cap) :: match s_vec s with Some v => [EFree t (N.of_nat v)] | None => [] end).

Definition scan_next (st : state) (t : nat) (s : scan) (l : list nat) (e : list ev) : option (state * list ev) :=
  match l with
  | r :: rest => Some (set_pc t (S5 s r rest) st, e)
  | [] => Some (set_pc t (S7 s) st, e)
  end.

Definition is_prot (prot : list (option nat)) (n : nat) : bool :=
  existsb (fun x => match x with Some m => m =? n | None => false end) prot.

(** release_entry comes next (if the thread has a control block) *)
Definition exit_rel (st : state) (t : nat) (e : list ev) : option (state * list ev) :=
  match rcd (tl st t) with
  | Some _ => Some (set_pc t X4 st, e)
  | None => Some (set_pc t Done st, e)
  end.

(** ~thread_data *)
Definition exit_td (st : state) (t : nat) (e : list ev) : option (state * list ev) :=
  if is_nil (rl (tl st t)) then exit_rel st t e else Some (set_pc t (S0 SExit) st, e).

(** thread_end: the first persistent guard from index [g] on that owns a hazard pointer *)
Fixpoint exit_guards (st : state) (t : nat) (g : nat) (fuel : nat) (e : list ev) : option (state * list ev) :=
  match fuel with
  | O => exit_td st t e
  | S f =>
    match hp (gd (tl st t) g) with
    | Some _ => Some (set_pc t (X0 g) st, e)
    | None => exit_guards st t (S g) f e
    end
  end.

Definition legal (nslots : nat) (o : op) : bool :=
  match o with
  | OHold _ g | ODeref g | ODrop g => g <? nslots
  | _ => true
  end.

Definition step (nslots : nat) (st : state) (a : action) : option (state * list ev) :=
  match a with
  | Start t o =>
    match th st t with
    | Idle => if legal nslots o then Some (set_pc t (Begin o) st, []) else None
    | _ => None
    end
  | Step t =>
    let x := tl st t in
    let go (p : pc) (e : list ev) := Some (set_pc t p st, e) in
    match th st t with
    | Idle | Done => None
    | Begin o =>
      let es := [EStart t (fst (opcode o)) (snd (opcode o))] in
      match o with
      | ORepl c => go (Q1 (KRepl c true)) es
      | OClear c => go (Q1 (KRepl c false)) es
      | ORead c => go (Q1 (KRead c)) es
      | OHold c g => go (Q1 (KHold c g)) es
      | ODeref g => finish (deref_g (gd x g) st) t (deref_res st (gd x g)) es
      | ODrop g =>
        match hp (gd x g) with
        | Some _ => go (D1 g) es
        | None => finish (set_gd t g g0 st) t r_ok es
        end
      | OExit => exit_guards st t 0 nslots (es ++ [ERet t r_exit])
      end
    (* ---- guard_ptr::acquire ---- *)
    | Q1 k =>
      let c := cell_of k in
      let g := gd x (guard_of nslots k) in
      let e := [ELoad t (L_cell c) mo_rlx (vptr (cells st c))] in
      if oeqb (cells st c) (ptr g) then acq_done nslots st t k e
      else
        match cells st c, hp g with
        | Some p, None =>
          match rcd x with
          | None => go (W0 k p) e
          | Some _ => alloc_hp st t k p e
          end
        | p2, _ => acq_loop nslots st t k p2 e
        end
    (* ---- acquire_entry ---- *)
    | W0 k p => walk st t k p (blist st) [ELoad t L_head mo_acq (vptr (hd_opt (blist st)))]
    | W1 k p r rest =>
      let e := [ELoad t (L_state r) mo_rlx (vnat (est st r))] in
      if est st r =? 0 then go (W2 k p r rest) e else walk st t k p rest e
    | W2 k p r rest =>
      if est st r =? 0 then
        Some (set_pc t (I0 k p) (set_tl t (wt_rcd (Some r) x) (w_est (upd (est st) r 2) (w_g_owner (upd (g_owner st) r (Some t)) st))),
              [ERmw t (L_state r) mo_acq (vnat 0) (vnat 2)])
      else walk st t k p rest [ECasF t (L_state r) mo_acq mo_acq (vnat (est st r)) (vnat 0)]
    | A1 k p b => Some (set_pc t (A2 k p b) (w_est (upd (est st) b 2) st), [EStore t (L_state b) mo_rlx (vnat 2)])
    | A2 k p b => go (A3 k p b (hd_opt (blist st))) [ELoad t L_head mo_rlx (vptr (hd_opt (blist st)))]
    | A3 k p b h =>
      if oeqb (hd_opt (blist st)) h then
        Some (set_pc t (I0 k p) (set_tl t (wt_rcd (Some b) x) (w_blist (b :: blist st) st)),
              [ERmw t L_head mo_rel (vptr h) (vptr (Some b))])
      else go (A3 k p b (hd_opt (blist st))) [ECasF t L_head mo_rel mo_rlx (vptr (hd_opt (blist st))) (vptr h)]
    (* ---- initialize ---- *)
    | I0 k p => Some (set_pc t (I1 k p 0) (w_nact (nact st + 3) st), [ERmw t L_nact mo_rlx (vnat (nact st)) (vnat (nact st + 3))])
    | I1 k p i =>
      match rcd x with
      | None => None
      | Some b =>
        let v := VLink (if i <? 2 then Some (S i) else None) in
        let st1 := w_hz (upd2 (hz st) b i v) st in
        let e := [EStore t (L_slot b i) mo_rel (vslot b v)] in
        if i <? 2 then Some (set_pc t (I1 k p (S i)) st1, e)
        else Some (set_pc t (H1 k p) (set_tl t (wt_hint (Some 0) (wt_fl [0; 1; 2] x)) st1), e)
      end
    (* ---- alloc_hazard_pointer: hint = result->get_link() ---- *)
    | H1 k p =>
      match rcd x, hint x with
      | Some b, Some i =>
        let gi := guard_of nslots k in
        let g := gd x gi in
        Some (set_pc t (Q2 k p)
                (set_tl t (wt_hint (link_of (hz st b i)) (wt_fl (List.tl (fl x)) (wt_gd (upd (gd x) gi (mkG (Some i) (ptr g) (gv g))) x))) st),
              [ELoad t (L_slot b i) mo_rlx (vslot b (hz st b i))])
      | _, _ => None
      end
    (* ---- set_object; reload ---- *)
    | Q2 k p =>
      let gi := guard_of nslots k in
      let g := gd x gi in
      match rcd x, hp g with
      | Some b, Some i =>
        Some (set_pc t (Q3 k p) (set_gd t gi (mkG (hp g) (ptr g) false) (w_hz (upd2 (hz st) b i (VObj (Some p))) st)),
              [EStore t (L_slot b i) mo_rel (vptr (Some p))])
      | _, _ => None
      end
    | Q3 k p => go (Q4 k p) [EFence t mo_sc]
    | Q4 k p =>
      let c := cell_of k in
      let gi := guard_of nslots k in
      let g := gd x gi in
      let e := [ELoad t (L_cell c) mo_acq (vptr (cells st c))] in
      if oeqb (cells st c) (Some p) then acq_done nslots (set_gd t gi (mkG (hp g) (Some p) true) st) t k e
      else acq_loop nslots st t k (cells st c) e
    | QR k =>
      let gi := guard_of nslots k in
      match rcd x, hp (gd x gi) with
      | Some b, Some i => acq_done nslots (reset_guard st t b i gi) t k [reset_ev st t b i]
      | _, _ => None
      end
    (* ---- the client's CAS ---- *)
    | R1 c n =>
      let g := gd x nslots in
      if oeqb (cells st c) (ptr g) then
        let e := [ERmw t (L_cell c) mo_acqrel (vptr (ptr g)) (vptr n)] in
        let st1 := w_cells (upd (cells st) c n) st in
        let st2 := match n with Some n' => w_g_life (upd (g_life st1) n' (LPub c)) st1 | None => st1 end in
        match ptr g with
        | Some o =>
          let st3 := deref o (w_g_life (upd (g_life st2) o (LUnl t)) st2) in
          match hp g with
          | Some _ => Some (set_pc t (R2 o) st3, e)
          | None =>
            Some (set_pc t T1 (set_tl t (wt_rl (o :: rl x) (wt_gd (upd (gd x) nslots g0) x))
                                 (w_g_life (upd (g_life st3) o (LRet t)) (w_g_where (upd (g_where st3) o (PList t)) st3))), e)
          end
        | None => ret_reset nslots st2 t r_ok e
        end
      else
        let e := ECasF t (L_cell c) mo_acqrel mo_rlx (vptr (cells st c)) (vptr (ptr g))
                 :: match n with Some n' => [EFree t (N.of_nat n')] | None => [] end in
        let st1 := match n with
                   | Some n' => w_g_nfree (upd (g_nfree st) n' (S (g_nfree st n'))) (w_g_life (upd (g_life st) n' LDropped) st)
                   | None => st end in
        ret_reset nslots st1 t r_lost e
    (* ---- guard_ptr::reclaim: reset(); add_retired_node ---- *)
    | R2 o =>
      match rcd x, hp (gd x nslots) with
      | Some b, Some i =>
        let st1 := reset_guard st t b i nslots in
        let x1 := tl st1 t in
        Some (set_pc t T1 (set_tl t (wt_rl (o :: rl x1) x1)
                             (w_g_life (upd (g_life st1) o (LRet t)) (w_g_where (upd (g_where st1) o (PList t)) st1))),
              [reset_ev st t b i])
      | _, _ => None
      end
    | RR r =>
      match rcd x, hp (gd x nslots) with
      | Some b, Some i => finish (reset_guard st t b i nslots) t r [reset_ev st t b i]
      | _, _ => None
      end
    | T1 => go (S0 SRepl) [ELoad t L_nact mo_rlx (vnat (nact st))]
    (* ---- scan ---- *)
    | S0 k =>
      let e := [ELoad t L_nact mo_rlx (vnat (nact st))] in
      if nact st =? 0 then go (S1 (mkScan k 0 None [] [])) e
      else
        let b := nalloc st in
        Some (set_pc t (S1 (mkScan k (nact st) (Some b) [] [])) (w_nalloc (S b) st), e ++ [EAlloc t (N.of_nat b) (vec_size (nact st))])
    | S1 s => go (S2 s) [EFence t mo_sc]
    | S2 s =>
      let e := [ELoad t L_aband mo_rlx (vptr (hd_opt (aband st)))] in
      if is_nil (aband st) then go (S4 s) e else go (S3 s) e
    | S3 s =>
      let l := aband st in
      Some (set_pc t (S4 (mkScan (s_k s) (s_cap s) (s_vec s) (s_prot s) l)) (move_all l (PFlight t) (w_aband [] st)),
            [ERmw t L_aband mo_acq (vptr (hd_opt l)) (vptr None)])
    | S4 s => scan_next st t s (blist st) [ELoad t L_head mo_acq (vptr (hd_opt (blist st)))]
    | S5 s r rest =>
      let e := [ELoad t (L_state r) mo_rlx (vnat (est st r))] in
      if est st r =? 2 then go (S6 s r rest 0) e else scan_next st t s rest e
    | S6 s r rest i =>
      let e := [ELoad t (L_slot r i) mo_rlx (vslot r (hz st r i))] in
      let '(st1, s1, e1) := match hz st r i with VObj n => push st t s n | VLink _ => (st, s, []) end in
      if i <? 2 then Some (set_pc t (S6 s1 r rest (S i)) st1, e ++ e1) else scan_next st1 t s1 rest (e ++ e1)
    | S7 s =>
      let keepb := is_prot (s_prot s) in
      let l := rl x ++ s_ad s in
      let freed := filter (fun n => negb (keepb n)) l in
      let kept := rev (filter keepb (s_ad s)) ++ rev (filter keepb (rl x)) in
      let e := EFence t mo_acq :: free_evs t freed ++ match s_vec s with Some v => [EFree t (N.of_nat v)] | None => [] end in
      let st1 := set_tl t (wt_rl kept x) (move_all kept (PList t) (free_all freed st)) in
      match s_k s with
      | SRepl => finish st1 t r_ok e
      | SExit => if is_nil kept then exit_rel st1 t e else Some (set_pc t X2 st1, e)
      end
    (* ---- drop ---- *)
    | D1 g =>
      match rcd x, hp (gd x g) with
      | Some b, Some i => finish (reset_guard st t b i g) t r_ok [reset_ev st t b i]
      | _, _ => None
      end
    (* ---- thread exit ---- *)
    | X0 g =>
      match rcd x, hp (gd x g) with
      | Some b, Some i => exit_guards (reset_guard st t b i g) t (S g) (nslots - S g) [reset_ev st t b i]
      | _, _ => None
      end
    | X2 => go (X3 (hd_opt (aband st))) [ELoad t L_aband mo_rlx (vptr (hd_opt (aband st)))]
    | X3 h =>
      if oeqb (hd_opt (aband st)) h then
        let l := rl x in
        exit_rel (set_tl t (wt_rl [] x) (move_all l PAband (w_aband (l ++ aband st) st))) t
          [ERmw t L_aband mo_rel (vptr h) (vptr (hd_opt l))]
      else go (X3 (hd_opt (aband st))) [ECasF t L_aband mo_rel mo_rlx (vptr (hd_opt (aband st))) (vptr h)]
    | X4 => Some (set_pc t X5 (w_nact (nact st - 3) st), [ERmw t L_nact mo_rlx (vnat (nact st)) (vnat (nact st - 3))])
    | X5 =>
      match rcd x with
      | None => None
      | Some b =>
        Some (set_pc t Done (set_tl t (mkTl None None [] (gd x) (rl x)) (w_est (upd (est st) b 0) (w_g_owner (upd (g_owner st) b None) st))),
              [EStore t (L_state b) mo_rel (vnat 0)])
      end
    end
  end.
