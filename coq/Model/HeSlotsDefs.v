(** Sequential (per-thread) model of the hazard era slot pool of xenium::reclamation::hazard_eras
    (xenium/reclamation/impl/hazard_eras.hpp) and of the guard_ptr operations on top of it.  Definitions only.
    The pool (free list through the slots, hint, blocks, growth) is the one of Model/HpSlotsDefs.v, instantiated with
    the payload (era, guard_cnt).  What differs from hazard_pointer is the guard layer:
    - a slot holds an ERA and a reference count [guard_cnt]; several guards may refer to the same slot
      (copy construction/assignment share the slot and never allocate);
    - [alloc_hazard_era(era)] first tries the cache [last_hazard_era]/[last_era] and shares that slot when the era is equal;
    - [acquire]/[acquire_if_equal] depend on the global [era_clock] (incremented by every reclaim); they re-use the
      guard's slot when no other guard shares it, otherwise they drop their reference and allocate;
    - a slot returns to the free list when its last reference is released.
    Run against the compiled code by tools/hpslots_diff.py --he  (harness/h_heslots.cpp). *)
From Coq Require Import String Ascii List Arith Bool.
From XV Require Import Model.HpSlotsDefs.
Import ListNotations.

(** payload of a slot that is in use: (era, guard_cnt) *)
Definition hslot := slot (nat * nat).

Record hstate := {
  hpool : pool (nat * nat);
  h_last : option nat;        (* last_hazard_era *)
  h_last_era : nat;           (* last_era *)
  h_clock : nat;              (* hazard_eras::era_clock (global) *)
  h_guards : list guard       (* g_hp = the guard's he *)
}.

Inductive hop :=
| HOp (o : gop)               (* the guard operations of HpSlotsDefs *)
| HTick.                      (* era_clock.fetch_add(1), what guard_ptr::reclaim does *)

Definition h_with_pool (st : hstate) (p : pool (nat * nat)) : hstate :=
  {| hpool := p; h_last := h_last st; h_last_era := h_last_era st; h_clock := h_clock st; h_guards := h_guards st |}.
Definition h_with_guards (st : hstate) (gs : list guard) : hstate :=
  {| hpool := hpool st; h_last := h_last st; h_last_era := h_last_era st; h_clock := h_clock st; h_guards := gs |}.
Definition h_get (st : hstate) (g : nat) : option guard := nth_error (h_guards st) g.
Definition h_put (st : hstate) (g : nat) (x : guard) : hstate := h_with_guards st (set_nth g x (h_guards st)).

Definition slot_at (st : hstate) (s : nat) : option (nat * nat) :=
  match nth_error (slots (hpool st)) s with
  | Some (Obj ec) => Some ec
  | _ => None
  end.

Inductive hres := HOk (s : nat) (st : hstate) | HExh | HCorrupt.

(** [alloc_hazard_era(hint, era)] *)
Definition he_alloc (cfg : config) (st : hstate) (era : nat) : hres :=
  let fresh :=
    match p_alloc cfg (hpool st) with
    | AOk i p => HOk i {| hpool := p_set i (era, 1) p; h_last := Some i; h_last_era := era;
                          h_clock := h_clock st; h_guards := h_guards st |}
    | AExh => HExh
    | ACorrupt => HCorrupt
    end in
  match h_last st with
  | Some l => if h_last_era st =? era then
                match slot_at st l with
                | Some (e, c) => HOk l (h_with_pool st (p_set l (e, S c) (hpool st)))      (* add_guard *)
                | None => HCorrupt
                end
              else fresh
  | None => fresh
  end.

(** [release_hazard_era(he, hint)] for he = slot s (the caller sets its he to nullptr) *)
Definition he_release (st : hstate) (s : nat) : option hstate :=
  match slot_at st s with
  | Some (e, S c) =>
      match c with
      | 0 => Some {| hpool := p_release s (hpool st);
                     h_last := (match h_last st with Some l => if l =? s then None else Some l | None => None end);
                     h_last_era := h_last_era st; h_clock := h_clock st; h_guards := h_guards st |}
      | S _ => Some (h_with_pool st (p_set s (e, c) (hpool st)))
      end
  | _ => None          (* release of a slot that is not in use: assertion / counter underflow *)
  end.

(** [guard_ptr::reset()] *)
Definition h_reset (st : hstate) (g : nat) : option hstate :=
  match h_get st g with
  | Some gd => match g_hp gd with
               | Some s => match he_release st s with
                           | Some st1 => Some (h_put st1 g empty_guard)
                           | None => None
                           end
               | None => Some (h_put st g empty_guard)
               end
  | None => Some st
  end.

Definition h_set_era (st : hstate) (s era : nat) : option hstate :=
  match slot_at st s with
  | Some (_, c) => Some (h_with_pool st (p_set s (era, c) (hpool st)))
  | None => None
  end.

Definition mk_guard (h : option nat) (v m : nat) : guard := {| g_hp := h; g_ptr := v; g_mark := m |}.

(** the part of acquire / acquire_if_equal that ends in [he = alloc_hazard_era(era)]: the guard g has already dropped
    its he and its ptr (if it had an era); on success ptr := (v, m), on a throw the guard stays as it is: he == nullptr *)
Definition h_alloc_for (cfg : config) (st : hstate) (g : nat) (old : guard) (v m : nat) (ret : bool)
  : outcome * bool * hstate :=
  match he_alloc cfg st (h_clock st) with
  | HOk s st1 => (Ok, ret, h_put st1 g (mk_guard (Some s) v m))
  | HExh => (Exhausted, false, h_put st g (mk_guard None (g_ptr old) (g_mark old)))
  | HCorrupt => (Invalid, false, st)
  end.

(** [guard_ptr(const MarkedPtr& p)] into the destroyed guard g *)
Definition h_construct (cfg : config) (st : hstate) (g v m : nat) : outcome * hstate :=
  if v =? 0 then (Ok, h_put st g (mk_guard None v m))
  else match he_alloc cfg st (h_clock st) with
       | HOk s st1 => (Ok, h_put st1 g (mk_guard (Some s) v m))
       | HExh => (Exhausted, st)
       | HCorrupt => (Invalid, st)
       end.

(** [guard_ptr(const guard_ptr& p)] / the tail of copy assignment: share p's slot *)
Definition h_share (st : hstate) (g : nat) (sd : guard) : outcome * hstate :=
  match g_hp sd with
  | Some s => match slot_at st s with
              | Some (e, c) => (Ok, h_put (h_with_pool st (p_set s (e, S c) (hpool st))) g sd)
              | None => (Invalid, st)
              end
  | None => (Ok, h_put st g (mk_guard None (g_ptr sd) (g_mark sd)))
  end.

Definition opt_bind {X Y} (o : option X) (f : X -> outcome * bool * Y) (dflt : Y) : outcome * bool * Y :=
  match o with Some x => f x | None => (Invalid, false, dflt) end.

Fixpoint h_reset_all (st : hstate) (gs : list nat) : option hstate :=
  match gs with
  | [] => Some st
  | g :: r => match h_reset st g with Some st1 => h_reset_all st1 r | None => None end
  end.

Definition h_step_g (cfg : config) (st : hstate) (op : gop) : outcome * bool * hstate :=
  match op with
  | GAcquire g v m =>
      match h_get st g with
      | None => (Invalid, false, st)
      | Some gd =>
          if v =? 0 then                                                                 (* value.get() == nullptr: reset(); ptr = value *)
            opt_bind (h_reset st g) (fun st1 => (Ok, false, h_put st1 g (mk_guard None v m))) st
          else
          let era := h_clock st in
          match g_hp gd with
          | Some s =>
              match slot_at st s with
              | Some (e, c) =>
                  if e =? era then (Ok, false, h_put st g (mk_guard (Some s) v m))       (* era == prev_era *)
                  else if c =? 1 then                                                    (* guards() == 1: set_era *)
                    opt_bind (h_set_era st s era) (fun st1 => (Ok, false, h_put st1 g (mk_guard (Some s) v m))) st
                  else                                                  (* release_guard(); he = nullptr; ptr.reset(); alloc *)
                    h_alloc_for cfg (h_put (h_with_pool st (p_set s (e, pred c) (hpool st))) g empty_guard)
                                g empty_guard v m false
              | None => (Invalid, false, st)
              end
          | None => h_alloc_for cfg st g gd v m false                                    (* prev_era = 0 <> era_clock *)
          end
      end
  | GAcquireIfEqual g v m ev em =>
      match h_get st g with
      | None => (Invalid, false, st)
      | Some gd =>
          let eq := (v =? ev) && (m =? em) in
          if (v =? 0) || negb eq then           (* p1.get() == nullptr || p1 != expected: reset(); if (p1 == expected) ptr = p1 *)
            opt_bind (h_reset st g) (fun st1 => (Ok, eq, if eq then h_put st1 g (mk_guard None v m) else st1)) st
          else
            let era := h_clock st in
            match g_hp gd with
            | Some s =>
                match slot_at st s with
                | Some (e, c) =>
                    if c =? 1 then
                      opt_bind (h_set_era st s era) (fun st1 => (Ok, true, h_put st1 g (mk_guard (Some s) v m))) st
                    else
                      h_alloc_for cfg (h_put (h_with_pool st (p_set s (e, pred c) (hpool st))) g empty_guard)
                                  g empty_guard v m true
                | None => (Invalid, false, st)
                end
            | None => h_alloc_for cfg st g gd v m true
            end
      end
  | GReset g =>
      match h_get st g with
      | None => (Invalid, false, st)
      | Some _ => opt_bind (h_reset st g) (fun st1 => (Ok, false, st1)) st
      end
  | GCtorPtr g v m =>
      match h_get st g with
      | None => (Invalid, false, st)
      | Some _ => opt_bind (h_reset st g) (fun st0 => let (o, st') := h_construct cfg st0 g v m in (o, false, st')) st
      end
  | GCopyCtor dst src =>
      match h_get st dst, h_get st src with
      | Some _, Some sd =>
          if dst =? src then (Invalid, false, st)
          else opt_bind (h_reset st dst) (fun st0 => let (o, st') := h_share st0 dst sd in (o, false, st')) st
      | _, _ => (Invalid, false, st)
      end
  | GMoveCtor dst src =>
      match h_get st dst, h_get st src with
      | Some _, Some sd =>
          if dst =? src then (Invalid, false, st)
          else opt_bind (h_reset st dst) (fun st0 => (Ok, false, h_put (h_put st0 dst sd) src empty_guard)) st
      | _, _ => (Invalid, false, st)
      end
  | GCopyAssign dst src =>
      match h_get st dst, h_get st src with
      | Some _, Some sd =>
          if dst =? src then (Ok, false, st)
          else opt_bind (h_reset st dst) (fun st0 => let (o, st') := h_share st0 dst sd in (o, false, st')) st
      | _, _ => (Invalid, false, st)
      end
  | GMoveAssign dst src =>
      match h_get st dst, h_get st src with
      | Some _, Some sd =>
          if dst =? src then (Ok, false, st)
          else opt_bind (h_reset st dst) (fun st0 => (Ok, false, h_put (h_put st0 dst sd) src empty_guard)) st
      | _, _ => (Invalid, false, st)
      end
  | GSwap a b =>
      match h_get st a, h_get st b with
      | Some ga, Some gb => (Ok, false, h_put (h_put st a gb) b ga)
      | _, _ => (Invalid, false, st)
      end
  | GExit =>
      (* all guards are destroyed (in reverse order), the thread exits; the next thread adopts the control block:
         [initialize] relinks all slots; last_hazard_era / last_era are NOT re-initialised *)
      opt_bind (h_reset_all st (rev (seq 0 (length (h_guards st)))))
               (fun st1 => (Ok, false, {| hpool := p_init cfg (blocks (hpool st1)); h_last := h_last st1;
                                          h_last_era := h_last_era st1; h_clock := h_clock st1; h_guards := h_guards st1 |})) st
  end.

Definition h_step (cfg : config) (st : hstate) (op : hop) : outcome * bool * hstate :=
  match op with
  | HOp o => h_step_g cfg st o
  | HTick => (Ok, false, {| hpool := hpool st; h_last := h_last st; h_last_era := h_last_era st;
                            h_clock := S (h_clock st); h_guards := h_guards st |})
  end.

Definition h_init (cfg : config) : hstate :=
  {| hpool := p_init cfg []; h_last := None; h_last_era := 0; h_clock := 1; h_guards := repeat empty_guard (cG cfg) |}.

(** * observation *)
Record hout := {
  ho_res : outcome; ho_ret : bool;
  ho_guards : list (option nat * nat * nat);
  ho_prot : list nat;                 (* the eras a scan gathers, sorted *)
  ho_free : list nat;
  ho_total : nat;
  ho_cnt : list nat;                  (* guard_cnt of every slot *)
  ho_last : option nat; ho_last_era : nat; ho_clock : nat
}.

Definition h_observe (r : outcome) (b : bool) (st : hstate) : hout :=
  {| ho_res := r; ho_ret := b;
     ho_guards := map (fun g => (g_hp g, g_ptr g, g_mark g)) (h_guards st);
     ho_prot := sort (map fst (gather (slots (hpool st))));
     ho_free := free_list (hpool st);
     ho_total := length (slots (hpool st));
     ho_cnt := map (fun s => match s with Obj (_, c) => c | Link _ => 0 end) (slots (hpool st));
     ho_last := h_last st; ho_last_era := h_last_era st; ho_clock := h_clock st |}.

Fixpoint h_run_from (cfg : config) (st : hstate) (ops : list hop) : list hout * hstate :=
  match ops with
  | [] => ([], st)
  | op :: r => let '(o, b, st') := h_step cfg st op in
               let (os, fin) := h_run_from cfg st' r in (h_observe o b st' :: os, fin)
  end.
Definition h_run (cfg : config) (ops : list hop) : list hout * hstate := h_run_from cfg (h_init cfg) ops.

Local Open Scope string_scope.
Definition show_hout (o : hout) : string :=
  (match ho_res o with Ok => "ok" | Exhausted => "exhausted" | Invalid => "invalid" end)
  ++ " ret=" ++ (if ho_ret o then "1" else "0")
  ++ " g=[" ++ join "," (map show_guard (ho_guards o)) ++ "]"
  ++ " prot=[" ++ join "," (map show_nat (ho_prot o)) ++ "]"
  ++ " free=[" ++ join "," (map show_nat (ho_free o)) ++ "]"
  ++ " total=" ++ show_nat (ho_total o)
  ++ " cnt=[" ++ join "," (map show_nat (ho_cnt o)) ++ "]"
  ++ " last=" ++ (match ho_last o with Some l => show_nat l | None => "-" end)
  ++ " lastera=" ++ show_nat (ho_last_era o)
  ++ " clock=" ++ show_nat (ho_clock o).
Definition show_hrun (cfg : config) (ops : list hop) : string :=
  join nl (map show_hout (fst (h_run cfg ops))).
