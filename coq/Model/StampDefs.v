(** Step-level model of xenium::reclamation::stamp_it (harness/recl_types.hpp: STAMP; xenium/reclamation/stamp_it.hpp,
    impl/stamp_it.hpp, detail/thread_block_list.hpp), driven by the generic protocol-conforming client of
    harness/h_recl.cpp (built as build/h_stamp = h_recl.cpp with rt::STAMP and the reclaimer's statics named; also
    build/h_recl_stamp).

    Client operations (c = cell = a concurrent_ptr of the client, s = a persistent guard_ptr of the thread):
      repl c    g.acquire(cell[c]); n = new Node; if CAS(cell[c], g, n) g.reclaim() else delete n
      clear c   the same with n = nullptr
      read c    g.acquire(cell[c]); dereference; g.reset()
      hold c s  guards[s].acquire(cell[c]); dereference        (stays protected across operations)
      drop s    guards[s].reset()
      deref s   dereference guards[s]
      enter     region[t] = new region_guard (unless the thread has one)
      leave     delete region[t]
      exit      the thread ends: its guards are reset and its region_guard is deleted (harness thread_end; the last one
                leaves the critical region), then ~thread_data abandons the control block, reclaims what it can of the
                local retire list and hands the rest to the global list.  The exit has no START event: [Start t OExit]
                moves the thread to the first atomic access of the exit sequence (the thread takes no step when it never
                owned a control block).
    Not modelled: copy / move / swap of guards, acquire_if_equal.

    The thread order queue: two sentinel control blocks [head] and [tail]; a thread control block has
    prev +16, next +24 (marked pointers: bit 0 of the mark = DeleteMark, the rest a version tag that every update
    increments), stamp +32 (bit 0 NotInList, bit 1 PendingPush, stamps advance by StampInc = 4).  head->prev leads
    through the blocks of the threads inside a critical region, newest first, to tail; tail->next leads back.

    guard_ptr::acquire(p):            A1  p.load(relaxed); nullptr -> reset()
                                          if (!this->ptr) enter_region()
                                      A2  this->ptr = p.load(acquire); nullptr -> leave_region()
    enter_region():                   ++region_entries == 1 -> ensure_has_control_block(); queue.push(control_block)
    ensure_has_control_block():       C1 .. C6 as for the epoch based reclaimers (acquire_entry of the thread block list)
    push(block):                      P1  m = block->next.load(relaxed)
                                      P2  block->next.store(head with clean mark m+2, release)
                                      P3  head_prev = head->prev.load(relaxed)
                                      P4  head_prev2 = head->prev.load(relaxed); != head_prev -> head_prev = head_prev2, P4
                                      P5  stamp = head->stamp.fetch_add(4, seq_cst)
                                      P6  block->stamp.store(stamp - 2, release)                  (PendingPush)
                                      P7  head->prev.load(relaxed) != head_prev -> P4
                                      P8  m = block->prev.load(relaxed)
                                      P9  block->prev.store(my_prev = head_prev.get() with clean mark m+2, release)
                                      P10 head->prev.CAS_weak(head_prev -> block with mark+2, acq_rel/relaxed); failure -> P4 with the seen value
                                      P11 block->stamp.store(stamp, release)
                                      P12 link = my_prev->next.load(acquire)
                                          link.get() == block or link marked -> done
                                      P13 block->prev.load(relaxed) != my_prev -> done
                                      P14 my_prev->next.CAS_weak(link -> block with mark+2, release/acquire); failure -> the check before P13
    leave_region():                   --region_entries == 0 -> wasLast = queue.remove(control_block);
                                          wasLast ? process_global_nodes() : process_local_nodes() (+ add_to_global if > 20 remain)
    remove(block):                    R1 R2  prev = set_mark_flag(block->prev, acq_rel)   (load relaxed, CAS_weak)
                                      R3 R4  next = set_mark_flag(block->next, relaxed)
      remove_from_prev_list:          RP1 my_stamp = b->stamp.load(relaxed)
                                      top: next.get() == prev.get() -> RPA
                                      RPA next = b->next.load(relaxed); return false
                                      RP2 prev_prev = prev->prev.load(acquire)
                                      RP3 prev_stamp = prev->stamp.load(relaxed); > my_stamp or NotInList -> return true
                                          prev_prev marked -> mark_next(prev, prev_stamp); false -> return true
                                      RP4 prev = prev->prev.load(acquire); top
                                      RP5 next_prev = next->prev.load(acquire)
                                      RP6 next_stamp = next->stamp.load(acquire)
                                      RP7 next->prev.load(relaxed) != next_prev -> top
                                          next_stamp < my_stamp -> RPA
                                          next_stamp has NotInList/PendingPush -> next = last, or
                                      RP9 next = next->next.load(acquire); top
                                          remove_or_skip_marked_block; next_prev.get() != b -> save_next_as_last...; top
                                      RP10 next->prev.CAS_strong(next_prev -> prev.get() with mark+2, release/relaxed); success -> return false
      remove_from_next_list:          RN1 my_stamp = removed->stamp.load(relaxed)                 (unless fully removed)
                                      RN2 RN3 RN4 as RP5 RP6 RP7;  flags -> next = last, or
                                      RN5 next = next->next.load(acquire); top
                                      RN6 prev_next = prev->next.load(acquire)
                                      RN7 prev_stamp = prev->stamp.load(relaxed); > my_stamp or NotInList -> return
                                      RN8 (prev_next marked) prev = prev->prev.load(acquire); top
                                          next.get() == prev.get() -> return; remove_or_skip_marked_block;
                                          next_prev.get() != prev.get() -> save_next_as_last...; top
                                          next_stamp <= my_stamp or prev_next.get() == next.get() -> return
                                      RN9 next->prev.load(relaxed) == next_prev ?
                                      RN10 prev->next.CAS_weak(prev_next -> next.get() with mark+2, release/relaxed)
                                      RN11 next->next.load(relaxed) unmarked -> return
      mark_next(block, stamp):        MN1 link = block->next.load(acquire)
                                      MN2 block->stamp.load(relaxed) == stamp ?  no: false;  link marked: true
                                      MN3 block->next.CAS_weak(link -> marked, release/acquire); failure -> MN2
      remove_or_skip_marked_block:        (next_prev marked) with last: mark_next(next, next_stamp) &&
                                      RS1 last->prev.load(relaxed) == next &&
                                      RS2 last->prev.CAS_strong(next -> next_prev.get() with mark+2, release/relaxed); next = last
                                      RS3 (without last) next = next->next.load(acquire)
      save_next_as_last_and_move..:   SV1 s = next_prev->stamp.load(acquire)
                                      SV2 (PendingPush) next->prev.load(relaxed) == next_prev ?
                                      SV3 next_prev->stamp.CAS_strong(s -> s + 2, relaxed); failed with another value -> return
                                          last = next; next = next_prev
                                      RM1 stamp = block->stamp.load(relaxed)
                                      RM2 block->stamp.store(stamp + 1, release)                  (NotInList)
                                      RM3 wasTail = block->prev.load(relaxed).get() == tail
      update_tail_stamp(stamp + 4):   UT1 last = tail->next.load(acquire)
                                      UT2 last_prev = last->prev.load(acquire)
                                      UT3 last_stamp = last->stamp.load(acquire)
                                      UT4 (last_stamp > stamp, last_prev.get() == tail) tail->next.load(relaxed) == last ?
                                      UT5 (last == head, stamp < last_stamp - 4) head->prev.CAS_strong(last_prev -> same with mark+2, relaxed)
                                      UT6 tail_stamp = tail->stamp.load(relaxed)
                                      UT7 (tail_stamp < stamp) tail->stamp.CAS_weak(tail_stamp -> stamp, release/relaxed)
    process_local_nodes():            PL1 tail_stamp = tail->stamp.load(acquire); delete the prefix of the local list with stamp <= tail_stamp
    process_global_nodes():           PG1 tail_stamp = tail->stamp.load(acquire)
                                      PG2 global_retired_nodes.load(relaxed) != nullptr ->
                                      PG3 global_retired_nodes.exchange(nullptr, acquire)
                                          the local list becomes the first chunk; of every chunk the prefix with stamp <= tail_stamp is deleted
                                      PG4 (something remains) new_tail_stamp = tail->stamp.load(acquire); lowest deleted stamp < it -> again
    add_to_global_retired_nodes:      AG1 n = global_retired_nodes.load(relaxed)
                                      AG2 global_retired_nodes.CAS_weak(n -> first chunk, release/relaxed)
    guard_ptr::reclaim():             RT1 p->stamp = head->stamp.load(seq_cst); append to the local list; > 40 nodes -> process_local_nodes(); reset()
    ~thread_data():                   X1  control_block->state.store(free, release); process_local_nodes(); rest -> add_to_global

    One [Step] = one atomic access, emitting exactly the event rt/xvrt prints; allocations and frees are not scheduling
    points and belong to the step of the preceding atomic access.  compare_exchange_weak never fails spuriously under
    xvrt.  Heap blocks are numbered in allocation order (block i = "h<i>"); the cells' initial nodes are blocks
    0..ncells-1.  The thread block list is immutable except for insertion at the head, so a traversal carries the
    remaining suffix of the list.

    Idealisations: the version tag of a marked pointer (17 bits in the code: MarkBits = 18) and the stamps (62 bits)
    are unbounded here; the events print the mark modulo 2^18 as the code stores it (16 bits in the upper half of the
    word, 2 bits below the pointer).  A tag wraps after 131072 updates of one pointer.

    Ghosts: [g_owner b] the thread owning control block b; [g_reg b] block b is inside a critical region (from the CAS that
    links it behind head to the CAS that marks its prev pointer); [g_lk b] the current stamp of b belongs to an incarnation
    that was linked; [g_max] the stamp of the block linked last; [g_life n] the life cycle of node n (fresh / published in
    cell c / unlinked by t / retired by t with stamp r / dropped by its creator); [g_where n] where a retired node is
    (local list of t / global list / in the hands of t / freed); [g_nfree n] how often the reclaimer freed n; [g_uaf] a
    dereference hit a destroyed node.
    Ghosts of the (unproved, randomly tested: ocaml/stamp_explore.ml) invariant of the prev list: [g_lo x] / [g_hi x] are
    stamp bounds recorded with the prev pointer of x (head or a block) - "no block inside a critical region has a stamp
    strictly between g_lo x and g_hi x" (g_lo = the stamp of the block the pointer led to when it was written, g_hi = the
    stamp of x, g_max + 1 for a block that is not yet linked, no bound for head); [hlo] / [hgm] of a pushing thread are
    g_lo of head and g_max at the time it read head->prev; [flo], [fnlo] / [fnhi] of a removing thread are the bounds that
    came with its prev variable and with next_prev.  They do not influence the steps.

    [step_gen false] is the variant whose update_tail_stamp does not take the stamp of the block tail->next points to;
    [step] = [step_gen true] is the code. *)
From Coq Require Import NArith List Bool.
From XV Require Import Conc.Lts Conc.Ev.
Import ListNotations.
Local Open Scope N_scope.

Inductive op :=
| ORepl (c : N) | OClear (c : N) | ORead (c : N) | OHold (c : N) (s : nat) | ODrop (s : nat) | ODeref (s : nat)
| OEnter | OLeave | OExit.

(** what an enter_region belongs to: repl/clear ([fresh] = a new node is installed), read, hold, the constructor of the
    region_guard object r *)
Inductive ctx := KRepl (c : N) (fresh : bool) | KRead (c : N) | KHold (c : N) (s : nat) | KEnter (r : N).

(** what follows leave_region: the operation returns [r] (after deleting the region_guard object [fr]) / repl continues
    with an empty guard / the thread exit continues with ~thread_data *)
Inductive lcont := LFin (r : list N) (fr : option N) | LRepl (c : N) (fresh : bool) | LExit (fr : option N).

(** what follows process_local_nodes / add_to_global_retired_nodes *)
Inductive plk := PLLeave (k : lcont) | PLRetire | PLExit.
Inductive agk := AGK (k : lcont) | AGExit.

(** control blocks of the thread order queue *)
Inductive tcb := THead | TTail | TB (b : N).
(** marked_ptr<thread_control_block, 18>: pointer and mark *)
Definition mp := (option tcb * N)%type.

(** program points of remove *)
Inductive rpt :=
| R1 | R2 | R3 | R4
| RP1 | RPA | RP2 | RP3 | RP4 | RP5 | RP6 | RP7 | RP9 | RP10
| RN1 | RN2 | RN3 | RN4 | RN5 | RN6 | RN7 | RN8 | RN9 | RN10 | RN11
| MN1 (onprev : bool) | MN2 (onprev : bool) | MN3 (onprev : bool)
| RS1 | RS2 | RS3
| SV1 | SV2 | SV3
| RM1 | RM2 | RM3.

(** the local variables of remove *)
Record frame := mkF {
  fk : lcont;
  fprev : mp; fnext : mp; flast : mp;
  fms : N;                           (* my_stamp *)
  fpp : mp;                          (* prev_prev / prev_next *)
  fpst : N;                          (* prev_stamp / next_prev_stamp *)
  fnp : mp;                          (* next_prev *)
  fnst : N;                          (* next_stamp / stamp *)
  flink : mp;                        (* link of set_mark_flag / mark_next *)
  fnl : bool;                        (* inside remove_from_next_list *)
  flo : N; fnlo : N; fnhi : N }.     (* ghosts: the recorded stamp bounds of prev / of the cell next_prev was read from *)

Inductive pc :=
| Idle
| Begin (o : op)
| A1 (k : ctx)
| C1 (k : ctx) | C2 (k : ctx) (r : N) (rest : list N) | C3 (k : ctx) (r : N) (rest : list N)
| C4 (k : ctx) (b : N) | C5 (k : ctx) (b : N) | C6 (k : ctx) (b : N) (h : option N)
| P1 (k : ctx) | P2 (k : ctx) (m : N) | P3 (k : ctx) | P4 (k : ctx) (hp : mp) | P5 (k : ctx) (hp : mp)
| P6 (k : ctx) (hp : mp) (s : N) | P7 (k : ctx) (hp : mp) (s : N) | P8 (k : ctx) (hp : mp) (s : N)
| P9 (k : ctx) (hp : mp) (s : N) (m : N) | P10 (k : ctx) (hp : mp) (s : N) (my : mp)
| P11 (k : ctx) (s : N) (my : mp) | P12 (k : ctx) (my : mp) | P13 (k : ctx) (my : mp) (link : mp) | P14 (k : ctx) (my : mp) (link : mp)
| A2 (k : ctx)
| R3c (c : N) (g : option N) (n : option N) | RT1 (old : N)
| Rm (p : rpt) (f : frame)
| UT1 (k : lcont) (s : N) | UT2 (k : lcont) (s : N) (last : mp) | UT3 (k : lcont) (s : N) (last lp : mp)
| UT4 (k : lcont) (s : N) (last lp : mp) (ls : N) | UT5 (k : lcont) (s : N) (lp : mp) (ls : N)
| UT6 (k : lcont) (s : N) | UT7 (k : lcont) (s : N) (ts : N)
| PL1 (k : plk)
| PG1 (k : lcont) | PG2 (k : lcont) (ts : N) | PG3 (k : lcont) (ts : N) | PG4 (k : lcont) (ch : list (list N)) (low : option N)
| AG1 (k : agk) (ch : list (list N)) | AG2 (k : agk) (ch : list (list N)) (h : option N)
| X1.

Inductive life := LNone | LFresh (t : nat) | LPub (c : N) | LUnl (t : nat) | LRet (t : nat) (r : N) | LDropped.
Inductive place := PNone | PList (t : nat) | PGlob | PFlight (t : nat) | PFreed.

(** thread_data: control_block, region_entries, the local retire list (oldest first); plus the client's region_guard
    object and persistent guards of the thread *)
Record tls := mkTl { cb : option N; nest : nat; rg : option N; rl : list N; gs : nat -> option N; hlo : N; hgm : N }.

Record state := mkSt {
  blist : list N;                  (* global_thread_block_list, head first *)
  bstate : N -> N;                 (* entry::state: 0 free, 2 active *)
  qprev : tcb -> mp;               (* thread_control_block::prev *)
  qnext : tcb -> mp;               (* thread_control_block::next *)
  qstamp : tcb -> N;               (* thread_control_block::stamp *)
  gret : list (list N);            (* global_retired_nodes: the chunks, each in list order *)
  nstamp : N -> N;                 (* deletable_object_with_stamp::stamp *)
  cells : N -> option N;           (* the client's concurrent_ptrs *)
  nalloc : N;                      (* number of tracked heap blocks allocated so far *)
  nextid : N; nid : N -> N;        (* the harness' node ids (what a dereference returns) *)
  th : nat -> pc; tl : nat -> tls;
  g_owner : N -> option nat; g_reg : N -> bool; g_lk : N -> bool; g_max : N; g_lo : tcb -> N; g_hi : tcb -> N; g_life : N -> life; g_where : N -> place; g_nfree : N -> nat; g_uaf : bool }.

Inductive action := Start (t : nat) (o : op) | Step (t : nat).

(** ** setters *)
Definition w_blist v (st : state) : state := mkSt v (bstate st) (qprev st) (qnext st) (qstamp st) (gret st) (nstamp st) (cells st) (nalloc st) (nextid st) (nid st) (th st) (tl st) (g_owner st) (g_reg st) (g_lk st) (g_max st) (g_lo st) (g_hi st) (g_life st) (g_where st) (g_nfree st) (g_uaf st).
Definition w_bstate v (st : state) : state := mkSt (blist st) v (qprev st) (qnext st) (qstamp st) (gret st) (nstamp st) (cells st) (nalloc st) (nextid st) (nid st) (th st) (tl st) (g_owner st) (g_reg st) (g_lk st) (g_max st) (g_lo st) (g_hi st) (g_life st) (g_where st) (g_nfree st) (g_uaf st).
Definition w_qprev v (st : state) : state := mkSt (blist st) (bstate st) v (qnext st) (qstamp st) (gret st) (nstamp st) (cells st) (nalloc st) (nextid st) (nid st) (th st) (tl st) (g_owner st) (g_reg st) (g_lk st) (g_max st) (g_lo st) (g_hi st) (g_life st) (g_where st) (g_nfree st) (g_uaf st).
Definition w_qnext v (st : state) : state := mkSt (blist st) (bstate st) (qprev st) v (qstamp st) (gret st) (nstamp st) (cells st) (nalloc st) (nextid st) (nid st) (th st) (tl st) (g_owner st) (g_reg st) (g_lk st) (g_max st) (g_lo st) (g_hi st) (g_life st) (g_where st) (g_nfree st) (g_uaf st).
Definition w_qstamp v (st : state) : state := mkSt (blist st) (bstate st) (qprev st) (qnext st) v (gret st) (nstamp st) (cells st) (nalloc st) (nextid st) (nid st) (th st) (tl st) (g_owner st) (g_reg st) (g_lk st) (g_max st) (g_lo st) (g_hi st) (g_life st) (g_where st) (g_nfree st) (g_uaf st).
Definition w_gret v (st : state) : state := mkSt (blist st) (bstate st) (qprev st) (qnext st) (qstamp st) v (nstamp st) (cells st) (nalloc st) (nextid st) (nid st) (th st) (tl st) (g_owner st) (g_reg st) (g_lk st) (g_max st) (g_lo st) (g_hi st) (g_life st) (g_where st) (g_nfree st) (g_uaf st).
Definition w_nstamp v (st : state) : state := mkSt (blist st) (bstate st) (qprev st) (qnext st) (qstamp st) (gret st) v (cells st) (nalloc st) (nextid st) (nid st) (th st) (tl st) (g_owner st) (g_reg st) (g_lk st) (g_max st) (g_lo st) (g_hi st) (g_life st) (g_where st) (g_nfree st) (g_uaf st).
Definition w_cells v (st : state) : state := mkSt (blist st) (bstate st) (qprev st) (qnext st) (qstamp st) (gret st) (nstamp st) v (nalloc st) (nextid st) (nid st) (th st) (tl st) (g_owner st) (g_reg st) (g_lk st) (g_max st) (g_lo st) (g_hi st) (g_life st) (g_where st) (g_nfree st) (g_uaf st).
Definition w_nalloc v (st : state) : state := mkSt (blist st) (bstate st) (qprev st) (qnext st) (qstamp st) (gret st) (nstamp st) (cells st) v (nextid st) (nid st) (th st) (tl st) (g_owner st) (g_reg st) (g_lk st) (g_max st) (g_lo st) (g_hi st) (g_life st) (g_where st) (g_nfree st) (g_uaf st).
Definition w_nextid v (st : state) : state := mkSt (blist st) (bstate st) (qprev st) (qnext st) (qstamp st) (gret st) (nstamp st) (cells st) (nalloc st) v (nid st) (th st) (tl st) (g_owner st) (g_reg st) (g_lk st) (g_max st) (g_lo st) (g_hi st) (g_life st) (g_where st) (g_nfree st) (g_uaf st).
Definition w_nid v (st : state) : state := mkSt (blist st) (bstate st) (qprev st) (qnext st) (qstamp st) (gret st) (nstamp st) (cells st) (nalloc st) (nextid st) v (th st) (tl st) (g_owner st) (g_reg st) (g_lk st) (g_max st) (g_lo st) (g_hi st) (g_life st) (g_where st) (g_nfree st) (g_uaf st).
Definition w_th v (st : state) : state := mkSt (blist st) (bstate st) (qprev st) (qnext st) (qstamp st) (gret st) (nstamp st) (cells st) (nalloc st) (nextid st) (nid st) v (tl st) (g_owner st) (g_reg st) (g_lk st) (g_max st) (g_lo st) (g_hi st) (g_life st) (g_where st) (g_nfree st) (g_uaf st).
Definition w_tl v (st : state) : state := mkSt (blist st) (bstate st) (qprev st) (qnext st) (qstamp st) (gret st) (nstamp st) (cells st) (nalloc st) (nextid st) (nid st) (th st) v (g_owner st) (g_reg st) (g_lk st) (g_max st) (g_lo st) (g_hi st) (g_life st) (g_where st) (g_nfree st) (g_uaf st).
Definition w_g_owner v (st : state) : state := mkSt (blist st) (bstate st) (qprev st) (qnext st) (qstamp st) (gret st) (nstamp st) (cells st) (nalloc st) (nextid st) (nid st) (th st) (tl st) v (g_reg st) (g_lk st) (g_max st) (g_lo st) (g_hi st) (g_life st) (g_where st) (g_nfree st) (g_uaf st).
Definition w_g_reg v (st : state) : state := mkSt (blist st) (bstate st) (qprev st) (qnext st) (qstamp st) (gret st) (nstamp st) (cells st) (nalloc st) (nextid st) (nid st) (th st) (tl st) (g_owner st) v (g_lk st) (g_max st) (g_lo st) (g_hi st) (g_life st) (g_where st) (g_nfree st) (g_uaf st).
Definition w_g_lk v (st : state) : state := mkSt (blist st) (bstate st) (qprev st) (qnext st) (qstamp st) (gret st) (nstamp st) (cells st) (nalloc st) (nextid st) (nid st) (th st) (tl st) (g_owner st) (g_reg st) v (g_max st) (g_lo st) (g_hi st) (g_life st) (g_where st) (g_nfree st) (g_uaf st).
Definition w_g_max v (st : state) : state := mkSt (blist st) (bstate st) (qprev st) (qnext st) (qstamp st) (gret st) (nstamp st) (cells st) (nalloc st) (nextid st) (nid st) (th st) (tl st) (g_owner st) (g_reg st) (g_lk st) v (g_lo st) (g_hi st) (g_life st) (g_where st) (g_nfree st) (g_uaf st).
Definition w_g_lo v (st : state) : state := mkSt (blist st) (bstate st) (qprev st) (qnext st) (qstamp st) (gret st) (nstamp st) (cells st) (nalloc st) (nextid st) (nid st) (th st) (tl st) (g_owner st) (g_reg st) (g_lk st) (g_max st) v (g_hi st) (g_life st) (g_where st) (g_nfree st) (g_uaf st).
Definition w_g_hi v (st : state) : state := mkSt (blist st) (bstate st) (qprev st) (qnext st) (qstamp st) (gret st) (nstamp st) (cells st) (nalloc st) (nextid st) (nid st) (th st) (tl st) (g_owner st) (g_reg st) (g_lk st) (g_max st) (g_lo st) v (g_life st) (g_where st) (g_nfree st) (g_uaf st).
Definition w_g_life v (st : state) : state := mkSt (blist st) (bstate st) (qprev st) (qnext st) (qstamp st) (gret st) (nstamp st) (cells st) (nalloc st) (nextid st) (nid st) (th st) (tl st) (g_owner st) (g_reg st) (g_lk st) (g_max st) (g_lo st) (g_hi st) v (g_where st) (g_nfree st) (g_uaf st).
Definition w_g_where v (st : state) : state := mkSt (blist st) (bstate st) (qprev st) (qnext st) (qstamp st) (gret st) (nstamp st) (cells st) (nalloc st) (nextid st) (nid st) (th st) (tl st) (g_owner st) (g_reg st) (g_lk st) (g_max st) (g_lo st) (g_hi st) (g_life st) v (g_nfree st) (g_uaf st).
Definition w_g_nfree v (st : state) : state := mkSt (blist st) (bstate st) (qprev st) (qnext st) (qstamp st) (gret st) (nstamp st) (cells st) (nalloc st) (nextid st) (nid st) (th st) (tl st) (g_owner st) (g_reg st) (g_lk st) (g_max st) (g_lo st) (g_hi st) (g_life st) (g_where st) v (g_uaf st).
Definition w_g_uaf v (st : state) : state := mkSt (blist st) (bstate st) (qprev st) (qnext st) (qstamp st) (gret st) (nstamp st) (cells st) (nalloc st) (nextid st) (nid st) (th st) (tl st) (g_owner st) (g_reg st) (g_lk st) (g_max st) (g_lo st) (g_hi st) (g_life st) (g_where st) (g_nfree st) v.
Definition wt_cb v (x : tls) : tls := mkTl v (nest x) (rg x) (rl x) (gs x) (hlo x) (hgm x).
Definition wt_nest v (x : tls) : tls := mkTl (cb x) v (rg x) (rl x) (gs x) (hlo x) (hgm x).
Definition wt_rg v (x : tls) : tls := mkTl (cb x) (nest x) v (rl x) (gs x) (hlo x) (hgm x).
Definition wt_rl v (x : tls) : tls := mkTl (cb x) (nest x) (rg x) v (gs x) (hlo x) (hgm x).
Definition wt_gs v (x : tls) : tls := mkTl (cb x) (nest x) (rg x) (rl x) v (hlo x) (hgm x).
Definition wt_hlo v (x : tls) : tls := mkTl (cb x) (nest x) (rg x) (rl x) (gs x) v (hgm x).
Definition wt_hgm v (x : tls) : tls := mkTl (cb x) (nest x) (rg x) (rl x) (gs x) (hlo x) v.
Definition wf_prev v (f : frame) : frame := mkF (fk f) v (fnext f) (flast f) (fms f) (fpp f) (fpst f) (fnp f) (fnst f) (flink f) (fnl f) (flo f) (fnlo f) (fnhi f).
Definition wf_next v (f : frame) : frame := mkF (fk f) (fprev f) v (flast f) (fms f) (fpp f) (fpst f) (fnp f) (fnst f) (flink f) (fnl f) (flo f) (fnlo f) (fnhi f).
Definition wf_last v (f : frame) : frame := mkF (fk f) (fprev f) (fnext f) v (fms f) (fpp f) (fpst f) (fnp f) (fnst f) (flink f) (fnl f) (flo f) (fnlo f) (fnhi f).
Definition wf_ms v (f : frame) : frame := mkF (fk f) (fprev f) (fnext f) (flast f) v (fpp f) (fpst f) (fnp f) (fnst f) (flink f) (fnl f) (flo f) (fnlo f) (fnhi f).
Definition wf_pp v (f : frame) : frame := mkF (fk f) (fprev f) (fnext f) (flast f) (fms f) v (fpst f) (fnp f) (fnst f) (flink f) (fnl f) (flo f) (fnlo f) (fnhi f).
Definition wf_pst v (f : frame) : frame := mkF (fk f) (fprev f) (fnext f) (flast f) (fms f) (fpp f) v (fnp f) (fnst f) (flink f) (fnl f) (flo f) (fnlo f) (fnhi f).
Definition wf_np v (f : frame) : frame := mkF (fk f) (fprev f) (fnext f) (flast f) (fms f) (fpp f) (fpst f) v (fnst f) (flink f) (fnl f) (flo f) (fnlo f) (fnhi f).
Definition wf_nst v (f : frame) : frame := mkF (fk f) (fprev f) (fnext f) (flast f) (fms f) (fpp f) (fpst f) (fnp f) v (flink f) (fnl f) (flo f) (fnlo f) (fnhi f).
Definition wf_link v (f : frame) : frame := mkF (fk f) (fprev f) (fnext f) (flast f) (fms f) (fpp f) (fpst f) (fnp f) (fnst f) v (fnl f) (flo f) (fnlo f) (fnhi f).
Definition wf_nl v (f : frame) : frame := mkF (fk f) (fprev f) (fnext f) (flast f) (fms f) (fpp f) (fpst f) (fnp f) (fnst f) (flink f) v (flo f) (fnlo f) (fnhi f).
Definition wf_lo v (f : frame) : frame := mkF (fk f) (fprev f) (fnext f) (flast f) (fms f) (fpp f) (fpst f) (fnp f) (fnst f) (flink f) (fnl f) v (fnlo f) (fnhi f).
Definition wf_nlo v (f : frame) : frame := mkF (fk f) (fprev f) (fnext f) (flast f) (fms f) (fpp f) (fpst f) (fnp f) (fnst f) (flink f) (fnl f) (flo f) v (fnhi f).
Definition wf_nhi v (f : frame) : frame := mkF (fk f) (fprev f) (fnext f) (flast f) (fms f) (fpp f) (fpst f) (fnp f) (fnst f) (flink f) (fnl f) (flo f) (fnlo f) v.

Definition updN {X : Type} (f : N -> X) (i : N) (v : X) : N -> X := fun j => if j =? i then v else f j.
Definition tcb_eqb (a b : tcb) : bool :=
  match a, b with THead, THead => true | TTail, TTail => true | TB x, TB y => x =? y | _, _ => false end.
Definition updT {X : Type} (f : tcb -> X) (i : tcb) (v : X) : tcb -> X := fun j => if tcb_eqb j i then v else f j.
Definition set_pc (t : nat) (p : pc) (st : state) : state := w_th (upd (th st) t p) st.
Definition set_tl (t : nat) (x : tls) (st : state) : state := w_tl (upd (tl st) t x) st.

(** ** marked pointers *)
Definition null_mp : mp := (None, 0).
Definition optr_eqb (a b : option tcb) : bool :=
  match a, b with None, None => true | Some x, Some y => tcb_eqb x y | _, _ => false end.
Definition mp_eqb (a b : mp) : bool := optr_eqb (fst a) (fst b) && (snd a =? snd b).
Definition marked (a : mp) : bool := N.odd (snd a).                          (* DeleteMark *)
Definition set_del (a : mp) : mp := (fst a, if N.odd (snd a) then snd a else snd a + 1).
(** make_marked(p, m): pointer p with the mark of m advanced by TagInc *)
Definition mk_marked (p : option tcb) (m : mp) : mp := (p, snd m + 2).
(** make_clean_marked(p, m): the same with the DeleteMark cleared *)
Definition mk_clean (p : option tcb) (m : N) : mp := (p, if N.odd m then m + 1 else m + 2).
Definition is_ptr (a : mp) (x : tcb) : bool := optr_eqb (fst a) (Some x).

(** stamps *)
Definition NotInList : N := 1.
Definition PendingPush : N := 2.
Definition StampInc : N := 4.
Definition has_nil (s : N) : bool := N.odd s.                                 (* NotInList *)
Definition has_pending (s : N) : bool := N.odd (s / 2).                       (* PendingPush *)
Definition has_flags (s : N) : bool := has_nil s || has_pending s.

(** ** locations and values *)
Definition L_head := LNamed 0 0.                (* global_thread_block_list.head *)
Definition L_gret := LNamed 1 0.                (* global_retired_nodes *)
Definition L_cell (c : N) := LNamed (10 + c) 0.
Definition L_bstate (b : N) := LHeap b 8.       (* thread_control_block: next_entry 0, state 8, prev 16, next 24, stamp 32 *)
Definition L_tcb (x : tcb) (off : N) : loc :=
  match x with THead => LNamed 2 off | TTail => LNamed 3 off | TB b => LHeap b off end.
Definition L_prev (x : tcb) := L_tcb x 16.
Definition L_next (x : tcb) := L_tcb x 24.
Definition L_stamp (x : tcb) := L_tcb x 32.
Definition tcb_size : N := 40.
Definition node_size : N := 56.
Definition rg_size : N := 1.
Definition vptr (p : option N) : val := match p with None => VInt 0 | Some n => VPtr (LHeap n 0) 0 end.
(** a marked pointer as the code stores it: mark bits 0..15 in the upper 16 bits of the word, mark bits 16..17 in bits 0..1 *)
Definition vmp (a : mp) : val :=
  let m := snd a mod 262144 in
  let up := m mod 65536 in let lo := m / 65536 in
  match fst a with
  | None => VInt (up * 281474976710656 + lo)
  | Some x => VPtr (L_tcb x lo) up
  end.
Definition hd_opt (l : list N) : option N := match l with [] => None | x :: _ => Some x end.
Definition oeqb (a b : option N) : bool :=
  match a, b with None, None => true | Some x, Some y => x =? y | _, _ => false end.
Definition memN (n : N) (l : list N) : bool := existsb (N.eqb n) l.
Definition is_nil {X} (l : list X) : bool := match l with [] => true | _ => false end.
Definition is_some {X} (o : option X) : bool := match o with Some _ => true | None => false end.

(** results: ok / lost / null / the id of the dereferenced node *)
Definition r_ok : list N := [0].
Definition r_lost : list N := [1].
Definition r_null : list N := [2].
Definition r_id (i : N) : list N := [3; i].

Definition opcode (o : op) : N * list N :=
  match o with
  | ORepl c => (0, [c]) | OClear c => (1, [c]) | ORead c => (2, [c])
  | OHold c s => (3, [c; N.of_nat s]) | ODrop s => (4, [N.of_nat s]) | ODeref s => (5, [N.of_nat s])
  | OEnter => (6, []) | OLeave => (7, []) | OExit => (8, [])
  end.

Definition cell_of (k : ctx) : N := match k with KRepl c _ => c | KRead c => c | KHold c _ => c | KEnter _ => 0 end.

Definition tl0 : tls := mkTl None 0 None [] (fun _ => None) 0 0.

(** the queue after the constructor of thread_order_queue *)
Definition init (ncells : N) : state :=
  mkSt [] (fun _ => 0)
       (fun x => match x with THead => (Some TTail, 0) | _ => null_mp end)
       (fun x => match x with TTail => (Some THead, 0) | _ => null_mp end)
       (fun x => match x with TB _ => 0 | _ => StampInc end)
       [] (fun _ => 0)
       (fun c => if c <? ncells then Some c else None) ncells (ncells + 1) (fun n => n + 1)
       (fun _ => Idle) (fun _ => tl0)
       (fun _ => None) (fun _ => false) (fun _ => false) 0 (fun _ => 0) (fun _ => 0) (fun n => if n <? ncells then LPub n else LNone) (fun _ => PNone) (fun _ => O) false.

(** a node the reclaimer has destroyed (or its creator dropped) *)
Definition dead (st : state) (n : N) : bool :=
  negb (Nat.eqb (g_nfree st n) 0) || match g_life st n with LDropped => true | _ => false end.

(** dereference of node n *)
Definition deref (n : N) (st : state) : state := w_g_uaf (g_uaf st || dead st n) st.

(** the reclaimer runs the deleters of the nodes of [l] *)
Definition free_all (l : list N) (st : state) : state :=
  w_g_nfree (fun n => (g_nfree st n + length (filter (N.eqb n) l))%nat)
    (w_g_where (fun n => if memN n l then PFreed else g_where st n) st).
Definition free_evs (t : nat) (l : list N) : list ev := map (EFree t) l.
Definition free_opt (t : nat) (fr : option N) : list ev := match fr with Some r => [EFree t r] | None => [] end.
Definition move_all (l : list N) (p : place) (st : state) : state :=
  w_g_where (fun n => if memN n l then p else g_where st n) st.

(** the prefix of a retire list that may be reclaimed at tail stamp ts, and the rest *)
Fixpoint split_chunk (ns : N -> N) (ts : N) (l : list N) : list N * list N :=
  match l with
  | [] => ([], [])
  | n :: r => if ns n <=? ts then let (f, r') := split_chunk ns ts r in (n :: f, r') else ([], l)
  end.
(** process_global_nodes, one round over the chunks: what is deleted (in order), the remaining chunks *)
Fixpoint proc_chunks (ns : N -> N) (ts : N) (chs : list (list N)) : list N * list (list N) :=
  match chs with
  | [] => ([], [])
  | c :: r =>
    let (f, c') := split_chunk ns ts c in
    let (fr, r') := proc_chunks ns ts r in
    (f ++ fr, if is_nil c' then r' else c' :: r')
  end.
(** lowest stamp among the deleted nodes; [None] = numeric_limits::max() *)
Fixpoint min_stamp (ns : N -> N) (l : list N) : option N :=
  match l with
  | [] => None
  | n :: r => match min_stamp ns r with None => Some (ns n) | Some m => Some (N.min (ns n) m) end
  end.
(** the first node of the global list *)
Definition chead (ch : list (list N)) : option N := match ch with [] => None | c :: _ => hd_opt c end.
Definition ghead (st : state) : option N := chead (gret st).

Definition finish (st : state) (t : nat) (r : list N) (e : list ev) : option (state * list ev) :=
  Some (set_pc t Idle st, e ++ [ERet t r]).

(** the CAS of repl/clear comes next; [repl] allocates its new node first *)
Definition to_cas (st : state) (t : nat) (c : N) (g : option N) (fresh : bool) (e : list ev) : option (state * list ev) :=
  if fresh then
    let n := nalloc st in
    Some (set_pc t (R3c c g (Some n))
            (w_nalloc (n + 1) (w_nextid (nextid st + 1) (w_nid (updN (nid st) n (nextid st)) (w_g_life (updN (g_life st) n (LFresh t)) st)))),
          e ++ [EAlloc t n node_size])
  else Some (set_pc t (R3c c g None) st, e).

Definition do_cont (st : state) (t : nat) (k : lcont) (e : list ev) : option (state * list ev) :=
  match k with
  | LFin r fr => finish st t r (e ++ free_opt t fr)
  | LRepl c fresh => to_cas st t c None fresh e
  | LExit fr => Some (set_pc t X1 st, e ++ free_opt t fr)
  end.

(** the thread is gone *)
Definition exited (st : state) (t : nat) (e : list ev) : option (state * list ev) :=
  Some (set_pc t Idle (set_tl t tl0 st), e).

Definition ag_cont (st : state) (t : nat) (k : agk) (e : list ev) : option (state * list ev) :=
  match k with AGK k' => do_cont st t k' e | AGExit => exited st t e end.

Definition frame0 (k : lcont) : frame := mkF k null_mp null_mp null_mp 0 null_mp 0 null_mp 0 null_mp false 0 0 0.

(** leave_region, then [k] *)
Definition leave (st : state) (t : nat) (k : lcont) (e : list ev) : option (state * list ev) :=
  let x := tl st t in
  let st1 := set_tl t (wt_nest (pred (nest x)) x) st in
  if Nat.eqb (pred (nest x)) 0 then Some (set_pc t (Rm R1 (frame0 k)) st1, e) else do_cont st1 t k e.

(** enter_region is complete: ++region_entries *)
Definition entered (st : state) (t : nat) (k : ctx) (e : list ev) : option (state * list ev) :=
  let x := tl st t in
  match k with
  | KEnter r => finish (set_tl t (wt_rg (Some r) (wt_nest (S (nest x)) x)) st) t r_ok e
  | _ => Some (set_pc t (A2 k) (set_tl t (wt_nest (S (nest x)) x) st), e)
  end.

Definition enter (st : state) (t : nat) (k : ctx) (e : list ev) : option (state * list ev) :=
  if Nat.eqb (nest (tl st t)) 0 then
    match cb (tl st t) with
    | None => Some (set_pc t (C1 k) st, e)
    | Some _ => Some (set_pc t (P1 k) st, e)
    end
  else entered st t k e.

(** adopt_or_create_entry: next entry of the walk, or a new control block (value-initialised, then the constructor of
    entry: state active) *)
Definition walk (st : state) (t : nat) (k : ctx) (l : list N) (e : list ev) : option (state * list ev) :=
  match l with
  | r :: rest => Some (set_pc t (C2 k r rest) st, e)
  | [] =>
    let b := nalloc st in
    Some (set_pc t (C4 k b)
            (w_nalloc (b + 1) (w_bstate (updN (bstate st) b 2)
               (w_qprev (updT (qprev st) (TB b) null_mp) (w_qnext (updT (qnext st) (TB b) null_mp) (w_qstamp (updT (qstamp st) (TB b) 0)
                  (w_g_lo (updT (g_lo st) (TB b) 0) (w_g_hi (updT (g_hi st) (TB b) 0) (w_g_owner (updN (g_owner st) b (Some t)) st)))))))),
          e ++ [EAlloc t b tcb_size])
  end.

(** push: the loop that updates the successor's next pointer *)
Definition push_check (st : state) (t : nat) (k : ctx) (b : N) (my link : mp) (e : list ev) : option (state * list ev) :=
  if is_ptr link (TB b) || marked link then entered st t k e else Some (set_pc t (P13 k my link) st, e).

(** process_global_nodes: one round with tail stamp [ts] over the chunks [ch] *)
Definition pg_round (st : state) (t : nat) (k : lcont) (ts : N) (ch : list (list N)) (e : list ev) : option (state * list ev) :=
  let (fl, rest) := proc_chunks (nstamp st) ts ch in
  let st1 := free_all fl st in
  let e1 := e ++ free_evs t fl in
  match rest with
  | [] => do_cont st1 t k e1
  | _ => Some (set_pc t (PG4 k rest (min_stamp (nstamp st) fl)) st1, e1)
  end.

(** process_global_nodes after stealing [stolen]: the local list becomes the first chunk *)
Definition pg_start (st : state) (t : nat) (k : lcont) (ts : N) (stolen : list (list N)) (e : list ev) : option (state * list ev) :=
  let x := tl st t in
  let ch := if is_nil (rl x) then stolen else rl x :: stolen in
  pg_round (move_all (rl x) (PFlight t) (set_tl t (wt_rl [] x) st)) t k ts ch e.

(** ** remove *)
Definition rd (q : tcb -> mp) (a : mp) : option mp := match fst a with Some x => Some (q x) | None => None end.
Definition rds (q : tcb -> N) (a : mp) : option N := match fst a with Some x => Some (q x) | None => None end.

(** the loop heads of remove_from_prev_list / remove_from_next_list *)
Definition rm_top (f : frame) : pc :=
  if fnl f then Rm RN2 f
  else if optr_eqb (fst (fnext f)) (fst (fprev f)) then Rm RPA f else Rm RP2 f.

(** next = last (if any), else next = next->next *)
Definition rm_back (f : frame) (p : rpt) : pc :=
  match fst (flast f) with
  | Some _ => rm_top (wf_last null_mp (wf_next (flast f) f))
  | None => Rm p f
  end.

(** remove_or_skip_marked_block and what follows it in both loops (after the prev-specific checks) *)
Definition rm_skip (b : N) (f : frame) : pc :=
  if marked (fnp f) then
    match fst (flast f) with
    | Some _ => Rm (MN1 false) f
    | None => Rm RS3 f
    end
  else
    let target := if fnl f then fst (fprev f) else Some (TB b) in
    if negb (optr_eqb (fst (fnp f)) target) then Rm SV1 f
    else if fnl f then
      if (fnst f <=? fms f) || optr_eqb (fst (fpp f)) (fst (fnext f)) then Rm RM1 f else Rm RN9 f
    else Rm RP10 f.

(** remove_from_prev_list returned: fully removed or not *)
Definition rp_ret (full : bool) (f : frame) : pc :=
  if full then Rm RM1 f else Rm RN1 (wf_last null_mp (wf_nl true f)).

(** mark_next returned *)
Definition mn_ret (onprev : bool) (res : bool) (f : frame) : pc :=
  if onprev then (if res then Rm RP4 f else rp_ret true f)
  else if res then Rm RS1 f else rm_top (wf_last null_mp (wf_next (flast f) f)).

Definition rm_step (st : state) (t : nat) (b : N) (p : rpt) (f : frame) : option (state * list ev) :=
  let B := TB b in
  let go (q : pc) (e : list ev) := Some (set_pc t q st, e) in
  match p with
  (* set_mark_flag(block->prev, acq_rel) *)
  | R1 =>
    let v := qprev st B in
    let e := [ELoad t (L_prev B) mo_rlx (vmp v)] in
    if marked v then go (Rm R3 (wf_lo (g_lo st B) (wf_prev v f))) e else go (Rm R2 (wf_link v f)) e
  | R2 =>
    let v := qprev st B in
    if mp_eqb v (flink f) then
      Some (set_pc t (Rm R3 (wf_lo (g_lo st B) (wf_prev v f))) (w_g_reg (updN (g_reg st) b false) (w_qprev (updT (qprev st) B (set_del v)) st)), [ERmw t (L_prev B) mo_acqrel (vmp v) (vmp (set_del v))])
    else
      let e := [ECasF t (L_prev B) mo_acqrel mo_rlx (vmp v) (vmp (flink f))] in
      if marked v then go (Rm R3 (wf_lo (g_lo st B) (wf_prev v f))) e else go (Rm R2 (wf_link v f)) e
  (* set_mark_flag(block->next, relaxed) *)
  | R3 =>
    let v := qnext st B in
    let e := [ELoad t (L_next B) mo_rlx (vmp v)] in
    if marked v then go (Rm RP1 (wf_next v f)) e else go (Rm R4 (wf_link v f)) e
  | R4 =>
    let v := qnext st B in
    if mp_eqb v (flink f) then
      Some (set_pc t (Rm RP1 (wf_next v f)) (w_qnext (updT (qnext st) B (set_del v)) st), [ERmw t (L_next B) mo_rlx (vmp v) (vmp (set_del v))])
    else
      let e := [ECasF t (L_next B) mo_rlx mo_rlx (vmp v) (vmp (flink f))] in
      if marked v then go (Rm RP1 (wf_next v f)) e else go (Rm R4 (wf_link v f)) e
  (* remove_from_prev_list *)
  | RP1 => go (rm_top (wf_ms (qstamp st B) f)) [ELoad t (L_stamp B) mo_rlx (VInt (qstamp st B))]
  | RPA => go (rp_ret false (wf_next (qnext st B) f)) [ELoad t (L_next B) mo_rlx (vmp (qnext st B))]
  | RP2 =>
    match fst (fprev f) with
    | None => None
    | Some x => go (Rm RP3 (wf_pp (qprev st x) f)) [ELoad t (L_prev x) mo_acq (vmp (qprev st x))]
    end
  | RP3 =>
    match fst (fprev f) with
    | None => None
    | Some x =>
      let s := qstamp st x in
      let e := [ELoad t (L_stamp x) mo_rlx (VInt s)] in
      let f1 := wf_pst s f in
      if (fms f <? s) || has_nil s then go (rp_ret true f1) e
      else if marked (fpp f) then go (Rm (MN1 true) f1) e
      else go (Rm RP5 f1) e
    end
  | RP4 =>
    match fst (fprev f) with
    | None => None
    | Some x => go (rm_top (wf_lo (g_lo st x) (wf_prev (qprev st x) f))) [ELoad t (L_prev x) mo_acq (vmp (qprev st x))]
    end
  | RP5 | RN2 =>
    match fst (fnext f) with
    | None => None
    | Some x => go (Rm (if fnl f then RN3 else RP6) (wf_nhi (g_hi st x) (wf_nlo (g_lo st x) (wf_np (qprev st x) f)))) [ELoad t (L_prev x) mo_acq (vmp (qprev st x))]
    end
  | RP6 | RN3 =>
    match fst (fnext f) with
    | None => None
    | Some x => go (Rm (if fnl f then RN4 else RP7) (wf_nst (qstamp st x) f)) [ELoad t (L_stamp x) mo_acq (VInt (qstamp st x))]
    end
  | RP7 =>
    match fst (fnext f) with
    | None => None
    | Some x =>
      let e := [ELoad t (L_prev x) mo_rlx (vmp (qprev st x))] in
      if negb (mp_eqb (fnp f) (qprev st x)) then go (rm_top f) e
      else if fnst f <? fms f then go (Rm RPA f) e
      else if has_flags (fnst f) then go (rm_back f RP9) e
      else go (rm_skip b f) e
    end
  | RN4 =>
    match fst (fnext f) with
    | None => None
    | Some x =>
      let e := [ELoad t (L_prev x) mo_rlx (vmp (qprev st x))] in
      if negb (mp_eqb (fnp f) (qprev st x)) then go (rm_top f) e
      else if has_flags (fnst f) then go (rm_back f RN5) e
      else go (Rm RN6 f) e
    end
  | RP9 | RN5 | RS3 =>
    match fst (fnext f) with
    | None => None
    | Some x => go (rm_top (wf_next (qnext st x) f)) [ELoad t (L_next x) mo_acq (vmp (qnext st x))]
    end
  | RP10 =>
    match fst (fnext f) with
    | None => None
    | Some x =>
      let v := qprev st x in
      if mp_eqb v (fnp f) then
        let nv := mk_marked (fst (fprev f)) (fnp f) in
        Some (set_pc t (rp_ret false f) (w_g_lo (updT (g_lo st) x (flo f)) (w_qprev (updT (qprev st) x nv) st)), [ERmw t (L_prev x) mo_rel (vmp v) (vmp nv)])
      else go (rm_top f) [ECasF t (L_prev x) mo_rel mo_rlx (vmp v) (vmp (fnp f))]
    end
  (* remove_from_next_list *)
  | RN1 => go (Rm RN2 (wf_ms (qstamp st B) f)) [ELoad t (L_stamp B) mo_rlx (VInt (qstamp st B))]
  | RN6 =>
    match fst (fprev f) with
    | None => None
    | Some x => go (Rm RN7 (wf_pp (qnext st x) f)) [ELoad t (L_next x) mo_acq (vmp (qnext st x))]
    end
  | RN7 =>
    match fst (fprev f) with
    | None => None
    | Some x =>
      let s := qstamp st x in
      let e := [ELoad t (L_stamp x) mo_rlx (VInt s)] in
      let f1 := wf_pst s f in
      if (fms f <? s) || has_nil s then go (Rm RM1 f1) e
      else if marked (fpp f) then go (Rm RN8 f1) e
      else if optr_eqb (fst (fnext f)) (fst (fprev f)) then go (Rm RM1 f1) e
      else go (rm_skip b f1) e
    end
  | RN8 =>
    match fst (fprev f) with
    | None => None
    | Some x => go (Rm RN2 (wf_lo (g_lo st x) (wf_prev (qprev st x) f))) [ELoad t (L_prev x) mo_acq (vmp (qprev st x))]
    end
  | RN9 =>
    match fst (fnext f) with
    | None => None
    | Some x =>
      let e := [ELoad t (L_prev x) mo_rlx (vmp (qprev st x))] in
      if mp_eqb (qprev st x) (fnp f) then go (Rm RN10 f) e else go (Rm RN2 f) e
    end
  | RN10 =>
    match fst (fprev f) with
    | None => None
    | Some x =>
      let v := qnext st x in
      if mp_eqb v (fpp f) then
        let nv := mk_marked (fst (fnext f)) (fpp f) in
        Some (set_pc t (Rm RN11 f) (w_qnext (updT (qnext st) x nv) st), [ERmw t (L_next x) mo_rel (vmp v) (vmp nv)])
      else go (Rm RN2 f) [ECasF t (L_next x) mo_rel mo_rlx (vmp v) (vmp (fpp f))]
    end
  | RN11 =>
    match fst (fnext f) with
    | None => None
    | Some x =>
      let e := [ELoad t (L_next x) mo_rlx (vmp (qnext st x))] in
      if marked (qnext st x) then go (Rm RN2 f) e else go (Rm RM1 f) e
    end
  (* mark_next(prev, prev_stamp) / mark_next(next, next_stamp) *)
  | MN1 w =>
    match fst (if w then fprev f else fnext f) with
    | None => None
    | Some x => go (Rm (MN2 w) (wf_link (qnext st x) f)) [ELoad t (L_next x) mo_acq (vmp (qnext st x))]
    end
  | MN2 w =>
    match fst (if w then fprev f else fnext f) with
    | None => None
    | Some x =>
      let e := [ELoad t (L_stamp x) mo_rlx (VInt (qstamp st x))] in
      if negb (qstamp st x =? (if w then fpst f else fnst f)) then go (mn_ret w false f) e
      else if marked (flink f) then go (mn_ret w true f) e
      else go (Rm (MN3 w) f) e
    end
  | MN3 w =>
    match fst (if w then fprev f else fnext f) with
    | None => None
    | Some x =>
      let v := qnext st x in
      if mp_eqb v (flink f) then
        Some (set_pc t (mn_ret w true f) (w_qnext (updT (qnext st) x (set_del v)) st), [ERmw t (L_next x) mo_rel (vmp v) (vmp (set_del v))])
      else go (Rm (MN2 w) (wf_link v f)) [ECasF t (L_next x) mo_rel mo_acq (vmp v) (vmp (flink f))]
    end
  (* remove_or_skip_marked_block with a last block *)
  | RS1 =>
    match fst (flast f) with
    | None => None
    | Some x =>
      let e := [ELoad t (L_prev x) mo_rlx (vmp (qprev st x))] in
      if mp_eqb (qprev st x) (fnext f) then go (Rm RS2 f) e else go (rm_top (wf_last null_mp (wf_next (flast f) f))) e
    end
  | RS2 =>
    match fst (flast f) with
    | None => None
    | Some x =>
      let v := qprev st x in
      let f1 := wf_last null_mp (wf_next (flast f) f) in
      if mp_eqb v (fnext f) then
        let nv := mk_marked (fst (fnp f)) (fnext f) in
        Some (set_pc t (rm_top f1) (w_g_lo (updT (g_lo st) x (fnlo f)) (w_qprev (updT (qprev st) x nv) st)), [ERmw t (L_prev x) mo_rel (vmp v) (vmp nv)])
      else go (rm_top f1) [ECasF t (L_prev x) mo_rel mo_rlx (vmp v) (vmp (fnext f))]
    end
  (* save_next_as_last_and_move_next_to_next_prev *)
  | SV1 =>
    match fst (fnp f) with
    | None => None
    | Some x =>
      let s := qstamp st x in
      let e := [ELoad t (L_stamp x) mo_acq (VInt s)] in
      if has_pending s then go (Rm SV2 (wf_pst s f)) e
      else go (rm_top (wf_next (fnp f) (wf_last (fnext f) f))) e
    end
  | SV2 =>
    match fst (fnext f) with
    | None => None
    | Some x =>
      let e := [ELoad t (L_prev x) mo_rlx (vmp (qprev st x))] in
      if mp_eqb (fnp f) (qprev st x) then go (Rm SV3 f) e
      else go (rm_top (wf_next (fnp f) (wf_last (fnext f) f))) e
    end
  | SV3 =>
    match fst (fnp f) with
    | None => None
    | Some x =>
      let s := qstamp st x in
      let new := fpst f + (StampInc - PendingPush) in
      if s =? fpst f then
        Some (set_pc t (rm_top (wf_next (fnp f) (wf_last (fnext f) f))) (w_qstamp (updT (qstamp st) x new) st),
              [ERmw t (L_stamp x) mo_rlx (VInt s) (VInt new)])
      else
        let e := [ECasF t (L_stamp x) mo_rlx mo_rlx (VInt s) (VInt (fpst f))] in
        if s =? new then go (rm_top (wf_next (fnp f) (wf_last (fnext f) f))) e else go (rm_top f) e
    end
  (* the NotInList flag; was the block the last one ? *)
  | RM1 => go (Rm RM2 (wf_nst (qstamp st B) f)) [ELoad t (L_stamp B) mo_rlx (VInt (qstamp st B))]
  | RM2 =>
    Some (set_pc t (Rm RM3 f) (w_qstamp (updT (qstamp st) B (fnst f + NotInList)) st), [EStore t (L_stamp B) mo_rel (VInt (fnst f + NotInList))])
  | RM3 =>
    let e := [ELoad t (L_prev B) mo_rlx (vmp (qprev st B))] in
    if is_ptr (qprev st B) TTail then go (UT1 (fk f) (fnst f + StampInc)) e else go (PL1 (PLLeave (fk f))) e
  end.

Definition step_gen (opt : bool) (nslots : nat) (st : state) (a : action) : option (state * list ev) :=
  match a with
  | Start t o =>
    match th st t with
    | Idle =>
      match o with
      | OExit =>
        match cb (tl st t) with
        | None => None
        | Some _ =>
          let x := tl st t in
          if Nat.eqb (nest x) 0 then Some (set_pc t X1 st, [])
          else Some (set_pc t (Rm R1 (frame0 (LExit (rg x)))) (set_tl t (wt_nest O (wt_rg None (wt_gs (fun _ => None) x))) st), [])
        end
      | OHold _ s | ODrop s | ODeref s => if Nat.ltb s nslots then Some (set_pc t (Begin o) st, []) else None
      | _ => Some (set_pc t (Begin o) st, [])
      end
    | _ => None
    end
  | Step t =>
    let x := tl st t in
    let go (p : pc) (e : list ev) := Some (set_pc t p st, e) in
    match th st t with
    | Idle => None
    | Begin o =>
      let es := [EStart t (fst (opcode o)) (snd (opcode o))] in
      match o with
      | ORepl c => go (A1 (KRepl c true)) es
      | OClear c => go (A1 (KRepl c false)) es
      | ORead c => go (A1 (KRead c)) es
      | OHold c s => go (A1 (KHold c s)) es
      | ODrop s =>
        match gs x s with
        | Some _ => leave (set_tl t (wt_gs (upd (gs x) s None) x) st) t (LFin r_ok None) es
        | None => finish st t r_ok es
        end
      | ODeref s =>
        match gs x s with
        | Some n => finish (deref n st) t (r_id (nid st n)) es
        | None => finish st t r_null es
        end
      | OEnter =>
        match rg x with
        | Some _ => finish st t r_ok es
        | None =>
          let r := nalloc st in
          enter (w_nalloc (r + 1) st) t (KEnter r) (es ++ [EAlloc t r rg_size])
        end
      | OLeave =>
        match rg x with
        | Some r => leave (set_tl t (wt_rg None x) st) t (LFin r_ok (Some r)) es
        | None => finish st t r_ok es
        end
      | OExit => None
      end
    (* ---- guard_ptr::acquire ---- *)
    | A1 k =>
      let c := cell_of k in
      let e := [ELoad t (L_cell c) mo_rlx (vptr (cells st c))] in
      match cells st c with
      | None =>
        match k with
        | KRepl c fresh => to_cas st t c None fresh e
        | KHold _ s =>
          match gs x s with
          | Some _ => leave (set_tl t (wt_gs (upd (gs x) s None) x) st) t (LFin r_null None) e
          | None => finish st t r_null e
          end
        | _ => finish st t r_null e
        end
      | Some _ =>
        match k with
        | KHold _ s => if is_some (gs x s) then go (A2 k) e else enter st t k e
        | _ => enter st t k e
        end
      end
    (* ---- ensure_has_control_block ---- *)
    | C1 k => walk st t k (blist st) [ELoad t L_head mo_acq (vptr (hd_opt (blist st)))]
    | C2 k r rest =>
      let e := [ELoad t (L_bstate r) mo_rlx (VInt (bstate st r))] in
      if bstate st r =? 0 then go (C3 k r rest) e else walk st t k rest e
    | C3 k r rest =>
      if bstate st r =? 0 then
        Some (set_pc t (P1 k) (set_tl t (wt_cb (Some r) x) (w_bstate (updN (bstate st) r 2) (w_g_owner (updN (g_owner st) r (Some t)) st))),
              [ERmw t (L_bstate r) mo_acq (VInt 0) (VInt 2)])
      else walk st t k rest [ECasF t (L_bstate r) mo_acq mo_acq (VInt (bstate st r)) (VInt 0)]
    | C4 k b => Some (set_pc t (C5 k b) (w_bstate (updN (bstate st) b 2) st), [EStore t (L_bstate b) mo_rlx (VInt 2)])
    | C5 k b => go (C6 k b (hd_opt (blist st))) [ELoad t L_head mo_rlx (vptr (hd_opt (blist st)))]
    | C6 k b h =>
      if oeqb (hd_opt (blist st)) h then
        Some (set_pc t (P1 k) (set_tl t (wt_cb (Some b) x) (w_blist (b :: blist st) st)),
              [ERmw t L_head mo_rel (vptr h) (vptr (Some b))])
      else go (C6 k b (hd_opt (blist st))) [ECasF t L_head mo_rel mo_rlx (vptr (hd_opt (blist st))) (vptr h)]
    (* ---- push ---- *)
    | P1 k =>
      match cb x with
      | None => None
      | Some b => go (P2 k (snd (qnext st (TB b)))) [ELoad t (L_next (TB b)) mo_rlx (vmp (qnext st (TB b)))]
      end
    | P2 k m =>
      match cb x with
      | None => None
      | Some b =>
        let v := mk_clean (Some THead) m in
        Some (set_pc t (P3 k) (w_qnext (updT (qnext st) (TB b) v) st), [EStore t (L_next (TB b)) mo_rel (vmp v)])
      end
    | P3 k => Some (set_pc t (P4 k (qprev st THead)) (set_tl t (wt_hgm (g_max st) (wt_hlo (g_lo st THead) x)) st), [ELoad t (L_prev THead) mo_rlx (vmp (qprev st THead))])
    | P4 k hp =>
      let v := qprev st THead in
      let e := [ELoad t (L_prev THead) mo_rlx (vmp v)] in
      if mp_eqb v hp then go (P5 k hp) e else Some (set_pc t (P4 k v) (set_tl t (wt_hgm (g_max st) (wt_hlo (g_lo st THead) x)) st), e)
    | P5 k hp =>
      let s := qstamp st THead in
      Some (set_pc t (P6 k hp s) (w_qstamp (updT (qstamp st) THead (s + StampInc)) st), [ERmw t (L_stamp THead) mo_sc (VInt s) (VInt (s + StampInc))])
    | P6 k hp s =>
      match cb x with
      | None => None
      | Some b =>
        let ps := s - (StampInc - PendingPush) in
        Some (set_pc t (P7 k hp s) (w_g_lk (updN (g_lk st) b false) (w_qstamp (updT (qstamp st) (TB b) ps) st)), [EStore t (L_stamp (TB b)) mo_rel (VInt ps)])
      end
    | P7 k hp s =>
      let v := qprev st THead in
      let e := [ELoad t (L_prev THead) mo_rlx (vmp v)] in
      if mp_eqb v hp then go (P8 k hp s) e else go (P4 k hp) e
    | P8 k hp s =>
      match cb x with
      | None => None
      | Some b => go (P9 k hp s (snd (qprev st (TB b)))) [ELoad t (L_prev (TB b)) mo_rlx (vmp (qprev st (TB b)))]
      end
    | P9 k hp s m =>
      match cb x with
      | None => None
      | Some b =>
        let my := mk_clean (fst hp) m in
        Some (set_pc t (P10 k hp s my) (w_g_hi (updT (g_hi st) (TB b) (hgm x + 1)) (w_g_lo (updT (g_lo st) (TB b) (hlo x)) (w_qprev (updT (qprev st) (TB b) my) st))),
              [EStore t (L_prev (TB b)) mo_rel (vmp my)])
      end
    | P10 k hp s my =>
      match cb x with
      | None => None
      | Some b =>
        let v := qprev st THead in
        if mp_eqb v hp then
          let nv := mk_marked (Some (TB b)) hp in
          Some (set_pc t (P11 k s my) (w_g_lo (updT (g_lo st) THead s) (w_g_hi (updT (g_hi st) (TB b) s) (w_g_max s (w_g_lk (updN (g_lk st) b true) (w_g_reg (updN (g_reg st) b true) (w_qprev (updT (qprev st) THead nv) st)))))), [ERmw t (L_prev THead) mo_acqrel (vmp v) (vmp nv)])
        else Some (set_pc t (P4 k v) (set_tl t (wt_hgm (g_max st) (wt_hlo (g_lo st THead) x)) st), [ECasF t (L_prev THead) mo_acqrel mo_rlx (vmp v) (vmp hp)])
      end
    | P11 k s my =>
      match cb x with
      | None => None
      | Some b => Some (set_pc t (P12 k my) (w_qstamp (updT (qstamp st) (TB b) s) st), [EStore t (L_stamp (TB b)) mo_rel (VInt s)])
      end
    | P12 k my =>
      match cb x, fst my with
      | Some b, Some y => push_check st t k b my (qnext st y) [ELoad t (L_next y) mo_acq (vmp (qnext st y))]
      | _, _ => None
      end
    | P13 k my link =>
      match cb x with
      | None => None
      | Some b =>
        let e := [ELoad t (L_prev (TB b)) mo_rlx (vmp (qprev st (TB b)))] in
        if mp_eqb (qprev st (TB b)) my then go (P14 k my link) e else entered st t k e
      end
    | P14 k my link =>
      match cb x, fst my with
      | Some b, Some y =>
        let v := qnext st y in
        if mp_eqb v link then
          let nv := mk_marked (Some (TB b)) link in
          entered (w_qnext (updT (qnext st) y nv) st) t k [ERmw t (L_next y) mo_rel (vmp v) (vmp nv)]
        else push_check st t k b my v [ECasF t (L_next y) mo_rel mo_acq (vmp v) (vmp link)]
      | _, _ => None
      end
    | A2 k =>
      let c := cell_of k in
      let v := cells st c in
      let e := [ELoad t (L_cell c) mo_acq (vptr v)] in
      match k with
      | KRepl c fresh =>
        match v with
        | None => leave st t (LRepl c fresh) e
        | Some n => to_cas st t c v fresh e
        end
      | KRead _ =>
        match v with
        | None => leave st t (LFin r_null None) e
        | Some n => leave (deref n st) t (LFin (r_id (nid st n)) None) e
        end
      | KHold _ s =>
        let st1 := set_tl t (wt_gs (upd (gs x) s v) x) st in
        match v with
        | None => leave st1 t (LFin r_null None) e
        | Some n => finish (deref n st1) t (r_id (nid st n)) e
        end
      | KEnter _ => None
      end
    (* ---- the client's CAS; success: guard.reclaim() = add_retired_node + reset ---- *)
    | R3c c g n =>
      if oeqb (cells st c) g then
        let e := [ERmw t (L_cell c) mo_acqrel (vptr g) (vptr n)] in
        let st1 := w_cells (updN (cells st) c n) st in
        let st2 := match n with Some n' => w_g_life (updN (g_life st1) n' (LPub c)) st1 | None => st1 end in
        match g with
        | Some old =>
          let st3 := deref old st2 in
          Some (set_pc t (RT1 old) (w_g_life (updN (g_life st3) old (LUnl t)) st3), e)
        | None => finish st2 t r_ok e
        end
      else
        let e := ECasF t (L_cell c) mo_acqrel mo_rlx (vptr (cells st c)) (vptr g)
                 :: match n with Some n' => [EFree t n'] | None => [] end in
        let st1 := match n with Some n' => w_g_life (updN (g_life st) n' LDropped) st | None => st end in
        match g with
        | Some _ => leave st1 t (LFin r_lost None) e
        | None => finish st1 t r_lost e
        end
    | RT1 old =>
      let s := qstamp st THead in
      let e := [ELoad t (L_stamp THead) mo_sc (VInt s)] in
      let st1 := set_tl t (wt_rl (rl x ++ [old]) x)
                   (w_nstamp (updN (nstamp st) old s) (w_g_life (updN (g_life st) old (LRet t s)) (w_g_where (updN (g_where st) old (PList t)) st))) in
      if Nat.ltb 40 (length (rl x ++ [old])) then Some (set_pc t (PL1 PLRetire) st1, e)
      else leave st1 t (LFin r_ok None) e
    (* ---- remove ---- *)
    | Rm p f =>
      match cb x with
      | None => None
      | Some b => rm_step st t b p f
      end
    (* ---- update_tail_stamp ---- *)
    | UT1 k s => go (UT2 k s (qnext st TTail)) [ELoad t (L_next TTail) mo_acq (vmp (qnext st TTail))]
    | UT2 k s last =>
      match fst last with
      | None => None
      | Some y => go (UT3 k s last (qprev st y)) [ELoad t (L_prev y) mo_acq (vmp (qprev st y))]
      end
    | UT3 k s last lp =>
      match fst last with
      | None => None
      | Some y =>
        let ls := qstamp st y in
        let e := [ELoad t (L_stamp y) mo_acq (VInt ls)] in
        if (s <? ls) && is_ptr lp TTail then go (UT4 k s last lp ls) e else go (UT6 k s) e
      end
    | UT4 k s last lp ls =>
      let e := [ELoad t (L_next TTail) mo_rlx (vmp (qnext st TTail))] in
      if mp_eqb (qnext st TTail) last then
        if negb (is_ptr last THead) then (if opt then go (UT6 k ls) e else go (UT6 k s) e)
        else if s <? ls - StampInc then go (UT5 k s lp ls) e else go (UT6 k s) e
      else go (UT6 k s) e
    | UT5 k s lp ls =>
      let v := qprev st THead in
      if mp_eqb v lp then
        let nv := mk_marked (fst lp) lp in
        Some (set_pc t (UT6 k ls) (w_qprev (updT (qprev st) THead nv) st), [ERmw t (L_prev THead) mo_rlx (vmp v) (vmp nv)])
      else go (UT6 k s) [ECasF t (L_prev THead) mo_rlx mo_rlx (vmp v) (vmp lp)]
    | UT6 k s =>
      let ts := qstamp st TTail in
      let e := [ELoad t (L_stamp TTail) mo_rlx (VInt ts)] in
      if ts <? s then go (UT7 k s ts) e else go (PG1 k) e
    | UT7 k s ts =>
      let v := qstamp st TTail in
      if v =? ts then Some (set_pc t (PG1 k) (w_qstamp (updT (qstamp st) TTail s) st), [ERmw t (L_stamp TTail) mo_rel (VInt v) (VInt s)])
      else
        let e := [ECasF t (L_stamp TTail) mo_rel mo_rlx (VInt v) (VInt ts)] in
        if v <? s then go (UT7 k s v) e else go (PG1 k) e
    (* ---- process_local_nodes ---- *)
    | PL1 k =>
      let ts := qstamp st TTail in
      let (fl, rest) := split_chunk (nstamp st) ts (rl x) in
      let st1 := free_all fl (set_tl t (wt_rl rest x) st) in
      let e := ELoad t (L_stamp TTail) mo_acq (VInt ts) :: free_evs t fl in
      match k with
      | PLLeave k' =>
        if Nat.ltb 20 (length rest) then
          Some (set_pc t (AG1 (AGK k') [rest]) (move_all rest (PFlight t) (set_tl t (wt_rl [] x) st1)), e)
        else do_cont st1 t k' e
      | PLRetire => leave st1 t (LFin r_ok None) e
      | PLExit =>
        if is_nil rest then exited st1 t e
        else Some (set_pc t (AG1 AGExit [rest]) (move_all rest (PFlight t) (set_tl t (wt_rl [] x) st1)), e)
      end
    (* ---- process_global_nodes ---- *)
    | PG1 k => go (PG2 k (qstamp st TTail)) [ELoad t (L_stamp TTail) mo_acq (VInt (qstamp st TTail))]
    | PG2 k ts =>
      let e := [ELoad t L_gret mo_rlx (vptr (ghead st))] in
      if is_nil (gret st) then pg_start st t k ts [] e else go (PG3 k ts) e
    | PG3 k ts =>
      let g := gret st in
      pg_start (move_all (concat g) (PFlight t) (w_gret [] st)) t k ts g [ERmw t L_gret mo_acq (vptr (ghead st)) (VInt 0)]
    | PG4 k ch low =>
      let ts := qstamp st TTail in
      let e := [ELoad t (L_stamp TTail) mo_acq (VInt ts)] in
      if match low with Some m => m <? ts | None => false end then pg_round st t k ts ch e
      else go (AG1 (AGK k) ch) e
    (* ---- add_to_global_retired_nodes ---- *)
    | AG1 k ch => go (AG2 k ch (ghead st)) [ELoad t L_gret mo_rlx (vptr (ghead st))]
    | AG2 k ch h =>
      if oeqb (ghead st) h then
        ag_cont (move_all (concat ch) PGlob (w_gret (ch ++ gret st) st)) t k
          [ERmw t L_gret mo_rel (vptr h) (vptr (chead ch))]
      else go (AG2 k ch (ghead st)) [ECasF t L_gret mo_rel mo_rlx (vptr (ghead st)) (vptr h)]
    (* ---- ~thread_data ---- *)
    | X1 =>
      match cb x with
      | None => None
      | Some b =>
        Some (set_pc t (PL1 PLExit) (set_tl t (wt_cb None x) (w_bstate (updN (bstate st) b 0) (w_g_owner (updN (g_owner st) b None) st))),
              [EStore t (L_bstate b) mo_rel (VInt 0)])
      end
    end
  end.

(** the code; [step_gen false] is the variant of update_tail_stamp that does not take the stamp of the block tail->next
    points to (it keeps its argument unless tail->next is head) *)
Definition step : nat -> state -> action -> option (state * list ev) := step_gen true.
