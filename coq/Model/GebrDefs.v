(** Step-level model of xenium::reclamation::generic_epoch_based<Traits> for EVERY point of its configuration space
    (xenium/reclamation/generic_epoch_based.hpp, impl/generic_epoch_based.hpp, detail/thread_block_list.hpp,
    detail/retire_list.hpp), driven by the generic protocol-conforming client of harness/h_recl.cpp (built as
    build/h_gebr<suffix> = h_recl.cpp with rt::XV_RECL and the reclaimer's statics named).

    The configuration [config] = the four traits:
      scan_freq   policy::scan_frequency<F>          a scan when critical_entries_since_update++ == F
      scan_strat  policy::scan<...>                  ScanAll = scan::all_threads, ScanN n = scan::n_threads<n>
                                                     (scan::one_thread = ScanN 1)
      aband       policy::abandon<...>               ANever / AAlways / AThresh T = when_exceeds_threshold<T>
      rext        policy::region_extension<...>      RNone / REager / RLazy
    epoch_based<> = (100, ScanAll, ANever, RNone), new_epoch_based<> = (100, ScanAll, ANever, REager),
    debra<> = (20, ScanN 1, ANever, RNone); harness/recl_types.hpp: EBR, NEBR, DEBRA with F = 1, EBR0, GEBR_lazy, GEBR_n2,
    GEBR_aband, GEBR_thresh, GEBR_t0, EBR100 ([cfg_*] below).

    Client operations (c = cell = a concurrent_ptr of the client, s = a persistent guard_ptr of the thread):
      repl c    g.acquire(cell[c]); n = new Node; if CAS(cell[c], g, n) g.reclaim() else delete n
      clear c   the same with n = nullptr
      read c    g.acquire(cell[c]); dereference; g.reset()
      hold c s  guards[s].acquire(cell[c]); dereference        (stays protected across operations)
      drop s    guards[s].reset()
      deref s   dereference guards[s]
      enter     region[t] = new region_guard (unless the thread has one)
      leave     delete region[t]
      exit      the thread ends: its guards are reset and its region_guard is deleted (harness thread_end), then
                ~thread_data hands the non-empty retire lists over to the global orphan lists and releases the thread
                control block.  The exit has no START event: [Start t OExit] moves the thread to the first atomic access
                of the exit sequence (the thread takes no step at all when it never owned a control block).
    Not modelled: copy / move / swap of guards, acquire_if_equal.  With
    region_extension::none a region_guard that is still alive when the thread ends and no guard is held is freed by the
    harness in the tail of the last operation's final step; the model frees it in the first step of the exit.

    guard_ptr::acquire(p):            A1  p.load(relaxed); nullptr -> reset()
                                          if (!this->ptr) enter_critical()
                                      A2  this->ptr = p.load(acquire); nullptr -> leave_critical()
    enter_critical():                 enter_region(); if (++nested_critical_entries == 1) do_enter_critical()
    enter_region():                   T0  (n_threads only, first use of the thread_local thread_data: its constructor
                                          resets the scan iterator) thread_iterator = head.load(acquire)
                                          ensure_has_control_block();
                                          eager/lazy: ++region_entries == 1 and eager -> set_critical_region_flag (E1 E2)
    acquire_control_block():          C1  head.load(acquire)                               (adopt_or_create_entry)
                                      C2  r->state.load(relaxed) == free ?
                                      C3  r->state.CAS(free -> active, acquire)
                                          new thread_control_block  (ALLOC, in the preceding step)
                                      C4  result->state.store(active, relaxed)
                                      C5  h = head.load(relaxed)
                                      C6  head.CAS_weak(h -> result, release/relaxed)      (retry with the seen value)
                                      C7  epoch = global_epoch.load(relaxed)
                                      C8  local_epoch.store(epoch, relaxed); local_epoch_idx = epoch % 3
                                      C9  (n_threads only) scan_strategy.reset(): thread_iterator = head.load(acquire)
    do_enter_critical():              E0  (lazy only) is_in_critical_region.load(relaxed): set -> E3
                                      E1  (none, lazy) is_in_critical_region.store(true, relaxed)
                                      E2  fence(seq_cst)
                                      E3  epoch = global_epoch.load(acquire)
                                      E4  local_epoch.load(relaxed) != epoch ?  -> update_local_epoch(epoch)
                                          else if (critical_entries_since_update++ == F) scan ...
    scan (all_threads):               S1  head.load(acquire)
                                      S2  p->is_in_critical_region.load(relaxed)
                                      S3  p->local_epoch.load(relaxed) != epoch ? -> give up
    scan (n_threads<N>), i < N:       S2  thread_iterator->is_in_critical_region.load(relaxed)
                                      S3  (set) thread_iterator->local_epoch.load(relaxed) == epoch ?
                                          not in a region, or in the same epoch: ++thread_iterator == end -> true
                                          (the iterator is thread local state and survives the critical region;
                                           otherwise the same thread is looked at again in the next iteration)
    update_global_epoch(e, e+1):      G1  global_epoch.load(relaxed) == e ?   (otherwise straight to update_local_epoch(e+1))
                                      G2  fence(acquire)
                                      G3  orphans[(e+1)%3].head.load(relaxed) == nullptr ?
                                      G4  orphans[(e+1)%3].head.exchange(nullptr, acquire)
                                      G5  global_epoch.CAS(e -> e+1, release/relaxed); success: delete the adopted nodes
                                      G6  (failure, adopted != nullptr) h = orphans[idx].head.load(relaxed)
                                      G7  orphans[idx].head.CAS_weak(h -> adopted, release/relaxed)
    update_local_epoch(new):          U1  old = local_epoch.load(relaxed)
                                      U2  local_epoch.store(new, relaxed); delete retire_lists[(new-i)%3], i < min(3,new-old)
                                      U3  (n_threads only) scan_strategy.reset(): thread_iterator = head.load(acquire)
    leave_critical():                 none:  --nested == 0 -> clear_critical_region_flag()
                                      eager / lazy: --nested; leave_region(): --region_entries == 0 -> clear_critical_region_flag()
    clear_critical_region_flag():     LV  is_in_critical_region.store(false, release)
                                          abandon_strategy::apply(retire_lists[i], orphans[i]), i = 0, 1, 2:
                                      B1  h = orphans[i].head.load(relaxed)     (always: list non-empty; threshold T: non-empty and size >= T)
                                      B2  orphans[i].head.CAS_weak(h -> first, release/relaxed)
    ~thread_data():                   X1  h = orphans[i].head.load(relaxed)        for every non-empty retire_lists[i]
                                      X2  orphans[i].head.CAS_weak(h -> first, release/relaxed)
                                      X3  control_block->state.store(free, release)

    One [Step] = one atomic access or fence, emitting exactly the event rt/xvrt prints; allocations and frees are
    not scheduling points and belong to the step of the preceding atomic access.  compare_exchange_weak never
    fails spuriously under xvrt.  Heap blocks are numbered in allocation order (block i = "h<i>"); the cells'
    initial nodes are blocks 0..ncells-1.  The thread block list is immutable except for insertion at the
    head, so an iterator into it is the remaining suffix of the list ([sit], the scan iterator of the thread: the local
    of all_threads' std::any_of, the member thread_iterator of n_threads).

    The counters nested_critical_entries / region_entries are only tested for "== 1 after increment" and "== 0 after
    decrement"; the model increments both in the transition that ends ensure_has_control_block and tests
    [nest = 1] where the code tests the result of the later ++nested_critical_entries.

    Ghosts: [sync] (thread local) the thread is inside a critical region and has validated its epoch there (it passed
    the comparison of local_epoch with the global epoch it loaded after its flag was set); [g_owner b] the thread owning
    control block b; [g_life n] the life cycle of node n (fresh / published in cell c / unlinked and retired by t in
    local epoch r / dropped by its creator); [g_where n] where a retired node is (retire list i of thread t / orphan
    list i / adopted by t, in flight / freed); [g_nfree n] how often the reclaimer freed n; [g_uaf] a dereference hit a
    destroyed node. *)
From Coq Require Import NArith List Bool.
From XV Require Import Conc.Lts Conc.Ev.
Import ListNotations.
Local Open Scope N_scope.

(** * The configuration space *)
Inductive scan_strategy := ScanAll | ScanN (n : nat).
Inductive abandon_strategy := ANever | AAlways | AThresh (T : nat).
Inductive region_ext := RNone | REager | RLazy.
Record config := mkCfg { scan_freq : nat; scan_strat : scan_strategy; aband : abandon_strategy; rext : region_ext }.

Definition cfg_epoch_based (F : nat) := mkCfg F ScanAll ANever RNone.       (* epoch_based<scan_frequency<F>>, default 100 *)
Definition cfg_new_epoch_based (F : nat) := mkCfg F ScanAll ANever REager.  (* new_epoch_based<...>, default 100 *)
Definition cfg_debra (F : nat) := mkCfg F (ScanN 1) ANever RNone.           (* debra<...>, default 20 *)
(* harness/recl_types.hpp *)
Definition cfg_EBR := cfg_epoch_based 1.
Definition cfg_NEBR := cfg_new_epoch_based 1.
Definition cfg_DEBRA := cfg_debra 1.
Definition cfg_EBR0 := cfg_epoch_based 0.
Definition cfg_GEBR_lazy := mkCfg 1 ScanAll ANever RLazy.
Definition cfg_GEBR_n2 := mkCfg 0 (ScanN 2) ANever RNone.
Definition cfg_GEBR_aband := mkCfg 1 ScanAll AAlways RNone.
Definition cfg_GEBR_thresh := mkCfg 1 ScanAll (AThresh 1) REager.
Definition cfg_GEBR_t0 := mkCfg 1 ScanAll (AThresh 0) RNone.
Definition cfg_EBR100 := cfg_epoch_based 100.

Inductive op :=
| ORepl (c : N) | OClear (c : N) | ORead (c : N) | OHold (c : N) (s : nat) | ODrop (s : nat) | ODeref (s : nat)
| OEnter | OLeave | OExit.

(** what an acquire belongs to: repl/clear ([fresh] = a new node is installed), read, hold *)
Inductive actx := KRepl (c : N) (fresh : bool) | KRead (c : N) | KHold (c : N) (s : nat).
(** what an enter_region belongs to: an acquire (enter_critical), the constructor of the region_guard object r *)
Inductive ctx := KAcq (a : actx) | KEnter (r : N).

(** what follows clear_critical_region_flag: the operation returns [r] (after deleting the region_guard object [fr]) /
    repl continues with an empty guard / the thread exit continues with ~thread_data *)
Inductive lcont := LFin (r : list N) (fr : option N) | LRepl (c : N) (fresh : bool) | LExit (fr : option N).

Inductive pc :=
| Idle
| Begin (o : op)
| A1 (a : actx)
| T0 (k : ctx)
| C1 (k : ctx) | C2 (k : ctx) (r : N) (rest : list N) | C3 (k : ctx) (r : N) (rest : list N)
| C4 (k : ctx) (b : N) | C5 (k : ctx) (b : N) | C6 (k : ctx) (b : N) (h : option N)
| C7 (k : ctx) | C8 (k : ctx) (e : N) | C9 (k : ctx)
| E0 (a : actx) | E1 (k : ctx) | E2 (k : ctx) | E3 (a : actx) | E4 (a : actx) (e : N)
| S1 (a : actx) (e : N) | S2 (a : actx) (e : N) (i : nat) | S3 (a : actx) (e : N) (i : nat)
| G1 (a : actx) (e : N) | G2 (a : actx) (e : N) | G3 (a : actx) (e : N) | G4 (a : actx) (e : N)
| G5 (a : actx) (e : N) (l : list N) | G6 (a : actx) (e : N) (l : list N) | G7 (a : actx) (e : N) (l : list N) (h : option N)
| U1 (a : actx) (new : N) | U2 (a : actx) (new old : N) | U3 (a : actx)
| A2 (a : actx)
| R3 (c : N) (g : option N) (n : option N)
| LV (k : lcont) | B1 (k : lcont) (i : N) | B2 (k : lcont) (i : N) (h : option N)
| X1 (i : N) | X2 (i : N) (h : option N) | X3.

Inductive life := LNone | LFresh (t : nat) | LPub (c : N) | LRet (t : nat) (r : N) | LDropped.
Inductive place := PNone | PList (t : nat) (i : N) | POrph (i : N) | PFlight (t : nat) | PFreed.

(** thread_data: control_block, nested_critical_entries, region_entries, critical_entries_since_update,
    local_epoch_idx, retire_lists[3], the scan iterator, "constructed"; plus the client's region_guard object and
    persistent guards of the thread; the ghost [sync] *)
Record tls := mkTl { cb : option N; nest : nat; rent : nat; rg : option N; ces : nat; lidx : N; rl : N -> list N;
                     gs : nat -> option N; sit : list N; tinit : bool; sync : bool }.

Record state := mkSt {
  gep : N;                         (* global_epoch *)
  blist : list N;                  (* global_thread_block_list, head first *)
  bstate : N -> N;                 (* entry::state: 0 free, 2 active *)
  bflag : N -> bool;               (* is_in_critical_region *)
  blocal : N -> N;                 (* local_epoch *)
  orph : N -> list N;              (* orphans[i]: the chain hanging off its head *)
  cells : N -> option N;           (* the client's concurrent_ptrs *)
  nalloc : N;                      (* number of tracked heap blocks allocated so far *)
  nextid : N; nid : N -> N;        (* the harness' node ids (what a dereference returns) *)
  th : nat -> pc; tl : nat -> tls;
  g_owner : N -> option nat; g_life : N -> life; g_where : N -> place; g_nfree : N -> nat; g_uaf : bool }.

Inductive action := Start (t : nat) (o : op) | Step (t : nat).

(** ** setters *)
Definition w_gep v (st : state) : state := mkSt v (blist st) (bstate st) (bflag st) (blocal st) (orph st) (cells st) (nalloc st) (nextid st) (nid st) (th st) (tl st) (g_owner st) (g_life st) (g_where st) (g_nfree st) (g_uaf st).
Definition w_blist v (st : state) : state := mkSt (gep st) v (bstate st) (bflag st) (blocal st) (orph st) (cells st) (nalloc st) (nextid st) (nid st) (th st) (tl st) (g_owner st) (g_life st) (g_where st) (g_nfree st) (g_uaf st).
Definition w_bstate v (st : state) : state := mkSt (gep st) (blist st) v (bflag st) (blocal st) (orph st) (cells st) (nalloc st) (nextid st) (nid st) (th st) (tl st) (g_owner st) (g_life st) (g_where st) (g_nfree st) (g_uaf st).
Definition w_bflag v (st : state) : state := mkSt (gep st) (blist st) (bstate st) v (blocal st) (orph st) (cells st) (nalloc st) (nextid st) (nid st) (th st) (tl st) (g_owner st) (g_life st) (g_where st) (g_nfree st) (g_uaf st).
Definition w_blocal v (st : state) : state := mkSt (gep st) (blist st) (bstate st) (bflag st) v (orph st) (cells st) (nalloc st) (nextid st) (nid st) (th st) (tl st) (g_owner st) (g_life st) (g_where st) (g_nfree st) (g_uaf st).
Definition w_orph v (st : state) : state := mkSt (gep st) (blist st) (bstate st) (bflag st) (blocal st) v (cells st) (nalloc st) (nextid st) (nid st) (th st) (tl st) (g_owner st) (g_life st) (g_where st) (g_nfree st) (g_uaf st).
Definition w_cells v (st : state) : state := mkSt (gep st) (blist st) (bstate st) (bflag st) (blocal st) (orph st) v (nalloc st) (nextid st) (nid st) (th st) (tl st) (g_owner st) (g_life st) (g_where st) (g_nfree st) (g_uaf st).
Definition w_nalloc v (st : state) : state := mkSt (gep st) (blist st) (bstate st) (bflag st) (blocal st) (orph st) (cells st) v (nextid st) (nid st) (th st) (tl st) (g_owner st) (g_life st) (g_where st) (g_nfree st) (g_uaf st).
Definition w_nextid v (st : state) : state := mkSt (gep st) (blist st) (bstate st) (bflag st) (blocal st) (orph st) (cells st) (nalloc st) v (nid st) (th st) (tl st) (g_owner st) (g_life st) (g_where st) (g_nfree st) (g_uaf st).
Definition w_nid v (st : state) : state := mkSt (gep st) (blist st) (bstate st) (bflag st) (blocal st) (orph st) (cells st) (nalloc st) (nextid st) v (th st) (tl st) (g_owner st) (g_life st) (g_where st) (g_nfree st) (g_uaf st).
Definition w_th v (st : state) : state := mkSt (gep st) (blist st) (bstate st) (bflag st) (blocal st) (orph st) (cells st) (nalloc st) (nextid st) (nid st) v (tl st) (g_owner st) (g_life st) (g_where st) (g_nfree st) (g_uaf st).
Definition w_tl v (st : state) : state := mkSt (gep st) (blist st) (bstate st) (bflag st) (blocal st) (orph st) (cells st) (nalloc st) (nextid st) (nid st) (th st) v (g_owner st) (g_life st) (g_where st) (g_nfree st) (g_uaf st).
Definition w_g_owner v (st : state) : state := mkSt (gep st) (blist st) (bstate st) (bflag st) (blocal st) (orph st) (cells st) (nalloc st) (nextid st) (nid st) (th st) (tl st) v (g_life st) (g_where st) (g_nfree st) (g_uaf st).
Definition w_g_life v (st : state) : state := mkSt (gep st) (blist st) (bstate st) (bflag st) (blocal st) (orph st) (cells st) (nalloc st) (nextid st) (nid st) (th st) (tl st) (g_owner st) v (g_where st) (g_nfree st) (g_uaf st).
Definition w_g_where v (st : state) : state := mkSt (gep st) (blist st) (bstate st) (bflag st) (blocal st) (orph st) (cells st) (nalloc st) (nextid st) (nid st) (th st) (tl st) (g_owner st) (g_life st) v (g_nfree st) (g_uaf st).
Definition w_g_nfree v (st : state) : state := mkSt (gep st) (blist st) (bstate st) (bflag st) (blocal st) (orph st) (cells st) (nalloc st) (nextid st) (nid st) (th st) (tl st) (g_owner st) (g_life st) (g_where st) v (g_uaf st).
Definition w_g_uaf v (st : state) : state := mkSt (gep st) (blist st) (bstate st) (bflag st) (blocal st) (orph st) (cells st) (nalloc st) (nextid st) (nid st) (th st) (tl st) (g_owner st) (g_life st) (g_where st) (g_nfree st) v.
Definition wt_cb v (x : tls) : tls := mkTl v (nest x) (rent x) (rg x) (ces x) (lidx x) (rl x) (gs x) (sit x) (tinit x) (sync x).
Definition wt_nest v (x : tls) : tls := mkTl (cb x) v (rent x) (rg x) (ces x) (lidx x) (rl x) (gs x) (sit x) (tinit x) (sync x).
Definition wt_rent v (x : tls) : tls := mkTl (cb x) (nest x) v (rg x) (ces x) (lidx x) (rl x) (gs x) (sit x) (tinit x) (sync x).
Definition wt_rg v (x : tls) : tls := mkTl (cb x) (nest x) (rent x) v (ces x) (lidx x) (rl x) (gs x) (sit x) (tinit x) (sync x).
Definition wt_ces v (x : tls) : tls := mkTl (cb x) (nest x) (rent x) (rg x) v (lidx x) (rl x) (gs x) (sit x) (tinit x) (sync x).
Definition wt_lidx v (x : tls) : tls := mkTl (cb x) (nest x) (rent x) (rg x) (ces x) v (rl x) (gs x) (sit x) (tinit x) (sync x).
Definition wt_rl v (x : tls) : tls := mkTl (cb x) (nest x) (rent x) (rg x) (ces x) (lidx x) v (gs x) (sit x) (tinit x) (sync x).
Definition wt_gs v (x : tls) : tls := mkTl (cb x) (nest x) (rent x) (rg x) (ces x) (lidx x) (rl x) v (sit x) (tinit x) (sync x).
Definition wt_sit v (x : tls) : tls := mkTl (cb x) (nest x) (rent x) (rg x) (ces x) (lidx x) (rl x) (gs x) v (tinit x) (sync x).
Definition wt_tinit v (x : tls) : tls := mkTl (cb x) (nest x) (rent x) (rg x) (ces x) (lidx x) (rl x) (gs x) (sit x) v (sync x).
Definition wt_sync v (x : tls) : tls := mkTl (cb x) (nest x) (rent x) (rg x) (ces x) (lidx x) (rl x) (gs x) (sit x) (tinit x) v.

Definition updN {X : Type} (f : N -> X) (i : N) (v : X) : N -> X := fun j => if j =? i then v else f j.
Definition set_pc (t : nat) (p : pc) (st : state) : state := w_th (upd (th st) t p) st.
Definition set_tl (t : nat) (x : tls) (st : state) : state := w_tl (upd (tl st) t x) st.

(** ** locations and values *)
Definition L_head := LNamed 0 0.
Definition L_gep := LNamed 1 0.
Definition L_orph (i : N) := LNamed (2 + i) 0.
Definition L_cell (c : N) := LNamed (10 + c) 0.
Definition L_bstate (b : N) := LHeap b 8.      (* thread_control_block: next_entry 0, state 8, is_in_critical_region 12, local_epoch 16 *)
Definition L_bflag (b : N) := LHeap b 12.
Definition L_blocal (b : N) := LHeap b 16.
Definition tcb_size : N := 24.
Definition node_size : N := 40.
Definition rg_size : N := 1.
Definition vptr (p : option N) : val := match p with None => VInt 0 | Some n => VPtr (LHeap n 0) 0 end.
Definition vbool (b : bool) : val := VInt (if b then 1 else 0).
Definition hd_opt (l : list N) : option N := match l with [] => None | x :: _ => Some x end.
Definition oeqb (a b : option N) : bool :=
  match a, b with None, None => true | Some x, Some y => x =? y | _, _ => false end.
Definition memN (n : N) (l : list N) : bool := existsb (N.eqb n) l.
Definition is_nil (l : list N) : bool := match l with [] => true | _ => false end.
Definition is_some {X} (o : option X) : bool := match o with Some _ => true | None => false end.

(** results: ok / lost / null / the id of the dereferenced node *)
Definition r_ok : list N := [0].
Definition r_lost : list N := [1].
Definition r_null : list N := [2].
Definition r_id (i : N) : list N := [3; i].

Definition opcode (o : op) : N * list N :=
  match o with
  | ORepl c => (0, [c]) | OClear c => (1, [c]) | ORead c => (2, [c])
  | OHold c s => (3, [c; N.of_nat s]) | ODrop s => (4, [N.of_nat s]) | ODeref s => (5, [N.of_nat s])
  | OEnter => (6, []) | OLeave => (7, []) | OExit => (8, [])
  end.

Definition cell_of (a : actx) : N := match a with KRepl c _ => c | KRead c => c | KHold c _ => c end.

Definition tl0 : tls := mkTl None 0 0 None 0 0 (fun _ => []) (fun _ => None) [] false false.

Definition init (ncells : N) : state :=
  mkSt 0 [] (fun _ => 0) (fun _ => false) (fun _ => 0) (fun _ => [])
       (fun c => if c <? ncells then Some c else None) ncells (ncells + 1) (fun n => n + 1)
       (fun _ => Idle) (fun _ => tl0)
       (fun _ => None) (fun n => if n <? ncells then LPub n else LNone) (fun _ => PNone) (fun _ => O) false.

(** a node the reclaimer has destroyed (or its creator dropped) *)
Definition dead (st : state) (n : N) : bool :=
  negb (Nat.eqb (g_nfree st n) 0) || match g_life st n with LDropped => true | _ => false end.

(** dereference of node n *)
Definition deref (n : N) (st : state) : state := w_g_uaf (g_uaf st || dead st n) st.

(** the reclaimer runs the deleters of the nodes of [l] *)
Definition free_all (l : list N) (st : state) : state :=
  w_g_nfree (fun n => (g_nfree st n + length (filter (N.eqb n) l))%nat)
    (w_g_where (fun n => if memN n l then PFreed else g_where st n) st).
Definition free_evs (t : nat) (l : list N) : list ev := map (EFree t) l.
Definition free_opt (t : nat) (o : option N) : list ev := match o with Some r => [EFree t r] | None => [] end.

Definition move_all (l : list N) (p : place) (st : state) : state :=
  w_g_where (fun n => if memN n l then p else g_where st n) st.

(** first non-empty retire list from index i on (thread exit) *)
Definition xnext (r : N -> list N) (i : N) : pc :=
  if (i <=? 0) && negb (is_nil (r 0)) then X1 0
  else if (i <=? 1) && negb (is_nil (r 1)) then X1 1
  else if (i <=? 2) && negb (is_nil (r 2)) then X1 2
  else X3.

(** abandon_strategy::apply hands the list over (when_exceeds_threshold<T>: !empty() && size() >= T) *)
Definition ab_need (a : abandon_strategy) (l : list N) : bool :=
  match a with
  | ANever => false
  | AAlways => negb (is_nil l)
  | AThresh T => Nat.leb T (length l) && negb (is_nil l)
  end.
(** first retire list from index i on that clear_critical_region_flag abandons *)
Definition bnext (a : abandon_strategy) (r : N -> list N) (i : N) : option N :=
  if (i <=? 0) && ab_need a (r 0) then Some 0
  else if (i <=? 1) && ab_need a (r 1) then Some 1
  else if (i <=? 2) && ab_need a (r 2) then Some 2
  else None.

(** epoch slots reclaimed by update_local_epoch(new) when the local epoch was old, in the order of the loop *)
Definition uslots (new old : N) : list N :=
  let d := N.min 3 (new - old) in
  if d =? 0 then [] else if d =? 1 then [new mod 3]
  else if d =? 2 then [(new - 1) mod 3; new mod 3] else [(new - 2) mod 3; (new - 1) mod 3; new mod 3].

Definition finish (st : state) (t : nat) (r : list N) (e : list ev) : option (state * list ev) :=
  Some (set_pc t Idle st, e ++ [ERet t r]).

(** the CAS of repl/clear comes next; [repl] allocates its new node first *)
Definition to_cas (st : state) (t : nat) (c : N) (g : option N) (fresh : bool) (e : list ev) : option (state * list ev) :=
  if fresh then
    let n := nalloc st in
    Some (set_pc t (R3 c g (Some n))
            (w_nalloc (n + 1) (w_nextid (nextid st + 1) (w_nid (updN (nid st) n (nextid st)) (w_g_life (updN (g_life st) n (LFresh t)) st)))),
          e ++ [EAlloc t n node_size])
  else Some (set_pc t (R3 c g None) st, e).

Definition do_cont (st : state) (t : nat) (k : lcont) (e : list ev) : option (state * list ev) :=
  match k with
  | LFin r fr => finish st t r (e ++ free_opt t fr)
  | LRepl c fresh => to_cas st t c None fresh e
  | LExit fr => Some (set_pc t (xnext (rl (tl st t)) 0) st, e ++ free_opt t fr)
  end.

(** the abandon loop of clear_critical_region_flag from index i on, then [k] *)
Definition ab_from (a : abandon_strategy) (st : state) (t : nat) (k : lcont) (i : N) (e : list ev) : option (state * list ev) :=
  match bnext a (rl (tl st t)) i with
  | Some j => Some (set_pc t (B1 k j) st, e)
  | None => do_cont st t k e
  end.

(** the counters nested_critical_entries / region_entries (region_entries is only used with a region extension) *)
Definition rent_inc (cfg : config) (n : nat) : nat := match rext cfg with RNone => n | _ => S n end.
Definition rent_dec (cfg : config) (n : nat) : nat := match rext cfg with RNone => n | _ => pred n end.
Definition nest_of (k : ctx) (n : nat) : nat := match k with KAcq _ => S n | KEnter _ => n end.
Definition rg_of (k : ctx) (o : option N) : option N := match k with KEnter r => Some r | KAcq _ => o end.

(** leave_critical (and the leave_region inside it): the counters / the critical region ends *)
Definition leave_tls (cfg : config) (x : tls) : tls := wt_rent (rent_dec cfg (rent x)) (wt_nest (pred (nest x)) x).
Definition leave_last (cfg : config) (x : tls) : bool :=
  match rext cfg with RNone => Nat.eqb (pred (nest x)) 0 | _ => Nat.eqb (pred (rent x)) 0 end.
Definition leave (cfg : config) (st : state) (t : nat) (k : lcont) (e : list ev) : option (state * list ev) :=
  let x := tl st t in
  let st1 := set_tl t (leave_tls cfg x) st in
  if leave_last cfg x then Some (set_pc t (LV k) st1, e) else do_cont st1 t k e.

(** ~region_guard = leave_region alone, then [k] *)
Definition leave_rg_tls (cfg : config) (x : tls) : tls := wt_rent (rent_dec cfg (rent x)) x.
Definition leave_rg_last (cfg : config) (x : tls) : bool :=
  match rext cfg with RNone => false | _ => Nat.eqb (pred (rent x)) 0 end.
Definition leave_rg (cfg : config) (st : state) (t : nat) (k : lcont) (e : list ev) : option (state * list ev) :=
  let x := tl st t in
  let st1 := set_tl t (leave_rg_tls cfg x) st in
  if leave_rg_last cfg x then Some (set_pc t (LV k) st1, e) else do_cont st1 t k e.

(** the thread ends inside a critical region (harness thread_end: the guards are reset, the region_guard deleted) *)
Definition inside (cfg : config) (x : tls) : bool :=
  match rext cfg with RNone => negb (Nat.eqb (nest x) 0) | _ => negb (Nat.eqb (rent x) 0) end.

(** enter_critical after enter_region: ++nested_critical_entries == 1 -> first program point of do_enter_critical *)
Definition crit_pc (cfg : config) (a : actx) (n : nat) : pc :=
  if Nat.eqb n 1 then match rext cfg with RNone => E1 (KAcq a) | REager => E3 a | RLazy => E0 a end else A2 a.

(** enter_region is done: the region_guard constructor returns / enter_critical goes on *)
Definition crit_enter (cfg : config) (st : state) (t : nat) (k : ctx) (e : list ev) : option (state * list ev) :=
  match k with
  | KEnter _ => finish st t r_ok e
  | KAcq a => Some (set_pc t (crit_pc cfg a (nest (tl st t))) st, e)
  end.

(** enter_region with a control block: the counters; eager: the first region entry sets the flag *)
Definition enter_tls (cfg : config) (k : ctx) (x : tls) : tls :=
  wt_rent (rent_inc cfg (rent x)) (wt_rg (rg_of k (rg x)) (wt_nest (nest_of k (nest x)) x)).
Definition eager_first (cfg : config) (x : tls) : bool :=
  match rext cfg with REager => Nat.eqb (rent x) 0 | _ => false end.
Definition is_eager (cfg : config) : bool := match rext cfg with REager => true | _ => false end.
Definition region_entered (cfg : config) (st : state) (t : nat) (k : ctx) (e : list ev) : option (state * list ev) :=
  let x := tl st t in
  let st1 := set_tl t (enter_tls cfg k x) st in
  if eager_first cfg x then Some (set_pc t (E1 k) st1, e) else crit_enter cfg st1 t k e.

(** the thread_local thread_data is constructed on first use; n_threads: its constructor loads the list head *)
Definition scan_is_n (cfg : config) : bool := match scan_strat cfg with ScanN _ => true | ScanAll => false end.
Definition needs_init (cfg : config) (x : tls) : bool := scan_is_n cfg && negb (tinit x).

Definition enter (cfg : config) (st : state) (t : nat) (k : ctx) (e : list ev) : option (state * list ev) :=
  let x := tl st t in
  if needs_init cfg x then Some (set_pc t (T0 k) st, e)
  else match cb x with
       | None => Some (set_pc t (C1 k) st, e)
       | Some _ => region_entered cfg st t k e
       end.

(** adopt_or_create_entry: next entry of the walk, or a new control block (constructor: state active,
    is_in_critical_region false, local_epoch 3) *)
Definition walk (st : state) (t : nat) (k : ctx) (l : list N) (e : list ev) : option (state * list ev) :=
  match l with
  | r :: rest => Some (set_pc t (C2 k r rest) st, e)
  | [] =>
    let b := nalloc st in
    Some (set_pc t (C4 k b)
            (w_nalloc (b + 1) (w_bstate (updN (bstate st) b 2) (w_bflag (updN (bflag st) b false)
               (w_blocal (updN (blocal st) b 3) (w_g_owner (updN (g_owner st) b (Some t)) st))))),
          e ++ [EAlloc t b tcb_size])
  end.

(** n_threads<N>: iteration i of the loop (or the scan gives up) *)
Definition iter_next (n : nat) (a : actx) (ep : N) (i : nat) : pc := if Nat.ltb i n then S2 a ep i else A2 a.

(** the scan begins *)
Definition scan_start (cfg : config) (a : actx) (ep : N) : pc :=
  match scan_strat cfg with ScanAll => S1 a ep | ScanN n => iter_next n a ep 0 end.

(** the entry under the iterator passed, [rest] follows: none left = success *)
Definition pass_pc (cfg : config) (a : actx) (ep : N) (i : nat) (rest : list N) : pc :=
  if is_nil rest then G1 a ep
  else match scan_strat cfg with ScanAll => S2 a ep i | ScanN n => iter_next n a ep (S i) end.
Definition scan_pass (cfg : config) (st : state) (t : nat) (a : actx) (ep : N) (i : nat) (e : list ev) : option (state * list ev) :=
  let x := tl st t in
  Some (set_pc t (pass_pc cfg a ep i (List.tl (sit x))) (set_tl t (wt_sit (List.tl (sit x)) x) st), e).

(** the entry under the iterator is in a critical region of another epoch *)
Definition scan_block (cfg : config) (a : actx) (ep : N) (i : nat) : pc :=
  match scan_strat cfg with ScanAll => A2 a | ScanN n => iter_next n a ep (S i) end.

(** update_local_epoch ends with scan_strategy.reset() *)
Definition u2_pc (cfg : config) (a : actx) : pc := if scan_is_n cfg then U3 a else A2 a.

Definition step (cfg : config) (nslots : nat) (st : state) (a : action) : option (state * list ev) :=
  match a with
  | Start t o =>
    match th st t with
    | Idle =>
      match o with
      | OExit =>
        let x := tl st t in
        match cb x with
        | None => None
        | Some _ =>
          if inside cfg x then
            Some (set_pc t (LV (LExit (rg x))) (set_tl t (wt_rg None (wt_rent O (wt_nest O (wt_gs (fun _ => None) x)))) st), [])
          else Some (set_pc t (xnext (rl x) 0) st, [])
        end
      | OHold _ s | ODrop s | ODeref s => if Nat.ltb s nslots then Some (set_pc t (Begin o) st, []) else None
      | _ => Some (set_pc t (Begin o) st, [])
      end
    | _ => None
    end
  | Step t =>
    let x := tl st t in
    let go (p : pc) (e : list ev) := Some (set_pc t p st, e) in
    match th st t with
    | Idle => None
    | Begin o =>
      let es := [EStart t (fst (opcode o)) (snd (opcode o))] in
      match o with
      | ORepl c => go (A1 (KRepl c true)) es
      | OClear c => go (A1 (KRepl c false)) es
      | ORead c => go (A1 (KRead c)) es
      | OHold c s => go (A1 (KHold c s)) es
      | ODrop s =>
        match gs x s with
        | Some _ => leave cfg (set_tl t (wt_gs (upd (gs x) s None) x) st) t (LFin r_ok None) es
        | None => finish st t r_ok es
        end
      | ODeref s =>
        match gs x s with
        | Some n => finish (deref n st) t (r_id (nid st n)) es
        | None => finish st t r_null es
        end
      | OEnter =>
        match rg x with
        | Some _ => finish st t r_ok es
        | None =>
          let r := nalloc st in
          enter cfg (w_nalloc (r + 1) st) t (KEnter r) (es ++ [EAlloc t r rg_size])
        end
      | OLeave =>
        match rg x with
        | Some r => leave_rg cfg (set_tl t (wt_rg None x) st) t (LFin r_ok (Some r)) es
        | None => finish st t r_ok es
        end
      | OExit => None
      end
    (* ---- guard_ptr::acquire ---- *)
    | A1 a =>
      let c := cell_of a in
      let e := [ELoad t (L_cell c) mo_rlx (vptr (cells st c))] in
      match cells st c with
      | None =>
        match a with
        | KRepl c fresh => to_cas st t c None fresh e
        | KRead _ => finish st t r_null e
        | KHold _ s =>
          match gs x s with
          | Some _ => leave cfg (set_tl t (wt_gs (upd (gs x) s None) x) st) t (LFin r_null None) e
          | None => finish st t r_null e
          end
        end
      | Some _ =>
        match a with
        | KHold _ s => if is_some (gs x s) then go (A2 a) e else enter cfg st t (KAcq a) e
        | _ => enter cfg st t (KAcq a) e
        end
      end
    (* ---- thread_data(): scan_strategy.reset() ---- *)
    | T0 k =>
      Some (set_pc t (C1 k) (set_tl t (wt_tinit true (wt_sit (blist st) x)) st), [ELoad t L_head mo_acq (vptr (hd_opt (blist st)))])
    (* ---- acquire_control_block ---- *)
    | C1 k => walk st t k (blist st) [ELoad t L_head mo_acq (vptr (hd_opt (blist st)))]
    | C2 k r rest =>
      let e := [ELoad t (L_bstate r) mo_rlx (VInt (bstate st r))] in
      if bstate st r =? 0 then go (C3 k r rest) e else walk st t k rest e
    | C3 k r rest =>
      if bstate st r =? 0 then
        Some (set_pc t (C7 k) (set_tl t (wt_cb (Some r) x) (w_bstate (updN (bstate st) r 2) (w_g_owner (updN (g_owner st) r (Some t)) st))),
              [ERmw t (L_bstate r) mo_acq (VInt 0) (VInt 2)])
      else walk st t k rest [ECasF t (L_bstate r) mo_acq mo_acq (VInt (bstate st r)) (VInt 0)]
    | C4 k b => Some (set_pc t (C5 k b) (w_bstate (updN (bstate st) b 2) st), [EStore t (L_bstate b) mo_rlx (VInt 2)])
    | C5 k b => go (C6 k b (hd_opt (blist st))) [ELoad t L_head mo_rlx (vptr (hd_opt (blist st)))]
    | C6 k b h =>
      if oeqb (hd_opt (blist st)) h then
        Some (set_pc t (C7 k) (set_tl t (wt_cb (Some b) x) (w_blist (b :: blist st) st)),
              [ERmw t L_head mo_rel (vptr h) (vptr (Some b))])
      else go (C6 k b (hd_opt (blist st))) [ECasF t L_head mo_rel mo_rlx (vptr (hd_opt (blist st))) (vptr h)]
    | C7 k => go (C8 k (gep st)) [ELoad t L_gep mo_rlx (VInt (gep st))]
    | C8 k e =>
      match cb x with
      | None => None
      | Some b =>
        let st1 := set_tl t (wt_lidx (e mod 3) x) (w_blocal (updN (blocal st) b e) st) in
        let ev := [EStore t (L_blocal b) mo_rlx (VInt e)] in
        if scan_is_n cfg then Some (set_pc t (C9 k) st1, ev) else region_entered cfg st1 t k ev
      end
    | C9 k =>
      region_entered cfg (set_tl t (wt_sit (blist st) x) st) t k [ELoad t L_head mo_acq (vptr (hd_opt (blist st)))]
    (* ---- set_critical_region_flag / do_enter_critical ---- *)
    | E0 a =>
      match cb x with
      | None => None
      | Some b => go (if bflag st b then E3 a else E1 (KAcq a)) [ELoad t (L_bflag b) mo_rlx (vbool (bflag st b))]
      end
    | E1 k =>
      match cb x with
      | None => None
      | Some b => Some (set_pc t (E2 k) (w_bflag (updN (bflag st) b true) st), [EStore t (L_bflag b) mo_rlx (VInt 1)])
      end
    | E2 k =>
      if is_eager cfg then crit_enter cfg st t k [EFence t mo_sc]
      else match k with
           | KAcq a => go (E3 a) [EFence t mo_sc]
           | KEnter _ => None
           end
    | E3 a => go (E4 a (gep st)) [ELoad t L_gep mo_acq (VInt (gep st))]
    | E4 a e =>
      match cb x with
      | None => None
      | Some b =>
        let ev := [ELoad t (L_blocal b) mo_rlx (VInt (blocal st b))] in
        if negb (blocal st b =? e) then Some (set_pc t (U1 a e) (set_tl t (wt_ces O x) st), ev)
        else if Nat.eqb (ces x) (scan_freq cfg) then Some (set_pc t (scan_start cfg a e) (set_tl t (wt_sync true (wt_ces O x)) st), ev)
        else Some (set_pc t (A2 a) (set_tl t (wt_sync true (wt_ces (S (ces x)) x)) st), ev)
      end
    (* ---- scan ---- *)
    | S1 a e =>
      Some (set_pc t (if is_nil (blist st) then G1 a e else S2 a e O) (set_tl t (wt_sit (blist st) x) st),
            [ELoad t L_head mo_acq (vptr (hd_opt (blist st)))])
    | S2 a e i =>
      match sit x with
      | [] => None
      | p :: _ =>
        let ev := [ELoad t (L_bflag p) mo_rlx (vbool (bflag st p))] in
        if bflag st p then go (S3 a e i) ev else scan_pass cfg st t a e i ev
      end
    | S3 a e i =>
      match sit x with
      | [] => None
      | p :: _ =>
        let ev := [ELoad t (L_blocal p) mo_rlx (VInt (blocal st p))] in
        if blocal st p =? e then scan_pass cfg st t a e i ev else go (scan_block cfg a e i) ev
      end
    (* ---- update_global_epoch ---- *)
    | G1 a e =>
      let ev := [ELoad t L_gep mo_rlx (VInt (gep st))] in
      if gep st =? e then go (G2 a e) ev else go (U1 a (e + 1)) ev
    | G2 a e => go (G3 a e) [EFence t mo_acq]
    | G3 a e =>
      let i := (e + 1) mod 3 in
      let ev := [ELoad t (L_orph i) mo_rlx (vptr (hd_opt (orph st i)))] in
      if is_nil (orph st i) then go (G5 a e []) ev else go (G4 a e) ev
    | G4 a e =>
      let i := (e + 1) mod 3 in
      let l := orph st i in
      Some (set_pc t (G5 a e l) (move_all l (PFlight t) (w_orph (updN (orph st) i []) st)),
            [ERmw t (L_orph i) mo_acq (vptr (hd_opt l)) (VInt 0)])
    | G5 a e l =>
      if gep st =? e then
        Some (set_pc t (U1 a (e + 1)) (free_all l (w_gep (e + 1) st)),
              ERmw t L_gep mo_rel (VInt e) (VInt (e + 1)) :: free_evs t l)
      else
        let ev := [ECasF t L_gep mo_rel mo_rlx (VInt (gep st)) (VInt e)] in
        if is_nil l then go (U1 a (e + 1)) ev else go (G6 a e l) ev
    | G6 a e l =>
      let i := (e + 1) mod 3 in
      go (G7 a e l (hd_opt (orph st i))) [ELoad t (L_orph i) mo_rlx (vptr (hd_opt (orph st i)))]
    | G7 a e l h =>
      let i := (e + 1) mod 3 in
      if oeqb (hd_opt (orph st i)) h then
        Some (set_pc t (U1 a (e + 1)) (move_all l (POrph i) (w_orph (updN (orph st) i (l ++ orph st i)) st)),
              [ERmw t (L_orph i) mo_rel (vptr h) (vptr (hd_opt l))])
      else go (G7 a e l (hd_opt (orph st i))) [ECasF t (L_orph i) mo_rel mo_rlx (vptr (hd_opt (orph st i))) (vptr h)]
    (* ---- update_local_epoch ---- *)
    | U1 a new =>
      match cb x with
      | None => None
      | Some b => go (U2 a new (blocal st b)) [ELoad t (L_blocal b) mo_rlx (VInt (blocal st b))]
      end
    | U2 a new old =>
      match cb x with
      | None => None
      | Some b =>
        let sl := uslots new old in
        let fl := flat_map (rl x) sl in
        let x' := wt_sync true (wt_lidx (if is_nil sl then lidx x else new mod 3) (wt_rl (fun i => if memN i sl then [] else rl x i) x)) in
        Some (set_pc t (u2_pc cfg a) (set_tl t x' (free_all fl (w_blocal (updN (blocal st) b new) st))),
              EStore t (L_blocal b) mo_rlx (VInt new) :: free_evs t fl)
      end
    | U3 a => Some (set_pc t (A2 a) (set_tl t (wt_sit (blist st) x) st), [ELoad t L_head mo_acq (vptr (hd_opt (blist st)))])
    | A2 a =>
      let c := cell_of a in
      let v := cells st c in
      let e := [ELoad t (L_cell c) mo_acq (vptr v)] in
      match a with
      | KRepl c fresh =>
        match v with
        | None => leave cfg st t (LRepl c fresh) e
        | Some n => to_cas st t c v fresh e
        end
      | KRead _ =>
        match v with
        | None => leave cfg st t (LFin r_null None) e
        | Some n => leave cfg (deref n st) t (LFin (r_id (nid st n)) None) e
        end
      | KHold _ s =>
        let st1 := set_tl t (wt_gs (upd (gs x) s v) x) st in
        match v with
        | None => leave cfg st1 t (LFin r_null None) e
        | Some n => finish (deref n st1) t (r_id (nid st n)) e
        end
      end
    (* ---- the client's CAS; success: guard.reclaim() = add_retired_node + reset ---- *)
    | R3 c g n =>
      if oeqb (cells st c) g then
        let e := [ERmw t (L_cell c) mo_acqrel (vptr g) (vptr n)] in
        let st1 := w_cells (updN (cells st) c n) st in
        let st2 := match n with Some n' => w_g_life (updN (g_life st1) n' (LPub c)) st1 | None => st1 end in
        match g with
        | Some old =>
          let r := match cb x with Some b => blocal st b | None => 0 end in
          let st3 := deref old st2 in
          let st4 := set_tl t (wt_rl (updN (rl x) (lidx x) (old :: rl x (lidx x))) x)
                       (w_g_life (updN (g_life st3) old (LRet t r)) (w_g_where (updN (g_where st3) old (PList t (lidx x))) st3)) in
          leave cfg st4 t (LFin r_ok None) e
        | None => finish st2 t r_ok e
        end
      else
        let e := ECasF t (L_cell c) mo_acqrel mo_rlx (vptr (cells st c)) (vptr g)
                 :: match n with Some n' => [EFree t n'] | None => [] end in
        let st1 := match n with Some n' => w_g_life (updN (g_life st) n' LDropped) st | None => st end in
        match g with
        | Some _ => leave cfg st1 t (LFin r_lost None) e
        | None => finish st1 t r_lost e
        end
    (* ---- clear_critical_region_flag ---- *)
    | LV k =>
      match cb x with
      | None => None
      | Some b =>
        ab_from (aband cfg) (set_tl t (wt_sync false x) (w_bflag (updN (bflag st) b false) st)) t k 0 [EStore t (L_bflag b) mo_rel (VInt 0)]
      end
    | B1 k i => go (B2 k i (hd_opt (orph st i))) [ELoad t (L_orph i) mo_rlx (vptr (hd_opt (orph st i)))]
    | B2 k i h =>
      if oeqb (hd_opt (orph st i)) h then
        let l := rl x i in
        ab_from (aband cfg)
          (set_tl t (wt_rl (updN (rl x) i []) x) (move_all l (POrph i) (w_orph (updN (orph st) i (l ++ orph st i)) st)))
          t k (i + 1) [ERmw t (L_orph i) mo_rel (vptr h) (vptr (hd_opt l))]
      else go (B2 k i (hd_opt (orph st i))) [ECasF t (L_orph i) mo_rel mo_rlx (vptr (hd_opt (orph st i))) (vptr h)]
    (* ---- ~thread_data ---- *)
    | X1 i =>
      Some (set_pc t (X2 i (hd_opt (orph st i))) (set_tl t (wt_rg None x) st),
            [ELoad t (L_orph i) mo_rlx (vptr (hd_opt (orph st i)))] ++ free_opt t (rg x))
    | X2 i h =>
      if oeqb (hd_opt (orph st i)) h then
        let l := rl x i in
        Some (set_pc t (xnext (rl x) (i + 1))
                (set_tl t (wt_rl (updN (rl x) i []) x) (move_all l (POrph i) (w_orph (updN (orph st) i (l ++ orph st i)) st))),
              [ERmw t (L_orph i) mo_rel (vptr h) (vptr (hd_opt l))])
      else go (X2 i (hd_opt (orph st i))) [ECasF t (L_orph i) mo_rel mo_rlx (vptr (hd_opt (orph st i))) (vptr h)]
    | X3 =>
      match cb x with
      | None => None
      | Some b =>
        Some (set_pc t Idle (set_tl t tl0 (w_bstate (updN (bstate st) b 0) (w_g_owner (updN (g_owner st) b None) st))),
              [EStore t (L_bstate b) mo_rel (VInt 0)] ++ free_opt t (rg x))
      end
    end
  end.
