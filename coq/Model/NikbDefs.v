(** Step-level model of xenium::nikolaev_bounded_queue<T, pop_retries<R>> (nikolaev_bounded_queue.hpp)
    over two xenium::detail::nikolaev_scq index rings (detail/nikolaev_scq.hpp): the ALLOCATED ring
    [RA] (constructed with empty_tag) and the FREE ring [RF] (full_tag), plus the storage array.

      try_push v = RF.dequeue<false,R>(idx) ; new (&storage[idx]) T(v) ; RA.enqueue<false,false>(idx)
      try_pop    = RA.dequeue<false,R>(idx) ; v = move(storage[idx])   ; RF.enqueue<false,false>(idx)

    [step] is the code after the repair of nikolaev_scq (repository commit ccd976e: the is_safe flag of an entry is kept
    as in the SCQ algorithm); [step_old] is the code before it (only for the recorded witnesses of the defect).

    One [Step] = one atomic access of the C++ code, emitting exactly the event rt/xvrt prints for it.
    The plain accesses to the storage cell (element kind [int] of the harness) are not atomic accesses
    and print nothing: the model performs the write / the read of [store idx] together with the first
    access of the following enqueue (the [_tail.fetch_add]), i.e. at the latest possible moment.

    Words.  head / tail / threshold / ring entries are 64-bit words ([N] below 2^64), exactly as the
    code stores them: head and tail count in steps of [index_inc = 2] (bit 0 = finalized, never set by
    the queue), an entry is  cycle * 2n + safe * n + index  with n = 2 * capacity and index n-1 = "no
    value" (bottom); all comparisons are the code's ([diff] = signed 64-bit difference, GENERATED in
    gen/ScqGen.v together with [remap_index] and [calc_remap_shift]).

    Blocks: 0 = the queue object (RA: _head +64, _threshold +128, _tail +192; RF: +320, +384, +448),
    1 = storage, 2 = RA._data, 3 = RF._data (entry j at +8j, j = remap_index(ticket word)).

    Ghosts.  [g_eq q T] / [g_dq q H]: what happened to enqueue ticket T / dequeue ticket H of ring q
    (ticket = counter value / 2); [g_own i]: where storage index i is (in the free ring at a ticket,
    being written by a thread, in the allocated ring at a ticket, being read by a thread);
    [g_in]: (ticket, value) at the instant a try_push publishes its index in RA (successful entry CAS);
    [g_out]: (ticket, value) at the instant a try_pop takes an index out of RA (the fetch_or);
    [g_ok]: (RA ticket, value) of the try_push calls that returned true; [g_ret]: (RA ticket, value) of the
    try_pop calls that returned a value (the enqueue program points carry the RA ticket [gk] of their
    operation as a ghost argument); [g_ebusy T] / [g_dbusy H]: the thread whose try_push published with
    RA ticket T / whose try_pop took RA ticket H and has not returned yet;
    [g_ovf]: a head / tail counter reached 2^62 or a threshold went below -2^62 (the theorems assume
    [g_ovf = false]: no counter wrapped). *)
From Coq Require Import NArith List Bool.
From XV Require Import Base.Word Conc.Lts Conc.Ev gen.ScqGen.
Import ListNotations.
Local Open Scope N_scope.

(** [OPop tp]: tp = true is try_pop(T&) ("tpop" in case files), false is pop() ("pop"): both are do_pop *)
Inductive op := OPush (v : N) | OPop (tp : bool).

Inductive rid := RA | RF.
Definition rid_eqb (a b : rid) : bool := match a, b with RA, RA => true | RF, RF => true | _, _ => false end.
Definition other (q : rid) : rid := match q with RA => RF | RF => RA end.

(** [q] = the ring the thread is working on, [x] = the value of the operation (try_push: the pushed
    value; try_pop: 0 until the cell has been read, then the popped value).  Dequeue on RF / enqueue
    on RA = try_push; dequeue on RA / enqueue on RF = try_pop. *)
Inductive pc :=
| Idle
| Begin (o : op)
(* dequeue<false,R> *)
| D0 (q : rid) (x : N)                        (* LD _threshold rlx; < 0: return false *)
| D1 (q : rid) (x : N)                        (* head = _head.fetch_add(2, rlx) *)
| D2 (q : rid) (x hd att : N)                 (* (3) entry = _data[hidx].load(acq) *)
| D3 (q : rid) (x hd e : N)                   (* (4) _data[hidx].fetch_or(n-1, rel); value = e & (n-1); return true *)
| D4 (q : rid) (x hd att e : N)               (* entry is bottom: tail = _tail.load(rlx); retry / entry_new = head_cycle ^ (~entry & n) *)
| D5 (q : rid) (x hd att e enew : N)          (* (5) CAS _data[hidx] e -> enew acq_rel/acq *)
| D6 (q : rid) (x hd : N)                     (* after the loop (ticket hd given up): tail = _tail.load(rlx) *)
| D7 (q : rid) (x : N)                        (* _threshold.fetch_sub(1, rlx) <= 0: return false; else next ticket *)
| C1 (q : rid) (x tl hd : N)                  (* catchup: CAS _tail tl -> hd rlx *)
| C2 (q : rid) (x tl : N)                     (* catchup: head = _head.load(rlx); diff(tail, head) >= 0: break *)
| D8 (q : rid) (x : N)                        (* _threshold.fetch_sub(1, rlx); return false *)
(* enqueue<false,false> of index idx *)
(* enqueue<false,false> of index idx; gk (ghost) = the dequeue ticket idx came from, after (2) on RA the ticket it went to *)
| E1 (q : rid) (x idx gk : N)                 (* tail = _tail.fetch_add(2, rlx)  (+ the plain access to storage[idx]) *)
| E2 (q : rid) (x idx gk tl : N)              (* (1) entry = _data[tidx].load(acq) *)
| E3 (q : rid) (x idx gk tl e : N)            (* unsafe bottom: _head.load(rlx); diff(head, tail) <= 0 *)
| E4 (q : rid) (x idx gk tl e : N)            (* (2) CAS _data[tidx] e -> tail_cycle ^ value rel/rlx *)
| E5 (q : rid) (x idx gk : N)                 (* _threshold.load(rlx) != 3*capacity-1 *)
| E6 (q : rid) (x idx gk : N).                (* _threshold.store(3*capacity-1, rlx) *)

(** enqueue ticket: not handed out / held by thread t (between the tail fetch_add and the entry CAS) /
    index i was published with it / given up (the thread moved on to another ticket) *)
Inductive efate := ENone | EHeld (t : nat) | EPub (i : N) | ESkip.
(** dequeue ticket: not handed out / held by thread t (inside the do-loop) / took index i / given up *)
Inductive dfate := DNone | DHeld (t : nat) | DTaken (i : N) | DLeft.
Inductive owner := OFree (T : N) | OWrite (t : nat) | OFull (T : N) | ORead (t : nat).

Record ring := mkRing {
  rhead : N; rthr : N; rtail : N; rdata : N -> N;
  g_eq : N -> efate; g_dq : N -> dfate }.

Record state := mkSt {
  rgs : rid -> ring; store : N -> N; th : nat -> pc;
  g_own : N -> owner; g_in : list (N * N); g_out : list (N * N);
  g_ok : list (N * N); g_ret : list (N * N); g_ebusy : N -> option nat; g_dbusy : N -> option nat; g_ovf : bool }.

Inductive action := Start (t : nat) (o : op) | Step (t : nat).

Definition setf {X : Type} (f : N -> X) (i : N) (v : X) : N -> X := fun j => if j =? i then v else f j.

Notation rg := rgs (only parsing).
Notation ra st := (rgs st RA) (only parsing).
Notation rf st := (rgs st RF) (only parsing).

(* ring field updates *)
Definition r_head (r : ring) (x : N) := mkRing x (rthr r) (rtail r) (rdata r) (g_eq r) (g_dq r).
Definition r_thr (r : ring) (x : N) := mkRing (rhead r) x (rtail r) (rdata r) (g_eq r) (g_dq r).
Definition r_tail (r : ring) (x : N) := mkRing (rhead r) (rthr r) x (rdata r) (g_eq r) (g_dq r).
Definition r_data (r : ring) (f : N -> N) := mkRing (rhead r) (rthr r) (rtail r) f (g_eq r) (g_dq r).
Definition r_eq (r : ring) (f : N -> efate) := mkRing (rhead r) (rthr r) (rtail r) (rdata r) f (g_dq r).
Definition r_dq (r : ring) (f : N -> dfate) := mkRing (rhead r) (rthr r) (rtail r) (rdata r) (g_eq r) f.

(* state field updates *)
Definition w_rg (st : state) (q : rid) (r : ring) :=
  mkSt (fun q' => if rid_eqb q' q then r else rgs st q') (store st) (th st) (g_own st) (g_in st) (g_out st) (g_ok st) (g_ret st) (g_ebusy st) (g_dbusy st) (g_ovf st).
Definition w_store (st : state) (f : N -> N) := mkSt (rgs st) f (th st) (g_own st) (g_in st) (g_out st) (g_ok st) (g_ret st) (g_ebusy st) (g_dbusy st) (g_ovf st).
Definition w_th (st : state) (f : nat -> pc) := mkSt (rgs st) (store st) f (g_own st) (g_in st) (g_out st) (g_ok st) (g_ret st) (g_ebusy st) (g_dbusy st) (g_ovf st).
Definition w_own (st : state) (f : N -> owner) := mkSt (rgs st) (store st) (th st) f (g_in st) (g_out st) (g_ok st) (g_ret st) (g_ebusy st) (g_dbusy st) (g_ovf st).
Definition w_in (st : state) (l : list (N * N)) := mkSt (rgs st) (store st) (th st) (g_own st) l (g_out st) (g_ok st) (g_ret st) (g_ebusy st) (g_dbusy st) (g_ovf st).
Definition w_out (st : state) (l : list (N * N)) := mkSt (rgs st) (store st) (th st) (g_own st) (g_in st) l (g_ok st) (g_ret st) (g_ebusy st) (g_dbusy st) (g_ovf st).
Definition w_ok (st : state) (l : list (N * N)) := mkSt (rgs st) (store st) (th st) (g_own st) (g_in st) (g_out st) l (g_ret st) (g_ebusy st) (g_dbusy st) (g_ovf st).
Definition w_ret (st : state) (l : list (N * N)) := mkSt (rgs st) (store st) (th st) (g_own st) (g_in st) (g_out st) (g_ok st) l (g_ebusy st) (g_dbusy st) (g_ovf st).
Definition w_ovf (st : state) (b : bool) := mkSt (rgs st) (store st) (th st) (g_own st) (g_in st) (g_out st) (g_ok st) (g_ret st) (g_ebusy st) (g_dbusy st) b.
Definition w_ebusy (st : state) (f : N -> option nat) := mkSt (rgs st) (store st) (th st) (g_own st) (g_in st) (g_out st) (g_ok st) (g_ret st) f (g_dbusy st) (g_ovf st).
Definition w_dbusy (st : state) (f : N -> option nat) := mkSt (rgs st) (store st) (th st) (g_own st) (g_in st) (g_out st) (g_ok st) (g_ret st) (g_ebusy st) f (g_ovf st).

Definition ones64 : N := 18446744073709551615.        (* static_cast<index_t>(-1) *)
Definition ctr_ovf (w : N) : bool := 2 ^ 62 <=? w.                          (* head / tail reached 2^62 *)
Definition thr_ovf (w : N) : bool := (2 ^ 63 <=? w) && (w <? 2 ^ 64 - 2 ^ 62).   (* threshold below -2^62 *)

(** locations *)
Definition L_head (q : rid) := match q with RA => LHeap 0 64 | RF => LHeap 0 320 end.
Definition L_thr (q : rid) := match q with RA => LHeap 0 128 | RF => LHeap 0 384 end.
Definition L_tail (q : rid) := match q with RA => LHeap 0 192 | RF => LHeap 0 448 end.
Definition L_data (q : rid) (j : N) := match q with RA => LHeap 2 (8 * j) | RF => LHeap 3 (8 * j) end.

Section Nikb.
  (** [old] = true: the code BEFORE the repair of nikolaev_scq (commit ccd976e): enqueue wrote its entry with the
      is_safe flag cleared and dequeue replaced an empty entry by head_cycle with the flag set.  Only used for the
      witnesses of the repaired defect (Proof/NikbExamples.v); [step] below is the repaired code. *)
  Variable old : bool.
  Variable cap : N.    (* _capacity = next_power_of_two(capacity argument) *)
  Variable R : N.      (* pop_retries *)

  Definition nn : N := 2 * cap.                        (* n = capacity * 2: ring size *)
  Definition smask : N := 2 * nn - 1.                  (* is_safe_and_value_mask *)
  Definition vmask : N := nn - 1.                      (* value_mask; also the bottom index *)
  Definition shift : N := calc_remap_shift cap.        (* _remap_shift (generated) *)
  Definition phys (w : N) : N := remap_index w shift nn.     (* generated *)
  Definition cyc (w : N) : N := N.lor w smask.         (* w | is_safe_and_value_mask *)
  Definition thr_full : N := nn + cap - 1.             (* n + capacity - 1 = 3 * capacity - 1 *)
  Definition lt0 (d : N) : bool := slt 64 d 0.         (* signed d < 0 *)
  Definition gt0 (d : N) : bool := slt 64 0 d.         (* signed d > 0 *)

  (** initial rings: empty_tag / full_tag constructors *)
  Definition free_data : N -> N :=
    fold_left (fun f i => setf f (phys (2 * N.of_nat i)) (nn + N.of_nat i)) (seq 0 (N.to_nat cap)) (fun _ => ones64).
  Definition init : state :=
    mkSt (fun q => match q with
                   | RA => mkRing 0 ones64 0 (fun _ => ones64) (fun _ => ENone) (fun _ => DNone)
                   | RF => mkRing 0 (3 * cap - 1) (2 * cap) free_data (fun T => if T <? cap then EPub T else ENone) (fun _ => DNone)
                   end)
         (fun _ => 0) (fun _ => Idle) (fun i => OFree i) [] [] [] [] (fun _ => None) (fun _ => None) false.

  (** the word an enqueue of index idx with tail word tl writes: tail_cycle ^ value, where
      value = idx ^ value_mask (is_safe flag set)   [before the repair: idx ^ is_safe_and_value_mask (flag cleared)] *)
  Definition enq_word (tl idx : N) : N :=
    if old then N.lxor (cyc tl) (N.lxor idx smask) else N.lxor (cyc tl) (N.lxor idx vmask).
  (** the word a dequeue with head word hd puts into an empty slot holding e:
      head_cycle ^ (~entry & n) (keeps the is_safe flag)   [before the repair: head_cycle (flag set)] *)
  Definition bot_word (hd e : N) : N :=
    if old then cyc hd else N.lxor (cyc hd) (N.ldiff nn e).

  (** the body of the do-loop of dequeue up to its next atomic access, for the entry [e] just obtained
      (by the load (3) or by the failed CAS (5)) *)
  Definition dq_eval (q : rid) (x hd att e : N) : pc :=
    if cyc e =? cyc hd then D3 q x hd e
    else if negb (N.lor e nn =? cyc e) then
      let enew := N.ldiff e nn in                      (* entry & ~n *)
      if e =? enew then D6 q x hd
      else if lt0 (diff (cyc e) (cyc hd)) then D5 q x hd att e enew else D6 q x hd
    else D4 q x hd att e.

  (** the retry: label of enqueue for the entry [e] just obtained (load (1) or failed CAS (2)) *)
  Definition en_eval (q : rid) (x idx gk tl e : N) : pc :=
    if lt0 (diff (cyc e) (cyc tl)) then
      if e =? cyc e then E4 q x idx gk tl e
      else if e =? N.lxor (cyc e) nn then E3 q x idx gk tl e
      else E1 q x idx gk
    else E1 q x idx gk.

  (** the dequeue ticket [hd] is given up when the thread leaves the do-loop without a value *)
  Definition leaves (p : pc) : bool := match p with D6 _ _ _ => true | _ => false end.
  Definition mark_left (st : state) (q : rid) (hd : N) (p : pc) : state :=
    if leaves p then let r := rg st q in w_rg st q (r_dq r (setf (g_dq r) (hd / 2) DLeft)) else st.
  (** the enqueue ticket [tl] is given up when the thread goes back to the tail fetch_add *)
  Definition skips (p : pc) : bool := match p with E1 _ _ _ _ => true | _ => false end.
  Definition mark_skip (st : state) (q : rid) (tl : N) (p : pc) : state :=
    if skips p then let r := rg st q in w_rg st q (r_eq r (setf (g_eq r) (tl / 2) ESkip)) else st.

  (** results: [1] ok / [0] full / [1;v] popped v / [3] empty *)
  Definition step_gen (st : state) (a : action) : option (state * list ev) :=
    match a with
    | Start t o =>
      match th st t with
      | Idle => Some (w_th st (upd (th st) t (Begin o)), [])
      | _ => None
      end
    | Step t =>
      let at_pc (s : state) (p : pc) := w_th s (upd (th s) t p) in
      let go (p : pc) (e : list ev) := Some (at_pc st p, e) in
      let fail (s : state) (q : rid) (e : list ev) :=
        Some (at_pc s Idle, e ++ [ERet t (match q with RF => [0] | RA => [3] end)]) in
      let ok (s : state) (q : rid) (x gk : N) (e : list ev) :=
        match q with
        | RA => Some (at_pc (w_ebusy (w_ok s (g_ok s ++ [(gk, x)])) (setf (g_ebusy s) gk None)) Idle, e ++ [ERet t [1]])
        | RF => Some (at_pc (w_dbusy (w_ret s (g_ret s ++ [(gk, x)])) (setf (g_dbusy s) gk None)) Idle, e ++ [ERet t [1; x]])
        end in
      match th st t with
      | Idle => None
      | Begin (OPush v) => go (D0 RF v) [EStart t 0 [v]]
      | Begin (OPop tp) => go (D0 RA 0) [EStart t (if tp then 2 else 1) []]
      (* ---------------- dequeue ---------------- *)
      | D0 q x =>
        let r := rg st q in
        let e := [ELoad t (L_thr q) mo_rlx (VInt (rthr r))] in
        if lt0 (rthr r) then fail st q e else go (D1 q x) e
      | D1 q x =>
        let r := rg st q in
        let hd := rhead r in
        let nh := wadd 64 hd 2 in
        Some (at_pc (w_ovf (w_rg st q (r_dq (r_head r nh) (setf (g_dq r) (hd / 2) (DHeld t)))) (g_ovf st || ctr_ovf nh)) (D2 q x hd 0),
              [ERmw t (L_head q) mo_rlx (VInt hd) (VInt nh)])
      | D2 q x hd att =>
        let e := rdata (rg st q) (phys hd) in
        let p := dq_eval q x hd att e in
        Some (at_pc (mark_left st q hd p) p, [ELoad t (L_data q (phys hd)) mo_acq (VInt e)])
      | D3 q x hd e =>
        let r := rg st q in
        let old := rdata r (phys hd) in
        let new := N.lor old vmask in
        let idx := N.land e vmask in
        let s1 := w_rg st q (r_dq (r_data r (setf (rdata r) (phys hd) new)) (setf (g_dq r) (hd / 2) (DTaken idx))) in
        let s2 := w_own s1 (setf (g_own st) idx (match q with RF => OWrite t | RA => ORead t end)) in
        let s3 := match q with
                  | RA => w_dbusy (w_out s2 (g_out st ++ [(hd / 2, store st idx)])) (setf (g_dbusy st) (hd / 2) (Some t))
                  | RF => s2 end in
        Some (at_pc s3 (E1 (other q) x idx (hd / 2)), [ERmw t (L_data q (phys hd)) mo_rel (VInt old) (VInt new)])
      | D4 q x hd att e =>
        let tl := rtail (rg st q) in
        let p := if gt0 (diff tl (wadd 64 hd 2)) && (att + 1 <=? R) then D2 q x hd (att + 1)
                 else if lt0 (diff (cyc e) (cyc hd)) then D5 q x hd att e (bot_word hd e) else D6 q x hd in
        Some (at_pc (mark_left st q hd p) p, [ELoad t (L_tail q) mo_rlx (VInt tl)])
      | D5 q x hd att e enew =>
        let r := rg st q in
        let cur := rdata r (phys hd) in
        if cur =? e then
          Some (at_pc (w_rg st q (r_dq (r_data r (setf (rdata r) (phys hd) enew)) (setf (g_dq r) (hd / 2) DLeft))) (D6 q x hd),
                [ERmw t (L_data q (phys hd)) mo_acqrel (VInt e) (VInt enew)])
        else
          let p := dq_eval q x hd att cur in
          Some (at_pc (mark_left st q hd p) p, [ECasF t (L_data q (phys hd)) mo_acqrel mo_acq (VInt cur) (VInt e)])
      | D6 q x hd =>
        let r := rg st q in
        let tl := rtail r in
        go (if gt0 (diff tl (wadd 64 hd 2)) then D7 q x else C1 q x tl (wadd 64 hd 2))
           [ELoad t (L_tail q) mo_rlx (VInt tl)]
      | D7 q x =>
        let r := rg st q in
        let old := rthr r in
        let new := wsub 64 old 1 in
        let s1 := w_ovf (w_rg st q (r_thr r new)) (g_ovf st || thr_ovf new) in
        let e := [ERmw t (L_thr q) mo_rlx (VInt old) (VInt new)] in
        if sle 64 old 0 then fail s1 q e else Some (at_pc s1 (D1 q x), e)
      | C1 q x tl hd =>
        let r := rg st q in
        let cur := rtail r in
        if cur =? tl then
          let new := N.lor hd (N.land tl 1) in          (* head | (tail & finalized) *)
          Some (at_pc (w_ovf (w_rg st q (r_tail r new)) (g_ovf st || ctr_ovf new)) (D8 q x),
                [ERmw t (L_tail q) mo_rlx (VInt tl) (VInt new)])
        else go (C2 q x cur) [ECasF t (L_tail q) mo_rlx mo_rlx (VInt cur) (VInt tl)]
      | C2 q x tl =>
        let hd := rhead (rg st q) in
        go (if lt0 (diff tl hd) then C1 q x tl hd else D8 q x) [ELoad t (L_head q) mo_rlx (VInt hd)]
      | D8 q x =>
        let r := rg st q in
        let old := rthr r in
        let new := wsub 64 old 1 in
        fail (w_ovf (w_rg st q (r_thr r new)) (g_ovf st || thr_ovf new)) q
             [ERmw t (L_thr q) mo_rlx (VInt old) (VInt new)]
      (* ---------------- enqueue ---------------- *)
      | E1 q x idx gk =>
        let r := rg st q in
        let tl := rtail r in
        let nt := wadd 64 tl 2 in
        let s1 := w_ovf (w_rg st q (r_eq (r_tail r nt) (setf (g_eq r) (tl / 2) (EHeld t)))) (g_ovf st || ctr_ovf nt) in
        let e := [ERmw t (L_tail q) mo_rlx (VInt tl) (VInt nt)] in
        match q with
        | RA => Some (at_pc (w_store s1 (setf (store st) idx x)) (E2 q x idx gk tl), e)     (* new (&_storage[idx]) T(value) *)
        | RF => Some (at_pc s1 (E2 q (store st idx) idx gk tl), e)                         (* result = move(_storage[idx]) *)
        end
      | E2 q x idx gk tl =>
        let e := rdata (rg st q) (phys tl) in
        let p := en_eval q x idx gk tl e in
        Some (at_pc (mark_skip st q tl p) p, [ELoad t (L_data q (phys tl)) mo_acq (VInt e)])
      | E3 q x idx gk tl e =>
        let hd := rhead (rg st q) in
        let p := if gt0 (diff hd tl) then E1 q x idx gk else E4 q x idx gk tl e in
        Some (at_pc (mark_skip st q tl p) p, [ELoad t (L_head q) mo_rlx (VInt hd)])
      | E4 q x idx gk tl e =>
        let r := rg st q in
        let cur := rdata r (phys tl) in
        if cur =? e then
          let new := enq_word tl idx in
          let s1 := w_rg st q (r_eq (r_data r (setf (rdata r) (phys tl) new)) (setf (g_eq r) (tl / 2) (EPub idx))) in
          let s2 := w_own s1 (setf (g_own st) idx (match q with RA => OFull (tl / 2) | RF => OFree (tl / 2) end)) in
          let s3 := match q with
                    | RA => w_ebusy (w_in s2 (g_in st ++ [(tl / 2, x)])) (setf (g_ebusy st) (tl / 2) (Some t))
                    | RF => s2 end in
          Some (at_pc s3 (E5 q x idx (match q with RA => tl / 2 | RF => gk end)),
                [ERmw t (L_data q (phys tl)) mo_rel (VInt e) (VInt new)])
        else
          let p := en_eval q x idx gk tl cur in
          Some (at_pc (mark_skip st q tl p) p, [ECasF t (L_data q (phys tl)) mo_rel mo_rlx (VInt cur) (VInt e)])
      | E5 q x idx gk =>
        let thr := rthr (rg st q) in
        let e := [ELoad t (L_thr q) mo_rlx (VInt thr)] in
        if thr =? thr_full then ok st q x gk e else go (E6 q x idx gk) e
      | E6 q x idx gk =>
        let r := rg st q in
        ok (w_rg st q (r_thr r thr_full)) q x gk [EStore t (L_thr q) mo_rlx (VInt thr_full)]
      end
    end.
End Nikb.

(** the repaired code / the code before the repair *)
Definition step : N -> N -> state -> action -> option (state * list ev) := step_gen false.
Definition step_old : N -> N -> state -> action -> option (state * list ev) := step_gen true.

Definition quiescent (st : state) : Prop := forall t, th st t = Idle.
