(** Step-level model of ONE bucket of xenium::vyukov_hash_map<long, long>, WITH ITERATORS (extends Model/VhmDefs.v) (vyukov_hash_map.hpp,
    impl/vyukov_hash_map.hpp, trivial key/value traits: key[i] and value[i] are two atomic words per slot)
    with a constant hash (every key falls into the same bucket) and a block that is large enough that it
    never grows (128 buckets = one extension bucket with 10 extension items).  One [Step] = one atomic
    access of the C++ code, emitting exactly the event rt/xvrt prints for it.  No proofs in this file.

    Operations: emplace, get_or_emplace, erase(key), extract, try_get_value (lock free), and the iterator operations of
    the harness: itf k (it = find(k)), itb (it = begin()), itn (++it), itd (dereference), ite (erase(it)), itr (it.reset()).
    Every thread has ONE iterator (the harness' its[tid]); it is either the end iterator or positioned in this bucket
    (all other buckets are empty: hash = const), holding the bucket lock also BETWEEN operations: a thread whose
    iterator is positioned rests at [ItIdle i] instead of [Idle] (the iterator is thread-local state, it is carried in
    the program points); as the harness requires, such a thread only starts iterator operations (itn itd ite itr).
    begin() and operator++ walk over the other 127 buckets (move_to_next_bucket: lock the next, unlock the previous);
    their state words are [obst b] (lock bit only).

    Memory (heap block 0 = the map object: data_block at +0; heap block 1 = the block):
      bucket 7 (hash = 7) at 64 + 7*64 = 512:  state +0, head +8, key[3] +16, value[3] +40;
      the extension bucket at [xoff] (allocate_block aligns it to sizeof(extension_bucket) = 256 while the
      block itself is only 64-aligned, so xoff = 8256 + 64*j, j < 4, depends on the address the allocator
      returned: it is a parameter of the model): lock +0, head +8 (free list), items[10] +16, 24 bytes each
      (key +0, value +8, next +16).
    An extension item pointer is the item number 1..10 (item x = &items[x-1]), 0 = nullptr.
    [bucket.state] is the GENERATED [bucket_state] word (gen/BucketStateGen.v): the model only uses the
    generated functions on it.

    A thread that finds the bucket (or the extension bucket) locked re-reads (it spins by loading again), as
    the implementation does under the deterministic scheduler.  When the free list is empty the
    implementation would grow the table: the model stops that thread ([Grow], no step) - out of scope.

    Ghosts:
      [g_map]    the abstract map (association list), updated exactly at the linearization points of the
                 writers, which are the stores that make the change visible to the lock-free readers:
                   insertion into the array        : the unlocking release store (it increments item_count)
                   insertion of an extension item  : the release store to bucket.head
                   removal from the array          : the store of the delete marker if there is one (the slot
                                                     is back-filled), else the unlocking store (last slot)
                   removal of an extension item    : the store to the predecessor's link
                 unsuccessful writers linearize at their unlocking store (erase of a key from an empty
                 array: at its load of the state);
      [g_lp t]   the value associated with the key of t's current writer call at its linearization point;
      [g_obs t]  for try_get_value: what [g_map] associated with the key at every step of the call so far
                 (each is an instant inside the call);
      [g_rv t]   the number of version increments ([g_nver]) at the reader's last load of the state;
      [g_owner]/[g_xowner] the holders of the bucket lock / of the extension bucket's lock;
      [g_ob b]   the holder of the lock of the other bucket b;
      [g_chain]/[g_free]   the extension chain of the bucket / the free list, as lists;
      [g_dup]    the head of the chain is a copy of an array slot (between the two version increments of a
                 removal that back-fills from the chain);
      [g_limbo]  the extension item that was unlinked from the chain while the version increment that
                 announces it has not been stored yet (0 = none);
      [g_hist]   completed calls with result, [g_lp] and [g_obs] at the return. *)
From Coq Require Import NArith List Bool.
From XV Require Import Base.Word Conc.Lts Conc.Ev gen.BucketStateGen.
From XV Require Model.VhmDefs.
Import ListNotations.
Local Open Scope N_scope.

Inductive op := OIns (k v : N) | OGetIns (k v : N) | ODel (k : N) | OExt (k : N) | OGet (k : N)
              | OItf (k : N) | OItb | OItn | OItd | OIte | OItr.

(** a positioned iterator: [s] = current_bucket_state (the unlocked word that is written back at unlock),
    [idx] = index, [x] = extension (0: the element is array slot idx), [p] = prev (0: &bucket.head, else &p->next) *)
Inductive itpos := It (s idx x p : N).

(** program points.  [a] = AcquireAccessor (get_or_emplace), [k v] = key and value of the call, [s] = the
    state word read before the lock was taken (unlocked), [i] = array index, [x] = extension item,
    [e] = extract (else erase), [r] = the value read by compare_key<true> *)
Inductive pc :=
| Idle
| ItIdle (i : itpos)                     (* between operations, the iterator is positioned (bucket locked) *)
| Begin (o : op)
| BeginI (o : op) (i : itpos)
| Grow (s : N)                           (* allocate_extension_item returned nullptr: grow(), out of scope *)
(* lock_bucket, do_get_or_emplace *)
| L1 (a : bool) (k v : N)                (* (33) LD data_block acq *)
| L2 (a : bool) (k v : N)                (* LD state rlx; locked -> L1 *)
| L3 (a : bool) (k v s : N)              (* (34) CAS state s -> s.locked acq/rlx; failure -> L1 *)
| IK (a : bool) (k v s i : N)            (* LD key[i] rlx *)
| IV (a : bool) (k v s i : N)            (* a: LD value[i] rlx *)
| IUold (a : bool) (k v s r : N)         (* ST state rel s; return false *)
| ISK (a : bool) (k v s : N)             (* ST key[item_count] rlx k *)
| ISV (a : bool) (k v s : N)             (* ST value[item_count] rlx v *)
| IUnew (a : bool) (k v s : N)           (* (3) ST state rel s.inc_item_count; return true *)
| IH (a : bool) (k v s : N)              (* LD head rlx *)
| IXK (a : bool) (k v s x : N)           (* LD x->key rlx *)
| IXV (a : bool) (k v s x : N)           (* a: LD x->value rlx *)
| IXN (a : bool) (k v s x : N)           (* LD x->next rlx *)
(* allocate_extension_item; [it] = second iteration of the outer loop *)
| A1 (a : bool) (k v s : N) (it : bool)  (* LD xb.head rlx; nullptr -> next iteration *)
| A2 (a : bool) (k v s : N) (it : bool)  (* LD xb.lock rlx; != 0 -> again *)
| A3 (a : bool) (k v s : N) (it : bool)  (* (1) exchange xb.lock 1 acq; != 0 -> A2 *)
| A4 (a : bool) (k v s : N) (it : bool)  (* LD xb.head rlx *)
| A4u (a : bool) (k v s : N) (it : bool) (* (2) ST xb.lock rel 0 (list empty) *)
| A5 (a : bool) (k v s n : N)            (* LD n->next seq_cst (implicit conversion) *)
| A6 (a : bool) (k v s n nx : N)         (* ST xb.head rlx nx *)
| A7 (a : bool) (k v s n : N)            (* (2) ST xb.lock rel 0 *)
| IXSK (a : bool) (k v s n : N)          (* ST n->key rlx k *)
| IXSV (a : bool) (k v s n : N)          (* ST n->value rlx v *)
| IXH (a : bool) (k v s n : N)           (* LD head rlx *)
| IXSN (a : bool) (k v s n h : N)        (* ST n->next rlx h *)
| IXSH (a : bool) (k v s n : N)          (* (4) ST head rel n *)
| IUnew2 (a : bool) (k v s : N)          (* (5) ST state rel s; return true *)
(* do_extract *)
| X1 (e : bool) (k : N)                  (* (6) LD data_block acq *)
| X2 (e : bool) (k : N)                  (* LD state rlx; item_count = 0 -> return false; locked -> X1 *)
| X3 (e : bool) (k s : N)                (* (7) CAS state s -> s.locked acq/rlx; failure -> X1 *)
| XK (e : bool) (k s i : N)              (* LD key[i] rlx *)
| XV (e : bool) (k s i : N)              (* LD value[i] rlx *)
| XH (e : bool) (k s i r : N)            (* LD head rlx *)
| XA1 (e : bool) (k s i r x : N)         (* ST state rel locked.set_delete_marker(i+1) *)
| XA2 (e : bool) (k s i r x : N)         (* LD x->key rlx *)
| XA3 (e : bool) (k s i r x kk : N)      (* LD x->value rlx *)
| XA4 (e : bool) (k s i r x kk vv : N)   (* ST key[i] rlx kk *)
| XA5 (e : bool) (k s i r x vv : N)      (* (8) ST value[i] rel vv *)
| XA6 (e : bool) (k s i r x : N)         (* (9) ST state rel locked.new_version *)
| XA7 (e : bool) (k s i r x : N)         (* LD x->next rlx *)
| XA8 (e : bool) (k s i r x nx : N)      (* (10) ST head rel nx *)
| XA9 (e : bool) (k s r x : N)           (* (11) ST state rel locked.new_version.new_version.clear_lock *)
| XB1 (e : bool) (k s i r : N)           (* ST state rel locked.set_delete_marker(i+1) *)
| XB2 (e : bool) (k s i r : N)           (* LD key[item_count-1] rlx *)
| XB3 (e : bool) (k s i r kk : N)        (* LD value[item_count-1] rlx *)
| XB4 (e : bool) (k s i r kk vv : N)     (* ST key[i] rlx kk *)
| XB5 (e : bool) (k s i r vv : N)        (* (12) ST value[i] rel vv *)
| XB6 (e : bool) (k s i r : N)           (* (13) ST state rel s.new_version.dec_item_count (the marker is set iff i < item_count-1) *)
| XHH (e : bool) (k s : N)               (* LD head rlx *)
| XXK (e : bool) (k s p x : N)           (* LD x->key rlx; p = predecessor item, 0: &bucket.head *)
| XXV (e : bool) (k s p x : N)           (* LD x->value rlx *)
| XXN (e : bool) (k s p x r : N)         (* LD x->next rlx *)
| XXP (e : bool) (k s p x r nx : N)      (* ST prev rlx nx *)
| XXU (e : bool) (k s x r : N)           (* (14) ST state rel s.new_version *)
| XXM (e : bool) (k s x : N)             (* LD x->next rlx (key differs: move on) *)
| XU (e : bool) (k s : N)                (* ST state rel s; return false *)
(* free_extension_item(x), then return r *)
| F1 (e : bool) (k r x : N)              (* LD xb.lock rlx; != 0 -> again *)
| F2 (e : bool) (k r x : N)              (* (1) exchange xb.lock 1 acq; != 0 -> F1 *)
| F3 (e : bool) (k r x : N)              (* LD xb.head rlx *)
| F4 (e : bool) (k r x h : N)            (* (35) ST x->next rel h *)
| F5 (e : bool) (k r x : N)              (* ST xb.head rlx x *)
| F6 (e : bool) (k r x : N)              (* (2) ST xb.lock rel 0; return *)
(* try_get_value *)
| G1 (k : N)                             (* (22) LD data_block acq *)
| G2 (k : N)                             (* retry: (23) LD state acq *)
| GK (k s i : N)                         (* LD key[i] rlx *)
| GV (k s i : N)                         (* (24) LD value[i] acq *)
| GD (k s i v : N)                       (* LD data_block acq (block replaced?) *)
| GS (k s i v : N)                       (* LD state rlx: version / delete marker validation *)
| GH (k s : N)                           (* (25) LD head acq *)
| GXK (k s x : N)                        (* LD x->key rlx *)
| GXV (k s x : N)                        (* (26) LD x->value acq *)
| GXD (k s x v : N)                      (* LD data_block acq *)
| GXS (k s x v : N)                      (* LD state rlx: version validation *)
| GXN (k s x : N)                        (* (27) LD x->next acq *)
| GXC (k s x : N)                        (* LD state rlx: version validation; x = the next item *)
| GE (k s : N)                           (* LD state rlx: version validation; return false *)
(* ---- iterator operations; [o] = the operation, [w] = Some key for erase(it) results ("was>..."), [i] = the iterator ---- *)
| SK (o : op) (w : option N) (i : itpos)          (* show: LD key of the current element rlx *)
| SV (o : op) (w : option N) (i : itpos) (kk : N) (* show: LD value rlx; return "kk=vv" *)
(* find *)
| FL1 (k : N)                            (* (33) LD data_block acq *)
| FL2 (k : N)                            (* LD state rlx; locked -> FL1 *)
| FL3 (k s : N)                          (* (34) CAS state s -> s.locked *)
| FK (k s i : N)                         (* LD key[i] rlx *)
| FH (k s : N)                           (* LD head rlx *)
| FXK (k s p x : N)                      (* LD x->key rlx *)
| FXN (k s x : N)                        (* LD x->next rlx *)
| FU (k s : N)                           (* not found: ~iterator: (36) ST state rel s; return end *)
(* begin: lock_bucket(0) *)
| BL1                                    (* LD data_block acq *)
| BL2                                    (* LD bucket[0].state rlx *)
| BL3 (s : N)                            (* CAS bucket[0].state *)
(* move_to_next_bucket from bucket b; [s] = current_bucket_state of bucket b *)
| MN1 (o : op) (w : option N) (b s : N)      (* LD bucket[b+1].state rlx; locked -> again *)
| MN2 (o : op) (w : option N) (b s s1 : N)   (* (37) CAS bucket[b+1].state s1 -> s1.locked acq/rlx; failure -> MN1 *)
| MN3 (o : op) (w : option N) (b s s1 : N)   (* (38) ST bucket[b].state rel s (unlock the previous bucket) *)
| ME (o : op) (w : option N)                 (* last bucket: reset(): (36) ST bucket[127].state rel *)
(* operator++ *)
| N1 (o : op) (i : itpos)                (* LD extension->next rlx *)
| N2 (o : op) (i : itpos)                (* LD head rlx *)
(* erase(iterator) *)
| EK (i : itpos)                         (* *it: LD key rlx *)
| EV (i : itpos) (kk : N)                (* *it: LD value rlx *)
| EX1 (i : itpos) (w v : N)              (* extension item: LD extension->next rlx *)
| EX2 (i : itpos) (w v nx : N)           (* ST prev rlx nx *)
| EX3 (i : itpos) (w v nx : N)           (* (15) ST state rel state.new_version.locked *)
| EA0 (i : itpos) (w v : N)              (* array item: LD head rlx *)
| EA1 (i : itpos) (w v h : N)            (* ST state rel locked.set_delete_marker(index+1) *)
| EA2 (i : itpos) (w v h : N)            (* LD h->key rlx *)
| EA3 (i : itpos) (w v h kk : N)         (* LD h->value rlx *)
| EA4 (i : itpos) (w v h kk vv : N)      (* ST key[index] rlx *)
| EA5 (i : itpos) (w v h vv : N)         (* (16) ST value[index] rel *)
| EA6 (i : itpos) (w v h : N)            (* (17) ST state rel locked.new_version *)
| EA7 (i : itpos) (w v h : N)            (* LD h->next rlx *)
| EA8 (i : itpos) (w v h nx : N)         (* (18) ST head rel nx *)
| EA9 (i : itpos) (w v h : N)            (* (19) ST state rel locked.new_version.new_version *)
| EB1 (i : itpos) (w v : N)              (* ST state rel locked.set_delete_marker(index+1) *)
| EB2 (i : itpos) (w v : N)              (* LD key[max_index] rlx *)
| EB3 (i : itpos) (w v kk : N)           (* LD value[max_index] rlx *)
| EB4 (i : itpos) (w v kk vv : N)        (* ST key[index] rlx *)
| EB5 (i : itpos) (w v vv : N)           (* (20) ST value[index] rel *)
| EB6 (i : itpos) (w v : N)              (* (21) ST state rel state.new_version.dec_item_count.locked *)
| EB7 (i : itpos) (w : N)                (* LD head rlx (the array is exhausted) *)
(* free_extension_item(fx) inside erase(iterator); [i] = the iterator afterwards; mv: move_to_next_bucket afterwards *)
| IF1 (i : itpos) (w fx : N) (mv : bool)             (* LD xb.lock rlx *)
| IF2 (i : itpos) (w fx : N) (mv : bool)             (* exchange xb.lock 1 acq *)
| IF3 (i : itpos) (w fx : N) (mv : bool)             (* LD xb.head rlx *)
| IF4 (i : itpos) (w fx : N) (mv : bool) (h : N)     (* (35) ST fx->next rel h *)
| IF5 (i : itpos) (w fx : N) (mv : bool)             (* ST xb.head rlx fx *)
| IF6 (i : itpos) (w fx : N) (mv : bool)             (* ST xb.lock rel 0 *)
(* reset *)
| R1 (i : itpos).                        (* (36) ST state rel current_bucket_state *)

(** a completed call: thread, operation, result (as printed), [g_lp] and [g_obs] at the return *)
Record hrec := mkH { h_t : nat; h_op : op; h_res : list N; h_wit : option (option N); h_obs : list (option N) }.

Record state := mkSt {
  bst : N;
  bhead : N;
  akey : N -> N;
  aval : N -> N;
  xkey : N -> N;
  xval : N -> N;
  xnext : N -> N;
  xlock : N;
  xhead : N;
  th : nat -> pc;
  obst : N -> N;
  g_map : list (N * N);
  g_owner : option nat;
  g_xowner : option nat;
  g_ob : N -> option nat;
  g_nver : N;
  g_chain : list N;
  g_free : list N;
  g_dup : bool;
  g_limbo : N;
  g_lp : nat -> option (option N);
  g_rv : nat -> N;
  g_obs : nat -> list (option N);
  g_hist : list hrec
}.

Definition s_bst (st : state) (x : N) : state :=
  mkSt x (bhead st) (akey st) (aval st) (xkey st) (xval st) (xnext st) (xlock st) (xhead st) (th st) (obst st) (g_map st) (g_owner st) (g_xowner st) (g_ob st) (g_nver st) (g_chain st) (g_free st) (g_dup st) (g_limbo st) (g_lp st) (g_rv st) (g_obs st) (g_hist st).
Definition s_bhead (st : state) (x : N) : state :=
  mkSt (bst st) x (akey st) (aval st) (xkey st) (xval st) (xnext st) (xlock st) (xhead st) (th st) (obst st) (g_map st) (g_owner st) (g_xowner st) (g_ob st) (g_nver st) (g_chain st) (g_free st) (g_dup st) (g_limbo st) (g_lp st) (g_rv st) (g_obs st) (g_hist st).
Definition s_akey (st : state) (x : N -> N) : state :=
  mkSt (bst st) (bhead st) x (aval st) (xkey st) (xval st) (xnext st) (xlock st) (xhead st) (th st) (obst st) (g_map st) (g_owner st) (g_xowner st) (g_ob st) (g_nver st) (g_chain st) (g_free st) (g_dup st) (g_limbo st) (g_lp st) (g_rv st) (g_obs st) (g_hist st).
Definition s_aval (st : state) (x : N -> N) : state :=
  mkSt (bst st) (bhead st) (akey st) x (xkey st) (xval st) (xnext st) (xlock st) (xhead st) (th st) (obst st) (g_map st) (g_owner st) (g_xowner st) (g_ob st) (g_nver st) (g_chain st) (g_free st) (g_dup st) (g_limbo st) (g_lp st) (g_rv st) (g_obs st) (g_hist st).
Definition s_xkey (st : state) (x : N -> N) : state :=
  mkSt (bst st) (bhead st) (akey st) (aval st) x (xval st) (xnext st) (xlock st) (xhead st) (th st) (obst st) (g_map st) (g_owner st) (g_xowner st) (g_ob st) (g_nver st) (g_chain st) (g_free st) (g_dup st) (g_limbo st) (g_lp st) (g_rv st) (g_obs st) (g_hist st).
Definition s_xval (st : state) (x : N -> N) : state :=
  mkSt (bst st) (bhead st) (akey st) (aval st) (xkey st) x (xnext st) (xlock st) (xhead st) (th st) (obst st) (g_map st) (g_owner st) (g_xowner st) (g_ob st) (g_nver st) (g_chain st) (g_free st) (g_dup st) (g_limbo st) (g_lp st) (g_rv st) (g_obs st) (g_hist st).
Definition s_xnext (st : state) (x : N -> N) : state :=
  mkSt (bst st) (bhead st) (akey st) (aval st) (xkey st) (xval st) x (xlock st) (xhead st) (th st) (obst st) (g_map st) (g_owner st) (g_xowner st) (g_ob st) (g_nver st) (g_chain st) (g_free st) (g_dup st) (g_limbo st) (g_lp st) (g_rv st) (g_obs st) (g_hist st).
Definition s_xlock (st : state) (x : N) : state :=
  mkSt (bst st) (bhead st) (akey st) (aval st) (xkey st) (xval st) (xnext st) x (xhead st) (th st) (obst st) (g_map st) (g_owner st) (g_xowner st) (g_ob st) (g_nver st) (g_chain st) (g_free st) (g_dup st) (g_limbo st) (g_lp st) (g_rv st) (g_obs st) (g_hist st).
Definition s_xhead (st : state) (x : N) : state :=
  mkSt (bst st) (bhead st) (akey st) (aval st) (xkey st) (xval st) (xnext st) (xlock st) x (th st) (obst st) (g_map st) (g_owner st) (g_xowner st) (g_ob st) (g_nver st) (g_chain st) (g_free st) (g_dup st) (g_limbo st) (g_lp st) (g_rv st) (g_obs st) (g_hist st).
Definition s_th (st : state) (x : nat -> pc) : state :=
  mkSt (bst st) (bhead st) (akey st) (aval st) (xkey st) (xval st) (xnext st) (xlock st) (xhead st) x (obst st) (g_map st) (g_owner st) (g_xowner st) (g_ob st) (g_nver st) (g_chain st) (g_free st) (g_dup st) (g_limbo st) (g_lp st) (g_rv st) (g_obs st) (g_hist st).
Definition s_obst (st : state) (x : N -> N) : state :=
  mkSt (bst st) (bhead st) (akey st) (aval st) (xkey st) (xval st) (xnext st) (xlock st) (xhead st) (th st) x (g_map st) (g_owner st) (g_xowner st) (g_ob st) (g_nver st) (g_chain st) (g_free st) (g_dup st) (g_limbo st) (g_lp st) (g_rv st) (g_obs st) (g_hist st).
Definition s_g_map (st : state) (x : list (N * N)) : state :=
  mkSt (bst st) (bhead st) (akey st) (aval st) (xkey st) (xval st) (xnext st) (xlock st) (xhead st) (th st) (obst st) x (g_owner st) (g_xowner st) (g_ob st) (g_nver st) (g_chain st) (g_free st) (g_dup st) (g_limbo st) (g_lp st) (g_rv st) (g_obs st) (g_hist st).
Definition s_g_owner (st : state) (x : option nat) : state :=
  mkSt (bst st) (bhead st) (akey st) (aval st) (xkey st) (xval st) (xnext st) (xlock st) (xhead st) (th st) (obst st) (g_map st) x (g_xowner st) (g_ob st) (g_nver st) (g_chain st) (g_free st) (g_dup st) (g_limbo st) (g_lp st) (g_rv st) (g_obs st) (g_hist st).
Definition s_g_xowner (st : state) (x : option nat) : state :=
  mkSt (bst st) (bhead st) (akey st) (aval st) (xkey st) (xval st) (xnext st) (xlock st) (xhead st) (th st) (obst st) (g_map st) (g_owner st) x (g_ob st) (g_nver st) (g_chain st) (g_free st) (g_dup st) (g_limbo st) (g_lp st) (g_rv st) (g_obs st) (g_hist st).
Definition s_g_ob (st : state) (x : N -> option nat) : state :=
  mkSt (bst st) (bhead st) (akey st) (aval st) (xkey st) (xval st) (xnext st) (xlock st) (xhead st) (th st) (obst st) (g_map st) (g_owner st) (g_xowner st) x (g_nver st) (g_chain st) (g_free st) (g_dup st) (g_limbo st) (g_lp st) (g_rv st) (g_obs st) (g_hist st).
Definition s_g_nver (st : state) (x : N) : state :=
  mkSt (bst st) (bhead st) (akey st) (aval st) (xkey st) (xval st) (xnext st) (xlock st) (xhead st) (th st) (obst st) (g_map st) (g_owner st) (g_xowner st) (g_ob st) x (g_chain st) (g_free st) (g_dup st) (g_limbo st) (g_lp st) (g_rv st) (g_obs st) (g_hist st).
Definition s_g_chain (st : state) (x : list N) : state :=
  mkSt (bst st) (bhead st) (akey st) (aval st) (xkey st) (xval st) (xnext st) (xlock st) (xhead st) (th st) (obst st) (g_map st) (g_owner st) (g_xowner st) (g_ob st) (g_nver st) x (g_free st) (g_dup st) (g_limbo st) (g_lp st) (g_rv st) (g_obs st) (g_hist st).
Definition s_g_free (st : state) (x : list N) : state :=
  mkSt (bst st) (bhead st) (akey st) (aval st) (xkey st) (xval st) (xnext st) (xlock st) (xhead st) (th st) (obst st) (g_map st) (g_owner st) (g_xowner st) (g_ob st) (g_nver st) (g_chain st) x (g_dup st) (g_limbo st) (g_lp st) (g_rv st) (g_obs st) (g_hist st).
Definition s_g_dup (st : state) (x : bool) : state :=
  mkSt (bst st) (bhead st) (akey st) (aval st) (xkey st) (xval st) (xnext st) (xlock st) (xhead st) (th st) (obst st) (g_map st) (g_owner st) (g_xowner st) (g_ob st) (g_nver st) (g_chain st) (g_free st) x (g_limbo st) (g_lp st) (g_rv st) (g_obs st) (g_hist st).
Definition s_g_limbo (st : state) (x : N) : state :=
  mkSt (bst st) (bhead st) (akey st) (aval st) (xkey st) (xval st) (xnext st) (xlock st) (xhead st) (th st) (obst st) (g_map st) (g_owner st) (g_xowner st) (g_ob st) (g_nver st) (g_chain st) (g_free st) (g_dup st) x (g_lp st) (g_rv st) (g_obs st) (g_hist st).
Definition s_g_lp (st : state) (x : nat -> option (option N)) : state :=
  mkSt (bst st) (bhead st) (akey st) (aval st) (xkey st) (xval st) (xnext st) (xlock st) (xhead st) (th st) (obst st) (g_map st) (g_owner st) (g_xowner st) (g_ob st) (g_nver st) (g_chain st) (g_free st) (g_dup st) (g_limbo st) x (g_rv st) (g_obs st) (g_hist st).
Definition s_g_rv (st : state) (x : nat -> N) : state :=
  mkSt (bst st) (bhead st) (akey st) (aval st) (xkey st) (xval st) (xnext st) (xlock st) (xhead st) (th st) (obst st) (g_map st) (g_owner st) (g_xowner st) (g_ob st) (g_nver st) (g_chain st) (g_free st) (g_dup st) (g_limbo st) (g_lp st) x (g_obs st) (g_hist st).
Definition s_g_obs (st : state) (x : nat -> list (option N)) : state :=
  mkSt (bst st) (bhead st) (akey st) (aval st) (xkey st) (xval st) (xnext st) (xlock st) (xhead st) (th st) (obst st) (g_map st) (g_owner st) (g_xowner st) (g_ob st) (g_nver st) (g_chain st) (g_free st) (g_dup st) (g_limbo st) (g_lp st) (g_rv st) x (g_hist st).
Definition s_g_hist (st : state) (x : list hrec) : state :=
  mkSt (bst st) (bhead st) (akey st) (aval st) (xkey st) (xval st) (xnext st) (xlock st) (xhead st) (th st) (obst st) (g_map st) (g_owner st) (g_xowner st) (g_ob st) (g_nver st) (g_chain st) (g_free st) (g_dup st) (g_limbo st) (g_lp st) (g_rv st) (g_obs st) x.

Inductive action := Start (t : nat) (o : op) | Step (t : nat).

(** [setf], [lookup], [rem], [remx] are those of Model/VhmDefs.v *)
Notation setf := VhmDefs.setf (only parsing).
Notation lookup := VhmDefs.lookup (only parsing).
Notation rem := VhmDefs.rem (only parsing).
Notation remx := VhmDefs.remx (only parsing).

Definition n_items : N := 10.     (* extension_item_count *)

(** the free list after allocate_block: items[9] -> items[8] -> ... -> items[0] -> nullptr *)
Definition init : state :=
  mkSt 0 0 (fun _ => 0) (fun _ => 0) (fun _ => 0) (fun _ => 0) (fun x => x - 1) 0 n_items (fun _ => Idle) (fun _ => 0)
       [] None None (fun _ => None) 0 [] [10; 9; 8; 7; 6; 5; 4; 3; 2; 1] false 0 (fun _ => None) (fun _ => 0) (fun _ => []) [].

(** results ([ERet t r]): [0;b] emplace new/old, [1;b;v] get_or_emplace new:v/old:v, [2;b] erase ok/no,
    [3;1;v] extract v, [3;0] extract no, [4;1;v] try_get_value v, [4;0] try_get_value no,
    [5;1;k;v] "k=v" / [5;0] "end" (itf itb itn itd), [6;1;was;k;v] "was>k=v" / [6;0;was] "was>end" / [6;2] "end" (ite), [7] "ok" (itr) *)
Definition show_res (w : option N) (kk vv : N) : list N := match w with None => [5; 1; kk; vv] | Some was => [6; 1; was; kk; vv] end.
Definition end_res (w : option N) : list N := match w with None => [5; 0] | Some was => [6; 0; was] end.
Definition last_bucket : N := 127.
Definition ins_op (a : bool) (k v : N) : op := if a then OGetIns k v else OIns k v.
Definition ins_res (a : bool) (new : bool) (r : N) : list N := if a then [1; b2n new; r] else [0; b2n new].
Definition del_op (e : bool) (k : N) : op := if e then OExt k else ODel k.
Definition del_res (e : bool) (ok : bool) (r : N) : list N :=
  if e then (if ok then [3; 1; r] else [3; 0]) else [2; b2n ok].

Section Vhm.
  Variable xoff : N.       (* offset of the extension bucket in the block *)

  Definition L_db : loc := LHeap 0 0.
  Definition V_db : val := VPtr (LHeap 1 0) 0.
  Definition L_state : loc := LHeap 1 512.
  Definition L_head : loc := LHeap 1 520.
  Definition L_bst (b : N) : loc := LHeap 1 (64 + 64 * b).
  Definition L_key (i : N) : loc := LHeap 1 (528 + 8 * i).
  Definition L_val (i : N) : loc := LHeap 1 (552 + 8 * i).
  Definition L_xlock : loc := LHeap 1 xoff.
  Definition L_xhead : loc := LHeap 1 (xoff + 8).
  Definition item_off (x : N) : N := xoff + 16 + 24 * (x - 1).
  Definition L_xkey (x : N) : loc := LHeap 1 (item_off x).
  Definition L_xval (x : N) : loc := LHeap 1 (item_off x + 8).
  Definition L_xnext (x : N) : loc := LHeap 1 (item_off x + 16).
  Definition vitem (x : N) : val := if x =? 0 then VInt 0 else VPtr (LHeap 1 (item_off x)) 0.
  (** the link [prev] of do_extract: 0 = &bucket.head, p = &p->next *)
  Definition L_link (p : N) : loc := if p =? 0 then L_head else L_xnext p.

  (** thread-local move *)
  Definition go (st : state) (t : nat) (p : pc) : state := s_th st (upd (th st) t p).
  (** record the reader's observation of its key at this instant *)
  Definition obs (st : state) (t : nat) (k : N) : state :=
    s_g_obs st (upd (g_obs st) t (g_obs st t ++ [lookup k (g_map st)])).
  (** record the writer's linearization point *)
  Definition lp (st : state) (t : nat) (k : N) : state :=
    s_g_lp st (upd (g_lp st) t (Some (lookup k (g_map st)))).
  (** return *)
  Definition ret (st : state) (t : nat) (o : op) (r : list N) : state :=
    s_g_hist (go st t Idle) (g_hist st ++ [mkH t o r (g_lp st t) (g_obs st t)]).
  (** return of an iterator operation that leaves the iterator positioned *)
  Definition reti (st : state) (t : nat) (o : op) (r : list N) (i : itpos) : state :=
    s_g_hist (go st t (ItIdle i)) (g_hist st ++ [mkH t o r (g_lp st t) (g_obs st t)]).
  Definition bump (st : state) : state := s_g_nver st (g_nver st + 1).

  (** continue the scan of try_get_value after array slot [i] *)
  Definition g_next_slot (k s i : N) : pc := if i + 1 <? bs_item_count s then GK k s (i + 1) else GH k s.

  Definition step (st : state) (a : action) : option (state * list ev) :=
    match a with
    | Start t o =>
      match th st t with
      | Idle => Some (go st t (Begin o), [])
      | ItIdle i =>
        match o with
        | OItn | OItd | OIte | OItr => Some (go st t (BeginI o i), [])
        | _ => None
        end
      | _ => None
      end
    | Step t =>
      let ld (l : loc) (mo : N) (v : val) := [ELoad t l mo v] in
      let sto (l : loc) (mo : N) (v : val) := [EStore t l mo v] in
      match th st t with
      | Idle => None
      | ItIdle _ => None
      | Grow _ => None
      | Begin o =>
        match o with
        | OIns k v => Some (go (s_g_lp st (upd (g_lp st) t None)) t (L1 false k v), [EStart t 0 [k; v]])
        | OGetIns k v => Some (go (s_g_lp st (upd (g_lp st) t None)) t (L1 true k v), [EStart t 1 [k; v]])
        | ODel k => Some (go (s_g_lp st (upd (g_lp st) t None)) t (X1 false k), [EStart t 2 [k]])
        | OExt k => Some (go (s_g_lp st (upd (g_lp st) t None)) t (X1 true k), [EStart t 3 [k]])
        | OGet k => Some (go (s_g_obs st (upd (g_obs st) t [])) t (G1 k), [EStart t 4 [k]])
        | OItf k => Some (go st t (FL1 k), [EStart t 5 [k]])
        | OItb => Some (go st t BL1, [EStart t 6 []])
        | OItn => Some (ret st t OItn [5; 0], [EStart t 7 []; ERet t [5; 0]])
        | OItd => Some (ret st t OItd [5; 0], [EStart t 8 []; ERet t [5; 0]])
        | OIte => Some (ret st t OIte [6; 2], [EStart t 9 []; ERet t [6; 2]])
        | OItr => Some (ret st t OItr [7], [EStart t 10 []; ERet t [7]])
        end
      | BeginI o (It s idx x p) =>
        match o with
        | OItn =>
          if negb (x =? 0) then Some (go st t (N1 OItn (It s idx x p)), [EStart t 7 []])
          else if idx + 1 =? bs_item_count s then Some (go st t (N2 OItn (It s (idx + 1) 0 0)), [EStart t 7 []])
          else Some (go st t (SK OItn None (It s (idx + 1) 0 0)), [EStart t 7 []])
        | OItd => Some (go st t (SK OItd None (It s idx x p)), [EStart t 8 []])
        | OIte => Some (go (s_g_lp st (upd (g_lp st) t None)) t (EK (It s idx x p)), [EStart t 9 []])
        | OItr => Some (go st t (R1 (It s idx x p)), [EStart t 10 []])
        | _ => None
        end
      (* ---------------- lock_bucket ---------------- *)
      | L1 a k v => Some (go st t (L2 a k v), ld L_db mo_acq V_db)
      | L2 a k v =>
        let s := bst st in
        Some (go st t (if bs_is_locked s then L1 a k v else L3 a k v s), ld L_state mo_rlx (VInt s))
      | L3 a k v s =>
        if bst st =? s then
          Some (go (s_g_owner (s_bst st (bs_locked s)) (Some t)) t
                   (if 0 <? bs_item_count s then IK a k v s 0 else ISK a k v s),
                [ERmw t L_state mo_acq (VInt s) (VInt (bs_locked s))])
        else Some (go st t (L1 a k v), [ECasF t L_state mo_acq mo_rlx (VInt (bst st)) (VInt s)])
      (* ---------------- do_get_or_emplace ---------------- *)
      | IK a k v s i =>
        let kk := akey st i in
        Some (go st t (if kk =? k then (if a then IV a k v s i else IUold a k v s 0)
                       else if i + 1 <? bs_item_count s then IK a k v s (i + 1)
                       else if bs_item_count s <? C_bucket_item_count then ISK a k v s else IH a k v s),
              ld (L_key i) mo_rlx (VInt kk))
      | IV a k v s i => Some (go st t (IUold a k v s (aval st i)), ld (L_val i) mo_rlx (VInt (aval st i)))
      | IUold a k v s r =>
        Some (ret (lp (s_g_owner (s_bst st s) None) t k) t (ins_op a k v) (ins_res a false r),
              sto L_state mo_rel (VInt s) ++ [ERet t (ins_res a false r)])
      | ISK a k v s =>
        Some (go (s_akey st (setf (akey st) (bs_item_count s) k)) t (ISV a k v s),
              sto (L_key (bs_item_count s)) mo_rlx (VInt k))
      | ISV a k v s =>
        Some (go (s_aval st (setf (aval st) (bs_item_count s) v)) t (IUnew a k v s),
              sto (L_val (bs_item_count s)) mo_rlx (VInt v))
      | IUnew a k v s =>
        let w := bs_inc_item_count s in
        Some (ret (s_g_map (lp (s_g_owner (s_bst st w) None) t k) ((k, v) :: g_map st)) t (ins_op a k v) (ins_res a true v),
              sto L_state mo_rel (VInt w) ++ [ERet t (ins_res a true v)])
      | IH a k v s =>
        let x := bhead st in
        Some (go st t (if x =? 0 then A1 a k v s false else IXK a k v s x), ld L_head mo_rlx (vitem x))
      | IXK a k v s x =>
        let kk := xkey st x in
        Some (go st t (if kk =? k then (if a then IXV a k v s x else IUold a k v s 0) else IXN a k v s x),
              ld (L_xkey x) mo_rlx (VInt kk))
      | IXV a k v s x => Some (go st t (IUold a k v s (xval st x)), ld (L_xval x) mo_rlx (VInt (xval st x)))
      | IXN a k v s x =>
        let y := xnext st x in
        Some (go st t (if y =? 0 then A1 a k v s false else IXK a k v s y), ld (L_xnext x) mo_rlx (vitem y))
      (* ---------------- allocate_extension_item ---------------- *)
      | A1 a k v s it =>
        let h := xhead st in
        Some (go st t (if h =? 0 then (if it then Grow s else A1 a k v s true) else A2 a k v s it),
              ld L_xhead mo_rlx (vitem h))
      | A2 a k v s it =>
        Some (go st t (if xlock st =? 0 then A3 a k v s it else A2 a k v s it), ld L_xlock mo_rlx (VInt (xlock st)))
      | A3 a k v s it =>
        if xlock st =? 0 then
          Some (go (s_g_xowner (s_xlock st 1) (Some t)) t (A4 a k v s it), [ERmw t L_xlock mo_acq (VInt 0) (VInt 1)])
        else Some (go st t (A2 a k v s it), [ERmw t L_xlock mo_acq (VInt (xlock st)) (VInt 1)])
      | A4 a k v s it =>
        let h := xhead st in
        Some (go st t (if h =? 0 then A4u a k v s it else A5 a k v s h), ld L_xhead mo_rlx (vitem h))
      | A4u a k v s it =>
        Some (go (s_g_xowner (s_xlock st 0) None) t (if it then Grow s else A1 a k v s true), sto L_xlock mo_rel (VInt 0))
      | A5 a k v s n => Some (go st t (A6 a k v s n (xnext st n)), ld (L_xnext n) mo_sc (vitem (xnext st n)))
      | A6 a k v s n nx =>
        Some (go (s_g_free (s_xhead st nx) (tl (g_free st))) t (A7 a k v s n), sto L_xhead mo_rlx (vitem nx))
      | A7 a k v s n =>
        Some (go (s_g_xowner (s_xlock st 0) None) t (IXSK a k v s n), sto L_xlock mo_rel (VInt 0))
      | IXSK a k v s n =>
        Some (go (s_xkey st (setf (xkey st) n k)) t (IXSV a k v s n), sto (L_xkey n) mo_rlx (VInt k))
      | IXSV a k v s n =>
        Some (go (s_xval st (setf (xval st) n v)) t (IXH a k v s n), sto (L_xval n) mo_rlx (VInt v))
      | IXH a k v s n => Some (go st t (IXSN a k v s n (bhead st)), ld L_head mo_rlx (vitem (bhead st)))
      | IXSN a k v s n h =>
        Some (go (s_xnext st (setf (xnext st) n h)) t (IXSH a k v s n), sto (L_xnext n) mo_rlx (vitem h))
      | IXSH a k v s n =>
        Some (go (s_g_map (lp (s_g_chain (s_bhead st n) (n :: g_chain st)) t k) ((k, v) :: g_map st)) t (IUnew2 a k v s),
              sto L_head mo_rel (vitem n))
      | IUnew2 a k v s =>
        Some (ret (s_g_owner (s_bst st s) None) t (ins_op a k v) (ins_res a true v),
              sto L_state mo_rel (VInt s) ++ [ERet t (ins_res a true v)])
      (* ---------------- do_extract ---------------- *)
      | X1 e k => Some (go st t (X2 e k), ld L_db mo_acq V_db)
      | X2 e k =>
        let s := bst st in
        if bs_item_count s =? 0 then
          Some (ret (lp st t k) t (del_op e k) (del_res e false 0),
                ld L_state mo_rlx (VInt s) ++ [ERet t (del_res e false 0)])
        else Some (go st t (if bs_is_locked s then X1 e k else X3 e k s), ld L_state mo_rlx (VInt s))
      | X3 e k s =>
        if bst st =? s then
          Some (go (s_g_owner (s_bst st (bs_locked s)) (Some t)) t (XK e k s 0),
                [ERmw t L_state mo_acq (VInt s) (VInt (bs_locked s))])
        else Some (go st t (X1 e k), [ECasF t L_state mo_acq mo_rlx (VInt (bst st)) (VInt s)])
      | XK e k s i =>
        let kk := akey st i in
        Some (go st t (if kk =? k then XV e k s i
                       else if i + 1 <? bs_item_count s then XK e k s (i + 1) else XHH e k s),
              ld (L_key i) mo_rlx (VInt kk))
      | XV e k s i => Some (go st t (XH e k s i (aval st i)), ld (L_val i) mo_rlx (VInt (aval st i)))
      | XH e k s i r =>
        let x := bhead st in
        Some (go st t (if negb (x =? 0) then XA1 e k s i r x
                       else if negb (i =? bs_item_count s - 1) then XB1 e k s i r else XB6 e k s i r),
              ld L_head mo_rlx (vitem x))
      | XA1 e k s i r x =>
        let w := bs_set_delete_marker (bs_locked s) (i + 1) in
        Some (go (s_g_map (lp (s_bst st w) t k) (rem k (g_map st))) t (XA2 e k s i r x), sto L_state mo_rel (VInt w))
      | XA2 e k s i r x => Some (go st t (XA3 e k s i r x (xkey st x)), ld (L_xkey x) mo_rlx (VInt (xkey st x)))
      | XA3 e k s i r x kk => Some (go st t (XA4 e k s i r x kk (xval st x)), ld (L_xval x) mo_rlx (VInt (xval st x)))
      | XA4 e k s i r x kk vv =>
        Some (go (s_akey st (setf (akey st) i kk)) t (XA5 e k s i r x vv), sto (L_key i) mo_rlx (VInt kk))
      | XA5 e k s i r x vv =>
        Some (go (s_aval st (setf (aval st) i vv)) t (XA6 e k s i r x), sto (L_val i) mo_rel (VInt vv))
      | XA6 e k s i r x =>
        let w := bs_new_version (bs_locked s) in
        Some (go (s_g_dup (bump (s_bst st w)) true) t (XA7 e k s i r x), sto L_state mo_rel (VInt w))
      | XA7 e k s i r x => Some (go st t (XA8 e k s i r x (xnext st x)), ld (L_xnext x) mo_rlx (vitem (xnext st x)))
      | XA8 e k s i r x nx =>
        Some (go (s_g_limbo (s_g_dup (s_g_chain (s_bhead st nx) (tl (g_chain st))) false) x) t (XA9 e k s r x),
              sto L_head mo_rel (vitem nx))
      | XA9 e k s r x =>
        let w := bs_clear_lock (bs_new_version (bs_new_version (bs_locked s))) in
        Some (go (s_g_limbo (s_g_owner (bump (s_bst st w)) None) 0) t (F1 e k r x), sto L_state mo_rel (VInt w))
      | XB1 e k s i r =>
        let w := bs_set_delete_marker (bs_locked s) (i + 1) in
        Some (go (s_g_map (lp (s_bst st w) t k) (rem k (g_map st))) t (XB2 e k s i r), sto L_state mo_rel (VInt w))
      | XB2 e k s i r =>
        let j := bs_item_count s - 1 in
        Some (go st t (XB3 e k s i r (akey st j)), ld (L_key j) mo_rlx (VInt (akey st j)))
      | XB3 e k s i r kk =>
        let j := bs_item_count s - 1 in
        Some (go st t (XB4 e k s i r kk (aval st j)), ld (L_val j) mo_rlx (VInt (aval st j)))
      | XB4 e k s i r kk vv =>
        Some (go (s_akey st (setf (akey st) i kk)) t (XB5 e k s i r vv), sto (L_key i) mo_rlx (VInt kk))
      | XB5 e k s i r vv =>
        Some (go (s_aval st (setf (aval st) i vv)) t (XB6 e k s i r), sto (L_val i) mo_rel (VInt vv))
      | XB6 e k s i r =>
        let w := bs_dec_item_count (bs_new_version s) in
        let st1 := s_g_owner (bump (s_bst st w)) None in
        let st2 := if i =? bs_item_count s - 1 then s_g_map (lp st1 t k) (rem k (g_map st)) else st1 in
        Some (ret st2 t (del_op e k) (del_res e true r), sto L_state mo_rel (VInt w) ++ [ERet t (del_res e true r)])
      | XHH e k s =>
        let x := bhead st in
        Some (go st t (if x =? 0 then XU e k s else XXK e k s 0 x), ld L_head mo_rlx (vitem x))
      | XXK e k s p x =>
        let kk := xkey st x in
        Some (go st t (if kk =? k then XXV e k s p x else XXM e k s x), ld (L_xkey x) mo_rlx (VInt kk))
      | XXV e k s p x => Some (go st t (XXN e k s p x (xval st x)), ld (L_xval x) mo_rlx (VInt (xval st x)))
      | XXN e k s p x r => Some (go st t (XXP e k s p x r (xnext st x)), ld (L_xnext x) mo_rlx (vitem (xnext st x)))
      | XXP e k s p x r nx =>
        let st1 := if p =? 0 then s_bhead st nx else s_xnext st (setf (xnext st) p nx) in
        Some (go (s_g_limbo (s_g_map (lp (s_g_chain st1 (remx x (g_chain st))) t k) (rem k (g_map st))) x) t (XXU e k s x r),
              sto (L_link p) mo_rlx (vitem nx))
      | XXU e k s x r =>
        let w := bs_new_version s in
        Some (go (s_g_limbo (s_g_owner (bump (s_bst st w)) None) 0) t (F1 e k r x), sto L_state mo_rel (VInt w))
      | XXM e k s x =>
        let y := xnext st x in
        Some (go st t (if y =? 0 then XU e k s else XXK e k s x y), ld (L_xnext x) mo_rlx (vitem y))
      | XU e k s =>
        Some (ret (lp (s_g_owner (s_bst st s) None) t k) t (del_op e k) (del_res e false 0),
              sto L_state mo_rel (VInt s) ++ [ERet t (del_res e false 0)])
      (* ---------------- free_extension_item ---------------- *)
      | F1 e k r x =>
        Some (go st t (if xlock st =? 0 then F2 e k r x else F1 e k r x), ld L_xlock mo_rlx (VInt (xlock st)))
      | F2 e k r x =>
        if xlock st =? 0 then
          Some (go (s_g_xowner (s_xlock st 1) (Some t)) t (F3 e k r x), [ERmw t L_xlock mo_acq (VInt 0) (VInt 1)])
        else Some (go st t (F1 e k r x), [ERmw t L_xlock mo_acq (VInt (xlock st)) (VInt 1)])
      | F3 e k r x => Some (go st t (F4 e k r x (xhead st)), ld L_xhead mo_rlx (vitem (xhead st)))
      | F4 e k r x h =>
        Some (go (s_xnext st (setf (xnext st) x h)) t (F5 e k r x), sto (L_xnext x) mo_rel (vitem h))
      | F5 e k r x =>
        Some (go (s_g_free (s_xhead st x) (x :: g_free st)) t (F6 e k r x), sto L_xhead mo_rlx (vitem x))
      | F6 e k r x =>
        Some (ret (s_g_xowner (s_xlock st 0) None) t (del_op e k) (del_res e true r),
              sto L_xlock mo_rel (VInt 0) ++ [ERet t (del_res e true r)])
      (* ---------------- try_get_value ---------------- *)
      | G1 k => Some (go (obs st t k) t (G2 k), ld L_db mo_acq V_db)
      | G2 k =>
        let s := bst st in
        Some (go (s_g_rv (obs st t k) (upd (g_rv st) t (g_nver st))) t (if 0 <? bs_item_count s then GK k s 0 else GH k s),
              ld L_state mo_acq (VInt s))
      | GK k s i =>
        let kk := akey st i in
        Some (go (obs st t k) t (if kk =? k then GV k s i else g_next_slot k s i), ld (L_key i) mo_rlx (VInt kk))
      | GV k s i => Some (go (obs st t k) t (GD k s i (aval st i)), ld (L_val i) mo_acq (VInt (aval st i)))
      | GD k s i v => Some (go (obs st t k) t (GS k s i v), ld L_db mo_acq V_db)
      | GS k s i v =>
        let s2 := bst st in
        let e := ld L_state mo_rlx (VInt s2) in
        if negb (bs_version s =? bs_version s2) then Some (go (obs st t k) t (G2 k), e)
        else if bs_delete_marker s2 =? i + 1 then Some (go (obs st t k) t (g_next_slot k s i), e)
        else Some (ret (obs st t k) t (OGet k) [4; 1; v], e ++ [ERet t [4; 1; v]])
      | GH k s =>
        let x := bhead st in
        Some (go (obs st t k) t (if x =? 0 then GE k s else GXK k s x), ld L_head mo_acq (vitem x))
      | GXK k s x =>
        let kk := xkey st x in
        Some (go (obs st t k) t (if kk =? k then GXV k s x else GXN k s x), ld (L_xkey x) mo_rlx (VInt kk))
      | GXV k s x => Some (go (obs st t k) t (GXD k s x (xval st x)), ld (L_xval x) mo_acq (VInt (xval st x)))
      | GXD k s x v => Some (go (obs st t k) t (GXS k s x v), ld L_db mo_acq V_db)
      | GXS k s x v =>
        let s2 := bst st in
        let e := ld L_state mo_rlx (VInt s2) in
        if negb (bs_version s =? bs_version s2) then Some (go (obs st t k) t (G2 k), e)
        else Some (ret (obs st t k) t (OGet k) [4; 1; v], e ++ [ERet t [4; 1; v]])
      | GXN k s x => Some (go (obs st t k) t (GXC k s (xnext st x)), ld (L_xnext x) mo_acq (vitem (xnext st x)))
      | GXC k s x =>
        let s2 := bst st in
        Some (go (obs st t k) t (if negb (bs_version s =? bs_version s2) then G2 k
                                 else if x =? 0 then GE k s else GXK k s x),
              ld L_state mo_rlx (VInt s2))
      | GE k s =>
        let s2 := bst st in
        let e := ld L_state mo_rlx (VInt s2) in
        if negb (bs_version s =? bs_version s2) then Some (go (obs st t k) t (G2 k), e)
        else Some (ret (obs st t k) t (OGet k) [4; 0], e ++ [ERet t [4; 0]])
      (* ================= iterator operations ================= *)
      | SK o w (It s idx x p) =>
        if x =? 0 then Some (go st t (SV o w (It s idx x p) (akey st idx)), ld (L_key idx) mo_rlx (VInt (akey st idx)))
        else Some (go st t (SV o w (It s idx x p) (xkey st x)), ld (L_xkey x) mo_rlx (VInt (xkey st x)))
      | SV o w (It s idx x p) kk =>
        if x =? 0 then Some (reti st t o (show_res w kk (aval st idx)) (It s idx x p),
                             ld (L_val idx) mo_rlx (VInt (aval st idx)) ++ [ERet t (show_res w kk (aval st idx))])
        else Some (reti st t o (show_res w kk (xval st x)) (It s idx x p),
                   ld (L_xval x) mo_rlx (VInt (xval st x)) ++ [ERet t (show_res w kk (xval st x))])
      (* ---------------- find ---------------- *)
      | FL1 k => Some (go st t (FL2 k), ld L_db mo_acq V_db)
      | FL2 k =>
        let s := bst st in
        Some (go st t (if bs_is_locked s then FL1 k else FL3 k s), ld L_state mo_rlx (VInt s))
      | FL3 k s =>
        if bst st =? s then
          Some (go (s_g_owner (s_bst st (bs_locked s)) (Some t)) t (if 0 <? bs_item_count s then FK k s 0 else FH k s),
                [ERmw t L_state mo_acq (VInt s) (VInt (bs_locked s))])
        else Some (go st t (FL1 k), [ECasF t L_state mo_acq mo_rlx (VInt (bst st)) (VInt s)])
      | FK k s i =>
        let kk := akey st i in
        Some (go st t (if kk =? k then SK (OItf k) None (It s i 0 0)
                       else if i + 1 <? bs_item_count s then FK k s (i + 1) else FH k s),
              ld (L_key i) mo_rlx (VInt kk))
      | FH k s =>
        let x := bhead st in
        Some (go st t (if x =? 0 then FU k s else FXK k s 0 x), ld L_head mo_rlx (vitem x))
      | FXK k s p x =>
        let kk := xkey st x in
        Some (go st t (if kk =? k then SK (OItf k) None (It s (bs_item_count s) x p) else FXN k s x), ld (L_xkey x) mo_rlx (VInt kk))
      | FXN k s x =>
        let y := xnext st x in
        Some (go st t (if y =? 0 then FU k s else FXK k s x y), ld (L_xnext x) mo_rlx (vitem y))
      | FU k s =>
        Some (ret (s_g_owner (s_bst st s) None) t (OItf k) [5; 0], sto L_state mo_rel (VInt s) ++ [ERet t [5; 0]])
      (* ---------------- begin ---------------- *)
      | BL1 => Some (go st t BL2, ld L_db mo_acq V_db)
      | BL2 =>
        let s := obst st 0 in
        Some (go st t (if bs_is_locked s then BL1 else BL3 s), ld (L_bst 0) mo_rlx (VInt s))
      | BL3 s =>
        if obst st 0 =? s then
          Some (go (s_g_ob (s_obst st (setf (obst st) 0 (bs_locked s))) (setf (g_ob st) 0 (Some t))) t (MN1 OItb None 0 s),
                [ERmw t (L_bst 0) mo_acq (VInt s) (VInt (bs_locked s))])
        else Some (go st t BL1, [ECasF t (L_bst 0) mo_acq mo_rlx (VInt (obst st 0)) (VInt s)])
      (* ---------------- move_to_next_bucket ---------------- *)
      | MN1 o w b s =>
        let s1 := if b + 1 =? 7 then bst st else obst st (b + 1) in
        Some (go st t (if bs_is_locked s1 then MN1 o w b s else MN2 o w b s s1), ld (L_bst (b + 1)) mo_rlx (VInt s1))
      | MN2 o w b s s1 =>
        let cur := if b + 1 =? 7 then bst st else obst st (b + 1) in
        if cur =? s1 then
          Some (go (if b + 1 =? 7 then s_g_owner (s_bst st (bs_locked s1)) (Some t)
                    else s_g_ob (s_obst st (setf (obst st) (b + 1) (bs_locked s1))) (setf (g_ob st) (b + 1) (Some t))) t (MN3 o w b s s1),
                [ERmw t (L_bst (b + 1)) mo_acq (VInt s1) (VInt (bs_locked s1))])
        else Some (go st t (MN1 o w b s), [ECasF t (L_bst (b + 1)) mo_acq mo_rlx (VInt cur) (VInt s1)])
      | MN3 o w b s s1 =>
        (* unlock bucket b; the new current bucket is b+1 with state s1 *)
        let st1 := if b =? 7 then s_g_owner (s_bst st s) None
                   else s_g_ob (s_obst st (setf (obst st) b s)) (setf (g_ob st) b None) in
        Some (go st1 t (if bs_item_count s1 =? 0 then (if b + 1 =? last_bucket then ME o w else MN1 o w (b + 1) s1)
                        else SK o w (It s1 0 0 0)),
              sto (L_bst b) mo_rel (VInt s))
      | ME o w =>
        Some (ret (s_g_ob (s_obst st (setf (obst st) last_bucket 0)) (setf (g_ob st) last_bucket None)) t o (end_res w),
              sto (L_bst last_bucket) mo_rel (VInt 0) ++ [ERet t (end_res w)])
      (* ---------------- operator++ ---------------- *)
      | N1 o (It s idx x p) =>
        let y := xnext st x in
        Some (go st t (if y =? 0 then MN1 o None 7 s else SK o None (It s idx y x)), ld (L_xnext x) mo_rlx (vitem y))
      | N2 o (It s idx x p) =>
        let y := bhead st in
        Some (go st t (if y =? 0 then MN1 o None 7 s else SK o None (It s idx y 0)), ld L_head mo_rlx (vitem y))
      (* ---------------- erase(iterator) ---------------- *)
      | EK (It s idx x p) =>
        if x =? 0 then Some (go st t (EV (It s idx x p) (akey st idx)), ld (L_key idx) mo_rlx (VInt (akey st idx)))
        else Some (go st t (EV (It s idx x p) (xkey st x)), ld (L_xkey x) mo_rlx (VInt (xkey st x)))
      | EV (It s idx x p) kk =>
        if x =? 0 then Some (go st t (EA0 (It s idx x p) kk (aval st idx)), ld (L_val idx) mo_rlx (VInt (aval st idx)))
        else Some (go st t (EX1 (It s idx x p) kk (xval st x)), ld (L_xval x) mo_rlx (VInt (xval st x)))
      | EX1 (It s idx x p) w v =>
        Some (go st t (EX2 (It s idx x p) w v (xnext st x)), ld (L_xnext x) mo_rlx (vitem (xnext st x)))
      | EX2 (It s idx x p) w v nx =>
        let st1 := if p =? 0 then s_bhead st nx else s_xnext st (setf (xnext st) p nx) in
        Some (go (s_g_limbo (s_g_map (lp (s_g_chain st1 (remx x (g_chain st))) t w) (rem w (g_map st))) x) t (EX3 (It s idx x p) w v nx),
              sto (L_link p) mo_rlx (vitem nx))
      | EX3 (It s idx x p) w v nx =>
        let s' := bs_new_version s in
        Some (go (s_g_limbo (bump (s_bst st (bs_locked s'))) 0) t (IF1 (It s' idx nx p) w x (nx =? 0)),
              sto L_state mo_rel (VInt (bs_locked s')))
      | EA0 (It s idx x p) w v =>
        let h := bhead st in
        Some (go st t (if negb (h =? 0) then EA1 (It s idx x p) w v h
                       else if negb (idx =? bs_item_count s - 1) then EB1 (It s idx x p) w v else EB6 (It s idx x p) w v),
              ld L_head mo_rlx (vitem h))
      | EA1 (It s idx x p) w v h =>
        let wd := bs_set_delete_marker (bs_locked s) (idx + 1) in
        Some (go (s_g_map (lp (s_bst st wd) t w) (rem w (g_map st))) t (EA2 (It s idx x p) w v h), sto L_state mo_rel (VInt wd))
      | EA2 i w v h => Some (go st t (EA3 i w v h (xkey st h)), ld (L_xkey h) mo_rlx (VInt (xkey st h)))
      | EA3 i w v h kk => Some (go st t (EA4 i w v h kk (xval st h)), ld (L_xval h) mo_rlx (VInt (xval st h)))
      | EA4 (It s idx x p) w v h kk vv =>
        Some (go (s_akey st (setf (akey st) idx kk)) t (EA5 (It s idx x p) w v h vv), sto (L_key idx) mo_rlx (VInt kk))
      | EA5 (It s idx x p) w v h vv =>
        Some (go (s_aval st (setf (aval st) idx vv)) t (EA6 (It s idx x p) w v h), sto (L_val idx) mo_rel (VInt vv))
      | EA6 (It s idx x p) w v h =>
        let wd := bs_new_version (bs_locked s) in
        Some (go (s_g_dup (bump (s_bst st wd)) true) t (EA7 (It s idx x p) w v h), sto L_state mo_rel (VInt wd))
      | EA7 i w v h => Some (go st t (EA8 i w v h (xnext st h)), ld (L_xnext h) mo_rlx (vitem (xnext st h)))
      | EA8 i w v h nx =>
        Some (go (s_g_limbo (s_g_dup (s_g_chain (s_bhead st nx) (tl (g_chain st))) false) h) t (EA9 i w v h), sto L_head mo_rel (vitem nx))
      | EA9 (It s idx x p) w v h =>
        let wd := bs_new_version (bs_new_version (bs_locked s)) in
        Some (go (s_g_limbo (bump (s_bst st wd)) 0) t (IF1 (It (bs_new_version (bs_new_version s)) idx x p) w h false),
              sto L_state mo_rel (VInt wd))
      | EB1 (It s idx x p) w v =>
        let wd := bs_set_delete_marker (bs_locked s) (idx + 1) in
        Some (go (s_g_map (lp (s_bst st wd) t w) (rem w (g_map st))) t (EB2 (It s idx x p) w v), sto L_state mo_rel (VInt wd))
      | EB2 (It s idx x p) w v =>
        let j := bs_item_count s - 1 in
        Some (go st t (EB3 (It s idx x p) w v (akey st j)), ld (L_key j) mo_rlx (VInt (akey st j)))
      | EB3 (It s idx x p) w v kk =>
        let j := bs_item_count s - 1 in
        Some (go st t (EB4 (It s idx x p) w v kk (aval st j)), ld (L_val j) mo_rlx (VInt (aval st j)))
      | EB4 (It s idx x p) w v kk vv =>
        Some (go (s_akey st (setf (akey st) idx kk)) t (EB5 (It s idx x p) w v vv), sto (L_key idx) mo_rlx (VInt kk))
      | EB5 (It s idx x p) w v vv =>
        Some (go (s_aval st (setf (aval st) idx vv)) t (EB6 (It s idx x p) w v), sto (L_val idx) mo_rel (VInt vv))
      | EB6 (It s idx x p) w v =>
        let s' := bs_dec_item_count (bs_new_version s) in
        let st1 := bump (s_bst st (bs_locked s')) in
        let st2 := if idx =? bs_item_count s - 1 then s_g_map (lp st1 t w) (rem w (g_map st)) else st1 in
        Some (go st2 t (if idx =? bs_item_count s' then EB7 (It s' idx x p) w else SK OIte (Some w) (It s' idx x p)),
              sto L_state mo_rel (VInt (bs_locked s')))
      | EB7 (It s idx x p) w =>
        let y := bhead st in
        Some (go st t (if y =? 0 then MN1 OIte (Some w) 7 s else SK OIte (Some w) (It s idx y 0)), ld L_head mo_rlx (vitem y))
      (* ---------------- free_extension_item inside erase(iterator) ---------------- *)
      | IF1 i w fx mv =>
        Some (go st t (if xlock st =? 0 then IF2 i w fx mv else IF1 i w fx mv), ld L_xlock mo_rlx (VInt (xlock st)))
      | IF2 i w fx mv =>
        if xlock st =? 0 then
          Some (go (s_g_xowner (s_xlock st 1) (Some t)) t (IF3 i w fx mv), [ERmw t L_xlock mo_acq (VInt 0) (VInt 1)])
        else Some (go st t (IF1 i w fx mv), [ERmw t L_xlock mo_acq (VInt (xlock st)) (VInt 1)])
      | IF3 i w fx mv => Some (go st t (IF4 i w fx mv (xhead st)), ld L_xhead mo_rlx (vitem (xhead st)))
      | IF4 i w fx mv h =>
        Some (go (s_xnext st (setf (xnext st) fx h)) t (IF5 i w fx mv), sto (L_xnext fx) mo_rel (vitem h))
      | IF5 i w fx mv =>
        Some (go (s_g_free (s_xhead st fx) (fx :: g_free st)) t (IF6 i w fx mv), sto L_xhead mo_rlx (vitem fx))
      | IF6 (It s idx x p) w fx mv =>
        Some (go (s_g_xowner (s_xlock st 0) None) t (if mv then MN1 OIte (Some w) 7 s else SK OIte (Some w) (It s idx x p)),
              sto L_xlock mo_rel (VInt 0))
      (* ---------------- reset ---------------- *)
      | R1 (It s idx x p) =>
        Some (ret (s_g_owner (s_bst st s) None) t OItr [7], sto L_state mo_rel (VInt s) ++ [ERet t [7]])
      end
    end.
End Vhm.
