(** Step-level model of the iterator operations of
    xenium::harris_michael_list_based_set<long, reclaimer<GC>>::iterator
    (harris_michael_list_based_set.hpp: begin(), find(key) returning an iterator, operator++, operator*,
    reset(), erase(iterator)), as an EXTENSION of Model/HmlDefs.v.

    Reuse.  The state contains the state of HmlDefs as the component [base]; the operations
    insert / erase(key) / contains of a thread are executed by [HmlDefs.step] itself on [base]
    ([xstep] calls it; nothing of the old model is copied for them).  The iterator operations are new
    program points [ipc].  The internal [find] is needed with three new continuations (return an iterator
    to the caller of find(key), to operator++, to erase(iterator)); the continuation type [fk] of HmlDefs
    is closed, so the six program points of [find] are repeated here as [IF1] .. [IF6] with the
    continuation type [ifk] (same accesses, same events; validated by the trace correspondence).

    Each thread owns one iterator variable (as harness/h_hm.cpp: [its[tid]]), initially [end()]:
    [it_cur t] = info.cur (0 = null, i.e. the iterator equals end()), [it_sv t] = info.save (0 stands for
    info.prev = &head, otherwise info.prev = &it_sv->next), as for [find] in HmlDefs.

    Reclaimer (GC instance, harness/gc_reclaimer.hpp): a guard acquisition is ONE atomic load, [reclaim]
    only records the node ([g_retired]), retired nodes are never freed or reused while the container
    lives.  This is what C01 provides to the container as long as a guard is held on the node; the model
    therefore may read [nnext]/[nmark]/[nkey] of every node it holds in a local variable.

    One [XStep] = one atomic access; an operation without any atomic access (operator*, reset, ++ or
    erase on end()) is one step (invocation and response are printed together).

    Ghosts (per thread, for the traversal = from [itb]/[itf] until end()/[itr]):
    [g_yield t]   the positions the iterator took in the current traversal, oldest first: key, node,
                  [y_wit] = the key was in [g_abs] at an instant of the traversal not later than the
                  yield (the instant of the load that moved the iterator there), [y_reach] = the node
                  was reachable from head at that instant, [y_lin] = length of [g_lin] at the yield
                  (index of the yield in the linearization order);
    [g_lo t]      [None]: traversal started with begin(); [Some k]: with find(k);
    [g_trav t]    a traversal was started (by begin() or a successful find) and not abandoned by reset();
    [g_start t]   [g_abs] at the first step of the traversal;
    [g_always t]  the keys that were in [g_abs] in every state since the first step of the traversal
                  ([refresh] intersects it with [g_abs] after every step of any thread). *)
From Coq Require Import NArith List Bool.
From XV Require Import Base.Word Conc.Lts Conc.Ev Model.HmlDefs.
Import ListNotations.
Local Open Scope N_scope.

Inductive iop :=
| OBase (o : op)          (* ins k | del k | has k : executed by HmlDefs.step *)
| OItB                    (* it = begin() *)
| OItF (k : N)            (* it = find(k) *)
| OItN                    (* ++it (nothing if it == end()) *)
| OItD                    (* *it *)
| OItE                    (* it = erase(move(it)) (nothing if it == end()) *)
| OItR.                   (* it.reset() *)

(** what the internal [find] was called for: [KItF] by find(key); [KItN o] by operator++ that saw its
    node [o] marked; [KItE o] by erase(iterator) after the failed unlink CAS of its node [o] *)
Inductive ifk := KItF | KItN (o : N) | KItE (o : N).

Inductive ipc :=
| IIdle
| IBegin (o : iop)
| B1                                          (* (2) info.cur.acquire(head, acq) *)
(* find(key, info, backoff): as F1 .. F6 of HmlDefs; [w] = cur was seen unmarked by IF3 *)
| IF1 (c : ifk) (key start : N)
| IF2 (c : ifk) (key start sv nx : N)
| IF3 (c : ifk) (key start sv cur : N)
| IF4 (c : ifk) (key start sv cur : N)
| IF5 (c : ifk) (key start sv cur nx : N)
| IF6 (c : ifk) (key start sv cur nx : N) (w : bool)
(* operator++ *)
| N1                                          (* next = info.cur->next.load(rlx) *)
| N2 (nx : N)                                 (* (1) tmp_guard.acquire_if_equal(info.cur->next, next, acq) *)
(* erase(iterator) *)
| X1                                          (* (11) next = pos.info.cur->next.load(acq) *)
| X2 (nx : N)                                 (* (12) CAS cur->next: next -> (next, mark) acq/acq *)
| X3 (nx : N).                                (* (13) CAS prev: cur -> next rel/rlx; reclaim cur *)

(** nodes reachable from head (without the sentinel), computed by following the next pointers *)
Fixpoint xwalk (nx : N -> N) (fuel : nat) (a : N) : list N :=
  match fuel with
  | O => []
  | S f => if nx a =? 0 then [] else nx a :: xwalk nx f (nx a)
  end.
Definition reachable (b : state) (x : N) : bool := memb x (xwalk (nnext b) (N.to_nat (nalloc b)) 0).

Record yrec := mkY { y_key : N; y_node : N; y_wit : bool; y_reach : bool; y_lin : nat }.

Record xstate := mkX {
  base : state;
  ith : nat -> ipc;
  it_sv : nat -> N; it_cur : nat -> N;
  g_yield : nat -> list yrec;
  g_lo : nat -> option N;
  g_trav : nat -> bool;
  g_start : nat -> list N;
  g_always : nat -> list N }.

Inductive xaction := XStart (t : nat) (o : iop) | XStep (t : nat).

Definition xinit : xstate :=
  mkX init (fun _ => IIdle) (fun _ => 0) (fun _ => 0) (fun _ => []) (fun _ => None) (fun _ => false)
      (fun _ => []) (fun _ => []).

(** operation codes of [EStart]: 0 ins, 1 del, 2 has (HmlDefs), 3 itb, 4 itf, 5 itn, 6 itd, 7 ite, 8 itr.
    results [ERet t (code :: r)]: position [0] = end, [1; k] = key k; ite: [0] = end (nothing erased),
    [1; was; 0] = "was>end", [1; was; 1; k] = "was>k"; itr: [] = ok *)
Definition pos_res (b : state) (cur : N) : list N := if cur =? 0 then [0] else [1; nkey b cur].

(** the iterator moved to [cur]: a new position of the traversal unless [cur] is null *)
Definition push_y (b : state) (ys : list yrec) (cur : N) (w : bool) : list yrec :=
  if cur =? 0 then ys else ys ++ [mkY (nkey b cur) cur w (reachable b cur) (length (g_lin b))].

Definition set_base (st : xstate) (b : state) : xstate :=
  mkX b (ith st) (it_sv st) (it_cur st) (g_yield st) (g_lo st) (g_trav st) (g_start st) (g_always st).
Definition set_ipc (st : xstate) (t : nat) (p : ipc) : xstate :=
  mkX (base st) (upd (ith st) t p) (it_sv st) (it_cur st) (g_yield st) (g_lo st) (g_trav st) (g_start st) (g_always st).
(** the operation returns with the iterator at (sv, cur) *)
Definition move_it (st : xstate) (b : state) (t : nat) (sv cur : N) (w : bool) : xstate :=
  mkX b (upd (ith st) t IIdle) (upd (it_sv st) t sv) (upd (it_cur st) t cur)
      (upd (g_yield st) t (push_y b (g_yield st t) cur w)) (g_lo st) (g_trav st) (g_start st) (g_always st).
(** first step of [itb] / [itf]: the iterator variable is overwritten by the result of the call (we
    forget its old value at once: it is not used any more), a new traversal starts *)
Definition start_trav (st : xstate) (t : nat) (p : ipc) (lo : option N) : xstate :=
  mkX (base st) (upd (ith st) t p) (upd (it_sv st) t 0) (upd (it_cur st) t 0)
      (upd (g_yield st) t []) (upd (g_lo st) t lo) (upd (g_trav st) t true)
      (upd (g_start st) t (g_abs (base st))) (upd (g_always st) t (g_abs (base st))).
(** the iterator becomes end() and no traversal is in progress (reset(), failed find) *)
Definition end_trav (st : xstate) (t : nat) : xstate :=
  mkX (base st) (upd (ith st) t IIdle) (upd (it_sv st) t 0) (upd (it_cur st) t 0)
      (g_yield st) (g_lo st) (upd (g_trav st) t false) (g_start st) (g_always st).

(** base state after the successful mark CAS of erase(iterator) on node [cur] by thread [t] *)
Definition mark_st (b : state) (t : nat) (cur : N) : state :=
  mkSt (nkey b) (nnext b) (setf (nmark b) cur true) (nalloc b) (th b)
       (remk (nkey b cur) (g_abs b)) (g_lin b ++ [LDel t (nkey b cur) cur]) (g_lp b) (g_hist b) (g_retired b).

(** return of the internal find with info = (sv, cur) *)
Definition ifind_ret (st : xstate) (t : nat) (c : ifk) (sv cur : N) (found w : bool) (e : list ev)
  : option (xstate * list ev) :=
  let b := base st in
  match c with
  | KItF =>
    if found then Some (move_it st b t sv cur w, e ++ [ERet t (4 :: pos_res b cur)])
    else Some (end_trav st t, e ++ [ERet t [4; 0]])
  | KItN o => Some (move_it st b t sv cur w, e ++ [ERet t (5 :: pos_res b cur)])
  | KItE o => Some (move_it st b t sv cur w, e ++ [ERet t (7 :: 1 :: nkey b o :: pos_res b cur)])
  end.

Definition lift (st : xstate) (r : option (state * list ev)) : option (xstate * list ev) :=
  match r with Some (b', e) => Some (set_base st b', e) | None => None end.

(** the step function before the refresh of [g_always] *)
Definition xstep0 (st : xstate) (a : xaction) : option (xstate * list ev) :=
  let b := base st in
  match a with
  | XStart t (OBase o) =>
    match ith st t with
    | IIdle => lift st (step b (Start t o))
    | _ => None
    end
  | XStart t o =>
    match ith st t, th b t with
    | IIdle, Idle => Some (set_ipc st t (IBegin o), [])
    | _, _ => None
    end
  | XStep t =>
    let sv := it_sv st t in
    let cur := it_cur st t in
    let go (p : ipc) (e : list ev) := Some (set_ipc st t p, e) in
    match ith st t with
    | IIdle => lift st (step b (Step t))
    | IBegin (OBase _) => None
    | IBegin OItB => Some (start_trav st t B1 None, [EStart t 3 []])
    | IBegin (OItF k) => Some (start_trav st t (IF1 KItF k 0) (Some k), [EStart t 4 [k]])
    | IBegin OItN =>
      if cur =? 0 then go IIdle [EStart t 5 []; ERet t [5; 0]] else go N1 [EStart t 5 []]
    | IBegin OItD => go IIdle [EStart t 6 []; ERet t (6 :: pos_res b cur)]
    | IBegin OItE =>
      if cur =? 0 then go IIdle [EStart t 7 []; ERet t [7; 0]] else go X1 [EStart t 7 []]
    | IBegin OItR => Some (end_trav st t, [EStart t 8 []; ERet t [8]])
    (* ---- begin() ---- *)
    | B1 =>
      let x := nnext b 0 in
      Some (move_it st b t 0 x (memb (nkey b x) (g_abs b)),
            [ELoad t (L_next 0) mo_acq (vnext b 0); ERet t (3 :: pos_res b x)])
    (* ---- find ---- *)
    | IF1 c key start =>
      let e := [ELoad t (L_next start) mo_rlx (vnext b start)] in
      if nmark b start then go (IF1 c key 0) e
      else go (IF2 c key start start (nnext b start)) e
    | IF2 c key start sv nx =>
      let e := [ELoad t (L_next sv) mo_acq (vnext b sv)] in
      if negb ((nnext b sv =? nx) && negb (nmark b sv)) then go (IF1 c key start) e
      else if nx =? 0 then ifind_ret st t c sv 0 false false e
      else go (IF3 c key start sv nx) e
    | IF3 c key start sv cur =>
      let e := [ELoad t (L_next cur) mo_rlx (vnext b cur)] in
      if nmark b cur then go (IF4 c key start sv cur) e
      else go (IF6 c key start sv cur (nnext b cur) (memb (nkey b cur) (g_abs b))) e
    | IF4 c key start sv cur =>
      go (IF5 c key start sv cur (nnext b cur)) [ELoad t (L_next cur) mo_acq (vnext b cur)]
    | IF5 c key start sv cur nx =>
      if (nnext b sv =? cur) && negb (nmark b sv) then
        Some (set_ipc (set_base st (unlink_st b sv cur nx)) t (IF2 c key start sv nx),
              [ERmw t (L_next sv) mo_rel (vmp cur false) (vmp nx false); ENote t 120 [cur]])
      else go (IF1 c key start) [ECasF t (L_next sv) mo_rel mo_rlx (vnext b sv) (vmp cur false)]
    | IF6 c key start sv cur nx w =>
      let e := [ELoad t (L_next sv) mo_rlx (vnext b sv)] in
      if negb ((nnext b sv =? cur) && negb (nmark b sv)) then go (IF1 c key start) e
      else if nkey b cur <? key then go (IF2 c key start cur nx) e
      else ifind_ret st t c sv cur (nkey b cur =? key) w e
    (* ---- operator++ ---- *)
    | N1 =>
      let e := [ELoad t (L_next cur) mo_rlx (vnext b cur)] in
      if nmark b cur then go (IF1 (KItN cur) (nkey b cur) sv) e
      else go (N2 (nnext b cur)) e
    | N2 nx =>
      let e := [ELoad t (L_next cur) mo_acq (vnext b cur)] in
      if (nnext b cur =? nx) && negb (nmark b cur) then
        Some (move_it st b t cur nx (memb (nkey b nx) (g_abs b)), e ++ [ERet t (5 :: pos_res b nx)])
      else go N1 e
    (* ---- erase(iterator) ---- *)
    | X1 =>
      let e := [ELoad t (L_next cur) mo_acq (vnext b cur)] in
      if nmark b cur then go (X3 (nnext b cur)) e else go (X2 (nnext b cur)) e
    | X2 nx =>
      if (nnext b cur =? nx) && negb (nmark b cur) then
        Some (set_ipc (set_base st (mark_st b t cur)) t (X3 nx),
              [ERmw t (L_next cur) mo_acq (vmp nx false) (vmp nx true)])
      else
        let e := [ECasF t (L_next cur) mo_acq mo_acq (vnext b cur) (vmp nx false)] in
        if nmark b cur then go (X3 (nnext b cur)) e else go (X2 (nnext b cur)) e
    | X3 nx =>
      if (nnext b sv =? cur) && negb (nmark b sv) then
        let b' := unlink_st b sv cur nx in
        Some (move_it st b' t sv nx (memb (nkey b nx) (g_abs b)),
              [ERmw t (L_next sv) mo_rel (vmp cur false) (vmp nx false); ENote t 120 [cur];
               ERet t (7 :: 1 :: nkey b cur :: pos_res b nx)])
      else go (IF1 (KItE cur) (nkey b cur) sv) [ECasF t (L_next sv) mo_rel mo_rlx (vnext b sv) (vmp cur false)]
    end
  end.

(** after every step: [g_always u] keeps the keys that are still in the abstract set *)
Definition refresh (st : xstate) : xstate :=
  mkX (base st) (ith st) (it_sv st) (it_cur st) (g_yield st) (g_lo st) (g_trav st) (g_start st)
      (fun u => filter (fun k => memb k (g_abs (base st))) (g_always st u)).

Definition xstep (st : xstate) (a : xaction) : option (xstate * list ev) :=
  match xstep0 st a with
  | Some (st', e) => Some (refresh st', e)
  | None => None
  end.
