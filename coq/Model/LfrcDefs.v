(** Step-level model of xenium::reclamation::lock_free_ref_count<> (no padding, thread_local_free_list_size = 0;
    harness/recl_types.hpp: LFRC; xenium/reclamation/lock_free_ref_count.hpp, impl/lock_free_ref_count.hpp), driven by
    the generic protocol-conforming client of harness/h_recl.cpp built with XV_DEFAULT_DELETER (build/h_recl_lfrc, and
    build/h_lfrc = the same client with the head of the global free list named).

    Every node is a heap block of 40 bytes: header { ref_count +0 (unsigned), destroyed +4 (bool), next_free +8 } and the
    object at +16 (a pointer to node n prints as &hn+16).  ref_count = 2 * (number of references) + claim bit.  Node
    memory is never returned to the allocator: a node whose count drops to zero is claimed (claim bit), its object is
    destroyed and the node is pushed to the global free list; [operator new] pops from the free list before it asks the
    heap.  Hence there is no FREE event at all, and an ALLOC event only when the free list was seen empty.

    Client operations (c = cell = a concurrent_ptr of the client, g = index of a persistent guard_ptr of the thread):
      repl c    tmp.acquire(cell[c]); n = new Node; if CAS(cell[c], tmp, n) tmp.reclaim() else delete n
      clear c   the same with n = nullptr
      read c    tmp.acquire(cell[c]); dereference; tmp.reset()
      hold c g  guards[g].acquire(cell[c]); dereference        (stays protected across operations)
      deref g   dereference guards[g]
      drop g    guards[g].reset()
      exit      the thread ends: its persistent guards are reset (harness thread_end).  The exit has no START event:
                [Start t OExit] moves the thread to the first atomic access of the exit sequence (the thread takes no
                step at all when it holds no guard; LFRC has no thread-local state to hand over).

    guard_ptr::acquire(p, order):         reset()                                          (D1 .. when the guard is not empty)
                                      A1  q = p.load(acquire); this->ptr = q; nullptr -> return
                                      A2  q->ref_count.fetch_add(2, acquire)
                                      A3  q == p.load(order) -> return; else loop: reset() (D1 ..), A1
                                          (order = acquire everywhere in the harness and in free_list::pop)
    guard_ptr::reset():                   p = ptr; ptr = nullptr; p == nullptr -> return
      decrement_refcnt():             D1  old = ref_count.load(relaxed); new = old - 2; new == 0 -> new = 1 (claim bit)
                                      D2  ref_count.CAS_weak(old -> new, new == 1 ? acq_rel : release, relaxed); failure: D1
                                          returns ((old - new) & 1) != 0        (= the count went to zero and we claimed the node)
      claimed:                        D3  is_destroyed(): destroyed.load(relaxed)
                                      D4  ~T(): destroyed.store(true, relaxed)               (only if D3 read false)
      free_list::push = add_nodes:    U1  old = head.load(acquire)
                                      U2  node->next_free.store(old, relaxed)
                                      U3  head.CAS_weak(old -> node, release, acquire); failure: old = seen value, U2
    guard_ptr::reclaim():             R2  ref_count.fetch_sub(2, release); reset() (D1 ..)
    operator new = free_list::pop():      guard = acquire_guard(head, acquire)   (A1 A2 A3 on free_head with a fresh guard,
                                          then the move assignment resets the old value of [guard]: D1 ..)
                                          nullptr -> ::operator new (ALLOC, in the same step),
                                      N2  h->ref_count.store(2, release)
                                      P4  next = guard->next_free.load(relaxed)
                                      P5  head.CAS_weak(guard -> next, relaxed); failure: loop (A1 ..)
                                      P6  ref_count.fetch_sub(1, relaxed)                     (clear the claim bit)
                                      P7  next_free.store(nullptr, relaxed); guard.ptr.reset() (the guard's reference
                                          becomes the reference the new object starts with)
    Node constructor:                 N3  destroyed.store(false, relaxed); then id and canary are written (the harness takes
                                          the id - the constructor's argument g_next_id++ - when operator new has
                                          returned, i.e. in the step N2 / P7)
    client:                           R1  cell.CAS_strong(tmp -> n, acq_rel, relaxed)
    delete n (lost CAS):              X1  ~Node: destroyed.store(true, relaxed); operator delete: decrement_refcnt (D1 D2),
                                          claimed -> push (U1 ..; no is_destroyed check)

    [acquire_guard]'s local guard and [guard] of pop are two guard objects; which of them holds which reference is not
    observable, so the model lets the two temporary guards nslots+1 / nslots+2 alternate: the guard being acquired is
    [g], the previous value of [guard] sits in [other g] until it is released.  Guard nslots is the temporary guard of
    repl / clear / read.  A guard keeps its (counted) value in the model until the CAS of its decrement succeeded (the
    real field this->ptr is cleared at the start of reset(), which nobody can observe).

    One [Step] = one atomic access, emitting exactly the event rt/xvrt prints.  ::operator new is not a scheduling
    point and belongs to the step of the preceding atomic access.  Heap blocks are numbered in allocation order (block i
    = "h<i>"; the cells' initial nodes are blocks 0..ncells-1).  compare_exchange_weak never fails spuriously under
    xvrt.  ref_count is a 32 bit unsigned in the code and a [nat] here: the subtractions never underflow
    ([lfrc_no_underflow] in Proof/LfrcInv.v), the counter overflows in the code after 2^31 simultaneous references.

    Ghosts: [g_ns n] the life cycle of node n (not allocated / from the heap, count not yet initialised / count
    initialised or claim bit cleared, object not yet constructed / constructed by t, not yet published / published (or already
    unlinked) / destroyed by its creator after a lost CAS / claimed by t = on its way to the free list / on the free list
    / popped by t, claim bit still set); [g_inc n] the incarnation counter (number of constructor runs), [g_nd n] number
    of destructor runs, [g_npush n] / [g_npop n] number of pushes to / pops from the free list; [g_alive n] the current
    incarnation's object is constructed and not destroyed; [g_refs n] who holds the counted references on n (a cell, a
    guard of a thread - validated [GV] or between its fetch_add and the re-check [GU] -, the owner = the thread that
    holds the reference a new object starts with: the creator before publication, the unlinking thread until reclaim's
    fetch_sub); [g_fl] the free list (head first); [g_uaf] a dereference hit a destroyed object. *)
From Coq Require Import NArith List Bool Arith.
From XV Require Import Conc.Lts Conc.Ev.
Import ListNotations.

Inductive op :=
| ORepl (c : nat) | OClear (c : nat) | ORead (c : nat) | OHold (c g : nat) | ODrop (g : nat) | ODeref (g : nat) | OExit.

(** what an acquire belongs to: repl/clear ([fresh] = a new node is installed), read, hold, free_list::pop inside repl c
    (with the temporary guard g) *)
Inductive ctx := KRepl (c : nat) (fresh : bool) | KRead (c : nat) | KHold (c g : nat) | KPop (c g : nat).

(** whose reference a decrement releases: guard g / the owner's *)
Inductive who := WG (g : nat) | WOwn.

(** what follows a release: (re)start acquire / the operation returns r / pop's [guard] takes the acquired value /
    the lost repl releases its temporary guard / thread exit continues behind guard g *)
Inductive rk := RAcq (k : ctx) | RFin (r : list N) | RMove (c g : nat) | RLost | RExit (g : nat).

Inductive pc :=
| Idle | Done
| Begin (o : op)
| A1 (k : ctx) | A2 (k : ctx) (p : nat) | A3 (k : ctx) (p : nat)
| D1 (w : who) (n : nat) (k : rk) | D2 (w : who) (n : nat) (old : nat) (k : rk)
| D3 (n : nat) (k : rk) | D4 (n : nat) (k : rk)
| U1 (n : nat) (k : rk) | U2 (n : nat) (h : option nat) (k : rk) | U3 (n : nat) (h : option nat) (k : rk)
| P4 (c g p : nat) | P5 (c g p : nat) (nx : option nat) | P6 (c g p : nat) | P7 (c g p : nat)
| N2 (c n : nat) | N3 (c n i : nat)
| R1 (c : nat) (n : option nat) | R2 (o : nat)
| X1 (n : nat).

Inductive nstate := NNone | NNew (t : nat) | NCons (t : nat) | NFresh (t : nat) | NPub | NDel | NClaimed (t : nat) | NFree | NPop (t : nat).

Inductive ref := RCell (c : nat) | RG (t g : nat) | ROwn (t : nat).

(** guard_ptr: empty / holds p, counted, not (yet) validated / holds p, validated *)
Inductive guard := GE | GU (p : nat) | GV (p : nat).

Record tls := mkTl { gd : nat -> guard }.
Definition tl0 : tls := mkTl (fun _ => GE).

Record state := mkSt {
  cells : nat -> option nat;       (* the client's concurrent_ptrs *)
  fhead : option nat;              (* global_free_list.head *)
  rc : nat -> nat;                 (* header::ref_count *)
  dst : nat -> bool;               (* header::destroyed *)
  nxt : nat -> option nat;         (* header::next_free *)
  nalloc : nat;                    (* number of heap blocks allocated so far *)
  nextid : nat; nid : nat -> nat;  (* the harness' object ids (what a dereference returns) *)
  th : nat -> pc; tl : nat -> tls;
  g_ns : nat -> nstate; g_inc : nat -> nat; g_nd : nat -> nat; g_npush : nat -> nat; g_npop : nat -> nat;
  g_alive : nat -> bool; g_refs : nat -> list ref; g_fl : list nat; g_uaf : bool }.

Inductive action := Start (t : nat) (o : op) | Step (t : nat).

(** ** setters *)
Definition w_cells v (st : state) : state := mkSt v (fhead st) (rc st) (dst st) (nxt st) (nalloc st) (nextid st) (nid st) (th st) (tl st) (g_ns st) (g_inc st) (g_nd st) (g_npush st) (g_npop st) (g_alive st) (g_refs st) (g_fl st) (g_uaf st).
Definition w_fhead v (st : state) : state := mkSt (cells st) v (rc st) (dst st) (nxt st) (nalloc st) (nextid st) (nid st) (th st) (tl st) (g_ns st) (g_inc st) (g_nd st) (g_npush st) (g_npop st) (g_alive st) (g_refs st) (g_fl st) (g_uaf st).
Definition w_rc v (st : state) : state := mkSt (cells st) (fhead st) v (dst st) (nxt st) (nalloc st) (nextid st) (nid st) (th st) (tl st) (g_ns st) (g_inc st) (g_nd st) (g_npush st) (g_npop st) (g_alive st) (g_refs st) (g_fl st) (g_uaf st).
Definition w_dst v (st : state) : state := mkSt (cells st) (fhead st) (rc st) v (nxt st) (nalloc st) (nextid st) (nid st) (th st) (tl st) (g_ns st) (g_inc st) (g_nd st) (g_npush st) (g_npop st) (g_alive st) (g_refs st) (g_fl st) (g_uaf st).
Definition w_nxt v (st : state) : state := mkSt (cells st) (fhead st) (rc st) (dst st) v (nalloc st) (nextid st) (nid st) (th st) (tl st) (g_ns st) (g_inc st) (g_nd st) (g_npush st) (g_npop st) (g_alive st) (g_refs st) (g_fl st) (g_uaf st).
Definition w_nalloc v (st : state) : state := mkSt (cells st) (fhead st) (rc st) (dst st) (nxt st) v (nextid st) (nid st) (th st) (tl st) (g_ns st) (g_inc st) (g_nd st) (g_npush st) (g_npop st) (g_alive st) (g_refs st) (g_fl st) (g_uaf st).
Definition w_nextid v (st : state) : state := mkSt (cells st) (fhead st) (rc st) (dst st) (nxt st) (nalloc st) v (nid st) (th st) (tl st) (g_ns st) (g_inc st) (g_nd st) (g_npush st) (g_npop st) (g_alive st) (g_refs st) (g_fl st) (g_uaf st).
Definition w_nid v (st : state) : state := mkSt (cells st) (fhead st) (rc st) (dst st) (nxt st) (nalloc st) (nextid st) v (th st) (tl st) (g_ns st) (g_inc st) (g_nd st) (g_npush st) (g_npop st) (g_alive st) (g_refs st) (g_fl st) (g_uaf st).
Definition w_th v (st : state) : state := mkSt (cells st) (fhead st) (rc st) (dst st) (nxt st) (nalloc st) (nextid st) (nid st) v (tl st) (g_ns st) (g_inc st) (g_nd st) (g_npush st) (g_npop st) (g_alive st) (g_refs st) (g_fl st) (g_uaf st).
Definition w_tl v (st : state) : state := mkSt (cells st) (fhead st) (rc st) (dst st) (nxt st) (nalloc st) (nextid st) (nid st) (th st) v (g_ns st) (g_inc st) (g_nd st) (g_npush st) (g_npop st) (g_alive st) (g_refs st) (g_fl st) (g_uaf st).
Definition w_g_ns v (st : state) : state := mkSt (cells st) (fhead st) (rc st) (dst st) (nxt st) (nalloc st) (nextid st) (nid st) (th st) (tl st) v (g_inc st) (g_nd st) (g_npush st) (g_npop st) (g_alive st) (g_refs st) (g_fl st) (g_uaf st).
Definition w_g_inc v (st : state) : state := mkSt (cells st) (fhead st) (rc st) (dst st) (nxt st) (nalloc st) (nextid st) (nid st) (th st) (tl st) (g_ns st) v (g_nd st) (g_npush st) (g_npop st) (g_alive st) (g_refs st) (g_fl st) (g_uaf st).
Definition w_g_nd v (st : state) : state := mkSt (cells st) (fhead st) (rc st) (dst st) (nxt st) (nalloc st) (nextid st) (nid st) (th st) (tl st) (g_ns st) (g_inc st) v (g_npush st) (g_npop st) (g_alive st) (g_refs st) (g_fl st) (g_uaf st).
Definition w_g_npush v (st : state) : state := mkSt (cells st) (fhead st) (rc st) (dst st) (nxt st) (nalloc st) (nextid st) (nid st) (th st) (tl st) (g_ns st) (g_inc st) (g_nd st) v (g_npop st) (g_alive st) (g_refs st) (g_fl st) (g_uaf st).
Definition w_g_npop v (st : state) : state := mkSt (cells st) (fhead st) (rc st) (dst st) (nxt st) (nalloc st) (nextid st) (nid st) (th st) (tl st) (g_ns st) (g_inc st) (g_nd st) (g_npush st) v (g_alive st) (g_refs st) (g_fl st) (g_uaf st).
Definition w_g_alive v (st : state) : state := mkSt (cells st) (fhead st) (rc st) (dst st) (nxt st) (nalloc st) (nextid st) (nid st) (th st) (tl st) (g_ns st) (g_inc st) (g_nd st) (g_npush st) (g_npop st) v (g_refs st) (g_fl st) (g_uaf st).
Definition w_g_refs v (st : state) : state := mkSt (cells st) (fhead st) (rc st) (dst st) (nxt st) (nalloc st) (nextid st) (nid st) (th st) (tl st) (g_ns st) (g_inc st) (g_nd st) (g_npush st) (g_npop st) (g_alive st) v (g_fl st) (g_uaf st).
Definition w_g_fl v (st : state) : state := mkSt (cells st) (fhead st) (rc st) (dst st) (nxt st) (nalloc st) (nextid st) (nid st) (th st) (tl st) (g_ns st) (g_inc st) (g_nd st) (g_npush st) (g_npop st) (g_alive st) (g_refs st) v (g_uaf st).
Definition w_g_uaf v (st : state) : state := mkSt (cells st) (fhead st) (rc st) (dst st) (nxt st) (nalloc st) (nextid st) (nid st) (th st) (tl st) (g_ns st) (g_inc st) (g_nd st) (g_npush st) (g_npop st) (g_alive st) (g_refs st) (g_fl st) v.

Definition set_pc (t : nat) (p : pc) (st : state) : state := w_th (upd (th st) t p) st.
Definition set_gd (t g : nat) (v : guard) (st : state) : state :=
  w_tl (upd (tl st) t (mkTl (upd (gd (tl st t)) g v))) st.

(** ** locations and values *)
Definition L_fhead := LNamed 0 0.
Definition L_cell (c : nat) := LNamed (N.of_nat (10 + c)) 0.
Definition L_rc (n : nat) := LHeap (N.of_nat n) 0.
Definition L_dst (n : nat) := LHeap (N.of_nat n) 4.
Definition L_nxt (n : nat) := LHeap (N.of_nat n) 8.
Definition node_size : N := 40.
Definition vptr (p : option nat) : val := match p with None => VInt 0 | Some n => VPtr (LHeap (N.of_nat n) 16) 0 end.
Definition vnat (n : nat) : val := VInt (N.of_nat n).
Definition vbool (b : bool) : val := VInt (if b then 1 else 0).

Definition oeqb (a b : option nat) : bool :=
  match a, b with None, None => true | Some x, Some y => x =? y | _, _ => false end.

Definition ref_eqb (a b : ref) : bool :=
  match a, b with
  | RCell c, RCell c' => c =? c'
  | RG t g, RG t' g' => (t =? t') && (g =? g')
  | ROwn t, ROwn t' => t =? t'
  | _, _ => false
  end.

(** results: ok / lost / null / the id of the dereferenced object *)
Definition r_ok : list N := [0%N].
Definition r_lost : list N := [1%N].
Definition r_null : list N := [2%N].
Definition r_id (i : nat) : list N := [3%N; N.of_nat i].

Definition opcode (o : op) : N * list N :=
  match o with
  | ORepl c => (0%N, [N.of_nat c]) | OClear c => (1%N, [N.of_nat c]) | ORead c => (2%N, [N.of_nat c])
  | OHold c g => (3%N, [N.of_nat c; N.of_nat g]) | ODrop g => (4%N, [N.of_nat g]) | ODeref g => (5%N, [N.of_nat g])
  | OExit => (6%N, [])
  end.

(** the guard an acquire works on, the pointer it reads *)
Definition guard_of (nslots : nat) (k : ctx) : nat :=
  match k with KHold _ g => g | KPop _ g => g | _ => nslots end.
Definition src (st : state) (k : ctx) : option nat :=
  match k with KRepl c _ | KRead c | KHold c _ => cells st c | KPop _ _ => fhead st end.
Definition src_loc (k : ctx) : loc :=
  match k with KRepl c _ | KRead c | KHold c _ => L_cell c | KPop _ _ => L_fhead end.
(** the two temporary guards of free_list::pop *)
Definition other (nslots g : nat) : nat := if g =? S nslots then S (S nslots) else S nslots.

Definition gnode (g : guard) : option nat := match g with GE => None | GU p | GV p => Some p end.

(** the reference a decrement releases *)
Definition who_ref (t : nat) (w : who) : ref := match w with WG g => RG t g | WOwn => ROwn t end.

Definition add_ref (n : nat) (r : ref) (st : state) : state := w_g_refs (upd (g_refs st) n (r :: g_refs st n)) st.
Definition del_ref (n : nat) (r : ref) (st : state) : state :=
  w_g_refs (upd (g_refs st) n (filter (fun x => negb (ref_eqb x r)) (g_refs st n))) st.
Definition rep_ref (n : nat) (r r' : ref) (st : state) : state :=
  w_g_refs (upd (g_refs st) n (map (fun x => if ref_eqb x r then r' else x) (g_refs st n))) st.

Definition init (ncells : nat) : state :=
  mkSt (fun c => if c <? ncells then Some c else None) None
       (fun n => if n <? ncells then 2 else 0) (fun _ => false) (fun _ => None)
       ncells (S ncells) (fun n => S n)
       (fun _ => Idle) (fun _ => tl0)
       (fun n => if n <? ncells then NPub else NNone) (fun n => if n <? ncells then 1 else 0) (fun _ => 0) (fun _ => 0) (fun _ => 0)
       (fun n => n <? ncells) (fun n => if n <? ncells then [RCell n] else []) [] false.

(** dereference of the object of node n *)
Definition deref (n : nat) (st : state) : state := w_g_uaf (g_uaf st || negb (g_alive st n)) st.
Definition deref_g (g : guard) (st : state) : state := match gnode g with Some n => deref n st | None => st end.
Definition deref_res (st : state) (g : guard) : list N :=
  match gnode g with Some n => r_id (nid st n) | None => r_null end.

(** the destructor of the object of node n runs *)
Definition destroy (n : nat) (st : state) : state :=
  w_dst (upd (dst st) n true) (w_g_alive (upd (g_alive st) n false) (w_g_nd (upd (g_nd st) n (S (g_nd st n))) st)).

Definition finish (st : state) (t : nat) (r : list N) (e : list ev) : option (state * list ev) :=
  Some (set_pc t Idle st, e ++ [ERet t r]).

(** the first non-empty guard among g, g+1, .., g+fuel-1 *)
Fixpoint first_held (gs : nat -> guard) (g fuel : nat) : option (nat * nat) :=
  match fuel with
  | O => None
  | S f => match gnode (gs g) with Some p => Some (g, p) | None => first_held gs (S g) f end
  end.

(** thread_end: reset the next non-empty persistent guard *)
Definition exit_next (st : state) (t : nat) (g fuel : nat) (e : list ev) : option (state * list ev) :=
  match first_held (gd (tl st t)) g fuel with
  | Some (g', p) => Some (set_pc t (D1 (WG g') p (RExit g')) st, e)
  | None => Some (set_pc t Done st, e)
  end.

(** pop: [guard] = guard g now; nullptr -> the node comes from the heap *)
Definition pop_moved (st : state) (t : nat) (c g : nat) (e : list ev) : option (state * list ev) :=
  match gnode (gd (tl st t) g) with
  | None =>
    let n := nalloc st in
    Some (set_pc t (N2 c n) (w_nalloc (S n) (w_g_ns (upd (g_ns st) n (NNew t)) st)), e ++ [EAlloc t (N.of_nat n) node_size])
  | Some p => Some (set_pc t (P4 c g p) st, e)
  end.

(** a release is complete (or the guard was empty) *)
Definition rk_go (nslots : nat) (st : state) (t : nat) (k : rk) (e : list ev) : option (state * list ev) :=
  match k with
  | RAcq k' => Some (set_pc t (A1 k') st, e)
  | RFin r => finish st t r e
  | RMove c g => pop_moved st t c g e
  | RLost =>
    match gnode (gd (tl st t) nslots) with
    | Some p => Some (set_pc t (D1 (WG nslots) p (RFin r_lost)) st, e)
    | None => finish st t r_lost e
    end
  | RExit g => exit_next st t (S g) (nslots - S g) e
  end.

(** acquire has returned *)
Definition acq_done (nslots : nat) (st : state) (t : nat) (k : ctx) (e : list ev) : option (state * list ev) :=
  match k with
  | KRead _ =>
    let g := gd (tl st t) nslots in
    match gnode g with
    | Some p => Some (set_pc t (D1 (WG nslots) p (RFin (r_id (nid st p)))) (deref p st), e)
    | None => finish st t r_null e
    end
  | KHold _ g => let x := gd (tl st t) g in finish (deref_g x st) t (deref_res st x) e
  | KRepl c fresh => if fresh then Some (set_pc t (A1 (KPop c (S nslots))) st, e) else Some (set_pc t (R1 c None) st, e)
  | KPop c g =>
    match gnode (gd (tl st t) (other nslots g)) with
    | Some o => Some (set_pc t (D1 (WG (other nslots g)) o (RMove c g)) st, e)
    | None => pop_moved st t c g e
    end
  end.

Definition legal (nslots : nat) (o : op) : bool :=
  match o with
  | OHold _ g | ODeref g | ODrop g => g <? nslots
  | _ => true
  end.

(** decrement_refcnt: the new value of the count *)
Definition dec_new (old : nat) : nat := if old - 2 =? 0 then 1 else old - 2.

Definition step (nslots : nat) (st : state) (a : action) : option (state * list ev) :=
  match a with
  | Start t o =>
    match th st t with
    | Idle =>
      match o with
      | OExit =>
        match first_held (gd (tl st t)) 0 nslots with
        | Some (g, p) => Some (set_pc t (D1 (WG g) p (RExit g)) st, [])
        | None => None
        end
      | _ => if legal nslots o then Some (set_pc t (Begin o) st, []) else None
      end
    | _ => None
    end
  | Step t =>
    let x := tl st t in
    let go (p : pc) (e : list ev) := Some (set_pc t p st, e) in
    match th st t with
    | Idle | Done => None
    | Begin o =>
      let es := [EStart t (fst (opcode o)) (snd (opcode o))] in
      match o with
      | ORepl c => go (A1 (KRepl c true)) es
      | OClear c => go (A1 (KRepl c false)) es
      | ORead c => go (A1 (KRead c)) es
      | OHold c g =>
        match gnode (gd x g) with
        | Some p => go (D1 (WG g) p (RAcq (KHold c g))) es
        | None => go (A1 (KHold c g)) es
        end
      | ODeref g => finish (deref_g (gd x g) st) t (deref_res st (gd x g)) es
      | ODrop g =>
        match gnode (gd x g) with
        | Some p => go (D1 (WG g) p (RFin r_ok)) es
        | None => finish st t r_ok es
        end
      | OExit => None
      end
    (* ---- guard_ptr::acquire ---- *)
    | A1 k =>
      let e := [ELoad t (src_loc k) mo_acq (vptr (src st k))] in
      match src st k with
      | Some p => go (A2 k p) e
      | None => acq_done nslots st t k e
      end
    | A2 k p =>
      let gi := guard_of nslots k in
      Some (set_pc t (A3 k p) (add_ref p (RG t gi) (set_gd t gi (GU p) (w_rc (upd (rc st) p (rc st p + 2)) st))),
            [ERmw t (L_rc p) mo_acq (vnat (rc st p)) (vnat (rc st p + 2))])
    | A3 k p =>
      let gi := guard_of nslots k in
      let e := [ELoad t (src_loc k) mo_acq (vptr (src st k))] in
      if oeqb (src st k) (Some p) then acq_done nslots (set_gd t gi (GV p) st) t k e
      else go (D1 (WG gi) p (RAcq k)) e
    (* ---- guard_ptr::reset / operator delete: decrement_refcnt ---- *)
    | D1 w n k => go (D2 w n (rc st n) k) [ELoad t (L_rc n) mo_rlx (vnat (rc st n))]
    | D2 w n old k =>
      let new := dec_new old in
      let mo := if new =? 1 then mo_acqrel else mo_rel in
      if rc st n =? old then
        let st0 := match w with WG g => set_gd t g GE st | WOwn => st end in
        let st1 := w_rc (upd (rc st) n new) (del_ref n (who_ref t w) st0) in
        let e := [ERmw t (L_rc n) mo (vnat old) (vnat new)] in
        if Nat.odd (old - new) then
          let st2 := w_g_ns (upd (g_ns st1) n (NClaimed t)) st1 in
          match w with
          | WG _ => Some (set_pc t (D3 n k) st2, e)
          | WOwn => Some (set_pc t (U1 n k) st2, e)
          end
        else rk_go nslots st1 t k e
      else go (D1 w n k) [ECasF t (L_rc n) mo mo_rlx (vnat (rc st n)) (vnat old)]
    | D3 n k =>
      let e := [ELoad t (L_dst n) mo_rlx (vbool (dst st n))] in
      if dst st n then go (U1 n k) e else go (D4 n k) e
    | D4 n k => Some (set_pc t (U1 n k) (destroy n st), [EStore t (L_dst n) mo_rlx (vnat 1)])
    (* ---- free_list::push ---- *)
    | U1 n k => go (U2 n (fhead st) k) [ELoad t L_fhead mo_acq (vptr (fhead st))]
    | U2 n h k => Some (set_pc t (U3 n h k) (w_nxt (upd (nxt st) n h) st), [EStore t (L_nxt n) mo_rlx (vptr h)])
    | U3 n h k =>
      if oeqb (fhead st) h then
        rk_go nslots (w_fhead (Some n) (w_g_fl (n :: g_fl st) (w_g_ns (upd (g_ns st) n NFree) (w_g_npush (upd (g_npush st) n (S (g_npush st n))) st)))) t k
          [ERmw t L_fhead mo_rel (vptr h) (vptr (Some n))]
      else go (U2 n (fhead st) k) [ECasF t L_fhead mo_rel mo_acq (vptr (fhead st)) (vptr h)]
    (* ---- free_list::pop ---- *)
    | P4 c g p => go (P5 c g p (nxt st p)) [ELoad t (L_nxt p) mo_rlx (vptr (nxt st p))]
    | P5 c g p nx =>
      if oeqb (fhead st) (Some p) then
        Some (set_pc t (P6 c g p) (w_fhead nx (w_g_fl (List.tl (g_fl st)) (w_g_ns (upd (g_ns st) p (NPop t)) (w_g_npop (upd (g_npop st) p (S (g_npop st p))) st)))),
              [ERmw t L_fhead mo_rlx (vptr (Some p)) (vptr nx)])
      else go (A1 (KPop c (other nslots g))) [ECasF t L_fhead mo_rlx mo_rlx (vptr (fhead st)) (vptr (Some p))]
    | P6 c g p =>
      Some (set_pc t (P7 c g p) (w_rc (upd (rc st) p (rc st p - 1)) (w_g_ns (upd (g_ns st) p (NCons t)) st)),
            [ERmw t (L_rc p) mo_rlx (vnat (rc st p)) (vnat (rc st p - 1))])
    | P7 c g p =>
      Some (set_pc t (N3 c p (nextid st)) (w_nextid (S (nextid st)) (w_nxt (upd (nxt st) p None) (set_gd t g GE (rep_ref p (RG t g) (ROwn t) st)))),
            [EStore t (L_nxt p) mo_rlx (vptr None)])
    (* ---- a node from the heap; the constructor ---- *)
    | N2 c n =>
      Some (set_pc t (N3 c n (nextid st)) (w_nextid (S (nextid st)) (w_rc (upd (rc st) n 2) (add_ref n (ROwn t) (w_g_ns (upd (g_ns st) n (NCons t)) st)))),
            [EStore t (L_rc n) mo_rel (vnat 2)])
    | N3 c n i =>
      Some (set_pc t (R1 c (Some n))
              (w_dst (upd (dst st) n false) (w_g_alive (upd (g_alive st) n true) (w_g_inc (upd (g_inc st) n (S (g_inc st n)))
                 (w_g_ns (upd (g_ns st) n (NFresh t)) (w_nid (upd (nid st) n i) st))))),
            [EStore t (L_dst n) mo_rlx (vnat 0)])
    (* ---- the client's CAS ---- *)
    | R1 c n =>
      let exp := gnode (gd x nslots) in
      if oeqb (cells st c) exp then
        let e := [ERmw t (L_cell c) mo_acqrel (vptr exp) (vptr n)] in
        let st1 := w_cells (upd (cells st) c n) st in
        let st2 := match n with
                   | Some n' => w_g_ns (upd (g_ns st1) n' NPub) (rep_ref n' (ROwn t) (RCell c) st1)
                   | None => st1 end in
        match exp with
        | Some o => Some (set_pc t (R2 o) (deref o (rep_ref o (RCell c) (ROwn t) st2)), e)
        | None => finish st2 t r_ok e
        end
      else
        let e := [ECasF t (L_cell c) mo_acqrel mo_rlx (vptr (cells st c)) (vptr exp)] in
        match n with
        | Some n' => go (X1 n') e
        | None => rk_go nslots st t RLost e
        end
    (* ---- guard_ptr::reclaim ---- *)
    | R2 o =>
      Some (set_pc t (D1 (WG nslots) o (RFin r_ok)) (w_rc (upd (rc st) o (rc st o - 2)) (del_ref o (ROwn t) st)),
            [ERmw t (L_rc o) mo_rel (vnat (rc st o)) (vnat (rc st o - 2))])
    (* ---- delete n after a lost CAS ---- *)
    | X1 n =>
      Some (set_pc t (D1 WOwn n RLost) (w_g_ns (upd (g_ns st) n NDel) (destroy n st)), [EStore t (L_dst n) mo_rlx (vnat 1)])
    end
  end.
