(** Step-level model of xenium::nikolaev_queue<T, reclaimer<GC>, entries_per_node<cap>, pop_retries<R>>
    (nikolaev_queue.hpp, element kind [int] of the harness): the UNBOUNDED queue of Nikolaev, a Michael-Scott
    list of nodes; every node holds two xenium::detail::nikolaev_scq index rings (allocated ring [RA], free ring
    [RF]) and a storage array - i.e. every node is a nikolaev_bounded_queue whose allocated ring can be
    FINALIZED (bit 0 of its tail word).

    The model is compositional: the state of node n is a state [nd st n] of Model/NikbDefs.v (the model of the
    bounded queue: two rings, storage cells, the program points of the threads that are inside the ring code of
    THIS node, the ticket / ownership ghosts), and an atomic access inside nikolaev_scq::enqueue / dequeue is the
    step [NikbDefs.step] of that node (the repaired ring code, repository commit ccd976e), with its events
    relocated to the blocks of the node.  What nikolaev_queue adds is modelled here:
      - the program points outside the rings ([opc]): _tail / _head / next accesses, finalize, set_threshold,
        the constructor of a node (first_used_tag / first_empty_tag), steal_init_value, ~node, retire;
      - enqueue<false, true> (Finalizable) of try_push: a tail fetch_add that returns a finalized word gives up
        the ticket and returns the index to the free ring ([PRe]);
      - the finalized bit: the tail word of RA of node n is [rtail (ra (nd st n))] (always even) + [fin st n];
        the four accesses of dequeue / catchup to that word ([D4], [D6], [C1], [C2] on RA) are re-stated here with
        the real word ([istep]); the bit of a thread's local copy of the word is [lb] of its program point.
    One [Step] = one atomic access of the C++ code, emitting exactly the event rt/xvrt prints for it
    (allocations / frees are printed with the preceding access of the thread).  The reclaimer is the GC
    instance (harness/gc_reclaimer.hpp): guard acquisition is one load, reclaim() only records the node.

    Blocks: 0 = the queue object (_tail +0, _head +8); a node n occupies four blocks: n = the node (RA: _head +64,
    _threshold +128, _tail +192; RF: +320, +384, +448; _next +576; size 640), n+1 = storage, n+2 = RA._data,
    [fdb st n] = RF._data (allocated by the constructor after RA._data has been filled; 4 for the initial node).
    The initial node is 1; [nalloc] = the next block number.

    Ghosts: [q_nodes] the nodes ever linked, in chain order; [q_retired] the nodes retired by the head CAS;
    [q_in] (node, RA ticket, value) at the instant a push publishes its index in RA of a LINKED node (successful
    entry CAS) or links a node pre-filled with the value (ticket 0); [q_out] (node, RA ticket, value) at the
    instant a pop takes an index out of RA (the fetch_or); [q_ok] / [q_ret] the pairs of the push calls that
    returned / of the pop calls that returned a value; [q_ebusy] / [q_dbusy] the thread between publishing /
    taking and returning.  The value ghosts [g_in] .. [g_dbusy] of the node states are not used. *)
From Coq Require Import NArith List Bool.
From XV Require Import Base.Word Conc.Lts Conc.Ev gen.ScqGen Model.NikbDefs.
Import ListNotations.
Local Open Scope N_scope.

(** program points outside the ring code.  [v] = the value of the push; [n] = the node the guard protects;
    [m] = the node allocated by the push; [lb] = bit 0 of the thread's local copy of RA._tail *)
Inductive opc :=
| OIdle
| OBegin (o : op)
| OStuck                          (* unreachable branches (assert(success) of steal_init_value fails / ~node finds an index) *)
(* push *)
| P1 (v : N)                      (* (1) n.acquire(_tail, acq) *)
| P2 (v n : N)                    (* LD n->_next rlx; null: try_push *)
| P2a (v n : N)                   (* (2) LD n->_next acq *)
| P2b (v n nx : N)                (* (3) CAS _tail n -> nx rel/rlx; continue *)
| PIn (v n : N)                   (* inside n->try_push: _free_queue.dequeue, _allocated_queue.enqueue<false,true> *)
| PRe (v n : N)                   (* RA finalized: _free_queue.enqueue(eidx); return false *)
| PFin (v n : N)                  (* free ring empty: _allocated_queue.finalize(): _tail.fetch_or(1, rlx); new node *)
| PCa (v n m i : N)               (* node(value) ctor: RA._data entry i (first_used_tag) *)
| PCf (v n m i : N)               (* node(value) ctor: RF._data entry i (first_empty_tag) *)
| PLink (v n m : N)               (* (4) CAS n->_next null -> m rel/rlx *)
| PSw (v n m : N)                 (* (5) CAS _tail n -> m rel/rlx; return *)
| PSt (v m : N) (lb : bool)       (* next->steal_init_value(value): RA.dequeue, RF.enqueue *)
| PDel (v m : N) (lb : bool)      (* delete next: ~node: RA.dequeue until false; frees; continue *)
(* pop *)
| Q1                              (* (6) n.acquire(_head, acq) *)
| QIn1 (n : N) (lb : bool)        (* first _allocated_queue.dequeue; on success _free_queue.enqueue; return *)
| Q2 (n : N)                      (* LD n->_next rlx; null: return empty *)
| Q3 (n : N)                      (* set_threshold(3 * entries_per_node - 1): ST rlx *)
| QIn2 (n : N) (lb : bool)        (* second dequeue *)
| Q4 (n : N)                      (* (7) LD n->_next acq *)
| Q5 (n nx : N).                  (* (8) CAS _head n -> nx rel/rlx; success: n.reclaim(); continue *)

Record qstate := mkQ {
  qhead : N; qtail : N;
  nd : N -> state; fin : N -> bool; nxt : N -> N; fdb : N -> N; nalloc : N;
  oth : nat -> opc;
  q_nodes : list N; q_retired : list N;
  q_in : list (N * N * N); q_out : list (N * N * N); q_ok : list (N * N * N); q_ret : list (N * N * N);
  q_ebusy : N -> N -> option nat; q_dbusy : N -> N -> option nat }.

Definition w_qhead (s : qstate) (x : N) := mkQ x (qtail s) (nd s) (fin s) (nxt s) (fdb s) (nalloc s) (oth s) (q_nodes s) (q_retired s) (q_in s) (q_out s) (q_ok s) (q_ret s) (q_ebusy s) (q_dbusy s).
Definition w_qtail (s : qstate) (x : N) := mkQ (qhead s) x (nd s) (fin s) (nxt s) (fdb s) (nalloc s) (oth s) (q_nodes s) (q_retired s) (q_in s) (q_out s) (q_ok s) (q_ret s) (q_ebusy s) (q_dbusy s).
Definition w_nd (s : qstate) (n : N) (x : state) := mkQ (qhead s) (qtail s) (setf (nd s) n x) (fin s) (nxt s) (fdb s) (nalloc s) (oth s) (q_nodes s) (q_retired s) (q_in s) (q_out s) (q_ok s) (q_ret s) (q_ebusy s) (q_dbusy s).
Definition w_fin (s : qstate) (n : N) := mkQ (qhead s) (qtail s) (nd s) (setf (fin s) n true) (nxt s) (fdb s) (nalloc s) (oth s) (q_nodes s) (q_retired s) (q_in s) (q_out s) (q_ok s) (q_ret s) (q_ebusy s) (q_dbusy s).
Definition w_nxt (s : qstate) (n x : N) := mkQ (qhead s) (qtail s) (nd s) (fin s) (setf (nxt s) n x) (fdb s) (nalloc s) (oth s) (q_nodes s) (q_retired s) (q_in s) (q_out s) (q_ok s) (q_ret s) (q_ebusy s) (q_dbusy s).
Definition w_fdb (s : qstate) (n x : N) := mkQ (qhead s) (qtail s) (nd s) (fin s) (nxt s) (setf (fdb s) n x) (nalloc s) (oth s) (q_nodes s) (q_retired s) (q_in s) (q_out s) (q_ok s) (q_ret s) (q_ebusy s) (q_dbusy s).
Definition w_nalloc (s : qstate) (x : N) := mkQ (qhead s) (qtail s) (nd s) (fin s) (nxt s) (fdb s) x (oth s) (q_nodes s) (q_retired s) (q_in s) (q_out s) (q_ok s) (q_ret s) (q_ebusy s) (q_dbusy s).
Definition w_oth (s : qstate) (f : nat -> opc) := mkQ (qhead s) (qtail s) (nd s) (fin s) (nxt s) (fdb s) (nalloc s) f (q_nodes s) (q_retired s) (q_in s) (q_out s) (q_ok s) (q_ret s) (q_ebusy s) (q_dbusy s).
Definition w_nodes (s : qstate) (l : list N) := mkQ (qhead s) (qtail s) (nd s) (fin s) (nxt s) (fdb s) (nalloc s) (oth s) l (q_retired s) (q_in s) (q_out s) (q_ok s) (q_ret s) (q_ebusy s) (q_dbusy s).
Definition w_retired (s : qstate) (l : list N) := mkQ (qhead s) (qtail s) (nd s) (fin s) (nxt s) (fdb s) (nalloc s) (oth s) (q_nodes s) l (q_in s) (q_out s) (q_ok s) (q_ret s) (q_ebusy s) (q_dbusy s).
Definition w_qin (s : qstate) (l : list (N * N * N)) := mkQ (qhead s) (qtail s) (nd s) (fin s) (nxt s) (fdb s) (nalloc s) (oth s) (q_nodes s) (q_retired s) l (q_out s) (q_ok s) (q_ret s) (q_ebusy s) (q_dbusy s).
Definition w_qout (s : qstate) (l : list (N * N * N)) := mkQ (qhead s) (qtail s) (nd s) (fin s) (nxt s) (fdb s) (nalloc s) (oth s) (q_nodes s) (q_retired s) (q_in s) l (q_ok s) (q_ret s) (q_ebusy s) (q_dbusy s).
Definition w_qok (s : qstate) (l : list (N * N * N)) := mkQ (qhead s) (qtail s) (nd s) (fin s) (nxt s) (fdb s) (nalloc s) (oth s) (q_nodes s) (q_retired s) (q_in s) (q_out s) l (q_ret s) (q_ebusy s) (q_dbusy s).
Definition w_qret (s : qstate) (l : list (N * N * N)) := mkQ (qhead s) (qtail s) (nd s) (fin s) (nxt s) (fdb s) (nalloc s) (oth s) (q_nodes s) (q_retired s) (q_in s) (q_out s) (q_ok s) l (q_ebusy s) (q_dbusy s).
Definition w_qebusy (s : qstate) (n T : N) (x : option nat) := mkQ (qhead s) (qtail s) (nd s) (fin s) (nxt s) (fdb s) (nalloc s) (oth s) (q_nodes s) (q_retired s) (q_in s) (q_out s) (q_ok s) (q_ret s) (fun n' => if n' =? n then setf (q_ebusy s n') T x else q_ebusy s n') (q_dbusy s).
Definition w_qdbusy (s : qstate) (n T : N) (x : option nat) := mkQ (qhead s) (qtail s) (nd s) (fin s) (nxt s) (fdb s) (nalloc s) (oth s) (q_nodes s) (q_retired s) (q_in s) (q_out s) (q_ok s) (q_ret s) (q_ebusy s) (fun n' => if n' =? n then setf (q_dbusy s n') T x else q_dbusy s n').

(** locations of the queue object and of a node *)
Definition L_qtail := LHeap 0 0.
Definition L_qhead := LHeap 0 8.
Definition L_next (n : N) := LHeap n 576.
Definition node_size : N := 640.
Definition vptr (n : N) : val := if n =? 0 then VInt 0 else VPtr (LHeap n 0) 0.

(** the events of the ring code of node n: blocks 0 / 2 / 3 of the bounded model are n / n+2 / fd; the ring
    operation's own result event is dropped (the caller continues) *)
Definition rloc (n fd : N) (l : loc) : loc := match l with LHeap b o => if b =? 3 then LHeap fd o else LHeap (n + b) o | _ => l end.
Definition rev1 (n fd : N) (e : ev) : list ev :=
  match e with
  | ELoad t l mo v => [ELoad t (rloc n fd l) mo v]
  | EStore t l mo v => [EStore t (rloc n fd l) mo v]
  | ERmw t l mo o w => [ERmw t (rloc n fd l) mo o w]
  | ECasF t l mo fmo s x => [ECasF t (rloc n fd l) mo fmo s x]
  | ERet _ _ => []
  | _ => [e]
  end.
Definition reloc (n fd : N) (es : list ev) : list ev := flat_map (rev1 n fd) es.
Fixpoint ret_of (es : list ev) : option (list N) :=
  match es with [] => None | ERet _ r :: _ => Some r | _ :: l => ret_of l end.

(** a word with the finalized bit *)
Definition bitw (w : N) (b : bool) : N := if b then N.lor w 1 else w.

(** the thread enters a ring operation of the node: dequeue on ring q with operation value x *)
Definition enter (sg : state) (t : nat) (p : pc) : state := w_th sg (upd (th sg) t p).

Section Nikq.
  Variable cap : N.    (* entries_per_node, a power of two *)
  Variable R : N.      (* pop_retries *)

  Notation nn := (nn cap).
  Notation cyc := (cyc cap).
  Notation phys := (phys cap).
  Notation thr_full := (thr_full cap).

  (** the node constructed by the queue constructor (empty_tag / full_tag) is the initial state of the bounded
      model; a node constructed by push (first_used_tag / first_empty_tag) holds value v in cell 0, index 0 in RA
      at ticket 0, indices 1 .. cap-1 in RF at tickets 1 .. cap-1 (RF._head = 2) *)
  Definition used_free_data : N -> N :=
    fold_left (fun f i => setf f (phys (2 * N.of_nat i)) (nn + N.of_nat i)) (seq 1 (N.to_nat cap - 1)) (fun _ => ones64).
  Definition used_alloc_data : N -> N := setf (fun _ => ones64) (phys 0) nn.
  Definition used_init (v : N) : state :=
    mkSt (fun q => match q with
                   | RA => mkRing 0 thr_full 2 used_alloc_data (fun T => if T =? 0 then EPub 0 else ENone) (fun _ => DNone)
                   | RF => mkRing 2 thr_full (2 * cap) used_free_data (fun T => if T <? cap then EPub T else ENone)
                                  (fun H => if H =? 0 then DTaken 0 else DNone)
                   end)
         (fun i => if i =? 0 then v else 0) (fun _ => Idle) (fun i => if i =? 0 then OFull 0 else OFree i)
         [] [] [] [] (fun _ => None) (fun _ => None) false.

  Definition qinit : qstate :=
    mkQ 1 1 (fun _ => init cap) (fun _ => false) (fun _ => 0) (fun _ => 4) 5 (fun _ => OIdle) [1] [] [] [] [] [] (fun _ _ => None) (fun _ _ => None).

  (** what the constructor stores into entry i of the two arrays (i = 0 .. 2 * cap - 1, in this order) *)
  Definition ca_word (i : N) : N := if i =? 0 then nn else ones64.
  Definition cf_word (i : N) : N := if i =? 0 then ones64 else if i <? cap then nn + i else ones64.

  (** one atomic access of thread t inside the ring code of a node with state [sg], finalized bit [f] of RA._tail,
      local bit [lb]: the four accesses of dequeue<false,R> / catchup to RA._tail with the real word, otherwise the
      step of the bounded model.  Result: new node state, events (not yet relocated), new local bit. *)
  Definition istep (sg : state) (f lb : bool) (t : nat) : option (state * list ev * bool) :=
    let at_pc (s : state) (p : pc) := w_th s (upd (th s) t p) in
    match th sg t with
    | D4 RA x hd att e =>
      let w := bitw (rtail (ra sg)) f in
      let p := if gt0 (diff w (wadd 64 hd 2)) && (att + 1 <=? R) then D2 RA x hd (att + 1)
               else if lt0 (diff (cyc e) (cyc hd)) then D5 RA x hd att e (bot_word false cap hd e) else D6 RA x hd in
      Some (at_pc (mark_left sg RA hd p) p, [ELoad t (L_tail RA) mo_rlx (VInt w)], false)
    | D6 RA x hd =>
      let w := bitw (rtail (ra sg)) f in
      Some (at_pc sg (if gt0 (diff w (wadd 64 hd 2)) then D7 RA x else C1 RA x (rtail (ra sg)) (wadd 64 hd 2)),
            [ELoad t (L_tail RA) mo_rlx (VInt w)], f)
    | C1 RA x tl hd =>
      let r := ra sg in
      if (rtail r =? tl) && eqb f lb then
        Some (at_pc (w_ovf (w_rg sg RA (r_tail r hd)) (g_ovf sg || ctr_ovf hd)) (D8 RA x),
              [ERmw t (L_tail RA) mo_rlx (VInt (bitw tl lb)) (VInt (bitw hd lb))], false)
      else
        Some (at_pc sg (C2 RA x (rtail r)), [ECasF t (L_tail RA) mo_rlx mo_rlx (VInt (bitw (rtail r) f)) (VInt (bitw tl lb))], f)
    | C2 RA x tl =>
      let hd := rhead (ra sg) in
      Some (at_pc sg (if lt0 (diff (bitw tl lb) hd) then C1 RA x tl hd else D8 RA x), [ELoad t (L_head RA) mo_rlx (VInt hd)], lb)
    | _ =>
      match NikbDefs.step cap R sg (Step t) with
      | Some (sg', es) => Some (sg', es, false)
      | None => None
      end
    end.

  (** enqueue<false, true> of try_push on a finalized ring: the fetch_add (the step of the bounded model: the ticket is
      handed out, the cell is written) returns a finalized word: the ticket is given up at once, the value is moved
      back, the index goes back to the free ring *)
  Definition fin_enq (sg : state) (t : nat) (x idx gk : N) : option (state * list ev) :=
    match NikbDefs.step cap R sg (Step t) with
    | Some (s1, _) =>
      let tl := rtail (ra sg) in
      let p := E1 RA x idx gk in
      let s2 := w_th (mark_skip s1 RA tl p) (upd (th (mark_skip s1 RA tl p)) t p) in
      let s3 := w_own s2 (setf (g_own s2) idx (ORead t)) in
      Some (w_th s3 (upd (th s3) t (E1 RF x idx gk)),
            [ERmw t (L_tail RA) mo_rlx (VInt (N.lor tl 1)) (VInt (N.lor (wadd 64 tl 2) 1))])
    | None => None
    end.

  (** allocation of the blocks of a node by the push (the constructor starts): node, storage, RA._data *)
  Definition alloc_evs (t : nat) (m : N) : list ev :=
    [EAlloc t m node_size; EAlloc t (m + 1) (8 * cap); EAlloc t (m + 2) (16 * cap)].
  Definition free_evs (t : nat) (m fd : N) : list ev := [EFree t fd; EFree t (m + 2); EFree t (m + 1); EFree t m].

  Definition at_opc (s : qstate) (t : nat) (p : opc) : qstate := w_oth s (upd (oth s) t p).

  (** the push allocates node m = nalloc with value v (the constructor starts) *)
  Definition new_node (s : qstate) (t : nat) (v n : N) (e : list ev) : option (qstate * list ev) :=
    let m := nalloc s in
    Some (at_opc (w_nalloc (w_nd s m (used_init v)) (m + 3)) t (PCa v n m 0), e ++ alloc_evs t m).

  (** ghost: the step of thread t from node state sg publishes an index in RA of node n (successful entry CAS of enqueue) *)
  Definition pub_ghost (st s1 : qstate) (t : nat) (n : N) (sg : state) : qstate :=
    match th sg t with
    | E4 RA x _ _ tl e =>
      if rdata (ra sg) (phys tl) =? e then w_qebusy (w_qin s1 (q_in st ++ [(n, tl / 2, x)])) n (tl / 2) (Some t) else s1
    | _ => s1
    end.
  (** ghost: the step of thread t from node state sg takes an index out of RA of node n (the fetch_or of dequeue) *)
  Definition take_ghost (st s1 : qstate) (t : nat) (n : N) (sg : state) : qstate :=
    match th sg t with
    | D3 RA _ hd e => w_qdbusy (w_qout s1 (q_out st ++ [(n, hd / 2, store sg (N.land e (vmask cap)))])) n (hd / 2) (Some t)
    | _ => s1
    end.

  (** n->try_push(v): _free_queue.dequeue, then _allocated_queue.enqueue<false, true> *)
  Definition push_in (st : qstate) (t : nat) (v n : N) : option (qstate * list ev) :=
    let sg := nd st n in
    let fd := fdb st n in
    match th sg t with
    | E1 RA x idx gk =>
      if fin st n then
        match fin_enq sg t x idx gk with
        | Some (sg', es) => Some (at_opc (w_nd st n sg') t (PRe v n), reloc n fd es)
        | None => None
        end
      else
        match NikbDefs.step cap R sg (Step t) with
        | Some (sg', es) => Some (at_opc (w_nd st n sg') t (PIn v n), reloc n fd es)
        | None => None
        end
    | p =>
      match NikbDefs.step cap R sg (Step t) with
      | None => None
      | Some (sg', es) =>
        let s1 := pub_ghost st (w_nd st n sg') t n sg in
        match th sg' t with
        | Idle =>
          match ret_of es, p with
          | Some [1], (E5 RA x _ gk | E6 RA x _ gk) =>
            Some (at_opc (w_qebusy (w_qok s1 (q_ok st ++ [(n, gk, x)])) n gk None) t OIdle, reloc n fd es ++ [ERet t [1]])
          | Some [0], _ => Some (at_opc s1 t (PFin v n), reloc n fd es)
          | _, _ => None
          end
        | _ => Some (at_opc s1 t (PIn v n), reloc n fd es)
        end
      end
    end.

  (** try_push on a finalized ring: _free_queue.enqueue(eidx); return false; new node *)
  Definition push_re (st : qstate) (t : nat) (v n : N) : option (qstate * list ev) :=
    match NikbDefs.step cap R (nd st n) (Step t) with
    | None => None
    | Some (sg', es) =>
      let s1 := w_nd st n sg' in
      match th sg' t with
      | Idle => new_node s1 t v n (reloc n (fdb st n) es)
      | _ => Some (at_opc s1 t (PRe v n), reloc n (fdb st n) es)
      end
    end.

  (** next->steal_init_value(value) on the node m that could not be linked *)
  Definition steal_phase (st : qstate) (t : nat) (v m : N) (lb : bool) : option (qstate * list ev) :=
    match istep (nd st m) (fin st m) lb t with
    | None => None
    | Some (sg', es, lb') =>
      match th sg' t with
      | Idle =>
        match ret_of es with
        | Some [1; x] => Some (at_opc (w_nd st m (enter sg' t (D0 RA 0))) t (PDel x m false), reloc m (fdb st m) es)
        | _ => Some (at_opc (w_nd st m sg') t OStuck, reloc m (fdb st m) es)
        end
      | _ => Some (at_opc (w_nd st m sg') t (PSt v m lb'), reloc m (fdb st m) es)
      end
    end.

  (** delete next: ~node dequeues from RA until it fails (it fails at once), frees the four blocks; the push loop continues *)
  Definition del_phase (st : qstate) (t : nat) (v m : N) (lb : bool) : option (qstate * list ev) :=
    match istep (nd st m) (fin st m) lb t with
    | None => None
    | Some (sg', es, lb') =>
      match th sg' t with
      | Idle => Some (at_opc (w_nd st m sg') t (P1 v), reloc m (fdb st m) es ++ free_evs t m (fdb st m))
      | E1 RF _ _ _ => Some (at_opc (w_nd st m sg') t OStuck, reloc m (fdb st m) es)
      | _ => Some (at_opc (w_nd st m sg') t (PDel v m lb'), reloc m (fdb st m) es)
      end
    end.

  (** a dequeue of do_pop on node n and, when it returns an index, the _free_queue.enqueue and the return *)
  Definition pop_phase (st : qstate) (t : nat) (n : N) (lb : bool) (again : bool -> opc) (failed : opc) : option (qstate * list ev) :=
    let sg := nd st n in
    match istep sg (fin st n) lb t with
    | None => None
    | Some (sg', es, lb') =>
      let s2 := take_ghost st (w_nd st n sg') t n sg in
      match th sg' t with
      | Idle =>
        match ret_of es, th sg t with
        | Some [1; x], (E5 RF _ _ gk | E6 RF _ _ gk) =>
          Some (at_opc (w_qdbusy (w_qret s2 (q_ret st ++ [(n, gk, x)])) n gk None) t OIdle, reloc n (fdb st n) es ++ [ERet t [1; x]])
        | Some [3], _ => Some (at_opc s2 t failed, reloc n (fdb st n) es)
        | _, _ => None
        end
      | _ => Some (at_opc s2 t (again lb'), reloc n (fdb st n) es)
      end
    end.

  (** results: [1] push returned / [1; x] pop returned x / [0] empty *)
  Definition qstep (st : qstate) (a : action) : option (qstate * list ev) :=
    match a with
    | Start t o =>
      match oth st t with
      | OIdle => Some (at_opc st t (OBegin o), [])
      | _ => None
      end
    | Step t =>
      let go (p : opc) (e : list ev) := Some (at_opc st t p, e) in
      match oth st t with
      | OIdle | OStuck => None
      | OBegin (OPush v) => go (P1 v) [EStart t 0 [v]]
      | OBegin (OPop tp) => go Q1 [EStart t (if tp then 2 else 1) []]
      (* ---------------- push ---------------- *)
      | P1 v => go (P2 v (qtail st)) [ELoad t L_qtail mo_acq (vptr (qtail st))]
      | P2 v n =>
        let e := [ELoad t (L_next n) mo_rlx (vptr (nxt st n))] in
        if nxt st n =? 0 then Some (at_opc (w_nd st n (enter (nd st n) t (D0 RF v))) t (PIn v n), e)
        else go (P2a v n) e
      | P2a v n => go (P2b v n (nxt st n)) [ELoad t (L_next n) mo_acq (vptr (nxt st n))]
      | P2b v n nx =>
        if qtail st =? n then Some (at_opc (w_qtail st nx) t (P1 v), [ERmw t L_qtail mo_rel (vptr n) (vptr nx)])
        else go (P1 v) [ECasF t L_qtail mo_rel mo_rlx (vptr (qtail st)) (vptr n)]
      | PIn v n => push_in st t v n
      | PRe v n => push_re st t v n
      | PFin v n =>
        let w := bitw (rtail (ra (nd st n))) (fin st n) in
        new_node (w_fin st n) t v n [ERmw t (rloc n 0 (L_tail RA)) mo_rlx (VInt w) (VInt (N.lor w 1))]
      | PCa v n m i =>
        let e := [EStore t (LHeap (m + 2) (8 * phys (2 * i))) mo_rlx (VInt (ca_word i))] in
        if i + 1 <? 2 * cap then go (PCa v n m (i + 1)) e
        else Some (at_opc (w_nalloc (w_fdb st m (nalloc st)) (nalloc st + 1)) t (PCf v n m 0), e ++ [EAlloc t (nalloc st) (16 * cap)])
      | PCf v n m i =>
        go (if i + 1 <? 2 * cap then PCf v n m (i + 1) else PLink v n m)
           [EStore t (LHeap (fdb st m) (8 * phys (2 * i))) mo_rlx (VInt (cf_word i))]
      | PLink v n m =>
        if nxt st n =? 0 then
          Some (at_opc (w_qebusy (w_qin (w_nodes (w_nxt st n m) (q_nodes st ++ [m])) (q_in st ++ [(m, 0, v)])) m 0 (Some t)) t (PSw v n m),
                [ERmw t (L_next n) mo_rel (VInt 0) (vptr m)])
        else
          Some (at_opc (w_nd st m (enter (nd st m) t (D0 RA 0))) t (PSt v m false),
                [ECasF t (L_next n) mo_rel mo_rlx (vptr (nxt st n)) (VInt 0)])
      | PSw v n m =>
        let s1 := w_qebusy (w_qok st (q_ok st ++ [(m, 0, v)])) m 0 None in
        if qtail st =? n then
          Some (at_opc (w_qtail s1 m) t OIdle, [ERmw t L_qtail mo_rel (vptr n) (vptr m); ERet t [1]])
        else Some (at_opc s1 t OIdle, [ECasF t L_qtail mo_rel mo_rlx (vptr (qtail st)) (vptr n); ERet t [1]])
      | PSt v m lb => steal_phase st t v m lb
      | PDel v m lb => del_phase st t v m lb
      (* ---------------- pop ---------------- *)
      | Q1 =>
        let n := qhead st in
        Some (at_opc (w_nd st n (enter (nd st n) t (D0 RA 0))) t (QIn1 n false), [ELoad t L_qhead mo_acq (vptr n)])
      | QIn1 n lb => pop_phase st t n lb (QIn1 n) (Q2 n)
      | Q2 n =>
        let e := [ELoad t (L_next n) mo_rlx (vptr (nxt st n))] in
        if nxt st n =? 0 then Some (at_opc st t OIdle, e ++ [ERet t [0]]) else go (Q3 n) e
      | Q3 n =>
        let sg := nd st n in
        Some (at_opc (w_nd st n (enter (w_rg sg RA (r_thr (ra sg) thr_full)) t (D0 RA 0))) t (QIn2 n false),
              [EStore t (rloc n 0 (L_thr RA)) mo_rlx (VInt thr_full)])
      | QIn2 n lb => pop_phase st t n lb (QIn2 n) (Q4 n)
      | Q4 n => go (Q5 n (nxt st n)) [ELoad t (L_next n) mo_acq (vptr (nxt st n))]
      | Q5 n nx =>
        if qhead st =? n then
          Some (at_opc (w_retired (w_qhead st nx) (q_retired st ++ [n])) t Q1,
                [ERmw t L_qhead mo_rel (vptr n) (vptr nx); ENote t 120 [n]])
        else go Q1 [ECasF t L_qhead mo_rel mo_rlx (vptr (qhead st)) (vptr n)]
      end
    end.
End Nikq.

Definition quiescent (st : qstate) : Prop := forall t, oth st t = OIdle.
(** no head / tail counter of any node reached 2^62, no threshold went below -2^62 *)
Definition noovf (st : qstate) : Prop := forall n, g_ovf (nd st n) = false.
