(** Sequential (per-thread) model of the hazard pointer slot pool of xenium::reclamation::hazard_pointer
    (xenium/reclamation/impl/hazard_pointer.hpp) and of the guard_ptr operations that take and return slots.
    Definitions only; the proofs are in Proof/HpSlots.v, the differential run against the compiled code is
    tools/hpslots_diff.py + harness/h_hpslots.cpp.

    Slot indices: position in allocation order of the slot arrays: [pointers[0..K-1]] of the control block are
    0..K-1, the slots of the first dynamically allocated block follow, then the second block, ...              *)
From Coq Require Import String Ascii List Arith Bool.
From Coq Require DecimalString.
Import ListNotations.

(** * The slot pool (basic_hp_thread_control_block / basic_he_thread_control_block) *)

(** [std::atomic<marked_ptr<void*,1>> value]: mark bit set = link of the free list, else the payload
    (HP: the protected object, HE: the protected era) *)
Inductive slot (A : Type) : Type :=
| Link (nx : option nat)
| Obj (a : A).
Arguments Link {A} nx.
Arguments Obj {A} a.

Fixpoint set_nth {X : Type} (i : nat) (x : X) (l : list X) : list X :=
  match l, i with
  | [], _ => []
  | _ :: t, 0 => x :: t
  | h :: t, S j => h :: set_nth j x t
  end.

Record config := { cK : nat; cDyn : bool; cG : nat }.

Section Pool.
  Context {A : Type}.

  (** [initialize_block]: [size] slots starting at index [start]; slot j links to j+1, the last one to [next] *)
  Fixpoint mkblock (start size : nat) (next : option nat) : list (slot A) :=
    match size with
    | 0 => []
    | S n => match n with
             | 0 => [Link next]
             | S _ => Link (Some (S start)) :: mkblock (S start) n next
             end
    end.

  (** the dynamically allocated blocks in allocation order; block j starts at [start]; [hp_block] is the newest
      block, [block->next] the one allocated before it: [initialize_next_block] links the last slot of a block to
      the first slot of the block allocated before it. Returns the slots and the start of the newest block. *)
  Fixpoint relink (start : nat) (prev : option nat) (bs : list nat) : list (slot A) * option nat :=
    match bs with
    | [] => ([], prev)
    | b :: r => let (l, newest) := relink (start + b) (Some start) r in (mkblock start b prev ++ l, newest)
    end.

  (** [initialize(hint)]: control block first, then hp_block (newest), ..., oldest block *)
  Definition init_slots (K : nat) (bs : list nat) : list (slot A) :=
    let (l, newest) := relink K None bs in mkblock 0 K newest ++ l.

  Record pool := { slots : list (slot A); hint : option nat; blocks : list nat }.

  Definition p_init (cfg : config) (bs : list nat) : pool :=
    {| slots := init_slots (cK cfg) bs; hint := Some 0; blocks := bs |}.

  Inductive ares := AOk (i : nat) (p : pool) | AExh | ACorrupt.

  (** [need_more_hps]: static: throw; dynamic: [allocate_new_hazard_pointer_block]
      (hps = max(K, total/2); the new block's own next pointer is still null when it is initialised, so its last
      slot links to nullptr) *)
  Definition need_more (cfg : config) (p : pool) : option (nat * pool) :=
    if cDyn cfg then
      let total := length (slots p) in
      let hps := Nat.max (cK cfg) (total / 2) in
      Some (total, {| slots := slots p ++ mkblock total hps None; hint := hint p; blocks := blocks p ++ [hps] |})
    else None.

  (** [alloc_hazard_pointer(hint)] *)
  Definition p_alloc (cfg : config) (p : pool) : ares :=
    match (match hint p with
           | Some i => Some (i, p)
           | None => need_more cfg p
           end) with
    | None => AExh
    | Some (i, p') =>
        match nth_error (slots p') i with
        | Some (Link nx) => AOk i {| slots := slots p'; hint := nx; blocks := blocks p' |}   (* hint = result->get_link() *)
        | _ => ACorrupt                                                                      (* assert(is_link()) *)
        end
    end.

  (** [release_hazard_pointer(hp, hint)] for hp != nullptr *)
  Definition p_release (i : nat) (p : pool) : pool :=
    {| slots := set_nth i (Link (hint p)) (slots p); hint := Some i; blocks := blocks p |}.

  Definition p_set (i : nat) (a : A) (p : pool) : pool :=
    {| slots := set_nth i (Obj a) (slots p); hint := hint p; blocks := blocks p |}.

  (** the free list as a scan from [hint] would see it *)
  Fixpoint walk (fuel : nat) (sl : list (slot A)) (h : option nat) : list nat :=
    match fuel, h with
    | S f, Some i => match nth_error sl i with
                     | Some (Link nx) => i :: walk f sl nx
                     | _ => [i]
                     end
    | _, _ => []
    end.
  Definition free_list (p : pool) : list nat := walk (S (length (slots p))) (slots p) (hint p).

  (** what [gather_protected_pointers] collects *)
  Definition gather (sl : list (slot A)) : list A :=
    flat_map (fun s => match s with Obj a => [a] | Link _ => [] end) sl.
End Pool.
Arguments pool A : clear implicits.
Arguments ares A : clear implicits.

(** * guard_ptr layer (hazard_pointer<Traits>::guard_ptr) *)

(** [hp], [ptr.get()] (0 = nullptr, v > 0 = object number v), [ptr.mark()] *)
Record guard := { g_hp : option nat; g_ptr : nat; g_mark : nat }.
Definition empty_guard := {| g_hp := None; g_ptr := 0; g_mark := 0 |}.

Record state := { pl : pool nat; guards : list guard }.

Inductive gop :=
| GAcquire (g v m : nat)               (* guards[g].acquire(p), p holding marked_ptr(object v, mark m) *)
| GAcquireIfEqual (g v m ev em : nat)  (* guards[g].acquire_if_equal(p, marked_ptr(ev, em)) *)
| GReset (g : nat)                     (* guards[g].reset()  (= destructor) *)
| GCtorPtr (g v m : nat)               (* destroy guards[g]; construct guard_ptr(marked_ptr(v, m)) in its place *)
| GCopyCtor (dst src : nat)            (* destroy guards[dst]; construct guard_ptr(guards[src]) in its place *)
| GMoveCtor (dst src : nat)            (* destroy guards[dst]; construct guard_ptr(std::move(guards[src])) *)
| GCopyAssign (dst src : nat)          (* guards[dst] = guards[src] *)
| GMoveAssign (dst src : nat)          (* guards[dst] = std::move(guards[src]) *)
| GSwap (a b : nat)                    (* guards[a].swap(guards[b]) *)
| GExit.                               (* all guards destroyed, thread exits, a new thread adopts the control block *)

(** [Exhausted] = bad_hazard_pointer_alloc was thrown; [Invalid] = the operation is not a C++ operation
    (guard index out of range, constructing from itself) or an assertion of the code failed *)
Inductive outcome := Ok | Exhausted | Invalid.

Definition get_g (st : state) (g : nat) : option guard := nth_error (guards st) g.
Definition put_g (st : state) (g : nat) (x : guard) : state :=
  {| pl := pl st; guards := set_nth g x (guards st) |}.
Definition with_pool (st : state) (p : pool nat) : state := {| pl := p; guards := guards st |}.

(** [thread_data::release_hazard_pointer(hp)] *)
Definition release_hp (st : state) (hp : option nat) : state :=
  match hp with
  | Some i => with_pool st (p_release i (pl st))
  | None => st
  end.

(** [guard_ptr::reset()] *)
Definition reset_guard (st : state) (g : nat) : state :=
  match get_g st g with
  | Some gd => put_g (release_hp st (g_hp gd)) g empty_guard
  | None => st
  end.

(** [if (hp == nullptr) hp = local_thread_data.alloc_hazard_pointer();] *)
Definition ensure_hp (cfg : config) (st : state) (hp : option nat) : ares nat :=
  match hp with
  | Some i => AOk i (pl st)
  | None => p_alloc cfg (pl st)
  end.

(** [hp->set_object(v); this->ptr = marked_ptr(v, m)] with hp = slot i *)
Definition protect (st : state) (p : pool nat) (g i v m : nat) : state :=
  put_g (with_pool st (p_set i v p)) g {| g_hp := Some i; g_ptr := v; g_mark := m |}.


(** [guard_ptr(const MarkedPtr& p)] into the (destroyed) guard g *)
Definition construct_from (cfg : config) (st : state) (g v m : nat) : outcome * state :=
  if v =? 0 then (Ok, put_g st g {| g_hp := None; g_ptr := v; g_mark := m |})
  else match p_alloc cfg (pl st) with
       | AOk i p => (Ok, protect st p g i v m)
       | AExh => (Exhausted, st)        (* the object is not constructed; the harness leaves an empty guard *)
       | ACorrupt => (Invalid, st)
       end.

(** one operation: outcome, return value of acquire_if_equal (false for the other operations), new state *)
Definition step (cfg : config) (st : state) (op : gop) : outcome * bool * state :=
  match op with
  | GAcquire g v m =>
      match get_g st g with
      | None => (Invalid, false, st)
      | Some gd =>
          if (v =? g_ptr gd) && (m =? g_mark gd) then (Ok, false, st)                  (* p1 == this->ptr *)
          else if v =? 0 then                                                          (* p.get() == nullptr: reset(); ptr = p *)
            (Ok, false, put_g (reset_guard st g) g {| g_hp := None; g_ptr := v; g_mark := m |})
          else match ensure_hp cfg st (g_hp gd) with
               | AOk i p => (Ok, false, protect st p g i v m)
               | AExh => (Exhausted, false, st)
               | ACorrupt => (Invalid, false, st)
               end
      end
  | GAcquireIfEqual g v m ev em =>
      match get_g st g with
      | None => (Invalid, false, st)
      | Some gd =>
          let eq := (v =? ev) && (m =? em) in
          if (v =? 0) || negb eq then       (* p1.get() == nullptr || p1 != expected: reset(); if (p1 == expected) ptr = p1 *)
            (Ok, eq, if eq then put_g (reset_guard st g) g {| g_hp := None; g_ptr := v; g_mark := m |} else reset_guard st g)
          else match ensure_hp cfg st (g_hp gd) with
               | AOk i p => (Ok, true, protect st p g i v m)
               | AExh => (Exhausted, false, st)
               | ACorrupt => (Invalid, false, st)
               end
      end
  | GReset g =>
      match get_g st g with
      | None => (Invalid, false, st)
      | Some _ => (Ok, false, reset_guard st g)
      end
  | GCtorPtr g v m =>
      match get_g st g with
      | None => (Invalid, false, st)
      | Some _ => let (o, st') := construct_from cfg (reset_guard st g) g v m in (o, false, st')
      end
  | GCopyCtor dst src =>
      match get_g st dst, get_g st src with
      | Some _, Some sd =>
          if dst =? src then (Invalid, false, st)
          else let (o, st') := construct_from cfg (reset_guard st dst) dst (g_ptr sd) (g_mark sd) in (o, false, st')
      | _, _ => (Invalid, false, st)
      end
  | GMoveCtor dst src =>
      match get_g st dst, get_g st src with
      | Some _, Some sd =>
          if dst =? src then (Invalid, false, st)
          else (Ok, false, put_g (put_g (reset_guard st dst) dst sd) src empty_guard)
      | _, _ => (Invalid, false, st)
      end
  | GCopyAssign dst src =>
      match get_g st dst, get_g st src with
      | Some dd, Some sd =>
          if dst =? src then (Ok, false, st)
          else if g_ptr sd =? 0 then
            (Ok, false, put_g (reset_guard st dst) dst {| g_hp := None; g_ptr := g_ptr sd; g_mark := g_mark sd |})
          else match ensure_hp cfg st (g_hp dd) with
               | AOk i p => (Ok, false, protect st p dst i (g_ptr sd) (g_mark sd))
               | AExh => (Exhausted, false, st)
               | ACorrupt => (Invalid, false, st)
               end
      | _, _ => (Invalid, false, st)
      end
  | GMoveAssign dst src =>
      match get_g st dst, get_g st src with
      | Some _, Some sd =>
          if dst =? src then (Ok, false, st)
          else (Ok, false, put_g (put_g (reset_guard st dst) dst sd) src empty_guard)
      | _, _ => (Invalid, false, st)
      end
  | GSwap a b =>
      match get_g st a, get_g st b with
      | Some ga, Some gb => (Ok, false, put_g (put_g st a gb) b ga)
      | _, _ => (Invalid, false, st)
      end
  | GExit =>
      (Ok, false, {| pl := p_init cfg (blocks (pl st)); guards := map (fun _ => empty_guard) (guards st) |})
  end.

Definition init (cfg : config) : state :=
  {| pl := p_init cfg []; guards := repeat empty_guard (cG cfg) |}.

(** * Canonical observation after each operation *)
Fixpoint insert_sorted (x : nat) (l : list nat) : list nat :=
  match l with
  | [] => [x]
  | y :: t => if x <=? y then x :: l else y :: insert_sorted x t
  end.
Definition sort (l : list nat) : list nat := fold_right insert_sorted [] l.

Record out := {
  o_res : outcome;
  o_ret : bool;
  o_guards : list (option nat * nat * nat);   (* per guard: slot index, object, mark *)
  o_prot : list nat;                          (* what a scan gathers, sorted (0 = a slot protecting nullptr) *)
  o_free : list nat;                          (* the free list from hint *)
  o_total : nat                               (* number of slots *)
}.

Definition observe (r : outcome) (b : bool) (st : state) : out :=
  {| o_res := r; o_ret := b;
     o_guards := map (fun g => (g_hp g, g_ptr g, g_mark g)) (guards st);
     o_prot := sort (gather (slots (pl st)));
     o_free := free_list (pl st);
     o_total := length (slots (pl st)) |}.

Fixpoint run_from (cfg : config) (st : state) (ops : list gop) : list out * state :=
  match ops with
  | [] => ([], st)
  | op :: r => let '(o, b, st') := step cfg st op in
               let (os, fin) := run_from cfg st' r in (observe o b st' :: os, fin)
  end.
Definition run (cfg : config) (ops : list gop) : list out * state := run_from cfg (init cfg) ops.

(** * Rendering (the lines the harness prints) *)
Local Open Scope string_scope.
Definition show_nat (n : nat) : string := DecimalString.NilEmpty.string_of_uint (Nat.to_uint n).
Fixpoint join (sep : string) (l : list string) : string :=
  match l with
  | [] => ""
  | [x] => x
  | x :: t => x ++ sep ++ join sep t
  end.
Definition show_guard (g : option nat * nat * nat) : string :=
  let '(h, v, m) := g in
  (match h with Some i => show_nat i | None => "-" end) ++ ":" ++ show_nat v ++ "." ++ show_nat m.
Definition show_out (o : out) : string :=
  (match o_res o with Ok => "ok" | Exhausted => "exhausted" | Invalid => "invalid" end)
  ++ " ret=" ++ (if o_ret o then "1" else "0")
  ++ " g=[" ++ join "," (map show_guard (o_guards o)) ++ "]"
  ++ " prot=[" ++ join "," (map show_nat (o_prot o)) ++ "]"
  ++ " free=[" ++ join "," (map show_nat (o_free o)) ++ "]"
  ++ " total=" ++ show_nat (o_total o).
Definition nl : string := String (ascii_of_nat 10) EmptyString.
Definition show_run (cfg : config) (ops : list gop) : string :=
  join nl (map show_out (fst (run cfg ops))).
