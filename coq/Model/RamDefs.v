(** Step-level model of xenium::ramalhete_queue<T*, reclaimer<GC>, entries_per_node<E>, pop_retries<R>>
    (ramalhete_queue.hpp) over a reclaimer whose guard acquisition is one atomic load and whose
    reclaimed nodes are never reused (what C01 guarantees to the container; harness/gc_reclaimer.hpp).
    One [Step] = one atomic access of the C++ code; [E] (entries_per_node) and [R] (pop_retries) are
    arguments of [step].  The index arithmetic is the GENERATED one (gen/RamalheteNodeGen.v):
    [C_step_size E], [C_max_idx E], [wmod idx E]; the counters are 32 bit ([wadd 32]).

    Blocks: 0 = the queue object (head at +0, tail at +64), 1 = the initial node; every push first
    allocates the pushed object itself (a token block of 8 bytes, harness element kind [ptr]): the
    queue's values are the POINTERS to these blocks, [tokv b] is the number printed for the object.
    pop() is the REPAIRED one: on the node hand-over path it executes the tail CAS (16) (_tail: h -> next, result
    ignored) before the head CAS (13), so that _tail never stays on a node that is unlinked and retired.
    Node layout: pop_idx +16, entries[i] +24+8i, push_idx +24+8E, next +32+8E, size 40+8E. *)
From Coq Require Import NArith List Bool.
From XV Require Import Base.Word Conc.Lts Conc.Ev gen.RamalheteNodeGen.
Import ListNotations.
Local Open Scope N_scope.

Inductive op := OPush (v : N) | OPop.

(** an entry: nullptr / a value (pointer to token block b) / marked_value(nullptr, 1) = "taken" *)
Inductive cell := CNull | CVal (b : N) | CTaken.

(** ghost fate of a ticket (node n, ticket k = idx / step_size, k < E) *)
Inductive fate :=
| FNone                 (* nothing happened to the entry yet *)
| FFilled (b : N)       (* a push stored b (entry CAS or pre-filled entry 0 of a linked node), not yet returned *)
| FPoisoned             (* the popper holding the ticket exchanged nullptr for "taken": the pusher moves on *)
| FConsumed (b : N).    (* the popper holding the ticket has seen b (load or exchange): b is returned *)

Inductive pc :=
| Idle
| Begin (o : op)
(* push; b = the value (token block) *)
| P1 (b : N)                   (* (3) t.acquire(_tail, acq) *)
| P2 (b t : N)                 (* idx = t->push_idx.fetch_add(step_size, rlx) *)
| P3 (b t : N)                 (* node full: LD _tail rlx; != t -> continue *)
| P4 (b t : N)                 (* LD t->next rlx; null -> new node(raw_val) (ALLOC) *)
| P5 (b t n i : N)             (* node ctor: ST n->entries[i] rlx (i = 0: the value, else nullptr) *)
| P6 (b t n : N)               (* (4) CAS t->next null -> n rel/rlx (link) *)
| P7 (t n : N)                 (* (5) CAS _tail t -> n rel/rlx; return *)
| P6a (b n : N)                (* link lost: ST n->push_idx 0 rlx *)
| P6b (b n : N)                (* delete n: ~node LD push_idx rlx *)
| P6c (b n : N)                (* ~node LD pop_idx sc (loop runs 0 times); FREE n; continue *)
| P9 (b t : N)                 (* (6) LD t->next acq *)
| P10 (b t nx : N)             (* (7) CAS _tail t -> nx rel/rlx (help); continue *)
| P8 (b t idx : N)             (* (8) CAS t->entries[idx % E] null -> b rel/rlx; failure -> continue *)
(* pop *)
| D1                           (* (9) h.acquire(_head, acq) *)
| D2 (h : N)                   (* (10) LD h->pop_idx acq *)
| D3 (h p : N)                 (* LD h->push_idx rlx; p >= q -> check next *)
| D4 (h : N)                   (* LD h->next rlx; null -> empty *)
| D5 (h : N)                   (* (11) idx = h->pop_idx.fetch_add(step_size, rel) *)
| D6 (h : N)                   (* node drained: (12) LD h->next acq; null -> empty *)
| D6t (h nx : N)               (* (16) CAS _tail h -> nx rel/rlx (result ignored): _tail must not stay on the node that is unlinked *)
| D7 (h nx : N)                (* (13) CAS _head h -> nx rel/rlx; success: reclaim h; continue *)
| D9 (h idx c : N)             (* LD h->entries[idx % E] rlx; c = re-reads done so far *)
| D10 (h idx b : N)            (* (14) LD h->entries[idx % E] acq; return b *)
| D11 (h idx : N).             (* (15) XCHG h->entries[idx % E] <- taken, acq *)

(** ghosts: [g_pushed] values in the order of their successful entry CAS (P8) / link CAS (P6);
    [g_popped] values in the order in which a popper saw them (first non-null load in D9, or the
    exchange D11 returning a value); [g_fate]; [g_nodes] every node ever linked, in chain order
    (the initial node first); [g_retired] nodes retired by the head CAS; [g_ptk]/[g_dtk] the valid
    tickets (node, k) in the order in which they were handed to pushers (push_idx fetch_add below
    max_idx; (n,0) at the link CAS of n) / to poppers (pop_idx fetch_add below max_idx);
    [g_ovf] a 32-bit counter wrapped around *)
Record state := mkSt {
  head : N; tail : N;
  popi : N -> N; pushi : N -> N; ent : N -> N -> cell; nnext : N -> N;
  nalloc : N; tokv : N -> N; th : nat -> pc;
  g_pushed : list N; g_popped : list N; g_fate : N -> N -> fate;
  g_nodes : list N; g_retired : list N;
  g_ptk : list (N * N); g_dtk : list (N * N);
  g_ovf : bool }.

Inductive action := Start (t : nat) (o : op) | Step (t : nat).

Definition setf {X : Type} (f : N -> X) (i : N) (v : X) : N -> X := fun j => if j =? i then v else f j.
Definition setf2 {X : Type} (f : N -> N -> X) (i k : N) (v : X) : N -> N -> X :=
  fun j => if j =? i then setf (f j) k v else f j.

(* field updates *)
Definition w_th (st : state) (f : nat -> pc) := mkSt (head st) (tail st) (popi st) (pushi st) (ent st) (nnext st) (nalloc st) (tokv st) f (g_pushed st) (g_popped st) (g_fate st) (g_nodes st) (g_retired st) (g_ptk st) (g_dtk st) (g_ovf st).
Definition w_head (st : state) (x : N) := mkSt x (tail st) (popi st) (pushi st) (ent st) (nnext st) (nalloc st) (tokv st) (th st) (g_pushed st) (g_popped st) (g_fate st) (g_nodes st) (g_retired st) (g_ptk st) (g_dtk st) (g_ovf st).
Definition w_tail (st : state) (x : N) := mkSt (head st) x (popi st) (pushi st) (ent st) (nnext st) (nalloc st) (tokv st) (th st) (g_pushed st) (g_popped st) (g_fate st) (g_nodes st) (g_retired st) (g_ptk st) (g_dtk st) (g_ovf st).
Definition w_popi (st : state) (f : N -> N) := mkSt (head st) (tail st) f (pushi st) (ent st) (nnext st) (nalloc st) (tokv st) (th st) (g_pushed st) (g_popped st) (g_fate st) (g_nodes st) (g_retired st) (g_ptk st) (g_dtk st) (g_ovf st).
Definition w_pushi (st : state) (f : N -> N) := mkSt (head st) (tail st) (popi st) f (ent st) (nnext st) (nalloc st) (tokv st) (th st) (g_pushed st) (g_popped st) (g_fate st) (g_nodes st) (g_retired st) (g_ptk st) (g_dtk st) (g_ovf st).
Definition w_ent (st : state) (f : N -> N -> cell) := mkSt (head st) (tail st) (popi st) (pushi st) f (nnext st) (nalloc st) (tokv st) (th st) (g_pushed st) (g_popped st) (g_fate st) (g_nodes st) (g_retired st) (g_ptk st) (g_dtk st) (g_ovf st).
Definition w_next (st : state) (f : N -> N) := mkSt (head st) (tail st) (popi st) (pushi st) (ent st) f (nalloc st) (tokv st) (th st) (g_pushed st) (g_popped st) (g_fate st) (g_nodes st) (g_retired st) (g_ptk st) (g_dtk st) (g_ovf st).
Definition w_nalloc (st : state) (x : N) := mkSt (head st) (tail st) (popi st) (pushi st) (ent st) (nnext st) x (tokv st) (th st) (g_pushed st) (g_popped st) (g_fate st) (g_nodes st) (g_retired st) (g_ptk st) (g_dtk st) (g_ovf st).
Definition w_tokv (st : state) (f : N -> N) := mkSt (head st) (tail st) (popi st) (pushi st) (ent st) (nnext st) (nalloc st) f (th st) (g_pushed st) (g_popped st) (g_fate st) (g_nodes st) (g_retired st) (g_ptk st) (g_dtk st) (g_ovf st).
Definition w_pushed (st : state) (l : list N) := mkSt (head st) (tail st) (popi st) (pushi st) (ent st) (nnext st) (nalloc st) (tokv st) (th st) l (g_popped st) (g_fate st) (g_nodes st) (g_retired st) (g_ptk st) (g_dtk st) (g_ovf st).
Definition w_popped (st : state) (l : list N) := mkSt (head st) (tail st) (popi st) (pushi st) (ent st) (nnext st) (nalloc st) (tokv st) (th st) (g_pushed st) l (g_fate st) (g_nodes st) (g_retired st) (g_ptk st) (g_dtk st) (g_ovf st).
Definition w_fate (st : state) (f : N -> N -> fate) := mkSt (head st) (tail st) (popi st) (pushi st) (ent st) (nnext st) (nalloc st) (tokv st) (th st) (g_pushed st) (g_popped st) f (g_nodes st) (g_retired st) (g_ptk st) (g_dtk st) (g_ovf st).
Definition w_nodes (st : state) (l : list N) := mkSt (head st) (tail st) (popi st) (pushi st) (ent st) (nnext st) (nalloc st) (tokv st) (th st) (g_pushed st) (g_popped st) (g_fate st) l (g_retired st) (g_ptk st) (g_dtk st) (g_ovf st).
Definition w_retired (st : state) (l : list N) := mkSt (head st) (tail st) (popi st) (pushi st) (ent st) (nnext st) (nalloc st) (tokv st) (th st) (g_pushed st) (g_popped st) (g_fate st) (g_nodes st) l (g_ptk st) (g_dtk st) (g_ovf st).
Definition w_ptk (st : state) (l : list (N * N)) := mkSt (head st) (tail st) (popi st) (pushi st) (ent st) (nnext st) (nalloc st) (tokv st) (th st) (g_pushed st) (g_popped st) (g_fate st) (g_nodes st) (g_retired st) l (g_dtk st) (g_ovf st).
Definition w_dtk (st : state) (l : list (N * N)) := mkSt (head st) (tail st) (popi st) (pushi st) (ent st) (nnext st) (nalloc st) (tokv st) (th st) (g_pushed st) (g_popped st) (g_fate st) (g_nodes st) (g_retired st) (g_ptk st) l (g_ovf st).
Definition w_ovf (st : state) (x : bool) := mkSt (head st) (tail st) (popi st) (pushi st) (ent st) (nnext st) (nalloc st) (tokv st) (th st) (g_pushed st) (g_popped st) (g_fate st) (g_nodes st) (g_retired st) (g_ptk st) (g_dtk st) x.

Definition L_head := LHeap 0 0.
Definition L_tail := LHeap 0 64.
Definition taken_bits : N := 9223372036854775808.     (* marked_value(nullptr, 1): the mark is bit 63 *)
Definition token_size : N := 8.
Definition vptr (n : N) : val := if n =? 0 then VInt 0 else VPtr (LHeap n 0) 0.
Definition vcell (c : cell) : val :=
  match c with CNull => VInt 0 | CVal b => VPtr (LHeap b 0) 0 | CTaken => VInt taken_bits end.

Definition init : state :=
  mkSt 1 1 (fun _ => 0) (fun _ => 0) (fun _ _ => CNull) (fun _ => 0) 2 (fun _ => 0) (fun _ => Idle)
       [] [] (fun _ _ => FNone) [1] [] [] [] false.

Section Ram.
  Variable E : N.      (* entries_per_node >= 1 *)
  Variable R : N.      (* pop_retries *)

  Definition SS : N := C_step_size E.            (* generated *)
  Definition MAXI : N := C_max_idx E.            (* generated: wmul 32 step_size E *)
  Definition slot_of (idx : N) : N := wmod idx E.     (* idx %= entries_per_node *)
  Definition tick_of (idx : N) : N := idx / SS.       (* ghost: the ticket number of a counter value *)

  Definition L_popi (n : N) := LHeap n 16.
  Definition L_ent (n i : N) := LHeap n (24 + 8 * i).
  Definition L_pushi (n : N) := LHeap n (24 + 8 * E).
  Definition L_next (n : N) := LHeap n (32 + 8 * E).
  Definition node_size : N := 40 + 8 * E.

  (** results: [1] ok / [1;x] value x / [0] empty / [2] impossible (a popper read "taken") *)
  (** [old = true]: the code BEFORE the repair (no tail CAS (16) in pop), kept only for the refutation
      witness; [step] is the repaired code *)
  Definition step_gen (old : bool) (st : state) (a : action) : option (state * list ev) :=
    match a with
    | Start t o =>
      match th st t with
      | Idle => Some (w_th st (upd (th st) t (Begin o)), [])
      | _ => None
      end
    | Step t =>
      let at_pc (s : state) (p : pc) := w_th s (upd (th s) t p) in
      let go (p : pc) (e : list ev) := Some (at_pc st p, e) in
      match th st t with
      | Idle => None
      | Begin (OPush v) =>
        let b := nalloc st in
        Some (at_pc (w_tokv (w_nalloc st (b + 1)) (setf (tokv st) b v)) (P1 b),
              [EStart t 0 [v]; EAlloc t b token_size])
      | Begin OPop => go D1 [EStart t 1 []]
      (* ---------------- push ---------------- *)
      | P1 b => go (P2 b (tail st)) [ELoad t L_tail mo_acq (vptr (tail st))]
      | P2 b tl =>
        let idx := pushi st tl in
        let nidx := wadd 32 idx SS in
        let st1 := w_ovf (w_pushi st (setf (pushi st) tl nidx)) (g_ovf st || negb (nidx =? idx + SS)) in
        let e := [ERmw t (L_pushi tl) mo_rlx (VInt idx) (VInt nidx)] in
        if MAXI <=? idx then Some (at_pc st1 (P3 b tl), e)
        else Some (at_pc (w_ptk st1 (g_ptk st ++ [(tl, tick_of idx)])) (P8 b tl idx), e)
      | P3 b tl =>
        go (if tail st =? tl then P4 b tl else P1 b) [ELoad t L_tail mo_rlx (vptr (tail st))]
      | P4 b tl =>
        let nx := nnext st tl in
        let e := [ELoad t (L_next tl) mo_rlx (vptr nx)] in
        if nx =? 0 then
          let n := nalloc st in
          (* new node(raw_val): pop_idx{0}, push_idx{step_size}, next{nullptr} are plain initialisations *)
          Some (at_pc (w_fate (w_next (w_pushi (w_popi (w_nalloc st (n + 1)) (setf (popi st) n 0))
                                               (setf (pushi st) n SS)) (setf (nnext st) n 0))
                              (fun n' => if n' =? n then (fun _ => FNone) else g_fate st n'))
                      (P5 b tl n 0),
                e ++ [EAlloc t n node_size])
        else go (P9 b tl) e
      | P5 b tl n i =>
        let c := if i =? 0 then CVal b else CNull in
        Some (at_pc (w_ent st (setf2 (ent st) n i c)) (if i + 1 <? E then P5 b tl n (i + 1) else P6 b tl n),
              [EStore t (L_ent n i) mo_rlx (vcell c)])
      | P6 b tl n =>
        if nnext st tl =? 0 then
          Some (at_pc (w_ptk (w_nodes (w_fate (w_pushed (w_next st (setf (nnext st) tl n)) (g_pushed st ++ [b]))
                                              (setf2 (g_fate st) n 0 (FFilled b)))
                                      (g_nodes st ++ [n]))
                             (g_ptk st ++ [(n, 0)]))
                      (P7 tl n),
                [ERmw t (L_next tl) mo_rel (VInt 0) (vptr n)])
        else go (P6a b n) [ECasF t (L_next tl) mo_rel mo_rlx (vptr (nnext st tl)) (VInt 0)]
      | P7 tl n =>
        if tail st =? tl then
          Some (at_pc (w_tail st n) Idle, [ERmw t L_tail mo_rel (vptr tl) (vptr n); ERet t [1]])
        else go Idle [ECasF t L_tail mo_rel mo_rlx (vptr (tail st)) (vptr tl); ERet t [1]]
      | P6a b n =>
        Some (at_pc (w_pushi st (setf (pushi st) n 0)) (P6b b n), [EStore t (L_pushi n) mo_rlx (VInt 0)])
      | P6b b n => go (P6c b n) [ELoad t (L_pushi n) mo_rlx (VInt (pushi st n))]
      | P6c b n => go (P1 b) [ELoad t (L_popi n) mo_sc (VInt (popi st n)); EFree t n]
      | P9 b tl => go (P10 b tl (nnext st tl)) [ELoad t (L_next tl) mo_acq (vptr (nnext st tl))]
      | P10 b tl nx =>
        if tail st =? tl then
          Some (at_pc (w_tail st nx) (P1 b), [ERmw t L_tail mo_rel (vptr tl) (vptr nx)])
        else go (P1 b) [ECasF t L_tail mo_rel mo_rlx (vptr (tail st)) (vptr tl)]
      | P8 b tl idx =>
        let i := slot_of idx in
        match ent st tl i with
        | CNull =>
          Some (at_pc (w_fate (w_pushed (w_ent st (setf2 (ent st) tl i (CVal b))) (g_pushed st ++ [b]))
                              (setf2 (g_fate st) tl (tick_of idx) (FFilled b)))
                      Idle,
                [ERmw t (L_ent tl i) mo_rel (VInt 0) (vcell (CVal b)); ERet t [1]])
        | c => go (P1 b) [ECasF t (L_ent tl i) mo_rel mo_rlx (vcell c) (VInt 0)]
        end
      (* ---------------- pop ---------------- *)
      | D1 => go (D2 (head st)) [ELoad t L_head mo_acq (vptr (head st))]
      | D2 h => go (D3 h (popi st h)) [ELoad t (L_popi h) mo_acq (VInt (popi st h))]
      | D3 h p =>
        let q := pushi st h in
        go (if q <=? p then D4 h else D5 h) [ELoad t (L_pushi h) mo_rlx (VInt q)]
      | D4 h =>
        let nx := nnext st h in
        let e := [ELoad t (L_next h) mo_rlx (vptr nx)] in
        if nx =? 0 then Some (at_pc st Idle, e ++ [ERet t [0]]) else go (D5 h) e
      | D5 h =>
        let idx := popi st h in
        let nidx := wadd 32 idx SS in
        let st1 := w_ovf (w_popi st (setf (popi st) h nidx)) (g_ovf st || negb (nidx =? idx + SS)) in
        let e := [ERmw t (L_popi h) mo_rel (VInt idx) (VInt nidx)] in
        if MAXI <=? idx then Some (at_pc st1 (D6 h), e)
        else Some (at_pc (w_dtk st1 (g_dtk st ++ [(h, tick_of idx)])) (D9 h idx 0), e)
      | D6 h =>
        let nx := nnext st h in
        let e := [ELoad t (L_next h) mo_acq (vptr nx)] in
        if nx =? 0 then Some (at_pc st Idle, e ++ [ERet t [0]]) else go (if old then D7 h nx else D6t h nx) e
      | D6t h nx =>
        if tail st =? h then
          Some (at_pc (w_tail st nx) (D7 h nx), [ERmw t L_tail mo_rel (vptr h) (vptr nx)])
        else go (D7 h nx) [ECasF t L_tail mo_rel mo_rlx (vptr (tail st)) (vptr h)]
      | D7 h nx =>
        if head st =? h then
          Some (at_pc (w_retired (w_head st nx) (g_retired st ++ [h])) D1,
                [ERmw t L_head mo_rel (vptr h) (vptr nx); ENote t 120 [h]])
        else go D1 [ECasF t L_head mo_rel mo_rlx (vptr (head st)) (vptr h)]
      | D9 h idx c =>
        let i := slot_of idx in
        let e := [ELoad t (L_ent h i) mo_rlx (vcell (ent st h i))] in
        match ent st h i with
        | CNull => go (if c <? R then D9 h idx (c + 1) else D11 h idx) e
        | CVal b =>
          Some (at_pc (w_fate (w_popped st (g_popped st ++ [b])) (setf2 (g_fate st) h (tick_of idx) (FConsumed b)))
                      (D10 h idx b), e)
        | CTaken => Some (at_pc st Idle, e ++ [ERet t [2]])
        end
      | D10 h idx b =>
        Some (at_pc st Idle, [ELoad t (L_ent h (slot_of idx)) mo_acq (vcell (ent st h (slot_of idx))); EFree t b; ERet t [1; tokv st b]])
      | D11 h idx =>
        let i := slot_of idx in
        let old := ent st h i in
        let e := [ERmw t (L_ent h i) mo_acq (vcell old) (VInt taken_bits)] in
        let st1 := w_ent st (setf2 (ent st) h i CTaken) in
        match old with
        | CNull => Some (at_pc (w_fate st1 (setf2 (g_fate st) h (tick_of idx) FPoisoned)) D1, e)
        | CVal b =>
          Some (at_pc (w_fate (w_popped st1 (g_popped st ++ [b])) (setf2 (g_fate st) h (tick_of idx) (FConsumed b))) Idle,
                e ++ [EFree t b; ERet t [1; tokv st b]])
        | CTaken => Some (at_pc st1 Idle, e ++ [ERet t [2]])
        end
      end
    end.

  Definition step : state -> action -> option (state * list ev) := step_gen false.
End Ram.
