(** Step-level model of xenium::reclamation::hazard_eras<> with the static allocation strategy
    he_allocation::static_strategy<K = 3, A = 0, B = 0>  (harness/recl_types.hpp: HEs<3>;
    xenium/reclamation/hazard_eras.hpp, impl/hazard_eras.hpp, detail/thread_block_list.hpp), driven by the
    generic protocol-conforming client of harness/h_recl.cpp (build/h_recl_he, and build/h_he = the same client
    with the reclaimer's static members named).

    Client operations (c = cell = a concurrent_ptr of the client, g = index of a persistent guard_ptr of the thread):
      repl c    tmp.acquire(cell[c]); n = new Node; if CAS(cell[c], tmp, n) tmp.reclaim() else delete n
      clear c   the same with n = nullptr
      read c    tmp.acquire(cell[c]); dereference; tmp.reset()
      hold c g  guards[g].acquire(cell[c]); dereference         (stays protected across operations)
      deref g   dereference guards[g]
      drop g    guards[g].reset()
      exit      the thread ends (last operation of a thread's program; the harness prints "inv exit / res ?" for it
                and then runs thread_end + the thread_local destructor): the persistent guards are reset, then
                ~thread_data: scan, abandon_retired_nodes, release_entry.

    guard_ptr::acquire(p, acquire):   G0  prev_era = he == nullptr ? 0 : he->get_era()      (he->value.load(relaxed))
                                      Q1  value = p.load(acquire);  null -> reset() (QR), this->ptr = value, return
                                      Q2  era = era_clock.load(relaxed);  era == prev_era -> this->ptr = value, return
                                          he != nullptr && he->guards() == 1 -> set_era (U1, U2), prev_era = era, loop
                                          he != nullptr -> he->release_guard(); he = nullptr; this->ptr.reset()
                                          he = alloc_hazard_era(era); prev_era = era; loop
    set_era(era):                     U1 / E1  value.store(era << 1, release)
                                      U2 / E2  fence(seq_cst)
    alloc_hazard_era(era):                ensure_has_control_block()
                                          last_hazard_era && last_era == era -> last_hazard_era->add_guard(); return it
                                          hint == nullptr -> throw bad_hazard_era_alloc  (ALLOC/FREE of the message)
                                      H1  result = hint; hint = result->value.load(relaxed).get()   (get_link)
                                          result->set_era(era) (E1, E2); result->add_guard(); last_hazard_era = result; last_era = era
    ensure_has_control_block():       W0  head.load(acquire)                       (acquire_inactive_entry = adopt_or_create_entry)
                                      W1  r->state.load(relaxed) == free ?
                                      W2  r->state.CAS(free -> inactive, acquire)
                                          new thread_control_block                 (ALLOC, in the preceding step; zero-initialised)
                                      A1  b->state.store(inactive, relaxed)
                                      A2  h = head.load(relaxed)
                                      A3  head.CAS_weak(h -> b, release/relaxed)   (retry with the seen value)
                                      I0  number_of_active_hes.fetch_add(3, relaxed)              (initialize)
                                      I1  eras[i].value.store(link(i+1), release)   i = 0, 1, 2  (set_link; the last: link(nullptr))
                                      I2  state.store(active, release)             (activate)
    release_hazard_era(he):               --he->guard_cnt != 0 -> he = nullptr (no atomic access: not a step)
                                          he == last_hazard_era -> last_hazard_era = nullptr
                                          he->value.store(link(hint), release); hint = he; he = nullptr
                                          (QR inside acquire, RR guard destructor, R2 inside reclaim, D1 drop, X0 thread_end)
    new Node:                         C1  construction_era = era_clock.load(relaxed)
    repl/clear:                       R1  cell.CAS_strong(tmp -> n, acq_rel/relaxed);  failure: delete n, ~tmp (RR)
    tmp.reclaim():                    R2  reset()
                                      R3  retirement_era = era_clock.fetch_add(1, release);  add_retired_node(p)
                                      T1  number_of_active_hes.load(relaxed)        (retired_nodes_threshold() = 0 * active + 0)
    scan():                           S0  number_of_active_hes.load(relaxed); protected_eras.reserve  (ALLOC 8 * active)
                                      S1  fence(seq_cst)
                                      S2  abandoned_retired_nodes.load(relaxed) == nullptr ?
                                      S3  abandoned_retired_nodes.exchange(nullptr, acquire)
                                      S4  head.load(acquire)
                                      S5  r->state.load(relaxed) == active ?
                                      S6  r->eras[i].value.load(relaxed); no link -> push_back (may reallocate)   i = 0, 1, 2
                                      S7  fence(acquire); sort; unique; reclaim_nodes(retire_list); reclaim_nodes(adopted);
                                          ~vector                 (FREE of every node n for which no gathered era e has
                                                                   construction_era(n) <= e <= retirement_era(n), FREE of the vector)
    ~thread_data():                       retire_list != nullptr -> scan() (S0 ...)
                                      X2  h = abandoned_retired_nodes.load(relaxed)         (still retire_list != nullptr)
                                      X3  abandoned_retired_nodes.CAS_weak(h -> retire_list, release/relaxed)  (retry with the seen value)
                                      X4  number_of_active_hes.fetch_sub(3, relaxed)        (control_block->abandon())
                                      X5  control_block->state.store(free, release)
                                          (the thread_data object is gone: [rcd], [hint], [fl] are reset in the model)

    One [Step] = one atomic access or fence, emitting exactly the event rt/xvrt prints.  Allocations and frees are
    not scheduling points and belong to the step of the preceding atomic access: they are modelled exactly (node
    56 bytes, control block 128, the vector of scan 8 * capacity with libstdc++'s doubling, the message of the
    exception 49), because heap blocks are numbered in allocation order (block i = "h<i>"; the cells' initial
    nodes are blocks 0..ncells-1).  compare_exchange_weak never fails spuriously under xvrt.
    The plain (non-atomic) fields guard_cnt, last_hazard_era, last_era of a control block are accessed by its owner
    only; they are updated in the step in which the code updates them (e.g. add_guard after the fence of set_era);
    they live in the control block and survive its release and adoption ([cnt], [lhe], [lera]).
    reclaim_nodes looks up lower_bound(construction_era) in the sorted duplicate-free vector and keeps the node iff that
    element exists and is <= retirement_era: that is [is_prot] (some gathered era lies in the node's interval).
    The thread block list is immutable except for insertion at the head, so a traversal carries the remaining
    suffix of the list; [abandoned_retired_nodes] and the retire lists are the chains hanging off their heads.

    Ghosts: [g_owner b] the thread owning control block b; [g_life n] the life cycle of node n (fresh / published
    in cell c / unlinked by t / retired by t / dropped by its creator); [g_where n] where a retired node is
    (retire list of t / the abandoned list / adopted by t, in flight / freed); [g_nfree n] how often n was freed;
    [g_uaf] a dereference hit a destroyed node.  [ce n] / [re n] are the real fields construction_era /
    retirement_era of the node (and never change once set).  Per guard: [gv] = the protection of [ptr] is valid ([ptr]
    is the real field this->ptr; while a re-acquire re-uses the guard's hazard era for a new era, [ptr] keeps its old
    value, unused, until the new value is assigned: [gv] is false exactly then); per thread [fl] = the free list of
    hazard era slots hanging off [hint]. *)
From Coq Require Import NArith List Bool Arith.
From XV Require Import Conc.Lts Conc.Ev.
Import ListNotations.

Inductive op :=
| ORepl (c : nat) | OClear (c : nat) | ORead (c : nat) | OHold (c g : nat) | ODeref (g : nat) | ODrop (g : nat) | OExit.

(** what an acquire belongs to: repl/clear ([fresh] = a new node is installed), read, hold *)
Inductive ctx := KRepl (c : nat) (fresh : bool) | KRead (c : nat) | KHold (c g : nat).

(** what a scan belongs to: guard_ptr::reclaim of repl/clear, ~thread_data *)
Inductive sctx := SRepl | SExit.

(** std::atomic<marked_ptr<void*,1>> value: mark set = link of the free list (index of the next slot of the same
    block), else the published era ([VEra 0] = the zero-initialised slot of a new block) *)
Inductive slotv := VLink (nx : option nat) | VEra (e : nat).

(** scan(): capacity and heap block of protected_eras, its contents, the adopted nodes *)
Record scan := mkScan { s_k : sctx; s_cap : nat; s_vec : option nat; s_prot : list nat; s_ad : list nat }.

Inductive pc :=
| Idle | Done
| Begin (o : op)
| G0 (k : ctx)
| Q1 (k : ctx) (prev : nat)
| Q2 (k : ctx) (prev : nat) (p : nat)
| W0 (k : ctx) (e : nat) | W1 (k : ctx) (e : nat) (r : nat) (rest : list nat) | W2 (k : ctx) (e : nat) (r : nat) (rest : list nat)
| A1 (k : ctx) (e : nat) (b : nat) | A2 (k : ctx) (e : nat) (b : nat) | A3 (k : ctx) (e : nat) (b : nat) (h : option nat)
| I0 (k : ctx) (e : nat) | I1 (k : ctx) (e : nat) (i : nat) | I2 (k : ctx) (e : nat)
| H1 (k : ctx) (e : nat)
| E1 (k : ctx) (e : nat) (i : nat) | E2 (k : ctx) (e : nat) (i : nat)
| U1 (k : ctx) (e : nat) | U2 (k : ctx) (e : nat)
| QR (k : ctx)
| C1 (c : nat) (n : nat)
| R1 (c : nat) (n : option nat)
| R2 (o : nat)
| R3 (o : nat)
| RR (r : list N)
| T1
| S0 (k : sctx) | S1 (s : scan) | S2 (s : scan) | S3 (s : scan) | S4 (s : scan)
| S5 (s : scan) (r : nat) (rest : list nat) | S6 (s : scan) (r : nat) (rest : list nat) (i : nat) | S7 (s : scan)
| D1 (g : nat)
| X0 (g : nat) | X2 | X3 (h : option nat) | X4 | X5.

Inductive life := LNone | LFresh (t : nat) | LPub (c : nat) | LUnl (t : nat) | LRet (t : nat) | LDropped.
Inductive place := PNone | PList (t : nat) | PAband | PFlight (t : nat) | PFreed.

(** guard_ptr: he (index of the slot in the thread's control block), this->ptr, ghost: valid *)
Record guard := mkG { he : option nat; ptr : option nat; gv : bool }.
Definition g0 : guard := mkG None None true.

(** thread_data: control_block, hint, (ghost: the free list), the client's guards (0..nslots-1 persistent, nslots = the
    temporary guard of repl/clear/read), retire_list (number_of_retired_nodes = its length) *)
Record tls := mkTl { rcd : option nat; hint : option nat; fl : list nat; gd : nat -> guard; rl : list nat }.
Definition tl0 : tls := mkTl None None [] (fun _ => g0) [].

Record state := mkSt {
  cells : nat -> option nat;       (* the client's concurrent_ptrs *)
  blist : list nat;                (* global_thread_block_list, head first *)
  est : nat -> nat;                (* entry::state: 0 free, 1 inactive, 2 active *)
  hz : nat -> nat -> slotv;        (* eras[i].value of control block b *)
  cnt : nat -> nat -> nat;         (* eras[i].guard_cnt of control block b *)
  lhe : nat -> option nat;         (* last_hazard_era of control block b *)
  lera : nat -> nat;               (* last_era of control block b *)
  aband : list nat;                (* abandoned_retired_nodes: the chain hanging off it *)
  nact : nat;                      (* number_of_active_hes *)
  clock : nat;                     (* era_clock *)
  nalloc : nat;                    (* number of tracked heap blocks allocated so far *)
  nextid : nat; nid : nat -> nat;  (* the harness' node ids (what a dereference returns) *)
  ce : nat -> nat; re : nat -> nat;  (* construction_era, retirement_era of node n *)
  th : nat -> pc; tl : nat -> tls;
  g_owner : nat -> option nat; g_life : nat -> life; g_where : nat -> place; g_nfree : nat -> nat; g_uaf : bool }.

Inductive action := Start (t : nat) (o : op) | Step (t : nat).

(** ** setters *)
Definition w_cells v (st : state) : state := mkSt v (blist st) (est st) (hz st) (cnt st) (lhe st) (lera st) (aband st) (nact st) (clock st) (nalloc st) (nextid st) (nid st) (ce st) (re st) (th st) (tl st) (g_owner st) (g_life st) (g_where st) (g_nfree st) (g_uaf st).
Definition w_blist v (st : state) : state := mkSt (cells st) v (est st) (hz st) (cnt st) (lhe st) (lera st) (aband st) (nact st) (clock st) (nalloc st) (nextid st) (nid st) (ce st) (re st) (th st) (tl st) (g_owner st) (g_life st) (g_where st) (g_nfree st) (g_uaf st).
Definition w_est v (st : state) : state := mkSt (cells st) (blist st) v (hz st) (cnt st) (lhe st) (lera st) (aband st) (nact st) (clock st) (nalloc st) (nextid st) (nid st) (ce st) (re st) (th st) (tl st) (g_owner st) (g_life st) (g_where st) (g_nfree st) (g_uaf st).
Definition w_hz v (st : state) : state := mkSt (cells st) (blist st) (est st) v (cnt st) (lhe st) (lera st) (aband st) (nact st) (clock st) (nalloc st) (nextid st) (nid st) (ce st) (re st) (th st) (tl st) (g_owner st) (g_life st) (g_where st) (g_nfree st) (g_uaf st).
Definition w_cnt v (st : state) : state := mkSt (cells st) (blist st) (est st) (hz st) v (lhe st) (lera st) (aband st) (nact st) (clock st) (nalloc st) (nextid st) (nid st) (ce st) (re st) (th st) (tl st) (g_owner st) (g_life st) (g_where st) (g_nfree st) (g_uaf st).
Definition w_lhe v (st : state) : state := mkSt (cells st) (blist st) (est st) (hz st) (cnt st) v (lera st) (aband st) (nact st) (clock st) (nalloc st) (nextid st) (nid st) (ce st) (re st) (th st) (tl st) (g_owner st) (g_life st) (g_where st) (g_nfree st) (g_uaf st).
Definition w_lera v (st : state) : state := mkSt (cells st) (blist st) (est st) (hz st) (cnt st) (lhe st) v (aband st) (nact st) (clock st) (nalloc st) (nextid st) (nid st) (ce st) (re st) (th st) (tl st) (g_owner st) (g_life st) (g_where st) (g_nfree st) (g_uaf st).
Definition w_aband v (st : state) : state := mkSt (cells st) (blist st) (est st) (hz st) (cnt st) (lhe st) (lera st) v (nact st) (clock st) (nalloc st) (nextid st) (nid st) (ce st) (re st) (th st) (tl st) (g_owner st) (g_life st) (g_where st) (g_nfree st) (g_uaf st).
Definition w_nact v (st : state) : state := mkSt (cells st) (blist st) (est st) (hz st) (cnt st) (lhe st) (lera st) (aband st) v (clock st) (nalloc st) (nextid st) (nid st) (ce st) (re st) (th st) (tl st) (g_owner st) (g_life st) (g_where st) (g_nfree st) (g_uaf st).
Definition w_clock v (st : state) : state := mkSt (cells st) (blist st) (est st) (hz st) (cnt st) (lhe st) (lera st) (aband st) (nact st) v (nalloc st) (nextid st) (nid st) (ce st) (re st) (th st) (tl st) (g_owner st) (g_life st) (g_where st) (g_nfree st) (g_uaf st).
Definition w_nalloc v (st : state) : state := mkSt (cells st) (blist st) (est st) (hz st) (cnt st) (lhe st) (lera st) (aband st) (nact st) (clock st) v (nextid st) (nid st) (ce st) (re st) (th st) (tl st) (g_owner st) (g_life st) (g_where st) (g_nfree st) (g_uaf st).
Definition w_nextid v (st : state) : state := mkSt (cells st) (blist st) (est st) (hz st) (cnt st) (lhe st) (lera st) (aband st) (nact st) (clock st) (nalloc st) v (nid st) (ce st) (re st) (th st) (tl st) (g_owner st) (g_life st) (g_where st) (g_nfree st) (g_uaf st).
Definition w_nid v (st : state) : state := mkSt (cells st) (blist st) (est st) (hz st) (cnt st) (lhe st) (lera st) (aband st) (nact st) (clock st) (nalloc st) (nextid st) v (ce st) (re st) (th st) (tl st) (g_owner st) (g_life st) (g_where st) (g_nfree st) (g_uaf st).
Definition w_ce v (st : state) : state := mkSt (cells st) (blist st) (est st) (hz st) (cnt st) (lhe st) (lera st) (aband st) (nact st) (clock st) (nalloc st) (nextid st) (nid st) v (re st) (th st) (tl st) (g_owner st) (g_life st) (g_where st) (g_nfree st) (g_uaf st).
Definition w_re v (st : state) : state := mkSt (cells st) (blist st) (est st) (hz st) (cnt st) (lhe st) (lera st) (aband st) (nact st) (clock st) (nalloc st) (nextid st) (nid st) (ce st) v (th st) (tl st) (g_owner st) (g_life st) (g_where st) (g_nfree st) (g_uaf st).
Definition w_th v (st : state) : state := mkSt (cells st) (blist st) (est st) (hz st) (cnt st) (lhe st) (lera st) (aband st) (nact st) (clock st) (nalloc st) (nextid st) (nid st) (ce st) (re st) v (tl st) (g_owner st) (g_life st) (g_where st) (g_nfree st) (g_uaf st).
Definition w_tl v (st : state) : state := mkSt (cells st) (blist st) (est st) (hz st) (cnt st) (lhe st) (lera st) (aband st) (nact st) (clock st) (nalloc st) (nextid st) (nid st) (ce st) (re st) (th st) v (g_owner st) (g_life st) (g_where st) (g_nfree st) (g_uaf st).
Definition w_g_owner v (st : state) : state := mkSt (cells st) (blist st) (est st) (hz st) (cnt st) (lhe st) (lera st) (aband st) (nact st) (clock st) (nalloc st) (nextid st) (nid st) (ce st) (re st) (th st) (tl st) v (g_life st) (g_where st) (g_nfree st) (g_uaf st).
Definition w_g_life v (st : state) : state := mkSt (cells st) (blist st) (est st) (hz st) (cnt st) (lhe st) (lera st) (aband st) (nact st) (clock st) (nalloc st) (nextid st) (nid st) (ce st) (re st) (th st) (tl st) (g_owner st) v (g_where st) (g_nfree st) (g_uaf st).
Definition w_g_where v (st : state) : state := mkSt (cells st) (blist st) (est st) (hz st) (cnt st) (lhe st) (lera st) (aband st) (nact st) (clock st) (nalloc st) (nextid st) (nid st) (ce st) (re st) (th st) (tl st) (g_owner st) (g_life st) v (g_nfree st) (g_uaf st).
Definition w_g_nfree v (st : state) : state := mkSt (cells st) (blist st) (est st) (hz st) (cnt st) (lhe st) (lera st) (aband st) (nact st) (clock st) (nalloc st) (nextid st) (nid st) (ce st) (re st) (th st) (tl st) (g_owner st) (g_life st) (g_where st) v (g_uaf st).
Definition w_g_uaf v (st : state) : state := mkSt (cells st) (blist st) (est st) (hz st) (cnt st) (lhe st) (lera st) (aband st) (nact st) (clock st) (nalloc st) (nextid st) (nid st) (ce st) (re st) (th st) (tl st) (g_owner st) (g_life st) (g_where st) (g_nfree st) v.
Definition wt_rcd v (x : tls) : tls := mkTl v (hint x) (fl x) (gd x) (rl x).
Definition wt_hint v (x : tls) : tls := mkTl (rcd x) v (fl x) (gd x) (rl x).
Definition wt_fl v (x : tls) : tls := mkTl (rcd x) (hint x) v (gd x) (rl x).
Definition wt_gd v (x : tls) : tls := mkTl (rcd x) (hint x) (fl x) v (rl x).
Definition wt_rl v (x : tls) : tls := mkTl (rcd x) (hint x) (fl x) (gd x) v.

Definition set_pc (t : nat) (p : pc) (st : state) : state := w_th (upd (th st) t p) st.
Definition set_tl (t : nat) (x : tls) (st : state) : state := w_tl (upd (tl st) t x) st.
Definition upd2 {X : Type} (f : nat -> nat -> X) (a b : nat) (v : X) : nat -> nat -> X :=
  fun i j => if (i =? a) && (j =? b) then v else f i j.

(** ** locations and values *)
Definition L_head := LNamed 0 0.
Definition L_nact := LNamed 1 0.
Definition L_aband := LNamed 2 0.
Definition L_clock := LNamed 3 0.
Definition L_cell (c : nat) := LNamed (N.of_nat (10 + c)) 0.
(* control block: next_entry 0, state 8, last_hazard_era 16, last_era 24, eras[i].value 32 + 16 i, eras[i].guard_cnt 40 + 16 i *)
Definition L_state (b : nat) := LHeap (N.of_nat b) 8.
Definition L_slot (b i : nat) := LHeap (N.of_nat b) (N.of_nat (32 + 16 * i)).
Definition rec_size : N := 128.
Definition node_size : N := 56.
Definition exc_size : N := 49.     (* std::runtime_error("hazard era pool exceeded"): the reference counted message *)
Definition vec_size (cap : nat) : N := N.of_nat (8 * cap).
Definition vptr (p : option nat) : val := match p with None => VInt 0 | Some n => VPtr (LHeap (N.of_nat n) 0) 0 end.
Definition vnat (n : nat) : val := VInt (N.of_nat n).
Definition vslot (b : nat) (v : slotv) : val :=
  match v with
  | VLink (Some j) => VPtr (L_slot b j) 32768        (* the mark bit of marked_ptr<void*,1> is bit 63 *)
  | VLink None => VInt 9223372036854775808
  | VEra e => vnat (2 * e)                           (* era << 1 *)
  end.
Definition link_of (v : slotv) : option nat := match v with VLink nx => nx | VEra _ => None end.
(** get_era() (assertions are compiled out: a link reads as era 0) *)
Definition era_of (v : slotv) : nat := match v with VLink _ => 0 | VEra e => e end.

Definition hd_opt (l : list nat) : option nat := match l with [] => None | x :: _ => Some x end.
Definition oeqb (a b : option nat) : bool :=
  match a, b with None, None => true | Some x, Some y => x =? y | _, _ => false end.
Definition mem (n : nat) (l : list nat) : bool := existsb (Nat.eqb n) l.
Definition is_nil (l : list nat) : bool := match l with [] => true | _ => false end.

(** results: ok / lost / null / the id of the dereferenced node / throw / ? (the harness does not know "exit") *)
Definition r_ok : list N := [0%N].
Definition r_lost : list N := [1%N].
Definition r_null : list N := [2%N].
Definition r_id (i : nat) : list N := [3%N; N.of_nat i].
Definition r_throw : list N := [4%N].
Definition r_exit : list N := [5%N].

Definition opcode (o : op) : N * list N :=
  match o with
  | ORepl c => (0%N, [N.of_nat c]) | OClear c => (1%N, [N.of_nat c]) | ORead c => (2%N, [N.of_nat c])
  | OHold c g => (3%N, [N.of_nat c; N.of_nat g]) | ODeref g => (4%N, [N.of_nat g]) | ODrop g => (5%N, [N.of_nat g])
  | OExit => (6%N, [])
  end.

Definition cell_of (k : ctx) : nat := match k with KRepl c _ => c | KRead c => c | KHold c _ => c end.
(** the guard an acquire works on *)
Definition guard_of (nslots : nat) (k : ctx) : nat := match k with KHold _ g => g | _ => nslots end.

(** era_clock starts at 1; the cells' initial nodes are constructed at era 1 *)
Definition init (ncells : nat) : state :=
  mkSt (fun c => if c <? ncells then Some c else None) [] (fun _ => 0) (fun _ _ => VEra 0) (fun _ _ => 0) (fun _ => None) (fun _ => 0)
       [] 0 1
       ncells (S ncells) (fun n => S n)
       (fun _ => 1) (fun _ => 0)
       (fun _ => Idle) (fun _ => tl0)
       (fun _ => None) (fun n => if n <? ncells then LPub n else LNone) (fun _ => PNone) (fun _ => 0) false.

(** a node that was destroyed (by the reclaimer, or by its creator after a lost CAS) *)
Definition dead (st : state) (n : nat) : bool := negb (g_nfree st n =? 0).

(** dereference of the node a guard holds *)
Definition deref (n : nat) (st : state) : state := w_g_uaf (g_uaf st || dead st n) st.
Definition deref_res (st : state) (g : guard) : list N :=
  match ptr g with Some n => r_id (nid st n) | None => r_null end.
Definition deref_g (g : guard) (st : state) : state := match ptr g with Some n => deref n st | None => st end.

Definition count (n : nat) (l : list nat) : nat := length (filter (Nat.eqb n) l).

(** the reclaimer runs the deleters of the nodes of [l] *)
Definition free_all (l : list nat) (st : state) : state :=
  w_g_nfree (fun n => g_nfree st n + count n l)
    (w_g_where (fun n => if mem n l then PFreed else g_where st n) st).
Definition free_evs (t : nat) (l : list nat) : list ev := map (fun n => EFree t (N.of_nat n)) l.
Definition move_all (l : list nat) (p : place) (st : state) : state :=
  w_g_where (fun n => if mem n l then p else g_where st n) st.

Definition set_gd (t : nat) (g : nat) (v : guard) (st : state) : state :=
  let x := tl st t in set_tl t (wt_gd (upd (gd x) g v) x) st.

Definition finish (st : state) (t : nat) (r : list N) (e : list ev) : option (state * list ev) :=
  Some (set_pc t Idle st, e ++ [ERet t r]).

(** release_hazard_era of guard [g] holding slot [i] of block [b] when it is the last guard on the slot (guard_cnt = 1):
    the slot goes back to the free list; guard_ptr::reset() then clears this->ptr *)
Definition reset_guard (st : state) (t : nat) (b i g : nat) : state :=
  let x := tl st t in
  set_tl t (wt_hint (Some i) (wt_fl (i :: fl x) (wt_gd (upd (gd x) g g0) x)))
    (w_hz (upd2 (hz st) b i (VLink (hint x)))
      (w_cnt (upd2 (cnt st) b i 0)
        (w_lhe (upd (lhe st) b (if oeqb (lhe st b) (Some i) then None else lhe st b)) st))).
Definition reset_ev (st : state) (t : nat) (b i : nat) : ev :=
  EStore t (L_slot b i) mo_rel (vslot b (VLink (hint (tl st t)))).

(** release_guard of guard [g] on slot [i] of block [b] when other guards share the slot (no atomic access);
    he = nullptr, this->ptr.reset() *)
Definition unshare (st : state) (t : nat) (b i g : nat) : state :=
  set_gd t g g0 (w_cnt (upd2 (cnt st) b i (pred (cnt st b i))) st).

(** guard [g] gives up its hazard era (if it has one): either the store of the link is the next step (program point
    [ps]), or the release needs no atomic access and [k] continues in the same step *)
Definition release_then (st : state) (t g : nat) (ps : pc) (e : list ev) (k : state -> option (state * list ev))
  : option (state * list ev) :=
  let x := tl st t in
  match he (gd x g) with
  | None => k st
  | Some i =>
    match rcd x with
    | None => None
    | Some b => if cnt st b i =? 1 then Some (set_pc t ps st, e) else k (unshare st t b i g)
    end
  end.

(** the guard's destructor, then the operation returns [r] *)
Definition ret_reset (nslots : nat) (st : state) (t : nat) (r : list N) (e : list ev) : option (state * list ev) :=
  release_then st t nslots (RR r) e (fun st1 => finish st1 t r e).

(** acquire has returned (this->ptr is set) *)
Definition acq_done (nslots : nat) (st : state) (t : nat) (k : ctx) (e : list ev) : option (state * list ev) :=
  let g := gd (tl st t) (guard_of nslots k) in
  match k with
  | KRead _ => ret_reset nslots (deref_g g st) t (deref_res st g) e
  | KHold _ _ => finish (deref_g g st) t (deref_res st g) e
  | KRepl c fresh =>
    if fresh then
      let n := nalloc st in
      Some (set_pc t (C1 c n)
              (w_nalloc (S n) (w_nextid (S (nextid st)) (w_nid (upd (nid st) n (nextid st)) (w_g_life (upd (g_life st) n (LFresh t)) st)))),
            e ++ [EAlloc t (N.of_nat n) node_size])
    else Some (set_pc t (R1 c None) st, e)
  end.

(** bad_hazard_era_alloc: the exception's message is allocated and freed; the harness returns "throw"
    (he == nullptr and this->ptr == nullptr, so the destructor of a temporary guard does nothing) *)
Definition throw (st : state) (t : nat) (e : list ev) : option (state * list ev) :=
  let b := nalloc st in
  finish (w_nalloc (S b) st) t r_throw (e ++ [EAlloc t (N.of_nat b) exc_size; EFree t (N.of_nat b)]).

(** alloc_hazard_era(era) with a control block: share the cached slot, or take one from the free list *)
Definition alloc_he (nslots : nat) (st : state) (t : nat) (k : ctx) (era : nat) (e : list ev) : option (state * list ev) :=
  let x := tl st t in
  let gi := guard_of nslots k in
  let g := gd x gi in
  let fresh := match hint x with
               | Some _ => Some (set_pc t (H1 k era) st, e)
               | None => throw st t e
               end in
  match rcd x with
  | None => None
  | Some b =>
    match lhe st b with
    | Some l =>
      if lera st b =? era then
        Some (set_pc t (Q1 k era) (set_gd t gi (mkG (Some l) (ptr g) (gv g)) (w_cnt (upd2 (cnt st) b l (S (cnt st b l))) st)), e)
      else fresh
    | None => fresh
    end
  end.

(** adopt_or_create_entry: next entry of the walk, or a new control block (zero-initialised, then the constructor
    of entry: state active) *)
Definition walk (st : state) (t : nat) (k : ctx) (p : nat) (l : list nat) (e : list ev) : option (state * list ev) :=
  match l with
  | r :: rest => Some (set_pc t (W1 k p r rest) st, e)
  | [] =>
    let b := nalloc st in
    Some (set_pc t (A1 k p b) (w_nalloc (S b) (w_est (upd (est st) b 2) (w_g_owner (upd (g_owner st) b (Some t)) st))),
          e ++ [EAlloc t (N.of_nat b) rec_size])
  end.

(** protected_eras.push_back(x) (libstdc++: the capacity doubles) *)
Definition push (st : state) (t : nat) (s : scan) (x : nat) : state * scan * list ev :=
  if length (s_prot s) <? s_cap s then (st, mkScan (s_k s) (s_cap s) (s_vec s) (s_prot s ++ [x]) (s_ad s), [])
  else
    let cap := length (s_prot s) + Nat.max (length (s_prot s)) 1 in
    let b := nalloc st in
    (w_nalloc (S b) st, mkScan (s_k s) cap (Some b) (s_prot s ++ [x]) (s_ad s),
     EAlloc t (N.of_nat b) (vec_size cap) :: match s_vec s with Some v => [EFree t (N.of_nat v)] | None => [] end).

Definition scan_next (st : state) (t : nat) (s : scan) (l : list nat) (e : list ev) : option (state * list ev) :=
  match l with
  | r :: rest => Some (set_pc t (S5 s r rest) st, e)
  | [] => Some (set_pc t (S7 s) st, e)
  end.

(** some gathered era lies in [c, r] *)
Definition is_prot (prot : list nat) (c r : nat) : bool := existsb (fun e => (c <=? e) && (e <=? r)) prot.

(** release_entry comes next (if the thread has a control block) *)
Definition exit_rel (st : state) (t : nat) (e : list ev) : option (state * list ev) :=
  match rcd (tl st t) with
  | Some _ => Some (set_pc t X4 st, e)
  | None => Some (set_pc t Done st, e)
  end.

(** ~thread_data *)
Definition exit_td (st : state) (t : nat) (e : list ev) : option (state * list ev) :=
  if is_nil (rl (tl st t)) then exit_rel st t e else Some (set_pc t (S0 SExit) st, e).

(** thread_end: the persistent guards from index [g] on are reset; the first one that has to store a link is the
    next step *)
Fixpoint exit_guards (st : state) (t : nat) (g : nat) (fuel : nat) (e : list ev) : option (state * list ev) :=
  match fuel with
  | O => exit_td st t e
  | S f => release_then st t g (X0 g) e (fun st1 => exit_guards st1 t (S g) f e)
  end.

Definition legal (nslots : nat) (o : op) : bool :=
  match o with
  | OHold _ g | ODeref g | ODrop g => g <? nslots
  | _ => true
  end.

(** the beginning of acquire: prev_era *)
Definition acq_begin (nslots : nat) (st : state) (t : nat) (k : ctx) (e : list ev) : option (state * list ev) :=
  match he (gd (tl st t) (guard_of nslots k)) with
  | Some _ => Some (set_pc t (G0 k) st, e)
  | None => Some (set_pc t (Q1 k 0) st, e)
  end.

Definition step (nslots : nat) (st : state) (a : action) : option (state * list ev) :=
  match a with
  | Start t o =>
    match th st t with
    | Idle => if legal nslots o then Some (set_pc t (Begin o) st, []) else None
    | _ => None
    end
  | Step t =>
    let x := tl st t in
    let go (p : pc) (e : list ev) := Some (set_pc t p st, e) in
    match th st t with
    | Idle | Done => None
    | Begin o =>
      let es := [EStart t (fst (opcode o)) (snd (opcode o))] in
      match o with
      | ORepl c => acq_begin nslots st t (KRepl c true) es
      | OClear c => acq_begin nslots st t (KRepl c false) es
      | ORead c => acq_begin nslots st t (KRead c) es
      | OHold c g => acq_begin nslots st t (KHold c g) es
      | ODeref g => finish (deref_g (gd x g) st) t (deref_res st (gd x g)) es
      | ODrop g => release_then st t g (D1 g) es (fun st1 => finish (set_gd t g g0 st1) t r_ok es)
      | OExit => exit_guards st t 0 nslots (es ++ [ERet t r_exit])
      end
    (* ---- guard_ptr::acquire ---- *)
    | G0 k =>
      match rcd x, he (gd x (guard_of nslots k)) with
      | Some b, Some i => go (Q1 k (era_of (hz st b i))) [ELoad t (L_slot b i) mo_rlx (vslot b (hz st b i))]
      | _, _ => None
      end
    | Q1 k prev =>
      let c := cell_of k in
      let gi := guard_of nslots k in
      let e := [ELoad t (L_cell c) mo_acq (vptr (cells st c))] in
      match cells st c with
      | Some p => go (Q2 k prev p) e
      | None => release_then st t gi (QR k) e (fun st1 => acq_done nslots (set_gd t gi g0 st1) t k e)
      end
    | Q2 k prev p =>
      let gi := guard_of nslots k in
      let g := gd x gi in
      let era := clock st in
      let e := [ELoad t L_clock mo_rlx (vnat era)] in
      if era =? prev then acq_done nslots (set_gd t gi (mkG (he g) (Some p) true) st) t k e
      else
        match he g with
        | Some i =>
          match rcd x with
          | None => None
          | Some b =>
            if cnt st b i =? 1 then go (U1 k era) e
            else alloc_he nslots (unshare st t b i gi) t k era e
          end
        | None =>
          match rcd x with
          | None => go (W0 k era) e
          | Some _ => alloc_he nslots st t k era e
          end
        end
    (* ---- acquire_inactive_entry ---- *)
    | W0 k p => walk st t k p (blist st) [ELoad t L_head mo_acq (vptr (hd_opt (blist st)))]
    | W1 k p r rest =>
      let e := [ELoad t (L_state r) mo_rlx (vnat (est st r))] in
      if est st r =? 0 then go (W2 k p r rest) e else walk st t k p rest e
    | W2 k p r rest =>
      if est st r =? 0 then
        Some (set_pc t (I0 k p) (set_tl t (wt_rcd (Some r) x) (w_est (upd (est st) r 1) (w_g_owner (upd (g_owner st) r (Some t)) st))),
              [ERmw t (L_state r) mo_acq (vnat 0) (vnat 1)])
      else walk st t k p rest [ECasF t (L_state r) mo_acq mo_acq (vnat (est st r)) (vnat 0)]
    | A1 k p b => Some (set_pc t (A2 k p b) (w_est (upd (est st) b 1) st), [EStore t (L_state b) mo_rlx (vnat 1)])
    | A2 k p b => go (A3 k p b (hd_opt (blist st))) [ELoad t L_head mo_rlx (vptr (hd_opt (blist st)))]
    | A3 k p b h =>
      if oeqb (hd_opt (blist st)) h then
        Some (set_pc t (I0 k p) (set_tl t (wt_rcd (Some b) x) (w_blist (b :: blist st) st)),
              [ERmw t L_head mo_rel (vptr h) (vptr (Some b))])
      else go (A3 k p b (hd_opt (blist st))) [ECasF t L_head mo_rel mo_rlx (vptr (hd_opt (blist st))) (vptr h)]
    (* ---- initialize, activate ---- *)
    | I0 k p => Some (set_pc t (I1 k p 0) (w_nact (nact st + 3) st), [ERmw t L_nact mo_rlx (vnat (nact st)) (vnat (nact st + 3))])
    | I1 k p i =>
      match rcd x with
      | None => None
      | Some b =>
        let v := VLink (if i <? 2 then Some (S i) else None) in
        let st1 := w_hz (upd2 (hz st) b i v) st in
        let e := [EStore t (L_slot b i) mo_rel (vslot b v)] in
        if i <? 2 then Some (set_pc t (I1 k p (S i)) st1, e)
        else Some (set_pc t (I2 k p) (set_tl t (wt_hint (Some 0) (wt_fl [0; 1; 2] x)) st1), e)
      end
    | I2 k p =>
      match rcd x with
      | None => None
      | Some b => alloc_he nslots (w_est (upd (est st) b 2) st) t k p [EStore t (L_state b) mo_rel (vnat 2)]
      end
    (* ---- alloc_hazard_era: hint = result->get_link(); set_era; add_guard ---- *)
    | H1 k era =>
      match rcd x, hint x with
      | Some b, Some i =>
        Some (set_pc t (E1 k era i) (set_tl t (wt_hint (link_of (hz st b i)) (wt_fl (List.tl (fl x)) x)) st),
              [ELoad t (L_slot b i) mo_rlx (vslot b (hz st b i))])
      | _, _ => None
      end
    | E1 k era i =>
      match rcd x with
      | Some b => Some (set_pc t (E2 k era i) (w_hz (upd2 (hz st) b i (VEra era)) st), [EStore t (L_slot b i) mo_rel (vslot b (VEra era))])
      | None => None
      end
    | E2 k era i =>
      let gi := guard_of nslots k in
      let g := gd x gi in
      match rcd x with
      | Some b =>
        Some (set_pc t (Q1 k era)
                (set_gd t gi (mkG (Some i) (ptr g) (gv g))
                   (w_cnt (upd2 (cnt st) b i (S (cnt st b i))) (w_lhe (upd (lhe st) b (Some i)) (w_lera (upd (lera st) b era) st)))),
              [EFence t mo_sc])
      | None => None
      end
    (* ---- set_era on the guard's own hazard era ---- *)
    | U1 k era =>
      let gi := guard_of nslots k in
      let g := gd x gi in
      match rcd x, he g with
      | Some b, Some i =>
        Some (set_pc t (U2 k era) (set_gd t gi (mkG (he g) (ptr g) false) (w_hz (upd2 (hz st) b i (VEra era)) st)),
              [EStore t (L_slot b i) mo_rel (vslot b (VEra era))])
      | _, _ => None
      end
    | U2 k era => go (Q1 k era) [EFence t mo_sc]
    | QR k =>
      let gi := guard_of nslots k in
      match rcd x, he (gd x gi) with
      | Some b, Some i => acq_done nslots (reset_guard st t b i gi) t k [reset_ev st t b i]
      | _, _ => None
      end
    (* ---- the new node's constructor; the client's CAS ---- *)
    | C1 c n => Some (set_pc t (R1 c (Some n)) (w_ce (upd (ce st) n (clock st)) st), [ELoad t L_clock mo_rlx (vnat (clock st))])
    | R1 c n =>
      let g := gd x nslots in
      if oeqb (cells st c) (ptr g) then
        let e := [ERmw t (L_cell c) mo_acqrel (vptr (ptr g)) (vptr n)] in
        let st1 := w_cells (upd (cells st) c n) st in
        let st2 := match n with Some n' => w_g_life (upd (g_life st1) n' (LPub c)) st1 | None => st1 end in
        match ptr g with
        | Some o =>
          let st3 := deref o (w_g_life (upd (g_life st2) o (LUnl t)) st2) in
          release_then st3 t nslots (R2 o) e (fun st4 => Some (set_pc t (R3 o) st4, e))
        | None => ret_reset nslots st2 t r_ok e
        end
      else
        let e := ECasF t (L_cell c) mo_acqrel mo_rlx (vptr (cells st c)) (vptr (ptr g))
                 :: match n with Some n' => [EFree t (N.of_nat n')] | None => [] end in
        let st1 := match n with
                   | Some n' => w_g_nfree (upd (g_nfree st) n' (S (g_nfree st n'))) (w_g_life (upd (g_life st) n' LDropped) st)
                   | None => st end in
        ret_reset nslots st1 t r_lost e
    (* ---- guard_ptr::reclaim: reset(); retirement_era = era_clock.fetch_add(1); add_retired_node ---- *)
    | R2 o =>
      match rcd x, he (gd x nslots) with
      | Some b, Some i => Some (set_pc t (R3 o) (reset_guard st t b i nslots), [reset_ev st t b i])
      | _, _ => None
      end
    | R3 o =>
      Some (set_pc t T1 (set_tl t (wt_rl (o :: rl x) x)
                           (w_clock (S (clock st)) (w_re (upd (re st) o (clock st))
                              (w_g_life (upd (g_life st) o (LRet t)) (w_g_where (upd (g_where st) o (PList t)) st))))),
            [ERmw t L_clock mo_rel (vnat (clock st)) (vnat (S (clock st)))])
    | RR r =>
      match rcd x, he (gd x nslots) with
      | Some b, Some i => finish (reset_guard st t b i nslots) t r [reset_ev st t b i]
      | _, _ => None
      end
    | T1 => go (S0 SRepl) [ELoad t L_nact mo_rlx (vnat (nact st))]
    (* ---- scan ---- *)
    | S0 k =>
      let e := [ELoad t L_nact mo_rlx (vnat (nact st))] in
      if nact st =? 0 then go (S1 (mkScan k 0 None [] [])) e
      else
        let b := nalloc st in
        Some (set_pc t (S1 (mkScan k (nact st) (Some b) [] [])) (w_nalloc (S b) st), e ++ [EAlloc t (N.of_nat b) (vec_size (nact st))])
    | S1 s => go (S2 s) [EFence t mo_sc]
    | S2 s =>
      let e := [ELoad t L_aband mo_rlx (vptr (hd_opt (aband st)))] in
      if is_nil (aband st) then go (S4 s) e else go (S3 s) e
    | S3 s =>
      let l := aband st in
      Some (set_pc t (S4 (mkScan (s_k s) (s_cap s) (s_vec s) (s_prot s) l)) (move_all l (PFlight t) (w_aband [] st)),
            [ERmw t L_aband mo_acq (vptr (hd_opt l)) (vptr None)])
    | S4 s => scan_next st t s (blist st) [ELoad t L_head mo_acq (vptr (hd_opt (blist st)))]
    | S5 s r rest =>
      let e := [ELoad t (L_state r) mo_rlx (vnat (est st r))] in
      if est st r =? 2 then go (S6 s r rest 0) e else scan_next st t s rest e
    | S6 s r rest i =>
      let e := [ELoad t (L_slot r i) mo_rlx (vslot r (hz st r i))] in
      let '(st1, s1, e1) := match hz st r i with VEra n => push st t s n | VLink _ => (st, s, []) end in
      if i <? 2 then Some (set_pc t (S6 s1 r rest (S i)) st1, e ++ e1) else scan_next st1 t s1 rest (e ++ e1)
    | S7 s =>
      let keepb := fun n => is_prot (s_prot s) (ce st n) (re st n) in
      let l := rl x ++ s_ad s in
      let freed := filter (fun n => negb (keepb n)) l in
      let kept := rev (filter keepb (s_ad s)) ++ rev (filter keepb (rl x)) in
      let e := EFence t mo_acq :: free_evs t freed ++ match s_vec s with Some v => [EFree t (N.of_nat v)] | None => [] end in
      let st1 := set_tl t (wt_rl kept x) (move_all kept (PList t) (free_all freed st)) in
      match s_k s with
      | SRepl => finish st1 t r_ok e
      | SExit => if is_nil kept then exit_rel st1 t e else Some (set_pc t X2 st1, e)
      end
    (* ---- drop ---- *)
    | D1 g =>
      match rcd x, he (gd x g) with
      | Some b, Some i => finish (reset_guard st t b i g) t r_ok [reset_ev st t b i]
      | _, _ => None
      end
    (* ---- thread exit ---- *)
    | X0 g =>
      match rcd x, he (gd x g) with
      | Some b, Some i => exit_guards (reset_guard st t b i g) t (S g) (nslots - S g) [reset_ev st t b i]
      | _, _ => None
      end
    | X2 => go (X3 (hd_opt (aband st))) [ELoad t L_aband mo_rlx (vptr (hd_opt (aband st)))]
    | X3 h =>
      if oeqb (hd_opt (aband st)) h then
        let l := rl x in
        exit_rel (set_tl t (wt_rl [] x) (move_all l PAband (w_aband (l ++ aband st) st))) t
          [ERmw t L_aband mo_rel (vptr h) (vptr (hd_opt l))]
      else go (X3 (hd_opt (aband st))) [ECasF t L_aband mo_rel mo_rlx (vptr (hd_opt (aband st))) (vptr h)]
    | X4 => Some (set_pc t X5 (w_nact (nact st - 3) st), [ERmw t L_nact mo_rlx (vnat (nact st)) (vnat (nact st - 3))])
    | X5 =>
      match rcd x with
      | None => None
      | Some b =>
        Some (set_pc t Done (set_tl t (mkTl None None [] (gd x) (rl x)) (w_est (upd (est st) b 0) (w_g_owner (upd (g_owner st) b None) st))),
              [EStore t (L_state b) mo_rel (vnat 0)])
      end
    end
  end.
