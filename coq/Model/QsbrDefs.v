(** Step-level model of xenium::reclamation::quiescent_state_based (harness/recl_types.hpp: QSBR;
    xenium/reclamation/quiescent_state_based.hpp, impl/quiescent_state_based.hpp, detail/thread_block_list.hpp,
    detail/orphan.hpp, detail/deletable_object.hpp), driven by the generic protocol-conforming client of
    harness/h_recl.cpp (built as build/h_qsbr = h_recl.cpp with rt::QSBR and the reclaimer's statics named; also
    build/h_recl_qsbr).

    Client operations (c = cell = a concurrent_ptr of the client, s = a persistent guard_ptr of the thread):
      repl c    g.acquire(cell[c]); n = new Node; if CAS(cell[c], g, n) g.reclaim() else delete n
      clear c   the same with n = nullptr
      read c    g.acquire(cell[c]); dereference; g.reset()
      hold c s  guards[s].acquire(cell[c]); dereference        (stays protected across operations)
      drop s    guards[s].reset()
      deref s   dereference guards[s]
      enter     region[t] = new region_guard (unless the thread has one)
      leave     delete region[t]
      exit      the thread ends: its guards are reset and its region_guard is deleted (harness thread_end; the last
                one leaves the outermost region = a quiescent state), then ~thread_data hands the three retire lists
                over as ONE orphan with target epoch (global_epoch + number_epochs - 1) % number_epochs and releases
                the thread control block.  The exit has no START event: [Start t OExit] moves the thread to the first
                atomic access of the exit sequence (the thread takes no step when it never owned a control block).
    Not modelled: copy / move / swap of guards, acquire_if_equal.

    guard_ptr::acquire(p):            A1  p.load(relaxed); nullptr -> reset()
                                          if (!this->ptr) enter_region()
                                      A2  this->ptr = p.load(acquire); nullptr -> leave_region()
    enter_region():                   ensure_has_control_block(); ++region_entries
    ensure_has_control_block():       C1  head.load(acquire)                               (adopt_or_create_entry)
                                      C2  r->state.load(relaxed) == free ?
                                      C3  r->state.CAS(free -> active, acquire)
                                          new thread_control_block  (ALLOC, in the preceding step; value-initialised:
                                          local_epoch 0)
                                      C4  result->state.store(active, relaxed)
                                      C5  h = head.load(relaxed)
                                      C6  head.CAS_weak(h -> result, release/relaxed)      (retry with the seen value)
                                      C7  epoch = global_epoch.load(relaxed)
                                      C8  local_epoch.store(epoch, relaxed)
                                      C9  global_epoch.CAS_weak(epoch -> epoch, acq_rel/relaxed)   (failure: C8 with the seen value)
    leave_region():                   --region_entries == 0 -> quiescent_state()
    quiescent_state():                Q1  epoch = global_epoch.load(acquire)
                                      Q2  local_epoch.load(relaxed) == epoch ?  (no: Q9 with epoch)
    try_update_epoch(e, e+1 mod 3):   S1  head.load(acquire)
                                      S2  p->local_epoch.load(relaxed) == (e+2) mod 3 ?
                                      S3  p->state.load(relaxed) == active ?   yes: give up, quiescent_state returns
                                      G1  global_epoch.load(relaxed) == e ?    (no: Q9 with e+1 mod 3)
                                      G2  fence(acquire)
                                      G3  global_epoch.CAS(e -> e+1 mod 3, acq_rel/relaxed)   (failure: Q9)
    adopt_orphans():                  G4  abandoned_retired_nodes.load(relaxed) == nullptr ?
                                      G5  abandoned_retired_nodes.exchange(nullptr, acquire); every orphan of the chain is
                                          pushed onto retire_lists[its target_epoch]
                                      Q9  local_epoch.store(epoch, release); delete_objects(retire_lists[epoch])
                                          (deleting an orphan deletes the three lists it carries, then the orphan)
    guard_ptr::reclaim():             R4  e = local_epoch.load(relaxed); push onto retire_lists[e]; reset()
    ~thread_data():                   X0  (harness: guards reset, region_guard deleted) = Q1 of the last leave_region
                                      X1  g = global_epoch.load(relaxed)
                                      XC  global_epoch.CAS_weak(g -> g, acq_rel/relaxed)   (failure: XC with the seen value; the CAS
                                          reads the latest value of global_epoch); new orphan((g + 2) % 3, retire_lists)   (ALLOC)
                                      X2  h = abandoned_retired_nodes.load(relaxed)
                                      X3  abandoned_retired_nodes.CAS_weak(h -> orphan, release/relaxed)
                                      X4  control_block->state.store(free, release)

    One [Step] = one atomic access or fence, emitting exactly the event rt/xvrt prints; allocations and frees are
    not scheduling points and belong to the step of the preceding atomic access.  compare_exchange_weak never
    fails spuriously under xvrt.  Heap blocks are numbered in allocation order (block i = "h<i>"); the cells'
    initial nodes are blocks 0..ncells-1.  The thread block list is immutable except for insertion at the
    head, so a traversal carries the remaining suffix of the list.

    global_epoch and local_epoch hold the epoch MODULO 3.  Ghost counters: [g_gepc] the number of successful
    advances of global_epoch (the unbounded epoch), [g_lepc b] the value of [g_gepc] when the owner of control block b
    last published its local epoch (C9 success / Q9).  An orphan is immutable once created, so it is represented by
    the flat sequence [ocont o] of everything its destruction frees, in that order; an orphan swallowed by another one
    (it sat in a retire list of a thread that exited) hands its content to the new orphan.
    Further ghosts: [g_owner b] the thread owning control block b; [g_life n] the life cycle of block n
    (fresh node / published in cell c / unlinked by t, about to be retired / retired by t with local epoch r when
    the global epoch was g / dropped by its creator / orphan created by t at global epoch g); [g_where n] where a
    retired node or an orphan is (retire list i of thread t / in the hand of the exiting thread t / the global
    abandoned list / inside orphan o / freed); [g_nfree n] how often the reclaimer freed n; [g_uaf] a dereference
    hit a destroyed node.

    [step_gen toff]: the orphan's target epoch is (global_epoch + toff) mod 3; the code has toff = number_epochs - 1 = 2
    ([step]).  toff = 1 is the (wrong) target "global_epoch + 1" (Proof/QsbrInv.v: qsbr_orphan_target_wrong_refuted). *)
From Coq Require Import NArith List Bool.
From XV Require Import Conc.Lts Conc.Ev.
Import ListNotations.
Local Open Scope N_scope.

Inductive op :=
| ORepl (c : N) | OClear (c : N) | ORead (c : N) | OHold (c : N) (s : nat) | ODrop (s : nat) | ODeref (s : nat)
| OEnter | OLeave | OExit.

(** what an enter_region belongs to: repl/clear ([fresh] = a new node is installed), read, hold, the constructor of the
    region_guard object r (the client stores the pointer to it when the constructor returns) *)
Inductive ctx := KRepl (c : N) (fresh : bool) | KRead (c : N) | KHold (c : N) (s : nat) | KEnter (r : N).

(** what follows leave_region: the operation returns [r] (after deleting the region_guard object [fr]) / repl continues
    with an empty guard / the thread exit continues with ~thread_data *)
Inductive lcont := LFin (r : list N) (fr : option N) | LRepl (c : N) (fresh : bool) | LExit (fr : option N).

Inductive pc :=
| Idle
| Begin (o : op)
| A1 (k : ctx)
| C1 (k : ctx) | C2 (k : ctx) (r : N) (rest : list N) | C3 (k : ctx) (r : N) (rest : list N)
| C4 (k : ctx) (b : N) | C5 (k : ctx) (b : N) | C6 (k : ctx) (b : N) (h : option N)
| C7 (k : ctx) | C8 (k : ctx) (e : N) | C9 (k : ctx) (e : N)
| A2 (k : ctx)
| R3 (c : N) (g : option N) (n : option N) | R4 (old : N)
| Q1 (k : lcont) | Q2 (k : lcont) (e : N)
| S1 (k : lcont) (e : N) | S2 (k : lcont) (e : N) (p : N) (rest : list N) | S3 (k : lcont) (e : N) (p : N) (rest : list N)
| G1 (k : lcont) (e : N) | G2 (k : lcont) (e : N) | G3 (k : lcont) (e : N) | G4 (k : lcont) (e : N) | G5 (k : lcont) (e : N)
| Q9 (k : lcont) (e : N)
| X0 | X1 | XC (e : N) | X2 (o : N) | X3 (o : N) (h : option N) | X4.

Inductive life := LNone | LFresh (t : nat) | LPub (c : N) | LUnl (t : nat) | LRet (t : nat) (r g : N) | LDropped | LOrph (t : nat) (g : N).
Inductive place := PNone | PList (t : nat) (i : N) | PHand (t : nat) | PAband | PIn (o : N) | PFreed.

(** thread_data: control_block, region_entries, retire_lists[3]; plus the client's region_guard object and
    persistent guards of the thread *)
Record tls := mkTl { cb : option N; nest : nat; rg : option N; rl : N -> list N; gs : nat -> option N }.

Record state := mkSt {
  gep : N;                         (* global_epoch (mod 3) *)
  blist : list N;                  (* global_thread_block_list, head first *)
  bstate : N -> N;                 (* entry::state: 0 free, 2 active *)
  blocal : N -> N;                 (* local_epoch (mod 3) *)
  aband : list N;                  (* abandoned_retired_nodes: the chain of orphans hanging off it *)
  otgt : N -> N;                   (* orphan::target_epoch *)
  ocont : N -> list N;             (* what deleting the orphan frees before the orphan itself, in order *)
  cells : N -> option N;           (* the client's concurrent_ptrs *)
  nalloc : N;                      (* number of tracked heap blocks allocated so far *)
  nextid : N; nid : N -> N;        (* the harness' node ids (what a dereference returns) *)
  th : nat -> pc; tl : nat -> tls;
  g_gepc : N; g_lepc : N -> N;
  g_owner : N -> option nat; g_life : N -> life; g_where : N -> place; g_nfree : N -> nat; g_uaf : bool }.

Inductive action := Start (t : nat) (o : op) | Step (t : nat).

(** ** setters *)
Definition w_gep v (st : state) : state := mkSt v (blist st) (bstate st) (blocal st) (aband st) (otgt st) (ocont st) (cells st) (nalloc st) (nextid st) (nid st) (th st) (tl st) (g_gepc st) (g_lepc st) (g_owner st) (g_life st) (g_where st) (g_nfree st) (g_uaf st).
Definition w_blist v (st : state) : state := mkSt (gep st) v (bstate st) (blocal st) (aband st) (otgt st) (ocont st) (cells st) (nalloc st) (nextid st) (nid st) (th st) (tl st) (g_gepc st) (g_lepc st) (g_owner st) (g_life st) (g_where st) (g_nfree st) (g_uaf st).
Definition w_bstate v (st : state) : state := mkSt (gep st) (blist st) v (blocal st) (aband st) (otgt st) (ocont st) (cells st) (nalloc st) (nextid st) (nid st) (th st) (tl st) (g_gepc st) (g_lepc st) (g_owner st) (g_life st) (g_where st) (g_nfree st) (g_uaf st).
Definition w_blocal v (st : state) : state := mkSt (gep st) (blist st) (bstate st) v (aband st) (otgt st) (ocont st) (cells st) (nalloc st) (nextid st) (nid st) (th st) (tl st) (g_gepc st) (g_lepc st) (g_owner st) (g_life st) (g_where st) (g_nfree st) (g_uaf st).
Definition w_aband v (st : state) : state := mkSt (gep st) (blist st) (bstate st) (blocal st) v (otgt st) (ocont st) (cells st) (nalloc st) (nextid st) (nid st) (th st) (tl st) (g_gepc st) (g_lepc st) (g_owner st) (g_life st) (g_where st) (g_nfree st) (g_uaf st).
Definition w_otgt v (st : state) : state := mkSt (gep st) (blist st) (bstate st) (blocal st) (aband st) v (ocont st) (cells st) (nalloc st) (nextid st) (nid st) (th st) (tl st) (g_gepc st) (g_lepc st) (g_owner st) (g_life st) (g_where st) (g_nfree st) (g_uaf st).
Definition w_ocont v (st : state) : state := mkSt (gep st) (blist st) (bstate st) (blocal st) (aband st) (otgt st) v (cells st) (nalloc st) (nextid st) (nid st) (th st) (tl st) (g_gepc st) (g_lepc st) (g_owner st) (g_life st) (g_where st) (g_nfree st) (g_uaf st).
Definition w_cells v (st : state) : state := mkSt (gep st) (blist st) (bstate st) (blocal st) (aband st) (otgt st) (ocont st) v (nalloc st) (nextid st) (nid st) (th st) (tl st) (g_gepc st) (g_lepc st) (g_owner st) (g_life st) (g_where st) (g_nfree st) (g_uaf st).
Definition w_nalloc v (st : state) : state := mkSt (gep st) (blist st) (bstate st) (blocal st) (aband st) (otgt st) (ocont st) (cells st) v (nextid st) (nid st) (th st) (tl st) (g_gepc st) (g_lepc st) (g_owner st) (g_life st) (g_where st) (g_nfree st) (g_uaf st).
Definition w_nextid v (st : state) : state := mkSt (gep st) (blist st) (bstate st) (blocal st) (aband st) (otgt st) (ocont st) (cells st) (nalloc st) v (nid st) (th st) (tl st) (g_gepc st) (g_lepc st) (g_owner st) (g_life st) (g_where st) (g_nfree st) (g_uaf st).
Definition w_nid v (st : state) : state := mkSt (gep st) (blist st) (bstate st) (blocal st) (aband st) (otgt st) (ocont st) (cells st) (nalloc st) (nextid st) v (th st) (tl st) (g_gepc st) (g_lepc st) (g_owner st) (g_life st) (g_where st) (g_nfree st) (g_uaf st).
Definition w_th v (st : state) : state := mkSt (gep st) (blist st) (bstate st) (blocal st) (aband st) (otgt st) (ocont st) (cells st) (nalloc st) (nextid st) (nid st) v (tl st) (g_gepc st) (g_lepc st) (g_owner st) (g_life st) (g_where st) (g_nfree st) (g_uaf st).
Definition w_tl v (st : state) : state := mkSt (gep st) (blist st) (bstate st) (blocal st) (aband st) (otgt st) (ocont st) (cells st) (nalloc st) (nextid st) (nid st) (th st) v (g_gepc st) (g_lepc st) (g_owner st) (g_life st) (g_where st) (g_nfree st) (g_uaf st).
Definition w_g_gepc v (st : state) : state := mkSt (gep st) (blist st) (bstate st) (blocal st) (aband st) (otgt st) (ocont st) (cells st) (nalloc st) (nextid st) (nid st) (th st) (tl st) v (g_lepc st) (g_owner st) (g_life st) (g_where st) (g_nfree st) (g_uaf st).
Definition w_g_lepc v (st : state) : state := mkSt (gep st) (blist st) (bstate st) (blocal st) (aband st) (otgt st) (ocont st) (cells st) (nalloc st) (nextid st) (nid st) (th st) (tl st) (g_gepc st) v (g_owner st) (g_life st) (g_where st) (g_nfree st) (g_uaf st).
Definition w_g_owner v (st : state) : state := mkSt (gep st) (blist st) (bstate st) (blocal st) (aband st) (otgt st) (ocont st) (cells st) (nalloc st) (nextid st) (nid st) (th st) (tl st) (g_gepc st) (g_lepc st) v (g_life st) (g_where st) (g_nfree st) (g_uaf st).
Definition w_g_life v (st : state) : state := mkSt (gep st) (blist st) (bstate st) (blocal st) (aband st) (otgt st) (ocont st) (cells st) (nalloc st) (nextid st) (nid st) (th st) (tl st) (g_gepc st) (g_lepc st) (g_owner st) v (g_where st) (g_nfree st) (g_uaf st).
Definition w_g_where v (st : state) : state := mkSt (gep st) (blist st) (bstate st) (blocal st) (aband st) (otgt st) (ocont st) (cells st) (nalloc st) (nextid st) (nid st) (th st) (tl st) (g_gepc st) (g_lepc st) (g_owner st) (g_life st) v (g_nfree st) (g_uaf st).
Definition w_g_nfree v (st : state) : state := mkSt (gep st) (blist st) (bstate st) (blocal st) (aband st) (otgt st) (ocont st) (cells st) (nalloc st) (nextid st) (nid st) (th st) (tl st) (g_gepc st) (g_lepc st) (g_owner st) (g_life st) (g_where st) v (g_uaf st).
Definition w_g_uaf v (st : state) : state := mkSt (gep st) (blist st) (bstate st) (blocal st) (aband st) (otgt st) (ocont st) (cells st) (nalloc st) (nextid st) (nid st) (th st) (tl st) (g_gepc st) (g_lepc st) (g_owner st) (g_life st) (g_where st) (g_nfree st) v.
Definition wt_cb v (x : tls) : tls := mkTl v (nest x) (rg x) (rl x) (gs x).
Definition wt_nest v (x : tls) : tls := mkTl (cb x) v (rg x) (rl x) (gs x).
Definition wt_rg v (x : tls) : tls := mkTl (cb x) (nest x) v (rl x) (gs x).
Definition wt_rl v (x : tls) : tls := mkTl (cb x) (nest x) (rg x) v (gs x).
Definition wt_gs v (x : tls) : tls := mkTl (cb x) (nest x) (rg x) (rl x) v.

Definition updN {X : Type} (f : N -> X) (i : N) (v : X) : N -> X := fun j => if j =? i then v else f j.
Definition set_pc (t : nat) (p : pc) (st : state) : state := w_th (upd (th st) t p) st.
Definition set_tl (t : nat) (x : tls) (st : state) : state := w_tl (upd (tl st) t x) st.

(** ** locations and values *)
Definition L_head := LNamed 0 0.
Definition L_gep := LNamed 1 0.
Definition L_aband := LNamed 2 0.
Definition L_cell (c : N) := LNamed (10 + c) 0.
Definition L_bstate (b : N) := LHeap b 8.      (* thread_control_block: next_entry 0, state 8, local_epoch 12 *)
Definition L_blocal (b : N) := LHeap b 12.
Definition tcb_size : N := 16.
Definition node_size : N := 40.
Definition orph_size : N := 48.
Definition rg_size : N := 1.
Definition vptr (p : option N) : val := match p with None => VInt 0 | Some n => VPtr (LHeap n 0) 0 end.
Definition hd_opt (l : list N) : option N := match l with [] => None | x :: _ => Some x end.
Definition oeqb (a b : option N) : bool :=
  match a, b with None, None => true | Some x, Some y => x =? y | _, _ => false end.
Definition memN (n : N) (l : list N) : bool := existsb (N.eqb n) l.
Definition is_nil (l : list N) : bool := match l with [] => true | _ => false end.
Definition is_some {X} (o : option X) : bool := match o with Some _ => true | None => false end.

(** results: ok / lost / null / the id of the dereferenced node *)
Definition r_ok : list N := [0].
Definition r_lost : list N := [1].
Definition r_null : list N := [2].
Definition r_id (i : N) : list N := [3; i].

Definition opcode (o : op) : N * list N :=
  match o with
  | ORepl c => (0, [c]) | OClear c => (1, [c]) | ORead c => (2, [c])
  | OHold c s => (3, [c; N.of_nat s]) | ODrop s => (4, [N.of_nat s]) | ODeref s => (5, [N.of_nat s])
  | OEnter => (6, []) | OLeave => (7, []) | OExit => (8, [])
  end.

Definition cell_of (k : ctx) : N := match k with KRepl c _ => c | KRead c => c | KHold c _ => c | KEnter _ => 0 end.

(** number of non-empty guards among the slots 0..n-1 *)
Fixpoint cnt_held (g : nat -> option N) (n : nat) : nat :=
  match n with O => O | S m => ((if is_some (g m) then 1 else 0) + cnt_held g m)%nat end.

Definition tl0 : tls := mkTl None 0 None (fun _ => []) (fun _ => None).

Definition init (ncells : N) : state :=
  mkSt 0 [] (fun _ => 0) (fun _ => 0) [] (fun _ => 0) (fun _ => [])
       (fun c => if c <? ncells then Some c else None) ncells (ncells + 1) (fun n => n + 1)
       (fun _ => Idle) (fun _ => tl0)
       0 (fun _ => 0)
       (fun _ => None) (fun n => if n <? ncells then LPub n else LNone) (fun _ => PNone) (fun _ => O) false.

(** a node the reclaimer has destroyed (or its creator dropped) *)
Definition dead (st : state) (n : N) : bool :=
  negb (Nat.eqb (g_nfree st n) 0) || match g_life st n with LDropped => true | _ => false end.

(** dereference of node n *)
Definition deref (n : N) (st : state) : state := w_g_uaf (g_uaf st || dead st n) st.

(** what delete_objects(l) frees, in order: an orphan's content, then the orphan *)
Definition expand (oc : N -> list N) (l : list N) : list N := flat_map (fun x => oc x ++ [x]) l.

(** the reclaimer runs the deleters of the blocks of [l] *)
Definition free_all (l : list N) (st : state) : state :=
  w_g_nfree (fun n => (g_nfree st n + length (filter (N.eqb n) l))%nat)
    (w_g_where (fun n => if memN n l then PFreed else g_where st n) st).
Definition free_evs (t : nat) (l : list N) : list ev := map (EFree t) l.
Definition free_opt (t : nat) (fr : option N) : list ev := match fr with Some r => [EFree t r] | None => [] end.

(** adopt_orphans: every orphan of the chain [l] (head first) is pushed onto the retire list of its target epoch *)
Definition adopt (tg : N -> N) (l : list N) (r : N -> list N) : N -> list N :=
  fun i => rev (filter (fun o => tg o =? i) l) ++ r i.

(** ~thread_data: an orphan is needed unless all retire lists are empty *)
Definition xstart (r : N -> list N) : pc := if is_nil (r 0) && is_nil (r 1) && is_nil (r 2) then X4 else X1.

Definition finish (st : state) (t : nat) (r : list N) (e : list ev) : option (state * list ev) :=
  Some (set_pc t Idle st, e ++ [ERet t r]).

(** the CAS of repl/clear comes next; [repl] allocates its new node first *)
Definition to_cas (st : state) (t : nat) (c : N) (g : option N) (fresh : bool) (e : list ev) : option (state * list ev) :=
  if fresh then
    let n := nalloc st in
    Some (set_pc t (R3 c g (Some n))
            (w_nalloc (n + 1) (w_nextid (nextid st + 1) (w_nid (updN (nid st) n (nextid st)) (w_g_life (updN (g_life st) n (LFresh t)) st)))),
          e ++ [EAlloc t n node_size])
  else Some (set_pc t (R3 c g None) st, e).

Definition do_cont (st : state) (t : nat) (k : lcont) (e : list ev) : option (state * list ev) :=
  match k with
  | LFin r fr => finish st t r (e ++ free_opt t fr)
  | LRepl c fresh => to_cas st t c None fresh e
  | LExit fr => Some (set_pc t (xstart (rl (tl st t))) st, e ++ free_opt t fr)
  end.

(** leave_region, then [k] *)
Definition leave (st : state) (t : nat) (k : lcont) (e : list ev) : option (state * list ev) :=
  let x := tl st t in
  let st1 := set_tl t (wt_nest (pred (nest x)) x) st in
  if Nat.eqb (pred (nest x)) 0 then Some (set_pc t (Q1 k) st1, e) else do_cont st1 t k e.

(** enter_region with a control block: ++region_entries *)
Definition entered (st : state) (t : nat) (k : ctx) (e : list ev) : option (state * list ev) :=
  let x := tl st t in
  match k with
  | KEnter r => finish (set_tl t (wt_rg (Some r) (wt_nest (S (nest x)) x)) st) t r_ok e
  | _ => Some (set_pc t (A2 k) (set_tl t (wt_nest (S (nest x)) x) st), e)
  end.

Definition enter (st : state) (t : nat) (k : ctx) (e : list ev) : option (state * list ev) :=
  match cb (tl st t) with
  | None => Some (set_pc t (C1 k) st, e)
  | Some _ => entered st t k e
  end.

(** adopt_or_create_entry: next entry of the walk, or a new control block (value-initialised, then the constructor of
    entry: state active; local_epoch 0) *)
Definition walk (st : state) (t : nat) (k : ctx) (l : list N) (e : list ev) : option (state * list ev) :=
  match l with
  | r :: rest => Some (set_pc t (C2 k r rest) st, e)
  | [] =>
    let b := nalloc st in
    Some (set_pc t (C4 k b)
            (w_nalloc (b + 1) (w_bstate (updN (bstate st) b 2) (w_blocal (updN (blocal st) b 0) (w_g_owner (updN (g_owner st) b (Some t)) st)))),
          e ++ [EAlloc t b tcb_size])
  end.

Definition scan_next (st : state) (t : nat) (k : lcont) (ep : N) (l : list N) (e : list ev) : option (state * list ev) :=
  match l with
  | p :: rest => Some (set_pc t (S2 k ep p rest) st, e)
  | [] => Some (set_pc t (G1 k ep) st, e)
  end.

Definition step_gen (toff : N) (nslots : nat) (st : state) (a : action) : option (state * list ev) :=
  match a with
  | Start t o =>
    match th st t with
    | Idle =>
      match o with
      | OExit =>
        match cb (tl st t) with
        | None => None
        | Some _ =>
          Some (set_pc t (if Nat.eqb (nest (tl st t)) 0 then xstart (rl (tl st t)) else X0) st, [])
        end
      | OHold _ s | ODrop s | ODeref s => if Nat.ltb s nslots then Some (set_pc t (Begin o) st, []) else None
      | _ => Some (set_pc t (Begin o) st, [])
      end
    | _ => None
    end
  | Step t =>
    let x := tl st t in
    let go (p : pc) (e : list ev) := Some (set_pc t p st, e) in
    match th st t with
    | Idle => None
    | Begin o =>
      let es := [EStart t (fst (opcode o)) (snd (opcode o))] in
      match o with
      | ORepl c => go (A1 (KRepl c true)) es
      | OClear c => go (A1 (KRepl c false)) es
      | ORead c => go (A1 (KRead c)) es
      | OHold c s => go (A1 (KHold c s)) es
      | ODrop s =>
        match gs x s with
        | Some _ => leave (set_tl t (wt_gs (upd (gs x) s None) x) st) t (LFin r_ok None) es
        | None => finish st t r_ok es
        end
      | ODeref s =>
        match gs x s with
        | Some n => finish (deref n st) t (r_id (nid st n)) es
        | None => finish st t r_null es
        end
      | OEnter =>
        match rg x with
        | Some _ => finish st t r_ok es
        | None =>
          let r := nalloc st in
          enter (w_nalloc (r + 1) st) t (KEnter r) (es ++ [EAlloc t r rg_size])
        end
      | OLeave =>
        match rg x with
        | Some r => leave (set_tl t (wt_rg None x) st) t (LFin r_ok (Some r)) es
        | None => finish st t r_ok es
        end
      | OExit => None
      end
    (* ---- guard_ptr::acquire ---- *)
    | A1 k =>
      let c := cell_of k in
      let e := [ELoad t (L_cell c) mo_rlx (vptr (cells st c))] in
      match cells st c with
      | None =>
        match k with
        | KRepl c fresh => to_cas st t c None fresh e
        | KHold _ s =>
          match gs x s with
          | Some _ => leave (set_tl t (wt_gs (upd (gs x) s None) x) st) t (LFin r_null None) e
          | None => finish st t r_null e
          end
        | _ => finish st t r_null e
        end
      | Some _ =>
        match k with
        | KHold _ s => if is_some (gs x s) then go (A2 k) e else enter st t k e
        | _ => enter st t k e
        end
      end
    (* ---- ensure_has_control_block ---- *)
    | C1 k => walk st t k (blist st) [ELoad t L_head mo_acq (vptr (hd_opt (blist st)))]
    | C2 k r rest =>
      let e := [ELoad t (L_bstate r) mo_rlx (VInt (bstate st r))] in
      if bstate st r =? 0 then go (C3 k r rest) e else walk st t k rest e
    | C3 k r rest =>
      if bstate st r =? 0 then
        Some (set_pc t (C7 k) (set_tl t (wt_cb (Some r) x) (w_bstate (updN (bstate st) r 2) (w_g_owner (updN (g_owner st) r (Some t)) st))),
              [ERmw t (L_bstate r) mo_acq (VInt 0) (VInt 2)])
      else walk st t k rest [ECasF t (L_bstate r) mo_acq mo_acq (VInt (bstate st r)) (VInt 0)]
    | C4 k b => Some (set_pc t (C5 k b) (w_bstate (updN (bstate st) b 2) st), [EStore t (L_bstate b) mo_rlx (VInt 2)])
    | C5 k b => go (C6 k b (hd_opt (blist st))) [ELoad t L_head mo_rlx (vptr (hd_opt (blist st)))]
    | C6 k b h =>
      if oeqb (hd_opt (blist st)) h then
        Some (set_pc t (C7 k) (set_tl t (wt_cb (Some b) x) (w_blist (b :: blist st) st)),
              [ERmw t L_head mo_rel (vptr h) (vptr (Some b))])
      else go (C6 k b (hd_opt (blist st))) [ECasF t L_head mo_rel mo_rlx (vptr (hd_opt (blist st))) (vptr h)]
    | C7 k => go (C8 k (gep st)) [ELoad t L_gep mo_rlx (VInt (gep st))]
    | C8 k e =>
      match cb x with
      | None => None
      | Some b => Some (set_pc t (C9 k e) (w_blocal (updN (blocal st) b e) st), [EStore t (L_blocal b) mo_rlx (VInt e)])
      end
    | C9 k e =>
      match cb x with
      | None => None
      | Some b =>
        if gep st =? e then
          entered (w_g_lepc (updN (g_lepc st) b (g_gepc st)) st) t k [ERmw t L_gep mo_acqrel (VInt e) (VInt e)]
        else go (C8 k (gep st)) [ECasF t L_gep mo_acqrel mo_rlx (VInt (gep st)) (VInt e)]
      end
    | A2 k =>
      let c := cell_of k in
      let v := cells st c in
      let e := [ELoad t (L_cell c) mo_acq (vptr v)] in
      match k with
      | KRepl c fresh =>
        match v with
        | None => leave st t (LRepl c fresh) e
        | Some n => to_cas st t c v fresh e
        end
      | KRead _ =>
        match v with
        | None => leave st t (LFin r_null None) e
        | Some n => leave (deref n st) t (LFin (r_id (nid st n)) None) e
        end
      | KHold _ s =>
        let st1 := set_tl t (wt_gs (upd (gs x) s v) x) st in
        match v with
        | None => leave st1 t (LFin r_null None) e
        | Some n => finish (deref n st1) t (r_id (nid st n)) e
        end
      | KEnter _ => None
      end
    (* ---- the client's CAS; success: guard.reclaim() = add_retired_node + reset ---- *)
    | R3 c g n =>
      if oeqb (cells st c) g then
        let e := [ERmw t (L_cell c) mo_acqrel (vptr g) (vptr n)] in
        let st1 := w_cells (updN (cells st) c n) st in
        let st2 := match n with Some n' => w_g_life (updN (g_life st1) n' (LPub c)) st1 | None => st1 end in
        match g with
        | Some old =>
          let st3 := deref old st2 in
          Some (set_pc t (R4 old) (w_g_life (updN (g_life st3) old (LUnl t)) st3), e)
        | None => finish st2 t r_ok e
        end
      else
        let e := ECasF t (L_cell c) mo_acqrel mo_rlx (vptr (cells st c)) (vptr g)
                 :: match n with Some n' => [EFree t n'] | None => [] end in
        let st1 := match n with Some n' => w_g_life (updN (g_life st) n' LDropped) st | None => st end in
        match g with
        | Some _ => leave st1 t (LFin r_lost None) e
        | None => finish st1 t r_lost e
        end
    | R4 old =>
      match cb x with
      | None => None
      | Some b =>
        let i := blocal st b in
        leave (set_tl t (wt_rl (updN (rl x) i (old :: rl x i)) x)
                 (w_g_life (updN (g_life st) old (LRet t (g_lepc st b) (g_gepc st))) (w_g_where (updN (g_where st) old (PList t i)) st)))
              t (LFin r_ok None) [ELoad t (L_blocal b) mo_rlx (VInt i)]
      end
    (* ---- quiescent_state ---- *)
    | Q1 k => go (Q2 k (gep st)) [ELoad t L_gep mo_acq (VInt (gep st))]
    | Q2 k e =>
      match cb x with
      | None => None
      | Some b =>
        let ev := [ELoad t (L_blocal b) mo_rlx (VInt (blocal st b))] in
        if blocal st b =? e then go (S1 k e) ev else go (Q9 k e) ev
      end
    (* ---- try_update_epoch ---- *)
    | S1 k e => scan_next st t k e (blist st) [ELoad t L_head mo_acq (vptr (hd_opt (blist st)))]
    | S2 k e p rest =>
      let ev := [ELoad t (L_blocal p) mo_rlx (VInt (blocal st p))] in
      if blocal st p =? (e + 2) mod 3 then go (S3 k e p rest) ev else scan_next st t k e rest ev
    | S3 k e p rest =>
      let ev := [ELoad t (L_bstate p) mo_rlx (VInt (bstate st p))] in
      if bstate st p =? 2 then do_cont st t k ev else scan_next st t k e rest ev
    | G1 k e =>
      let ev := [ELoad t L_gep mo_rlx (VInt (gep st))] in
      if gep st =? e then go (G2 k e) ev else go (Q9 k ((e + 1) mod 3)) ev
    | G2 k e => go (G3 k e) [EFence t mo_acq]
    | G3 k e =>
      let new := (e + 1) mod 3 in
      if gep st =? e then
        Some (set_pc t (G4 k e) (w_g_gepc (g_gepc st + 1) (w_gep new st)), [ERmw t L_gep mo_acqrel (VInt e) (VInt new)])
      else go (Q9 k new) [ECasF t L_gep mo_acqrel mo_rlx (VInt (gep st)) (VInt e)]
    (* ---- adopt_orphans ---- *)
    | G4 k e =>
      let ev := [ELoad t L_aband mo_rlx (vptr (hd_opt (aband st)))] in
      if is_nil (aband st) then go (Q9 k ((e + 1) mod 3)) ev else go (G5 k e) ev
    | G5 k e =>
      let l := aband st in
      Some (set_pc t (Q9 k ((e + 1) mod 3))
              (set_tl t (wt_rl (adopt (otgt st) l (rl x)) x)
                 (w_g_where (fun n => if memN n l then PList t (otgt st n) else g_where st n) (w_aband [] st))),
            [ERmw t L_aband mo_acq (vptr (hd_opt l)) (VInt 0)])
    | Q9 k e =>
      match cb x with
      | None => None
      | Some b =>
        let l := rl x e in
        let fl := expand (ocont st) l in
        do_cont (set_tl t (wt_rl (updN (rl x) e []) x)
                   (free_all fl (w_ocont (fun n => if memN n l then [] else ocont st n)
                      (w_g_lepc (updN (g_lepc st) b (g_gepc st)) (w_blocal (updN (blocal st) b e) st)))))
                t k (EStore t (L_blocal b) mo_rel (VInt e) :: free_evs t fl)
      end
    (* ---- thread exit ---- *)
    | X0 =>
      Some (set_pc t (Q2 (LExit (rg x)) (gep st)) (set_tl t (wt_nest O (wt_rg None (wt_gs (fun _ => None) x))) st),
            [ELoad t L_gep mo_acq (VInt (gep st))])
    | X1 => go (XC (gep st)) [ELoad t L_gep mo_rlx (VInt (gep st))]
    | XC e =>
      if gep st =? e then
        let top := rl x 0 ++ rl x 1 ++ rl x 2 in
        let fl := expand (ocont st) top in
        let o := nalloc st in
        Some (set_pc t (X2 o)
                (set_tl t (wt_rl (fun _ => []) x)
                   (w_nalloc (o + 1) (w_otgt (updN (otgt st) o ((e + toff) mod 3))
                      (w_ocont (fun n => if n =? o then fl else if memN n top then [] else ocont st n)
                         (w_g_life (updN (g_life st) o (LOrph t (g_gepc st)))
                            (w_g_where (fun n => if n =? o then PHand t else if memN n fl then PIn o else g_where st n) st)))))),
              [ERmw t L_gep mo_acqrel (VInt e) (VInt e); EAlloc t o orph_size])
      else go (XC (gep st)) [ECasF t L_gep mo_acqrel mo_rlx (VInt (gep st)) (VInt e)]
    | X2 o => go (X3 o (hd_opt (aband st))) [ELoad t L_aband mo_rlx (vptr (hd_opt (aband st)))]
    | X3 o h =>
      if oeqb (hd_opt (aband st)) h then
        Some (set_pc t X4 (w_g_where (updN (g_where st) o PAband) (w_aband (o :: aband st) st)),
              [ERmw t L_aband mo_rel (vptr h) (vptr (Some o))])
      else go (X3 o (hd_opt (aband st))) [ECasF t L_aband mo_rel mo_rlx (vptr (hd_opt (aband st))) (vptr h)]
    | X4 =>
      match cb x with
      | None => None
      | Some b =>
        Some (set_pc t Idle (set_tl t tl0 (w_bstate (updN (bstate st) b 0) (w_g_owner (updN (g_owner st) b None) st))),
              [EStore t (L_bstate b) mo_rel (VInt 0)])
      end
    end
  end.

(** the code: target epoch (global_epoch + number_epochs - 1) % number_epochs *)
Definition step : nat -> state -> action -> option (state * list ev) := step_gen 2.
