(** Step-level model of xenium::chase_work_stealing_deque (chase_work_stealing_deque.hpp) over
    fixed_size_circular_array / growing_circular_array.  One [Step] = one atomic access of the C++
    code (plus a START step at every invocation).  No proofs in this file. *)
From Coq Require Import NArith List Bool.
From XV Require Import Base.Word Conc.Lts Conc.Ev gen.GrowingArrayGen.
Import ListNotations.
Local Open Scope N_scope.

Inductive policy := Fixed (c : N) | Growing (mincap maxcap : N).

Record shared := mkSh { top : N; bottom : N; capacity : N; buckets : N; mem : N -> N -> N }.

Inductive op := OPush (v : N) | OPop | OSteal.

(** the (old slot, new slot) copies performed by grow(bottom, top) at capacity [c], in order.
    Mirrors growing_circular_array.hpp:96-115; tied to the generated [grow] by Proof/ChaseGrow.v *)
Definition slot_of (i : N) : N * N :=
  let b := flbs i in (b, N.lxor i (sext 32 64 (sshr 32 (wshl 32 1 b) 1))).

Fixpoint grow_moves_from (fuel : nat) (i bot mask newmask : N) : list ((N * N) * (N * N)) :=
  match fuel with
  | O => []
  | S f =>
    if i <? bot then
      let oldI := N.land i mask in
      let newI := N.land i newmask in
      if negb (oldI =? newI) then (slot_of oldI, slot_of newI) :: grow_moves_from f (wadd 64 i 1) bot mask newmask
      else []
    else []
  end.

Definition grow_start (c t : N) : N :=
  let mask := wsub 64 c 1 in
  let newmask := wsub 64 (wmul 64 c 2) 1 in
  let sm := N.land t mask in
  if sm =? N.land t newmask then wadd 64 t (wsub 64 c sm) else t.

Definition grow_moves (c b t : N) : list ((N * N) * (N * N)) :=
  grow_moves_from (S (N.to_nat c)) (grow_start c t) b (wsub 64 c 1) (wsub 64 (wmul 64 c 2) 1).

Inductive pc :=
| Idle
| Begin (o : op)
(* try_push *)
| Pu1 (v : N)                       (* LD bottom rlx *)
| Pu2 (v b : N)                     (* LD top rlx *)
| Pu3 (v b t : N)                   (* growing: LD capacity rlx  [capacity()] *)
| PuCanGrow (v b t : N)             (* LD capacity rlx  [can_grow()] *)
| PuGrow0 (v b t : N)               (* LD capacity rlx  [grow: capacity()] ; allocates the new bucket *)
| PuGrowLd (v b : N) (c : N) (todo : list ((N * N) * (N * N)))            (* LD old slot rlx *)
| PuGrowSt (v b : N) (c : N) (x : N) (todo : list ((N * N) * (N * N)))    (* ST new slot rlx *)
| PuGrowEnd (v b c : N)             (* ST capacity rel 2c *)
| Pu4 (v b : N)                     (* growing: LD capacity rlx [put] *)
| Pu5 (v b c : N)                   (* ST slot rlx v *)
| Pu6 (v b : N)                     (* ST bottom rel b+1 *)
(* try_pop *)
| Po1                               (* LD bottom rlx *)
| Po2 (b : N)                       (* LD top rlx *)
| Po3 (b : N)                       (* ST bottom sc b-1 *)
| Po4 (b : N)                       (* growing: LD capacity acq ; b is already decremented *)
| Po5 (b c : N)                     (* LD slot rlx *)
| Po6 (b x : N)                     (* LD top sc *)
| Po7 (b x t : N)                   (* CAS top t -> t+1 rlx *)
| Po8 (nb : N) (r : option N)       (* ST bottom rlx nb ; then return r *)
(* try_steal *)
| St1                               (* LD top rlx *)
| St2 (t : N)                       (* LD bottom sc *)
| St3 (t : N)                       (* growing: LD capacity acq *)
| St4 (t c : N)                     (* LD slot rlx *)
| St5 (t x : N).                    (* CAS top t -> t+1 sc/rlx *)

(** [g_pushed]/[g_taken] are ghost histories (never read by [step]): values whose try_push completed
    (appended at the release store of bottom) and values handed out by try_pop/try_steal (appended at
    the step that decides success). *)
Record state := mkSt { sh : shared; th : nat -> pc; nalloc : N; g_pushed : list N; g_taken : list N }.

(** the single owner thread (protocol of the deque: only the owner calls try_push/try_pop) *)
Definition owner : nat := 1.

Inductive action := Start (t : nat) (o : op) | Step (t : nat).

Section WithPolicy.
  Variable pol : policy.

  Definition is_growing : bool := match pol with Growing _ _ => true | Fixed _ => false end.
  Definition init_cap : N := match pol with Growing c _ => c | Fixed c => c end.
  Definition max_cap : N := match pol with Growing _ m => m | Fixed c => c end.

  Definition slot (idx c : N) : N * N :=
    match pol with
    | Fixed cc => (0, N.land idx (cc - 1))
    | Growing _ _ => get_entry idx c
    end.

  (** canonical location of a slot, as xvrt names it: block 0 is the deque object, block 1 the
      initial entry array, later buckets are allocated in order by grow *)
  Definition slot_loc (s : N * N) : loc :=
    let '(b, i) := s in
    match pol with
    | Fixed _ => LNamed 3 (8 * i)
    | Growing mc _ =>
      let ib := flbs mc in
      if b <? ib then LHeap 1 (8 * ((if b =? 0 then 0 else 2 ^ (b - 1)) + i))
      else LHeap (2 + (b - ib)) (8 * i)
    end.

  Definition L_bottom := LNamed 0 0.
  Definition L_top := LNamed 1 0.
  Definition L_cap := LNamed 2 0.

  Definition init : state :=
    mkSt (mkSh 0 0 init_cap (flbs init_cap) (fun _ _ => 0)) (fun _ => Idle) 2 [] [].

  Definition set_top (s : shared) v := mkSh v (bottom s) (capacity s) (buckets s) (mem s).
  Definition set_bottom (s : shared) v := mkSh (top s) v (capacity s) (buckets s) (mem s).
  Definition set_cap (s : shared) v := mkSh (top s) (bottom s) v (buckets s) (mem s).
  Definition set_buckets (s : shared) v := mkSh (top s) (bottom s) (capacity s) v (mem s).
  Definition set_mem (s : shared) (sl : N * N) v := mkSh (top s) (bottom s) (capacity s) (buckets s) (mset (mem s) (fst sl) (snd sl) v).
  Definition rd (s : shared) (sl : N * N) : N := mem s (fst sl) (snd sl).

  Definition opcode (o : op) : N * list N := match o with OPush v => (0, [v]) | OPop => (1, []) | OSteal => (2, []) end.

  (** result encoding: [1; v] = value v, [1] = ok, [0] = full, [2] = empty *)
  Definition r_some (x : N) := [1; x].
  Definition r_true := [1].
  Definition r_false := [0].   (* full *)
  Definition r_empty := [2].

  (* intptr_t comparison of b and t (steal) *)
  Definition sdiff_pos (b t : N) : bool := negb (sle 64 (wsub 64 b t) 0).

  Definition step (st : state) (a : action) : option (state * list ev) :=
    match a with
    | Start t o =>
      match th st t with
      | Idle =>
        if (match o with OSteal => true | _ => Nat.eqb t owner end)
        then Some (mkSt (sh st) (upd (th st) t (Begin o)) (nalloc st) (g_pushed st) (g_taken st), [])
        else None
      | _ => None
      end
    | Step t =>
      let s := sh st in
      let go (s' : shared) (p : pc) (e : list ev) := Some (mkSt s' (upd (th st) t p) (nalloc st) (g_pushed st) (g_taken st), e) in
      let fin (s' : shared) (r : list N) (e : list ev) := Some (mkSt s' (upd (th st) t Idle) (nalloc st) (g_pushed st) (g_taken st), e ++ [ERet t r]) in
      let take (s' : shared) (p : pc) (x : N) (e : list ev) := Some (mkSt s' (upd (th st) t p) (nalloc st) (g_pushed st) (g_taken st ++ [x]), e) in
      match th st t with
      | Idle => None
      | Begin o =>
        let '(c, args) := opcode o in
        go s (match o with OPush v => Pu1 v | OPop => Po1 | OSteal => St1 end) [EStart t c args]
      (* ---- try_push ---- *)
      | Pu1 v => go s (Pu2 v (bottom s)) [ELoad t L_bottom mo_rlx (VInt (bottom s))]
      | Pu2 v b =>
        let tp := top s in
        let e := [ELoad t L_top mo_rlx (VInt tp)] in
        if is_growing then go s (Pu3 v b tp) e
        else if init_cap <=? wsub 64 b tp then fin s r_false e else go s (Pu5 v b init_cap) e
      | Pu3 v b tp =>
        let c := capacity s in
        let e := [ELoad t L_cap mo_rlx (VInt c)] in
        if c <=? wsub 64 b tp then go s (PuCanGrow v b tp) e else go s (Pu4 v b) e
      | PuCanGrow v b tp =>
        let c := capacity s in
        let e := [ELoad t L_cap mo_rlx (VInt c)] in
        if c <? max_cap then go s (PuGrow0 v b tp) e else fin s r_false e
      | PuGrow0 v b tp =>
        let c := capacity s in
        let e := [ELoad t L_cap mo_rlx (VInt c); EAlloc t (nalloc st) (8 * c)] in
        let s' := set_buckets s (wadd 64 (buckets s) 1) in
        match grow_moves c b tp with
        | [] => Some (mkSt s' (upd (th st) t (PuGrowEnd v b c)) (nalloc st + 1) (g_pushed st) (g_taken st), e)
        | m => Some (mkSt s' (upd (th st) t (PuGrowLd v b c m)) (nalloc st + 1) (g_pushed st) (g_taken st), e)
        end
      | PuGrowLd v b c todo =>
        match todo with
        | [] => None
        | (o, n) :: rest => go s (PuGrowSt v b c (rd s o) todo) [ELoad t (slot_loc o) mo_rlx (VInt (rd s o))]
        end
      | PuGrowSt v b c x todo =>
        match todo with
        | [] => None
        | (o, n) :: rest =>
          let s' := set_mem s n x in
          let e := [EStore t (slot_loc n) mo_rlx (VInt x)] in
          match rest with [] => go s' (PuGrowEnd v b c) e | _ => go s' (PuGrowLd v b c rest) e end
        end
      | PuGrowEnd v b c =>
        let nc := wmul 64 c 2 in
        go (set_cap s nc) (Pu4 v b) [EStore t L_cap mo_rel (VInt nc)]
      | Pu4 v b => go s (Pu5 v b (capacity s)) [ELoad t L_cap mo_rlx (VInt (capacity s))]
      | Pu5 v b c => go (set_mem s (slot b c) v) (Pu6 v b) [EStore t (slot_loc (slot b c)) mo_rlx (VInt v)]
      | Pu6 v b =>
        Some (mkSt (set_bottom s (wadd 64 b 1)) (upd (th st) t Idle) (nalloc st) (g_pushed st ++ [v]) (g_taken st),
              [EStore t L_bottom mo_rel (VInt (wadd 64 b 1)); ERet t r_true])
      (* ---- try_pop ---- *)
      | Po1 => go s (Po2 (bottom s)) [ELoad t L_bottom mo_rlx (VInt (bottom s))]
      | Po2 b =>
        let e := [ELoad t L_top mo_rlx (VInt (top s))] in
        if b =? top s then fin s r_empty e else go s (Po3 b) e
      | Po3 b =>
        let b1 := wsub 64 b 1 in
        let e := [EStore t L_bottom mo_sc (VInt b1)] in
        if is_growing then go (set_bottom s b1) (Po4 b1) e else go (set_bottom s b1) (Po5 b1 init_cap) e
      | Po4 b => go s (Po5 b (capacity s)) [ELoad t L_cap mo_acq (VInt (capacity s))]
      | Po5 b c => go s (Po6 b (rd s (slot b c))) [ELoad t (slot_loc (slot b c)) mo_rlx (VInt (rd s (slot b c)))]
      | Po6 b x =>
        let tp := top s in
        let e := [ELoad t L_top mo_sc (VInt tp)] in
        if tp <? b then Some (mkSt s (upd (th st) t Idle) (nalloc st) (g_pushed st) (g_taken st ++ [x]), e ++ [ERet t (r_some x)])
        else if b =? tp then go s (Po7 b x tp) e
        else go s (Po8 tp None) e
      | Po7 b x tp =>
        if top s =? tp then
          take (set_top s (wadd 64 tp 1)) (Po8 (wadd 64 tp 1) (Some x)) x [ERmw t L_top mo_rlx (VInt tp) (VInt (wadd 64 tp 1))]
        else go s (Po8 (top s) None) [ECasF t L_top mo_rlx mo_rlx (VInt (top s)) (VInt tp)]
      | Po8 nb r =>
        fin (set_bottom s nb) (match r with Some x => r_some x | None => r_empty end) [EStore t L_bottom mo_rlx (VInt nb)]
      (* ---- try_steal ---- *)
      | St1 => go s (St2 (top s)) [ELoad t L_top mo_rlx (VInt (top s))]
      | St2 tp =>
        let b := bottom s in
        let e := [ELoad t L_bottom mo_sc (VInt b)] in
        if sdiff_pos b tp then (if is_growing then go s (St3 tp) e else go s (St4 tp init_cap) e)
        else fin s r_empty e
      | St3 tp => go s (St4 tp (capacity s)) [ELoad t L_cap mo_acq (VInt (capacity s))]
      | St4 tp c => go s (St5 tp (rd s (slot tp c))) [ELoad t (slot_loc (slot tp c)) mo_rlx (VInt (rd s (slot tp c)))]
      | St5 tp x =>
        if top s =? tp then
          Some (mkSt (set_top s (wadd 64 tp 1)) (upd (th st) t Idle) (nalloc st) (g_pushed st) (g_taken st ++ [x]), [ERmw t L_top mo_sc (VInt tp) (VInt (wadd 64 tp 1)); ERet t (r_some x)])
        else fin s r_empty [ECasF t L_top mo_sc mo_rlx (VInt (top s)) (VInt tp)]
      end
    end.
End WithPolicy.
