(** Step-level model of xenium::vyukov_hash_map<long, long> (vyukov_hash_map.hpp, impl/vyukov_hash_map.hpp,
    trivial key/value traits) WITH SEVERAL BUCKETS AND GROW.  One [Step] = one atomic access of the C++ code,
    emitting exactly the event rt/xvrt prints for it (allocation and retire notes ride on the access that precedes
    them).  No proofs in this file.

    Scope: blocks with fewer than 128 buckets.  Such a block has no extension buckets (extension_bucket_count =
    bucket_count / 128 = 0): allocate_extension_item performs no atomic access and returns nullptr, bucket.head is
    always nullptr, and an insertion into a full bucket (3 items) calls grow().  A grow that would allocate a block
    with 128 buckets is not modelled (no step: [DG1] is disabled).

    Operations: emplace, get_or_emplace, erase(key), extract, try_get_value (lock free).

    Memory: heap block 0 = the map object (data_block +0, resize_lock +8); heap block 1 = the initial block, every
    allocate_block in do_grow takes the next heap block id.  A block with n buckets has 64 + 64 n + 256 bytes:
    header (mask, bucket_count, ...: plain fields, no events), bucket j at 64 + 64 j: state +0, head +8,
    key[3] +16, value[3] +40.  [bucket.state] is the GENERATED [bucket_state] word (gen/BucketStateGen.v).
    The hash functor is a parameter [hash]; the bucket of key k in a block with n buckets is [hash k mod n]
    (the code computes hash & (n - 1), n is a power of two).

    Blocks are never reused (GC semantics of the reclaimer the harness is built with): a retired block stays
    readable for the threads that still hold it.  do_grow never unlocks the buckets of the old block: that is what
    turns away a writer that loaded data_block before the replacement (lock_bucket and do_extract do not re-check
    data_block after locking; they re-read it whenever they find the bucket locked).  A thread that finds a lock
    taken re-reads (spins) as the implementation does under the deterministic scheduler; a thread that finds
    resize_lock taken in grow() releases its bucket, waits for resize_lock = 0 and retries.

    Ghosts:
      [g_map]     the abstract map, updated exactly at the linearization points of the writers:
                    insertion: the unlocking release store that increments item_count;
                    removal:   the store of the delete marker if the slot is back-filled, else the unlocking store;
                  grow does not touch it;
      [g_own b j] the holder of the lock of bucket j of block b;
      [g_frozen b] block b has been replaced by do_grow (set at the store to data_block): its buckets stay locked
                  for ever and nobody writes to it any more;
      [g_rown]    the holder of resize_lock;
      [g_nver b j] number of version increments of the bucket;
      [g_lp t]    the value associated with the key of t's current writer call at its linearization point;
      [g_obs t]   for try_get_value and for the lock-free prefix of erase/extract (which returns 'absent' when it
                  finds item_count = 0 without taking the lock): what [g_map] associated with the key at every
                  own step of the call so far AND at every publication of a new block during the call
                  (each is an instant inside the call);
      [g_rv t]    [g_nver] of the reader's bucket at its last load of the state;
      [g_hist]    completed calls with result, [g_lp] and [g_obs] at the return;
      [g_retired] the blocks handed to the reclaimer, in order. *)
From Coq Require Import NArith List Bool.
From XV Require Import Base.Word Conc.Lts Conc.Ev gen.BucketStateGen.
From XV Require Model.VhmDefs.
Import ListNotations.
Local Open Scope N_scope.

Notation lookup := VhmDefs.lookup.
Notation rem := VhmDefs.rem.

Inductive op := OIns (k v : N) | OGetIns (k v : N) | ODel (k : N) | OExt (k : N) | OGet (k : N).

(** program points.  [a] = AcquireAccessor (get_or_emplace), [k v] = key and value of the call, [b] = the block the
    thread loaded from data_block, [j] = the index of its bucket there, [s] = the state word read before the lock
    was taken (unlocked), [i] = array index, [e] = extract (else erase), [r] = the value read by compare_key<true>;
    do_grow: [c] = the insertion that called grow, [ob nb] = old and new block, [n] = bucket count of the old
    block, [i] = old bucket, [cn] = its item count, [x] = item index,
    [kk vv] = key and value being moved, [jn] = its bucket in the new block, [ns] = the state word of that bucket *)
(** the arguments of the insertion that called grow (AcquireAccessor, key, value) *)
Record icall := mkIC { c_a : bool; c_k : N; c_v : N }.

Inductive pc :=
| Idle
| Begin (o : op)
(* lock_bucket, do_get_or_emplace *)
| L1 (a : bool) (k v : N)                (* (33) LD data_block acq *)
| L2 (a : bool) (k v b j : N)            (* LD state rlx; locked -> L1 *)
| L3 (a : bool) (k v b j s : N)          (* (34) CAS state s -> s.locked acq/rlx; failure -> L1 *)
| IK (a : bool) (k v b j s i : N)        (* LD key[i] rlx *)
| IV (a : bool) (k v b j s i : N)        (* a: LD value[i] rlx *)
| IUold (a : bool) (k v b j s r : N)     (* ST state rel s; return false *)
| ISK (a : bool) (k v b j s : N)         (* ST key[item_count] rlx k *)
| ISV (a : bool) (k v b j s : N)         (* ST value[item_count] rlx v *)
| IUnew (a : bool) (k v b j s : N)       (* (3) ST state rel s.inc_item_count; return true *)
| IH (a : bool) (k v b j s : N)          (* LD head rlx (nullptr); allocate_extension_item: no access, nullptr *)
(* grow *)
| GR1 (a : bool) (k v b j s : N)         (* exchange resize_lock 1 rlx *)
| GR2 (a : bool) (k v b j s ar : N)      (* ST state rel s (unlock); ar = already_resizing *)
| GRW (c : icall)                       (* (28) LD resize_lock acq; != 0 -> again; then retry *)
(* do_grow: [n] = old_block->bucket_count *)
| DG1 (c : icall)                       (* (29) LD data_block acq; allocate_block *)
| DGL (c : icall) (ob nb n i : N)       (* LD old[i].state rlx; locked -> again *)
| DGC (c : icall) (ob nb n i s : N)     (* (30) CAS old[i].state s -> s.locked acq/rlx; failure -> DGL *)
| DMS (c : icall) (ob nb n i : N)       (* LD old[i].state rlx (item_count) *)
| DMK (c : icall) (ob nb n i cn x : N)  (* LD old[i].key[x] rlx *)
| DMN (c : icall) (ob nb n i cn x kk jn : N)        (* LD new[jn].state rlx *)
| DMV (c : icall) (ob nb n i cn x kk jn ns : N)     (* LD old[i].value[x] rlx *)
| DMSK (c : icall) (ob nb n i cn x kk jn ns vv : N) (* ST new[jn].key[item_count] rlx kk *)
| DMSV (c : icall) (ob nb n i cn x jn ns vv : N)    (* ST new[jn].value[item_count] rlx vv *)
| DMSS (c : icall) (ob nb n i cn x jn ns : N)       (* ST new[jn].state rlx ns.inc_item_count *)
| DMH (c : icall) (ob nb n i : N)       (* LD old[i].head seq_cst (implicit conversion; nullptr) *)
| DP1 (c : icall) (ob nb n : N)         (* (31) ST data_block rel new *)
| DP2 (c : icall) (ob nb : N)           (* (32) ST resize_lock rel 0; retire old; retry *)
(* do_extract *)
| X1 (e : bool) (k : N)                  (* (6) LD data_block acq *)
| X2 (e : bool) (k b j : N)              (* LD state rlx; item_count = 0 -> return false; locked -> X1 *)
| X3 (e : bool) (k b j s : N)            (* (7) CAS state s -> s.locked acq/rlx; failure -> X1 *)
| XK (e : bool) (k b j s i : N)          (* LD key[i] rlx *)
| XV (e : bool) (k b j s i : N)          (* LD value[i] rlx *)
| XH (e : bool) (k b j s i r : N)        (* LD head rlx (nullptr) *)
| XB1 (e : bool) (k b j s i r : N)       (* ST state rel locked.set_delete_marker(i+1) *)
| XB2 (e : bool) (k b j s i r : N)       (* LD key[item_count-1] rlx *)
| XB3 (e : bool) (k b j s i r kk : N)    (* LD value[item_count-1] rlx *)
| XB4 (e : bool) (k b j s i r kk vv : N) (* ST key[i] rlx kk *)
| XB5 (e : bool) (k b j s i r vv : N)    (* (12) ST value[i] rel vv *)
| XB6 (e : bool) (k b j s i r : N)       (* (13) ST state rel s.new_version.dec_item_count *)
| XHH (e : bool) (k b j s : N)           (* LD head rlx (nullptr) *)
| XU (e : bool) (k b j s : N)            (* ST state rel s; return false *)
(* try_get_value *)
| G1 (k : N)                             (* (22) LD data_block acq *)
| G2 (k b j : N)                         (* retry: (23) LD state acq *)
| GK (k b j s i : N)                     (* LD key[i] rlx *)
| GV (k b j s i : N)                     (* (24) LD value[i] acq *)
| GD (k b j s i v : N)                   (* LD data_block acq; block replaced -> start over (G1) *)
| GS (k b j s i v : N)                   (* LD state rlx: version / delete marker validation *)
| GH (k b j s : N)                       (* (25) LD head acq (nullptr) *)
| GE (k b j s : N).                      (* LD state rlx: version validation; return false *)

(** a completed call: thread, operation, result (as printed), [g_lp] and [g_obs] at the return *)
Record hrec := mkH { h_t : nat; h_op : op; h_res : list N; h_wit : option (option N); h_obs : list (option N) }.

Record state := mkSt {
  db : N;
  rlock : N;
  nalloc : N;
  bcnt : N -> N;
  bst : N -> N -> N;
  akey : N -> N -> N -> N;
  aval : N -> N -> N -> N;
  th : nat -> pc;
  g_map : list (N * N);
  g_own : N -> N -> option nat;
  g_frozen : N -> bool;
  g_rown : option nat;
  g_nver : N -> N -> N;
  g_lp : nat -> option (option N);
  g_rv : nat -> N;
  g_obs : nat -> list (option N);
  g_hist : list hrec;
  g_retired : list N
}.

Definition s_db (st : state) (x : N) : state :=
  mkSt x (rlock st) (nalloc st) (bcnt st) (bst st) (akey st) (aval st) (th st) (g_map st) (g_own st) (g_frozen st) (g_rown st) (g_nver st) (g_lp st) (g_rv st) (g_obs st) (g_hist st) (g_retired st).
Definition s_rlock (st : state) (x : N) : state :=
  mkSt (db st) x (nalloc st) (bcnt st) (bst st) (akey st) (aval st) (th st) (g_map st) (g_own st) (g_frozen st) (g_rown st) (g_nver st) (g_lp st) (g_rv st) (g_obs st) (g_hist st) (g_retired st).
Definition s_nalloc (st : state) (x : N) : state :=
  mkSt (db st) (rlock st) x (bcnt st) (bst st) (akey st) (aval st) (th st) (g_map st) (g_own st) (g_frozen st) (g_rown st) (g_nver st) (g_lp st) (g_rv st) (g_obs st) (g_hist st) (g_retired st).
Definition s_bcnt (st : state) (x : N -> N) : state :=
  mkSt (db st) (rlock st) (nalloc st) x (bst st) (akey st) (aval st) (th st) (g_map st) (g_own st) (g_frozen st) (g_rown st) (g_nver st) (g_lp st) (g_rv st) (g_obs st) (g_hist st) (g_retired st).
Definition s_bst (st : state) (x : N -> N -> N) : state :=
  mkSt (db st) (rlock st) (nalloc st) (bcnt st) x (akey st) (aval st) (th st) (g_map st) (g_own st) (g_frozen st) (g_rown st) (g_nver st) (g_lp st) (g_rv st) (g_obs st) (g_hist st) (g_retired st).
Definition s_akey (st : state) (x : N -> N -> N -> N) : state :=
  mkSt (db st) (rlock st) (nalloc st) (bcnt st) (bst st) x (aval st) (th st) (g_map st) (g_own st) (g_frozen st) (g_rown st) (g_nver st) (g_lp st) (g_rv st) (g_obs st) (g_hist st) (g_retired st).
Definition s_aval (st : state) (x : N -> N -> N -> N) : state :=
  mkSt (db st) (rlock st) (nalloc st) (bcnt st) (bst st) (akey st) x (th st) (g_map st) (g_own st) (g_frozen st) (g_rown st) (g_nver st) (g_lp st) (g_rv st) (g_obs st) (g_hist st) (g_retired st).
Definition s_th (st : state) (x : nat -> pc) : state :=
  mkSt (db st) (rlock st) (nalloc st) (bcnt st) (bst st) (akey st) (aval st) x (g_map st) (g_own st) (g_frozen st) (g_rown st) (g_nver st) (g_lp st) (g_rv st) (g_obs st) (g_hist st) (g_retired st).
Definition s_g_map (st : state) (x : list (N * N)) : state :=
  mkSt (db st) (rlock st) (nalloc st) (bcnt st) (bst st) (akey st) (aval st) (th st) x (g_own st) (g_frozen st) (g_rown st) (g_nver st) (g_lp st) (g_rv st) (g_obs st) (g_hist st) (g_retired st).
Definition s_g_own (st : state) (x : N -> N -> option nat) : state :=
  mkSt (db st) (rlock st) (nalloc st) (bcnt st) (bst st) (akey st) (aval st) (th st) (g_map st) x (g_frozen st) (g_rown st) (g_nver st) (g_lp st) (g_rv st) (g_obs st) (g_hist st) (g_retired st).
Definition s_g_frozen (st : state) (x : N -> bool) : state :=
  mkSt (db st) (rlock st) (nalloc st) (bcnt st) (bst st) (akey st) (aval st) (th st) (g_map st) (g_own st) x (g_rown st) (g_nver st) (g_lp st) (g_rv st) (g_obs st) (g_hist st) (g_retired st).
Definition s_g_rown (st : state) (x : option nat) : state :=
  mkSt (db st) (rlock st) (nalloc st) (bcnt st) (bst st) (akey st) (aval st) (th st) (g_map st) (g_own st) (g_frozen st) x (g_nver st) (g_lp st) (g_rv st) (g_obs st) (g_hist st) (g_retired st).
Definition s_g_nver (st : state) (x : N -> N -> N) : state :=
  mkSt (db st) (rlock st) (nalloc st) (bcnt st) (bst st) (akey st) (aval st) (th st) (g_map st) (g_own st) (g_frozen st) (g_rown st) x (g_lp st) (g_rv st) (g_obs st) (g_hist st) (g_retired st).
Definition s_g_lp (st : state) (x : nat -> option (option N)) : state :=
  mkSt (db st) (rlock st) (nalloc st) (bcnt st) (bst st) (akey st) (aval st) (th st) (g_map st) (g_own st) (g_frozen st) (g_rown st) (g_nver st) x (g_rv st) (g_obs st) (g_hist st) (g_retired st).
Definition s_g_rv (st : state) (x : nat -> N) : state :=
  mkSt (db st) (rlock st) (nalloc st) (bcnt st) (bst st) (akey st) (aval st) (th st) (g_map st) (g_own st) (g_frozen st) (g_rown st) (g_nver st) (g_lp st) x (g_obs st) (g_hist st) (g_retired st).
Definition s_g_obs (st : state) (x : nat -> list (option N)) : state :=
  mkSt (db st) (rlock st) (nalloc st) (bcnt st) (bst st) (akey st) (aval st) (th st) (g_map st) (g_own st) (g_frozen st) (g_rown st) (g_nver st) (g_lp st) (g_rv st) x (g_hist st) (g_retired st).
Definition s_g_hist (st : state) (x : list hrec) : state :=
  mkSt (db st) (rlock st) (nalloc st) (bcnt st) (bst st) (akey st) (aval st) (th st) (g_map st) (g_own st) (g_frozen st) (g_rown st) (g_nver st) (g_lp st) (g_rv st) (g_obs st) x (g_retired st).
Definition s_g_retired (st : state) (x : list N) : state :=
  mkSt (db st) (rlock st) (nalloc st) (bcnt st) (bst st) (akey st) (aval st) (th st) (g_map st) (g_own st) (g_frozen st) (g_rown st) (g_nver st) (g_lp st) (g_rv st) (g_obs st) (g_hist st) x.

Inductive action := Start (t : nat) (o : op) | Step (t : nat).

Definition setf2 {X : Type} (f : N -> N -> X) (b j : N) (v : X) : N -> N -> X :=
  fun b' j' => if (b' =? b) && (j' =? j) then v else f b' j'.
Definition setf3 {X : Type} (f : N -> N -> N -> X) (b j i : N) (v : X) : N -> N -> N -> X :=
  fun b' j' i' => if (b' =? b) && (j' =? j) && (i' =? i) then v else f b' j' i'.
(** memset of a freshly allocated block *)
Definition clr2 {X : Type} (f : N -> N -> X) (b : N) (z : X) : N -> N -> X := fun b' j' => if b' =? b then z else f b' j'.
Definition clr3 {X : Type} (f : N -> N -> N -> X) (b : N) (z : X) : N -> N -> N -> X :=
  fun b' j' i' => if b' =? b then z else f b' j' i'.
Definition setf1 {X : Type} (f : N -> X) (b : N) (v : X) : N -> X := fun b' => if b' =? b then v else f b'.

(** allocate_block(n): sizeof(block) + n * sizeof(bucket) + (n / 128 + 1) * sizeof(extension_bucket), n < 128 *)
Definition bsize (n : N) : N := 320 + 64 * n.
Definition dbl (n : N) : N := 2 * n.
Definition max_buckets : N := 128.       (* bucket_to_extension_ratio: from here on blocks have extension buckets *)

(** [cap] = the bucket count of the initial block (next_power_of_two(initial_capacity)) *)
Definition init (cap : N) : state :=
  mkSt 1 0 2 (fun b => if b =? 1 then cap else 0) (fun _ _ => 0) (fun _ _ _ => 0) (fun _ _ _ => 0) (fun _ => Idle)
       [] (fun _ _ => None) (fun _ => false) None (fun _ _ => 0) (fun _ => None) (fun _ => 0) (fun _ => []) [] [].

(** results ([ERet t r]): [0;b] emplace new/old, [1;b;v] get_or_emplace new:v/old:v, [2;b] erase ok/no,
    [3;1;v] extract v, [3;0] extract no, [4;1;v] try_get_value v, [4;0] try_get_value no *)
Definition ins_op (a : bool) (k v : N) : op := if a then OGetIns k v else OIns k v.
Definition ins_res (a : bool) (new : bool) (r : N) : list N := if a then [1; b2n new; r] else [0; b2n new].
Definition del_op (e : bool) (k : N) : op := if e then OExt k else ODel k.
Definition del_res (e : bool) (ok : bool) (r : N) : list N :=
  if e then (if ok then [3; 1; r] else [3; 0]) else [2; b2n ok].

(** the key of a call that records observations: try_get_value, and erase/extract before they take the lock *)
Definition obs_key (p : pc) : option N :=
  match p with
  | X1 _ k | X2 _ k _ _
  | G1 k | G2 k _ _ | GK k _ _ _ _ | GV k _ _ _ _ | GD k _ _ _ _ _ | GS k _ _ _ _ _ | GH k _ _ _ | GE k _ _ _ => Some k
  | _ => None
  end.

Definition L_db : loc := LHeap 0 0.
Definition L_rl : loc := LHeap 0 8.
Definition V_blk (b : N) : val := VPtr (LHeap b 0) 0.
Definition boff (j : N) : N := 64 + 64 * j.
Definition L_state (b j : N) : loc := LHeap b (boff j).
Definition L_head (b j : N) : loc := LHeap b (boff j + 8).
Definition L_key (b j i : N) : loc := LHeap b (boff j + 16 + 8 * i).
Definition L_val (b j i : N) : loc := LHeap b (boff j + 40 + 8 * i).

Section VhmGrow.
  Variable hash : N -> N.

  (** block->index(key) *)
  Definition bix (st : state) (b k : N) : N := hash k mod bcnt st b.

  (** thread-local move *)
  Definition go (st : state) (t : nat) (p : pc) : state := s_th st (upd (th st) t p).
  (** record the observation of the key at this instant *)
  Definition obs (st : state) (t : nat) (k : N) : state :=
    s_g_obs st (upd (g_obs st) t (g_obs st t ++ [lookup k (g_map st)])).
  (** record it for every call that is observing (at the publication of a new block) *)
  Definition obs_all (st : state) : state :=
    s_g_obs st (fun u => match obs_key (th st u) with
                         | Some k => g_obs st u ++ [lookup k (g_map st)]
                         | None => g_obs st u
                         end).
  (** record the writer's linearization point *)
  Definition lp (st : state) (t : nat) (k : N) : state :=
    s_g_lp st (upd (g_lp st) t (Some (lookup k (g_map st)))).
  (** return *)
  Definition ret (st : state) (t : nat) (o : op) (r : list N) : state :=
    s_g_hist (go st t Idle) (g_hist st ++ [mkH t o r (g_lp st t) (g_obs st t)]).
  Definition bump (st : state) (b j : N) : state := s_g_nver st (setf2 (g_nver st) b j (g_nver st b j + 1)).
  Definition wst (st : state) (b j w : N) : state := s_bst st (setf2 (bst st) b j w).
  Definition own (st : state) (b j : N) (o : option nat) : state := s_g_own st (setf2 (g_own st) b j o).

  (** continue the scan of try_get_value after array slot [i] *)
  Definition g_next_slot (k b j s i : N) : pc := if i + 1 <? bs_item_count s then GK k b j s (i + 1) else GH k b j s.

  Definition step (st : state) (a : action) : option (state * list ev) :=
    match a with
    | Start t o =>
      match th st t with
      | Idle => Some (go st t (Begin o), [])
      | _ => None
      end
    | Step t =>
      let ld (l : loc) (mo : N) (v : val) := [ELoad t l mo v] in
      let sto (l : loc) (mo : N) (v : val) := [EStore t l mo v] in
      match th st t with
      | Idle => None
      | Begin o =>
        match o with
        | OIns k v => Some (go (s_g_lp st (upd (g_lp st) t None)) t (L1 false k v), [EStart t 0 [k; v]])
        | OGetIns k v => Some (go (s_g_lp st (upd (g_lp st) t None)) t (L1 true k v), [EStart t 1 [k; v]])
        | ODel k => Some (go (s_g_obs (s_g_lp st (upd (g_lp st) t None)) (upd (g_obs st) t [])) t (X1 false k), [EStart t 2 [k]])
        | OExt k => Some (go (s_g_obs (s_g_lp st (upd (g_lp st) t None)) (upd (g_obs st) t [])) t (X1 true k), [EStart t 3 [k]])
        | OGet k => Some (go (s_g_obs st (upd (g_obs st) t [])) t (G1 k), [EStart t 4 [k]])
        end
      (* ---------------- lock_bucket ---------------- *)
      | L1 a k v => Some (go st t (L2 a k v (db st) (bix st (db st) k)), ld L_db mo_acq (V_blk (db st)))
      | L2 a k v b j =>
        let s := bst st b j in
        Some (go st t (if bs_is_locked s then L1 a k v else L3 a k v b j s), ld (L_state b j) mo_rlx (VInt s))
      | L3 a k v b j s =>
        if bst st b j =? s then
          Some (go (own (wst st b j (bs_locked s)) b j (Some t)) t
                   (if 0 <? bs_item_count s then IK a k v b j s 0 else ISK a k v b j s),
                [ERmw t (L_state b j) mo_acq (VInt s) (VInt (bs_locked s))])
        else Some (go st t (L1 a k v), [ECasF t (L_state b j) mo_acq mo_rlx (VInt (bst st b j)) (VInt s)])
      (* ---------------- do_get_or_emplace ---------------- *)
      | IK a k v b j s i =>
        let kk := akey st b j i in
        Some (go st t (if kk =? k then (if a then IV a k v b j s i else IUold a k v b j s 0)
                       else if i + 1 <? bs_item_count s then IK a k v b j s (i + 1)
                       else if bs_item_count s <? C_bucket_item_count then ISK a k v b j s else IH a k v b j s),
              ld (L_key b j i) mo_rlx (VInt kk))
      | IV a k v b j s i => Some (go st t (IUold a k v b j s (aval st b j i)), ld (L_val b j i) mo_rlx (VInt (aval st b j i)))
      | IUold a k v b j s r =>
        Some (ret (lp (own (wst st b j s) b j None) t k) t (ins_op a k v) (ins_res a false r),
              sto (L_state b j) mo_rel (VInt s) ++ [ERet t (ins_res a false r)])
      | ISK a k v b j s =>
        Some (go (s_akey st (setf3 (akey st) b j (bs_item_count s) k)) t (ISV a k v b j s),
              sto (L_key b j (bs_item_count s)) mo_rlx (VInt k))
      | ISV a k v b j s =>
        Some (go (s_aval st (setf3 (aval st) b j (bs_item_count s) v)) t (IUnew a k v b j s),
              sto (L_val b j (bs_item_count s)) mo_rlx (VInt v))
      | IUnew a k v b j s =>
        let w := bs_inc_item_count s in
        Some (ret (s_g_map (lp (own (wst st b j w) b j None) t k) ((k, v) :: g_map st)) t (ins_op a k v) (ins_res a true v),
              sto (L_state b j) mo_rel (VInt w) ++ [ERet t (ins_res a true v)])
      | IH a k v b j s => Some (go st t (GR1 a k v b j s), ld (L_head b j) mo_rlx (VInt 0))
      (* ---------------- grow ---------------- *)
      | GR1 a k v b j s =>
        Some (go (s_g_rown (s_rlock st 1) (if rlock st =? 0 then Some t else g_rown st)) t (GR2 a k v b j s (rlock st)),
              [ERmw t L_rl mo_rlx (VInt (rlock st)) (VInt 1)])
      | GR2 a k v b j s ar =>
        Some (go (own (wst st b j s) b j None) t (if ar =? 0 then DG1 (mkIC a k v) else GRW (mkIC a k v)),
              sto (L_state b j) mo_rel (VInt s))
      | GRW c =>
        Some (go st t (if rlock st =? 0 then L1 (c_a c) (c_k c) (c_v c) else GRW c), ld L_rl mo_acq (VInt (rlock st)))
      (* ---------------- do_grow ---------------- *)
      | DG1 c =>
        let ob := db st in
        let nb := nalloc st in
        let n := bcnt st ob in
        if dbl n <? max_buckets then
          Some (go (s_g_nver (s_g_own (s_aval (s_akey (s_bst (s_bcnt (s_nalloc st (nb + 1)) (setf1 (bcnt st) nb (dbl n)))
                                                                (clr2 (bst st) nb 0)) (clr3 (akey st) nb 0)) (clr3 (aval st) nb 0))
                                      (clr2 (g_own st) nb None)) (clr2 (g_nver st) nb 0))
                   t (DGL c ob nb n 0),
                ld L_db mo_acq (V_blk ob) ++ [EAlloc t nb (bsize (dbl n))])
        else None
      | DGL c ob nb n i =>
        let s := bst st ob i in
        Some (go st t (if bs_is_locked s then DGL c ob nb n i else DGC c ob nb n i s), ld (L_state ob i) mo_rlx (VInt s))
      | DGC c ob nb n i s =>
        if bst st ob i =? s then
          Some (go (own (wst st ob i (bs_locked s)) ob i (Some t)) t
                   (if i + 1 =? n then DMS c ob nb n 0 else DGL c ob nb n (i + 1)),
                [ERmw t (L_state ob i) mo_acq (VInt s) (VInt (bs_locked s))])
        else Some (go st t (DGL c ob nb n i), [ECasF t (L_state ob i) mo_acq mo_rlx (VInt (bst st ob i)) (VInt s)])
      | DMS c ob nb n i =>
        let s := bst st ob i in
        let cn := bs_item_count s in
        Some (go st t (if cn =? 0 then DMH c ob nb n i else DMK c ob nb n i cn 0), ld (L_state ob i) mo_rlx (VInt s))
      | DMK c ob nb n i cn x =>
        let kk := akey st ob i x in
        Some (go st t (DMN c ob nb n i cn x kk (hash kk mod dbl n)), ld (L_key ob i x) mo_rlx (VInt kk))
      | DMN c ob nb n i cn x kk jn =>
        let ns := bst st nb jn in
        Some (go st t (DMV c ob nb n i cn x kk jn ns), ld (L_state nb jn) mo_rlx (VInt ns))
      | DMV c ob nb n i cn x kk jn ns =>
        let vv := aval st ob i x in
        Some (go st t (DMSK c ob nb n i cn x kk jn ns vv), ld (L_val ob i x) mo_rlx (VInt vv))
      | DMSK c ob nb n i cn x kk jn ns vv =>
        Some (go (s_akey st (setf3 (akey st) nb jn (bs_item_count ns) kk)) t (DMSV c ob nb n i cn x jn ns vv),
              sto (L_key nb jn (bs_item_count ns)) mo_rlx (VInt kk))
      | DMSV c ob nb n i cn x jn ns vv =>
        Some (go (s_aval st (setf3 (aval st) nb jn (bs_item_count ns) vv)) t (DMSS c ob nb n i cn x jn ns),
              sto (L_val nb jn (bs_item_count ns)) mo_rlx (VInt vv))
      | DMSS c ob nb n i cn x jn ns =>
        let w := bs_inc_item_count ns in
        Some (go (wst st nb jn w) t (if x + 1 =? cn then DMH c ob nb n i else DMK c ob nb n i cn (x + 1)),
              sto (L_state nb jn) mo_rlx (VInt w))
      | DMH c ob nb n i =>
        Some (go st t (if i + 1 =? n then DP1 c ob nb n else DMS c ob nb n (i + 1)), ld (L_head ob i) mo_sc (VInt 0))
      | DP1 c ob nb n =>
        Some (go (s_g_own (s_g_frozen (s_db (obs_all st) nb) (setf1 (g_frozen st) ob true)) (clr2 (g_own st) ob None)) t (DP2 c ob nb),
              sto L_db mo_rel (V_blk nb))
      | DP2 c ob nb =>
        Some (go (s_g_rown (s_g_retired (s_rlock st 0) (g_retired st ++ [ob])) None) t (L1 (c_a c) (c_k c) (c_v c)),
              sto L_rl mo_rel (VInt 0) ++ [ENote t 120 [ob]])
      (* ---------------- do_extract ---------------- *)
      | X1 e k => Some (go (obs st t k) t (X2 e k (db st) (bix st (db st) k)), ld L_db mo_acq (V_blk (db st)))
      | X2 e k b j =>
        let s := bst st b j in
        if bs_item_count s =? 0 then
          Some (ret (obs st t k) t (del_op e k) (del_res e false 0),
                ld (L_state b j) mo_rlx (VInt s) ++ [ERet t (del_res e false 0)])
        else Some (go (obs st t k) t (if bs_is_locked s then X1 e k else X3 e k b j s), ld (L_state b j) mo_rlx (VInt s))
      | X3 e k b j s =>
        if bst st b j =? s then
          Some (go (own (wst st b j (bs_locked s)) b j (Some t)) t (XK e k b j s 0),
                [ERmw t (L_state b j) mo_acq (VInt s) (VInt (bs_locked s))])
        else Some (go st t (X1 e k), [ECasF t (L_state b j) mo_acq mo_rlx (VInt (bst st b j)) (VInt s)])
      | XK e k b j s i =>
        let kk := akey st b j i in
        Some (go st t (if kk =? k then XV e k b j s i
                       else if i + 1 <? bs_item_count s then XK e k b j s (i + 1) else XHH e k b j s),
              ld (L_key b j i) mo_rlx (VInt kk))
      | XV e k b j s i => Some (go st t (XH e k b j s i (aval st b j i)), ld (L_val b j i) mo_rlx (VInt (aval st b j i)))
      | XH e k b j s i r =>
        Some (go st t (if negb (i =? bs_item_count s - 1) then XB1 e k b j s i r else XB6 e k b j s i r),
              ld (L_head b j) mo_rlx (VInt 0))
      | XB1 e k b j s i r =>
        let w := bs_set_delete_marker (bs_locked s) (i + 1) in
        Some (go (s_g_map (lp (wst st b j w) t k) (rem k (g_map st))) t (XB2 e k b j s i r), sto (L_state b j) mo_rel (VInt w))
      | XB2 e k b j s i r =>
        let l := bs_item_count s - 1 in
        Some (go st t (XB3 e k b j s i r (akey st b j l)), ld (L_key b j l) mo_rlx (VInt (akey st b j l)))
      | XB3 e k b j s i r kk =>
        let l := bs_item_count s - 1 in
        Some (go st t (XB4 e k b j s i r kk (aval st b j l)), ld (L_val b j l) mo_rlx (VInt (aval st b j l)))
      | XB4 e k b j s i r kk vv =>
        Some (go (s_akey st (setf3 (akey st) b j i kk)) t (XB5 e k b j s i r vv), sto (L_key b j i) mo_rlx (VInt kk))
      | XB5 e k b j s i r vv =>
        Some (go (s_aval st (setf3 (aval st) b j i vv)) t (XB6 e k b j s i r), sto (L_val b j i) mo_rel (VInt vv))
      | XB6 e k b j s i r =>
        let w := bs_dec_item_count (bs_new_version s) in
        let st1 := own (bump (wst st b j w) b j) b j None in
        let st2 := if i =? bs_item_count s - 1 then s_g_map (lp st1 t k) (rem k (g_map st)) else st1 in
        Some (ret st2 t (del_op e k) (del_res e true r), sto (L_state b j) mo_rel (VInt w) ++ [ERet t (del_res e true r)])
      | XHH e k b j s => Some (go st t (XU e k b j s), ld (L_head b j) mo_rlx (VInt 0))
      | XU e k b j s =>
        Some (ret (lp (own (wst st b j s) b j None) t k) t (del_op e k) (del_res e false 0),
              sto (L_state b j) mo_rel (VInt s) ++ [ERet t (del_res e false 0)])
      (* ---------------- try_get_value ---------------- *)
      | G1 k => Some (go (obs st t k) t (G2 k (db st) (bix st (db st) k)), ld L_db mo_acq (V_blk (db st)))
      | G2 k b j =>
        let s := bst st b j in
        Some (go (s_g_rv (obs st t k) (upd (g_rv st) t (g_nver st b j))) t
                 (if 0 <? bs_item_count s then GK k b j s 0 else GH k b j s),
              ld (L_state b j) mo_acq (VInt s))
      | GK k b j s i =>
        let kk := akey st b j i in
        Some (go (obs st t k) t (if kk =? k then GV k b j s i else g_next_slot k b j s i), ld (L_key b j i) mo_rlx (VInt kk))
      | GV k b j s i => Some (go (obs st t k) t (GD k b j s i (aval st b j i)), ld (L_val b j i) mo_acq (VInt (aval st b j i)))
      | GD k b j s i v =>
        Some (go (obs st t k) t (if db st =? b then GS k b j s i v else G1 k), ld L_db mo_acq (V_blk (db st)))
      | GS k b j s i v =>
        let s2 := bst st b j in
        let e := ld (L_state b j) mo_rlx (VInt s2) in
        if negb (bs_version s =? bs_version s2) then Some (go (obs st t k) t (G2 k b j), e)
        else if bs_delete_marker s2 =? i + 1 then Some (go (obs st t k) t (g_next_slot k b j s i), e)
        else Some (ret (obs st t k) t (OGet k) [4; 1; v], e ++ [ERet t [4; 1; v]])
      | GH k b j s => Some (go (obs st t k) t (GE k b j s), ld (L_head b j) mo_acq (VInt 0))
      | GE k b j s =>
        let s2 := bst st b j in
        let e := ld (L_state b j) mo_rlx (VInt s2) in
        if negb (bs_version s =? bs_version s2) then Some (go (obs st t k) t (G2 k b j), e)
        else Some (ret (obs st t k) t (OGet k) [4; 0], e ++ [ERet t [4; 0]])
      end
    end.
End VhmGrow.
