(** Step-level model of xenium::harris_michael_hash_map<long, long, reclaimer<GC>, buckets<nb>,
    memoize_hash<memo>, hash<hf>> (harris_michael_hash_map.hpp): emplace / get_or_emplace / erase(key) /
    contains / find / begin / iterator ++ (with the transition to the next non-empty bucket) / operator* /
    reset / erase(iterator), over a reclaimer whose guard acquisition is one atomic load and whose
    reclaimed nodes are never reused while referenced (what C01 guarantees to the container;
    harness/gc_reclaimer.hpp).  One [Step] = one atomic access; what the code does between two atomic
    accesses (allocation of the node, delete of the unused node, the return) belongs to the step of the
    access before it; the first step of a call emits the invocation (and what precedes the first access).

    Parameters: [nb] = num_buckets, [memo] = memoize_hash, [hf] = the hash function
    (map_to_bucket = modulo), [lex] = which ordering predicate data_with_hash::greater_or_equal uses:
    [true] the lexicographic one of the code, [false] the former [hash >= h && key >= k], under which
    iterators can skip elements (Proof/HmmItInv.v: refuted completeness).

    Heap blocks: block 0 is the map object (bucket i is at offset 8*i), nodes are blocks 1, 2, ... in
    allocation order (memo: size 48, next at 40; otherwise size 40, next at 32).  A pointer is a block
    number, 0 = nullptr.  A [concurrent_ptr* prev] of the code is [&buckets[b]] or [&save->next] for the
    node [save] the thread holds a guard on; it is represented by the pair (b, sv) with sv = 0 standing
    for [&buckets[b]] ([pnext], [set_prev]).  The mark bit of marked_ptr<node, 1> is bit 63; xvrt prints
    the 16 upper bits after [^] (marked pointer to block p: [&hp+0^32768], marked null: 2^63).

    Every thread owns one iterator variable (harness/h_hm.cpp: [its[tid]]), initially end():
    [it_b] = bucket, [it_cur] = info.cur (0: the iterator equals end()), [it_sv] = info.save / info.prev.

    Ghosts: [g_abs] the abstract map (changed exactly at the successful link CAS and the successful mark
    CAS), [g_lin] these linearization events in order, [g_retired] the nodes passed to reclaim(),
    [g_lp t] the lookup of the key of thread t's operation in [g_abs] at its latest candidate
    linearization point, [g_hist] the completed map operations with result, value seen and [g_lp];
    per iterator: [g_yield] the positions taken in the current traversal (bucket, key, node, [y_wit]: the
    key was in [g_abs] at the instant of the load that moved the iterator there, [y_reach]: the node was
    reachable from its bucket head at that instant, [y_lin]: length of [g_lin] then), [g_lo] how the
    traversal started, [g_trav] not abandoned, [g_start] the keys of [g_abs] at its first step,
    [g_always] the keys that were in [g_abs] in every state since then. *)
From Coq Require Import NArith List Bool.
From XV Require Import Base.Word Conc.Lts Conc.Ev.
Import ListNotations.
Local Open Scope N_scope.

Inductive op :=
| OIns (k v : N)        (* emplace(k, v) *)
| OGet (k v : N)        (* get_or_emplace(k, v) *)
| ODel (k : N)          (* erase(k) *)
| OHas (k : N)          (* contains(k) *)
| OFind (k : N)         (* find(k), the iterator is dropped *)
| OItB                  (* it = begin() *)
| OItF (k : N)          (* it = find(k) *)
| OItN                  (* ++it (nothing if it == end()) *)
| OItD                  (* *it *)
| OItE                  (* it = erase(move(it)) (nothing if it == end()) *)
| OItR.                 (* it.reset() *)

(** what the internal [find] was called for *)
Inductive fk :=
| KIns (n v : N)        (* emplace_or_get, n = the new node (value v) *)
| KGet (n v : N)        (* do_get_or_emplace_lazy, n = the new node or 0 if not allocated yet, v = the value *)
| KDel                  (* erase(key) before the mark CAS *)
| KDel2                 (* erase(key) after a failed unlink CAS (result ignored) *)
| KHas | KFind | KItF
| KItN (o : N)          (* operator++ that saw its node o marked *)
| KItE (o : N).         (* erase(iterator) after the failed unlink CAS of its node o *)

(** on whose behalf the heads of the following buckets are read (move_to_next_bucket / begin()) *)
Inductive mk := MBeg | MNext | MErase (o : N).

(** program points; [b] = bucket, [h] = hash, [key] = searched key, [start] = start_guard, [sv] = info.save,
    [cur] = info.cur, [nx] = info.next *)
Inductive pc :=
| Idle
| Begin (o : op)
(* find(hash, key, bucket, info, backoff) *)
| F1 (c : fk) (b h key start : N)            (* retry: info.next = prev->load(rlx); marked -> restart from the bucket head *)
| F2 (c : fk) (b h key start sv nx : N)      (* (6) cur.acquire_if_equal(prev, next, acq) *)
| F3 (c : fk) (b h key start sv cur : N)     (* info.next = cur->next.load(rlx) *)
| F4 (c : fk) (b h key start sv cur : N)     (* (7) info.next = cur->next.load(acq).get() *)
| F5 (c : fk) (b h key start sv cur nx : N)  (* (8) CAS prev: cur -> next rel/rlx; reclaim cur *)
| F6 (c : fk) (b h key start sv cur nx : N) (w : bool)  (* prev->load(rlx) != cur -> retry; greater_or_equal *)
(* emplace_or_get (g = false) / do_get_or_emplace_lazy (g = true) *)
| E1 (g : bool) (n v b h key sv cur : N)     (* n->next.store(cur, rlx); v = the value of the call *)
| E2 (g : bool) (n v b h key sv cur : N)     (* (9)/(10) CAS prev: cur -> n rel/rlx *)
(* erase(key) *)
| D1 (b h key sv cur nx : N)                 (* (11) CAS cur->next: next -> (next, mark) acq/rlx *)
| D2 (b h key sv cur nx : N)                 (* (12) CAS prev: cur -> next rel/rlx; reclaim cur *)
(* iterator(map, bucket) / move_to_next_bucket *)
| MB (c : mk) (b : N)                        (* (2)/(3) info.cur.acquire(buckets[b], acq) *)
(* operator++ *)
| N1                                         (* next = info.cur->next.load(rlx) *)
| N2 (nx : N)                                (* (1) tmp_guard.acquire_if_equal(info.cur->next, next, acq) *)
(* erase(iterator) *)
| X1                                         (* (13) next = pos.info.cur->next.load(acq) *)
| X2 (nx : N)                                (* (14) CAS cur->next: next -> (next, mark) acq/acq *)
| X3 (nx : N).                               (* (15) CAS prev: cur -> next rel/rlx; reclaim cur *)

(** linearization events: node [n] with key [k] (value [v]) linked / marked by thread [t];
    [it] = marked by erase(iterator) *)
Inductive lev := LIns (t : nat) (k v n : N) | LDel (t : nat) (k n : N) (it : bool).

(** a completed map operation: result flag, value seen (get_or_emplace, find; otherwise 0) and [g_lp] *)
Record hrec := mkH { h_t : nat; h_op : op; h_res : bool; h_val : N; h_wit : option (option N) }.

Record yrec := mkY { y_b : N; y_key : N; y_node : N; y_wit : bool; y_reach : bool; y_lin : nat }.

(** the shared memory and the ghosts that describe it *)
Record mem := mkM {
  bhead : N -> N;
  nkey : N -> N; nval : N -> N; nhash : N -> N; nnext : N -> N; nmark : N -> bool; nalloc : N;
  g_abs : list (N * N); g_lin : list lev; g_retired : list N }.

(** the iterator variable of a thread and the ghosts of its traversal *)
Record itv := mkI {
  it_b : N; it_sv : N; it_cur : N;
  g_yield : list yrec; g_lo : option N; g_trav : bool; g_start : list N; g_always : list N }.

Record state := mkSt {
  sm : mem; th : nat -> pc; its : nat -> itv; g_lp : nat -> option (option N); g_hist : list hrec }.

Inductive action := Start (t : nat) (o : op) | Step (t : nat).

Definition setf {X : Type} (f : N -> X) (i : N) (v : X) : N -> X := fun j => if j =? i then v else f j.

(** the abstract map: association list with unique keys *)
Fixpoint lookup (k : N) (l : list (N * N)) : option N :=
  match l with
  | [] => None
  | (k', v) :: r => if k' =? k then Some v else lookup k r
  end.
Definition memk (k : N) (l : list (N * N)) : bool := match lookup k l with Some _ => true | None => false end.
Definition remk (k : N) (l : list (N * N)) : list (N * N) := filter (fun p => negb (fst p =? k)) l.
Definition keys (l : list (N * N)) : list N := map fst l.
Definition memb (k : N) (l : list N) : bool := existsb (N.eqb k) l.

(** the sequential map: effect of the linearization events, in order *)
Definition apply_lev (s : list (N * N)) (e : lev) : list (N * N) :=
  match e with LIns _ k v _ => (k, v) :: s | LDel _ k _ _ => remk k s end.
Definition apply_lin (l : list lev) : list (N * N) := fold_left apply_lev l [].

Definition b2n (b : bool) : N := if b then 1 else 0.
Definition mark_upper : N := 32768.                     (* bit 63 = bit 15 of the upper 16 bits *)
Definition mark_null : N := 9223372036854775808.        (* 2^63 *)
Definition vmp (p : N) (m : bool) : val :=
  if p =? 0 then VInt (if m then mark_null else 0) else VPtr (LHeap p 0) (if m then mark_upper else 0).

(** the hash functions of the harness (cfg hash=id|const|mod2|rev) *)
Definition hf_id (k : N) : N := k.
Definition hf_const (k : N) : N := 7.
Definition hf_mod2 (k : N) : N := k mod 2.
Definition hf_rev (k : N) : N := 1000 - k.

(** nodes reachable from a bucket head, computed by following the next pointers from the sentinel 0 *)
Fixpoint walk (nx : N -> N) (fuel : nat) (a : N) : list N :=
  match fuel with
  | O => []
  | S f => if nx a =? 0 then [] else nx a :: walk nx f (nx a)
  end.

Definition pnext (m : mem) (b sv : N) : N := if sv =? 0 then bhead m b else nnext m sv.
Definition chain (m : mem) (b : N) : list N := walk (pnext m b) (N.to_nat (nalloc m)) 0.
Definition reachable (m : mem) (b x : N) : bool := memb x (chain m b).

Definition init_mem : mem :=
  mkM (fun _ => 0) (fun _ => 0) (fun _ => 0) (fun _ => 0) (fun _ => 0) (fun _ => false) 1 [] [] [].

Section Model.
  Variable nb : N.          (* policy::buckets *)
  Variable memo : bool.     (* policy::memoize_hash *)
  Variable lex : bool.      (* data_with_hash::greater_or_equal: true = lexicographic on (hash, key), the code;
                               false = the former predicate [hash >= h && key >= k] (kept as a regression witness) *)
  Variable hf : N -> N.     (* policy::hash *)

  Definition bucket_of (k : N) : N := hf k mod nb.
  Definition next_off : N := if memo then 40 else 32.     (* offsetof(node, next) *)
  Definition node_size : N := if memo then 48 else 40.
  Definition L_bucket (b : N) : loc := LHeap 0 (8 * b).
  Definition L_next (x : N) : loc := LHeap x next_off.
  Definition L_prev (b sv : N) : loc := if sv =? 0 then L_bucket b else L_next sv.

  (** node.data.get_hash() *)
  Definition nh (m : mem) (x : N) : N := if memo then nhash m x else hf (nkey m x).
  (** node.data.greater_or_equal(h, key): data_without_hash compares the keys; data_with_hash compares
      (hash, key) lexicographically [hash != h ? hash > h : key >= k] *)
  Definition gef (m : mem) (h k x : N) : bool :=
    if memo then
      if lex then (if nhash m x =? h then k <=? nkey m x else h <? nhash m x)
      else (h <=? nhash m x) && (k <=? nkey m x)
    else k <=? nkey m x.

  Definition pmark (m : mem) (sv : N) : bool := if sv =? 0 then false else nmark m sv.
  Definition vprev (m : mem) (b sv : N) : val := vmp (pnext m b sv) (pmark m sv).
  Definition vnext (m : mem) (x : N) : val := vmp (nnext m x) (nmark m x).
  (** prev holds the unmarked pointer x *)
  Definition valid (m : mem) (b sv x : N) : bool := (pnext m b sv =? x) && negb (pmark m sv).

  (** memory transformers *)
  Definition set_prev (m : mem) (b sv v : N) : mem :=
    if sv =? 0 then
      mkM (setf (bhead m) b v) (nkey m) (nval m) (nhash m) (nnext m) (nmark m) (nalloc m) (g_abs m) (g_lin m) (g_retired m)
    else
      mkM (bhead m) (nkey m) (nval m) (nhash m) (setf (nnext m) sv v) (nmark m) (nalloc m) (g_abs m) (g_lin m) (g_retired m).
  (** new node(hash, key, value): block [nalloc m] *)
  Definition m_alloc (m : mem) (k v : N) : mem :=
    let n := nalloc m in
    mkM (bhead m) (setf (nkey m) n k) (setf (nval m) n v) (setf (nhash m) n (hf k)) (setf (nnext m) n 0)
        (setf (nmark m) n false) (n + 1) (g_abs m) (g_lin m) (g_retired m).
  Definition m_store (m : mem) (n v : N) : mem :=
    mkM (bhead m) (nkey m) (nval m) (nhash m) (setf (nnext m) n v) (nmark m) (nalloc m) (g_abs m) (g_lin m) (g_retired m).
  (** successful link CAS [prev: cur -> n] *)
  Definition m_link (m : mem) (t : nat) (b sv n : N) : mem :=
    let m1 := set_prev m b sv n in
    mkM (bhead m1) (nkey m1) (nval m1) (nhash m1) (nnext m1) (nmark m1) (nalloc m1)
        ((nkey m n, nval m n) :: g_abs m) (g_lin m ++ [LIns t (nkey m n) (nval m n) n]) (g_retired m).
  (** successful mark CAS on [cur->next] *)
  Definition m_mark (m : mem) (t : nat) (cur : N) (it : bool) : mem :=
    mkM (bhead m) (nkey m) (nval m) (nhash m) (nnext m) (setf (nmark m) cur true) (nalloc m)
        (remk (nkey m cur) (g_abs m)) (g_lin m ++ [LDel t (nkey m cur) cur it]) (g_retired m).
  (** successful unlink CAS [prev: cur -> nx] followed by [cur.reclaim()] *)
  Definition m_unlink (m : mem) (b sv cur nx : N) : mem :=
    let m1 := set_prev m b sv nx in
    mkM (bhead m1) (nkey m1) (nval m1) (nhash m1) (nnext m1) (nmark m1) (nalloc m1)
        (g_abs m) (g_lin m) (g_retired m ++ [cur]).

  Definition end_it : itv := mkI nb 0 0 [] None false [] [].
  Definition init : state := mkSt init_mem (fun _ => Idle) (fun _ => end_it) (fun _ => None) [].

  (** operation codes of [EStart]: 0 ins, 1 getins, 2 del, 3 has, 4 find, 5 itb, 6 itf, 7 itn, 8 itd, 9 ite,
      10 itr.  Results [ERet t (code :: r)]: ins/del/has [b]; getins [b; k; value seen];
      position [0] = end, [1; k] = key k; ite: [0] = end (nothing erased), [1; was; 0] = "was>end",
      [1; was; 1; k] = "was>k"; itr: [] *)
  Definition pos_res (m : mem) (cur : N) : list N := if cur =? 0 then [0] else [1; nkey m cur].
  Definition mk_res (m : mem) (c : mk) (p : list N) : list N :=
    match c with MBeg => 5 :: p | MNext => 7 :: p | MErase o => 9 :: 1 :: nkey m o :: p end.

  (** state transformers *)
  Definition set_pc (st : state) (t : nat) (p : pc) : state :=
    mkSt (sm st) (upd (th st) t p) (its st) (g_lp st) (g_hist st).
  Definition set_pc_lp (st : state) (t : nat) (p : pc) (w : option (option N)) : state :=
    mkSt (sm st) (upd (th st) t p) (its st) (upd (g_lp st) t w) (g_hist st).
  Definition set_mem (st : state) (m : mem) : state := mkSt m (th st) (its st) (g_lp st) (g_hist st).
  (** return of map operation [o] with result [r], value [v] and witness [w] *)
  Definition ret_st (st : state) (t : nat) (o : op) (r : bool) (v : N) (w : option (option N)) : state :=
    mkSt (sm st) (upd (th st) t Idle) (its st) (upd (g_lp st) t w) (g_hist st ++ [mkH t o r v w]).

  (** the iterator moved to [cur]: a new position of the traversal unless [cur] is null *)
  Definition push_y (m : mem) (ys : list yrec) (b cur : N) (w : bool) : list yrec :=
    if cur =? 0 then ys else ys ++ [mkY b (nkey m cur) cur w (reachable m b cur) (length (g_lin m))].
  (** the iterator operation returns with the iterator at (b, sv, cur) *)
  Definition move_it (st : state) (t : nat) (b sv cur : N) (w : bool) : state :=
    let i := its st t in
    mkSt (sm st) (upd (th st) t Idle)
         (upd (its st) t (mkI b sv cur (push_y (sm st) (g_yield i) b cur w) (g_lo i) (g_trav i) (g_start i) (g_always i)))
         (g_lp st) (g_hist st).
  (** first step of [itb] / [itf]: the iterator variable is overwritten by the result of the call (its old
      value is not used any more and forgotten at once), a new traversal starts *)
  Definition start_trav (st : state) (t : nat) (p : pc) (lo : option N) : state :=
    mkSt (sm st) (upd (th st) t p)
         (upd (its st) t (mkI 0 0 0 [] lo true (keys (g_abs (sm st))) (keys (g_abs (sm st)))))
         (upd (g_lp st) t None) (g_hist st).
  (** the iterator becomes end() and no traversal is in progress (reset(), failed find) *)
  Definition end_trav (st : state) (t : nat) : state :=
    let i := its st t in
    mkSt (sm st) (upd (th st) t Idle)
         (upd (its st) t (mkI nb 0 0 (g_yield i) (g_lo i) false (g_start i) (g_always i)))
         (g_lp st) (g_hist st).
  Definition add_hist (st : state) (t : nat) (o : op) (r : bool) (v : N) (w : option (option N)) : state :=
    mkSt (sm st) (th st) (its st) (upd (g_lp st) t w) (g_hist st ++ [mkH t o r v w]).

  (** an iterator operation has info = (b, sv, cur): return, or go on with the next bucket if cur is null *)
  Definition it_land (st : state) (t : nat) (c : mk) (b sv cur : N) (w : bool) (e : list ev) : option (state * list ev) :=
    let m := sm st in
    if cur =? 0 then
      if b + 1 <? nb then Some (set_pc st t (MB c (b + 1)), e)
      else Some (move_it st t b 0 0 w, e ++ [ERet t (mk_res m c [0])])
    else Some (move_it st t b sv cur w, e ++ [ERet t (mk_res m c (pos_res m cur))]).

  (** what happens when [find] returns [found] with info = (sv, cur, nx); [e] = events of the last access *)
  Definition find_ret (st : state) (t : nat) (c : fk) (b h key sv cur nx : N) (found w : bool) (e : list ev)
    : option (state * list ev) :=
    let m := sm st in
    let lp := if found then g_lp st t else Some (lookup key (g_abs m)) in
    match c with
    | KIns n v =>
      if found then Some (ret_st st t (OIns key v) false 0 lp, e ++ [EFree t n; ERet t [0; 0]])   (* delete n *)
      else Some (set_pc_lp st t (E1 false n v b h key sv cur) lp, e)
    | KGet n v =>
      if found then
        Some (ret_st st t (OGet key v) false (nval m cur) lp,
              e ++ (if n =? 0 then [] else [EFree t n]) ++ [ERet t [1; 0; key; nval m cur]])
      else if n =? 0 then
        Some (set_pc_lp (set_mem st (m_alloc m key v)) t (E1 true (nalloc m) v b h key sv cur) lp,
              e ++ [EAlloc t (nalloc m) node_size])                                                (* n = node_factory(h, key) *)
      else Some (set_pc_lp st t (E1 true n v b h key sv cur) lp, e)
    | KDel =>
      if found then Some (set_pc st t (D1 b h key sv cur nx), e)
      else Some (ret_st st t (ODel key) false 0 lp, e ++ [ERet t [2; 0]])
    | KDel2 => Some (ret_st st t (ODel key) true 0 (g_lp st t), e ++ [ERet t [2; 1]])
    | KHas => Some (ret_st st t (OHas key) found 0 lp, e ++ [ERet t [3; b2n found]])
    | KFind =>
      if found then Some (ret_st st t (OFind key) true (nval m cur) lp, e ++ [ERet t (4 :: pos_res m cur)])
      else Some (ret_st st t (OFind key) false 0 lp, e ++ [ERet t [4; 0]])
    | KItF =>
      if found then Some (add_hist (move_it st t b sv cur w) t (OItF key) true (nval m cur) lp, e ++ [ERet t (6 :: pos_res m cur)])
      else Some (add_hist (end_trav st t) t (OItF key) false 0 lp, e ++ [ERet t [6; 0]])
    | KItN o => it_land st t MNext b sv cur w e
    | KItE o => it_land st t (MErase o) b sv cur w e
    end.

  Definition is_del2 (c : fk) : bool := match c with KDel2 => true | _ => false end.

  (** the step function before the refresh of [g_always] *)
  Definition step0 (st : state) (a : action) : option (state * list ev) :=
    let m := sm st in
    match a with
    | Start t o =>
      match th st t with
      | Idle => Some (set_pc st t (Begin o), [])
      | _ => None
      end
    | Step t =>
      let i := its st t in
      let ib := it_b i in let isv := it_sv i in let icur := it_cur i in
      let go (p : pc) (e : list ev) := Some (set_pc st t p, e) in
      match th st t with
      | Idle => None
      | Begin (OIns k v) =>
        let m' := m_alloc m k v in let n := nalloc m in
        Some (set_pc_lp (set_mem st m') t (F1 (KIns n v) (bucket_of k) (nh m' n) k 0) None,
              [EStart t 0 [k]; EAlloc t n node_size])
      | Begin (OGet k v) => Some (set_pc_lp st t (F1 (KGet 0 v) (bucket_of k) (hf k) k 0) None, [EStart t 1 [k]])
      | Begin (ODel k) => Some (set_pc_lp st t (F1 KDel (bucket_of k) (hf k) k 0) None, [EStart t 2 [k]])
      | Begin (OHas k) => Some (set_pc_lp st t (F1 KHas (bucket_of k) (hf k) k 0) None, [EStart t 3 [k]])
      | Begin (OFind k) => Some (set_pc_lp st t (F1 KFind (bucket_of k) (hf k) k 0) None, [EStart t 4 [k]])
      | Begin OItB => Some (start_trav st t (MB MBeg 0) None, [EStart t 5 []])
      | Begin (OItF k) => Some (start_trav st t (F1 KItF (bucket_of k) (hf k) k 0) (Some k), [EStart t 6 [k]])
      | Begin OItN =>
        if icur =? 0 then go Idle [EStart t 7 []; ERet t [7; 0]] else go N1 [EStart t 7 []]
      | Begin OItD => go Idle [EStart t 8 []; ERet t (8 :: pos_res m icur)]
      | Begin OItE =>
        if icur =? 0 then go Idle [EStart t 9 []; ERet t [9; 0]] else go X1 [EStart t 9 []]
      | Begin OItR => Some (end_trav st t, [EStart t 10 []; ERet t [10]])
      (* ---- find ---- *)
      | F1 c b h key start =>
        let e := [ELoad t (L_prev b start) mo_rlx (vprev m b start)] in
        if pmark m start then go (F1 c b h key 0) e
        else go (F2 c b h key start start (pnext m b start)) e
      | F2 c b h key start sv nx =>
        let e := [ELoad t (L_prev b sv) mo_acq (vprev m b sv)] in
        if negb (valid m b sv nx) then go (F1 c b h key start) e
        else if nx =? 0 then find_ret st t c b h key sv 0 0 false false e
        else go (F3 c b h key start sv nx) e
      | F3 c b h key start sv cur =>
        let e := [ELoad t (L_next cur) mo_rlx (vnext m cur)] in
        if nmark m cur then go (F4 c b h key start sv cur) e
        else if (nkey m cur =? key) && negb (is_del2 c)
             then Some (set_pc_lp st t (F6 c b h key start sv cur (nnext m cur) (memk (nkey m cur) (g_abs m)))
                                  (Some (lookup key (g_abs m))), e)
             else go (F6 c b h key start sv cur (nnext m cur) (memk (nkey m cur) (g_abs m))) e
      | F4 c b h key start sv cur =>
        go (F5 c b h key start sv cur (nnext m cur)) [ELoad t (L_next cur) mo_acq (vnext m cur)]
      | F5 c b h key start sv cur nx =>
        if valid m b sv cur then
          Some (set_pc (set_mem st (m_unlink m b sv cur nx)) t (F2 c b h key start sv nx),
                [ERmw t (L_prev b sv) mo_rel (vmp cur false) (vmp nx false); ENote t 120 [cur]])
        else go (F1 c b h key start) [ECasF t (L_prev b sv) mo_rel mo_rlx (vprev m b sv) (vmp cur false)]
      | F6 c b h key start sv cur nx w =>
        let e := [ELoad t (L_prev b sv) mo_rlx (vprev m b sv)] in
        if negb (valid m b sv cur) then go (F1 c b h key start) e
        else if gef m h key cur then find_ret st t c b h key sv cur nx (nkey m cur =? key) w e
        else go (F2 c b h key start cur nx) e
      (* ---- emplace_or_get / do_get_or_emplace_lazy ---- *)
      | E1 g n v b h key sv cur =>
        Some (set_pc (set_mem st (m_store m n cur)) t (E2 g n v b h key sv cur), [EStore t (L_next n) mo_rlx (vmp cur false)])
      | E2 g n v b h key sv cur =>
        if valid m b sv cur then
          let w := Some (lookup key (g_abs m)) in
          let e := [ERmw t (L_prev b sv) mo_rel (vmp cur false) (vmp n false)] in
          let st' := set_mem st (m_link m t b sv n) in
          if g then Some (ret_st st' t (OGet key v) true (nval m n) w, e ++ [ERet t [1; 1; key; nval m n]])
          else Some (ret_st st' t (OIns key v) true 0 w, e ++ [ERet t [0; 1]])
        else go (F1 (if g then KGet n v else KIns n v) b h key sv)
                [ECasF t (L_prev b sv) mo_rel mo_rlx (vprev m b sv) (vmp cur false)]
      (* ---- erase(key) ---- *)
      | D1 b h key sv cur nx =>
        if (nnext m cur =? nx) && negb (nmark m cur) then
          Some (set_pc_lp (set_mem st (m_mark m t cur false)) t (D2 b h key sv cur nx) (Some (lookup key (g_abs m))),
                [ERmw t (L_next cur) mo_acq (vmp nx false) (vmp nx true)])
        else go (F1 KDel b h key sv) [ECasF t (L_next cur) mo_acq mo_rlx (vnext m cur) (vmp nx false)]
      | D2 b h key sv cur nx =>
        if valid m b sv cur then
          Some (ret_st (set_mem st (m_unlink m b sv cur nx)) t (ODel key) true 0 (g_lp st t),
                [ERmw t (L_prev b sv) mo_rel (vmp cur false) (vmp nx false); ENote t 120 [cur]; ERet t [2; 1]])
        else go (F1 KDel2 b h key sv) [ECasF t (L_prev b sv) mo_rel mo_rlx (vprev m b sv) (vmp cur false)]
      (* ---- iterator(map, bucket) / move_to_next_bucket ---- *)
      | MB c b =>
        let x := bhead m b in
        it_land st t c b 0 x (memk (nkey m x) (g_abs m)) [ELoad t (L_bucket b) mo_acq (vmp x false)]
      (* ---- operator++ ---- *)
      | N1 =>
        let e := [ELoad t (L_next icur) mo_rlx (vnext m icur)] in
        if nmark m icur then go (F1 (KItN icur) ib (nh m icur) (nkey m icur) isv) e
        else go (N2 (nnext m icur)) e
      | N2 nx =>
        let e := [ELoad t (L_next icur) mo_acq (vnext m icur)] in
        if (nnext m icur =? nx) && negb (nmark m icur) then it_land st t MNext ib icur nx (memk (nkey m nx) (g_abs m)) e
        else go N1 e
      (* ---- erase(iterator) ---- *)
      | X1 =>
        let e := [ELoad t (L_next icur) mo_acq (vnext m icur)] in
        if nmark m icur then go (X3 (nnext m icur)) e else go (X2 (nnext m icur)) e
      | X2 nx =>
        if (nnext m icur =? nx) && negb (nmark m icur) then
          Some (set_pc (set_mem st (m_mark m t icur true)) t (X3 nx),
                [ERmw t (L_next icur) mo_acq (vmp nx false) (vmp nx true)])
        else
          let e := [ECasF t (L_next icur) mo_acq mo_acq (vnext m icur) (vmp nx false)] in
          if nmark m icur then go (X3 (nnext m icur)) e else go (X2 (nnext m icur)) e
      | X3 nx =>
        if valid m ib isv icur then
          it_land (set_mem st (m_unlink m ib isv icur nx)) t (MErase icur) ib isv nx (memk (nkey m nx) (g_abs m))
                  [ERmw t (L_prev ib isv) mo_rel (vmp icur false) (vmp nx false); ENote t 120 [icur]]
        else go (F1 (KItE icur) ib (nh m icur) (nkey m icur) isv)
                [ECasF t (L_prev ib isv) mo_rel mo_rlx (vprev m ib isv) (vmp icur false)]
      end
    end.

  (** after every step: [g_always u] keeps the keys that are still in the abstract map *)
  Definition refresh (st : state) : state :=
    mkSt (sm st) (th st)
         (fun u => let i := its st u in
                   mkI (it_b i) (it_sv i) (it_cur i) (g_yield i) (g_lo i) (g_trav i) (g_start i)
                       (filter (fun k => memk k (g_abs (sm st))) (g_always i)))
         (g_lp st) (g_hist st).

  Definition step (st : state) (a : action) : option (state * list ev) :=
    match step0 st a with
    | Some (st', e) => Some (refresh st', e)
    | None => None
    end.
End Model.
