(** kirsch_kfifo_queue (C06, unbounded): a pop that runs alone from a state in which every other thread is between
    operations terminates, within (distance of the head and tail segment numbers + 1) * (k + 12) steps, for every
    way of choosing the random start offsets; together with Proof/KfqSeq.v this gives the sequential clause of
    C06 ("'empty' exactly when the queue is empty if no operation runs concurrently").  No axioms, no admits. *)
From Coq Require Import NArith List Bool Lia PeanoNat Arith ZifyBool ZifyNat ZifyN.
From XV Require Import Base.Word Conc.Lts Conc.Ev Model.KfqDefs.
From XV Require Import Proof.KfqWf Proof.KfqOwn Proof.KfqRegion Proof.KfqSeg Proof.KfqCons Proof.KfqCall Proof.KfqSeq.
Import ListNotations.
Local Open Scope N_scope.

Lemma iw_eqb_refl w : iw_eqb w w = true.
Proof. destruct (iw_eqb_spec w w); congruence. Qed.

Set Default Proof Using "All".
Section Solo.
  Variable k : N.
  Hypothesis Hk : 1 <= k.
  Notation step := (step k).
  Variable u : nat.
  Notation K := (N.to_nat k).

  (** the local values of the pop are up to date (nobody else moves) *)
  Definition curk (s : state) (c : cont) : Prop :=
    match c with KPop hd j q tg => slot s (fst hd) j = (q, tg) | KPush _ => False end.
  Definition cur (s : state) (p : pc) : Prop :=
    match p with
    | Idle | Begin OPop | D1 => True
    | D1f hd | D2n hd | D3n hd => hd = head s
    | DF hd ri i => hd = head s /\ i < k
    | D2 hd j q tg | D3 hd j q tg => hd = head s /\ slot s (fst hd) j = (q, tg)
    | D4 hd j q tg => slot s (fst hd) j = (q, tg)
    | DE hd tl => hd = head s /\ tl = tail s
    | H1 hd tl | H2 hd tl _ => hd = head s /\ fst hd <> fst tl
    | H6 hd _ | H7 hd _ => hd = head s
    | A1 c tl => tl = tail s /\ curk s c
    | A2 c tl nx => tl = tail s /\ nx = nxt s (fst tl) /\ curk s c
    | A4 c tl nx n => nxt s (fst tl) = nx /\ curk s c
    | A3 c tl nx | A5 c tl nx => curk s c
    | _ => False
    end.

  Definition W : nat := (K + 12)%nat.
  Definition dist (s : state) : nat := N.to_nat (fst (tail s) - fst (head s)).
  Definition mu (s : state) : nat :=
    match th s u with
    | Begin _ => dist s * W + K + 11
    | D1 => dist s * W + K + 10
    | D1f _ => dist s * W + K + 9
    | DF _ _ i => dist s * W + N.to_nat (k - i) + 8
    | D2 _ _ _ _ => 8
    | D3 _ _ _ _ => 7
    | A1 _ _ => 6
    | A2 _ _ _ => 5
    | A4 _ _ _ _ => 3
    | A3 _ _ _ | A5 _ _ _ => 2
    | D4 _ _ _ _ | DE _ _ => 1
    | D2n _ => dist s * W + 7
    | D3n _ => dist s * W + 6
    | H1 _ _ => dist s * W + 5
    | H2 _ _ _ => dist s * W + 4
    | H6 _ _ => dist s * W + 3
    | H7 _ _ => dist s * W + 2
    | _ => 0
    end%nat.

  Definition PS (s : state) : Prop := reach init step s /\ (forall t, t <> u -> th s t = Idle) /\ cur s (th s u).

  Lemma solo_progress s : PS s -> th s u <> Idle ->
    forall r, exists s' es, step s (Step u r) = Some (s', es) /\ PS s' /\ (mu s' < mu s)%nat.
  Proof.
    intros (Hr & Hq & Hc) Hni r.
    pose proof (InvA_reach k Hk s Hr) as IA. pose proof (a_th k s IA u) as Hme.
    assert (Hgoal : exists s' es, step s (Step u r) = Some (s', es) /\ (forall t, t <> u -> th s' t = Idle) /\ cur s' (th s' u) /\ (mu s' < mu s)%nat).
    { unfold mu at 2. unfold KfqDefs.step.
      destruct (th s u) eqn:E; try contradiction; try (match goal with o : op |- _ => destruct o end); cbn [cur curk] in Hc; try contradiction;
        try (destruct c; cbn [curk] in Hc; try tauto); cbn [TA] in Hme.
      all: repeat match goal with
        | |- context [if iw_eqb ?a ?b then _ else _] => destruct (iw_eqb_spec a b)
        | |- context [if sw_eqb ?a ?b then _ else _] => destruct (sw_eqb_spec a b)
        | |- context [if negb (?a =? ?b) then _ else _] => destruct (N.eqb_spec a b); cbn [negb]
        | |- context [if ?a =? ?b then _ else _] => destruct (N.eqb_spec a b)
        | |- context [if ?a <? ?b then _ else _] => destruct (N.ltb_spec a b)
        end.
      all: eexists _, _; (split; [reflexivity|]); (split; [intros t0 Ht0; sim; rewrite upd_other by exact Ht0; apply Hq; exact Ht0|]).
      all: unfold mu, dist, W; sim; rewrite upd_same; cbn [cur curk kpc]; sim.
      all: try (split; [|lia]).
      all: try tauto.
      all: try (exfalso; intuition congruence; fail).
      - destruct Hc as (A & B & C). split; [symmetry; exact B|exact C].
      - split; [exact Hc|lia].
      - destruct Hc as [A B]. split; [split; [exact A|destruct (slot s (fst hd) (fidx k ri i)); reflexivity]|nia].
      - split; [split; [exact Hc|reflexivity]|nia].
      - split; [exact Logic.I|]. destruct Hme as ((A & B & C & D & D') & F). subst hd.
        pose proof (tail_le_last k Hk s IA) as Htl.
        destruct (a_succ k s IA (fst (head s)) A ltac:(lia)) as (n & Q & Ln & Hlt & Hmin).
        rewrite D, Q. cbn [fst]. pose proof (Hmin _ (a_tail k s IA) C) as Hle.
        assert (N.to_nat (fst (tail s) - n) < N.to_nat (fst (tail s) - fst (head s)))%nat by lia. nia. }
    destruct Hgoal as (s' & es & Hst & A & B & C). exists s', es. split; [exact Hst|]. split; [|exact C].
    split; [eapply reach_step; eauto|]. split; assumption.
  Qed.

  (** [solof f n s0 s]: s is reached from s0 by n steps of u, the random start offsets chosen by f *)
  Inductive solof (f : state -> N) (s0 : state) : nat -> state -> Prop :=
  | sf_refl : solof f s0 0 s0
  | sf_step n s s' es : solof f s0 n s -> th s u <> Idle -> step s (Step u (f s)) = Some (s', es) -> solof f s0 (S n) s'.

  Lemma solof_solo f s0 n s : solof f s0 n s -> solo k u s0 s.
  Proof. induction 1; [apply solo_refl|eapply solo_step; eauto]. Qed.

  Lemma solo_terminates f s0 : forall m s n0, (mu s <= m)%nat -> PS s -> solof f s0 n0 s ->
    exists n s', (n <= n0 + m)%nat /\ solof f s0 n s' /\ th s' u = Idle.
  Proof.
    assert (Hdec : forall p : pc, p = Idle \/ p <> Idle) by (intros p; destruct p; auto; right; discriminate).
    induction m as [|m IH]; intros s n0 Hm HP Hs.
    - destruct (Hdec (th s u)) as [E|E]; [exists n0, s; split; [lia|split; [exact Hs|exact E]]|].
      exfalso. destruct (solo_progress s HP E 0) as (s' & es & _ & _ & Hlt). lia.
    - destruct (Hdec (th s u)) as [E|E]; [exists n0, s; split; [lia|split; [exact Hs|exact E]]|].
      destruct (solo_progress s HP E (f s)) as (s' & es & Hst & HP' & Hlt).
      assert (Hs' : solof f s0 (S n0) s') by (eapply sf_step; eauto).
      destruct (IH s' (S n0) ltac:(lia) HP' Hs') as (n & s2 & A & B & C).
      exists n, s2. split; [lia|split; assumption].
  Qed.

  Definition kfq_pop_bound (s0 : state) : nat := ((N.to_nat (fst (tail s0) - fst (head s0)) + 1) * (K + 12))%nat.

  (** termination of a pop that runs alone *)
  Theorem kfq_solo_pop_terminates s0 f : reach init step s0 -> th s0 u = Begin OPop -> (forall t, t <> u -> th s0 t = Idle) ->
    exists n s, (n <= kfq_pop_bound s0)%nat /\ solof f s0 n s /\ th s u = Idle.
  Proof.
    intros Hr Hb Hq.
    assert (HP : PS s0) by (split; [exact Hr|split; [exact Hq|rewrite Hb; exact Logic.I]]).
    destruct (solo_terminates f s0 (mu s0) s0 0%nat (le_n _) HP (sf_refl f s0)) as (n & s & A & B & C).
    exists n, s. split; [|split; assumption]. unfold kfq_pop_bound. unfold mu, dist, W in A. rewrite Hb in A. lia.
  Qed.

  (** The sequential clause of C06: a pop that runs alone from a state in which every other thread is between operations
      returns within [kfq_pop_bound] steps, and it answers 'empty' if and only if no committed value is in the queue. *)
  Theorem kfq_sequential_pop s0 f : reach init step s0 -> th s0 u = Begin OPop -> (forall t, t <> u -> th s0 t = Idle) ->
    exists n s s' es res, (n < kfq_pop_bound s0)%nat /\ solof f s0 n s /\ step s (Step u (f s)) = Some (s', es) /\
      th s' u = Idle /\ In (ERet u res) es /\ (res = [2] <-> empty_at s0).
  Proof.
    intros Hr Hb Hq. destruct (kfq_solo_pop_terminates s0 f Hr Hb Hq) as (n & s' & Hn & Hs & Hi).
    inversion Hs as [|n' s s2 es Hs' Hni Hst]; subst.
    - rewrite Hb in Hi. discriminate.
    - assert (Hso : solo k u s0 s) by (eapply solof_solo; eauto).
      destruct (solo_inv k Hk u s0 s Hb Hq Hso) as [Q|(_ & B & _)]; [contradiction|].
      destruct (pop_step_frame k Hk u s (f s) s' es Hst B) as [(res & R1 & _)|(_ & P1 & _)]; [|rewrite Hi in P1; contradiction].
      exists n', s, s', es, res. split; [lia|]. split; [exact Hs'|]. split; [exact Hst|]. split; [exact Hi|]. split; [exact R1|].
      exact (kfq_solo_pop_verdict k Hk u s0 s (f s) s' es res Hr Hb Hq Hso Hst R1).
  Qed.
End Solo.
