(** Iterators of the Harris-Michael list-based set (Model/HmlItDefs.v, an extension of Model/HmlDefs.v):
    the invariant of Proof/HmlInv.v still holds for the list; safety of the iterators (the nodes they refer to
    are allocated and reachable or retired, never freed: GC reclaimer instance); soundness of the yielded
    positions, order / no duplicates, completeness of a traversal, exactness of erase(iterator); solo
    termination of the iterator operations (C16).
    All theorems hold for every reachable state of [xstep] (any number of threads, any program mixing
    insert / erase(key) / contains with the iterator operations, any schedule).

    Three statements of property C09 are FALSE for the real algorithm and are refuted on concrete schedules
    (which the implementation reproduces, trace by trace): [it_yield_was_member_refuted],
    [it_no_duplicate_strict_refuted], [it_erase_greater_refuted]; the true versions are proved. *)
From Coq Require Import NArith List Bool Lia ZifyBool PeanoNat Sorted.
From XV Require Import Base.Word Conc.Lts Conc.Ev Conc.Solo Model.HmlDefs Proof.HmlInv Model.HmlItDefs.
Import ListNotations.
Local Open Scope N_scope.

Record wmono (s : state) (c : list N) (s' : state) (c' : list N) : Prop := mkW {
  W_known : forall x, known s c x -> known s' c' x;
  W_key : forall x, x < nalloc s -> nkey s' x = nkey s x;
  W_mark : forall x, nmark s x = true -> nmark s' x = true /\ nnext s' x = nnext s x;
  W_alloc : nalloc s <= nalloc s' }.

Lemma mono_wmono s c s' c' sp : mono s c s' c' sp -> wmono s c s' c'.
Proof. intros [H1 H2 H3 H4 _]. constructor; assumption. Qed.

Definition ext (s : state) (c : list N) (s' : state) (c' : list N) (l : list lev) : Prop :=
  G s' c' /\ wmono s c s' c' /\ g_lin s' = g_lin s ++ l /\
  (forall x, nmark s' x = true -> nmark s x = true \/ In x (del_nodes l)) /\
  (forall x, known s' c' x -> known s c x \/ In x (ins_nodes l)).

Lemma ext_same s c s' : G s c ->
  nkey s' = nkey s -> nnext s' = nnext s -> nmark s' = nmark s -> nalloc s' = nalloc s ->
  g_abs s' = g_abs s -> g_lin s' = g_lin s -> g_retired s' = g_retired s -> ext s c s' c [] /\ mono s c s' c 0.
Proof.
  intros HG E1 E2 E3 E4 E5 E6 E7.
  assert (HM : mono s c s' c 0) by (apply mono_refl; assumption).
  split; [|exact HM]. split; [apply (G_frame s); try assumption; intros x _; rewrite E2; reflexivity|].
  split; [exact (mono_wmono _ _ _ _ _ HM)|]. split; [rewrite E6, app_nil_r; reflexivity|].
  split; [intros x Hx; left; rewrite <- E3; exact Hx|]. intros x Hx. left. unfold known in *. rewrite <- E7. exact Hx.
Qed.

Lemma unlink_ext s c s' sv cur nx : G s c -> known s c sv -> nmark s sv = false -> nnext s sv = cur ->
  cur <> 0 -> nmark s cur = true -> nnext s cur = nx ->
  nkey s' = nkey s -> nnext s' = setf (nnext s) sv nx -> nmark s' = nmark s -> nalloc s' = nalloc s ->
  g_abs s' = g_abs s -> g_lin s' = g_lin s -> g_retired s' = g_retired s ++ [cur] ->
  exists c', ext s c s' c' [] /\ mono s c s' c' 0.
Proof.
  intros HG Hsvk Hsvm Hsvn Hcnz Hcm Hcn Ek Enx Em Ea Eabs Elin Eret.
  assert (Hsv : In sv c) by (eapply unmarked_in_chain; eassumption).
  destruct (unlink_step s c s' sv cur nx HG Hsv Hsvm Hsvn Hcnz Hcm Hcn Ek Enx Em Ea Eabs Elin Eret)
    as (c' & HG' & HM & _ & _ & _ & Hin).
  exists c'. split; [|exact HM]. split; [exact HG'|]. split; [exact (mono_wmono _ _ _ _ _ HM)|].
  split; [rewrite Elin, app_nil_r; reflexivity|]. split; [intros x Hx; left; rewrite <- Em; exact Hx|].
  intros x Hx. left. unfold known in *. rewrite Eret in Hx. rewrite !in_app_iff in *. cbn [In] in Hx.
  rewrite (Hin x). destruct Hx as [Hx | [Hx | [Hx | []]]]; auto.
Qed.

Lemma mark_ext s c s' t key cur : G s c -> known s c cur -> cur <> 0 -> nmark s cur = false -> nkey s cur = key ->
  nkey s' = nkey s -> nnext s' = nnext s -> nmark s' = setf (nmark s) cur true -> nalloc s' = nalloc s ->
  g_abs s' = remk key (g_abs s) -> g_lin s' = g_lin s ++ [LDel t key cur] -> g_retired s' = g_retired s ->
  ext s c s' c [LDel t key cur] /\ mono s c s' c 0.
Proof.
  intros HG Hck Hcnz Hcm Hkey Ek Enx Em Ea Eabs Elin Eret.
  assert (Hcc : In cur c) by (eapply unmarked_in_chain; eassumption).
  destruct (mark_step s c s' t key cur HG Hcc Hcnz Hcm Hkey Ek Enx Em Ea Eabs Elin Eret) as [HG' HM].
  split; [|exact HM]. split; [exact HG'|]. split; [exact (mono_wmono _ _ _ _ _ HM)|]. split; [exact Elin|].
  split.
  - intros x Hx. rewrite Em in Hx. unfold setf in Hx. destruct (N.eqb_spec x cur) as [Heq|Hne]; [right; left; symmetry; exact Heq | left; exact Hx].
  - intros x Hx. left. unfold known in *. rewrite <- Eret. exact Hx.
Qed.

Lemma base_step_ext s a s' es c : G s c -> (forall t, T s c t (th s t)) -> step s a = Some (s', es) ->
  exists c' l, ext s c s' c' l.
Proof.
  intros HG HT Hst.
  step_cases Hst s; prj2.
  all: try (exists c, []; apply (ext_same s c); auto; reflexivity).
  - (* alloc *)
    set (st' := mkSt _ _ _ _ _ _ _ _ _ _).
    destruct (alloc_step s c st' (nalloc s) k eq_refl HG eq_refl eq_refl eq_refl eq_refl eq_refl eq_refl eq_refl) as [HG' HM].
    exists c, []. split; [exact HG'|]. split; [exact (mono_wmono _ _ _ _ _ HM)|]. split; [subst st'; prj2; rewrite app_nil_r; reflexivity|].
    split.
    + intros x Hx. left. subst st'; cbn [nmark] in Hx. unfold setf in Hx. destruct (x =? nalloc s); [discriminate | exact Hx].
    + intros x Hx. left. exact Hx.
  - (* F5 unlink *)
    pose proof (HT t) as Ht. unfold T in Ht. rewrite E in Ht. cbn [Tw] in Ht.
    destruct Ht as (Hco & Hstart & Hsv & Hcur & Hm & Hn). apply cond_true in Hc. destruct Hc as [Hnx Hsvm].
    destruct (unlink_ext s c (set_pc (unlink_st s sv cur nx) t (F2 k key start sv nx)) sv cur nx HG (proj1 Hsv) Hsvm Hnx (proj2 Hcur) Hm Hn
                eq_refl eq_refl eq_refl eq_refl eq_refl eq_refl eq_refl) as (c' & He & _).
    exists c', []. exact He.
  - (* E1 store *)
    pose proof (HT t) as Ht. unfold T in Ht. rewrite E in Ht. cbn [Tw] in Ht. destruct Ht as (Hfr & Hsv & Hcurc).
    set (st' := mkSt _ _ _ _ _ _ _ _ _ _).
    pose proof Hfr as (Hn0 & Hnlt & Hnk & Hnkey).
    destruct (store_step s c st' n cur HG Hnk eq_refl eq_refl eq_refl eq_refl eq_refl eq_refl eq_refl) as [HG' HM].
    exists c, []. split; [exact HG'|]. split; [exact (mono_wmono _ _ _ _ _ HM)|]. split; [subst st'; prj2; rewrite app_nil_r; reflexivity|].
    split; intros x Hx; left; exact Hx.
  - (* E2 link *)
    pose proof (HT t) as Ht. unfold T in Ht. rewrite E in Ht. cbn [Tw] in Ht. destruct Ht as (Hfr & Hsv & Hcurc & Hnn).
    apply cond_true in Hc. destruct Hc as [Hnx Hsvm].
    assert (Hsvc : In sv c) by (eapply unmarked_in_chain; [exact HG | exact (proj1 Hsv) | exact Hsvm]).
    set (st' := mkSt _ _ _ _ _ _ _ _ _ _).
    destruct (link_step s c st' t n key sv cur HG Hfr Hnn Hsvc Hsvm Hnx (proj2 Hsv) (fun H => proj2 (Hcurc H))
                eq_refl eq_refl eq_refl eq_refl eq_refl eq_refl eq_refl) as (_ & c' & HG' & HM & Hin).
    exists c', [LIns t key n]. split; [exact HG'|]. split; [exact (mono_wmono _ _ _ _ _ HM)|]. split; [reflexivity|].
    split; [intros x Hx; left; exact Hx|].
    intros x Hx. unfold known in *. subst st'; cbn [g_retired] in Hx. rewrite in_app_iff in *. rewrite (Hin x) in Hx.
    cbn [ins_nodes flat_map app In]. destruct Hx as [[Hx | Hx] | Hx]; auto.
  - (* D1 mark *)
    pose proof (HT t) as Ht. unfold T in Ht. rewrite E in Ht. cbn [Tw] in Ht. destruct Ht as (Hsv & Hcur & Hck & Hnxk).
    apply cond_true in Hc. destruct Hc as [Hnx Hcm].
    set (st' := mkSt _ _ _ _ _ _ _ _ _ _).
    destruct (mark_ext s c st' t key cur HG (proj1 Hcur) (proj2 Hcur) Hcm Hck eq_refl eq_refl eq_refl eq_refl eq_refl eq_refl eq_refl) as [He _].
    exists c, [LDel t key cur]. exact He.
  - (* D2 unlink *)
    pose proof (HT t) as Ht. unfold T in Ht. rewrite E in Ht. cbn [Tw] in Ht.
    destruct Ht as (Hsv & Hcur & Hck & Hm & Hn & Hlp). apply cond_true in Hc. destruct Hc as [Hnx Hsvm].
    destruct (unlink_ext s c (ret_st (unlink_st s sv cur nx) t (ODel key) true (g_lp s t)) sv cur nx HG (proj1 Hsv) Hsvm Hnx (proj2 Hcur) Hm Hn
                eq_refl eq_refl eq_refl eq_refl eq_refl eq_refl eq_refl) as (c' & He & _).
    exists c', []. exact He.
Qed.

(** * The invariant of the extended system *)

Definition above (lo : option N) (k : N) : Prop := match lo with None => True | Some l => l < k end.

Definition is_itf (c : ifk) : bool := match c with KItF => true | _ => false end.
(** the thread is inside the call that starts the traversal (begin() / find(key)) *)
Definition in_start (p : ipc) : bool :=
  match p with
  | B1 => true
  | IF1 c _ _ | IF2 c _ _ _ _ | IF3 c _ _ _ _ | IF4 c _ _ _ _ | IF5 c _ _ _ _ _ | IF6 c _ _ _ _ _ _ => is_itf c
  | _ => false
  end.

(** a recorded position of the iterator *)
Definition yok (b : state) (c : list N) (y : yrec) : Prop :=
  oknode b c (y_node y) /\ nkey b (y_node y) = y_key y /\ (y_lin y <= length (g_lin b))%nat /\
  (y_wit y = true \/
   exists j t', (j < y_lin y)%nat /\ nth_error (g_lin b) j = Some (LDel t' (y_key y) (y_node y))) /\
  (forall j t' n, (j < y_lin y)%nat -> nth_error (g_lin b) j = Some (LIns t' (y_key y) n) ->
     n = y_node y \/ nmark b n = true) /\
  (exists j t', (j < y_lin y)%nat /\ nth_error (g_lin b) j = Some (LIns t' (y_key y) (y_node y))) /\
  y_reach y = true.

(** two consecutive positions: the key grows, or it is the same key carried by a different node that was
    linked after the first position was taken *)
Definition ystep (b : state) (y1 y2 : yrec) : Prop :=
  (y_lin y1 <= y_lin y2)%nat /\ (y_lin y2 <= length (g_lin b))%nat /\
  (y_key y1 < y_key y2 \/
   (y_key y1 = y_key y2 /\ y_node y1 <> y_node y2 /\
    forall j t', nth_error (g_lin b) j = Some (LIns t' (y_key y2) (y_node y2)) -> (y_lin y1 <= j)%nat)).

Inductive ychain (b : state) : list yrec -> Prop :=
| yc_nil : ychain b []
| yc_one y : ychain b [y]
| yc_snoc ys y1 y2 : ychain b (ys ++ [y1]) -> ystep b y1 y2 -> ychain b ((ys ++ [y1]) ++ [y2]).

(** [cur] (found by a find on behalf of operator++ / erase(iterator)) is not the node [o] the iterator
    stood on, and if it carries the same key it was linked after the last position was recorded *)
Definition newpos (st : xstate) (t : nat) (k : ifk) (key cur : N) : Prop :=
  match k with
  | KItF => True
  | KItN o | KItE o =>
    cur <> o /\
    (nkey (base st) cur = key -> forall ys0 y j t', g_yield st t = ys0 ++ [y] ->
       nth_error (g_lin (base st)) j = Some (LIns t' key cur) -> (y_lin y <= j)%nat)
  end.

Definition ifk_ok (st : xstate) (t : nat) (k : ifk) (key : N) : Prop :=
  match k with
  | KItF => g_yield st t = [] /\ it_cur st t = 0 /\ g_lo st t = Some key
  | KItN o | KItE o => it_cur st t = o /\ o <> 0 /\ nmark (base st) o = true /\ key = nkey (base st) o
  end.

Definition ITp (st : xstate) (c : list N) (t : nat) (p : ipc) : Prop :=
  let b := base st in
  let icur := it_cur st t in
  match p with
  | IIdle | IBegin _ => True
  | B1 => g_yield st t = [] /\ icur = 0
  | IF1 k key start => ifk_ok st t k key /\ okprev b c key start
  | IF2 k key start sv nx => ifk_ok st t k key /\ okprev b c key start /\ okprev b c key sv /\ oknx b c nx
  | IF3 k key start sv cur => ifk_ok st t k key /\ okprev b c key start /\ okprev b c key sv /\ oknode b c cur
  | IF4 k key start sv cur =>
    ifk_ok st t k key /\ okprev b c key start /\ okprev b c key sv /\ oknode b c cur /\ nmark b cur = true
  | IF5 k key start sv cur nx =>
    ifk_ok st t k key /\ okprev b c key start /\ okprev b c key sv /\ oknode b c cur /\ nmark b cur = true /\
    nnext b cur = nx
  | IF6 k key start sv cur nx w =>
    ifk_ok st t k key /\ okprev b c key start /\ okprev b c key sv /\ oknode b c cur /\ oknx b c nx /\
    w = true /\ newpos st t k key cur
  | N1 | X1 => icur <> 0
  | N2 nx | X2 nx => icur <> 0 /\ oknx b c nx
  | X3 nx => icur <> 0 /\ nmark b icur = true /\ nnext b icur = nx
  end.

Record IT (st : xstate) (c : list N) (t : nat) : Prop := mkIT {
  IT_sv : known (base st) c (it_sv st t);
  IT_it : it_cur st t <> 0 ->
          okprev (base st) c (nkey (base st) (it_cur st t)) (it_sv st t) /\ oknode (base st) c (it_cur st t);
  IT_last : it_cur st t <> 0 -> exists ys0 y, g_yield st t = ys0 ++ [y] /\ y_node y = it_cur st t;
  IT_yok : forall y, In y (g_yield st t) -> yok (base st) c y;
  IT_chain : ychain (base st) (g_yield st t);
  IT_compl : g_trav st t = true -> in_start (ith st t) = false ->
             forall k, In k (g_always st t) -> above (g_lo st t) k ->
             (it_cur st t = 0 \/ k <= nkey (base st) (it_cur st t)) -> In k (map y_key (g_yield st t));
  IT_pc : ITp st c t (ith st t) }.

(** every marked node was marked by a recorded erase, every linked node was linked by a recorded insert *)
Definition GX (b : state) (c : list N) : Prop :=
  (forall x, nmark b x = true -> In x (del_nodes (g_lin b))) /\
  (forall x, known b c x -> x <> 0 -> In x (ins_nodes (g_lin b))).

Definition Ainv (st : xstate) : Prop := forall t k, In k (g_always st t) -> In k (g_abs (base st)).

Definition XInv0 (st : xstate) : Prop :=
  exists c, G (base st) c /\ (forall t, T (base st) c t (th (base st) t)) /\ U (th (base st)) /\ GX (base st) c /\
            forall t, IT st c t.
Definition XInv (st : xstate) : Prop := XInv0 st /\ Ainv st.

(** ** stability *)

Lemma nth_error_app_old {X} (l l' : list X) j x : (j < length l)%nat -> nth_error (l ++ l') j = Some x -> nth_error l j = Some x.
Proof. intros H E. rewrite nth_error_app1 in E by exact H. exact E. Qed.

Lemma nth_error_app_keep {X} (l l' : list X) j x : nth_error l j = Some x -> nth_error (l ++ l') j = Some x.
Proof. intros E. rewrite nth_error_app1; [exact E|]. apply nth_error_Some. congruence. Qed.

Section Stable.
  Variables (b : state) (c : list N) (b' : state) (c' : list N) (l : list lev).
  Hypothesis HG : G b c.
  Hypothesis HE : ext b c b' c' l.

  Let HW : wmono b c b' c' := proj1 (proj2 HE).
  Let Elin : g_lin b' = g_lin b ++ l := proj1 (proj2 (proj2 HE)).

  Lemma st_key x : known b c x -> nkey b' x = nkey b x.
  Proof. intros Hk. apply (W_key _ _ _ _ HW). apply (G_bound _ _ HG). exact Hk. Qed.

  Lemma st_okprev key sv : okprev b c key sv -> okprev b' c' key sv.
  Proof.
    intros [Hk Hlt]. split; [apply (W_known _ _ _ _ HW); exact Hk|]. intros Hnz. rewrite st_key by exact Hk. auto.
  Qed.
  Lemma st_oknode x : oknode b c x -> oknode b' c' x.
  Proof. intros [Hk Hnz]. split; [apply (W_known _ _ _ _ HW); exact Hk | exact Hnz]. Qed.
  Lemma st_oknx x : oknx b c x -> oknx b' c' x.
  Proof. intros [Hx | Hx]; [left; exact Hx | right; apply (W_known _ _ _ _ HW); exact Hx]. Qed.
  Lemma st_mark x : nmark b x = true -> nmark b' x = true.
  Proof. intros H. exact (proj1 (W_mark _ _ _ _ HW x H)). Qed.
  Lemma st_len : (length (g_lin b) <= length (g_lin b'))%nat.
  Proof. rewrite Elin, app_length. lia. Qed.

  Lemma st_yok y : yok b c y -> yok b' c' y.
  Proof.
    intros (H1 & H2 & H3 & H4 & H5 & H7 & H8). split; [apply st_oknode; exact H1|].
    split; [rewrite st_key by exact (proj1 H1); exact H2|]. split; [pose proof st_len; lia|]. split; [|split; [|split; [|exact H8]]].
    - destruct H4 as [H4 | (j & t' & Hj & Hn)]; [left; exact H4 | right]. exists j, t'. split; [exact Hj|].
      rewrite Elin. apply nth_error_app_keep. exact Hn.
    - intros j t' n Hj Hn. rewrite Elin in Hn. apply nth_error_app_old in Hn; [|lia].
      destruct (H5 j t' n Hj Hn) as [H | H]; [left; exact H | right; apply st_mark; exact H].
    - destruct H7 as (j & t' & Hj & Hn). exists j, t'. split; [exact Hj|]. rewrite Elin. apply nth_error_app_keep. exact Hn.
  Qed.

  Lemma st_ystep y1 y2 : ystep b y1 y2 -> ystep b' y1 y2.
  Proof.
    intros (H1 & H2 & H3). split; [exact H1|]. split; [pose proof st_len; lia|].
    destruct H3 as [H3 | (H3 & H4 & H5)]; [left; exact H3 | right]. split; [exact H3|]. split; [exact H4|].
    intros j t' Hn. rewrite Elin in Hn. destruct (Nat.lt_ge_cases j (length (g_lin b))) as [Hlt | Hge].
    - apply nth_error_app_old in Hn; [|exact Hlt]. exact (H5 j t' Hn).
    - lia.
  Qed.

  Lemma st_ychain ys : ychain b ys -> ychain b' ys.
  Proof. induction 1; constructor; [assumption | apply st_ystep; assumption]. Qed.
End Stable.

Lemma IT_stable st st' c c' l t : G (base st) c -> ext (base st) c (base st') c' l ->
  ith st' t = ith st t -> it_sv st' t = it_sv st t -> it_cur st' t = it_cur st t ->
  g_yield st' t = g_yield st t -> g_lo st' t = g_lo st t -> g_trav st' t = g_trav st t ->
  (forall k, In k (g_always st' t) -> In k (g_always st t)) ->
  IT st c t -> IT st' c' t.
Proof.
  intros HG HE E1 E2 E3 E4 E5 E6 HA [H0 H1 H2 H3 H4 H5 H6].
  assert (Hop := st_okprev _ _ _ _ _ HG HE). assert (Hon := st_oknode _ _ _ _ _ HE). assert (Hox := st_oknx _ _ _ _ _ HE).
  assert (Hmk := st_mark _ _ _ _ _ HE). assert (Hkey := st_key _ _ _ _ _ HG HE).
  assert (Hcur : it_cur st t <> 0 -> nkey (base st') (it_cur st t) = nkey (base st) (it_cur st t)).
  { intros Hnz. apply Hkey. exact (proj1 (proj2 (H1 Hnz))). }
  constructor; rewrite ?E1, ?E2, ?E3, ?E4, ?E5, ?E6.
  - apply (W_known _ _ _ _ (proj1 (proj2 HE))). exact H0.
  - intros Hnz. destruct (H1 Hnz) as [Ha Hb]. rewrite (Hcur Hnz). split; [apply Hop; exact Ha | apply Hon; exact Hb].
  - exact H2.
  - intros y Hy. eapply st_yok; [exact HG | exact HE | apply H3; exact Hy].
  - eapply st_ychain; [exact HE | exact H4].
  - intros Ht Hs k Hk Hab Hle. apply (H5 Ht Hs k (HA k Hk) Hab).
    destruct Hle as [Hz | Hle]; [left; exact Hz|]. destruct (N.eq_dec (it_cur st t) 0) as [Hz|Hnz]; [left; exact Hz | right].
    rewrite <- (Hcur Hnz). exact Hle.
  - (* pc *)
    assert (Hifk : forall k key, ifk_ok st t k key -> ifk_ok st' t k key).
    { intros k key. destruct k as [|o|o]; cbn [ifk_ok]; rewrite ?E3, ?E4, ?E5; auto;
        intros (Ha & Hb & Hc & Hd); (split; [exact Ha|]; split; [exact Hb|]; split; [apply Hmk; exact Hc|]);
        rewrite Hkey; [exact Hd | | exact Hd |]; subst o; exact (proj1 (proj2 (H1 Hb))). }
    assert (Hnp : forall k key cur, oknode (base st) c cur -> newpos st t k key cur -> newpos st' t k key cur).
    { intros k key cur Hcn. destruct k as [|o|o]; cbn [newpos]; auto; intros [Ha Hb]; (split; [exact Ha|]);
        rewrite E4, (Hkey _ (proj1 Hcn)); intros Hk ys0 y j t' Ey Hn;
        rewrite (proj1 (proj2 (proj2 HE))) in Hn;
        (destruct (Nat.lt_ge_cases j (length (g_lin (base st)))) as [Hlt | Hge];
         [apply nth_error_app_old in Hn; [exact (Hb Hk ys0 y j t' Ey Hn) | exact Hlt]|]);
        assert (Hy : yok (base st) c y) by (apply H3; rewrite Ey; apply in_or_app; right; left; reflexivity);
        destruct Hy as (_ & _ & Hy & _); lia. }
    destruct (ith st t) as [|o| |k key start|k key start sv nx|k key start sv cur|k key start sv cur|k key start sv cur nx
                            |k key start sv cur nx w| |nx| |nx|nx]; cbn [ITp] in *; rewrite ?E3, ?E4; auto.
    + destruct H6 as (Ha & Hb). auto.
    + destruct H6 as (Ha & Hb & Hc & Hd). auto 6.
    + destruct H6 as (Ha & Hb & Hc & Hd). auto 6.
    + destruct H6 as (Ha & Hb & Hc & Hd & He). auto 8.
    + destruct H6 as (Ha & Hb & Hc & Hd & He & Hf). split; [auto|]. split; [auto|]. split; [auto|]. split; [auto|].
      split; [auto|]. rewrite (proj2 (W_mark _ _ _ _ (proj1 (proj2 HE)) _ He)). exact Hf.
    + destruct H6 as (Ha & Hb & Hc & Hd & He & Hf & Hg). split; [auto|]. split; [auto|]. split; [auto|]. split; [auto|].
      split; [auto|]. split; [exact Hf | apply Hnp; assumption].
    + destruct H6 as (Ha & Hb). auto.
    + destruct H6 as (Ha & Hb). auto.
    + destruct H6 as (Ha & Hb & Hc). split; [exact Ha|]. split; [apply Hmk; exact Hb|].
      rewrite (proj2 (W_mark _ _ _ _ (proj1 (proj2 HE)) _ Hb)). exact Hc.
Qed.

(** ** assembling *)

Definition same_at (st st' : xstate) (u : nat) : Prop :=
  ith st' u = ith st u /\ it_sv st' u = it_sv st u /\ it_cur st' u = it_cur st u /\ g_yield st' u = g_yield st u /\
  g_lo st' u = g_lo st u /\ g_trav st' u = g_trav st u /\ g_always st' u = g_always st u.

Lemma GX_ext b c b' c' l : GX b c -> ext b c b' c' l -> GX b' c'.
Proof.
  intros [HX1 HX2] (_ & _ & Elin & Hm & Hk). split.
  - intros x Hx. rewrite Elin. unfold del_nodes. rewrite flat_map_app. apply in_or_app.
    destruct (Hm x Hx) as [H | H]; [left; apply HX1; exact H | right; exact H].
  - intros x Hx Hnz. rewrite Elin. unfold ins_nodes. rewrite flat_map_app. apply in_or_app.
    destruct (Hk x Hx) as [H | H]; [left; apply HX2; assumption | right; exact H].
Qed.

Lemma XInv0_intro st st' c c' l t :
  G (base st) c -> GX (base st) c -> (forall u, IT st c u) -> ext (base st) c (base st') c' l ->
  (forall u, T (base st') c' u (th (base st') u)) -> U (th (base st')) ->
  (forall u, u <> t -> same_at st st' u) -> IT st' c' t -> XInv0 st'.
Proof.
  intros HG HX HI HE HT' HU' Hsame Ht. exists c'. split; [exact (proj1 HE)|]. split; [exact HT'|]. split; [exact HU'|].
  split; [eapply GX_ext; eassumption|]. intros u. destruct (Nat.eq_dec u t) as [->|Hne]; [exact Ht|].
  destruct (Hsame u Hne) as (E1 & E2 & E3 & E4 & E5 & E6 & E7).
  eapply (IT_stable st st'); try eassumption. - intros k Hk. rewrite <- E7. exact Hk. - apply HI.
Qed.

Lemma base_mem_step b c b' c' : G b c -> (forall t, T b c t (th b t)) -> U (th b) ->
  mono b c b' c' 0 -> th b' = th b -> g_lp b' = g_lp b ->
  (forall t, T b' c' t (th b' t)) /\ U (th b').
Proof.
  intros HG HT HU HM Eth Elp. split; [|rewrite Eth; exact HU]. intros t. unfold T. rewrite Eth, Elp.
  eapply Tw_stable; [exact HG | exact HM | | apply HT]. intros n Hn. eapply sp_zero; eassumption.
Qed.

(** a step of thread [t] that leaves the base state unchanged *)
Lemma XInv0_same st st' c t :
  G (base st) c -> (forall u, T (base st) c u (th (base st) u)) -> U (th (base st)) -> GX (base st) c ->
  (forall u, IT st c u) -> base st' = base st ->
  (forall u, u <> t -> same_at st st' u) -> IT st' c t -> XInv0 st'.
Proof.
  intros HG HT HU HX HI Eb Hsame Ht.
  apply (XInv0_intro st st' c c [] t); try assumption; rewrite ?Eb; try assumption.
  apply (ext_same (base st) c (base st) HG); reflexivity.
Qed.

(** ** the moves of thread [t] *)

Lemma list_last_cases {X} (l : list X) : l = [] \/ exists l0 x, l = l0 ++ [x].
Proof. induction l using rev_ind; [left; reflexivity | right; eauto]. Qed.

Lemma IT_go st c t p : IT st c t -> ITp st c t p ->
  (in_start p = true \/ in_start p = in_start (ith st t)) -> IT (set_ipc st t p) c t.
Proof.
  intros [H0 H1 H2 H3 H4 H5 H6] Hp Hs. constructor; cbn [set_ipc base it_cur it_sv g_yield g_trav g_always g_lo ith]; try assumption.
  - rewrite upd_same. intros Ht Hf. apply (H5 Ht). destruct Hs as [Hs | Hs]; congruence.
  - rewrite upd_same. exact Hp.
Qed.

Lemma IT_start st c t p lo : G (base st) c -> IT st c t ->
  (p = B1 /\ lo = None) \/ (exists k, p = IF1 KItF k 0 /\ lo = Some k) ->
  IT (start_trav st t p lo) c t.
Proof.
  intros HG _ Hp.
  constructor; cbn [start_trav base it_cur it_sv g_yield g_trav g_always g_lo ith]; rewrite ?upd_same.
  - apply known_zero. exact HG.
  - intros H. contradiction.
  - intros H. contradiction.
  - intros y [].
  - constructor.
  - intros _ Hs. destruct Hp as [[-> _] | (k & -> & _)]; discriminate Hs.
  - destruct Hp as [[-> ->] | (k & -> & ->)]; cbn [ITp ifk_ok start_trav base it_cur g_yield g_lo]; rewrite ?upd_same.
    + auto.
    + split; [auto|]. apply okprev_zero. exact HG.
Qed.

Lemma IT_end st c t : G (base st) c -> IT st c t -> IT (end_trav st t) c t.
Proof.
  intros HG [H0 H1 H2 H3 H4 H5 H6].
  constructor; cbn [end_trav base it_cur it_sv g_yield g_trav g_always g_lo ith]; rewrite ?upd_same; try assumption.
  - apply known_zero. exact HG.
  - intros H. contradiction.
  - intros H. contradiction.
  - intros H. discriminate.
  - exact I.
Qed.

Lemma push_y_nz b ys cur w : cur <> 0 -> push_y b ys cur w = ys ++ [mkY (nkey b cur) cur w (reachable b cur) (length (g_lin b))].
Proof. intros H. unfold push_y. destruct (N.eqb_spec cur 0); [contradiction | reflexivity]. Qed.

Lemma xwalk_walk nx fuel : forall a, xwalk nx fuel a = walk nx fuel a.
Proof. induction fuel as [|f IH]; intros a; cbn [xwalk walk]; [reflexivity|]. destruct (nx a =? 0); [reflexivity|]. rewrite IH. reflexivity. Qed.

Lemma reachable_chain b x : reachable b x = true <-> In x (chain b).
Proof. unfold reachable, chain. rewrite xwalk_walk. apply memb_true. Qed.

Lemma in_del_nodes_nth l x : In x (del_nodes l) -> exists j t k, (j < length l)%nat /\ nth_error l j = Some (LDel t k x).
Proof.
  intros H. apply del_nodes_in in H. destruct H as (t & k & H). apply In_nth_error in H. destruct H as [j Hj].
  exists j, t, k. split; [apply nth_error_Some; congruence | exact Hj].
Qed.

(** the iterator of thread [t] moves to [cur'], the successor of the unmarked chain node [sv'] *)
Lemma IT_move st c t sv' cur' w :
  let b := base st in
  G b c -> GX b c -> (forall k, In k (g_always st t) -> In k (g_abs b)) -> IT st c t ->
  In sv' c -> nmark b sv' = false -> nnext b sv' = cur' ->
  (cur' <> 0 -> w = true \/ w = memb (nkey b cur') (g_abs b)) ->
  (forall ys0 y, g_yield st t = ys0 ++ [y] -> cur' <> 0 ->
     y_key y < nkey b cur' \/
     (y_key y = nkey b cur' /\ y_node y <> cur' /\
      forall j t', nth_error (g_lin b) j = Some (LIns t' (nkey b cur') cur') -> (y_lin y <= j)%nat)) ->
  (g_trav st t = true -> forall k, In k (g_always st t) -> above (g_lo st t) k -> sv' <> 0 -> k <= nkey b sv' ->
     In k (map y_key (g_yield st t))) ->
  IT (move_it st b t sv' cur' w) c t.
Proof.
  intros b HG HX HA [H0 H1 H2 H3 H4 H5 H6] Hsv Hsvm Hsvn Hw Hord Hlow.
  assert (Hcur : cur' <> 0 -> In cur' c /\ (sv' <> 0 -> nkey b sv' < nkey b cur')).
  { intros Hnz. destruct (chain_nonzero b c sv' cur' HG Hsv Hsvn Hnz) as [Hc [_ HR]]. split; [exact Hc|].
    intros Hs. destruct HR as [HR | HR]; [contradiction | exact HR]. }
  assert (Hynew : cur' <> 0 -> yok b c (mkY (nkey b cur') cur' w (reachable b cur') (length (g_lin b)))).
  { intros Hnz. destruct (Hcur Hnz) as [Hc _]. unfold yok. cbn [y_key y_node y_wit y_lin y_reach].
    split; [split; [apply known_chain; exact Hc | exact Hnz]|]. split; [reflexivity|]. split; [lia|]. split; [|split; [|split]].
    - destruct (nmark b cur') eqn:Hm.
      + right. destruct (in_del_nodes_nth _ _ (proj1 HX _ Hm)) as (j & t' & k & Hj & Hn). exists j, t'. split; [exact Hj|].
        assert (k = nkey b cur'). { symmetry. apply (proj2 (G_ldel _ _ HG t' k cur' (nth_error_In _ _ Hn))). }
        subst k. exact Hn.
      + left. destruct (Hw Hnz) as [-> | ->]; [reflexivity|]. apply memb_true. apply (abs_in b c); assumption.
    - intros j t' n Hj Hn. apply nth_error_In in Hn. destruct (G_lins _ _ HG _ _ _ Hn) as [[Hk Hnn] Hkey].
      destruct (nmark b n) eqn:Hm; [right; reflexivity | left].
      apply (chain_key_inj b c); try assumption. eapply unmarked_in_chain; eassumption.
    - pose proof (proj2 HX cur' (known_chain _ _ _ Hc) Hnz) as Hi. apply ins_nodes_in in Hi. destruct Hi as (t' & k & Hi).
      assert (k = nkey b cur') by (symmetry; exact (proj2 (G_lins _ _ HG _ _ _ Hi))). subst k.
      apply In_nth_error in Hi. destruct Hi as [j Hj]. exists j, t'. split; [apply nth_error_Some; congruence | exact Hj].
    - apply reachable_chain. rewrite (chain_eq _ _ HG) in Hc. destruct Hc as [Hc | Hc]; [congruence | exact Hc]. }
  constructor; cbn [move_it base it_cur it_sv g_yield g_trav g_always g_lo ith]; rewrite ?upd_same; fold b.
  - apply known_chain. exact Hsv.
  - intros Hnz. destruct (Hcur Hnz) as [Hc Hlt]. split; [split; [apply known_chain; exact Hsv | exact Hlt]|].
    split; [apply known_chain; exact Hc | exact Hnz].
  - intros Hnz. rewrite push_y_nz by exact Hnz. eexists _, _. split; [reflexivity | reflexivity].
  - intros y Hy. destruct (N.eq_dec cur' 0) as [Hz|Hnz].
    + unfold push_y in Hy. rewrite Hz in Hy. cbn in Hy. apply H3. exact Hy.
    + rewrite push_y_nz in Hy by exact Hnz. apply in_app_or in Hy. destruct Hy as [Hy | [<- | []]]; [apply H3; exact Hy | apply Hynew; exact Hnz].
  - destruct (N.eq_dec cur' 0) as [Hz|Hnz].
    + unfold push_y. rewrite Hz. cbn. exact H4.
    + rewrite push_y_nz by exact Hnz. destruct (list_last_cases (g_yield st t)) as [E | (ys0 & y & E)].
      * rewrite E. constructor.
      * rewrite E. constructor; [rewrite <- E; exact H4|]. unfold ystep. cbn [y_key y_node y_lin].
        assert (Hy : yok b c y) by (apply H3; rewrite E; apply in_or_app; right; left; reflexivity).
        split; [exact (proj1 (proj2 (proj2 Hy)))|]. split; [lia|]. apply (Hord ys0 y E Hnz).
  - intros Ht _ k Hk Hab Hle.
    assert (Hincl : forall k0, In k0 (map y_key (g_yield st t)) -> In k0 (map y_key (push_y b (g_yield st t) cur' w))).
    { intros k0 Hk0. unfold push_y. destruct (cur' =? 0); [exact Hk0|]. rewrite map_app. apply in_or_app. left. exact Hk0. }
    assert (Hgap : (sv' <> 0 -> nkey b sv' < k) -> (cur' <> 0 -> k < nkey b cur') -> False).
    { intros Hlo Hhi. pose proof (HA k Hk) as Hin. apply (G_abs _ _ HG) in Hin. destruct Hin as (x & Hx1 & Hx2 & _ & Hx4).
      exact (not_in_chain b c sv' cur' k HG Hsv Hsvn Hlo Hhi x Hx1 Hx2 Hx4). }
    destruct (N.eq_dec cur' 0) as [Hz|Hnz].
    + (* end *) destruct (N.eq_dec sv' 0) as [Hsz|Hsnz]; [exfalso; apply Hgap; intros; contradiction|].
      destruct (N.le_gt_cases k (nkey b sv')) as [Hl | Hg]; [apply Hincl; apply Hlow; assumption|].
      exfalso. apply Hgap; [intros _; lia | intros; contradiction].
    + destruct Hle as [Hz | Hle]; [contradiction|].
      destruct (N.eq_dec k (nkey b cur')) as [->|Hkne].
      * rewrite push_y_nz by exact Hnz. rewrite map_app. apply in_or_app. right. left. reflexivity.
      * destruct (N.eq_dec sv' 0) as [Hsz|Hsnz]; [exfalso; apply Hgap; [intros; contradiction | intros _; lia]|].
        destruct (N.le_gt_cases k (nkey b sv')) as [Hl | Hg]; [apply Hincl; apply Hlow; assumption|].
        exfalso. apply Hgap; intros _; lia.
  - exact I.
Qed.

Ltac xprj := cbn [set_ipc set_base move_it start_trav end_trav refresh base ith it_sv it_cur g_yield g_lo g_trav g_start g_always].
Ltac same_tac := let u := fresh "u" in let Hu := fresh "Hu" in
  intros u Hu; unfold same_at; xprj; rewrite ?upd_other by exact Hu; repeat split; reflexivity.

Lemma last_yield st c t : IT st c t -> it_cur st t <> 0 -> forall ys0 y, g_yield st t = ys0 ++ [y] ->
  y_node y = it_cur st t /\ y_key y = nkey (base st) (it_cur st t) /\ yok (base st) c y.
Proof.
  intros HI Hnz ys0 y E. destruct (IT_last _ _ _ HI Hnz) as (ys1 & y1 & E1 & Hn). rewrite E in E1.
  apply app_inj_tail in E1. destruct E1 as [_ <-].
  assert (Hy : yok (base st) c y) by (apply (IT_yok _ _ _ HI); rewrite E; apply in_or_app; right; left; reflexivity).
  split; [exact Hn|]. split; [|exact Hy]. rewrite <- Hn. symmetry. exact (proj1 (proj2 Hy)).
Qed.

(** return of the internal find of thread [t] with info = (sv, cur): [sv] is an unmarked chain node, [cur] its
    successor, [key sv < key <= key cur] *)
Lemma find_ret_X st c t k key sv cur found w e st' es :
  G (base st) c -> (forall u, T (base st) c u (th (base st) u)) -> U (th (base st)) -> GX (base st) c ->
  (forall u, IT st c u) -> Ainv st ->
  ifk_ok st t k key -> in_start (ith st t) = is_itf k ->
  In sv c -> nmark (base st) sv = false -> nnext (base st) sv = cur -> okprev (base st) c key sv ->
  (cur <> 0 -> key <= nkey (base st) cur /\ w = true /\ newpos st t k key cur) ->
  ifind_ret st t k sv cur found w e = Some (st', es) -> XInv0 st'.
Proof.
  intros HG HT HU HX HI HA Hifk Hs Hsv Hsvm Hsvn Hop Hcur Hst. unfold ifind_ret in Hst.
  assert (Hw : cur <> 0 -> w = true \/ w = memb (nkey (base st) cur) (g_abs (base st))).
  { intros Hnz. left. exact (proj1 (proj2 (Hcur Hnz))). }
  destruct k as [|o|o]; [destruct found|..]; injection Hst as <- <-.
  - (* find(key) found *)
    apply (XInv0_same st _ c t); try assumption; [reflexivity | same_tac|]. cbn [ifk_ok] in Hifk. destruct Hifk as (Hy & Hc0 & Hlo).
    apply IT_move; try assumption; [apply HA | apply HI | |].
    + intros ys0 y E. rewrite Hy in E. destruct ys0; discriminate.
    + intros _ k _ Hab Hnz Hle. rewrite Hlo in Hab. cbn [above] in Hab. pose proof (proj2 Hop Hnz). lia.
  - (* find(key) not found *)
    apply (XInv0_same st _ c t); try assumption; [reflexivity | same_tac|]. apply IT_end; [exact HG | apply HI].
  - (* operator++ *)
    apply (XInv0_same st _ c t); try assumption; [reflexivity | same_tac|]. cbn [ifk_ok] in Hifk. destruct Hifk as (Hc0 & Hnz & Hm & Hk).
    assert (Hcz : it_cur st t <> 0) by congruence.
    apply IT_move; try assumption; [apply HA | apply HI | |].
    + intros ys0 y E Hcnz. destruct (last_yield st c t (HI t) Hcz ys0 y E) as (Hn & Hyk & _).
      destruct (Hcur Hcnz) as (Hle & _ & Hne & Hre). rewrite Hyk, Hc0, <- Hk.
      destruct (N.eq_dec key (nkey (base st) cur)) as [Heq | Hneq]; [right | left; lia].
      split; [exact Heq|]. split; [congruence|]. intros j t' Hj. rewrite <- Heq in Hj. eapply Hre; eauto.
    + intros Ht k Hkin Hab Hsnz Hle. apply (IT_compl _ _ _ (HI t) Ht); [rewrite Hs; reflexivity | exact Hkin | exact Hab|].
      right. rewrite Hc0, <- Hk. pose proof (proj2 Hop Hsnz). lia.
  - (* erase(iterator) *)
    apply (XInv0_same st _ c t); try assumption; [reflexivity | same_tac|]. cbn [ifk_ok] in Hifk. destruct Hifk as (Hc0 & Hnz & Hm & Hk).
    assert (Hcz : it_cur st t <> 0) by congruence.
    apply IT_move; try assumption; [apply HA | apply HI | |].
    + intros ys0 y E Hcnz. destruct (last_yield st c t (HI t) Hcz ys0 y E) as (Hn & Hyk & _).
      destruct (Hcur Hcnz) as (Hle & _ & Hne & Hre). rewrite Hyk, Hc0, <- Hk.
      destruct (N.eq_dec key (nkey (base st) cur)) as [Heq | Hneq]; [right | left; lia].
      split; [exact Heq|]. split; [congruence|]. intros j t' Hj. rewrite <- Heq in Hj. eapply Hre; eauto.
    + intros Ht k Hkin Hab Hsnz Hle. apply (IT_compl _ _ _ (HI t) Ht); [rewrite Hs; reflexivity | exact Hkin | exact Hab|].
      right. rewrite Hc0, <- Hk. pose proof (proj2 Hop Hsnz). lia.
Qed.

(** a base step (insert / erase(key) / contains of some thread) *)
Lemma XInv0_lift st a b' e :
  XInv0 st -> step (base st) a = Some (b', e) -> XInv0 (set_base st b').
Proof.
  intros [c (HG & HT & HU & HX & HI)] Hst.
  destruct (base_step_ext _ _ _ _ c HG HT Hst) as (c' & l & HE).
  assert (Hinv : Inv b') by (eapply Inv_step; [exists c; split; [exact HG | split; [exact HT | exact HU]] | exact Hst]).
  destruct Hinv as (c'' & HG'' & HT'' & HU'').
  assert (c'' = c') by (rewrite (chain_eq _ _ HG''), (chain_eq _ _ (proj1 HE)); reflexivity). subst c''.
  exists c'. split; [exact HG''|]. split; [exact HT''|]. split; [exact HU''|]. split; [eapply GX_ext; eassumption|].
  intros u. eapply (IT_stable st (set_base st b')); try eassumption; try reflexivity; [intros k Hk; exact Hk | apply HI].
Qed.

Lemma X_go st c t p :
  G (base st) c -> (forall u, T (base st) c u (th (base st) u)) -> U (th (base st)) -> GX (base st) c ->
  (forall u, IT st c u) -> ITp st c t p -> (in_start p = true \/ in_start p = in_start (ith st t)) ->
  XInv0 (set_ipc st t p).
Proof.
  intros HG HT HU HX HI Hp Hs. apply (XInv0_same st _ c t); try assumption; [reflexivity | same_tac|].
  apply IT_go; [apply HI | exact Hp | exact Hs].
Qed.

Ltac go_tac st c t :=
  match goal with HG : G (base st) c, HT : forall u, T (base st) c u _, HU : U _, HX : GX _ _, HI : forall u, IT st c u |- _ =>
    apply (X_go st c t _ HG HT HU HX HI) end.

Lemma XInv0_step st a st' es : XInv st -> xstep0 st a = Some (st', es) -> XInv0 st'.
Proof.
  intros [HX0 HA] Hst. pose proof HX0 as [c (HG & HT & HU & HX & HI)].
  unfold xstep0 in Hst. destruct a as [t o | t].
  - (* XStart *)
    destruct o as [o| |k| | | |].
    + destruct (ith st t); try discriminate. unfold lift in Hst.
      destruct (step (base st) (Start t o)) as [[b' e]|] eqn:Hb; [|discriminate].
      injection Hst as <- <-. eapply XInv0_lift; eassumption.
    + destruct (ith st t) eqn:E; try discriminate; destruct (th (base st) t); try discriminate; injection Hst as <- <-.
      go_tac st c t; [exact I | right; rewrite E; reflexivity].
    + destruct (ith st t) eqn:E; try discriminate; destruct (th (base st) t); try discriminate; injection Hst as <- <-.
      go_tac st c t; [exact I | right; rewrite E; reflexivity].
    + destruct (ith st t) eqn:E; try discriminate; destruct (th (base st) t); try discriminate; injection Hst as <- <-.
      go_tac st c t; [exact I | right; rewrite E; reflexivity].
    + destruct (ith st t) eqn:E; try discriminate; destruct (th (base st) t); try discriminate; injection Hst as <- <-.
      go_tac st c t; [exact I | right; rewrite E; reflexivity].
    + destruct (ith st t) eqn:E; try discriminate; destruct (th (base st) t); try discriminate; injection Hst as <- <-.
      go_tac st c t; [exact I | right; rewrite E; reflexivity].
    + destruct (ith st t) eqn:E; try discriminate; destruct (th (base st) t); try discriminate; injection Hst as <- <-.
      go_tac st c t; [exact I | right; rewrite E; reflexivity].
  - (* XStep *)
    pose proof (HI t) as Ht. pose proof (IT_pc _ _ _ Ht) as Hp.
    destruct (ith st t) as [|o| |k key start|k key start sv nx|k key start sv cur|k key start sv cur|k key start sv cur nx
                            |k key start sv cur nx w| |nx| |nx|nx] eqn:E; cbn [ITp] in Hp; cbv beta iota zeta in Hst.
    + (* IIdle: a base step *)
      unfold lift in Hst. destruct (step (base st) (Step t)) as [[b' e]|] eqn:Hb; [|discriminate].
      injection Hst as <- <-. eapply XInv0_lift; eassumption.
    + (* IBegin *)
      destruct o as [o| |k| | | |]; try discriminate.
      * injection Hst as <- <-. apply (XInv0_same st _ c t); try assumption; [reflexivity | same_tac|].
        apply IT_start; [exact HG | exact Ht | left; auto].
      * injection Hst as <- <-. apply (XInv0_same st _ c t); try assumption; [reflexivity | same_tac|].
        apply IT_start; [exact HG | exact Ht | right; eauto].
      * destruct (N.eqb_spec (it_cur st t) 0) as [Hz|Hnz]; injection Hst as <- <-.
        -- go_tac st c t; [exact I | right; rewrite E; reflexivity].
        -- go_tac st c t; [exact Hnz | right; rewrite E; reflexivity].
      * injection Hst as <- <-. go_tac st c t; [exact I | right; rewrite E; reflexivity].
      * destruct (N.eqb_spec (it_cur st t) 0) as [Hz|Hnz]; injection Hst as <- <-.
        -- go_tac st c t; [exact I | right; rewrite E; reflexivity].
        -- go_tac st c t; [exact Hnz | right; rewrite E; reflexivity].
      * injection Hst as <- <-. apply (XInv0_same st _ c t); try assumption; [reflexivity | same_tac|].
        apply IT_end; [exact HG | exact Ht].
    + (* B1 *)
      destruct Hp as [Hy Hc0]. injection Hst as <- <-.
      apply (XInv0_same st _ c t); try assumption; [reflexivity | same_tac|].
      apply IT_move; try assumption; [apply HA | exact (G_zero_in _ _ HG) | exact (G_mark0 _ _ HG) | reflexivity | | |].
      * intros _. right. reflexivity.
      * intros ys0 y Ey. rewrite Hy in Ey. destruct ys0; discriminate.
      * intros _ k _ _ Hc. contradiction.
    + (* IF1 *)
      destruct Hp as (Hifk & Hstart). destruct (nmark (base st) start) eqn:Hm; injection Hst as <- <-.
      * go_tac st c t; [|right; rewrite E; reflexivity]. cbn [ITp]. split; [exact Hifk | apply okprev_zero; exact HG].
      * go_tac st c t; [|right; rewrite E; reflexivity]. cbn [ITp]. split; [exact Hifk|]. split; [exact Hstart|].
        split; [exact Hstart|]. exact (G_closed _ _ HG start (proj1 Hstart)).
    + (* IF2 *)
      destruct Hp as (Hifk & Hstart & Hsv & Hnxk).
      destruct ((nnext (base st) sv =? nx) && negb (nmark (base st) sv)) eqn:Hc; cbn [negb] in Hst.
      * apply cond_true in Hc. destruct Hc as [Hnx Hm].
        assert (Hsvc : In sv c) by (eapply unmarked_in_chain; [exact HG | exact (proj1 Hsv) | exact Hm]).
        destruct (N.eqb_spec nx 0) as [Hz|Hz].
        -- eapply (find_ret_X st c t k key sv 0 false false); try eassumption.
           ++ rewrite E. reflexivity.
           ++ congruence.
           ++ intros Hc. contradiction.
        -- injection Hst as <- <-. go_tac st c t; [|right; rewrite E; reflexivity]. cbn [ITp].
           split; [exact Hifk|]. split; [exact Hstart|]. split; [exact Hsv|]. split; [|exact Hz].
           apply known_chain. rewrite <- Hnx. apply (chain_next_in (base st) c); [exact HG | exact Hsvc | congruence].
      * injection Hst as <- <-. go_tac st c t; [|right; rewrite E; reflexivity]. cbn [ITp]. auto.
    + (* IF3 *)
      destruct Hp as (Hifk & Hstart & Hsv & Hcur). destruct (nmark (base st) cur) eqn:Hm; injection Hst as <- <-.
      * go_tac st c t; [|right; rewrite E; reflexivity]. cbn [ITp]. auto 6.
      * go_tac st c t; [|right; rewrite E; reflexivity]. cbn [ITp].
        split; [exact Hifk|]. split; [exact Hstart|]. split; [exact Hsv|]. split; [exact Hcur|].
        split; [exact (G_closed _ _ HG cur (proj1 Hcur))|].
        assert (Hcc : In cur c) by (eapply unmarked_in_chain; [exact HG | exact (proj1 Hcur) | exact Hm]).
        split; [apply memb_true; apply (abs_in (base st) c); [exact HG | exact Hcc | exact (proj2 Hcur) | exact Hm]|].
        assert (Hnp : forall o, ifk_ok st t (KItN o) key -> cur <> o /\
                   (nkey (base st) cur = key -> forall ys0 y j t', g_yield st t = ys0 ++ [y] ->
                      nth_error (g_lin (base st)) j = Some (LIns t' key cur) -> (y_lin y <= j)%nat)).
        { intros o (Hc0 & Honz & Hom & Hk). split; [intros ->; congruence|].
          intros Hkey ys0 y j t' Ey Hn. destruct (Nat.le_gt_cases (y_lin y) j) as [Hle | Hgt]; [exact Hle | exfalso].
          assert (Hcz : it_cur st t <> 0) by congruence.
          destruct (last_yield st c t Ht Hcz ys0 y Ey) as (Hyn & Hyk & Hyok).
          destruct Hyok as (_ & _ & _ & _ & H5 & _). rewrite Hc0, <- Hk in Hyk. rewrite <- Hyk in Hn.
          destruct (H5 j t' cur Hgt Hn) as [Hx | Hx]; [|congruence]. rewrite Hyn, Hc0 in Hx. subst cur. congruence. }
        destruct k as [|o|o]; cbn [newpos]; [exact I | apply Hnp; exact Hifk | apply Hnp; exact Hifk].
    + (* IF4 *)
      destruct Hp as (Hifk & Hstart & Hsv & Hcur & Hm). injection Hst as <- <-.
      go_tac st c t; [|right; rewrite E; reflexivity]. cbn [ITp]. auto 8.
    + (* IF5 *)
      destruct Hp as (Hifk & Hstart & Hsv & Hcur & Hm & Hn).
      destruct ((nnext (base st) sv =? cur) && negb (nmark (base st) sv)) eqn:Hc; injection Hst as <- <-.
      * apply cond_true in Hc. destruct Hc as [Hnx Hsvm].
        destruct (unlink_ext (base st) c (unlink_st (base st) sv cur nx) sv cur nx HG (proj1 Hsv) Hsvm Hnx (proj2 Hcur) Hm Hn
                    eq_refl eq_refl eq_refl eq_refl eq_refl eq_refl eq_refl) as (c' & HE & HM).
        destruct (base_mem_step _ c _ c' HG HT HU HM eq_refl eq_refl) as [HT' HU'].
        apply (XInv0_intro st _ c c' [] t); try assumption; [same_tac|].
        apply (IT_stable (set_ipc st t (IF2 k key start sv nx)) _ c c' [] t); try assumption; try reflexivity; [intros k0 Hk0; exact Hk0|].
        apply IT_go; [exact Ht | | right; rewrite E; reflexivity]. cbn [ITp].
        split; [exact Hifk|]. split; [exact Hstart|]. split; [exact Hsv|]. rewrite <- Hn. exact (G_closed _ _ HG cur (proj1 Hcur)).
      * go_tac st c t; [|right; rewrite E; reflexivity]. cbn [ITp]. auto.
    + (* IF6 *)
      destruct Hp as (Hifk & Hstart & Hsv & Hcur & Hnxk & Hw & Hnp).
      destruct ((nnext (base st) sv =? cur) && negb (nmark (base st) sv)) eqn:Hc; cbn [negb] in Hst.
      * apply cond_true in Hc. destruct Hc as [Hnx Hm].
        assert (Hsvc : In sv c) by (eapply unmarked_in_chain; [exact HG | exact (proj1 Hsv) | exact Hm]).
        destruct (N.ltb_spec (nkey (base st) cur) key) as [Hlt|Hge].
        -- injection Hst as <- <-. go_tac st c t; [|right; rewrite E; reflexivity]. cbn [ITp].
           split; [exact Hifk|]. split; [exact Hstart|]. split; [|exact Hnxk]. split; [exact (proj1 Hcur) | intros _; exact Hlt].
        -- eapply (find_ret_X st c t k key sv cur (nkey (base st) cur =? key) w); try eassumption.
           ++ rewrite E. reflexivity.
           ++ intros _. auto.
      * injection Hst as <- <-. go_tac st c t; [|right; rewrite E; reflexivity]. cbn [ITp]. auto.
    + (* N1 *)
      destruct (IT_it _ _ _ Ht Hp) as [Hsv Hcur].
      destruct (nmark (base st) (it_cur st t)) eqn:Hm; injection Hst as <- <-.
      * go_tac st c t; [|right; rewrite E; reflexivity]. cbn [ITp ifk_ok]. auto 6.
      * go_tac st c t; [|right; rewrite E; reflexivity]. cbn [ITp]. split; [exact Hp|]. exact (G_closed _ _ HG _ (proj1 Hcur)).
    + (* N2 *)
      destruct Hp as [Hnz Hnxk]. destruct (IT_it _ _ _ Ht Hnz) as [Hsv Hcur].
      destruct ((nnext (base st) (it_cur st t) =? nx) && negb (nmark (base st) (it_cur st t))) eqn:Hc; injection Hst as <- <-.
      * apply cond_true in Hc. destruct Hc as [Hnx Hm].
        assert (Hcc : In (it_cur st t) c) by (eapply unmarked_in_chain; [exact HG | exact (proj1 Hcur) | exact Hm]).
        apply (XInv0_same st _ c t); try assumption; [reflexivity | same_tac|].
        apply IT_move; try assumption; [apply HA | | |].
        -- intros _. right. reflexivity.
        -- intros ys0 y Ey Hxz. destruct (last_yield st c t Ht Hnz ys0 y Ey) as (_ & Hyk & _). left. rewrite Hyk.
           destruct (chain_nonzero (base st) c _ nx HG Hcc Hnx Hxz) as [_ [_ [Hx | Hx]]]; [contradiction | exact Hx].
        -- intros Htr k Hk Hab _ Hle. apply (IT_compl _ _ _ Ht Htr); [rewrite E; reflexivity | exact Hk | exact Hab | right; exact Hle].
      * go_tac st c t; [exact Hnz | right; rewrite E; reflexivity].
    + (* X1 *)
      destruct (IT_it _ _ _ Ht Hp) as [Hsv Hcur].
      destruct (nmark (base st) (it_cur st t)) eqn:Hm; injection Hst as <- <-.
      * go_tac st c t; [|right; rewrite E; reflexivity]. cbn [ITp]. auto.
      * go_tac st c t; [|right; rewrite E; reflexivity]. cbn [ITp]. split; [exact Hp|]. exact (G_closed _ _ HG _ (proj1 Hcur)).
    + (* X2 *)
      destruct Hp as [Hnz Hnxk]. destruct (IT_it _ _ _ Ht Hnz) as [Hsv Hcur].
      destruct ((nnext (base st) (it_cur st t) =? nx) && negb (nmark (base st) (it_cur st t))) eqn:Hc.
      * injection Hst as <- <-. apply cond_true in Hc. destruct Hc as [Hnx Hm].
        destruct (mark_ext (base st) c (mark_st (base st) t (it_cur st t)) t (nkey (base st) (it_cur st t)) (it_cur st t)
                    HG (proj1 Hcur) (proj2 Hcur) Hm eq_refl eq_refl eq_refl eq_refl eq_refl eq_refl eq_refl eq_refl) as [HE HM].
        destruct (base_mem_step _ c _ c HG HT HU HM eq_refl eq_refl) as [HT' HU'].
        apply (XInv0_intro st _ c c [LDel t (nkey (base st) (it_cur st t)) (it_cur st t)] t); try assumption; [same_tac|].
        assert (Ht1 : IT (set_base st (mark_st (base st) t (it_cur st t))) c t).
        { apply (IT_stable st (set_base st (mark_st (base st) t (it_cur st t))) c c _ t HG HE); try reflexivity; [intros k0 Hk0; exact Hk0 | exact Ht]. }
        apply (IT_go _ c t (X3 nx) Ht1); [|right; xprj; rewrite E; reflexivity].
        cbn [ITp]. xprj. cbn [mark_st nmark nnext]. split; [exact Hnz|]. split; [apply setf_same | exact Hnx].
      * destruct (nmark (base st) (it_cur st t)) eqn:Hm; injection Hst as <- <-.
        -- go_tac st c t; [|right; rewrite E; reflexivity]. cbn [ITp]. auto.
        -- go_tac st c t; [|right; rewrite E; reflexivity]. cbn [ITp]. split; [exact Hnz|]. exact (G_closed _ _ HG _ (proj1 Hcur)).
    + (* X3 *)
      destruct Hp as (Hnz & Hm & Hn). destruct (IT_it _ _ _ Ht Hnz) as [Hsv Hcur].
      destruct ((nnext (base st) (it_sv st t) =? it_cur st t) && negb (nmark (base st) (it_sv st t))) eqn:Hc; injection Hst as <- <-.
      * apply cond_true in Hc. destruct Hc as [Hsvn Hsvm].
        set (sv := it_sv st t) in *. set (cur := it_cur st t) in *. set (b := base st) in *.
        destruct (unlink_ext b c (unlink_st b sv cur nx) sv cur nx HG (proj1 Hsv) Hsvm Hsvn Hnz Hm Hn
                    eq_refl eq_refl eq_refl eq_refl eq_refl eq_refl eq_refl) as (c' & HE & HM).
        destruct (base_mem_step _ c _ c' HG HT HU HM eq_refl eq_refl) as [HT' HU'].
        apply (XInv0_intro st _ c c' [] t); try assumption; [same_tac|].
        set (b' := unlink_st b sv cur nx) in *. set (st1 := set_base st b').
        assert (Ht1 : IT st1 c' t).
        { apply (IT_stable st st1 c c' [] t HG HE); try reflexivity; [intros k0 Hk0; exact Hk0 | exact Ht]. }
        assert (Hsvc : In sv c) by (eapply unmarked_in_chain; [exact HG | exact (proj1 Hsv) | exact Hsvm]).
        assert (Hcc : In cur c) by (apply (chain_nonzero b c sv cur HG Hsvc Hsvn Hnz)).
        change (IT (move_it st1 (base st1) t sv nx (memb (nkey (base st1) nx) (g_abs (base st1)))) c' t).
        assert (HG1 : G (base st1) c') by exact (proj1 HE).
        assert (HX1 : GX (base st1) c') by (eapply GX_ext; eassumption).
        assert (HA1 : forall k, In k (g_always st1 t) -> In k (g_abs (base st1))) by (intros k Hk; apply (HA t k Hk)).
        assert (Hsv1 : In sv c').
        { eapply unmarked_in_chain; [exact (proj1 HE) | apply (W_known _ _ _ _ (proj1 (proj2 HE))); exact (proj1 Hsv) | exact Hsvm]. }
        assert (Hn1 : nnext (base st1) sv = nx) by apply setf_same.
        apply (IT_move st1 c' t sv nx _ HG1 HX1 HA1 Ht1 Hsv1 Hsvm Hn1).
        -- intros _. right. reflexivity.
        -- intros ys0 y Ey Hxz. destruct (last_yield st1 c' t Ht1 Hnz ys0 y Ey) as (_ & Hyk & _). left. rewrite Hyk.
           destruct (chain_nonzero b c cur nx HG Hcc Hn Hxz) as [_ [_ [Hx | Hx]]]; [contradiction | exact Hx].
        -- intros Htr k Hk Hab Hsnz Hle. apply (IT_compl _ _ _ Ht1 Htr); [subst st1; xprj; rewrite E; reflexivity | exact Hk | exact Hab|].
           right. pose proof (proj2 Hsv Hsnz) as Hlt. change (k <= nkey b sv) in Hle. change (k <= nkey b cur). lia.
      * go_tac st c t; [|right; rewrite E; reflexivity]. cbn [ITp ifk_ok]. auto 6.
Qed.

Lemma XInv_refresh st : XInv0 st -> XInv (refresh st).
Proof.
  intros [c (HG & HT & HU & HX & HI)]. split.
  - exists c. xprj. split; [exact HG|]. split; [exact HT|]. split; [exact HU|]. split; [exact HX|].
    intros t. apply (IT_stable st (refresh st) c c [] t HG); try reflexivity.
    + apply (ext_same (base st) c (base st) HG); reflexivity.
    + xprj. intros k Hk. apply filter_In in Hk. exact (proj1 Hk).
    + apply HI.
  - intros t k Hk. xprj. cbn [refresh g_always] in Hk. apply filter_In in Hk. apply memb_true. exact (proj2 Hk).
Qed.

Lemma XInv_step st a st' es : XInv st -> xstep st a = Some (st', es) -> XInv st'.
Proof.
  intros HI Hst. unfold xstep in Hst. destruct (xstep0 st a) as [[st0 e]|] eqn:H0; [|discriminate].
  injection Hst as <- <-. apply XInv_refresh. eapply XInv0_step; eassumption.
Qed.

Lemma XInv_init : XInv xinit.
Proof.
  split.
  - destruct Inv_init as [c (HG & HT & HU)]. exists c. cbn [xinit base]. split; [exact HG|]. split; [exact HT|]. split; [exact HU|].
    split; [split; [intros x Hx; discriminate | intros x Hx Hnz; exfalso; revert Hx Hnz; unfold known; cbn [init g_retired]; rewrite app_nil_r; intros Hx Hnz; pose proof (G_bound _ _ HG x (known_chain _ _ _ Hx)) as Hb; cbn [init nalloc] in Hb; lia]|]. intros t. constructor; cbn [xinit base it_cur it_sv g_yield g_trav g_always g_lo ith].
    + apply known_zero. exact HG.
    + intros H; contradiction.
    + intros H; contradiction.
    + intros y [].
    + constructor.
    + intros H; discriminate.
    + exact I.
  - intros t k [].
Qed.

Theorem XInv_reach st : reach xinit xstep st -> XInv st.
Proof. apply inv_rule; [exact XInv_init | exact XInv_step]. Qed.

(** * Theorems (state level) *)

(** node variables of the iterator state of thread [t]: the iterator variable (save, cur) and the locals of
    the iterator operation in progress *)
Definition iheld (st : xstate) (t : nat) : list N :=
  it_sv st t :: it_cur st t ::
  match ith st t with
  | IF1 _ _ start => [start]
  | IF2 _ _ start sv nx => [start; sv; nx]
  | IF3 _ _ start sv cur | IF4 _ _ start sv cur => [start; sv; cur]
  | IF5 _ _ start sv cur nx | IF6 _ _ start sv cur nx _ => [start; sv; cur; nx]
  | N2 nx | X2 nx | X3 nx => [nx]
  | _ => []
  end.

Lemma ychain_pairs b ys : ychain b ys ->
  forall i j y1 y2, (i < j)%nat -> nth_error ys i = Some y1 -> nth_error ys j = Some y2 ->
    (y_lin y1 <= y_lin y2)%nat /\
    (y_key y1 < y_key y2 \/
     (y_key y1 = y_key y2 /\
      forall m t', nth_error (g_lin b) m = Some (LIns t' (y_key y2) (y_node y2)) -> (y_lin y1 <= m)%nat)).
Proof.
  induction 1 as [|y|ys ya yb Hc IH Hs]; intros i j y1 y2 Hij Hi Hj.
  - destruct j; discriminate.
  - destruct j as [|j]; [lia|]. destruct j; discriminate.
  - set (n := length (ys ++ [ya])).
    assert (Hn : n = S (length ys)) by (subst n; rewrite app_length; cbn; lia).
    assert (Hya : nth_error (ys ++ [ya]) (length ys) = Some ya).
    { rewrite nth_error_app2 by lia. rewrite Nat.sub_diag. reflexivity. }
    destruct (Nat.lt_ge_cases j n) as [Hjn | Hjn].
    + rewrite nth_error_app1 in Hi by (fold n; lia). rewrite nth_error_app1 in Hj by (fold n; lia).
      exact (IH i j y1 y2 Hij Hi Hj).
    + assert (Hjl : (j < length ((ys ++ [ya]) ++ [yb]))%nat) by (apply nth_error_Some; congruence).
      rewrite app_length in Hjl. cbn [length] in Hjl. fold n in Hjl. assert (j = n) by lia. subst j.
      rewrite nth_error_app2 in Hj by (fold n; lia). fold n in Hj. rewrite Nat.sub_diag in Hj. injection Hj as <-.
      rewrite nth_error_app1 in Hi by (fold n; lia).
      destruct Hs as (Hs1 & Hs2 & Hs3).
      destruct (Nat.eq_dec i (length ys)) as [->|Hne].
      * rewrite Hya in Hi. injection Hi as <-. split; [exact Hs1|].
        destruct Hs3 as [Hs3 | (Hs3 & _ & Hs4)]; [left; exact Hs3 | right; split; assumption].
      * destruct (IH i (length ys) y1 ya ltac:(lia) Hi Hya) as [Hl Hk]. split; [lia|].
        destruct Hs3 as [Hs3 | (Hs3 & _ & Hs4)]; [left; destruct Hk as [Hk | [Hk _]]; lia|].
        destruct Hk as [Hk | [Hk _]]; [left; lia | right]. split; [congruence|].
        intros m t' Hm. specialize (Hs4 m t' Hm). lia.
Qed.

Section XTheorems.
  Variable st : xstate.
  Hypothesis Hreach : reach xinit xstep st.

  Let b := base st.
  Let HXI := XInv_reach st Hreach.

  Lemma xinv_chain : G b (0 :: chain b) /\ (forall t, T b (0 :: chain b) t (th b t)) /\ U (th b) /\
                     GX b (0 :: chain b) /\ (forall t, IT st (0 :: chain b) t) /\ Ainv st.
  Proof.
    destruct HXI as [[c (HG & HT & HU & HX & HI)] HA]. unfold b. rewrite <- (chain_eq _ _ HG). auto 7.
  Qed.

  (** 0. the invariant of HmlInv holds for the list in the extended system *)
  Theorem hmlit_base_inv : Inv b.
  Proof. destruct HXI as [[c (HG & HT & HU & _)] _]. exists c. auto. Qed.

  (** 1a. structure of the chain, as [hml_structure] *)
  Theorem hmlit_structure :
    head b = hd 0 (chain b) /\
    linksto (nnext b) (chain b) 0 /\
    StronglySorted (fun x y => nkey b x < nkey b y) (chain b) /\
    NoDup (chain b) /\
    (forall x, In x (chain b) -> x <> 0 /\ x < nalloc b) /\
    nmark b 0 = false.
  Proof.
    destruct xinv_chain as (HG & _).
    pose proof (G_links _ _ HG) as HL. cbn [linksto] in HL. destruct HL as [HL1 HL2].
    pose proof (G_sorted _ _ HG) as HS. apply SS_cons_inv in HS. destruct HS as [HS HS0].
    pose proof (G_nodup _ _ HG) as HN. inversion HN as [|a l Hn0 HN']; subst.
    split; [exact HL1|]. split; [exact HL2|]. split; [|split; [exact HN'|split; [|exact (G_mark0 _ _ HG)]]].
    - eapply SS_ext; [|exact HS]. intros x y Hx Hy [_ [H0 | Hlt]]; [|exact Hlt].
      exfalso. subst x. contradiction.
    - intros x Hx. split; [exact (proj1 (HS0 _ Hx))|]. apply (G_bound _ _ HG). apply known_chain. right. exact Hx.
  Qed.

  (** 1b. retired nodes, as [hml_retired]; in addition every marked node was marked by a recorded erase and
      every linked node was linked by a recorded insert *)
  Theorem hmlit_retired :
    NoDup (g_retired b) /\
    (forall x, In x (g_retired b) -> ~ In x (chain b) /\ nmark b x = true /\ x <> 0 /\ x < nalloc b) /\
    (forall x, nmark b x = true -> (In x (chain b) \/ In x (g_retired b)) /\ In x (del_nodes (g_lin b))) /\
    (forall x, In x (chain b) \/ In x (g_retired b) -> In x (ins_nodes (g_lin b))) /\
    g_abs b = apply_lin (g_lin b) /\
    (forall k, In k (g_abs b) <-> In k (abs_keys b)).
  Proof.
    destruct xinv_chain as (HG & _ & _ & HX & _).
    assert (Hnz : forall x, In x (chain b) -> x <> 0) by (intros x Hx; apply (G_tail_nonzero _ _ _ HG); exact Hx).
    split; [exact (G_ret_nodup _ _ HG)|]. split; [|split; [|split; [|split; [exact (G_fold _ _ HG)|]]]].
    - intros x Hx. split; [|split; [exact (G_ret_marked _ _ HG x Hx)|split]].
      + intros Hc. apply (G_disj _ _ HG x); [right; exact Hc | exact Hx].
      + intros ->. apply (G_disj _ _ HG 0); [left; reflexivity | exact Hx].
      + apply (G_bound _ _ HG). apply in_or_app. right. exact Hx.
    - intros x Hx. split; [|apply (proj1 HX); exact Hx]. pose proof (G_marked_known _ _ HG x Hx) as Hk. apply in_app_or in Hk.
      destruct Hk as [[<- | Hk] | Hk]; [|left; exact Hk | right; exact Hk].
      rewrite (G_mark0 _ _ HG) in Hx. discriminate.
    - intros x Hx. apply (proj2 HX).
      + apply in_or_app. destruct Hx as [Hx | Hx]; [left; right; exact Hx | right; exact Hx].
      + destruct Hx as [Hx | Hx]; [apply Hnz; exact Hx|]. intros ->. apply (G_disj _ _ HG 0); [left; reflexivity | exact Hx].
    - intros k. rewrite (G_abs _ _ HG). unfold abs_keys. rewrite in_map_iff. split.
      + intros (x & [Hx | Hx] & Hxz & Hm & Hk); [congruence|]. exists x. split; [exact Hk|].
        apply filter_In. split; [exact Hx | rewrite Hm; reflexivity].
      + intros (x & Hk & Hx). apply filter_In in Hx. destruct Hx as [Hx Hm]. exists x.
        split; [right; exact Hx|]. split; [apply Hnz; exact Hx|]. split; [|exact Hk].
        destruct (nmark b x); [discriminate | reflexivity].
  Qed.

  (** 1c. SAFETY OF THE ITERATOR: every node an iterator (or an iterator operation in progress) refers to was
      allocated and is null / the head sentinel, reachable from head, or retired.  Retired nodes are never
      freed or reused in this model (GC reclaimer instance): this is the guarantee C01 gives for a node on
      which a guard_ptr is held, and every variable listed in [iheld] is a guard_ptr of the C++ code
      (info.save, info.cur, start_guard, tmp_guard, next_guard) or the value [next] just read from the
      guarded node [cur], which is dereferenced only after it was validated by acquire_if_equal (find, ++)
      resp. never dereferenced before the unlink CAS succeeded (erase).  So the key and the next field of
      these nodes may be read at any time. *)
  Theorem it_node_safe t x : In x (iheld st t) ->
    x < nalloc b /\ (x = 0 \/ In x (chain b) \/ In x (g_retired b)).
  Proof.
    destruct xinv_chain as (HG & _ & _ & _ & HI & _). specialize (HI t).
    assert (Hz : 0 < nalloc b) by (apply (G_bound _ _ HG), known_zero, HG).
    assert (Hkn : forall y, known b (0 :: chain b) y -> y < nalloc b /\ (y = 0 \/ In y (chain b) \/ In y (g_retired b))).
    { intros y Hy. split; [apply (G_bound _ _ HG); exact Hy|]. apply in_app_or in Hy.
      destruct Hy as [[<- | Hy] | Hy]; auto. }
    assert (Hnx : forall y, oknx b (0 :: chain b) y -> y < nalloc b /\ (y = 0 \/ In y (chain b) \/ In y (g_retired b))).
    { intros y [-> | Hy]; [split; [exact Hz | left; reflexivity] | apply Hkn; exact Hy]. }
    assert (Hcl : forall y, known b (0 :: chain b) y -> oknx b (0 :: chain b) (nnext b y)).
    { intros y Hy. exact (G_closed _ _ HG y Hy). }
    assert (Hcur : it_cur st t < nalloc b /\ (it_cur st t = 0 \/ In (it_cur st t) (chain b) \/ In (it_cur st t) (g_retired b))).
    { destruct (N.eq_dec (it_cur st t) 0) as [Hc|Hc]; [rewrite Hc; split; [exact Hz | left; reflexivity]|].
      apply Hkn. exact (proj1 (proj2 (IT_it _ _ _ HI Hc))). }
    pose proof (IT_pc _ _ _ HI) as Hp. unfold iheld. intros [<- | [<- | Hin]]; [apply Hkn; exact (IT_sv _ _ _ HI) | exact Hcur |].
    destruct (ith st t) as [|o| |k key start|k key start sv nx|k key start sv cur|k key start sv cur|k key start sv cur nx
                            |k key start sv cur nx w| |nx| |nx|nx]; cbn [ITp] in Hp; try (destruct Hin; fail).
    - destruct Hp as (_ & H1). destruct Hin as [<- | []]. apply Hkn, H1.
    - destruct Hp as (_ & H1 & H2 & H3). destruct Hin as [<- | [<- | [<- | []]]]; [apply Hkn, H1 | apply Hkn, H2 | apply Hnx, H3].
    - destruct Hp as (_ & H1 & H2 & H3). destruct Hin as [<- | [<- | [<- | []]]]; [apply Hkn, H1 | apply Hkn, H2 | apply Hkn, H3].
    - destruct Hp as (_ & H1 & H2 & H3 & _). destruct Hin as [<- | [<- | [<- | []]]]; [apply Hkn, H1 | apply Hkn, H2 | apply Hkn, H3].
    - destruct Hp as (_ & H1 & H2 & H3 & _ & H5). destruct Hin as [<- | [<- | [<- | [<- | []]]]];
        [apply Hkn, H1 | apply Hkn, H2 | apply Hkn, H3 | rewrite <- H5; apply Hnx, Hcl, H3].
    - destruct Hp as (_ & H1 & H2 & H3 & H4 & _). destruct Hin as [<- | [<- | [<- | [<- | []]]]];
        [apply Hkn, H1 | apply Hkn, H2 | apply Hkn, H3 | apply Hnx, H4].
    - destruct Hp as (_ & H1). destruct Hin as [<- | []]. apply Hnx, H1.
    - destruct Hp as (_ & H1). destruct Hin as [<- | []]. apply Hnx, H1.
    - destruct Hp as (Hc & _ & H1). destruct Hin as [<- | []]. rewrite <- H1. apply Hnx, Hcl. exact (proj1 (proj2 (IT_it _ _ _ HI Hc))).
  Qed.

  (** the iterator variable: the node it stands on carries a greater key than its predecessor [save], and it
      is the last recorded position of the traversal *)
  Theorem it_position t : it_cur st t <> 0 ->
    (it_sv st t <> 0 -> nkey b (it_sv st t) < nkey b (it_cur st t)) /\
    exists ys0 y, g_yield st t = ys0 ++ [y] /\ y_node y = it_cur st t /\ y_key y = nkey b (it_cur st t).
  Proof.
    destruct xinv_chain as (_ & _ & _ & _ & HI & _). intros Hnz. split; [exact (proj2 (proj1 (IT_it _ _ _ (HI t) Hnz)))|].
    destruct (IT_last _ _ _ (HI t) Hnz) as (ys0 & y & E & Hn). exists ys0, y. split; [exact E|].
    destruct (last_yield st _ t (HI t) Hnz ys0 y E) as (H1 & H2 & _). auto.
  Qed.

  (** 2. YIELDS: every recorded position [y] of the current traversal of thread [t] is a node that was linked
      by a recorded insert before the yield and was REACHABLE from head at the instant the iterator moved
      onto it ([y_reach], computed by [reachable] in that state); its witness flag is true (the key was in
      [g_abs] at that instant resp. at the instant find saw the node unmarked, see [it_yield_was_member]), or
      the node had been erased (marked by a recorded erase) before the iterator moved onto it - it was
      then still linked, i.e. the physical removal, which every operation performs before it can observe the
      absence of the key, was still outstanding *)
  Theorem it_yield_sound t y : In y (g_yield st t) ->
    nkey b (y_node y) = y_key y /\ y_node y <> 0 /\ (In (y_node y) (chain b) \/ In (y_node y) (g_retired b)) /\
    (y_lin y <= length (g_lin b))%nat /\
    (exists j t', (j < y_lin y)%nat /\ nth_error (g_lin b) j = Some (LIns t' (y_key y) (y_node y))) /\
    y_reach y = true /\
    (y_wit y = true \/
     exists j t', (j < y_lin y)%nat /\ nth_error (g_lin b) j = Some (LDel t' (y_key y) (y_node y))).
  Proof.
    destruct xinv_chain as (HG & _ & _ & _ & HI & _). intros Hy.
    destruct (IT_yok _ _ _ (HI t) y Hy) as ([Hk Hnz] & H2 & H3 & H4 & _ & H6 & H7).
    split; [exact H2|]. split; [exact Hnz|]. split; [|auto 6].
    apply in_app_or in Hk. destruct Hk as [[Hk | Hk] | Hk]; [congruence | left; exact Hk | right; exact Hk].
  Qed.

  (** 3. NO DUPLICATES (true version): the keys of the recorded positions never decrease, and a key is
      yielded again only by a DIFFERENT node which was linked by an insert whose linearization point lies
      after the first yield and before the second one ("no key is yielded twice unless re-inserted").
      The strict version (keys strictly increasing) is false: [it_no_duplicate_strict_refuted]. *)
  Theorem it_no_duplicate t i j y1 y2 : (i < j)%nat ->
    nth_error (g_yield st t) i = Some y1 -> nth_error (g_yield st t) j = Some y2 ->
    y_key y1 < y_key y2 \/
    (y_key y1 = y_key y2 /\ y_node y1 <> y_node y2 /\
     exists m t', nth_error (g_lin b) m = Some (LIns t' (y_key y2) (y_node y2)) /\ (y_lin y1 <= m < y_lin y2)%nat).
  Proof.
    destruct xinv_chain as (HG & _ & _ & _ & HI & _). intros Hij H1 H2.
    destruct (ychain_pairs b _ (IT_chain _ _ _ (HI t)) i j y1 y2 Hij H1 H2) as [Hl [Hk | [Hk Hre]]]; [left; exact Hk | right].
    split; [exact Hk|].
    destruct (IT_yok _ _ _ (HI t) y1 (nth_error_In _ _ H1)) as (_ & _ & _ & _ & _ & (m1 & t1 & Hm1 & Hn1) & _).
    destruct (IT_yok _ _ _ (HI t) y2 (nth_error_In _ _ H2)) as (_ & _ & _ & _ & _ & (m2 & t2 & Hm2 & Hn2) & _).
    split.
    - intros Heq. rewrite Hk, Heq in Hn1. specialize (Hre m1 t1 Hn1). lia.
    - exists m2, t2. split; [exact Hn2|]. specialize (Hre m2 t2 Hn2). lia.
  Qed.

  (** 4. COMPLETENESS: when the traversal of thread [t] (started by begin(), or by a successful find(k)) has
      reached end(), every key that was in the abstract set in every state since the first step of the
      traversal ([g_always], see [it_always_complete]) - and is greater than k for a traversal started by
      find(k) - has been yielded.  More generally, at any time all such keys up to the key of the current
      position have been yielded. *)
  Theorem it_complete_upto t k : g_trav st t = true -> in_start (ith st t) = false ->
    In k (g_always st t) -> above (g_lo st t) k -> (it_cur st t = 0 \/ k <= nkey b (it_cur st t)) ->
    In k (map y_key (g_yield st t)).
  Proof. destruct xinv_chain as (_ & _ & _ & _ & HI & _). intros H1 H2 H3 H4 H5. exact (IT_compl _ _ _ (HI t) H1 H2 k H3 H4 H5). Qed.

  Corollary it_complete t k : g_trav st t = true -> in_start (ith st t) = false -> it_cur st t = 0 ->
    In k (g_always st t) -> above (g_lo st t) k -> In k (map y_key (g_yield st t)).
  Proof. intros H1 H2 H3 H4 H5. apply it_complete_upto; auto. Qed.

  (** [g_always] only contains keys of the current abstract set *)
  Theorem it_always_abs t k : In k (g_always st t) -> In k (g_abs b).
  Proof. destruct xinv_chain as (_ & _ & _ & _ & _ & HA). apply HA. Qed.
End XTheorems.

(** * Step-level and trace-level theorems *)

Ltac xstep_cases Hst s :=
  unfold xstep in Hst;
  match type of Hst with context [xstep0 s ?a] =>
    let H0 := fresh "H0" in
    destruct (xstep0 s a) as [[?s0 ?e0]|] eqn:H0; [|discriminate Hst];
    injection Hst as <- <-;
    unfold xstep0 in H0;
    destruct a as [?t ?o | ?t];
    [ destruct o as [?o| |?k| | | |] | ];
    match type of H0 with
    | context [ith s ?t] =>
      destruct (ith s t) as [|?o| |?k ?key ?start|?k ?key ?start ?sv ?nx|?k ?key ?start ?sv ?cur|?k ?key ?start ?sv ?cur
                             |?k ?key ?start ?sv ?cur ?nx|?k ?key ?start ?sv ?cur ?nx ?w| |?nx| |?nx|?nx] eqn:?E
    end;
    cbv beta iota zeta in H0; try discriminate H0;
    try match type of H0 with context [match ?o with OBase _ => _ | OItB => _ | OItF _ => _ | OItN => _ | OItD => _ | OItE => _ | OItR => _ end] =>
      destruct o as [?o| |?k| | | |] end;
    try discriminate H0;
    unfold ifind_ret, lift in H0;
    repeat match type of H0 with
    | context [step (base s) ?a] => destruct (step (base s) a) as [[?b' ?e]|] eqn:?Hb
    | context [th (base s) ?t] => destruct (th (base s) t) eqn:?Eb
    | context [if ?c then _ else _] => destruct c eqn:?Hc
    | context [match ?k with KItF => _ | KItN _ => _ | KItE _ => _ end] => destruct k as [|?o|?o]
    end;
    try discriminate H0;
    injection H0 as <- <-
  end.

Definition starts_trav (s : xstate) (a : xaction) (u : nat) : Prop :=
  a = XStep u /\ (ith s u = IBegin OItB \/ exists k, ith s u = IBegin (OItF k)).

Lemma it_always_step s a s' es u : xstep s a = Some (s', es) ->
  (~ starts_trav s a u /\ g_start s' u = g_start s u /\
   g_always s' u = filter (fun k => memb k (g_abs (base s'))) (g_always s u)) \/
  (starts_trav s a u /\ g_start s' u = g_abs (base s) /\
   g_always s' u = filter (fun k => memb k (g_abs (base s'))) (g_abs (base s))).
Proof.
  intros Hst. xstep_cases Hst s; xprj.
  all: try (left; split; [unfold starts_trav; intros [Ha Hq]; try discriminate Ha; injection Ha as ->; rewrite E in Hq;
                          destruct Hq as [Hq | [? Hq]]; discriminate Hq | split; reflexivity]; fail).
  all: destruct (Nat.eq_dec u t) as [->|Hne];
    [right; split; [split; [reflexivity | rewrite E; eauto] | rewrite !upd_same; split; reflexivity]
    |left; split; [intros [Ha _]; injection Ha; congruence | rewrite !upd_other by exact Hne; split; reflexivity]].
Qed.

(** [trav_path u s0 l s]: thread [u] took the first step of [itb] / [itf] from [s0]; [l] lists the states of the
    execution after that step up to the current state [s] (the last element of [l]); [u] has not started
    another traversal in between.  The states of the traversal are [s0 :: l]. *)
Inductive trav_path (u : nat) (s0 : xstate) : list xstate -> xstate -> Prop :=
| tp_first s1 es : starts_trav s0 (XStep u) u -> xstep s0 (XStep u) = Some (s1, es) -> trav_path u s0 [s1] s1
| tp_next l s a s' es : trav_path u s0 l s -> ~ starts_trav s a u -> xstep s a = Some (s', es) ->
                        trav_path u s0 (l ++ [s']) s'.

Lemma trav_path_last u s0 l s : trav_path u s0 l s -> In s l.
Proof. destruct 1; [left; reflexivity | apply in_or_app; right; left; reflexivity]. Qed.

Lemma trav_path_reach u s0 l s : reach xinit xstep s0 -> trav_path u s0 l s -> reach xinit xstep s.
Proof. intros Hr H. induction H; eapply reach_step; eauto. Qed.

(** meaning of the ghosts [g_start] and [g_always]: [g_start] is the abstract set of the state in which the
    traversal took its first step, [g_always] is exactly the set of keys that were in the abstract set in
    EVERY state of the traversal *)
Theorem it_always_exact u s0 l s : trav_path u s0 l s ->
  g_start s u = g_abs (base s0) /\
  forall k, In k (g_always s u) <-> (forall s1, In s1 (s0 :: l) -> In k (g_abs (base s1))).
Proof.
  induction 1 as [s1 es Hs Hst | l s a s' es Hp IH Hns Hst].
  - destruct (it_always_step _ _ _ _ u Hst) as [(Hn & _) | (_ & E1 & E2)]; [contradiction|]. split; [exact E1|].
    intros k. rewrite E2, filter_In, memb_true. split.
    + intros [H1 H2] s [<- | [<- | []]]; assumption.
    + intros H. split; apply H; [left | right; left]; reflexivity.
  - destruct IH as [IH1 IH2].
    destruct (it_always_step _ _ _ _ u Hst) as [(_ & E1 & E2) | (Hs & _)]; [|contradiction]. split; [congruence|].
    intros k. rewrite E2, filter_In, memb_true, IH2. split.
    + intros [H1 H2] s1 [<- | Hin]; [apply H1; left; reflexivity|]. apply in_app_or in Hin.
      destruct Hin as [Hin | [<- | []]]; [apply H1; right; exact Hin | exact H2].
    + intros H. split; [|apply H; right; apply in_or_app; right; left; reflexivity].
      intros s1 [<- | Hin]; apply H; [left; reflexivity | right; apply in_or_app; left; exact Hin].
Qed.

Lemma start_step s s' es u : xstep s (XStep u) = Some (s', es) -> starts_trav s (XStep u) u ->
  g_yield s' u = [] /\ forall k key start sv cur nx w, ith s' u <> IF6 k key start sv cur nx w.
Proof.
  intros Hst [_ Hs]. xstep_cases Hst s; xprj; rewrite ?upd_same;
    try (exfalso; destruct Hs as [Hs | [? Hs]]; discriminate Hs); (split; [reflexivity | intros; discriminate]).
Qed.

Lemma yield_step s a s' es u : xstep s a = Some (s', es) -> ~ starts_trav s a u ->
  g_yield s' u = g_yield s u \/
  exists cur w, g_yield s' u = g_yield s u ++ [mkY (nkey (base s) cur) cur w (reachable (base s') cur) (length (g_lin (base s)))] /\
    (w = memb (nkey (base s) cur) (g_abs (base s)) \/ exists k key start sv nx, ith s u = IF6 k key start sv cur nx w).
Proof.
  intros Hst Hns. xstep_cases Hst s; xprj;
    (destruct (Nat.eq_dec u t) as [->|Hne]; [rewrite ?upd_same | rewrite ?upd_other by exact Hne]); try (left; reflexivity);
    try (exfalso; apply Hns; split; [reflexivity | rewrite E; eauto]; fail);
    unfold push_y;
    match goal with |- context [if ?c then _ else _] => destruct c end; try (left; reflexivity);
    right; eexists _, _; (split; [reflexivity|]); first [left; reflexivity | right; eauto 8].
Qed.

Lemma if6_step s a s' es u k key start sv cur nx : xstep s a = Some (s', es) ->
  ith s' u = IF6 k key start sv cur nx true ->
  ith s u = IF6 k key start sv cur nx true \/
  (ith s u = IF3 k key start sv cur /\ In (nkey (base s) cur) (g_abs (base s))).
Proof.
  intros Hst. xstep_cases Hst s; xprj;
    (destruct (Nat.eq_dec u t) as [->|Hne]; [rewrite ?upd_same | rewrite ?upd_other by exact Hne]); intros H;
    try (left; exact H); try discriminate H.
  injection H as <- <- <- <- <- <- Hw. right. split; [exact E | apply memb_true; exact Hw].
Qed.

Lemma xstep_key s a s' es : XInv s -> xstep s a = Some (s', es) ->
  forall x, x < nalloc (base s) -> nkey (base s') x = nkey (base s) x.
Proof.
  intros [[c (HG & HT & _)] _] Hst. xstep_cases Hst s; xprj; cbn [unlink_st mark_st nkey]; try (intros; reflexivity);
    destruct (base_step_ext _ _ _ _ c HG HT Hb) as (c' & l & _ & HW & _); exact (W_key _ _ _ _ HW).
Qed.

(** YIELDS WERE MEMBERS (true version).  Every recorded position of the traversal whose witness flag is
    true carries a key that was in the abstract set in some state of the traversal (between its first step
    and the yield).  By [it_yield_sound] the flag is false only for a node that had been erased before the
    iterator moved onto it; the full statement (without the flag) is false:
    [it_yield_was_member_refuted]. *)
Theorem it_yield_was_member u s0 l s : reach xinit xstep s0 -> trav_path u s0 l s ->
  forall y, In y (g_yield s u) -> y_wit y = true -> exists s1, In s1 (s0 :: l) /\ In (y_key y) (g_abs (base s1)).
Proof.
  intros Hr Hp.
  assert (H : (forall y, In y (g_yield s u) -> y_wit y = true -> exists s1, In s1 (s0 :: l) /\ In (y_key y) (g_abs (base s1))) /\
              (forall k key start sv cur nx, ith s u = IF6 k key start sv cur nx true ->
                 exists s1, In s1 (s0 :: l) /\ In (nkey (base s) cur) (g_abs (base s1)))); [|exact (proj1 H)].
  induction Hp as [s1 es Hs Hst | l s a s' es Hp IH Hns Hst].
  - destruct (start_step _ _ _ _ Hst Hs) as [E1 E2]. split; [rewrite E1; intros y []|].
    intros k key start sv cur nx E. exfalso. exact (E2 _ _ _ _ _ _ _ E).
  - destruct IH as [IH1 IH2].
    assert (Hrs : reach xinit xstep s) by (eapply trav_path_reach; eassumption).
    pose proof (XInv_reach s Hrs) as HXI.
    assert (Hsl : In s (s0 :: l)) by (right; eapply trav_path_last; eassumption).
    assert (Hinc : forall s1, In s1 (s0 :: l) -> In s1 (s0 :: l ++ [s'])).
    { intros s1 [<- | Hin]; [left; reflexivity | right; apply in_or_app; left; exact Hin]. }
    split.
    + intros y Hy Hw. destruct (yield_step _ _ _ _ u Hst Hns) as [E | (cur & w & E & Hprov)].
      * rewrite E in Hy. destruct (IH1 y Hy Hw) as (s1 & H1 & H2). exists s1. auto.
      * rewrite E in Hy. apply in_app_or in Hy. destruct Hy as [Hy | [<- | []]].
        -- destruct (IH1 y Hy Hw) as (s1 & H1 & H2). exists s1. auto.
        -- cbn [y_wit y_key] in *. subst w. destruct Hprov as [Hm | (k & key & start & sv & nx & E6)].
           ++ exists s. split; [apply Hinc; exact Hsl | apply memb_true; symmetry; exact Hm].
           ++ destruct (IH2 _ _ _ _ _ _ E6) as (s1 & H1 & H2). exists s1. auto.
    + intros k key start sv cur nx E6.
      assert (Hkey : oknode (base s) (0 :: chain (base s)) cur -> nkey (base s') cur = nkey (base s) cur).
      { intros Hon. apply (xstep_key _ _ _ _ HXI Hst).
        destruct (xinv_chain s Hrs) as (HG & _). apply (G_bound _ _ HG). exact (proj1 Hon). }
      destruct (xinv_chain s Hrs) as (_ & _ & _ & _ & HI & _). pose proof (IT_pc _ _ _ (HI u)) as Hpc.
      destruct (if6_step _ _ _ _ u _ _ _ _ _ _ Hst E6) as [E | [E Hin]]; rewrite E in Hpc; cbn [ITp] in Hpc.
      * destruct (IH2 _ _ _ _ _ _ E) as (s1 & H1 & H2). exists s1. split; [apply Hinc; exact H1|].
        rewrite Hkey; [exact H2 | exact (proj1 (proj2 (proj2 (proj2 Hpc))))].
      * exists s. split; [apply Hinc; exact Hsl|].
        rewrite Hkey; [exact Hin | exact (proj2 (proj2 (proj2 Hpc)))].
Qed.

(** ** erase(iterator) *)

Definition is_ite (c : ifk) : bool := match c with KItE _ => true | _ => false end.
(** thread is inside erase(iterator) *)
Definition in_erase (p : ipc) : bool :=
  match p with
  | IBegin OItE | X1 | X2 _ | X3 _ => true
  | IF1 c _ _ | IF2 c _ _ _ _ | IF3 c _ _ _ _ | IF4 c _ _ _ _ | IF5 c _ _ _ _ _ | IF6 c _ _ _ _ _ _ => is_ite c
  | _ => false
  end.

(** ERASE(ITERATOR) IS EXACT.  While thread [t] executes erase(iterator): the iterator variable is not
    changed before the call returns, and every step either leaves all marks, the abstract set and the
    linearization order unchanged, or it is the successful mark CAS (12) on exactly the node [cur] the
    iterator stands on: that node was unmarked and reachable, its key was in the abstract set, and the
    abstract set loses exactly that key.  In particular, if the node was already erased by another thread
    (X1 reads a marked pointer, or the mark CAS fails and sees a marked pointer) nothing changes. *)
Theorem it_erase_exact s t s' es : reach xinit xstep s -> xstep s (XStep t) = Some (s', es) ->
  in_erase (ith s t) = true ->
  let b := base s in let b' := base s' in let cur := it_cur s t in
  (ith s' t <> IIdle -> it_cur s' t = cur /\ it_sv s' t = it_sv s t /\ in_erase (ith s' t) = true) /\
  (((forall x, nmark b' x = nmark b x) /\ g_abs b' = g_abs b /\ g_lin b' = g_lin b) \/
   (exists nx, ith s t = X2 nx /\ ith s' t = X3 nx /\ cur <> 0 /\ nmark b cur = false /\ In cur (chain b) /\
      In (nkey b cur) (g_abs b) /\ g_abs b' = remk (nkey b cur) (g_abs b) /\
      g_lin b' = g_lin b ++ [LDel t (nkey b cur) cur] /\
      (forall x, nmark b' x = if x =? cur then true else nmark b x))).
Proof.
  intros Hr Hst Hie. destruct (xinv_chain s Hr) as (HG & _ & _ & _ & HI & _).
  pose proof (HI t) as Ht. pose proof (IT_pc _ _ _ Ht) as Hp.
  remember (XStep t) as a eqn:Ea.
  xstep_cases Hst s; try discriminate Ea; injection Ea as ->; rewrite E in Hie, Hp;
    cbn [in_erase is_ite] in Hie; try discriminate Hie; xprj; rewrite ?upd_same; cbn [in_erase is_ite];
    (split; [intros Hni; try (exfalso; apply Hni; reflexivity); auto|]);
    cbn [unlink_st mark_st nmark g_abs g_lin]; try (left; auto; fail).
  (* the successful mark CAS *)
  right. cbn [ITp] in Hp. destruct Hp as [Hnz _]. apply cond_true in Hc. destruct Hc as [Hnx Hm].
  destruct (IT_it _ _ _ Ht Hnz) as [_ Hcur].
  assert (Hcc : In (it_cur s t) (0 :: chain (base s))) by (eapply unmarked_in_chain; [exact HG | exact (proj1 Hcur) | exact Hm]).
  exists nx. split; [exact E|]. split; [reflexivity|]. split; [exact Hnz|]. split; [exact Hm|].
  split; [destruct Hcc as [Hcc | Hcc]; [congruence | exact Hcc]|].
  split; [apply (abs_in (base s) _ _ HG Hcc Hnz Hm)|]. split; [reflexivity|]. split; [reflexivity|]. intros x. reflexivity.
Qed.

(** the return of erase(iterator): the node [o] the iterator stood on is marked, unlinked from the chain and
    retired; the returned iterator is end() or stands on a node with a greater key, or on a DIFFERENT node with
    the same key (by [it_no_duplicate] such a node was linked by an insert linearized after the iterator had
    moved onto [o]).  "A node whose key is greater" is false: [it_erase_greater_refuted]. *)
Theorem it_erase_return s t s' es : reach xinit xstep s -> xstep s (XStep t) = Some (s', es) ->
  in_erase (ith s t) = true -> ith s' t = IIdle -> it_cur s t <> 0 ->
  let o := it_cur s t in let n := it_cur s' t in let b' := base s' in
  nmark b' o = true /\ ~ In o (chain b') /\ In o (g_retired b') /\
  In (ERet t (7 :: 1 :: nkey (base s) o :: pos_res (base s) n)) es /\
  (n = 0 \/ nkey b' o < nkey b' n \/ (nkey b' o = nkey b' n /\ n <> o)).
Proof.
  intros Hr Hst Hie Hidle Hnz. destruct (xinv_chain s Hr) as (HG & _ & _ & _ & HI & _).
  pose proof (HI t) as Ht. pose proof (IT_pc _ _ _ Ht) as Hp. destruct (IT_it _ _ _ Ht Hnz) as [Hsv Hcur].
  assert (Hret : forall b sv cur' key c, G b c -> base s = b -> In sv c -> nmark b sv = false -> nnext b sv = cur' ->
            (sv <> 0 -> nkey b sv < key) -> key = nkey b (it_cur s t) -> nmark b (it_cur s t) = true ->
            known b c (it_cur s t) ->
            (cur' <> 0 -> key <= nkey b cur' /\ cur' <> it_cur s t) ->
            ~ In (it_cur s t) c /\ In (it_cur s t) (g_retired b) /\
            (cur' = 0 \/ nkey b (it_cur s t) < nkey b cur' \/ (nkey b (it_cur s t) = nkey b cur' /\ cur' <> it_cur s t))).
  { intros b sv cur' key c HGb Eb Hsvc Hsvm Hsvn Hlo Hk Hom Hok Hc'.
    assert (Hnc : ~ In (it_cur s t) c).
    { intros Hoc. destruct (N.eq_dec cur' 0) as [Hz | Hcz].
      - apply (not_in_chain b c sv cur' key HGb Hsvc Hsvn Hlo) with (x := it_cur s t); auto. intros; contradiction.
      - destruct (Hc' Hcz) as [Hle Hne]. destruct (chain_nonzero b c sv cur' HGb Hsvc Hsvn Hcz) as [Hcc _].
        destruct (N.eq_dec key (nkey b cur')) as [Heq | Hneq].
        + apply Hne. apply (chain_key_inj b c); auto. congruence.
        + apply (not_in_chain b c sv cur' key HGb Hsvc Hsvn Hlo) with (x := it_cur s t); auto. intros _. lia. }
    split; [exact Hnc|]. split; [apply in_app_or in Hok; destruct Hok as [Hok | Hok]; [contradiction | exact Hok]|].
    destruct (N.eq_dec cur' 0) as [Hz | Hcz]; [left; exact Hz | right]. destruct (Hc' Hcz) as [Hle Hne]. rewrite <- Hk.
    destruct (N.eq_dec key (nkey b cur')) as [Heq | Hneq]; [right; auto | left; lia]. }
  remember (XStep t) as a eqn:Ea.
  xstep_cases Hst s; try discriminate Ea; injection Ea as ->; rewrite E in Hie, Hp;
    cbn [in_erase is_ite] in Hie; try discriminate Hie; xprj; cbn [set_ipc set_base move_it start_trav end_trav refresh base ith it_sv it_cur g_yield g_lo g_trav g_start g_always] in Hidle; rewrite ?upd_same in *;
    try discriminate Hidle; try contradiction; cbn [ITp ifk_ok] in Hp.
  - apply N.eqb_eq in Hc. contradiction.
  - (* IF2 returns null *)
    destruct Hp as ((Ho0 & Honz & Hom & Hk) & Hstart & Hsv' & _). apply negb_false_iff in Hc. apply cond_true in Hc. destruct Hc as [Hnx Hm].
    apply N.eqb_eq in Hc0. rewrite Hc0 in Hnx. rewrite Ho0 in *.
    assert (Hsvc : In sv (0 :: chain (base s))) by (eapply unmarked_in_chain; [exact HG | exact (proj1 Hsv') | exact Hm]).
    destruct (Hret (base s) sv 0 key _ HG eq_refl Hsvc Hm Hnx (proj2 Hsv') Hk Hom (proj1 Hcur)) as (H1 & H2 & H3); [intros; contradiction|].
    split; [exact Hom|]. split; [intros Hc; apply H1; right; exact Hc|]. split; [exact H2|].
    split; [right; left; reflexivity | left; reflexivity].
  - (* IF6 returns *)
    destruct Hp as ((Ho0 & Honz & Hom & Hk) & Hstart & Hsv' & Hcur' & _ & _ & Hnp). apply negb_false_iff in Hc. apply cond_true in Hc.
    destruct Hc as [Hnx Hm]. rewrite Ho0 in *. cbn [newpos] in Hnp.
    assert (Hsvc : In sv (0 :: chain (base s))) by (eapply unmarked_in_chain; [exact HG | exact (proj1 Hsv') | exact Hm]).
    apply N.ltb_ge in Hc0.
    destruct (Hret (base s) sv cur key _ HG eq_refl Hsvc Hm Hnx (proj2 Hsv') Hk Hom (proj1 Hcur)) as (H1 & H2 & H3); [intros _; split; [exact Hc0 | exact (proj1 Hnp)]|].
    split; [exact Hom|]. split; [intros Hc; apply H1; right; exact Hc|]. split; [exact H2|].
    split; [right; left; reflexivity | exact H3].
  - (* IF6 returns (key found) *)
    destruct Hp as ((Ho0 & Honz & Hom & Hk) & Hstart & Hsv' & Hcur' & _ & _ & Hnp). apply negb_false_iff in Hc. apply cond_true in Hc.
    destruct Hc as [Hnx Hm]. rewrite Ho0 in *. cbn [newpos] in Hnp.
    assert (Hsvc : In sv (0 :: chain (base s))) by (eapply unmarked_in_chain; [exact HG | exact (proj1 Hsv') | exact Hm]).
    apply N.ltb_ge in Hc0.
    destruct (Hret (base s) sv cur key _ HG eq_refl Hsvc Hm Hnx (proj2 Hsv') Hk Hom (proj1 Hcur)) as (H1 & H2 & H3); [intros _; split; [exact Hc0 | exact (proj1 Hnp)]|].
    split; [exact Hom|]. split; [intros Hc; apply H1; right; exact Hc|]. split; [exact H2|].
    split; [right; left; reflexivity | exact H3].
  - (* X3: the unlink CAS succeeds *)
    destruct Hp as (_ & Hm & Hn). apply cond_true in Hc. destruct Hc as [Hsvn Hsvm].
    set (sv := it_sv s t) in *. set (cur := it_cur s t) in *. set (b := base s) in *.
    assert (Hsvc : In sv (0 :: chain b)) by (eapply unmarked_in_chain; [exact HG | exact (proj1 Hsv) | exact Hsvm]).
    destruct (unlink_step b _ (unlink_st b sv cur nx) sv cur nx HG Hsvc Hsvm Hsvn Hnz Hm Hn
                eq_refl eq_refl eq_refl eq_refl eq_refl eq_refl eq_refl) as (c' & HG' & _ & Hcc & Hnc & _ & _).
    rewrite (chain_eq _ _ HG') in Hnc. cbn [unlink_st nmark nkey g_retired].
    split; [exact Hm|]. split; [intros Hc; apply Hnc; right; exact Hc|]. split; [apply in_or_app; right; left; reflexivity|].
    split; [right; right; left; reflexivity|].
    destruct (N.eq_dec nx 0) as [Hz|Hxz]; [left; exact Hz | right; left].
    destruct (chain_nonzero b _ cur nx HG Hcc Hn Hxz) as [_ [_ [Hx | Hx]]]; [contradiction | exact Hx].
Qed.

(** ** memory accesses of the iterator operations *)

Definition loc_block (l : loc) : option N := match l with LHeap x _ => Some x | LNamed _ _ => None end.
(** the heap block accessed by an event *)
Definition ev_block (e : ev) : option N :=
  match e with
  | ELoad _ l _ _ | EStore _ l _ _ | ERmw _ l _ _ _ | ECasF _ l _ _ _ _ => loc_block l
  | _ => None
  end.

Lemma L_next_block x : loc_block (L_next x) = Some x.
Proof. unfold L_next. destruct (N.eqb_spec x 0) as [->|H]; reflexivity. Qed.

(** every atomic access of an iterator operation goes to the next field of a node held by the iterator
    state of the thread (block 0 is the container itself) *)
Lemma it_access_held s t s' es : xstep s (XStep t) = Some (s', es) -> ith s t <> IIdle ->
  forall e x, In e es -> ev_block e = Some x -> In x (iheld s t) \/ x = 0.
Proof.
  intros Hst Hni. remember (XStep t) as a eqn:Ea.
  xstep_cases Hst s; try discriminate Ea; injection Ea as ->; try contradiction; intros e0 x Hin Hb; unfold iheld; rewrite E;
    cbn [In app] in Hin;
    repeat match type of Hin with _ \/ _ => destruct Hin as [Hin | Hin] end; try contradiction; subst e0;
    cbn [ev_block] in Hb; try discriminate Hb; rewrite L_next_block in Hb; injection Hb as <-; cbn [In]; auto 8.
Qed.

(** NEVER TOUCHES RECLAIMED MEMORY: every atomic access of an iterator operation goes to a block that was
    allocated and is the container, a node reachable from head, or a retired node (retired nodes are never
    freed in the GC reclaimer instance - the guarantee of C01 for guarded nodes, see [it_node_safe]) *)
Theorem it_access_safe s t s' es : reach xinit xstep s -> xstep s (XStep t) = Some (s', es) -> ith s t <> IIdle ->
  forall e x, In e es -> ev_block e = Some x ->
    x < nalloc (base s) /\ (x = 0 \/ In x (chain (base s)) \/ In x (g_retired (base s))).
Proof.
  intros Hr Hst Hni e x Hin Hb. destruct (it_access_held _ _ _ _ Hst Hni e x Hin Hb) as [Hh | ->].
  - exact (it_node_safe s Hr t x Hh).
  - split; [|left; reflexivity]. destruct (xinv_chain s Hr) as (HG & _). apply (G_bound _ _ HG), known_zero, HG.
Qed.

(** ** the traversal ghosts [g_lo], [g_trav] and the trace-level form of completeness *)

Lemma lo_step s a s' es u : xstep s a = Some (s', es) ->
  (~ starts_trav s a u /\ g_lo s' u = g_lo s u /\ (g_trav s' u = true -> g_trav s u = true)) \/
  (starts_trav s a u /\ g_trav s' u = true /\
   ((ith s u = IBegin OItB /\ g_lo s' u = None) \/ (exists k, ith s u = IBegin (OItF k) /\ g_lo s' u = Some k))).
Proof.
  intros Hst. xstep_cases Hst s; xprj.
  all: try (left; split; [unfold starts_trav; intros [Ha Hq]; try discriminate Ha; injection Ha as ->; rewrite E in Hq;
                          destruct Hq as [Hq | [? Hq]]; discriminate Hq
                         | split; [reflexivity|];
                           try (destruct (Nat.eq_dec u t) as [->|Hne]; [rewrite ?upd_same | rewrite ?upd_other by exact Hne]);
                           intros Hq; first [exact Hq | discriminate Hq]]; fail).
  all: destruct (Nat.eq_dec u t) as [->|Hne];
    [right; split; [split; [reflexivity | rewrite E; eauto]|]; rewrite !upd_same; split; [reflexivity | first [left; split; [exact E | reflexivity] | right; eauto]]
    |left; split; [intros [Ha _]; injection Ha; congruence | rewrite !upd_other by exact Hne; split; [reflexivity | auto]]].
Qed.

(** [g_lo] records how the traversal was started; if [g_trav] is (still) true the traversal was not abandoned
    by reset() and was not started by a find that did not find its key *)
Lemma trav_lo u s0 l s : trav_path u s0 l s ->
  (ith s0 u = IBegin OItB -> g_lo s u = None) /\ (forall k, ith s0 u = IBegin (OItF k) -> g_lo s u = Some k).
Proof.
  induction 1 as [s1 es Hs Hst | l s a s' es Hp IH Hns Hst].
  - destruct (lo_step _ _ _ _ u Hst) as [(Hn & _) | (_ & _ & [[E1 E2] | (k & E1 & E2)])]; [contradiction | |]; split; intros; congruence.
  - destruct (lo_step _ _ _ _ u Hst) as [(_ & E1 & _) | (Ha & _)]; [rewrite E1; exact IH | contradiction].
Qed.

(** COMPLETENESS, trace level: take any execution and any traversal of thread [u] (first step of begin() /
    find(k) taken from [s0], later states [l], current state [s]).  If the traversal was not abandoned
    ([g_trav]), the thread is not inside the starting call, and the iterator equals end(), then every key
    that was in the abstract set in EVERY state of the traversal - and is greater than k if the traversal
    was started by a (successful) find(k) - is among the keys of the recorded positions. *)
Theorem it_complete_trace u s0 l s : reach xinit xstep s0 -> trav_path u s0 l s ->
  g_trav s u = true -> in_start (ith s u) = false -> it_cur s u = 0 ->
  forall k, (forall s1, In s1 (s0 :: l) -> In k (g_abs (base s1))) ->
    (forall k0, ith s0 u = IBegin (OItF k0) -> k0 < k) ->
    In k (map y_key (g_yield s u)).
Proof.
  intros Hr Hp Ht Hs Hc k Hall Hlo.
  assert (Hrs : reach xinit xstep s) by (eapply trav_path_reach; eassumption).
  apply (it_complete s Hrs u k Ht Hs Hc).
  - apply (proj2 (it_always_exact u s0 l s Hp) k). exact Hall.
  - destruct (trav_lo u s0 l s Hp) as [H1 H2].
    assert (Hst : starts_trav s0 (XStep u) u) by (clear -Hp; induction Hp; assumption).
    destruct Hst as [_ [E | [k0 E]]]; [rewrite (H1 E); exact I | rewrite (H2 k0 E); apply Hlo; exact E].
Qed.

(** operator*: no atomic access; the result is the key of the node the iterator stands on, which is the key
    of the last recorded position ([it_position]) *)
Theorem it_deref s t : ith s t = IBegin OItD ->
  exists s', xstep s (XStep t) = Some (s', [EStart t 6 []; ERet t (6 :: pos_res (base s) (it_cur s t))]) /\
             ith s' t = IIdle /\ it_cur s' t = it_cur s t /\ base s' = base s.
Proof.
  intros E. unfold xstep, xstep0. rewrite E. eexists. split; [reflexivity|]. xprj. rewrite upd_same. auto.
Qed.

(** * Solo termination of the iterator operations (C16) *)

(** a thread executes either a list operation of HmlDefs or an iterator operation *)
Definition Excl (s : xstate) : Prop :=
  forall t, (ith s t = IIdle \/ th (base s) t = Idle) /\ (forall o, ith s t <> IBegin (OBase o)).

Lemma base_step_th b a b' e u : step b a = Some (b', e) -> (forall o, a <> Start u o) -> a <> Step u -> th b' u = th b u.
Proof.
  intros Hst H1 H2. step_cases Hst b; prj2; try reflexivity;
    (destruct (Nat.eq_dec u t) as [->|Hne]; [exfalso; first [apply (H1 o); reflexivity | apply H2; reflexivity] | apply upd_other; exact Hne]).
Qed.

Lemma Excl_step s a s' es : Excl s -> xstep s a = Some (s', es) -> Excl s'.
Proof.
  intros HE Hst u. destruct (HE u) as [H1 H2].
  xstep_cases Hst s; xprj; cbn [unlink_st mark_st th];
    try (destruct (Nat.eq_dec u t) as [->|Hne]; [rewrite ?upd_same | rewrite ?upd_other by exact Hne]);
    try (split; [auto | intros; first [discriminate | apply H2]]; fail).
  all: try (split; [right; destruct H1 as [H1|H1]; [rewrite E in H1; discriminate H1 | exact H1] | intros; discriminate]; fail).
  all: split; [|exact H2]; destruct H1 as [H1|H1]; [left; exact H1 | right];
    rewrite (base_step_th _ _ _ _ u Hb); [exact H1 | intros o' Hq; first [discriminate Hq | injection Hq; congruence]
                                          | intros Hq; first [discriminate Hq | injection Hq; congruence]].
Qed.

Lemma Excl_reach s : reach xinit xstep s -> Excl s.
Proof.
  apply inv_rule; [|exact Excl_step]. intros t. split; [left; reflexivity | intros o; discriminate].
Qed.

Definition xidle (s : xstate) (t : nat) : bool :=
  match ith s t, th (base s) t with IIdle, Idle => true | _, _ => false end.

(** number of chain nodes behind [sv] (all of them for the head sentinel 0): the chain is sorted *)
Definition gtk (b : state) (sv x : N) : bool := (sv =? 0) || (nkey b sv <? nkey b x).
Definition cnt (b : state) (sv : N) : nat := length (filter (gtk b sv) (chain b)).
Definition valid (b : state) (sv nx : N) : bool := (nnext b sv =? nx) && negb (nmark b sv).

(** cost of [find] from its program points: a walk from the valid position [sv] costs at most 4 steps per
    node behind [sv] plus 1; a stale position costs the steps to the retry and a walk from [start] or from head *)
Definition walk_c (b : state) (sv : N) : nat := 4 * cnt b sv + 1.
Definition full (b : state) : nat := walk_c b 0.
Definition c_if1 (b : state) (start : N) : nat := if nmark b start then 2 + full b else 1 + walk_c b start.
Definition c_if2 (b : state) (start sv nx : N) : nat := if valid b sv nx then walk_c b sv else 1 + c_if1 b start.
Definition c_if5 (b : state) (start sv cur : N) : nat :=
  if valid b sv cur then 1 + (4 * (cnt b sv - 1) + 1) else 1 + c_if1 b start.
Definition c_if6 (b : state) (key start sv cur nx : N) : nat :=
  if valid b sv cur then (if nkey b cur <? key then 1 + c_if2 b start cur nx else 1) else 1 + c_if1 b start.
Definition c_if3 (b : state) (key start sv cur : N) : nat :=
  if nmark b cur then 2 + c_if5 b start sv cur else 1 + c_if6 b key start sv cur (nnext b cur).
Definition c_n1 (b : state) (sv cur : N) : nat := if nmark b cur then 1 + c_if1 b sv else 2.
Definition c_x3 (b : state) (sv cur : N) : nat := if valid b sv cur then 1 else 1 + c_if1 b sv.
Definition c_x2 (b : state) (sv cur nx : N) : nat :=
  if valid b cur nx then 1 + c_x3 b sv cur else if nmark b cur then 1 + c_x3 b sv cur else 2 + c_x3 b sv cur.

Definition icost (b : state) (sv cur : N) (p : ipc) : nat :=
  match p with
  | IIdle => 0
  | IBegin (OBase _) => 0
  | IBegin OItB => 2
  | IBegin (OItF _) => 1 + c_if1 b 0
  | IBegin OItN => if cur =? 0 then 1 else 1 + c_n1 b sv cur
  | IBegin OItD | IBegin OItR => 1
  | IBegin OItE => if cur =? 0 then 1 else 2 + (if nmark b cur then c_x3 b sv cur else c_x2 b sv cur (nnext b cur))
  | B1 => 1
  | IF1 _ _ start => c_if1 b start
  | IF2 _ _ start sv nx => c_if2 b start sv nx
  | IF3 _ key start sv cur => c_if3 b key start sv cur
  | IF4 _ _ start sv cur => 1 + c_if5 b start sv cur
  | IF5 _ _ start sv cur _ => c_if5 b start sv cur
  | IF6 _ key start sv cur nx _ => c_if6 b key start sv cur nx
  | N1 => c_n1 b sv cur
  | N2 nx => if valid b cur nx then 1 else 1 + c_n1 b sv cur
  | X1 => 1 + (if nmark b cur then c_x3 b sv cur else c_x2 b sv cur (nnext b cur))
  | X2 nx => c_x2 b sv cur nx
  | X3 _ => c_x3 b sv cur
  end.

Definition it_cost (s : xstate) (t : nat) : nat := icost (base s) (it_sv s t) (it_cur s t) (ith s t).

Lemma filter_len_le {X} (f : X -> bool) (l : list X) : (length (filter f l) <= length l)%nat.
Proof. induction l as [|a l IH]; cbn [filter length]; [lia|]. destruct (f a); cbn [length]; lia. Qed.

Lemma cnt_le b sv : (cnt b sv <= length (chain b))%nat.
Proof. unfold cnt. apply filter_len_le. Qed.

Lemma cnt_zero b : cnt b 0 = length (chain b).
Proof.
  unfold cnt. induction (chain b) as [|a l IH]; cbn [filter length]; [reflexivity|].
  unfold gtk at 1. rewrite N.eqb_refl. cbn [orb length]. rewrite IH. reflexivity.
Qed.

(** the successor of a chain node has fewer nodes behind it *)
Lemma cnt_next b c sv nx : G b c -> In sv c -> nnext b sv = nx -> nx <> 0 -> (cnt b nx < cnt b sv)%nat.
Proof.
  intros HG Hsv Hn Hnz. destruct (chain_nonzero b c sv nx HG Hsv Hn Hnz) as [Hin [_ HR]].
  rewrite (chain_eq _ _ HG) in Hin. destruct Hin as [Hin | Hin]; [congruence|].
  pose proof (G_nodup _ _ HG) as HN. rewrite (chain_eq _ _ HG) in HN. apply NoDup_cons_iff in HN. destruct HN as [_ HN'].
  unfold cnt.
  assert (Hlen : (length (nx :: filter (gtk b nx) (chain b)) <= length (filter (gtk b sv) (chain b)))%nat).
  { apply NoDup_incl_length.
    - constructor; [|apply NoDup_filter; exact HN']. intros Hc. apply filter_In in Hc. destruct Hc as [_ Hc].
      unfold gtk in Hc. apply orb_prop in Hc. destruct Hc as [Hc | Hc]; [apply N.eqb_eq in Hc; contradiction | apply N.ltb_lt in Hc; lia].
    - intros x [<- | Hx].
      + apply filter_In. split; [exact Hin|]. unfold gtk. destruct HR as [-> | HR]; [reflexivity|].
        apply orb_true_intro. right. apply N.ltb_lt. exact HR.
      + apply filter_In in Hx. destruct Hx as [Hx Hg]. apply filter_In. split; [exact Hx|]. unfold gtk in *.
        apply orb_prop in Hg. destruct Hg as [Hg | Hg]; [apply N.eqb_eq in Hg; contradiction|]. apply N.ltb_lt in Hg.
        destruct HR as [-> | HR]; [reflexivity|]. apply orb_true_intro. right. apply N.ltb_lt. lia. }
  cbn [length] in Hlen. lia.
Qed.

(** unlinking the successor of [sv] leaves fewer nodes behind [sv] *)
Lemma cnt_unlink b c sv cur nx : G b c -> In sv c -> nmark b sv = false -> nnext b sv = cur -> cur <> 0 ->
  nmark b cur = true -> nnext b cur = nx -> (cnt (unlink_st b sv cur nx) sv < cnt b sv)%nat.
Proof.
  intros HG Hsv Hsvm Hsvn Hcnz Hcm Hcn.
  destruct (unlink_step b c (unlink_st b sv cur nx) sv cur nx HG Hsv Hsvm Hsvn Hcnz Hcm Hcn
              eq_refl eq_refl eq_refl eq_refl eq_refl eq_refl eq_refl) as (c' & HG' & _ & Hcc & Hnc & _ & Hin).
  destruct (chain_nonzero b c sv cur HG Hsv Hsvn Hcnz) as [_ [_ HR]].
  set (b' := unlink_st b sv cur nx) in *.
  assert (Hsub : forall x, In x (chain b') -> In x (chain b)).
  { intros x Hx. assert (Hxz : x <> 0) by (apply (G_tail_nonzero b' c' x HG'); rewrite (chain_eq _ _ HG'); exact Hx).
    assert (Hxc : In x c) by (apply Hin; right; rewrite (chain_eq _ _ HG'); right; exact Hx).
    rewrite (chain_eq _ _ HG) in Hxc. destruct Hxc as [Hxc | Hxc]; [congruence | exact Hxc]. }
  pose proof (G_nodup _ _ HG') as HN. rewrite (chain_eq _ _ HG') in HN. apply NoDup_cons_iff in HN. destruct HN as [_ HN'].
  unfold cnt. change (gtk b' sv) with (gtk b sv).
  assert (Hlen : (length (cur :: filter (gtk b sv) (chain b')) <= length (filter (gtk b sv) (chain b)))%nat).
  { apply NoDup_incl_length.
    - constructor; [|apply NoDup_filter; exact HN']. intros Hc. apply filter_In in Hc. destruct Hc as [Hc _].
      apply Hnc. rewrite (chain_eq _ _ HG'). right. exact Hc.
    - intros x [<- | Hx].
      + apply filter_In. split.
        * rewrite (chain_eq _ _ HG) in Hcc. destruct Hcc as [Hcc | Hcc]; [congruence | exact Hcc].
        * unfold gtk. destruct HR as [-> | HR]; [reflexivity|]. apply orb_true_intro. right. apply N.ltb_lt. exact HR.
      + apply filter_In in Hx. destruct Hx as [Hx Hg]. apply filter_In. split; [apply Hsub; exact Hx | exact Hg]. }
  cbn [length] in Hlen. lia.
Qed.

Ltac fin := eexists _, _; split; [reflexivity|]; unfold it_cost; xprj; rewrite ?upd_same; cbn [icost].

Lemma valid_true b sv nx : valid b sv nx = true -> nnext b sv = nx /\ nmark b sv = false.
Proof. apply cond_true. Qed.

Lemma it_solo_step s t : reach xinit xstep s -> ith s t <> IIdle ->
  exists s' es, xstep s (XStep t) = Some (s', es) /\ (it_cost s' t < it_cost s t)%nat.
Proof.
  intros Hr Hni. destruct (xinv_chain s Hr) as (HG & _ & _ & _ & HI & _).
  pose proof (HI t) as Ht. pose proof (IT_pc _ _ _ Ht) as Hp. destruct (Excl_reach s Hr t) as [_ Hexc].
  assert (Hcost : it_cost s t = icost (base s) (it_sv s t) (it_cur s t) (ith s t)) by reflexivity.
  rewrite Hcost. clear Hcost. unfold xstep, xstep0.
  destruct (ith s t) as [|o| |k key start|k key start sv nx|k key start sv cur|k key start sv cur|k key start sv cur nx
                          |k key start sv cur nx w| |nx| |nx|nx] eqn:E; cbn [ITp] in Hp; cbv beta iota zeta; cbn [icost].
  - contradiction.
  - destruct o as [o| |k| | | |].
    + exfalso. exact (Hexc o eq_refl).
    + fin. lia.
    + fin. lia.
    + destruct (it_cur s t =? 0); fin; lia.
    + fin. lia.
    + destruct (it_cur s t =? 0); fin; lia.
    + fin. lia.
  - fin. lia.
  - (* IF1 *) unfold c_if1. destruct (nmark (base s) start) eqn:Hm; fin.
    + unfold c_if1. rewrite (G_mark0 _ _ HG). unfold full. lia.
    + unfold c_if2, valid. rewrite N.eqb_refl, Hm. cbn [andb negb]. lia.
  - (* IF2 *) destruct Hp as (_ & _ & Hsv & _). unfold c_if2. fold (valid (base s) sv nx).
    destruct (valid (base s) sv nx) eqn:Hv; cbn [negb].
    + destruct (valid_true _ _ _ Hv) as [Hnx Hm].
      assert (Hsvc : In sv (0 :: chain (base s))) by (eapply unmarked_in_chain; [exact HG | exact (proj1 Hsv) | exact Hm]).
      destruct (N.eqb_spec nx 0) as [Hz|Hz].
      * unfold ifind_ret. destruct k; fin; unfold walk_c; lia.
      * fin. pose proof (cnt_next _ _ sv nx HG Hsvc Hnx Hz) as Hlt. unfold c_if3, c_if5, c_if6, c_if2, walk_c. rewrite Hv.
        destruct (nmark (base s) nx) eqn:Hmx; [lia|].
        destruct (nkey (base s) nx <? key); [|lia]. unfold valid. rewrite N.eqb_refl, Hmx. cbn [andb negb]. lia.
    + fin. lia.
  - (* IF3 *) unfold c_if3. destruct (nmark (base s) cur) eqn:Hm; fin; lia.
  - (* IF4 *) fin. lia.
  - (* IF5 *) destruct Hp as (_ & _ & Hsv & Hcur & Hm & Hn). unfold c_if5. fold (valid (base s) sv cur).
    destruct (valid (base s) sv cur) eqn:Hv.
    + destruct (valid_true _ _ _ Hv) as [Hnx Hsvm].
      assert (Hsvc : In sv (0 :: chain (base s))) by (eapply unmarked_in_chain; [exact HG | exact (proj1 Hsv) | exact Hsvm]).
      fin. pose proof (cnt_unlink _ _ sv cur nx HG Hsvc Hsvm Hnx (proj2 Hcur) Hm Hn) as Hlt.
      unfold c_if2, valid, walk_c. cbn [unlink_st nnext nmark]. rewrite setf_same, N.eqb_refl, Hsvm. cbn [andb negb].
      change (mkSt (nkey (base s)) (setf (nnext (base s)) sv nx) (nmark (base s)) (nalloc (base s)) (th (base s))
                   (g_abs (base s)) (g_lin (base s)) (g_lp (base s)) (g_hist (base s)) (g_retired (base s) ++ [cur]))
        with (unlink_st (base s) sv cur nx). lia.
    + fin. lia.
  - (* IF6 *) unfold c_if6. fold (valid (base s) sv cur). destruct (valid (base s) sv cur) eqn:Hv; cbn [negb].
    + destruct (nkey (base s) cur <? key); [fin; lia|]. unfold ifind_ret. destruct k; [destruct (nkey (base s) cur =? key)|..]; fin; lia.
    + fin. lia.
  - (* N1 *) unfold c_n1. destruct (nmark (base s) (it_cur s t)) eqn:Hm; fin; [lia|].
    unfold valid. rewrite N.eqb_refl, Hm. cbn [andb negb]. lia.
  - (* N2 *) fold (valid (base s) (it_cur s t) nx). destruct (valid (base s) (it_cur s t) nx); fin; lia.
  - (* X1 *) destruct (nmark (base s) (it_cur s t)) eqn:Hm; fin; lia.
  - (* X2 *) destruct Hp as [Hnz _]. destruct (IT_it _ _ _ Ht Hnz) as [Hsv _].
    unfold c_x2. fold (valid (base s) (it_cur s t) nx). destruct (valid (base s) (it_cur s t) nx) eqn:Hv.
    + fin. assert (Hne : it_sv s t <> it_cur s t).
      { intros Heq. destruct (N.eq_dec (it_sv s t) 0) as [Hz|Hz]; [congruence|]. pose proof (proj2 Hsv Hz). rewrite Heq in *. lia. }
      assert (Hx : c_x3 (mark_st (base s) t (it_cur s t)) (it_sv s t) (it_cur s t) = c_x3 (base s) (it_sv s t) (it_cur s t)).
      { unfold c_x3, c_if1, valid. cbn [mark_st nnext nmark]. rewrite (setf_other _ _ _ _ Hne). reflexivity. }
      rewrite Hx. lia.
    + destruct (nmark (base s) (it_cur s t)) eqn:Hm; fin; [lia|].
      unfold c_x2, valid. rewrite N.eqb_refl, Hm. cbn [andb negb]. lia.
  - (* X3 *) unfold c_x3. fold (valid (base s) (it_sv s t) (it_cur s t)).
    destruct (valid (base s) (it_sv s t) (it_cur s t)); fin; lia.
Qed.

Lemma it_step_th s t s' es : xstep s (XStep t) = Some (s', es) -> ith s t <> IIdle -> th (base s') t = th (base s) t.
Proof.
  intros Hst Hni. remember (XStep t) as a eqn:Ea.
  xstep_cases Hst s; try discriminate Ea; injection Ea as ->; try contradiction; xprj; cbn [unlink_st mark_st th]; reflexivity.
Qed.

(** SOLO TERMINATION (C16): from every reachable state, a thread that is inside an iterator operation
    (begin, find, ++, *, reset, erase(iterator)) and runs alone finishes the operation within [it_cost]
    steps; any number of other threads may be stopped anywhere inside their operations. *)
Theorem it_solo s t : reach xinit xstep s -> th (base s) t = Idle ->
  finishes_within xstep XStep xidle t (it_cost s t) s.
Proof.
  intros Hr Hb.
  apply (finishes_by_measure _ _ _ xstep XStep xidle (fun s => reach xinit xstep s /\ th (base s) t = Idle)
           (fun s => it_cost s t) t); [|split; assumption].
  intros s0 [Hr0 Hb0] Hi0.
  assert (Hni : ith s0 t <> IIdle).
  { intros Hc. unfold xidle in Hi0. rewrite Hc, Hb0 in Hi0. discriminate. }
  destruct (it_solo_step s0 t Hr0 Hni) as (s' & es & Hst & Hlt). exists s', es. split; [exact Hst|]. split; [|exact Hlt].
  split; [eapply reach_step; eassumption|]. rewrite (it_step_th _ _ _ _ Hst Hni). exact Hb0.
Qed.

Lemma it_cost_le s t : (it_cost s t <= 4 * length (chain (base s)) + 8)%nat.
Proof.
  unfold it_cost. set (b := base s). set (L := length (chain b)).
  assert (Hw : forall x, (walk_c b x <= 4 * L + 1)%nat) by (intros x; unfold walk_c; pose proof (cnt_le b x); subst L; lia).
  assert (Hf : (full b <= 4 * L + 1)%nat) by apply Hw.
  assert (H1 : forall x, (c_if1 b x <= 4 * L + 3)%nat).
  { intros x. unfold c_if1. pose proof (Hw x). destruct (nmark b x); lia. }
  assert (H2 : forall st sv nx, (c_if2 b st sv nx <= 4 * L + 4)%nat).
  { intros st sv nx. unfold c_if2. pose proof (Hw sv). pose proof (H1 st). destruct (valid b sv nx); lia. }
  assert (H5 : forall st sv cur, (c_if5 b st sv cur <= 4 * L + 4)%nat).
  { intros st sv cur. unfold c_if5. pose proof (cnt_le b sv). pose proof (H1 st). fold L in H. destruct (valid b sv cur); lia. }
  assert (H6 : forall key st sv cur nx, (c_if6 b key st sv cur nx <= 4 * L + 5)%nat).
  { intros key st sv cur nx. unfold c_if6. pose proof (H2 st cur nx). pose proof (H1 st).
    destruct (valid b sv cur); [destruct (nkey b cur <? key)|]; lia. }
  assert (H3 : forall key st sv cur, (c_if3 b key st sv cur <= 4 * L + 6)%nat).
  { intros key st sv cur. unfold c_if3. pose proof (H5 st sv cur). pose proof (H6 key st sv cur (nnext b cur)). destruct (nmark b cur); lia. }
  assert (Hn : forall sv cur, (c_n1 b sv cur <= 4 * L + 4)%nat).
  { intros sv cur. unfold c_n1. pose proof (H1 sv). destruct (nmark b cur); lia. }
  assert (Hx3 : forall sv cur, (c_x3 b sv cur <= 4 * L + 4)%nat).
  { intros sv cur. unfold c_x3. pose proof (H1 sv). destruct (valid b sv cur); lia. }
  assert (Hx2 : forall sv cur nx, (c_x2 b sv cur nx <= 4 * L + 6)%nat).
  { intros sv cur nx. unfold c_x2. pose proof (Hx3 sv cur). destruct (valid b cur nx); [lia|]. destruct (nmark b cur); lia. }
  destruct (ith s t) as [|o| |k key start|k key start sv nx|k key start sv cur|k key start sv cur|k key start sv cur nx
                          |k key start sv cur nx w| |nx| |nx|nx]; cbn [icost]; try lia.
  - destruct o as [o| |k| | | |]; try lia.
    + pose proof (H1 0). lia.
    + pose proof (Hn (it_sv s t) (it_cur s t)). destruct (_ =? 0); lia.
    + pose proof (Hx3 (it_sv s t) (it_cur s t)). pose proof (Hx2 (it_sv s t) (it_cur s t) (nnext b (it_cur s t))).
      destruct (_ =? 0); [lia|]. destruct (nmark b (it_cur s t)); lia.
  - pose proof (H1 start). lia.
  - pose proof (H2 start sv nx). lia.
  - pose proof (H3 key start sv cur). lia.
  - pose proof (H5 start sv cur). lia.
  - pose proof (H5 start sv cur). lia.
  - pose proof (H6 key start sv cur nx). lia.
  - pose proof (Hn (it_sv s t) (it_cur s t)). lia.
  - pose proof (Hn (it_sv s t) (it_cur s t)). destruct (valid b (it_cur s t) nx); lia.
  - pose proof (Hx3 (it_sv s t) (it_cur s t)). pose proof (Hx2 (it_sv s t) (it_cur s t) (nnext b (it_cur s t))).
    destruct (nmark b (it_cur s t)); lia.
  - pose proof (Hx2 (it_sv s t) (it_cur s t) nx). lia.
  - pose proof (Hx3 (it_sv s t) (it_cur s t)). lia.
Qed.

(** explicit bound: 4 steps per node reachable from head, plus 8 *)
Corollary it_solo_bound s t : reach xinit xstep s -> th (base s) t = Idle ->
  finishes_within xstep XStep xidle t (4 * length (chain (base s)) + 8) s.
Proof. intros Hr Hb. eapply finishes_within_mono; [apply it_cost_le | apply it_solo; assumption]. Qed.

Corollary it_never_stuck s t : reach xinit xstep s -> th (base s) t = Idle -> never_stuck xstep XStep xidle t s.
Proof. intros Hr Hb. eapply finishes_never_stuck. apply it_solo; assumption. Qed.

(** operator++ called by an idle thread: 3 steps when the node the iterator stands on is not marked (or 1 step
    on end()), otherwise at most 4 steps per node reachable from head plus 5 *)
Theorem itn_solo_start s t s' es : reach xinit xstep s -> xstep s (XStart t OItN) = Some (s', es) ->
  finishes_within xstep XStep xidle t
    (if it_cur s t =? 0 then 1 else if nmark (base s) (it_cur s t) then 4 * length (chain (base s)) + 5 else 3) s'.
Proof.
  intros Hr Hst. assert (Hr' : reach xinit xstep s') by (eapply reach_step; eassumption).
  assert (Hs : th (base s) t = Idle /\ s' = refresh (set_ipc s t (IBegin OItN))).
  { unfold xstep, xstep0 in Hst. destruct (ith s t); try discriminate. destruct (th (base s) t); try discriminate.
    injection Hst as <- _. auto. }
  destruct Hs as [Hb ->]. eapply finishes_within_mono; [|apply it_solo; [exact Hr' | exact Hb]].
  unfold it_cost. xprj. rewrite upd_same. cbn [icost]. destruct (it_cur s t =? 0); [lia|].
  unfold c_n1, c_if1. destruct (nmark (base s) (it_cur s t)); [|lia].
  pose proof (cnt_le (base s) (it_sv s t)). pose proof (cnt_le (base s) 0). unfold full, walk_c.
  destruct (nmark (base s) (it_sv s t)); lia.
Qed.

(** * Examples: reachable states computed with the executable model, and refutations *)

Definition xsteps (t : nat) (n : nat) : list xaction := repeat (XStep t) n.
Definition xrun (acts : list xaction) := run xstep xinit acts.
Definition xst (acts : list xaction) : xstate := fst (fst (xrun acts)).
Definition xins (t : nat) (k : N) := XStart t (OBase (OIns k)).
Definition xdel (t : nat) (k : N) := XStart t (OBase (ODel k)).
Definition rets (acts : list xaction) : list ev :=
  filter (fun e => match e with ERet _ _ => true | _ => false end) (snd (fst (xrun acts))).
(** the state after an enabled action *)
Definition nxt (s : xstate) (a : xaction) : xstate := match xstep s a with Some (s', _) => s' | None => s end.

Lemma xst_reach acts : reach xinit xstep (xst acts).
Proof. apply (run_reach _ _ _ xinit xstep acts). Qed.

Lemma nxt_step s a : xstep s a <> None -> exists es, xstep s a = Some (nxt s a, es).
Proof. unfold nxt. destruct (xstep s a) as [[s' e]|]; [eauto | intros H; contradiction]. Qed.

(** T1: ins 10, 20, 30 (nodes 1, 2, 3).  T3: it = begin() (stands on 10).  T2: del 10 (complete: node 1 marked,
    unlinked, retired).  T1: ins 15 (node 4).  T3: ++it sees its node marked, finds 15 (inserted after the
    traversal began: yielded, but not required).  T3: it = erase(it) marks node 4 itself, unlinks it and moves
    to 20; ++it -> 30; ++it -> end. *)
Definition ex_trav : list xaction :=
  xins 1 10 :: xsteps 1 5 ++ xins 1 20 :: xsteps 1 8 ++ xins 1 30 :: xsteps 1 11 ++
  XStart 3 OItB :: xsteps 3 2 ++ xdel 2 10 :: xsteps 2 7 ++ xins 1 15 :: xsteps 1 7 ++
  XStart 3 OItN :: xsteps 3 6 ++ XStart 3 OItE :: xsteps 3 4 ++ XStart 3 OItN :: xsteps 3 3 ++ XStart 3 OItN :: xsteps 3 3.

(** (it_node_safe, it_yield_sound, it_no_duplicate, it_complete, it_erase_exact) *)
Example ex_trav_state :
  let st := xst ex_trav in
  snd (xrun ex_trav) = 0%nat /\
  chain (base st) = [2; 3] /\ g_abs (base st) = [30; 20] /\ g_retired (base st) = [1; 4] /\
  g_lin (base st) = [LIns 1 10 1; LIns 1 20 2; LIns 1 30 3; LDel 2 10 1; LIns 1 15 4; LDel 3 15 4] /\
  g_yield st 3%nat = [mkY 10 1 true true 3; mkY 15 4 true true 5; mkY 20 2 true true 6; mkY 30 3 true true 6] /\
  it_cur st 3%nat = 0 /\ g_trav st 3%nat = true /\ g_lo st 3%nat = None /\
  g_start st 3%nat = [30; 20; 10] /\ g_always st 3%nat = [30; 20] /\
  rets ex_trav = [ERet 1 [0; 1]; ERet 1 [0; 1]; ERet 1 [0; 1]; ERet 3 [3; 1; 10]; ERet 2 [1; 1]; ERet 1 [0; 1];
                  ERet 3 [5; 1; 15]; ERet 3 [7; 1; 15; 1; 20]; ERet 3 [5; 1; 30]; ERet 3 [5; 0]].
Proof. vm_compute. repeat split. Qed.

(** in the middle: the iterator stands on the retired node 1 (key 10), its [save] is the head sentinel *)
Example ex_trav_mid :
  let st := xst (firstn 49 ex_trav) in
  it_cur st 3%nat = 1 /\ it_sv st 3%nat = 0 /\ nmark (base st) 1 = true /\ g_retired (base st) = [1] /\
  chain (base st) = [4; 2; 3] /\ ith st 3%nat = IF1 (KItN 1) 10 0 /\ g_always st 3%nat = [30; 20].
Proof. vm_compute. repeat split. Qed.

(** ** refutation 1: a yielded key need not have been in the container during the traversal *)

(** T1: ins 10.  T2: del 10, preempted between its mark CAS and its unlink CAS (node 1 is erased - contains(10)
    answers no - but still linked).  T3: it = begin(); *it. *)
Definition ex_stale_pre : list xaction := xins 1 10 :: xsteps 1 5 ++ xdel 2 10 :: xsteps 2 6 ++ [XStart 3 OItB].
Definition ex_stale : list xaction := ex_stale_pre ++ xsteps 3 2 ++ XStart 3 OItD :: xsteps 3 1.

Example ex_stale_state :
  let st := xst ex_stale in
  snd (xrun ex_stale) = 0%nat /\ chain (base st) = [1] /\ nmark (base st) 1 = true /\ g_abs (base st) = [] /\
  th (base st) 2%nat = D2 10 0 1 0 /\
  g_lin (base st) = [LIns 1 10 1; LDel 2 10 1] /\ g_yield st 3%nat = [mkY 10 1 false true 2] /\ g_start st 3%nat = [] /\
  rets ex_stale = [ERet 1 [0; 1]; ERet 3 [3; 1; 10]; ERet 3 [6; 1; 10]].
Proof. vm_compute. repeat split. Qed.

(** "every element it yields was in the container at some instant during the traversal" (C09) is FALSE for
    harris_michael_list_based_set: begin() (and operator++ on its fast path, and erase(iterator)) move the
    iterator onto the successor without looking at its mark, so an element that was erased before the
    traversal began, but is not unlinked yet, is yielded.  The true statement is [it_yield_was_member] +
    [it_yield_sound]. *)
Lemma it_yield_was_member_refuted :
  ~ (forall u s0 l s, reach xinit xstep s0 -> trav_path u s0 l s ->
       forall y, In y (g_yield s u) -> exists s1, In s1 (s0 :: l) /\ In (y_key y) (g_abs (base s1))).
Proof.
  intros H. set (s0 := xst ex_stale_pre). set (s1 := nxt s0 (XStep 3)). set (s2 := nxt s1 (XStep 3)).
  assert (H1 : exists es, xstep s0 (XStep 3) = Some (s1, es)) by (apply nxt_step; vm_compute; discriminate).
  assert (H2 : exists es, xstep s1 (XStep 3) = Some (s2, es)) by (apply nxt_step; vm_compute; discriminate).
  destruct H1 as [es1 H1]. destruct H2 as [es2 H2].
  assert (Hp : trav_path 3 s0 ([s1] ++ [s2]) s2).
  { eapply tp_next; [eapply tp_first; [|exact H1] | | exact H2].
    - split; [reflexivity | left; vm_compute; reflexivity].
    - intros [_ [Hc | [k Hc]]]; vm_compute in Hc; discriminate Hc. }
  destruct (H 3%nat s0 _ s2 (xst_reach _) Hp (mkY 10 1 false true 2)) as (sx & Hin & Hk).
  - vm_compute. left. reflexivity.
  - destruct Hin as [<- | [<- | [<- | []]]]; vm_compute in Hk; exact Hk.
Qed.

(** ** refutation 2: a key can be yielded twice / erase(iterator) can return an iterator to an equal key *)

(** T1: ins 10 (node 1).  T3: it = begin() (on node 1).  T1: del 10; ins 10 (node 2).  T3: ++it: its node is marked,
    find(10) returns the new node 2: key 10 is yielded again (it was re-inserted after the first yield) *)
Definition ex_reins_pre : list xaction :=
  xins 1 10 :: xsteps 1 5 ++ XStart 3 OItB :: xsteps 3 2 ++ xdel 1 10 :: xsteps 1 7 ++ xins 1 10 :: xsteps 1 5.
Definition ex_reins : list xaction := ex_reins_pre ++ XStart 3 OItN :: xsteps 3 6.

Example ex_reins_state :
  let st := xst ex_reins in
  snd (xrun ex_reins) = 0%nat /\ chain (base st) = [2] /\ g_retired (base st) = [1] /\
  g_lin (base st) = [LIns 1 10 1; LDel 1 10 1; LIns 1 10 2] /\
  g_yield st 3%nat = [mkY 10 1 true true 1; mkY 10 2 true true 3] /\
  rets ex_reins = [ERet 1 [0; 1]; ERet 3 [3; 1; 10]; ERet 1 [1; 1]; ERet 1 [0; 1]; ERet 3 [5; 1; 10]].
Proof. vm_compute. repeat split. Qed.

(** the yielded keys are NOT strictly increasing (true version: [it_no_duplicate]) *)
Lemma it_no_duplicate_strict_refuted :
  ~ (forall st t i j y1 y2, reach xinit xstep st -> (i < j)%nat ->
       nth_error (g_yield st t) i = Some y1 -> nth_error (g_yield st t) j = Some y2 -> y_key y1 < y_key y2).
Proof.
  intros H. specialize (H (xst ex_reins) 3%nat 0%nat 1%nat (mkY 10 1 true true 1) (mkY 10 2 true true 3) (xst_reach _)).
  assert (Hc : 10 < 10); [|lia]. apply H; [lia | vm_compute; reflexivity | vm_compute; reflexivity].
Qed.

(** the same with it = erase(it) instead of ++it: the erase has no effect on the abstract set (node 1 was
    erased by T1), the unlink CAS fails, find(10) returns node 2: the result is "10>10" *)
Definition ex_erase_eq : list xaction := ex_reins_pre ++ XStart 3 OItE :: xsteps 3 6.
Definition ex_erase_eq_last : list xaction := ex_reins_pre ++ XStart 3 OItE :: xsteps 3 7.

Example ex_erase_eq_state :
  let st := xst ex_erase_eq_last in
  snd (xrun ex_erase_eq_last) = 0%nat /\ chain (base st) = [2] /\ g_abs (base st) = [10] /\
  g_lin (base st) = [LIns 1 10 1; LDel 1 10 1; LIns 1 10 2] /\ it_cur st 3%nat = 2 /\
  rets ex_erase_eq_last = [ERet 1 [0; 1]; ERet 3 [3; 1; 10]; ERet 1 [1; 1]; ERet 1 [0; 1]; ERet 3 [7; 1; 10; 1; 10]].
Proof. vm_compute. repeat split. Qed.

(** "erase(iterator) returns an iterator to a node whose key is greater" is FALSE (true version:
    [it_erase_return]) *)
Lemma it_erase_greater_refuted :
  ~ (forall s t s' es, reach xinit xstep s -> xstep s (XStep t) = Some (s', es) ->
       in_erase (ith s t) = true -> ith s' t = IIdle -> it_cur s t <> 0 ->
       it_cur s' t = 0 \/ nkey (base s') (it_cur s t) < nkey (base s') (it_cur s' t)).
Proof.
  intros H. set (s := xst ex_erase_eq). set (s' := nxt s (XStep 3)).
  assert (H1 : exists es, xstep s (XStep 3) = Some (s', es)) by (apply nxt_step; vm_compute; discriminate).
  destruct H1 as [es H1].
  destruct (H s 3%nat s' es (xst_reach _) H1) as [Hc | Hc].
  - vm_compute. reflexivity.
  - vm_compute. reflexivity.
  - vm_compute. discriminate.
  - vm_compute in Hc. discriminate Hc.
  - vm_compute in Hc. discriminate Hc.
Qed.

(** ** solo runs computed with the executable model (it_solo, it_solo_bound) *)

(** in the state of [ex_trav_mid] (T3 inside ++it, at the first load of find, chain of 3 nodes) T3 alone
    finishes in 4 steps; the proved bound is [it_cost] = 14 <= 4 * 3 + 8 *)
Example ex_solo :
  let st := xst (firstn 49 ex_trav) in
  it_cost st 3%nat = 14%nat /\
  match solo_run xstep XStep xidle 3 20 0 st with Done _ n => n = 4%nat | _ => False end /\
  finishes_within xstep XStep xidle 3 14 st.
Proof.
  split; [vm_compute; reflexivity|]. split.
  - vm_compute. reflexivity.
  - eapply finishes_within_mono; [|apply (it_solo _ 3%nat (xst_reach _)); vm_compute; reflexivity]. vm_compute. lia.
Qed.
