(** C16 for xenium::seqlock.
    - [load] with more than one slot is lock-free: from every reachable state (a writer may be
      stopped anywhere, lock held, slot half written) a reader running alone finishes within
      [seqlock_load_bound] <= 2 * words + 4 steps ([words + 4] from the start of the operation): the
      sequence value obtained by a FRESH read passes the final check because nobody moves the
      counter, so at most the one iteration that was started with a stale value is repeated.
    - [load] with ONE slot is blocking: a concrete reachable state (writer stopped with the lock
      held) from which a solo reader spins forever on the odd sequence value.
    - [store] / [update] are blocking for every number of slots (acquire_lock spins).
    Counter wrap-around is excluded as in Proof/SeqlockInv.v.  No axioms, no admits. *)
From Coq Require Import NArith ZArith List Bool Lia PeanoNat.
From XV Require Import Base.Word Conc.Lts Conc.Ev Conc.Solo Model.SeqlockDefs Proof.SeqlockInv.
Import ListNotations.
Local Open Scope N_scope.

Definition idle (s : state) (t : nat) : bool := match th s t with Idle => true | _ => false end.

(** thread is idle or inside [load] *)
Definition load_pc (p : pc) : bool :=
  match p with
  | Idle | Begin OLoad | Ld1 | LdSpin | LdW _ _ _ _ | LdF _ _ | Ld3 _ _ => true
  | _ => false
  end.

Section SeqlockSolo.
  Variable slots : N.
  Variable words : nat.
  Variable func : N -> list N -> list N.
  Variable v0 : list N.
  Hypothesis slots_ge2 : 2 <= slots.
  Hypothesis slots_small : slots < 2 ^ 30.
  Hypothesis words_pos : (1 <= words)%nat.

  Notation step := (step slots words func).
  Notation init := (init v0).

  Let slots_pos : 1 <= slots.
  Proof. lia. Qed.

  (** the final check of [load] for a reader that started from sequence value [q] *)
  Definition passes (s : state) (q : N) : bool :=
    wsub 64 (seq s) q <? wsub 32 (wmul 32 2 slots) 1.

  (** cost of the final check: 1, plus one full iteration [words + 2] if it fails *)
  Definition ld3 (s : state) (q : N) : nat := if passes s q then 1%nat else (words + 3)%nat.

  Definition seqlock_load_bound (s : state) (t : nat) : nat :=
    match th s t with
    | Begin OLoad => words + 4
    | Ld1 | LdSpin => words + 3
    | LdW q _ i _ => (words - i) + 1 + ld3 s q
    | LdF q _ => 1 + ld3 s q
    | Ld3 q _ => ld3 s q
    | _ => 0
    end%nat.

  Lemma window : wsub 32 (wmul 32 2 slots) 1 = 2 * slots - 1.
  Proof.
    rewrite pow2_30 in slots_small.
    unfold wmul. rewrite pow2_32. rewrite (N.mod_small (2 * slots)) by lia.
    apply wsub_small; [lia|rewrite pow2_32; lia].
  Qed.

  (** a freshly read sequence value passes the final check while the counter does not move *)
  Lemma fresh_passes s :
    seq s < 2 ^ 63 ->
    exists idx, ld_next slots (seq s) = LdW (2 * (seq s / 2)) idx 0 [] /\ passes s (2 * (seq s / 2)) = true.
  Proof.
    intros HS. change (2 ^ 63) with 9223372036854775808 in HS.
    unfold ld_next. destruct (N.eqb_spec slots 1) as [E1|E1]; [lia|].
    cbv zeta. rewrite wshr_1. rewrite wshl_1 by (change (2 ^ 63) with 9223372036854775808; dm).
    eexists. split; [reflexivity|].
    unfold passes. rewrite window. apply N.ltb_lt.
    rewrite wsub_small; [dm|dm|rewrite pow2_64; lia].
  Qed.

  Definition P (t : nat) (s : state) : Prop :=
    reach init step s /\ Bnd s /\ load_pc (th s t) = true.

  Ltac done_step :=
    eexists _, _; split; [reflexivity|];
    unfold seqlock_load_bound, ld3, passes; cbn [th seq g_hist]; rewrite ?upd_same.

  Lemma seqlock_load_step s t : P t s -> idle s t = false ->
    exists s' es, step s (Step t) = Some (s', es) /\ P t s' /\ (seqlock_load_bound s' t < seqlock_load_bound s t)%nat.
  Proof.
    intros (Hr & HB & Hw) Hi.
    pose proof (seqlock_inv slots words func v0 slots_pos slots_small words_pos s Hr HB) as HI.
    pose proof (seq_bound slots words slots_pos slots_small words_pos s HI HB) as HS.
    pose proof (i_pc _ _ _ HI t) as Hpc.
    destruct (fresh_passes s HS) as (idx0 & Hnext & Hpass).
    assert (Hgoal : exists s' es, step s (Step t) = Some (s', es) /\
              (load_pc (th s' t) = true /\ g_hist s' = g_hist s) /\
              (seqlock_load_bound s' t < seqlock_load_bound s t)%nat).
    { unfold idle in Hi. unfold seqlock_load_bound at 2. unfold ld3. cbn [SeqlockDefs.step].
      destruct (th s t) as [|[| |]| | |q idx i buf|q buf|q buf| | | | | | | | ] eqn:E; try discriminate; cbn [pc_ok] in Hpc.
      - (* Begin *) done_step. split; [split; reflexivity|lia].
      - (* Ld1 *) rewrite Hnext. done_step. unfold passes in Hpass. rewrite Hpass.
        split; [split; reflexivity|lia].
      - (* LdSpin *) rewrite Hnext. done_step. unfold passes in Hpass. rewrite Hpass.
        split; [split; reflexivity|lia].
      - (* LdW *)
        destruct Hpc as (_ & _ & Hlt & _).
        destruct (Nat.eqb_spec (S i) words) as [Ew|Ew]; done_step;
          (split; [split; reflexivity|]); fold (passes s q); destruct (passes s q); lia.
      - (* LdF *) done_step. split; [split; reflexivity|]. fold (passes s q); destruct (passes s q); lia.
      - (* Ld3 *)
        fold (passes s q). destruct (passes s q) eqn:Hp.
        + done_step. split; [split; reflexivity|lia].
        + rewrite Hnext. done_step. unfold passes in Hpass. rewrite Hpass.
          split; [split; reflexivity|lia]. }
    destruct Hgoal as (s' & es & Hst & [Hw' Hh] & Hmu). exists s', es.
    split; [exact Hst|]. split; [|exact Hmu].
    split; [eapply reach_step; eauto|]. split; [|exact Hw']. unfold Bnd. rewrite Hh. exact HB.
  Qed.

  (** * load with slots > 1 finishes within [seqlock_load_bound s t] solo steps *)
  Theorem seqlock_load_solo s t :
    reach init step s -> Bnd s -> load_pc (th s t) = true ->
    finishes_within step Step idle t (seqlock_load_bound s t) s.
  Proof.
    intros Hr HB Hw.
    apply (finishes_by_measure _ _ _ step Step idle (P t) (fun s => seqlock_load_bound s t) t).
    - intros s0 HP Hi. exact (seqlock_load_step s0 t HP Hi).
    - split; [exact Hr|]. split; [exact HB|exact Hw].
  Qed.

  Lemma seqlock_load_bound_le s t : (seqlock_load_bound s t <= 2 * words + 4)%nat.
  Proof.
    clear slots_pos slots_ge2 slots_small words_pos.
    unfold seqlock_load_bound, ld3.
    destruct (th s t) as [|[| |]| | |q idx i buf|q buf|q buf| | | | | | | | ]; try lia;
      destruct (passes s q); lia.
  Qed.

  Theorem seqlock_load_solo_const s t :
    reach init step s -> Bnd s -> load_pc (th s t) = true ->
    finishes_within step Step idle t (2 * words + 4) s.
  Proof.
    intros Hr HB Hw. eapply finishes_within_mono; [apply seqlock_load_bound_le|].
    apply seqlock_load_solo; assumption.
  Qed.

  Theorem seqlock_load_never_stuck s t :
    reach init step s -> Bnd s -> load_pc (th s t) = true -> never_stuck step Step idle t s.
  Proof. intros Hr HB Hw. eapply finishes_never_stuck. apply seqlock_load_solo; eassumption. Qed.

  (** an idle thread that starts a load: [words + 4] steps (START, seq, words, fence, seq) *)
  Theorem seqlock_load_solo_start s t s' es :
    reach init step s -> Bnd s -> step s (Start t OLoad) = Some (s', es) ->
    finishes_within step Step idle t (words + 4) s'.
  Proof.
    intros Hr HB Hst. assert (Hr' : reach init step s') by (eapply reach_step; eauto).
    cbn [SeqlockDefs.step] in Hst. destruct (th s t); try discriminate.
    injection Hst as Hs Hes; subst s' es.
    match goal with |- finishes_within _ _ _ _ _ ?st => pose proof (seqlock_load_solo st t Hr' HB) as H end.
    unfold seqlock_load_bound in H. cbn [th] in H. rewrite upd_same in H. apply H. reflexivity.
  Qed.
End SeqlockSolo.

(** * Negative results *)

Definition idf : N -> list N -> list N := fun _ b => b.

(** thread 1 takes the lock for a store and is stopped; thread 2 starts an operation *)
Definition sl_block_acts (o : op) : list action :=
  [Start 1%nat (OStore 1 [7]); Step 1%nat; Step 1%nat; Step 1%nat; Start 2%nat o].

(** (a) one slot: load spins on the odd sequence value *)
Definition sl_block_state_load : state := fst (fst (run (step 1 1 idf) (init [0]) (sl_block_acts OLoad))).

Definition load_spin_P (t : nat) (s : state) : Prop := th s t = LdSpin /\ odd (seq s) = true.

Lemma load_spin_closed t s : load_spin_P t s ->
  idle s t = false /\ exists s' es, step 1 1 idf s (Step t) = Some (s', es) /\ load_spin_P t s'.
Proof.
  intros [Hp Ho]. unfold idle. rewrite Hp. split; [reflexivity|].
  cbn [step]. rewrite Hp. eexists _, _. split; [reflexivity|].
  split; [|exact Ho]. cbn [th]. rewrite upd_same. unfold ld_next. rewrite Ho. reflexivity.
Qed.

Theorem seqlock_load_one_slot_blocking :
  reach (init [0]) (step 1 1 idf) sl_block_state_load /\
  th sl_block_state_load 2%nat = Begin OLoad /\
  blocks (step 1 1 idf) Step idle 2%nat sl_block_state_load.
Proof.
  split; [apply run_reach|]. split; [vm_compute; reflexivity|].
  remember (fst (fst (run (step 1 1 idf) sl_block_state_load (repeat (Step 2%nat) 2)))) as s2 eqn:E2.
  assert (Hs : solo_steps (step 1 1 idf) Step idle 2%nat 2 sl_block_state_load s2).
  { subst s2. repeat (eapply solo_S; [vm_compute; reflexivity|vm_compute; reflexivity|]). constructor. }
  apply (blocks_prefix _ _ _ (step 1 1 idf) Step idle 2%nat 2 _ s2 Hs).
  apply spins_blocks.
  apply (spins_by_invariant _ _ _ (step 1 1 idf) Step idle (load_spin_P 2%nat) 2%nat (load_spin_closed 2%nat)).
  subst s2. split; vm_compute; reflexivity.
Qed.

(** (b) any number of slots (here 2): store / update spin in acquire_lock *)
Definition sl_block_state_store : state :=
  fst (fst (run (step 2 1 idf) (init [0]) (sl_block_acts (OStore 2 [9])))).
Definition sl_block_state_update : state :=
  fst (fst (run (step 2 1 idf) (init [0]) (sl_block_acts (OUpdate 3)))).

Definition aq_spin_P (t : nat) (s : state) : Prop := (exists o, th s t = AqSpin o) /\ odd (seq s) = true.

Lemma aq_spin_closed t s : aq_spin_P t s ->
  idle s t = false /\ exists s' es, step 2 1 idf s (Step t) = Some (s', es) /\ aq_spin_P t s'.
Proof.
  intros [[o Hp] Ho]. unfold idle. rewrite Hp. split; [reflexivity|].
  cbn [step]. rewrite Hp. eexists _, _. split; [reflexivity|].
  split; [|exact Ho]. exists o. cbn [th]. rewrite upd_same. unfold aq_next. rewrite Ho. reflexivity.
Qed.

Theorem seqlock_store_blocking :
  reach (init [0]) (step 2 1 idf) sl_block_state_store /\
  th sl_block_state_store 2%nat = Begin (OStore 2 [9]) /\
  blocks (step 2 1 idf) Step idle 2%nat sl_block_state_store.
Proof.
  split; [apply run_reach|]. split; [vm_compute; reflexivity|].
  remember (fst (fst (run (step 2 1 idf) sl_block_state_store (repeat (Step 2%nat) 2)))) as s2 eqn:E2.
  assert (Hs : solo_steps (step 2 1 idf) Step idle 2%nat 2 sl_block_state_store s2).
  { subst s2. repeat (eapply solo_S; [vm_compute; reflexivity|vm_compute; reflexivity|]). constructor. }
  apply (blocks_prefix _ _ _ (step 2 1 idf) Step idle 2%nat 2 _ s2 Hs).
  apply spins_blocks.
  apply (spins_by_invariant _ _ _ (step 2 1 idf) Step idle (aq_spin_P 2%nat) 2%nat (aq_spin_closed 2%nat)).
  subst s2. split; [eexists|]; vm_compute; reflexivity.
Qed.

Theorem seqlock_update_blocking :
  reach (init [0]) (step 2 1 idf) sl_block_state_update /\
  th sl_block_state_update 2%nat = Begin (OUpdate 3) /\
  blocks (step 2 1 idf) Step idle 2%nat sl_block_state_update.
Proof.
  split; [apply run_reach|]. split; [vm_compute; reflexivity|].
  remember (fst (fst (run (step 2 1 idf) sl_block_state_update (repeat (Step 2%nat) 2)))) as s2 eqn:E2.
  assert (Hs : solo_steps (step 2 1 idf) Step idle 2%nat 2 sl_block_state_update s2).
  { subst s2. repeat (eapply solo_S; [vm_compute; reflexivity|vm_compute; reflexivity|]). constructor. }
  apply (blocks_prefix _ _ _ (step 2 1 idf) Step idle 2%nat 2 _ s2 Hs).
  apply spins_blocks.
  apply (spins_by_invariant _ _ _ (step 2 1 idf) Step idle (aq_spin_P 2%nat) 2%nat (aq_spin_closed 2%nat)).
  subst s2. split; [eexists|]; vm_compute; reflexivity.
Qed.
