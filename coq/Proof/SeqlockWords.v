(** The word count of seqlock.hpp, as generated from the source, covers every byte of T. *)
From Coq Require Import NArith ZArith Lia.
From XV Require Import Base.Word gen.SeqlockGen Model.SeqlockDefs.
Local Open Scope N_scope.

Theorem words_cover sz : 0 < sz -> sz < 2 ^ 63 -> sz <= 8 * C_words sz /\ 8 * C_words sz < sz + 8.
Proof.
  intros H0 H. unfold C_words, wdiv.
  assert (E63 : 2 ^ 63 = 9223372036854775808) by reflexivity.
  assert (E64 : 2 ^ 64 = 18446744073709551616) by reflexivity.
  rewrite wadd_small by lia. rewrite wsub_small by lia.
  pose proof (N.div_mod (sz + 8 - 1) 8 ltac:(lia)) as Hd.
  pose proof (N.mod_lt (sz + 8 - 1) 8 ltac:(lia)) as Hm.
  set (q := (sz + 8 - 1) / 8) in *. set (r := (sz + 8 - 1) mod 8) in *. clearbody q r.
  lia.
Qed.

(** the model's [odd] is the generated [is_write_pending] *)
Theorem odd_is_write_pending q : odd q = is_write_pending q.
Proof. reflexivity. Qed.
