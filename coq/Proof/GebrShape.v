(** Thread-local shape of every program point of the generalised epoch based reclamation model (Model/GebrDefs.v), for
    every configuration ([tshape], [T0_reach]).  No axioms. *)
From Coq Require Import NArith List Bool Arith Lia PeanoNat.
From XV Require Import Conc.Lts Conc.Ev Model.GebrDefs Proof.GebrBase.
Import ListNotations.
Local Open Scope N_scope.

Ltac fn := cbn [walk_of ctx_of slot_of in_enter in_cphase in_xphase in_lv in_gphase in_c16 pre_sync cblk kacq tmp needs_cb no_cb orb andb negb is_some cell_of nest_of rg_of].
Ltac fn_in H := cbn [walk_of ctx_of slot_of in_enter in_cphase in_xphase in_lv in_gphase in_c16 pre_sync cblk kacq tmp needs_cb no_cb orb andb negb is_some cell_of nest_of rg_of] in H.

Record tshape (cfg : config) (ns : nat) (p : pc) (x : tls) : Prop := {
  ts_need : needs_cb p = true -> cb x <> None;
  ts_no : no_cb p = true -> cb x = None;
  ts_fresh : cb x = None -> nest x = O /\ (forall s, gs x s = None) /\ sync x = false /\ rg x = None;
  ts_cnt : nest x = (cnt_held (gs x) ns + tmp p x)%nat;
  ts_rent : rent x = rent_exp cfg (nest x) (rg x);
  ts_slot : forall s, slot_of p = Some s -> (s < ns)%nat;
  ts_hi : forall s, (ns <= s)%nat -> gs x s = None;
  ts_c : in_cphase p = true -> nest x = O /\ sync x = false /\ rg x = None;
  ts_e : in_enter p = true -> nest x = tmp p x;
  ts_lv : in_lv p = true -> nest x = O /\ rent x = O;
  ts_x : in_xphase p = true -> nest x = O /\ rent x = O /\ (forall s, gs x s = None);
  ts_sync : (1 <= nest x)%nat -> pre_sync p = false -> sync x = true;
  ts_g : in_gphase p = true -> sit x = [];
  ts_init : scan_is_n cfg && negb (tinit x) = true -> cb x = None /\ in_c16 p = false }.

Ltac cleanup :=
  repeat match goal with
  | H : false = true -> _ |- _ => clear H
  | H : true = true -> _ |- _ => specialize (H eq_refl)
  | H : true = false -> _ |- _ => clear H
  | H : false = false -> _ |- _ => specialize (H eq_refl)
  | H : forall s, None = Some s -> _ |- _ => clear H
  | H : forall s, Some ?a = Some s -> _ |- _ => specialize (H a eq_refl)
  | H : ?a = ?b -> _, H2 : ?a = ?b |- _ => specialize (H H2)
  | H : _ /\ _ |- _ => destruct H
  end.

Ltac cnt_tac :=
  repeat match goal with
  | |- context [cnt_held (fun _ => None) ?n] => rewrite (cnt_held_none n)
  | E : ?g ?s0 = Some ?x, L : (?s0 < ?n)%nat |- context [cnt_held (upd ?g ?s0 None) ?n] =>
      rewrite (cnt_upd_some_none g s0 x n E L) in *
  | E : ?g ?s0 = None, L : (?s0 < ?n)%nat |- context [cnt_held (upd ?g ?s0 (Some ?x)) ?n] =>
      rewrite (cnt_upd_none_some g s0 x n E L)
  | E : ?g ?s0 = Some ?y |- context [cnt_held (upd ?g ?s0 (Some ?x)) ?n] =>
      rewrite (cnt_upd_same_kind g s0 (Some x) n) by (rewrite E; reflexivity)
  | E : ?g ?s0 = None |- context [cnt_held (upd ?g ?s0 None) ?n] =>
      rewrite (cnt_upd_same_kind g s0 None n) by (rewrite E; reflexivity)
  end.

Ltac prj_hyps := repeat match goal with H : _ |- _ => progress prj_in H end.

(* the counter facts produced by the boolean tests of the step *)
Ltac cnt_facts :=
  repeat match goal with
  | H : leave_last ?c ?y = true |- _ =>
    let X := fresh "LL" in pose proof (leave_last_true c y H) as X; prj_in X; clear H
  | H : leave_rg_last ?c ?y = true |- _ =>
    let X := fresh "LL" in pose proof (fun r => leave_rg_last_true c y r H) as X; prj_in X; clear H
  | H : eager_first ?c ?y = true |- _ =>
    let X := fresh "EF" in pose proof (eager_first_true c y H) as X; prj_in X; clear H
  | H : needs_init ?c ?y = _ |- _ => rewrite needs_init_eq in H; prj_in H
  | H : inside ?c ?y = false |- _ =>
    let X := fresh "IS" in pose proof (inside_false c y H) as X; prj_in X; clear H
  end.

(* instantiate the facts about the last leave / first enter *)
Ltac use_ll :=
  repeat match goal with
  | LL : forall r, rent ?x = rent_exp _ _ (Some r) -> _, Irent : rent ?x = rent_exp _ _ (rg ?x), E : rg ?x = Some ?n |- _ =>
    let X := fresh "Ir" in pose proof Irent as X; rewrite E in X; specialize (LL n X); destruct LL
  | LL : rent ?x = rent_exp _ _ _ -> (1 <= nest ?x)%nat -> _, Irent : rent ?x = rent_exp _ _ _ |- _ =>
    let X := fresh in assert (X : (1 <= nest x)%nat) by lia; specialize (LL Irent X); destruct LL
  | EF : rent ?x = rent_exp _ _ _ -> _ /\ _, Irent : rent ?x = rent_exp _ _ _ |- _ =>
    specialize (EF Irent); destruct EF as (? & ? & ? & ?)
  | IS : rent ?x = rent_exp _ _ _ -> _ /\ _, Irent : rent ?x = rent_exp _ _ _ |- _ =>
    specialize (IS Irent); destruct IS
  end.

Ltac rent_tac :=
  try match goal with Irent : rent ?x = rent_exp _ _ _ |- _ => rewrite Irent end;
  repeat match goal with E : rg ?x = _ |- _ => rewrite E end;
  first [ apply rent_dec_exp; lia
        | apply rent_dec_exp_rg
        | apply rent_inc_exp; intros; first [assumption | discriminate | reflexivity]
        | exact (rent_inc_exp _ (KAcq (KRead 0)) _ _ ltac:(discriminate))
        | match goal with |- _ = rent_exp _ _ (Some ?r) => exact (rent_inc_exp _ (KEnter r) _ None (fun _ => eq_refl)) end
        | symmetry; apply rent_exp_0 | apply rent_exp_0 ].

Ltac tfin :=
  try (let X := fresh "X" in intros X);
  cleanup; bool_eqs;
  repeat match goal with
  | |- context [match ?k with KRepl _ _ => _ | _ => _ end] => destruct k
  | H : context [match ?k with KRepl _ _ => _ | _ => _ end] |- _ => destruct k
  | |- context [match ?k with KAcq _ => _ | _ => _ end] => destruct k
  | H : context [match ?k with KAcq _ => _ | _ => _ end] |- _ => destruct k
  end; fn; repeat match goal with H : _ |- _ => progress fn_in H end; prj; prj_hyps; cleanup;
  repeat match goal with
  | |- context [is_some (?g ?s0)] => let E := fresh "Eg" in destruct (g s0) eqn:E; cbn [is_some] in *
  | H : context [is_some (?g ?s0)] |- _ => let E := fresh "Eg" in destruct (g s0) eqn:E; cbn [is_some] in *
  end; prj;
  repeat match goal with
  | |- context [upd ?f ?a ?v ?b] => destruct (upd_cases f a v b) as [[? ->]|[? ->]]; try subst
  end;
  repeat match goal with
  | H : forall s, ?g s = None, E : ?g ?s0 = Some _ |- _ => rewrite H in E; discriminate E
  end;
  repeat match goal with
  | E : ?g ?s0 = Some ?x, L : (?s0 < ?ns)%nat |- _ =>
    lazymatch goal with | _ : (1 <= cnt_held g ns)%nat |- _ => fail | _ => pose proof (cnt_pos _ _ _ _ E L) end
  end;
  use_ll;
  cnt_tac;
  first [ assumption | reflexivity | discriminate | congruence | lia | exfalso; congruence | exfalso; lia | solve [auto]
        | split; first [assumption | lia | congruence | solve [auto]]
        | rent_tac
        | repeat split; try assumption; try lia;
          match goal with Ihi : forall s, (?ns <= s)%nat -> ?g s = None |- forall s, ?g s = None =>
            let s0 := fresh "s0" in intros s0; destruct (le_lt_dec ns s0); [apply Ihi; lia | eapply cnt_zero_all; [|eassumption]; lia] end
        | match goal with Hn : nest ?x = O, Hr : rent ?x = O |- rent ?x = rent_exp _ (nest ?x) None => rewrite Hn, Hr; symmetry; apply rent_exp_0 end
        | match goal with Isync : _ -> _ -> sync ?x = true |- sync ?x = true => apply Isync; [lia | reflexivity] end ].

Lemma tshape_step cfg ns s t s' es : step cfg ns s (Step t) = Some (s', es) ->
  tshape cfg ns (th s t) (tl s t) -> tshape cfg ns (th s' t) (tl s' t).
Proof.
  intros H I. unfold_step H. cbv zeta in H. step_split H.
  all: bool_eqs; prj; rewrite ?upd_same; prj; prj_hyps; rewrite ?upd_same in *; prj_hyps.
  all: try match goal with E : th _ _ = _ |- _ => rewrite E in I end.
  all: destruct I as [Ineed Ino Ifresh Icnt Irent Islot Ihi Ic Ie Ilv Ix Isync Ig Iinit].
  all: fn_in Ineed; fn_in Ino; fn_in Icnt; fn_in Islot; fn_in Ic; fn_in Ie; fn_in Ilv; fn_in Ix; fn_in Isync; fn_in Ig; fn_in Iinit.
  all: cnt_facts.
  all: constructor; prj; fn; intros.
  all: try solve [first [assumption | reflexivity | discriminate | congruence | lia | auto]].
  all: try solve [sel; tfin].
Qed.

Lemma tshape_start cfg ns s t o s' es : step cfg ns s (Start t o) = Some (s', es) ->
  tshape cfg ns (th s t) (tl s t) -> tshape cfg ns (th s' t) (tl s' t).
Proof.
  intros H I. unfold step in H. step_split H.
  all: bool_eqs; prj; rewrite ?upd_same; prj; prj_hyps.
  all: try match goal with E : th _ _ = _ |- _ => rewrite E in I end.
  all: destruct I as [Ineed Ino Ifresh Icnt Irent Islot Ihi Ic Ie Ilv Ix Isync Ig Iinit].
  all: fn_in Ineed; fn_in Ino; fn_in Icnt; fn_in Islot; fn_in Ic; fn_in Ie; fn_in Ilv; fn_in Ix; fn_in Isync; fn_in Ig; fn_in Iinit.
  all: cnt_facts.
  all: constructor; prj; fn; intros.
  all: try solve [first [assumption | reflexivity | discriminate | congruence | lia | auto]].
  all: solve [sel; tfin].
Qed.

(** ** the thread-local shape holds for every thread of every reachable state *)
Section Reach.
Variables (cfg : config) (ns : nat) (nc : N).
Definition reachable (st : state) : Prop := reach (init nc) (step cfg ns) st.

Lemma step_other_thread s a s' es u : step cfg ns s a = Some (s', es) ->
  (match a with Start t _ => t | Step t => t end) <> u -> th s' u = th s u /\ tl s' u = tl s u.
Proof.
  intros H Hne. destruct a as [t o|t].
  - unfold step in H. step_split H. all: prj; rewrite ?upd_other by congruence; split; reflexivity.
  - destruct (step_frame _ _ _ _ _ _ H) as (F & _). apply F. congruence.
Qed.

Definition T0 (st : state) : Prop := forall u, tshape cfg ns (th st u) (tl st u).

Lemma T0_init : T0 (init nc).
Proof.
  intros u. constructor; cbn; intros; try congruence; try discriminate; try (repeat split; intros; reflexivity); try reflexivity.
  - rewrite cnt_held_none. reflexivity.
  - symmetry. apply rent_exp_0.
  - lia.
Qed.

Lemma T0_step s a s' es : T0 s -> step cfg ns s a = Some (s', es) -> T0 s'.
Proof.
  intros I H u. destruct (Nat.eq_dec (match a with Start t _ => t | Step t => t end) u) as [<-|Hne].
  - destruct a as [t o|t]; [eapply tshape_start|eapply tshape_step]; eauto.
  - destruct (step_other_thread _ _ _ _ u H Hne) as [-> ->]. apply I.
Qed.

Lemma T0_reach s : reachable s -> T0 s.
Proof. apply inv_rule; [exact T0_init|exact T0_step]. Qed.
End Reach.

