(** xenium/marked_ptr.hpp: bit layout of [marked_ptr<T, MarkBits, MaxUpperMarkBits>] and the
    round-trip properties of [make_ptr] / [get] / [mark], proved for all pointers and marks over the
    code generated in gen/MarkedPtrGen.v (rotations: Base/Rotate.v over gen/RotateGen.v,
    gen/Rotate0Gen.v). *)
From Coq Require Import NArith ZArith Lia ZifyBool Bool.
From XV Require Import Base.Word gen.RotateGen gen.Rotate0Gen Base.Rotate gen.MarkedPtrGen.
Local Open Scope N_scope.

(** * Generic bit facts *)

Lemma lt_64_pow : 64 < 2 ^ 64.
Proof. vm_compute. reflexivity. Qed.

Lemma testbit_high v n : v < 2 ^ 64 -> 64 <= n -> N.testbit v n = false.
Proof.
  intros Hv Hn. rewrite <- (N.mod_small v (2 ^ 64)) by exact Hv.
  apply N.mod_pow2_bits_high. exact Hn.
Qed.

Lemma lt_of_bits x : (forall n, 64 <= n -> N.testbit x n = false) -> x < 2 ^ 64.
Proof.
  intros H. assert (E : x mod 2 ^ 64 = x).
  { apply N.bits_inj. intros n. destruct (N.ltb_spec n 64).
    - apply N.mod_pow2_bits_low. assumption.
    - rewrite N.mod_pow2_bits_high by assumption. symmetry. apply H. assumption. }
  rewrite <- E. apply N.mod_lt. apply N.pow_nonzero. discriminate.
Qed.

Lemma testbit_ones k n : N.testbit (N.ones k) n = (n <? k).
Proof.
  destruct (N.ltb_spec n k).
  - apply N.ones_spec_low. assumption.
  - apply N.ones_spec_high. assumption.
Qed.

Lemma testbit_mod_pow2 a k n : N.testbit (a mod 2 ^ k) n = (n <? k) && N.testbit a n.
Proof.
  destruct (N.ltb_spec n k).
  - rewrite N.mod_pow2_bits_low by assumption. reflexivity.
  - rewrite N.mod_pow2_bits_high by assumption. reflexivity.
Qed.

Lemma testbit_wshl a b n :
  N.testbit (wshl 64 a b) n = (n <? 64) && (b <=? n) && N.testbit a (n - b).
Proof.
  unfold wshl. destruct (N.ltb_spec n 64).
  - rewrite N.mod_pow2_bits_low by assumption. destruct (N.leb_spec b n).
    + rewrite N.shiftl_spec_high' by assumption. reflexivity.
    + rewrite N.shiftl_spec_low by assumption. reflexivity.
  - rewrite N.mod_pow2_bits_high by assumption. reflexivity.
Qed.

Lemma sub64 c : c <= 64 -> wsub 64 64 c = 64 - c.
Proof. intros H. apply wsub_small. exact H. exact lt_64_pow. Qed.

Ltac cmp_cases :=
  repeat match goal with
  | |- context [N.ltb ?a ?b] => destruct (N.ltb_spec a b); try lia
  | |- context [N.leb ?a ?b] => destruct (N.leb_spec a b); try lia
  end.

(** * Rotations *)

Lemma testbit_rot_left c v n : c < 64 -> v < 2 ^ 64 ->
  N.testbit (rot_left c v) n =
  if n <? c then N.testbit v (n + 64 - c)
  else if n <? 64 then N.testbit v (n - c) else false.
Proof.
  intros Hc Hv. unfold rot_left. destruct (N.eqb_spec c 0) as [->|Hc0].
  - unfold rot0_left. destruct (N.ltb_spec n 0); [lia|]. rewrite N.sub_0_r.
    destruct (N.ltb_spec n 64); [reflexivity|]. apply testbit_high; assumption.
  - unfold rotC_left. rewrite sub64 by lia. rewrite N.lor_spec. unfold wshr.
    rewrite N.shiftr_spec', testbit_wshl.
    destruct (N.ltb_spec n c).
    + destruct (N.ltb_spec n 64); [|lia]. destruct (N.leb_spec c n); [lia|].
      cbn [andb orb]. rewrite orb_false_r. f_equal. lia.
    + rewrite (testbit_high v (n + (64 - c))) by (assumption || lia). cbn [orb].
      destruct (N.leb_spec c n); [|lia]. destruct (N.ltb_spec n 64); reflexivity.
Qed.

Lemma testbit_rot_right c v n : c < 64 -> v < 2 ^ 64 ->
  N.testbit (rot_right c v) n =
  if n <? 64 - c then N.testbit v (n + c)
  else if n <? 64 then N.testbit v (n - (64 - c)) else false.
Proof.
  intros Hc Hv. unfold rot_right. destruct (N.eqb_spec c 0) as [->|Hc0].
  - unfold rot0_right. rewrite N.sub_0_r, N.add_0_r.
    destruct (N.ltb_spec n 64); [reflexivity|]. apply testbit_high; assumption.
  - unfold rotC_right. rewrite sub64 by lia. rewrite N.lor_spec. unfold wshr.
    rewrite N.shiftr_spec', testbit_wshl.
    destruct (N.ltb_spec n (64 - c)).
    + destruct (N.leb_spec (64 - c) n); [lia|]. rewrite andb_false_r. cbn [andb].
      apply orb_false_r.
    + rewrite (testbit_high v (n + c)) by (assumption || lia). cbn [orb].
      destruct (N.leb_spec (64 - c) n); [|lia]. destruct (N.ltb_spec n 64); reflexivity.
Qed.

Lemma rot_left_lt c v : c < 64 -> v < 2 ^ 64 -> rot_left c v < 2 ^ 64.
Proof.
  intros Hc Hv. apply lt_of_bits. intros n Hn. rewrite testbit_rot_left by assumption.
  cmp_cases; reflexivity.
Qed.

Lemma rot_right_lt c v : c < 64 -> v < 2 ^ 64 -> rot_right c v < 2 ^ 64.
Proof.
  intros Hc Hv. apply lt_of_bits. intros n Hn. rewrite testbit_rot_right by assumption.
  cmp_cases; reflexivity.
Qed.

(** (f), for every rotation count below 64 *)
Lemma rot_left_right_gen c v : c < 64 -> v < 2 ^ 64 -> rot_right c (rot_left c v) = v.
Proof.
  intros Hc Hv. apply N.bits_inj. intros n.
  rewrite testbit_rot_right by (try apply rot_left_lt; assumption).
  rewrite !testbit_rot_left by assumption.
  cmp_cases; try (f_equal; lia).
  symmetry. apply testbit_high; assumption.
Qed.

Lemma rot_right_left_gen c v : c < 64 -> v < 2 ^ 64 -> rot_left c (rot_right c v) = v.
Proof.
  intros Hc Hv. apply N.bits_inj. intros n.
  rewrite testbit_rot_left by (try apply rot_right_lt; assumption).
  rewrite !testbit_rot_right by assumption.
  cmp_cases; try (f_equal; lia).
  symmetry. apply testbit_high; assumption.
Qed.

Lemma rot_left_right c v : c <= 32 -> v < 2 ^ 64 -> rot_right c (rot_left c v) = v.
Proof. intros Hc Hv. apply rot_left_right_gen; [lia | assumption]. Qed.

(** * The template constants *)

Lemma pointer_bits_eq MB : MB <= 64 -> C_pointer_bits MB = 64 - MB.
Proof.
  intros H. unfold C_pointer_bits.
  replace (wmul 64 8 8) with 64 by (vm_compute; reflexivity).
  apply sub64. exact H.
Qed.

Lemma lower_mark_bits_le MB MU : MB <= 32 -> C_lower_mark_bits MB MU <= MB.
Proof.
  intros H. unfold C_lower_mark_bits. destruct (N.ltb_spec MB MU); [lia|].
  rewrite wsub_small; [lia | assumption |]. pose proof lt_64_pow. lia.
Qed.

Lemma lower_mark_bits_eq MB MU : MB <= 32 ->
  C_lower_mark_bits MB MU = MB - N.min MB MU.
Proof.
  intros H. unfold C_lower_mark_bits. destruct (N.ltb_spec MB MU); [lia|].
  rewrite wsub_small; [lia | assumption |]. pose proof lt_64_pow. lia.
Qed.

Lemma testbit_pointer_mask MB MU n : 1 <= MB <= 32 ->
  N.testbit (C_pointer_mask MB MU) n =
  (C_lower_mark_bits MB MU <=? n) && (n <? 64 - (MB - C_lower_mark_bits MB MU)).
Proof.
  intros HMB. pose proof (lower_mark_bits_le MB MU ltac:(lia)) as HL.
  unfold C_pointer_mask. rewrite pointer_bits_eq by lia.
  set (L := C_lower_mark_bits MB MU) in *.
  assert (E : wsub 64 (wshl 64 1 (64 - MB)) 1 = N.ones (64 - MB)).
  { unfold wshl. rewrite N.shiftl_1_l.
    assert (2 ^ (64 - MB) < 2 ^ 64) by (apply N.pow_lt_mono_r; lia).
    rewrite N.mod_small by assumption.
    pose proof (pow2_pos (64 - MB)).
    rewrite wsub_small by (assumption || lia).
    rewrite N.ones_equiv. lia. }
  rewrite E, testbit_wshl, testbit_ones.
  cmp_cases; reflexivity.
Qed.

Definition canonical (MB MU p : N) : Prop := N.land p (C_pointer_mask MB MU) = p.

Lemma canonical_bit MB MU p n : 1 <= MB <= 32 -> canonical MB MU p ->
  ~ (C_lower_mark_bits MB MU <= n < 64 - (MB - C_lower_mark_bits MB MU)) ->
  N.testbit p n = false.
Proof.
  intros HMB Hc Hn. rewrite <- Hc, N.land_spec, testbit_pointer_mask by assumption.
  cmp_cases; apply andb_false_r.
Qed.

Lemma canonical_lt MB MU p : 1 <= MB <= 32 -> canonical MB MU p -> p < 2 ^ 64.
Proof.
  intros HMB Hc. apply lt_of_bits. intros n Hn.
  apply (canonical_bit MB MU); try assumption. lia.
Qed.

(** * (e) Layout of the representation.

    With [L := C_lower_mark_bits MB MU] (the number of mark bits stored at the bottom) and
    [U := MB - L] (the number stored at the top): bits [0, L) of the word are bits [U, MB) of the
    mark, bits [L, 64 - U) are the pointer, bits [64 - U, 64) are bits [0, U) of the mark. *)

Lemma marked_layout_gen MB MU p m n :
  1 <= MB <= 32 -> canonical MB MU p ->
  N.testbit (make_ptr MB MU p m) n =
  let L := C_lower_mark_bits MB MU in
  if n <? L then N.testbit m (n + (MB - L))
  else if n <? 64 - (MB - L) then N.testbit p n
  else if n <? 64 then N.testbit m (n - (64 - (MB - L)))
  else false.
Proof.
  intros HMB Hc. pose proof (lower_mark_bits_le MB MU ltac:(lia)) as HL.
  pose proof (canonical_bit MB MU p n HMB Hc) as Hout.
  unfold make_ptr. rewrite pointer_bits_eq by lia. cbv zeta.
  set (L := C_lower_mark_bits MB MU) in *.
  rewrite N.lor_spec, testbit_rot_left by (try apply wshl_lt; lia).
  rewrite !testbit_wshl.
  destruct (N.ltb_spec n L).
  - rewrite Hout by lia. cmp_cases; cbn [andb orb]; try reflexivity; f_equal; lia.
  - destruct (N.ltb_spec n (64 - (MB - L))).
    + cmp_cases; cbn [andb]; rewrite ?orb_false_r; reflexivity.
    + rewrite Hout by lia. cmp_cases; cbn [andb orb]; try reflexivity; f_equal; lia.
Qed.

Lemma marked_layout MB MU p m n :
  1 <= MB <= 32 -> p < 2 ^ 64 -> m < 2 ^ 64 ->
  N.land p (C_pointer_mask MB MU) = p -> n < 64 ->
  N.testbit (make_ptr MB MU p m) n =
  let L := C_lower_mark_bits MB MU in
  if n <? L then N.testbit m (n + (MB - L))
  else if 64 - (MB - L) <=? n then N.testbit m (n - (64 - (MB - L)))
  else N.testbit p n.
Proof.
  intros HMB _ _ Hc Hn. rewrite marked_layout_gen by assumption. cbv zeta.
  cmp_cases; reflexivity.
Qed.

(** (c) *)
Lemma marked_make_lt_gen MB MU p m :
  1 <= MB <= 32 -> canonical MB MU p -> make_ptr MB MU p m < 2 ^ 64.
Proof.
  intros HMB Hc. pose proof (lower_mark_bits_le MB MU ltac:(lia)) as HL.
  apply lt_of_bits. intros n Hn. rewrite marked_layout_gen by assumption. cbv zeta.
  cmp_cases; reflexivity.
Qed.

(** (a) *)
Lemma marked_get_make_gen MB MU p m :
  1 <= MB <= 32 -> canonical MB MU p -> get MB MU (make_ptr MB MU p m) = p.
Proof.
  intros HMB Hc. pose proof (lower_mark_bits_le MB MU ltac:(lia)) as HL.
  unfold get. cbv zeta. apply N.bits_inj. intros n.
  pose proof (canonical_bit MB MU p n HMB Hc) as Hout.
  rewrite N.land_spec, testbit_pointer_mask, marked_layout_gen by assumption. cbv zeta.
  set (L := C_lower_mark_bits MB MU) in *.
  cmp_cases; cbn [andb]; rewrite ?andb_false_r, ?andb_true_r; try reflexivity;
    symmetry; apply Hout; lia.
Qed.

(** (b) *)
Lemma marked_mark_make_gen MB MU p m :
  1 <= MB <= 32 -> canonical MB MU p -> mark MB MU (make_ptr MB MU p m) = m mod 2 ^ MB.
Proof.
  intros HMB Hc. pose proof (lower_mark_bits_le MB MU ltac:(lia)) as HL.
  pose proof (marked_make_lt_gen MB MU p m HMB Hc) as Hlt.
  unfold mark. rewrite pointer_bits_eq by lia. unfold wshr.
  apply N.bits_inj. intros n.
  rewrite N.shiftr_spec', testbit_mod_pow2, testbit_rot_right by (assumption || lia).
  rewrite !marked_layout_gen by assumption. cbv zeta.
  set (L := C_lower_mark_bits MB MU) in *.
  cmp_cases; cbn [andb]; try reflexivity; f_equal; lia.
Qed.

(** the representation depends on the mark only through its low [MB] bits *)
Lemma make_ptr_mod MB MU p m :
  1 <= MB <= 32 -> canonical MB MU p ->
  make_ptr MB MU p (m mod 2 ^ MB) = make_ptr MB MU p m.
Proof.
  intros HMB Hc. pose proof (lower_mark_bits_le MB MU ltac:(lia)) as HL.
  apply N.bits_inj. intros n. rewrite !marked_layout_gen by assumption. cbv zeta.
  set (L := C_lower_mark_bits MB MU) in *.
  rewrite !testbit_mod_pow2.
  cmp_cases; reflexivity.
Qed.

(** (d) *)
Lemma marked_eq_iff_gen MB MU p1 m1 p2 m2 :
  1 <= MB <= 32 -> canonical MB MU p1 -> canonical MB MU p2 ->
  (make_ptr MB MU p1 m1 = make_ptr MB MU p2 m2 <->
   p1 = p2 /\ m1 mod 2 ^ MB = m2 mod 2 ^ MB).
Proof.
  intros HMB H1 H2. split.
  - intros E. split.
    + rewrite <- (marked_get_make_gen MB MU p1 m1), <- (marked_get_make_gen MB MU p2 m2)
        by assumption. rewrite E. reflexivity.
    + rewrite <- (marked_mark_make_gen MB MU p1 m1), <- (marked_mark_make_gen MB MU p2 m2)
        by assumption. rewrite E. reflexivity.
  - intros [-> E].
    rewrite <- (make_ptr_mod MB MU p2 m1), <- (make_ptr_mod MB MU p2 m2) by assumption.
    rewrite E. reflexivity.
Qed.

(** * The statements with the full list of side conditions *)

Lemma marked_get_make MB MU p m :
  1 <= MB <= 32 -> p < 2 ^ 64 -> m < 2 ^ 64 -> N.land p (C_pointer_mask MB MU) = p ->
  get MB MU (make_ptr MB MU p m) = p.
Proof. intros HMB _ _ Hc. apply marked_get_make_gen; assumption. Qed.

Lemma marked_mark_make MB MU p m :
  1 <= MB <= 32 -> p < 2 ^ 64 -> m < 2 ^ 64 -> N.land p (C_pointer_mask MB MU) = p ->
  mark MB MU (make_ptr MB MU p m) = m mod 2 ^ MB.
Proof. intros HMB _ _ Hc. apply marked_mark_make_gen; assumption. Qed.

Lemma marked_make_lt MB MU p m :
  1 <= MB <= 32 -> p < 2 ^ 64 -> m < 2 ^ 64 -> N.land p (C_pointer_mask MB MU) = p ->
  make_ptr MB MU p m < 2 ^ 64.
Proof. intros HMB _ _ Hc. apply marked_make_lt_gen; assumption. Qed.

Lemma marked_eq_iff MB MU p1 m1 p2 m2 :
  1 <= MB <= 32 ->
  p1 < 2 ^ 64 -> m1 < 2 ^ 64 -> N.land p1 (C_pointer_mask MB MU) = p1 ->
  p2 < 2 ^ 64 -> m2 < 2 ^ 64 -> N.land p2 (C_pointer_mask MB MU) = p2 ->
  (make_ptr MB MU p1 m1 = make_ptr MB MU p2 m2 <->
   p1 = p2 /\ m1 mod 2 ^ MB = m2 mod 2 ^ MB).
Proof. intros HMB _ _ H1 _ _ H2. apply marked_eq_iff_gen; assumption. Qed.

(** * (e) in arithmetic form *)

Lemma add_disjoint a b :
  (forall n, N.testbit a n && N.testbit b n = false) -> a + b = N.lor a b.
Proof.
  intros H. assert (E : N.land a b = 0).
  { apply N.bits_inj. intros n. rewrite N.land_spec, N.bits_0. apply H. }
  rewrite N.add_nocarry_lxor by exact E. apply N.lxor_lor. exact E.
Qed.

Lemma marked_layout_arith MB MU p m :
  1 <= MB <= 32 -> canonical MB MU p ->
  let L := C_lower_mark_bits MB MU in
  let U := MB - L in
  make_ptr MB MU p m = p + (m mod 2 ^ U) * 2 ^ (64 - U) + (m mod 2 ^ MB) / 2 ^ U.
Proof.
  intros HMB Hc. pose proof (lower_mark_bits_le MB MU ltac:(lia)) as HL. cbv zeta.
  pose proof (fun n => canonical_bit MB MU p n HMB Hc) as Hout.
  assert (Hlay := fun n => marked_layout_gen MB MU p m n HMB Hc). cbv zeta in Hlay.
  set (L := C_lower_mark_bits MB MU) in *.
  rewrite <- N.shiftl_mul_pow2, <- N.shiftr_div_pow2.
  assert (Hshl : forall n, N.testbit (N.shiftl (m mod 2 ^ (MB - L)) (64 - (MB - L))) n =
            (64 - (MB - L) <=? n) && (n <? 64) && N.testbit m (n - (64 - (MB - L)))).
  { intros n. destruct (N.leb_spec (64 - (MB - L)) n).
    - rewrite N.shiftl_spec_high' by assumption. rewrite testbit_mod_pow2.
      cmp_cases; reflexivity.
    - rewrite N.shiftl_spec_low by assumption. reflexivity. }
  assert (Hshr : forall n, N.testbit (N.shiftr (m mod 2 ^ MB) (MB - L)) n =
            (n <? L) && N.testbit m (n + (MB - L))).
  { intros n. rewrite N.shiftr_spec', testbit_mod_pow2. cmp_cases; reflexivity. }
  rewrite (add_disjoint p).
  2:{ intros n. rewrite Hshl. cmp_cases; cbn [andb]; rewrite ?andb_false_r; try reflexivity.
      rewrite Hout by lia. reflexivity. }
  rewrite add_disjoint.
  2:{ intros n. rewrite N.lor_spec, Hshl, Hshr.
      cmp_cases; cbn [andb orb]; rewrite ?andb_false_r, ?orb_false_r; try reflexivity.
      rewrite Hout by lia. reflexivity. }
  apply N.bits_inj. intros n. rewrite Hlay, !N.lor_spec, Hshl, Hshr.
  cmp_cases; cbn [andb orb]; rewrite ?orb_false_r; try reflexivity.
  - rewrite Hout by lia. reflexivity.
  - rewrite Hout by lia. reflexivity.
  - rewrite Hout by lia. reflexivity.
Qed.
