(** C15 - guard_ptr algebra on the executable guard / slot models of hazard_pointer (Model/HpSlotsDefs.v) and hazard_eras
    (Model/HeSlotsDefs.v), which are tied to the real guard_ptrs by the differential run of the C18 / C15 checks:
    swap exchanges the two guards TOGETHER WITH their slots and touches nothing else. (reset / move / copy: Proof/HpSlots.v) *)
From Coq Require Import List Arith Lia Bool.
From XV Require Import Model.HpSlotsDefs Proof.HpSlots Model.HeSlotsDefs Proof.HeSlots.
Import ListNotations.

Lemma nth_error_lt {X} (l : list X) i x : nth_error l i = Some x -> i < length l.
Proof. intro H. apply nth_error_Some. congruence. Qed.

Theorem hp_swap_exchanges : forall cfg st a b ga gb,
  get_g st a = Some ga -> get_g st b = Some gb ->
  let st' := state_after cfg st (GSwap a b) in
  outcome_of cfg st (GSwap a b) = Ok /\
  get_g st' b = Some ga /\ (a <> b -> get_g st' a = Some gb) /\
  (forall g, g <> a -> g <> b -> get_g st' g = get_g st g) /\
  pl st' = pl st /\ length (guards st') = length (guards st).
Proof.
  intros cfg st a b ga gb Ha Hb. unfold state_after, outcome_of, step. rewrite Ha, Hb. cbn [fst snd].
  unfold get_g, put_g in *. cbn [guards pl].
  pose proof (nth_error_lt _ _ _ Ha) as La. pose proof (nth_error_lt _ _ _ Hb) as Lb.
  repeat split.
  - apply nth_error_set_nth_eq. rewrite set_nth_length. exact Lb.
  - intro Hn. rewrite nth_error_set_nth_neq by congruence. apply nth_error_set_nth_eq. exact La.
  - intros g Hga Hgb. rewrite nth_error_set_nth_neq by congruence. rewrite nth_error_set_nth_neq by congruence. reflexivity.
  - rewrite !set_nth_length. reflexivity.
Qed.

(** the slot travels with the guard: after the swap guard b protects through the slot guard a had, and vice versa *)
Corollary hp_swap_moves_slots : forall cfg st a b ga gb, a <> b ->
  get_g st a = Some ga -> get_g st b = Some gb ->
  let st' := state_after cfg st (GSwap a b) in
  option_map g_hp (get_g st' a) = Some (g_hp gb) /\ option_map g_hp (get_g st' b) = Some (g_hp ga) /\
  option_map g_ptr (get_g st' a) = Some (g_ptr gb) /\ option_map g_ptr (get_g st' b) = Some (g_ptr ga).
Proof.
  intros cfg st a b ga gb Hn Ha Hb st'. destruct (hp_swap_exchanges cfg st a b ga gb Ha Hb) as (_ & Hb' & Ha' & _).
  fold st' in Hb', Ha'. rewrite Hb', (Ha' Hn). cbn. auto.
Qed.

Theorem he_swap_exchanges : forall cfg st a b ga gb,
  h_get st a = Some ga -> h_get st b = Some gb ->
  let st' := snd (h_step_g cfg st (GSwap a b)) in
  fst (fst (h_step_g cfg st (GSwap a b))) = Ok /\
  h_get st' b = Some ga /\ (a <> b -> h_get st' a = Some gb) /\
  (forall g, g <> a -> g <> b -> h_get st' g = h_get st g) /\
  hpool st' = hpool st /\ h_clock st' = h_clock st.
Proof.
  intros cfg st a b ga gb Ha Hb. unfold h_step_g. rewrite Ha, Hb. cbn [fst snd].
  unfold h_get, h_put, h_with_guards in *. cbn [h_guards hpool h_clock].
  pose proof (nth_error_lt _ _ _ Ha) as La. pose proof (nth_error_lt _ _ _ Hb) as Lb.
  repeat split.
  - apply nth_error_set_nth_eq. rewrite set_nth_length. exact Lb.
  - intro Hn. rewrite nth_error_set_nth_neq by congruence. apply nth_error_set_nth_eq. exact La.
  - intros g Hga Hgb. rewrite nth_error_set_nth_neq by congruence. rewrite nth_error_set_nth_neq by congruence. reflexivity.
Qed.
