(** Index arithmetic of xenium::detail::nikolaev_scq (gen/ScqGen.v): remap shift, cache-line
    remapping is a bijection on positions, signed difference. *)
From Coq Require Import NArith ZArith Lia Bool.
From XV Require Import Base.Word gen.ScqGen.
Local Open Scope N_scope.

Lemma ipc_eq : C_indexes_per_cacheline = 8.
Proof. reflexivity. Qed.

(** * (a) calc_remap_shift *)
Lemma calc_remap_shift_pow2 k :
  calc_remap_shift (2 ^ k) = if k <? 3 then 0 else k - 2.
Proof.
  unfold calc_remap_shift, flbs, wdiv. rewrite ipc_eq.
  destruct (N.ltb_spec k 3) as [Hk|Hk].
  - rewrite N.div_small; [reflexivity|].
    change 8 with (2 ^ 3). apply N.pow_lt_mono_r; lia.
  - replace k with (3 + (k - 3)) at 1 by lia. rewrite N.pow_add_r. change (2 ^ 3) with 8.
    rewrite N.mul_comm, N.div_mul by lia.
    rewrite N.size_log2 by (apply N.pow_nonzero; lia).
    rewrite N.log2_pow2 by lia. lia.
Qed.

Theorem calc_remap_shift_spec k : k <= 40 ->
  (k < 3 -> calc_remap_shift (2 ^ k) = 0) /\
  (3 <= k -> calc_remap_shift (2 ^ k) = k - 2 /\ 2 ^ calc_remap_shift (2 ^ k) * 8 = 2 * 2 ^ k).
Proof.
  intros _. rewrite calc_remap_shift_pow2. split; intros Hk.
  - destruct (N.ltb_spec k 3); [reflexivity|lia].
  - destruct (N.ltb_spec k 3); [lia|]. split; [reflexivity|].
    replace k with (N.succ (N.succ (k - 2))) at 2 by lia.
    rewrite !N.pow_succ_r'. lia.
Qed.

(** the shift used by the queue for n = 2*capacity = 2^m *)
Lemma calc_remap_shift_half m : 1 <= m ->
  calc_remap_shift (2 ^ m / 2) = if m <=? 3 then 0 else m - 3.
Proof.
  intros Hm. replace m with (N.succ (m - 1)) at 1 by lia.
  rewrite N.pow_succ_r', N.mul_comm, N.div_mul by lia.
  rewrite calc_remap_shift_pow2.
  destruct (N.ltb_spec (m - 1) 3), (N.leb_spec m 3); lia.
Qed.

(** * bit-level helpers *)
Lemma pow2_nz m : 2 ^ m <> 0.
Proof. apply N.pow_nonzero. discriminate. Qed.

Lemma lt_pow2_shiftr a m : a < 2 ^ m <-> N.shiftr a m = 0.
Proof. rewrite N.shiftr_div_pow2. symmetry. apply N.div_small_iff. apply pow2_nz. Qed.

Lemma lor_lt_pow2 a b m : a < 2 ^ m -> b < 2 ^ m -> N.lor a b < 2 ^ m.
Proof.
  rewrite !lt_pow2_shiftr. intros Ha Hb. rewrite N.shiftr_lor, Ha, Hb. reflexivity.
Qed.

Lemma mask_eq m : m <= 63 -> wsub 64 (2 ^ m) 1 = N.ones m.
Proof.
  intros Hm. assert (Hp := pow2_pos m).
  rewrite wsub_small; [|lia|apply N.pow_lt_mono_r; lia].
  rewrite N.ones_equiv, N.pred_sub. reflexivity.
Qed.

Lemma mod_pow2_mod a w m : m <= w -> (a mod 2 ^ w) mod 2 ^ m = a mod 2 ^ m.
Proof.
  intros Hm. replace w with (m + (w - m)) by lia. rewrite N.pow_add_r.
  rewrite N.mod_mul_r by apply pow2_nz.
  rewrite N.mul_comm, N.mod_add by apply pow2_nz.
  apply N.mod_mod. apply pow2_nz.
Qed.

(** normal form of [remap_index] for n = 2^m *)
Lemma remap_index_eq idx s m : m <= 63 ->
  remap_index idx s (2 ^ m)
  = N.lor (((idx / 2) mod 2 ^ m) / 2 ^ s) (((idx / 2) * 8) mod 2 ^ m).
Proof.
  intros Hm. unfold remap_index, wshr, wmul. rewrite ipc_eq, mask_eq by exact Hm.
  rewrite !N.land_ones, !N.shiftr_div_pow2. change (2 ^ 1) with 2.
  rewrite mod_pow2_mod by lia. reflexivity.
Qed.

(** * (b) range *)
Theorem remap_index_range m idx shift : 1 <= m <= 41 -> idx < 2 ^ 64 ->
  remap_index idx shift (2 ^ m) < 2 ^ m.
Proof.
  intros Hm _. rewrite remap_index_eq by lia.
  assert (Hn := pow2_nz m).
  apply lor_lt_pow2.
  - set (x := (idx / 2) mod 2 ^ m).
    assert (Hx : x < 2 ^ m) by (apply N.mod_lt; exact Hn). clearbody x.
    apply N.le_lt_trans with x; [|exact Hx].
    apply N.div_le_upper_bound; [apply pow2_nz|].
    assert (Hs := pow2_pos shift).
    replace x with (1 * x) at 1 by lia. apply N.mul_le_mono_r. lia.
  - apply N.mod_lt. exact Hn.
Qed.

(** * (c) the remapping is a bijection on positions *)
Lemma remap_index_pos_only idx s m : m <= 63 ->
  remap_index idx s (2 ^ m) = remap_index (2 * ((idx / 2) mod 2 ^ m)) s (2 ^ m).
Proof.
  intros Hm. rewrite !remap_index_eq by exact Hm.
  assert (Hn := pow2_nz m).
  rewrite (N.mul_comm 2), N.div_mul by lia.
  rewrite N.mod_mod by exact Hn.
  rewrite (N.mul_mod_idemp_l (idx / 2) 8) by exact Hn. reflexivity.
Qed.

Lemma remap_small m r : m <= 3 -> r < 2 ^ m ->
  N.lor ((r mod 2 ^ m) / 2 ^ 0) ((r * 8) mod 2 ^ m) = r.
Proof.
  intros Hm Hr. rewrite N.mod_small by exact Hr. change (2 ^ 0) with 1. rewrite N.div_1_r.
  replace (r * 8) with (r * 2 ^ (3 - m) * 2 ^ m).
  - rewrite N.mod_mul by apply pow2_nz. apply N.lor_0_r.
  - rewrite <- N.mul_assoc, <- N.pow_add_r. replace (3 - m + m) with 3 by lia. reflexivity.
Qed.

Lemma lor_disjoint_add hi lo : hi < 8 -> N.lor hi (lo * 8) = lo * 8 + hi.
Proof.
  intros Hhi.
  assert (Hd : N.land hi (lo * 8) = 0).
  { rewrite <- (N.mod_small hi (2 ^ 3)) by exact Hhi. rewrite <- N.land_ones.
    rewrite <- N.land_assoc. rewrite (N.land_comm (N.ones 3)), N.land_ones.
    change (2 ^ 3) with 8. rewrite N.mod_mul by discriminate. apply N.land_0_r. }
  rewrite <- N.lxor_lor by exact Hd. rewrite <- N.add_nocarry_lxor by exact Hd. lia.
Qed.

Lemma pow2_split m : 3 <= m -> 2 ^ m = 2 ^ (m - 3) * 8.
Proof.
  intros Hm. replace m with ((m - 3) + 3) at 1 by lia. rewrite N.pow_add_r. reflexivity.
Qed.

(** for m > 3 the position r = hi * 2^(m-3) + lo is sent to lo * 8 + hi *)
Lemma remap_large m r : 3 < m -> r < 2 ^ m ->
  N.lor ((r mod 2 ^ m) / 2 ^ (m - 3)) ((r * 8) mod 2 ^ m)
  = (r mod 2 ^ (m - 3)) * 8 + r / 2 ^ (m - 3).
Proof.
  intros Hm Hr. rewrite (N.mod_small r) by exact Hr.
  assert (Hs : 2 ^ m = 2 ^ (m - 3) * 8) by (apply pow2_split; lia).
  assert (Hsn := pow2_nz (m - 3)).
  assert (Hdm := N.div_mod r (2 ^ (m - 3)) Hsn).
  assert (Hlo := N.mod_lt r (2 ^ (m - 3)) Hsn).
  assert (Hhi : r / 2 ^ (m - 3) < 8).
  { apply N.div_lt_upper_bound; [exact Hsn|]. rewrite <- Hs. exact Hr. }
  assert (Hl : (r * 8) mod 2 ^ m = (r mod 2 ^ (m - 3)) * 8).
  { rewrite Hdm at 1.
    replace ((2 ^ (m - 3) * (r / 2 ^ (m - 3)) + r mod 2 ^ (m - 3)) * 8)
      with (r mod 2 ^ (m - 3) * 8 + (r / 2 ^ (m - 3)) * 2 ^ m) by (rewrite Hs; lia).
    rewrite N.mod_add by apply pow2_nz. apply N.mod_small. rewrite Hs. lia. }
  rewrite Hl. apply lor_disjoint_add. exact Hhi.
Qed.

Definition scq_shift (m : N) : N := if m <=? 3 then 0 else m - 3.

(** explicit value of the remapped position *)
Lemma remap_index_pos_value m p : 1 <= m <= 41 -> p < 2 ^ m ->
  remap_index (2 * p) (scq_shift m) (2 ^ m)
  = if m <=? 3 then p else (p mod 2 ^ (m - 3)) * 8 + p / 2 ^ (m - 3).
Proof.
  intros Hm Hp. rewrite remap_index_eq by lia.
  rewrite (N.mul_comm 2), N.div_mul by lia. unfold scq_shift.
  destruct (N.leb_spec m 3).
  - apply remap_small; [lia|exact Hp].
  - apply remap_large; [lia|exact Hp].
Qed.

Lemma remap_index_inj m p1 p2 : 1 <= m <= 41 -> p1 < 2 ^ m -> p2 < 2 ^ m ->
  remap_index (2 * p1) (scq_shift m) (2 ^ m) = remap_index (2 * p2) (scq_shift m) (2 ^ m) ->
  p1 = p2.
Proof.
  intros Hm H1 H2. rewrite !remap_index_pos_value by assumption.
  destruct (N.leb_spec m 3) as [|Hm3]; [tauto|].
  assert (Hs : 2 ^ m = 2 ^ (m - 3) * 8) by (apply pow2_split; lia).
  assert (Hsn := pow2_nz (m - 3)).
  assert (Hd1 := N.div_mod p1 _ Hsn). assert (Hd2 := N.div_mod p2 _ Hsn).
  assert (Hh1 : p1 / 2 ^ (m - 3) < 8)
    by (apply N.div_lt_upper_bound; [exact Hsn|rewrite <- Hs; exact H1]).
  assert (Hh2 : p2 / 2 ^ (m - 3) < 8)
    by (apply N.div_lt_upper_bound; [exact Hsn|rewrite <- Hs; exact H2]).
  set (h1 := p1 / 2 ^ (m - 3)) in *. set (h2 := p2 / 2 ^ (m - 3)) in *.
  set (l1 := p1 mod 2 ^ (m - 3)) in *. set (l2 := p2 mod 2 ^ (m - 3)) in *.
  clearbody h1 h2 l1 l2. intros He.
  assert (h1 = h2) by lia. assert (l1 = l2) by lia. subst. reflexivity.
Qed.

Lemma remap_index_surj m y : 1 <= m <= 41 -> y < 2 ^ m ->
  exists p, p < 2 ^ m /\ remap_index (2 * p) (scq_shift m) (2 ^ m) = y.
Proof.
  intros Hm Hy. destruct (N.leb_spec m 3) as [Hm3|Hm3].
  - exists y. split; [exact Hy|]. rewrite remap_index_pos_value by assumption.
    destruct (N.leb_spec m 3); [reflexivity|lia].
  - assert (Hs : 2 ^ m = 2 ^ (m - 3) * 8) by (apply pow2_split; lia).
    assert (Hsn := pow2_nz (m - 3)).
    set (S := 2 ^ (m - 3)) in *.
    assert (Hlo : y / 8 < S) by (apply N.div_lt_upper_bound; lia).
    assert (Hhi : y mod 8 < 8) by (apply N.mod_lt; discriminate).
    assert (Hdm := N.div_mod y 8 ltac:(discriminate)).
    exists (S * (y mod 8) + y / 8).
    assert (Hp : S * (y mod 8) + y / 8 < 2 ^ m) by (rewrite Hs; nia).
    split; [exact Hp|]. rewrite remap_index_pos_value by assumption.
    destruct (N.leb_spec m 3); [lia|]. fold S.
    rewrite (N.add_comm (S * _)), (N.mul_comm S), N.mod_add, N.div_add by exact Hsn.
    rewrite (N.mod_small (y / 8) S), (N.div_small (y / 8) S) by exact Hlo. lia.
Qed.

Theorem remap_index_bijective m : 1 <= m <= 41 ->
  let n := 2 ^ m in
  let shift := if m <=? 3 then 0 else m - 3 in
  shift = calc_remap_shift (n / 2) /\
  (forall p1 p2, p1 < n -> p2 < n ->
     remap_index (2 * p1) shift n = remap_index (2 * p2) shift n -> p1 = p2) /\
  (forall y, y < n -> exists p, p < n /\ remap_index (2 * p) shift n = y) /\
  (forall idx, remap_index idx shift n = remap_index (2 * ((idx / 2) mod n)) shift n).
Proof.
  intros Hm n shift. subst n shift. fold (scq_shift m). repeat split.
  - symmetry. apply calc_remap_shift_half. lia.
  - intros p1 p2. apply remap_index_inj. exact Hm.
  - intros y. apply remap_index_surj. exact Hm.
  - intros idx. apply remap_index_pos_only. lia.
Qed.

(** * (d) signed difference *)
Theorem diff_signed a b : a < 2 ^ 64 -> b < 2 ^ 64 ->
  a < b + 2 ^ 63 -> b < a + 2 ^ 63 ->          (* |a - b| < 2^63 *)
  slt 64 (diff a b) 0 = true <-> a < b.
Proof.
  intros Ha Hb Hab Hba. unfold diff, slt, sval.
  change (64 - 1) with 63.
  assert (E64 : 2 ^ 64 = 18446744073709551616) by reflexivity.
  assert (E63 : 2 ^ 63 = 9223372036854775808) by reflexivity.
  change (0 <? 2 ^ 63) with true. cbv iota.
  rewrite Z.ltb_lt.
  destruct (N.lt_ge_cases a b) as [Hlt|Hge].
  - rewrite wsub_wrap by assumption.
    destruct (N.ltb_spec (a + 2 ^ 64 - b) (2 ^ 63)); rewrite E64, E63 in *; lia.
  - rewrite wsub_small by assumption.
    destruct (N.ltb_spec (a - b) (2 ^ 63)); rewrite E64, E63 in *; lia.
Qed.
