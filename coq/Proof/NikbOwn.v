(** nikolaev_bounded_queue model, invariant layer 2: tickets, slots and ownership of the storage indices.
    - every dequeue / enqueue ticket below head / tail has a fate; a ticket is held by at most one thread;
    - a slot that holds an index holds it for exactly one published, not yet taken ticket (its cycle and
      position), and [g_own] records exactly that place;
    - a storage index is in exactly one place: a slot of the free ring, a slot of the allocated ring, or
      held by exactly one thread between its dequeue and its enqueue.
    (The safe bit plays no role here.)  All under [g_ovf = false]. *)
From Coq Require Import NArith List Bool Lia PeanoNat.
From XV Require Import Base.Word Conc.Lts Conc.Ev gen.ScqGen Model.NikbDefs Proof.NikbArith Proof.NikbBase Proof.NikbWf.
Import ListNotations.
Local Open Scope N_scope.

Definition inring (q : rid) (T : N) : owner := match q with RA => OFull T | RF => OFree T end.
(** thread t holds the index and will enqueue it into ring q *)
Definition held (q : rid) (t : nat) : owner := match q with RA => OWrite t | RF => ORead t end.

Definition dtk (p : pc) : option (rid * N) :=
  match p with D2 q _ hd _ | D3 q _ hd _ | D4 q _ hd _ _ | D5 q _ hd _ _ _ => Some (q, hd) | _ => None end.
Definition etk (p : pc) : option (rid * N) :=
  match p with E2 q _ _ _ tl | E3 q _ _ _ tl _ | E4 q _ _ _ tl _ => Some (q, tl) | _ => None end.
Definition hidx (p : pc) : option (rid * N) :=
  match p with E1 q _ idx _ | E2 q _ idx _ _ | E3 q _ idx _ _ _ | E4 q _ idx _ _ _ => Some (q, idx) | _ => None end.

Lemma inring_inj q T q' T' : inring q T = inring q' T' -> q = q' /\ T = T'.
Proof. destruct q, q'; cbn; intros H; inversion H; auto. Qed.
Lemma inring_held q T q' t : inring q T <> held q' t.
Proof. destruct q, q'; discriminate. Qed.
Lemma held_inj q t q' t' : held q t = held q' t' -> q = q' /\ t = t'.
Proof. destruct q, q'; cbn; intros H; inversion H; auto. Qed.

Lemma some_pair_inj (a a' : rid) (b b' : N) : Some (a, b) = Some (a', b') -> a = a' /\ b = b'.
Proof. intros H. inversion H. split; reflexivity. Qed.

Set Default Proof Using "All".
Section L2.
  Variable k R : N.
  Hypothesis Hk : k <= 40.
  Notation cap := (2 ^ k).
  Notation step := (step cap R).
  Notation ecyc := (ecyc k).
  Notation eidx := (eidx k).
  Notation bot := (bot k).
  Notation wfe := (wfe k).
  Notation wfi := (wfi k).
  Notation Inv1 := (Inv1 k).

  Definition slot (st : state) (q : rid) (T : N) : N := rdata (rg st q) (phys cap (2 * T)).

  Record RI (st : state) (q : rid) : Prop := mkRI {
    riA1 : forall H, g_dq (rg st q) H <> DNone -> 2 * H + 2 <= rhead (rg st q);
    riA2 : forall T, g_eq (rg st q) T <> ENone -> 2 * T + 2 <= rtail (rg st q);
    riC1 : forall H u, g_dq (rg st q) H = DHeld u -> dtk (th st u) = Some (q, 2 * H);
    riC2 : forall T u, g_eq (rg st q) T = EHeld u -> etk (th st u) = Some (q, 2 * T);
    riS2 : forall T, 2 * T < 2 ^ 62 -> eidx (slot st q T) < cap -> ecyc (slot st q T) = T / nn cap ->
         g_eq (rg st q) T = EPub (eidx (slot st q T)) /\ g_own st (eidx (slot st q T)) = inring q T /\
         (forall i, g_dq (rg st q) T <> DTaken i);
    riS3 : forall T, 2 * T < 2 ^ 62 -> eidx (slot st q T) = bot -> ecyc (slot st q T) = T / nn cap ->
         (exists i, g_dq (rg st q) T = DTaken i) \/ g_dq (rg st q) T = DLeft;
    riS4 : forall i T, i < cap -> g_own st i = inring q T ->
         2 * T < 2 ^ 62 /\ eidx (slot st q T) = i /\ ecyc (slot st q T) = T / nn cap;
    riS5 : forall T i, g_eq (rg st q) T = EPub i ->
         i < cap /\ (g_dq (rg st q) T = DTaken i \/
                     ((forall j, g_dq (rg st q) T <> DTaken j) /\ eidx (slot st q T) = i /\ ecyc (slot st q T) = T / nn cap));
    riS6 : forall H i, g_dq (rg st q) H = DTaken i -> g_eq (rg st q) H = EPub i }.

  Definition T2 (st : state) (t : nat) (p : pc) : Prop :=
    (forall q hd, dtk p = Some (q, hd) -> g_dq (rg st q) (hd / 2) = DHeld t) /\
    (forall q tl, etk p = Some (q, tl) -> g_eq (rg st q) (tl / 2) = EHeld t) /\
    (forall q idx, hidx p = Some (q, idx) -> g_own st idx = held q t /\ idx < cap) /\
    match p with
    | D3 q x hd e => eidx e < cap /\ eidx (slot st q (hd / 2)) = eidx e /\ ecyc (slot st q (hd / 2)) = ecyc hd
    | _ => True
    end.

  Definition OI (st : state) : Prop :=
    forall i u q, g_own st i = held q u -> hidx (th st u) = Some (q, i).

  Definition Inv2 (st : state) : Prop := (forall q, RI st q) /\ (forall t, T2 st t (th st t)) /\ OI st.

  (** * the initial state *)
  Lemma nn_pos' : 0 < nn cap. Proof. apply (nn_pos k Hk). Qed.

  Lemma phys_pos_inj p a : p < nn cap -> a < nn cap -> phys cap (2 * p) = phys cap (2 * a) -> p = a.
  Proof.
    intros Hp Ha H. apply (phys_inj k Hk) in H. rewrite !N.mod_small in H by assumption. exact H.
  Qed.

  Lemma free_data_fold l : forall f p, p < nn cap -> (forall i, In i l -> N.of_nat i < nn cap) ->
    fold_left (fun f i => setf f (phys cap (2 * N.of_nat i)) (nn cap + N.of_nat i)) l f (phys cap (2 * p))
    = if existsb (fun i => N.of_nat i =? p) l then nn cap + p else f (phys cap (2 * p)).
  Proof.
    induction l as [|a l IH]; intros f p Hp Hl; cbn [fold_left existsb]; [reflexivity|].
    rewrite IH by (try assumption; intros i Hi; apply Hl; right; exact Hi).
    destruct (existsb (fun i => N.of_nat i =? p) l); [rewrite orb_true_r; reflexivity|]. rewrite orb_false_r.
    unfold setf. destruct (N.eqb_spec (N.of_nat a) p) as [<-|Hne].
    - rewrite N.eqb_refl. reflexivity.
    - destruct (N.eqb_spec (phys cap (2 * p)) (phys cap (2 * N.of_nat a))) as [He|_]; [|reflexivity].
      exfalso. apply Hne. symmetry. apply phys_pos_inj; [exact Hp|apply Hl; left; reflexivity|exact He].
  Qed.

  Lemma free_data_at p : p < nn cap -> free_data cap (phys cap (2 * p)) = if p <? cap then nn cap + p else ones64.
  Proof.
    intros Hp. unfold free_data. rewrite free_data_fold; [|exact Hp|].
    - destruct (N.ltb_spec p cap) as [Hlt|Hge].
      + replace (existsb _ _) with true; [reflexivity|]. symmetry. apply existsb_exists.
        exists (N.to_nat p). split; [apply in_seq; lia|apply N.eqb_eq; lia].
      + replace (existsb _ _) with false; [reflexivity|]. symmetry. apply not_true_is_false. intros H.
        apply existsb_exists in H. destruct H as (i & Hi & He). apply in_seq in Hi. apply N.eqb_eq in He. lia.
    - intros i Hi. apply in_seq in Hi. unfold nn. lia.
  Qed.

  Lemma slot_init_RF T : slot (init cap) RF T = if T mod nn cap <? cap then nn cap + T mod nn cap else ones64.
  Proof.
    unfold slot. cbn [init rgs rdata]. rewrite (phys_tick k Hk). apply free_data_at. apply N.mod_lt. assert (H := nn_pos'). lia.
  Qed.

  Lemma cap_lt_nn : cap < nn cap. Proof. unfold nn. assert (H := cap_pos k Hk). lia. Qed.

  Lemma cyc_small_ne_cmax T : 2 * T < 2 ^ 62 -> T / nn cap <> cmax k.
  Proof.
    intros HT. assert (H := ecyc_ctr k Hk (2 * T) HT). rewrite (ecyc_tick k Hk) in H.
    assert (H2 := CB_lt_cmax k Hk). lia.
  Qed.

  Lemma Inv2_init : Inv2 (init cap).
  Proof.
    assert (Hn := nn_pos'). assert (Hcn := cap_lt_nn). assert (Hb := cap_lt_bot k Hk).
    split; [|split].
    - intros [|].
      + (* RA *) constructor; cbn [init rgs g_dq g_eq rhead rtail th]; unfold slot; cbn [init rgs rdata g_dq g_eq g_own].
        * intros H Hx. congruence.
        * intros T Hx. congruence.
        * intros H u Hx. discriminate.
        * intros T u Hx. discriminate.
        * intros T HT Hi. rewrite (eidx_ones64 k Hk) in Hi. lia.
        * intros T HT _ Hc. rewrite (ecyc_ones64 k Hk) in Hc. exfalso. apply (cyc_small_ne_cmax T HT). symmetry. exact Hc.
        * intros i T Hi Ho. discriminate.
        * intros T i Hx. discriminate.
        * intros H i Hx. discriminate.
      + (* RF *) constructor; cbn [init rgs g_dq g_eq rhead rtail th].
        * intros H Hx. congruence.
        * intros T Hx. destruct (N.ltb_spec T cap); [lia|congruence].
        * intros H u Hx. discriminate.
        * intros T u Hx. destruct (T <? cap); discriminate.
        * intros T HT. rewrite slot_init_RF. destruct (N.ltb_spec (T mod nn cap) cap) as [Hlt|Hge].
          -- destruct (f_nn_i k R Hk _ Hlt) as [A C]. rewrite A, C. intros _ Hc.
             assert (HT0 : T < nn cap). { symmetry in Hc. apply N.div_small_iff in Hc; lia. }
             rewrite N.mod_small in * by exact HT0. cbn [g_own].
             destruct (N.ltb_spec T cap); [|lia]. ssplit; [reflexivity|reflexivity|intros; discriminate].
          -- rewrite (eidx_ones64 k Hk). lia.
        * intros T HT. rewrite slot_init_RF. destruct (N.ltb_spec (T mod nn cap) cap) as [Hlt|Hge].
          -- destruct (f_nn_i k R Hk _ Hlt) as [A C]. rewrite C. lia.
          -- rewrite (ecyc_ones64 k Hk). intros _ Hc. exfalso. apply (cyc_small_ne_cmax T HT). symmetry. exact Hc.
        * intros i T Hi Ho. cbn [g_own inring] in Ho. inversion Ho; subst T.
          assert (E62 : 2 ^ 62 = 4611686018427387904) by reflexivity.
          assert (Hc := cap3_small k Hk). split; [lia|]. rewrite slot_init_RF.
          rewrite N.mod_small by lia. destruct (N.ltb_spec i cap); [|lia].
          destruct (f_nn_i k R Hk _ Hi) as [A C]. rewrite A, C. split; [reflexivity|]. symmetry. apply N.div_small. lia.
        * intros T i Hx. destruct (N.ltb_spec T cap) as [Hlt|]; [|discriminate]. inversion Hx; subst i.
          split; [exact Hlt|]. right. split; [intros; discriminate|]. rewrite slot_init_RF.
          rewrite N.mod_small by lia. destruct (N.ltb_spec T cap); [|lia].
          destruct (f_nn_i k R Hk _ Hlt) as [A C]. rewrite A, C. split; [reflexivity|]. symmetry. apply N.div_small. lia.
        * intros H i Hx. discriminate.
    - intros t. cbn [init th]. unfold T2. cbn [dtk etk hidx]. ssplit; try (intros; discriminate). exact I.
    - intros i u q Hx. cbn [init g_own] in Hx. destruct q; discriminate.
  Qed.

  (** * steps that change only the program point of t (and possibly counters / thresholds) *)
  Definition same_core (s s' : state) : Prop :=
    (forall q, (forall j, rdata (rg s' q) j = rdata (rg s q) j) /\ (forall T, g_eq (rg s' q) T = g_eq (rg s q) T) /\
               (forall H, g_dq (rg s' q) H = g_dq (rg s q) H) /\
               rhead (rg s q) <= rhead (rg s' q) /\ rtail (rg s q) <= rtail (rg s' q)) /\
    (forall i, g_own s' i = g_own s i).

  Lemma slot_same s s' q T : (forall j, rdata (rg s' q) j = rdata (rg s q) j) -> slot s' q T = slot s q T.
  Proof. intros H. unfold slot. apply H. Qed.

  Lemma T2_frame s s' u p : same_core s s' -> T2 s u p -> T2 s' u p.
  Proof.
    intros [Hq Ho] (A & B & C & D). unfold T2. ssplit.
    - intros q hd Hd. destruct (Hq q) as (_ & _ & Hdq & _). rewrite Hdq. apply A. exact Hd.
    - intros q tl Hd. destruct (Hq q) as (_ & Heq & _). rewrite Heq. apply B. exact Hd.
    - intros q idx Hd. rewrite Ho. apply C. exact Hd.
    - destruct p; try exact I. destruct (Hq q) as (Hda & _). rewrite (slot_same s s' q _ Hda). exact D.
  Qed.

  Lemma Inv2_pc_only s s' t p' :
    Inv2 s -> same_core s s' -> th s' = upd (th s) t p' ->
    dtk p' = dtk (th s t) -> etk p' = etk (th s t) -> hidx p' = hidx (th s t) ->
    match p' with
    | D3 q x hd e => eidx e < cap /\ eidx (slot s q (hd / 2)) = eidx e /\ ecyc (slot s q (hd / 2)) = ecyc hd
    | _ => True end -> Inv2 s'.
  Proof.
    intros (HR & HT & HO) Hc Hth Hd He Hh H3. pose proof Hc as [Hq Ho].
    assert (Hdtk : forall u, dtk (th s' u) = dtk (th s u)).
    { intros u. rewrite Hth. destruct (Nat.eq_dec u t) as [->|Hne]; [rewrite upd_same; exact Hd|rewrite upd_other by exact Hne; reflexivity]. }
    assert (Hetk : forall u, etk (th s' u) = etk (th s u)).
    { intros u. rewrite Hth. destruct (Nat.eq_dec u t) as [->|Hne]; [rewrite upd_same; exact He|rewrite upd_other by exact Hne; reflexivity]. }
    assert (Hhidx : forall u, hidx (th s' u) = hidx (th s u)).
    { intros u. rewrite Hth. destruct (Nat.eq_dec u t) as [->|Hne]; [rewrite upd_same; exact Hh|rewrite upd_other by exact Hne; reflexivity]. }
    split; [|split].
    - intros q. destruct (Hq q) as (Hda & Heq & Hdq & Hhd & Htl). destruct (HR q) as [a1 a2 c1 c2 s2 s3 s4 s5 s6].
      assert (Hsl : forall T, slot s' q T = slot s q T) by (intros T; apply slot_same; exact Hda).
      constructor.
      + intros H Hx. rewrite Hdq in Hx. specialize (a1 H Hx). lia.
      + intros T Hx. rewrite Heq in Hx. specialize (a2 T Hx). lia.
      + intros H u Hx. rewrite Hdq in Hx. rewrite Hdtk. apply c1. exact Hx.
      + intros T u Hx. rewrite Heq in Hx. rewrite Hetk. apply c2. exact Hx.
      + intros T HT2. rewrite Hsl, Heq, Ho. intros H1 H2. destruct (s2 T HT2 H1 H2) as (X & Y & Z). ssplit; [exact X|exact Y|].
        intros i. rewrite Hdq. apply Z.
      + intros T HT2. rewrite Hsl, Hdq. apply s3. exact HT2.
      + intros i T Hi. rewrite Ho, Hsl. apply s4. exact Hi.
      + intros T i. rewrite Heq, Hdq, Hsl. intros Hx. destruct (s5 T i Hx) as [X Y]. split; [exact X|].
        destruct Y as [Y|(Y1 & Y2)]; [left; exact Y|right; split; [exact Y1|exact Y2]].
      + intros H i. rewrite Hdq, Heq. apply s6.
    - intros u. rewrite Hth. destruct (Nat.eq_dec u t) as [->|Hne]; [rewrite upd_same|rewrite upd_other by exact Hne; apply (T2_frame s s'); [exact Hc|apply HT]].
      pose proof (HT t) as (A & B & C & D). unfold T2. ssplit.
      + intros q hd Hx. destruct (Hq q) as (_ & _ & Hdq & _). rewrite Hdq. apply A. rewrite <- Hd. exact Hx.
      + intros q tl Hx. destruct (Hq q) as (_ & Heq & _). rewrite Heq. apply B. rewrite <- He. exact Hx.
      + intros q idx Hx. rewrite Ho. apply C. rewrite <- Hh. exact Hx.
      + destruct p'; try exact I. destruct (Hq q) as (Hda & _). rewrite (slot_same s s' q _ Hda). exact H3.
    - intros i u q. rewrite Ho, Hhidx. apply HO.
  Qed.

  (** * a dequeue ticket changes its fate (handed out: DNone -> DHeld t; given up: DHeld t -> DLeft),
      possibly together with a CAS that leaves the index / cycle fields alone (safe bit cleared) or
      advances an empty slot to the cycle of the ticket *)
  Lemma K_dq s s' t q H0 v p' :
    Inv1 s -> Inv2 s -> 2 * H0 < 2 ^ 62 ->
    (forall q', (forall T, g_eq (rg s' q') T = g_eq (rg s q') T) /\
                (forall H, g_dq (rg s' q') H = if rid_eqb q' q && (H =? H0) then v else g_dq (rg s q') H) /\
                rhead (rg s q') <= rhead (rg s' q') /\ rtail (rg s q') <= rtail (rg s' q') /\
                (forall T, 2 * T < 2 ^ 62 ->
                   (eidx (slot s' q' T) = eidx (slot s q' T) /\ ecyc (slot s' q' T) = ecyc (slot s q' T)) \/
                   (q' = q /\ eidx (slot s q T) = bot /\ eidx (slot s' q T) = bot /\
                    (ecyc (slot s' q T) = T / nn cap -> T = H0) /\ v = DLeft))) ->
    (forall i, g_own s' i = g_own s i) -> th s' = upd (th s) t p' ->
    etk p' = None -> etk (th s t) = None -> hidx p' = None -> hidx (th s t) = None ->
    2 * H0 + 2 <= rhead (rg s' q) ->
    ((g_dq (rg s q) H0 = DNone /\ dtk (th s t) = None /\ v = DHeld t /\ dtk p' = Some (q, 2 * H0)) \/
     (g_dq (rg s q) H0 = DHeld t /\ dtk (th s t) = Some (q, 2 * H0) /\ v = DLeft /\ dtk p' = None)) ->
    match p' with D3 _ _ _ _ => False | _ => True end -> Inv2 s'.
  Proof.
    intros [HW HT1] (HR & HT & HO) HH0 Hq Ho Hth Hep Hes Hhp Hhs Hrh Hcase Hn3.
    assert (Hv : v <> DNone /\ (forall i, v <> DTaken i) /\ (forall i, g_dq (rg s q) H0 <> DTaken i))
      by (destruct Hcase as [(A & B & C & D)|(A & B & C & D)]; subst v; rewrite A; ssplit; intros; discriminate).
    destruct Hv as (Hv0 & HvT & HoT).
    (* old fates of other tickets held by t *)
    assert (Ht_other : forall q' H, g_dq (rg s q') H = DHeld t -> q' = q /\ H = H0).
    { intros q' H Hx. destruct (HR q') as [_ _ c1 _ _ _ _ _ _]. specialize (c1 H t Hx).
      destruct Hcase as [(A & B & C & D)|(A & B & C & D)]; rewrite B in c1; [discriminate|].
      apply some_pair_inj in c1. destruct c1 as [E1 E2]. split; [symmetry; exact E1|lia]. }
    assert (Het_other : forall q' T, g_eq (rg s q') T <> EHeld t).
    { intros q' T Hx. destruct (HR q') as [_ _ _ c2 _ _ _ _ _]. specialize (c2 T t Hx). rewrite Hes in c2. discriminate. }
    split; [|split].
    - intros q'. destruct (Hq q') as (Heq & Hdq & Hhd & Htl & Hsl). destruct (HR q') as [a1 a2 c1 c2 s2 s3 s4 s5 s6].
      constructor.
      + intros H. rewrite Hdq. destruct (rid_eqb_spec q' q) as [->|Hnq]; cbn [andb].
        * destruct (N.eqb_spec H H0) as [->|HnH]; [intros _; exact Hrh|intros Hx; specialize (a1 H Hx); lia].
        * intros Hx; specialize (a1 H Hx); lia.
      + intros T. rewrite Heq. intros Hx. specialize (a2 T Hx). lia.
      + intros H u. rewrite Hdq, Hth. destruct (rid_eqb_spec q' q) as [->|Hnq]; cbn [andb].
        * destruct (N.eqb_spec H H0) as [->|HnH].
          -- intros Hx. destruct Hcase as [(A & B & C & D)|(A & B & C & D)]; subst v; [|discriminate].
             inversion Hx; subst u. rewrite upd_same. exact D.
          -- intros Hx. destruct (Nat.eq_dec u t) as [->|Hne]; [destruct (Ht_other q H Hx); contradiction|].
             rewrite upd_other by exact Hne. apply c1. exact Hx.
        * intros Hx. destruct (Nat.eq_dec u t) as [->|Hne]; [destruct (Ht_other q' H Hx); contradiction|].
          rewrite upd_other by exact Hne. apply c1. exact Hx.
      + intros T u. rewrite Heq, Hth. intros Hx. destruct (Nat.eq_dec u t) as [->|Hne]; [exfalso; apply (Het_other q' T Hx)|].
        rewrite upd_other by exact Hne. apply c2. exact Hx.
      + intros T HT2. rewrite Heq, Ho. destruct (Hsl T HT2) as [[E1 E2]|(-> & B1 & B2 & _)].
        * rewrite E1, E2. intros H1 H2. destruct (s2 T HT2 H1 H2) as (X & Y & Z). ssplit; [exact X|exact Y|].
          intros i. rewrite Hdq. destruct (rid_eqb q' q && (T =? H0)); [apply HvT|apply Z].
        * rewrite B2. intros Hx. assert (Hb := cap_lt_bot k Hk). lia.
      + intros T HT2. rewrite Hdq. destruct (Hsl T HT2) as [[E1 E2]|(-> & B1 & B2 & B3 & ->)].
        * rewrite E1, E2. intros H1 H2. destruct (rid_eqb_spec q' q) as [->|Hnq]; cbn [andb]; [|apply s3; assumption].
          destruct (N.eqb_spec T H0) as [->|HnT]; [|apply s3; assumption].
          destruct Hcase as [(A & B & C & D)|(A & B & C & D)]; subst v; [|right; reflexivity].
          exfalso. destruct (s3 H0 HT2 H1 H2) as [[i Hi]|Hi]; rewrite A in Hi; discriminate.
        * intros _ Hc. rewrite rid_eqb_refl. cbn [andb]. rewrite (B3 Hc), N.eqb_refl. right. reflexivity.
      + intros i T Hi. rewrite Ho. intros Hx. destruct (s4 i T Hi Hx) as (X & Y & Z). split; [exact X|].
        destruct (Hsl T X) as [[E1 E2]|(-> & B1 & B2 & _)]; [rewrite E1, E2; split; assumption|].
        exfalso. assert (Hb := cap_lt_bot k Hk). rewrite B1 in Y. lia.
      + intros T i. rewrite Heq, Hdq. intros Hx. destruct (s5 T i Hx) as [X Y]. split; [exact X|].
        assert (HT2 : 2 * T < 2 ^ 62).
        { assert (Hne : g_eq (rg s q') T <> ENone) by (rewrite Hx; discriminate). specialize (a2 T Hne).
          destruct (HW q') as (_ & [_ Hlt] & _). lia. }
        destruct (rid_eqb_spec q' q) as [->|Hnq]; cbn [andb].
        * destruct (N.eqb_spec T H0) as [->|HnT].
          -- destruct Y as [Y|(Y1 & Y2 & Y3)]; [exfalso; apply (HoT i Y)|]. right. split; [exact HvT|].
             destruct (Hsl H0 HT2) as [[E1 E2]|(_ & B1 & _)]; [rewrite E1, E2; split; assumption|].
             exfalso. assert (Hb := cap_lt_bot k Hk). rewrite B1 in Y2. lia.
          -- destruct Y as [Y|(Y1 & Y2 & Y3)]; [left; exact Y|right; split; [exact Y1|]].
             destruct (Hsl T HT2) as [[E1 E2]|(_ & B1 & _)]; [rewrite E1, E2; split; assumption|].
             exfalso. assert (Hb := cap_lt_bot k Hk). rewrite B1 in Y2. lia.
        * destruct Y as [Y|(Y1 & Y2 & Y3)]; [left; exact Y|right; split; [exact Y1|]].
          destruct (Hsl T HT2) as [[E1 E2]|(Hqq & _)]; [rewrite E1, E2; split; assumption|contradiction].
      + intros H i. rewrite Heq, Hdq. destruct (rid_eqb_spec q' q) as [->|Hnq]; cbn [andb]; [|apply s6].
        destruct (N.eqb_spec H H0) as [->|HnH]; [intros Hx; exfalso; apply (HvT i Hx)|apply s6].
    - intros u. rewrite Hth. destruct (Nat.eq_dec u t) as [->|Hne]; [rewrite upd_same|rewrite upd_other by exact Hne].
      + unfold T2. ssplit.
        * intros q' hd Hx. destruct (Hq q') as (_ & Hdq & _). rewrite Hdq.
          destruct Hcase as [(A & B & C & D)|(A & B & C & D)]; rewrite D in Hx; [|discriminate].
          apply some_pair_inj in Hx. destruct Hx as [<- <-]. rewrite rid_eqb_refl. cbn [andb].
          rewrite (N.mul_comm 2 H0), N.div_mul by lia. rewrite N.eqb_refl. exact C.
        * intros q' tl Hx. rewrite Hep in Hx. discriminate.
        * intros q' idx Hx. rewrite Hhp in Hx. discriminate.
        * destruct p'; try exact I. contradiction.
      + pose proof (HT u) as (A & B & C & D). unfold T2. ssplit.
        * intros q' hd Hx. destruct (Hq q') as (_ & Hdq & _). rewrite Hdq. specialize (A q' hd Hx).
          destruct (rid_eqb_spec q' q) as [->|Hnq]; cbn [andb]; [|exact A].
          destruct (N.eqb_spec (hd / 2) H0) as [Heq0|HnH]; [|exact A].
          exfalso. rewrite Heq0 in A. destruct Hcase as [(A' & _)|(A' & _)]; rewrite A' in A; [discriminate|congruence].
        * intros q' tl Hx. destruct (Hq q') as (Heq & _). rewrite Heq. apply B. exact Hx.
        * intros q' idx Hx. rewrite Ho. apply C. exact Hx.
        * destruct (th s u) eqn:Eu; try exact I. destruct D as (D1 & D2 & D3).
          assert (Hhd2 : 2 * (hd / 2) < 2 ^ 62).
          { pose proof (HT1 u) as Hu. rewrite Eu in Hu. cbn [T1] in Hu. destruct Hu as ([Hu1 Hu2] & _). rewrite <- Hu1. exact Hu2. }
          destruct (Hq q0) as (_ & _ & _ & _ & Hsl). destruct (Hsl (hd / 2) Hhd2) as [[E1 E2]|(-> & B1 & _)].
          -- rewrite E1, E2. ssplit; assumption.
          -- exfalso. assert (Hb := cap_lt_bot k Hk). rewrite B1 in D2. lia.
    - intros i u q'. rewrite Ho, Hth. intros Hx. specialize (HO i u q' Hx).
      destruct (Nat.eq_dec u t) as [->|Hne]; [rewrite Hhs in HO; discriminate|rewrite upd_other by exact Hne; exact HO].
  Qed.

  (** * an enqueue ticket changes its fate (handed out: ENone -> EHeld t; given up: EHeld t -> ESkip) *)
  Lemma K_eq s s' t q T0 v p' :
    Inv1 s -> Inv2 s -> 2 * T0 < 2 ^ 62 ->
    (forall q', (forall j, rdata (rg s' q') j = rdata (rg s q') j) /\
                (forall T, g_eq (rg s' q') T = if rid_eqb q' q && (T =? T0) then v else g_eq (rg s q') T) /\
                (forall H, g_dq (rg s' q') H = g_dq (rg s q') H) /\
                rhead (rg s q') <= rhead (rg s' q') /\ rtail (rg s q') <= rtail (rg s' q')) ->
    (forall i, g_own s' i = g_own s i) -> th s' = upd (th s) t p' ->
    dtk p' = None -> dtk (th s t) = None -> hidx p' = hidx (th s t) ->
    2 * T0 + 2 <= rtail (rg s' q) ->
    ((g_eq (rg s q) T0 = ENone /\ etk (th s t) = None /\ v = EHeld t /\ etk p' = Some (q, 2 * T0)) \/
     (g_eq (rg s q) T0 = EHeld t /\ etk (th s t) = Some (q, 2 * T0) /\ v = ESkip /\ etk p' = None)) ->
    Inv2 s'.
  Proof.
    intros [HW HT1] (HR & HT & HO) HT0 Hq Ho Hth Hdp Hds Hh Hrt Hcase.
    assert (Hv : v <> ENone /\ (forall i, v <> EPub i) /\ (forall i, g_eq (rg s q) T0 <> EPub i))
      by (destruct Hcase as [(A & B & C & D)|(A & B & C & D)]; subst v; rewrite A; ssplit; intros; discriminate).
    destruct Hv as (Hv0 & HvP & HoP).
    assert (Ht_other : forall q' T, g_eq (rg s q') T = EHeld t -> q' = q /\ T = T0).
    { intros q' T Hx. destruct (HR q') as [_ _ _ c2 _ _ _ _ _]. specialize (c2 T t Hx).
      destruct Hcase as [(A & B & C & D)|(A & B & C & D)]; rewrite B in c2; [discriminate|].
      apply some_pair_inj in c2. destruct c2 as [E1 E2]. split; [symmetry; exact E1|lia]. }
    assert (Hdt_other : forall q' H, g_dq (rg s q') H <> DHeld t).
    { intros q' H Hx. destruct (HR q') as [_ _ c1 _ _ _ _ _ _]. specialize (c1 H t Hx). rewrite Hds in c1. discriminate. }
    split; [|split].
    - intros q'. destruct (Hq q') as (Hda & Heq & Hdq & Hhd & Htl). destruct (HR q') as [a1 a2 c1 c2 s2 s3 s4 s5 s6].
      assert (Hsl : forall T, slot s' q' T = slot s q' T) by (intros T; apply slot_same; exact Hda).
      constructor.
      + intros H. rewrite Hdq. intros Hx. specialize (a1 H Hx). lia.
      + intros T. rewrite Heq. destruct (rid_eqb_spec q' q) as [->|Hnq]; cbn [andb].
        * destruct (N.eqb_spec T T0) as [->|HnT]; [intros _; exact Hrt|intros Hx; specialize (a2 T Hx); lia].
        * intros Hx; specialize (a2 T Hx); lia.
      + intros H u. rewrite Hdq, Hth. intros Hx. destruct (Nat.eq_dec u t) as [->|Hne]; [exfalso; apply (Hdt_other q' H Hx)|].
        rewrite upd_other by exact Hne. apply c1. exact Hx.
      + intros T u. rewrite Heq, Hth. destruct (rid_eqb_spec q' q) as [->|Hnq]; cbn [andb].
        * destruct (N.eqb_spec T T0) as [->|HnT].
          -- intros Hx. destruct Hcase as [(A & B & C & D)|(A & B & C & D)]; subst v; [|discriminate].
             inversion Hx; subst u. rewrite upd_same. exact D.
          -- intros Hx. destruct (Nat.eq_dec u t) as [->|Hne]; [destruct (Ht_other q T Hx); contradiction|].
             rewrite upd_other by exact Hne. apply c2. exact Hx.
        * intros Hx. destruct (Nat.eq_dec u t) as [->|Hne]; [destruct (Ht_other q' T Hx); contradiction|].
          rewrite upd_other by exact Hne. apply c2. exact Hx.
      + intros T HT2. rewrite Hsl, Heq, Ho. intros H1 H2. destruct (s2 T HT2 H1 H2) as (X & Y & Z).
        destruct (rid_eqb_spec q' q) as [->|Hnq]; cbn [andb].
        * destruct (N.eqb_spec T T0) as [->|HnT]; [exfalso; apply (HoP _ X)|].
          ssplit; [exact X|exact Y|intros i; rewrite Hdq; apply Z].
        * ssplit; [exact X|exact Y|intros i; rewrite Hdq; apply Z].
      + intros T HT2. rewrite Hsl, Hdq. apply s3. exact HT2.
      + intros i T Hi. rewrite Ho, Hsl. apply s4. exact Hi.
      + intros T i. rewrite Heq, Hdq, Hsl. destruct (rid_eqb_spec q' q) as [->|Hnq]; cbn [andb]; [|apply s5].
        destruct (N.eqb_spec T T0) as [->|HnT]; [intros Hx; exfalso; apply (HvP i Hx)|apply s5].
      + intros H i. rewrite Hdq, Heq. intros Hx. specialize (s6 H i Hx).
        destruct (rid_eqb_spec q' q) as [->|Hnq]; cbn [andb]; [|exact s6].
        destruct (N.eqb_spec H T0) as [->|HnT]; [exfalso; apply (HoP i s6)|exact s6].
    - intros u. rewrite Hth. destruct (Nat.eq_dec u t) as [->|Hne]; [rewrite upd_same|rewrite upd_other by exact Hne].
      + pose proof (HT t) as (A & B & C & D). unfold T2. ssplit.
        * intros q' hd Hx. rewrite Hdp in Hx. discriminate.
        * intros q' tl Hx. destruct (Hq q') as (_ & Heq & _). rewrite Heq.
          destruct Hcase as [(A' & B' & C' & D')|(A' & B' & C' & D')]; rewrite D' in Hx; [|discriminate].
          apply some_pair_inj in Hx. destruct Hx as [<- <-]. rewrite rid_eqb_refl. cbn [andb].
          rewrite (N.mul_comm 2 T0), N.div_mul by lia. rewrite N.eqb_refl. exact C'.
        * intros q' idx Hx. rewrite Ho. apply C. rewrite <- Hh. exact Hx.
        * destruct p'; try exact I. discriminate.
      + pose proof (HT u) as (A & B & C & D). unfold T2. ssplit.
        * intros q' hd Hx. destruct (Hq q') as (_ & _ & Hdq & _). rewrite Hdq. apply A. exact Hx.
        * intros q' tl Hx. destruct (Hq q') as (_ & Heq & _). rewrite Heq. specialize (B q' tl Hx).
          destruct (rid_eqb_spec q' q) as [->|Hnq]; cbn [andb]; [|exact B].
          destruct (N.eqb_spec (tl / 2) T0) as [Heq0|HnH]; [|exact B].
          exfalso. rewrite Heq0 in B. destruct Hcase as [(A' & _)|(A' & _)]; rewrite A' in B; [discriminate|congruence].
        * intros q' idx Hx. rewrite Ho. apply C. exact Hx.
        * destruct (th s u) eqn:Eu; try exact I. destruct (Hq q0) as (Hda & _). rewrite (slot_same s s' q0 _ Hda). exact D.
    - intros i u q'. rewrite Ho, Hth. intros Hx. specialize (HO i u q' Hx).
      destruct (Nat.eq_dec u t) as [->|Hne]; [rewrite upd_same, Hh; exact HO|rewrite upd_other by exact Hne; exact HO].
  Qed.

  Lemma same_slot_ticket T T' : phys cap (2 * T) = phys cap (2 * T') -> T / nn cap = T' / nn cap -> T = T'.
  Proof. intros H1 H2. apply (slot_cycle_ticket k Hk); [exact H1|rewrite !(ecyc_tick k Hk); exact H2]. Qed.

  Lemma lt_cap_ne_bot i : i < cap -> i <> bot.
  Proof. assert (Hb := cap_lt_bot k Hk). lia. Qed.

  (** * a dequeue takes the index out of its slot (the fetch_or) *)
  Lemma K_take s s' t q x hd e gk' :
    Inv1 s -> Inv2 s -> th s t = D3 q x hd e ->
    (forall q', (forall T, g_eq (rg s' q') T = g_eq (rg s q') T) /\
                (forall H, g_dq (rg s' q') H = if rid_eqb q' q && (H =? hd / 2) then DTaken (eidx e) else g_dq (rg s q') H) /\
                rhead (rg s q') <= rhead (rg s' q') /\ rtail (rg s q') <= rtail (rg s' q') /\
                (forall j, rdata (rg s' q') j = if rid_eqb q' q && (j =? phys cap hd)
                                                then N.lor (rdata (rg s q) (phys cap hd)) (vmask cap) else rdata (rg s q') j)) ->
    (forall i, g_own s' i = if i =? eidx e then held (other q) t else g_own s i) ->
    th s' = upd (th s) t (E1 (other q) x (eidx e) gk') ->
    Inv2 s'.
  Proof.
    intros [HW HT1] (HR & HT & HO) Et Hq Ho Hth.
    pose proof (HT1 t) as Ht1. rewrite Et in Ht1. cbn [T1] in Ht1. destruct Ht1 as ([Hhd2 Hhdlt] & Hhle & Hwe & Hce).
    pose proof (HT t) as (Ta & Tb & Tc & Td). rewrite Et in Ta, Tb, Tc, Td. cbn [dtk etk hidx] in *.
    specialize (Ta q hd eq_refl). destruct Td as (Hidx & Hsi & Hsc).
    set (H0 := hd / 2) in *. set (idx := eidx e) in *.
    assert (HH0 : 2 * H0 < 2 ^ 62) by (rewrite <- Hhd2; exact Hhdlt).
    assert (Hcyc0 : ecyc hd = H0 / nn cap) by (rewrite Hhd2 at 1; apply (ecyc_tick k Hk)).
    rewrite Hcyc0 in Hsc.
    assert (Hphys : phys cap hd = phys cap (2 * H0)) by (rewrite Hhd2 at 1; reflexivity).
    destruct (HR q) as [qa1 qa2 qc1 qc2 qs2 qs3 qs4 qs5 qs6].
    assert (Hsi' : eidx (slot s q H0) < cap) by (rewrite Hsi; exact Hidx).
    destruct (qs2 H0 HH0 Hsi' Hsc) as (Hpub & Hown & Hnt). rewrite Hsi in Hpub, Hown. fold idx in Hpub, Hown.
    (* the new entry *)
    set (m' := N.lor (rdata (rg s q) (phys cap hd)) (vmask cap)) in *.
    assert (Hm' : eidx m' = bot /\ ecyc m' = H0 / nn cap).
    { destruct (f_take k Hk (rdata (rg s q) (phys cap hd))) as (A & B & C). split; [exact C|].
      unfold m'. rewrite A. rewrite <- Hsc. unfold slot. rewrite Hphys. reflexivity. }
    destruct Hm' as [Hm'i Hm'c].
    assert (Hslot : forall q' T, slot s' q' T = if rid_eqb q' q && (phys cap (2 * T) =? phys cap (2 * H0)) then m' else slot s q' T).
    { intros q' T. unfold slot. destruct (Hq q') as (_ & _ & _ & _ & Hda). rewrite Hda, Hphys. reflexivity. }
    assert (Ht_dq : forall q' H, g_dq (rg s q') H = DHeld t -> q' = q /\ H = H0).
    { intros q' H Hx. destruct (HR q') as [_ _ c1 _ _ _ _ _ _]. specialize (c1 H t Hx). rewrite Et in c1. cbn [dtk] in c1.
      apply some_pair_inj in c1. destruct c1 as [E1 E2]. split; [symmetry; exact E1|unfold H0; rewrite E2; rewrite (N.mul_comm 2 H), N.div_mul by lia; reflexivity]. }
    assert (Ht_eq : forall q' T, g_eq (rg s q') T <> EHeld t).
    { intros q' T Hx. destruct (HR q') as [_ _ _ c2 _ _ _ _ _]. specialize (c2 T t Hx). rewrite Et in c2. discriminate. }
    split; [|split].
    - intros q'. destruct (Hq q') as (Heq & Hdq & Hhd & Htl & Hda). destruct (HR q') as [a1 a2 c1 c2 s2 s3 s4 s5 s6].
      constructor.
      + intros H. rewrite Hdq. destruct (rid_eqb_spec q' q) as [->|Hnq]; cbn [andb].
        * destruct (N.eqb_spec H H0) as [->|HnH]; [intros _|intros Hx; specialize (a1 H Hx); lia].
          assert (Hne : g_dq (rg s q) H0 <> DNone) by (rewrite Ta; discriminate). specialize (a1 H0 Hne). lia.
        * intros Hx; specialize (a1 H Hx); lia.
      + intros T. rewrite Heq. intros Hx. specialize (a2 T Hx). lia.
      + intros H u. rewrite Hdq, Hth. destruct (rid_eqb_spec q' q) as [->|Hnq]; cbn [andb].
        * destruct (N.eqb_spec H H0) as [->|HnH]; [discriminate|].
          intros Hx. destruct (Nat.eq_dec u t) as [->|Hne]; [destruct (Ht_dq q H Hx); contradiction|].
          rewrite upd_other by exact Hne. apply c1. exact Hx.
        * intros Hx. destruct (Nat.eq_dec u t) as [->|Hne]; [destruct (Ht_dq q' H Hx); contradiction|].
          rewrite upd_other by exact Hne. apply c1. exact Hx.
      + intros T u. rewrite Heq, Hth. intros Hx. destruct (Nat.eq_dec u t) as [->|Hne]; [exfalso; apply (Ht_eq q' T Hx)|].
        rewrite upd_other by exact Hne. apply c2. exact Hx.
      + intros T HT2. rewrite Hslot, Heq. destruct (rid_eqb_spec q' q) as [->|Hnq]; cbn [andb].
        * destruct (N.eqb_spec (phys cap (2 * T)) (phys cap (2 * H0))) as [Hp|Hp].
          -- rewrite Hm'i. intros Hx. exfalso. apply (lt_cap_ne_bot _ Hx). reflexivity.
          -- intros H1 H2. destruct (s2 T HT2 H1 H2) as (X & Y & Z).
             assert (HTne : T <> H0) by (intros ->; apply Hp; reflexivity).
             ssplit; [exact X| |].
             ++ rewrite Ho. destruct (N.eqb_spec (eidx (slot s q T)) idx) as [Hei|_]; [|exact Y].
                exfalso. rewrite Hei, Hown in Y. apply inring_inj in Y. destruct Y as [_ Y]. congruence.
             ++ intros i. rewrite Hdq; rewrite ?rid_eqb_refl; cbn [andb]. destruct (N.eqb_spec T H0); [contradiction|apply Z].
        * intros H1 H2. destruct (s2 T HT2 H1 H2) as (X & Y & Z). ssplit; [exact X| |].
          -- rewrite Ho. destruct (N.eqb_spec (eidx (slot s q' T)) idx) as [Hei|_]; [|exact Y].
             exfalso. rewrite Hei, Hown in Y. apply inring_inj in Y. destruct Y as [Y _]. congruence.
          -- intros i. rewrite Hdq. try (destruct (rid_eqb_spec q' q); [contradiction|]). cbn [andb]. apply Z.
      + intros T HT2. rewrite Hslot, Hdq. destruct (rid_eqb_spec q' q) as [->|Hnq]; cbn [andb]; [|apply s3; exact HT2].
        destruct (N.eqb_spec (phys cap (2 * T)) (phys cap (2 * H0))) as [Hp|Hp].
        * rewrite Hm'c. intros _ Hc. assert (T = H0) by (apply same_slot_ticket; [exact Hp|symmetry; exact Hc]). subst T.
          rewrite N.eqb_refl. left. exists idx. reflexivity.
        * intros H1 H2. destruct (N.eqb_spec T H0) as [->|_]; [exfalso; apply Hp; reflexivity|]. apply s3; assumption.
      + intros i T Hi. rewrite Ho. destruct (N.eqb_spec i idx) as [->|Hni]; [intros Hx; exfalso; symmetry in Hx; apply (inring_held _ _ _ _ Hx)|].
        intros Hx. destruct (s4 i T Hi Hx) as (X & Y & Z). split; [exact X|]. rewrite Hslot.
        destruct (rid_eqb_spec q' q) as [->|Hnq]; cbn [andb]; [|split; assumption].
        destruct (N.eqb_spec (phys cap (2 * T)) (phys cap (2 * H0))) as [Hp|Hp]; [|split; assumption].
        exfalso. assert (T = H0) by (apply same_slot_ticket; [exact Hp|rewrite <- Z, <- Hsc; unfold slot; rewrite Hp; reflexivity]).
        subst T. rewrite Hsi in Y. congruence.
      + intros T i. rewrite Heq, Hdq, Hslot. intros Hx. destruct (s5 T i Hx) as [X Y]. split; [exact X|].
        destruct (rid_eqb_spec q' q) as [->|Hnq]; cbn [andb]; [|exact Y].
        destruct (N.eqb_spec T H0) as [HeT|HnT].
        * subst T. left. rewrite Hpub in Hx. inversion Hx. reflexivity.
        * destruct Y as [Y|(Y1 & Y2 & Y3)]; [left; exact Y|right; split; [exact Y1|]].
          destruct (N.eqb_spec (phys cap (2 * T)) (phys cap (2 * H0))) as [Hp|Hp]; [|split; assumption].
          exfalso. apply HnT. apply same_slot_ticket; [exact Hp|rewrite <- Y3, <- Hsc; unfold slot; rewrite Hp; reflexivity].
      + intros H i. rewrite Heq, Hdq. destruct (rid_eqb_spec q' q) as [->|Hnq]; cbn [andb]; [|apply s6].
        destruct (N.eqb_spec H H0) as [->|HnH]; [|apply s6]. intros Hx. inversion Hx. exact Hpub.
    - intros u. rewrite Hth. destruct (Nat.eq_dec u t) as [->|Hne]; [rewrite upd_same|rewrite upd_other by exact Hne].
      + unfold T2. cbn [dtk etk hidx]. ssplit; try (intros; discriminate); [|exact I].
        intros q' i' Hx. apply some_pair_inj in Hx. destruct Hx as [<- <-]. rewrite Ho. fold idx. rewrite N.eqb_refl. split; [reflexivity|exact Hidx].
      + pose proof (HT u) as (A & B & C & D). unfold T2. ssplit.
        * intros q' hd' Hx. destruct (Hq q') as (_ & Hdq & _). rewrite Hdq. specialize (A q' hd' Hx).
          destruct (rid_eqb_spec q' q) as [->|Hnq]; cbn [andb]; [|exact A].
          destruct (N.eqb_spec (hd' / 2) H0) as [Heq0|HnH]; [|exact A].
          exfalso. rewrite Heq0, Ta in A. congruence.
        * intros q' tl Hx. destruct (Hq q') as (Heq & _). rewrite Heq. apply B. exact Hx.
        * intros q' i' Hx. rewrite Ho. destruct (C q' i' Hx) as [C1' C2']. split; [|exact C2'].
          destruct (N.eqb_spec i' idx) as [->|_]; [|exact C1']. exfalso. rewrite Hown in C1'. apply (inring_held _ _ _ _ C1').
        * destruct (th s u) eqn:Eu; try exact I. destruct D as (D1 & D2 & D3). rewrite Hslot.
          destruct (rid_eqb_spec q0 q) as [->|Hnq]; cbn [andb]; [|ssplit; assumption].
          destruct (N.eqb_spec (phys cap (2 * (hd0 / 2))) (phys cap (2 * H0))) as [Hp|Hp]; [|ssplit; assumption].
          exfalso. pose proof (HT1 u) as Hu. rewrite Eu in Hu. cbn [T1] in Hu. destruct Hu as ([Hu1 Hu2] & _).
          assert (Hc0 : ecyc hd0 = (hd0 / 2) / nn cap) by (rewrite Hu1 at 1; apply (ecyc_tick k Hk)).
          assert (hd0 / 2 = H0).
          { apply same_slot_ticket; [exact Hp|]. rewrite <- Hc0, <- D3, <- Hsc. unfold slot. rewrite Hp. reflexivity. }
          pose proof (HT u) as (A' & _). rewrite Eu in A'. specialize (A' q hd0 eq_refl). rewrite H, Ta in A'. congruence.
    - intros i u q'. rewrite Ho, Hth. destruct (N.eqb_spec i idx) as [->|Hni].
      + intros Hx. apply held_inj in Hx. destruct Hx as [<- <-]. rewrite upd_same. reflexivity.
      + intros Hx. specialize (HO i u q' Hx). destruct (Nat.eq_dec u t) as [->|Hne]; [rewrite Et in HO; discriminate|].
        rewrite upd_other by exact Hne. exact HO.
  Qed.

  (** * an enqueue publishes its index (the successful entry CAS) *)
  Lemma K_pub s s' t q x idx gk tl e gk' new :
    Inv1 s -> Inv2 s -> th s t = E4 q x idx gk tl e -> rdata (rg s q) (phys cap tl) = e ->
    eidx new = idx -> ecyc new = ecyc tl ->
    (forall q', (forall H, g_dq (rg s' q') H = g_dq (rg s q') H) /\
                (forall T, g_eq (rg s' q') T = if rid_eqb q' q && (T =? tl / 2) then EPub idx else g_eq (rg s q') T) /\
                rhead (rg s q') <= rhead (rg s' q') /\ rtail (rg s q') <= rtail (rg s' q') /\
                (forall j, rdata (rg s' q') j = if rid_eqb q' q && (j =? phys cap tl) then new else rdata (rg s q') j)) ->
    (forall i, g_own s' i = if i =? idx then inring q (tl / 2) else g_own s i) ->
    th s' = upd (th s) t (E5 q x idx gk') ->
    Inv2 s'.
  Proof.
    intros [HW HT1] (HR & HT & HO) Et Hcur Hni Hnc Hq Ho Hth.
    pose proof (HT1 t) as Ht1. rewrite Et in Ht1. cbn [T1] in Ht1.
    destruct Ht1 as (Hwi & [Htl2 Htllt] & Htle & Hwe & Heb & Hclt).
    pose proof (HT t) as (Ta & Tb & Tc & Td). rewrite Et in Ta, Tb, Tc, Td. cbn [dtk etk hidx] in *.
    specialize (Tb q tl eq_refl). destruct (Tc q idx eq_refl) as [Hown Hidx].
    set (T0 := tl / 2) in *.
    assert (HT0 : 2 * T0 < 2 ^ 62) by (rewrite <- Htl2; exact Htllt).
    assert (Hcyc0 : ecyc tl = T0 / nn cap) by (rewrite Htl2 at 1; apply (ecyc_tick k Hk)).
    rewrite Hcyc0 in Hnc.
    assert (Hphys : phys cap tl = phys cap (2 * T0)) by (rewrite Htl2 at 1; reflexivity).
    assert (Hold : eidx (slot s q T0) = bot) by (unfold slot; rewrite <- Hphys, Hcur; exact Heb).
    assert (Hslot : forall q' T, slot s' q' T = if rid_eqb q' q && (phys cap (2 * T) =? phys cap (2 * T0)) then new else slot s q' T).
    { intros q' T. unfold slot. destruct (Hq q') as (_ & _ & _ & _ & Hda). rewrite Hda, Hphys. reflexivity. }
    assert (Hsame_old : forall T, phys cap (2 * T) = phys cap (2 * T0) -> eidx (slot s q T) = bot).
    { intros T Hp. unfold slot. rewrite Hp. exact Hold. }
    assert (Ht_eq : forall q' T, g_eq (rg s q') T = EHeld t -> q' = q /\ T = T0).
    { intros q' T Hx. destruct (HR q') as [_ _ _ c2 _ _ _ _ _]. specialize (c2 T t Hx). rewrite Et in c2. cbn [etk] in c2.
      apply some_pair_inj in c2. destruct c2 as [E1 E2]. split; [symmetry; exact E1|unfold T0; rewrite E2; rewrite (N.mul_comm 2 T), N.div_mul by lia; reflexivity]. }
    assert (Ht_dq : forall q' H, g_dq (rg s q') H <> DHeld t).
    { intros q' H Hx. destruct (HR q') as [_ _ c1 _ _ _ _ _ _]. specialize (c1 H t Hx). rewrite Et in c1. discriminate. }
    assert (Hnt0 : forall i, g_dq (rg s q) T0 <> DTaken i).
    { intros i Hx. destruct (HR q) as [_ _ _ _ _ _ _ _ s6]. specialize (s6 T0 i Hx). rewrite Tb in s6. discriminate. }
    split; [|split].
    - intros q'. destruct (Hq q') as (Hdq & Heq & Hhd & Htl & Hda). destruct (HR q') as [a1 a2 c1 c2 s2 s3 s4 s5 s6].
      constructor.
      + intros H. rewrite Hdq. intros Hx. specialize (a1 H Hx). lia.
      + intros T. rewrite Heq. destruct (rid_eqb_spec q' q) as [->|Hnq]; cbn [andb].
        * destruct (N.eqb_spec T T0) as [HeT|HnT]; [intros _; subst T|intros Hx; specialize (a2 T Hx); lia].
          assert (Hne : g_eq (rg s q) T0 <> ENone) by (rewrite Tb; discriminate). specialize (a2 T0 Hne). lia.
        * intros Hx; specialize (a2 T Hx); lia.
      + intros H u. rewrite Hdq, Hth. intros Hx. destruct (Nat.eq_dec u t) as [->|Hne]; [exfalso; apply (Ht_dq q' H Hx)|].
        rewrite upd_other by exact Hne. apply c1. exact Hx.
      + intros T u. rewrite Heq, Hth. destruct (rid_eqb_spec q' q) as [->|Hnq]; cbn [andb].
        * destruct (N.eqb_spec T T0) as [HeT|HnT]; [discriminate|].
          intros Hx. destruct (Nat.eq_dec u t) as [->|Hne]; [destruct (Ht_eq q T Hx); contradiction|].
          rewrite upd_other by exact Hne. apply c2. exact Hx.
        * intros Hx. destruct (Nat.eq_dec u t) as [->|Hne]; [destruct (Ht_eq q' T Hx); contradiction|].
          rewrite upd_other by exact Hne. apply c2. exact Hx.
      + intros T HT2. rewrite Hslot, Heq, Hdq. destruct (rid_eqb_spec q' q) as [->|Hnq]; cbn [andb].
        * destruct (N.eqb_spec (phys cap (2 * T)) (phys cap (2 * T0))) as [Hp|Hp].
          -- rewrite Hni, Hnc. intros _ Hc. assert (T = T0) by (apply same_slot_ticket; [exact Hp|symmetry; exact Hc]). subst T.
             rewrite N.eqb_refl, Ho, N.eqb_refl. ssplit; [reflexivity|reflexivity|exact Hnt0].
          -- intros H1 H2. destruct (s2 T HT2 H1 H2) as (X & Y & Z).
             destruct (N.eqb_spec T T0) as [HeT|_]; [exfalso; apply Hp; rewrite HeT; reflexivity|].
             ssplit; [exact X| |exact Z].
             rewrite Ho. destruct (N.eqb_spec (eidx (slot s q T)) idx) as [Hei|_]; [|exact Y].
             exfalso. rewrite Hei, Hown in Y. symmetry in Y. apply (inring_held _ _ _ _ Y).
        * intros H1 H2. destruct (s2 T HT2 H1 H2) as (X & Y & Z). ssplit; [exact X| |exact Z].
          rewrite Ho. destruct (N.eqb_spec (eidx (slot s q' T)) idx) as [Hei|_]; [|exact Y].
          exfalso. rewrite Hei, Hown in Y. symmetry in Y. apply (inring_held _ _ _ _ Y).
      + intros T HT2. rewrite Hslot, Hdq. destruct (rid_eqb_spec q' q) as [->|Hnq]; cbn [andb]; [|apply s3; exact HT2].
        destruct (N.eqb_spec (phys cap (2 * T)) (phys cap (2 * T0))) as [Hp|Hp]; [|apply s3; exact HT2].
        rewrite Hni. intros Hx. exfalso. apply (lt_cap_ne_bot _ Hidx Hx).
      + intros i T Hi. rewrite Ho, Hslot. destruct (N.eqb_spec i idx) as [Hei|Hni'].
        * subst i. intros Hx. apply inring_inj in Hx. destruct Hx as [<- <-]. rewrite rid_eqb_refl, N.eqb_refl. cbn [andb].
          ssplit; [exact HT0|exact Hni|exact Hnc].
        * intros Hx. destruct (s4 i T Hi Hx) as (X & Y & Z). split; [exact X|].
          destruct (rid_eqb_spec q' q) as [->|Hnq]; cbn [andb]; [|split; assumption].
          destruct (N.eqb_spec (phys cap (2 * T)) (phys cap (2 * T0))) as [Hp|Hp]; [|split; assumption].
          exfalso. rewrite (Hsame_old T Hp) in Y. apply (lt_cap_ne_bot _ Hi). symmetry. exact Y.
      + intros T i. rewrite Heq, Hdq, Hslot. destruct (rid_eqb_spec q' q) as [->|Hnq]; cbn [andb]; [|apply s5].
        destruct (N.eqb_spec T T0) as [HeT|HnT].
        * subst T. intros Hx. inversion Hx; subst i. split; [exact Hidx|]. right. rewrite N.eqb_refl.
          ssplit; [exact Hnt0|exact Hni|exact Hnc].
        * intros Hx. destruct (s5 T i Hx) as [X Y]. split; [exact X|].
          destruct Y as [Y|(Y1 & Y2 & Y3)]; [left; exact Y|right; split; [exact Y1|]].
          destruct (N.eqb_spec (phys cap (2 * T)) (phys cap (2 * T0))) as [Hp|Hp]; [|split; assumption].
          exfalso. rewrite (Hsame_old T Hp) in Y2. apply (lt_cap_ne_bot _ X). symmetry. exact Y2.
      + intros H i. rewrite Hdq, Heq. intros Hx. specialize (s6 H i Hx).
        destruct (rid_eqb_spec q' q) as [->|Hnq]; cbn [andb]; [|exact s6].
        destruct (N.eqb_spec H T0) as [HeT|HnT]; [|exact s6]. subst H. exfalso. apply (Hnt0 i Hx).
    - intros u. rewrite Hth. destruct (Nat.eq_dec u t) as [->|Hne]; [rewrite upd_same|rewrite upd_other by exact Hne].
      + unfold T2. cbn [dtk etk hidx]. ssplit; try (intros; discriminate). exact I.
      + pose proof (HT u) as (A & B & C & D). unfold T2. ssplit.
        * intros q' hd' Hx. destruct (Hq q') as (Hdq & _). rewrite Hdq. apply A. exact Hx.
        * intros q' tl' Hx. destruct (Hq q') as (_ & Heq & _). rewrite Heq. specialize (B q' tl' Hx).
          destruct (rid_eqb_spec q' q) as [->|Hnq]; cbn [andb]; [|exact B].
          destruct (N.eqb_spec (tl' / 2) T0) as [Heq0|HnH]; [|exact B].
          exfalso. rewrite Heq0, Tb in B. congruence.
        * intros q' i' Hx. rewrite Ho. destruct (C q' i' Hx) as [C1' C2']. split; [|exact C2'].
          destruct (N.eqb_spec i' idx) as [Hei|_]; [|exact C1']. exfalso. subst i'. rewrite Hown in C1'.
          apply held_inj in C1'. destruct C1' as [_ C1']. congruence.
        * destruct (th s u) eqn:Eu; try exact I. destruct D as (D1 & D2 & D3). rewrite Hslot.
          destruct (rid_eqb_spec q0 q) as [->|Hnq]; cbn [andb]; [|ssplit; assumption].
          destruct (N.eqb_spec (phys cap (2 * (hd / 2))) (phys cap (2 * T0))) as [Hp|Hp]; [|ssplit; assumption].
          exfalso. rewrite (Hsame_old _ Hp) in D2. apply (lt_cap_ne_bot _ D1). symmetry. exact D2.
    - intros i u q'. rewrite Ho, Hth. destruct (N.eqb_spec i idx) as [Hei|Hni'].
      + intros Hx. exfalso. apply (inring_held _ _ _ _ Hx).
      + intros Hx. specialize (HO i u q' Hx). destruct (Nat.eq_dec u t) as [->|Hne].
        * exfalso. rewrite Et in HO. cbn [hidx] in HO. apply some_pair_inj in HO. destruct HO as [_ HO]. congruence.
        * rewrite upd_other by exact Hne. exact HO.
  Qed.

  (** * the step lemma *)
  Ltac core_tac :=
    split; [let q' := fresh "q'" in intros q'; sim;
            try (match goal with |- context [rid_eqb q' ?q] => destruct (rid_eqb_spec q' q) as [->|?] end); sim;
            ssplit; intros; try reflexivity; try lia
           |intros; sim; reflexivity].

  Lemma mark_left_core s q hd p : leaves p = false -> mark_left s q hd p = s.
  Proof. unfold mark_left. intros ->. reflexivity. Qed.
  Lemma mark_skip_core s q tl p : skips p = false -> mark_skip s q tl p = s.
  Proof. unfold mark_skip. intros ->. reflexivity. Qed.

  (** D3 extras when the loop body finds its own cycle in the entry just read *)
  Lemma D3_extras s t q hd e :
    Inv1 s -> Inv2 s -> dtk (th s t) = Some (q, hd) -> rdata (rg s q) (phys cap hd) = e ->
    (cyc cap e =? cyc cap hd) = true ->
    eidx e < cap /\ eidx (slot s q (hd / 2)) = eidx e /\ ecyc (slot s q (hd / 2)) = ecyc hd.
  Proof.
    intros [HW HT1] (HR & HT & HO) Hd Hcur Hc. rewrite (cyc_eqb k Hk) in Hc. apply N.eqb_eq in Hc.
    pose proof (HT t) as (Ta & _). specialize (Ta q hd Hd).
    assert (Hctr : ctr hd).
    { pose proof (HT1 t) as Hu. destruct (th s t); cbn [dtk] in Hd; try discriminate; apply some_pair_inj in Hd; destruct Hd as [<- <-];
      cbn [T1] in Hu; tauto. }
    destruct Hctr as [Hhd2 Hhdlt].
    assert (Hsl : slot s q (hd / 2) = e) by (unfold slot; rewrite <- Hhd2; exact Hcur).
    assert (HH0 : 2 * (hd / 2) < 2 ^ 62) by (rewrite <- Hhd2; exact Hhdlt).
    assert (Hcyc0 : ecyc hd = (hd / 2) / nn cap) by (rewrite Hhd2 at 1; apply (ecyc_tick k Hk)).
    rewrite Hsl. ssplit; [|reflexivity|exact Hc].
    destruct (HW q) as (_ & _ & _ & Hd'). destruct (Hd' (phys cap hd)) as [_ [Hi|Hi]]; rewrite Hcur in Hi; [exact Hi|].
    exfalso. destruct (HR q) as [_ _ _ _ _ s3 _ _ _].
    destruct (s3 (hd / 2) HH0) as [[i Hx]|Hx]; rewrite ?Hsl; try assumption; try (rewrite Hc; exact Hcyc0);
      rewrite Ta in Hx; discriminate.
  Qed.

  Lemma dq_eval_step s s' t q x hd att e :
    Inv1 s -> Inv2 s -> dtk (th s t) = Some (q, hd) -> etk (th s t) = None -> hidx (th s t) = None ->
    rdata (rg s q) (phys cap hd) = e ->
    s' = w_th (mark_left s q hd (dq_eval cap q x hd att e)) (upd (th (mark_left s q hd (dq_eval cap q x hd att e))) t (dq_eval cap q x hd att e)) ->
    Inv2 s'.
  Proof.
    intros H1 H2 Hd He Hh Hcur ->. pose proof H1 as [HW HT1]. pose proof H2 as (HR & HT & HO).
    assert (Hctr : ctr hd /\ hd + 2 <= rhead (rg s q)).
    { pose proof (HT1 t) as Hu. destruct (th s t); cbn [dtk] in Hd; try discriminate; apply some_pair_inj in Hd; destruct Hd as [<- <-];
      cbn [T1] in Hu; tauto. }
    destruct Hctr as [[Hhd2 Hhdlt] Hhle].
    destruct (dq_eval_cases cap q x hd att e) as [[C1 E]|[C1 [[C2 [[C3 E]|[C3 [[C4 E]|[C4 E]]]]]|[C2 E]]]]; rewrite E.
    - rewrite mark_left_core by reflexivity.
      eapply (Inv2_pc_only s _ t); [exact H2|core_tac|sim; reflexivity|cbn [dtk]; symmetry; exact Hd|cbn [etk]; symmetry; exact He|cbn [hidx]; symmetry; exact Hh|].
      apply (D3_extras s t q hd e); assumption.
    - eapply (K_dq s _ t q (hd / 2) DLeft); [exact H1|exact H2|rewrite <- Hhd2; exact Hhdlt| | |unfold mark_left; cbn [leaves]; sim; reflexivity|reflexivity|exact He|reflexivity|exact Hh| | |exact I].
      + intros q'. unfold mark_left; cbn [leaves]; sim. destruct (rid_eqb_spec q' q) as [->|Hnq]; sim; cbn [andb]; ssplit; intros; try reflexivity; try lia.
        * left. unfold slot. sim. rewrite rid_eqb_refl. sim. split; reflexivity.
        * left. unfold slot. sim. destruct (rid_eqb_spec q' q); [contradiction|]. split; reflexivity.
      + intros i. unfold mark_left; cbn [leaves]; sim. reflexivity.
      + unfold mark_left; cbn [leaves]; sim. rewrite rid_eqb_refl. sim. lia.
      + right. pose proof (HT t) as (Ta & _). ssplit; [apply Ta; exact Hd|rewrite <- Hhd2; exact Hd|reflexivity|reflexivity].
    - rewrite mark_left_core by reflexivity.
      eapply (Inv2_pc_only s _ t); [exact H2|core_tac|sim; reflexivity|cbn [dtk]; symmetry; exact Hd|cbn [etk]; symmetry; exact He|cbn [hidx]; symmetry; exact Hh|exact I].
    - eapply (K_dq s _ t q (hd / 2) DLeft); [exact H1|exact H2|rewrite <- Hhd2; exact Hhdlt| | |unfold mark_left; cbn [leaves]; sim; reflexivity|reflexivity|exact He|reflexivity|exact Hh| | |exact I].
      + intros q'. unfold mark_left; cbn [leaves]; sim. destruct (rid_eqb_spec q' q) as [->|Hnq]; sim; cbn [andb]; ssplit; intros; try reflexivity; try lia.
        * left. unfold slot. sim. rewrite rid_eqb_refl. sim. split; reflexivity.
        * left. unfold slot. sim. destruct (rid_eqb_spec q' q); [contradiction|]. split; reflexivity.
      + intros i. unfold mark_left; cbn [leaves]; sim. reflexivity.
      + unfold mark_left; cbn [leaves]; sim. rewrite rid_eqb_refl. sim. lia.
      + right. pose proof (HT t) as (Ta & _). ssplit; [apply Ta; exact Hd|rewrite <- Hhd2; exact Hd|reflexivity|reflexivity].
    - rewrite mark_left_core by reflexivity.
      eapply (Inv2_pc_only s _ t); [exact H2|core_tac|sim; reflexivity|cbn [dtk]; symmetry; exact Hd|cbn [etk]; symmetry; exact He|cbn [hidx]; symmetry; exact Hh|exact I].
  Qed.

  Lemma skip_step s s' t q tl p' :
    Inv1 s -> Inv2 s -> etk (th s t) = Some (q, tl) -> dtk (th s t) = None ->
    skips p' = true -> hidx p' = hidx (th s t) ->
    s' = w_th (mark_skip s q tl p') (upd (th (mark_skip s q tl p')) t p') ->
    Inv2 s'.
  Proof.
    intros H1 H2 He Hd Hsk Hh ->. pose proof H1 as [HW HT1]. pose proof H2 as (HR & HT & HO).
    assert (Hctr : ctr tl /\ tl + 2 <= rtail (rg s q)).
    { pose proof (HT1 t) as Hu. destruct (th s t); cbn [etk] in He; try discriminate; apply some_pair_inj in He; destruct He as [<- <-];
      cbn [T1] in Hu; tauto. }
    destruct Hctr as [[Htl2 Htllt] Htle].
    assert (Hp' : dtk p' = None /\ etk p' = None) by (destruct p'; try discriminate; split; reflexivity).
    destruct Hp' as [Hdp Hep].
    eapply (K_eq s _ t q (tl / 2) ESkip); [exact H1|exact H2|rewrite <- Htl2; exact Htllt| | |unfold mark_skip; rewrite Hsk; sim; reflexivity|exact Hdp|exact Hd|exact Hh| |].
    - intros q'. unfold mark_skip; rewrite Hsk; sim. destruct (rid_eqb_spec q' q) as [->|Hnq]; sim; cbn [andb]; ssplit; intros; try reflexivity; lia.
    - intros i. unfold mark_skip; rewrite Hsk; sim. reflexivity.
    - unfold mark_skip; rewrite Hsk; sim. rewrite rid_eqb_refl. sim. lia.
    - right. pose proof (HT t) as (_ & Tb & _). ssplit; [apply Tb; exact He|rewrite <- Htl2; exact He|reflexivity|exact Hep].
  Qed.

  Lemma en_eval_step s s' t q x idx gk tl e :
    Inv1 s -> Inv2 s -> etk (th s t) = Some (q, tl) -> dtk (th s t) = None -> hidx (th s t) = Some (q, idx) ->
    s' = w_th (mark_skip s q tl (en_eval cap q x idx gk tl e)) (upd (th (mark_skip s q tl (en_eval cap q x idx gk tl e))) t (en_eval cap q x idx gk tl e)) ->
    Inv2 s'.
  Proof.
    intros H1 H2 He Hd Hh ->.
    destruct (en_eval_cases cap q x idx gk tl e) as [(C1 & C2 & E)|[(C1 & C2 & C3 & E)|E]]; rewrite E.
    - rewrite mark_skip_core by reflexivity.
      eapply (Inv2_pc_only s _ t); [exact H2|core_tac|sim; reflexivity|cbn [dtk]; symmetry; exact Hd|cbn [etk]; symmetry; exact He|cbn [hidx]; symmetry; exact Hh|exact I].
    - rewrite mark_skip_core by reflexivity.
      eapply (Inv2_pc_only s _ t); [exact H2|core_tac|sim; reflexivity|cbn [dtk]; symmetry; exact Hd|cbn [etk]; symmetry; exact He|cbn [hidx]; symmetry; exact Hh|exact I].
    - eapply (skip_step s _ t q tl (E1 q x idx gk)); [exact H1|exact H2|exact He|exact Hd|reflexivity|cbn [hidx]; symmetry; exact Hh|reflexivity].
  Qed.

  Lemma ticket_fresh_dq s q : Inv1 s -> Inv2 s -> g_dq (rg s q) (rhead (rg s q) / 2) = DNone.
  Proof.
    intros [HW _] (HR & _). destruct (HR q) as [a1 _ _ _ _ _ _ _ _]. destruct (HW q) as ([Hh2 _] & _).
    destruct (g_dq (rg s q) (rhead (rg s q) / 2)) eqn:E; [reflexivity| | |];
      (assert (Hne : g_dq (rg s q) (rhead (rg s q) / 2) <> DNone) by (rewrite E; discriminate); specialize (a1 _ Hne); lia).
  Qed.
  Lemma ticket_fresh_eq s q : Inv1 s -> Inv2 s -> g_eq (rg s q) (rtail (rg s q) / 2) = ENone.
  Proof.
    intros [HW _] (HR & _). destruct (HR q) as [_ a2 _ _ _ _ _ _ _]. destruct (HW q) as (_ & [Ht2 _] & _).
    destruct (g_eq (rg s q) (rtail (rg s q) / 2)) eqn:E; [reflexivity| | |];
      (assert (Hne : g_eq (rg s q) (rtail (rg s q) / 2) <> ENone) by (rewrite E; discriminate); specialize (a2 _ Hne); lia).
  Qed.

  Lemma Inv2_step s a s' es : Inv1 s -> Inv2 s -> step s a = Some (s', es) -> g_ovf s' = false -> Inv2 s'.
  Proof.
    intros H1 H2 Hst Hov. pose proof H1 as [HW HT1]. pose proof H2 as (HR & HT & HO).
    unfold NikbDefs.step, step_gen in Hst. destruct a as [t o|t].
    - destruct (th s t) eqn:E; try discriminate. inversion Hst; subst; clear Hst.
      eapply (Inv2_pc_only s _ t); [exact H2|core_tac|sim; reflexivity|rewrite E; reflexivity|rewrite E; reflexivity|rewrite E; reflexivity|exact I].
    - pose proof (HT1 t) as Hme.
      destruct (th s t) as [|[v|tp]|q x|q x|q x hd att|q x hd e|q x hd att e|q x hd att e enew|q x hd|q x|q x tl hd|q x tl|q x
                           |q x idx gk|q x idx gk tl|q x idx gk tl e|q x idx gk tl e|q x idx gk|q x idx gk] eqn:E; try discriminate;
        cbn [T1] in Hme.
      + (* Begin push *) inversion Hst; subst; clear Hst.
        eapply (Inv2_pc_only s _ t); [exact H2|core_tac|sim; reflexivity|rewrite E; reflexivity|rewrite E; reflexivity|rewrite E; reflexivity|exact I].
      + inversion Hst; subst; clear Hst.
        eapply (Inv2_pc_only s _ t); [exact H2|core_tac|sim; reflexivity|rewrite E; reflexivity|rewrite E; reflexivity|rewrite E; reflexivity|exact I].
      + (* D0 *) destruct (lt0 (rthr (rg s q))); inversion Hst; subst; clear Hst;
        (eapply (Inv2_pc_only s _ t); [exact H2|core_tac|sim; reflexivity|rewrite E; reflexivity|rewrite E; reflexivity|rewrite E; reflexivity|exact I]).
      + (* D1 *) inversion Hst; subst; clear Hst. sim. apply orb_false_2 in Hov. destruct Hov as [Hov Ho]. apply (ctr_ovf_false k R Hk) in Ho.
        destruct (HW q) as ([Hh2 Hhlt] & _). rewrite (wadd2_small _ Hhlt) in *.
        eapply (K_dq s _ t q (rhead (rg s q) / 2) (DHeld t)); [exact H1|exact H2|lia| | |sim; reflexivity|reflexivity|rewrite E; reflexivity|reflexivity|rewrite E; reflexivity| | |exact I].
        * intros q'. sim. destruct (rid_eqb_spec q' q) as [->|Hnq]; sim; cbn [andb]; ssplit; intros; try reflexivity; try lia.
          -- left. unfold slot. sim. rewrite rid_eqb_refl. sim. split; reflexivity.
          -- left. unfold slot. sim. destruct (rid_eqb_spec q' q); [contradiction|]. split; reflexivity.
        * intros i. sim. reflexivity.
        * sim. rewrite rid_eqb_refl. sim. lia.
        * left. ssplit; [apply ticket_fresh_dq; assumption|rewrite E; reflexivity|reflexivity|cbn [dtk]; rewrite <- Hh2; reflexivity].
      + (* D2 *) inversion Hst; subst; clear Hst.
        eapply (dq_eval_step s _ t q x hd att); [exact H1|exact H2|rewrite E; reflexivity|rewrite E; reflexivity|rewrite E; reflexivity|reflexivity|reflexivity].
      + (* D3 *) destruct q; inversion Hst; subst; clear Hst;
        (eapply (K_take s _ t _ x hd e); [exact H1|exact H2|exact E| | |sim; rewrite (land_vmask k Hk); reflexivity]);
        try (intros q'; sim; rewrite (land_vmask k Hk); destruct q'; sim; ssplit; intros; try reflexivity; lia);
        (intros i; sim; rewrite (land_vmask k Hk); reflexivity).
      + (* D4 *) inversion Hst; subst; clear Hst.
        destruct Hme as (Hc & Hh & He & Hb). destruct Hc as [Hhd2 Hhdlt].
        destruct (gt0 _ && _).
        * rewrite mark_left_core by reflexivity. (eapply (Inv2_pc_only s _ t); [exact H2|core_tac|sim; reflexivity|rewrite E; reflexivity|rewrite E; reflexivity|rewrite E; reflexivity|exact I]).
        * destruct (lt0 (diff (cyc cap e) (cyc cap hd))).
          -- rewrite mark_left_core by reflexivity. (eapply (Inv2_pc_only s _ t); [exact H2|core_tac|sim; reflexivity|rewrite E; reflexivity|rewrite E; reflexivity|rewrite E; reflexivity|exact I]).
          -- eapply (K_dq s _ t q (hd / 2) DLeft); [exact H1|exact H2|rewrite <- Hhd2; exact Hhdlt| | |unfold mark_left; cbn [leaves]; sim; reflexivity|reflexivity|rewrite E; reflexivity|reflexivity|rewrite E; reflexivity| | |exact I].
             ++ intros q'. unfold mark_left; cbn [leaves]; sim. destruct (rid_eqb_spec q' q) as [->|Hnq]; sim; cbn [andb]; ssplit; intros; try reflexivity; try lia.
                ** left. unfold slot. sim. rewrite rid_eqb_refl. sim. split; reflexivity.
                ** left. unfold slot. sim. destruct (rid_eqb_spec q' q); [contradiction|]. split; reflexivity.
             ++ intros i. unfold mark_left; cbn [leaves]; sim. reflexivity.
             ++ unfold mark_left; cbn [leaves]; sim. rewrite rid_eqb_refl. sim. lia.
             ++ right. pose proof (HT t) as (Ta & _). rewrite E in Ta. ssplit; [apply Ta; reflexivity|rewrite E; cbn [dtk]; rewrite <- Hhd2; reflexivity|reflexivity|reflexivity].
      + (* D5 *) destruct Hme as (Hc & Hh & He & Hlt & Hnew). destruct Hc as [Hhd2 Hhdlt].
        destruct (N.eqb_spec (rdata (rg s q) (phys cap hd)) e) as [Hcur|Hcur]; inversion Hst; subst; clear Hst.
        * assert (Hcyc0 : ecyc hd = (hd / 2) / nn cap) by (rewrite Hhd2 at 1; apply (ecyc_tick k Hk)).
          eapply (K_dq s _ t q (hd / 2) DLeft); [exact H1|exact H2|rewrite <- Hhd2; exact Hhdlt| | |sim; reflexivity|reflexivity|rewrite E; reflexivity|reflexivity|rewrite E; reflexivity| | |exact I].
          -- intros q'. sim. destruct (rid_eqb_spec q' q) as [->|Hnq]; sim; cbn [andb]; ssplit; intros; try reflexivity; try lia.
             ++ unfold slot. sim. rewrite rid_eqb_refl. sim. unfold setf.
                destruct (N.eqb_spec (phys cap (2 * T)) (phys cap hd)) as [Hp|Hp]; [|left; split; reflexivity].
                rewrite Hp. destruct Hnew as [[-> Hnb]|[-> Hb]].
                ** left. destruct (f_unsafe k Hk (rdata (rgs s q) (phys cap hd))) as (A & B & C). split; assumption.
                ** right. destruct (f_botw k Hk hd (rdata (rgs s q) (phys cap hd))) as (A & B & C). ssplit; [reflexivity|exact Hb|exact C| |reflexivity].
                   rewrite A, Hcyc0. intros Hx. apply same_slot_ticket; [rewrite Hp, Hhd2 at 1; reflexivity|symmetry; exact Hx].
             ++ left. unfold slot. sim. destruct (rid_eqb_spec q' q); [contradiction|]. split; reflexivity.
          -- intros i. sim. reflexivity.
          -- sim. rewrite rid_eqb_refl. sim. lia.
          -- right. pose proof (HT t) as (Ta & _). rewrite E in Ta. ssplit; [apply Ta; reflexivity|rewrite E; cbn [dtk]; rewrite <- Hhd2; reflexivity|reflexivity|reflexivity].
        * eapply (dq_eval_step s _ t q x hd att); [exact H1|exact H2|rewrite E; reflexivity|rewrite E; reflexivity|rewrite E; reflexivity|reflexivity|reflexivity].
      + (* D6 *) destruct (gt0 _); inversion Hst; subst; clear Hst; (eapply (Inv2_pc_only s _ t); [exact H2|core_tac|sim; reflexivity|rewrite E; reflexivity|rewrite E; reflexivity|rewrite E; reflexivity|exact I]).
      + (* D7 *) destruct (sle 64 _ 0); inversion Hst; subst; clear Hst; (eapply (Inv2_pc_only s _ t); [exact H2|core_tac|sim; reflexivity|rewrite E; reflexivity|rewrite E; reflexivity|rewrite E; reflexivity|exact I]).
      + (* C1 *) destruct Hme as (Hct & Hch & Hle). destruct (HW q) as (_ & Htl & _).
        destruct (N.eqb_spec (rtail (rg s q)) tl) as [Heq|Hne]; inversion Hst; subst; clear Hst; [|(eapply (Inv2_pc_only s _ t); [exact H2|core_tac|sim; reflexivity|rewrite E; reflexivity|rewrite E; reflexivity|rewrite E; reflexivity|exact I])].
        rewrite (ctr_land1 _ Htl), N.lor_0_r. (eapply (Inv2_pc_only s _ t); [exact H2|core_tac|sim; reflexivity|rewrite E; reflexivity|rewrite E; reflexivity|rewrite E; reflexivity|exact I]).
      + (* C2 *) destruct (lt0 _); inversion Hst; subst; clear Hst; (eapply (Inv2_pc_only s _ t); [exact H2|core_tac|sim; reflexivity|rewrite E; reflexivity|rewrite E; reflexivity|rewrite E; reflexivity|exact I]).
      + (* D8 *) inversion Hst; subst; clear Hst; (eapply (Inv2_pc_only s _ t); [exact H2|core_tac|sim; reflexivity|rewrite E; reflexivity|rewrite E; reflexivity|rewrite E; reflexivity|exact I]).
      + (* E1 *) destruct (HW q) as (_ & [Ht2 Htlt] & _).
        destruct q; inversion Hst; subst; clear Hst; sim; apply orb_false_2 in Hov; destruct Hov as [Hov Ho]; apply (ctr_ovf_false k R Hk) in Ho;
        rewrite (wadd2_small _ Htlt) in *;
        (match type of E with th s t = E1 ?qq _ _ _ =>
           eapply (K_eq s _ t qq (rtail (rg s qq) / 2) (EHeld t)); [exact H1|exact H2|lia| | |sim; reflexivity|reflexivity|rewrite E; reflexivity|rewrite E; reflexivity| |] end);
        try (intros q'; sim; destruct q'; sim; ssplit; intros; try reflexivity; lia);
        try (intros i; sim; reflexivity);
        try (sim; lia);
        (left; ssplit; [apply ticket_fresh_eq; assumption|rewrite E; reflexivity|reflexivity|cbn [etk]; rewrite <- Ht2; reflexivity]).
      + (* E2 *) inversion Hst; subst; clear Hst.
        eapply (en_eval_step s _ t q x idx gk tl); [exact H1|exact H2|rewrite E; reflexivity|rewrite E; reflexivity|rewrite E; reflexivity|reflexivity].
      + (* E3 *) destruct (gt0 _); inversion Hst; subst; clear Hst.
        * eapply (skip_step s _ t q tl (E1 q x idx gk)); [exact H1|exact H2|rewrite E; reflexivity|rewrite E; reflexivity|reflexivity|rewrite E; reflexivity|reflexivity].
        * rewrite mark_skip_core by reflexivity. (eapply (Inv2_pc_only s _ t); [exact H2|core_tac|sim; reflexivity|rewrite E; reflexivity|rewrite E; reflexivity|rewrite E; reflexivity|exact I]).
      + (* E4 *) destruct Hme as (Hi & Hc & Ht & He & Hb & Hlt).
        destruct (N.eqb_spec (rdata (rg s q) (phys cap tl)) e) as [Hcur|Hcur].
        * destruct (f_enq k Hk tl idx (wfi_le k R Hk _ Hi)) as (A & B & C).
          destruct q; inversion Hst; subst; clear Hst;
          (eapply (K_pub s _ t _ x idx gk tl _ _ _); [exact H1|exact H2|exact E|reflexivity|exact C|exact A| | |sim; reflexivity]);
          try (intros q'; sim; destruct q'; sim; ssplit; intros; try reflexivity; lia);
          (intros i; sim; reflexivity).
        * inversion Hst; subst; clear Hst.
          eapply (en_eval_step s _ t q x idx gk tl); [exact H1|exact H2|rewrite E; reflexivity|rewrite E; reflexivity|rewrite E; reflexivity|reflexivity].
      + (* E5 *) destruct (_ =? _); [destruct q|]; inversion Hst; subst; clear Hst; (eapply (Inv2_pc_only s _ t); [exact H2|core_tac|sim; reflexivity|rewrite E; reflexivity|rewrite E; reflexivity|rewrite E; reflexivity|exact I]).
      + (* E6 *) destruct q; inversion Hst; subst; clear Hst; (eapply (Inv2_pc_only s _ t); [exact H2|core_tac|sim; reflexivity|rewrite E; reflexivity|rewrite E; reflexivity|rewrite E; reflexivity|exact I]).
  Qed.

  Theorem Inv12_reach s : reach (init cap) step s -> g_ovf s = false -> Inv1 s /\ Inv2 s.
  Proof.
    intros Hr. induction Hr as [|s a s' es Hr IH Hst]; intros Hov.
    - split; [apply (Inv1_init k R Hk)|apply Inv2_init].
    - destruct IH as [I1 I2]; [eapply ovf_sticky; eauto|].
      split; [eapply (Inv1_step k R Hk); eauto|eapply Inv2_step; eauto].
  Qed.
End L2.
