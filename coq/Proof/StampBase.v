(** Structural invariants of the stamp_it model (Model/StampDefs.v): the frame of a step, the thread-local shape of
    every program point ([tshape]: which program points own a control block, the region counter = number of non-empty
    guards of the thread + its region_guard), exclusive ownership of thread control blocks ([O0]).
    Used by the other Proof/Stamp*.v files.  No axioms. *)
From Coq Require Import NArith List Bool Arith Lia PeanoNat.
From XV Require Import Conc.Lts Conc.Ev Model.StampDefs.
Import ListNotations.
Local Open Scope N_scope.

(** * Function updates *)
Lemma updN_same {X} (f : N -> X) i v : updN f i v i = v.
Proof. unfold updN. rewrite N.eqb_refl. reflexivity. Qed.
Lemma updN_other {X} (f : N -> X) i v j : j <> i -> updN f i v j = f j.
Proof. unfold updN. intros H. destruct (N.eqb_spec j i); [contradiction|reflexivity]. Qed.
Lemma updN_cases {X} (f : N -> X) i v j : (j = i /\ updN f i v j = v) \/ (j <> i /\ updN f i v j = f j).
Proof. destruct (N.eq_dec j i) as [->|H]; [left; split; [reflexivity|apply updN_same] | right; split; [exact H|apply updN_other; exact H]]. Qed.
Lemma upd_cases {X} (f : nat -> X) i v j : (j = i /\ upd f i v j = v) \/ (j <> i /\ upd f i v j = f j).
Proof. destruct (Nat.eq_dec j i) as [->|H]; [left; split; [reflexivity|apply upd_same] | right; split; [exact H|apply upd_other; exact H]]. Qed.

Ltac prj := cbn [blist bstate qprev qnext qstamp gret nstamp cells nalloc nextid nid th tl g_owner g_reg g_lk g_max g_lo g_hi g_life g_where g_nfree g_uaf
                 w_blist w_bstate w_qprev w_qnext w_qstamp w_gret w_nstamp w_cells w_nalloc w_nextid w_nid w_th w_tl w_g_owner w_g_reg w_g_lk w_g_max w_g_lo w_g_hi w_g_life w_g_where w_g_nfree w_g_uaf
                 set_pc set_tl free_all move_all deref
                 cb nest rg rl gs hlo hgm wt_cb wt_nest wt_rg wt_rl wt_gs wt_hlo wt_hgm tl0].
Ltac prj_in H := cbn [blist bstate qprev qnext qstamp gret nstamp cells nalloc nextid nid th tl g_owner g_reg g_lk g_max g_lo g_hi g_life g_where g_nfree g_uaf
                 w_blist w_bstate w_qprev w_qnext w_qstamp w_gret w_nstamp w_cells w_nalloc w_nextid w_nid w_th w_tl w_g_owner w_g_reg w_g_lk w_g_max w_g_lo w_g_hi w_g_life w_g_where w_g_nfree w_g_uaf
                 set_pc set_tl free_all move_all deref
                 cb nest rg rl gs hlo hgm wt_cb wt_nest wt_rg wt_rl wt_gs wt_hlo wt_hgm tl0] in H.

Lemma oeqb_eq a b : oeqb a b = true <-> a = b.
Proof.
  destruct a as [x|], b as [y|]; cbn; split; intros H; try congruence; try discriminate.
  - apply N.eqb_eq in H. congruence.
  - inversion H. apply N.eqb_refl.
Qed.

Lemma memN_In n l : memN n l = true <-> In n l.
Proof.
  unfold memN. rewrite existsb_exists. split.
  - intros (x & Hx & E). apply N.eqb_eq in E. subst. exact Hx.
  - intros H. exists n. split; [exact H|apply N.eqb_refl].
Qed.
Lemma memN_false n l : memN n l = false <-> ~ In n l.
Proof. rewrite <- memN_In. destruct (memN n l); split; intros; congruence. Qed.

(** * Case analysis of one step *)
Ltac inv_some H := injection H as <- <-.

Ltac step_split H :=
  repeat match type of H with
  | None = Some _ => discriminate H
  | context [match ?x with _ => _ end] =>
      let E := fresh "E" in destruct x eqn:E
  | Some _ = Some _ => inv_some H
  end.

Ltac unfold_step H :=
  unfold step, step_gen, rm_step, pg_start, pg_round, leave, enter, push_check, entered, walk, ag_cont, do_cont, exited, to_cas, finish in H.


Definition touched (s : state) (t : nat) (b : N) : Prop :=
  cb (tl s t) = Some b \/ b = nalloc s \/ (exists k rest, th s t = C3 k b rest /\ bstate s b = 0) \/ (exists k, th s t = C4 k b).

Ltac split_updN_goal :=
  repeat match goal with
  | |- context [updN ?f ?i ?v ?i] => rewrite (updN_same f i v)
  | H : ?j <> ?i |- context [updN ?f ?i ?v ?j] => rewrite (updN_other f i v j H)
  | |- context [updN ?f ?i ?v ?j] => destruct (N.eq_dec j i); [subst j|]
  end.

Lemma is_nil_true {X} (l : list X) : is_nil l = true -> l = [].
Proof. destruct l; [reflexivity|discriminate]. Qed.
Lemma is_nil_false {X} (l : list X) : is_nil l = false -> l <> [].
Proof. destruct l; [discriminate|intros _ ?; discriminate]. Qed.
Lemma oeqb_false a b : oeqb a b = false -> a <> b.
Proof. intros H E. apply oeqb_eq in E. congruence. Qed.

(* turn the boolean equations produced by the case analysis into propositions *)
Ltac bool_eqs :=
  repeat match goal with
  | H : (_ =? _) = true |- _ => apply N.eqb_eq in H
  | H : (_ =? _) = false |- _ => apply N.eqb_neq in H
  | H : (_ =? _)%nat = true |- _ => apply Nat.eqb_eq in H
  | H : (_ =? _)%nat = false |- _ => apply Nat.eqb_neq in H
  | H : (_ <? _)%nat = true |- _ => apply Nat.ltb_lt in H
  | H : (_ <? _)%nat = false |- _ => apply Nat.ltb_ge in H
  | H : oeqb _ _ = true |- _ => apply oeqb_eq in H
  | H : oeqb _ _ = false |- _ => apply oeqb_false in H
  | H : is_nil _ = true |- _ => apply is_nil_true in H
  | H : is_nil _ = false |- _ => apply is_nil_false in H
  end.


(** * updates of the queue maps *)
Lemma tcb_eqb_eq a b : tcb_eqb a b = true <-> a = b.
Proof.
  destruct a, b; cbn; split; intros H; try congruence; try discriminate; try reflexivity.
  - apply N.eqb_eq in H. congruence.
  - inversion H. apply N.eqb_refl.
Qed.
Lemma tcb_eq_dec (a b : tcb) : {a = b} + {a <> b}.
Proof. decide equality. apply N.eq_dec. Defined.
Lemma updT_same {X} (f : tcb -> X) i v : updT f i v i = v.
Proof. unfold updT. destruct (tcb_eqb i i) eqn:E; [reflexivity|]. assert (tcb_eqb i i = true) by (apply tcb_eqb_eq; reflexivity). congruence. Qed.
Lemma updT_other {X} (f : tcb -> X) i v j : j <> i -> updT f i v j = f j.
Proof. unfold updT. intros H. destruct (tcb_eqb j i) eqn:E; [apply tcb_eqb_eq in E; contradiction|reflexivity]. Qed.
Lemma updT_cases {X} (f : tcb -> X) i v j : (j = i /\ updT f i v j = v) \/ (j <> i /\ updT f i v j = f j).
Proof. destruct (tcb_eq_dec j i) as [->|H]; [left; split; [reflexivity|apply updT_same] | right; split; [exact H|apply updT_other; exact H]]. Qed.

Lemma step_frame ns s t s' es : step ns s (Step t) = Some (s', es) ->
  (forall u, u <> t -> th s' u = th s u /\ tl s' u = tl s u) /\
  (forall b, ~ touched s t b -> bstate s' b = bstate s b /\ g_owner s' b = g_owner s b) /\
  (blist s' = blist s \/ exists k b h, th s t = C6 k b h /\ blist s' = b :: blist s) /\
  nalloc s <= nalloc s'.
Proof.
  intros H. unfold_step H. cbv zeta in H. step_split H.
  all: bool_eqs; prj.
  all: (split; [intros u Hu; rewrite ?upd_other by exact Hu; split; reflexivity|]).
  all: (split; [intros bb Hb; unfold touched in Hb|]).
  all: try solve [repeat split; reflexivity].
  all: try solve [repeat split; split_updN_goal; try reflexivity; exfalso; apply Hb; eauto 6].
  all: try solve [split; [left; congruence|lia]].
  all: try solve [split; [right; eauto|lia]].
  all: try solve [repeat split; split_updN_goal; try reflexivity; exfalso; apply Hb; right; right; left; eauto].
Qed.

Definition in_cphase (p : pc) : bool :=
  match p with C1 _ | C2 _ _ _ | C3 _ _ _ | C4 _ _ | C5 _ _ | C6 _ _ _ => true | _ => false end.
Definition in_pphase (p : pc) : bool :=
  match p with
  | P1 _ | P2 _ _ | P3 _ | P4 _ _ | P5 _ _ | P6 _ _ _ | P7 _ _ _ | P8 _ _ _ | P9 _ _ _ _ | P10 _ _ _ _
  | P11 _ _ _ | P12 _ _ | P13 _ _ _ | P14 _ _ _ => true
  | _ => false
  end.
(** leave_region after the decrement of region_entries, with a control block *)
Definition in_lphase (p : pc) : bool :=
  match p with
  | Rm _ _ | UT1 _ _ | UT2 _ _ _ | UT3 _ _ _ _ | UT4 _ _ _ _ _ | UT5 _ _ _ _ | UT6 _ _ | UT7 _ _ _
  | PL1 (PLLeave _) | PG1 _ | PG2 _ _ | PG3 _ _ | PG4 _ _ _ | AG1 (AGK _) _ | AG2 (AGK _) _ _ | X1 => true
  | _ => false
  end.
(** ~thread_data after the control block was abandoned *)
Definition in_xphase (p : pc) : bool :=
  match p with PL1 PLExit | AG1 AGExit _ | AG2 AGExit _ _ => true | _ => false end.
Definition cblk (p : pc) : option N := match p with C4 _ b | C5 _ b | C6 _ b _ => Some b | _ => None end.
Definition tmp (p : pc) (x : tls) : nat :=
  match p with
  | A2 (KHold _ s) => if is_some (gs x s) then 0 else 1
  | A2 _ => 1
  | R3c _ (Some _) _ => 1
  | RT1 _ => 1
  | PL1 PLRetire => 1
  | _ => 0
  end%nat.
Definition needs_cb (p : pc) : bool :=
  in_pphase p || in_lphase p ||
  match p with A2 _ | R3c _ (Some _) _ | RT1 _ | PL1 PLRetire => true | _ => false end.
Definition no_cb (p : pc) : bool := in_cphase p || in_xphase p.
Definition ctx_of (p : pc) : option ctx :=
  match p with
  | A1 k | C1 k | C2 k _ _ | C3 k _ _ | C4 k _ | C5 k _ | C6 k _ _
  | P1 k | P2 k _ | P3 k | P4 k _ | P5 k _ | P6 k _ _ | P7 k _ _ | P8 k _ _ | P9 k _ _ _ | P10 k _ _ _
  | P11 k _ _ | P12 k _ | P13 k _ _ | P14 k _ _ | A2 k => Some k
  | _ => None
  end.
Definition slot_of (p : pc) : option nat :=
  match p with
  | Begin (OHold _ s) | Begin (ODrop s) | Begin (ODeref s) => Some s
  | _ => match ctx_of p with Some (KHold _ s) => Some s | _ => None end
  end.
Definition is_kenter (p : pc) : bool := match ctx_of p with Some (KEnter _) => true | _ => false end.
Definition walk_of (p : pc) : list N := match p with C2 _ r rest | C3 _ r rest => r :: rest | _ => [] end.
Definition rgc (x : tls) : nat := if is_some (rg x) then 1%nat else 0%nat.

(** number of non-empty guards among the slots 0..n-1 *)
Fixpoint cnt_held (g : nat -> option N) (n : nat) : nat :=
  match n with O => O | S m => ((if is_some (g m) then 1 else 0) + cnt_held g m)%nat end.

Lemma cnt_held_none n : cnt_held (fun _ => None) n = O.
Proof. induction n; cbn; [reflexivity|exact IHn]. Qed.
(** counting held guards *)
Lemma cnt_upd_hi g s v n : (n <= s)%nat -> cnt_held (upd g s v) n = cnt_held g n.
Proof.
  induction n as [|n IH]; intros H; cbn [cnt_held]; [reflexivity|].
  rewrite IH by lia. rewrite upd_other by lia. reflexivity.
Qed.
Lemma cnt_upd_some_none g s x n : g s = Some x -> (s < n)%nat -> cnt_held g n = S (cnt_held (upd g s None) n).
Proof.
  intros Hg. induction n as [|n IH]; intros H; [lia|]. cbn [cnt_held].
  destruct (Nat.eq_dec s n) as [->|Hne].
  - rewrite upd_same, Hg. cbn [is_some]. rewrite cnt_upd_hi by lia. reflexivity.
  - rewrite (upd_other _ _ _ n) by congruence. rewrite IH by lia. lia.
Qed.
Lemma cnt_upd_none_some g s x n : g s = None -> (s < n)%nat -> cnt_held (upd g s (Some x)) n = S (cnt_held g n).
Proof.
  intros Hg. induction n as [|n IH]; intros H; [lia|]. cbn [cnt_held].
  destruct (Nat.eq_dec s n) as [->|Hne].
  - rewrite upd_same, Hg. cbn [is_some]. rewrite cnt_upd_hi by lia. reflexivity.
  - rewrite (upd_other _ _ _ n) by congruence. rewrite IH by lia. lia.
Qed.
Lemma cnt_upd_same_kind g s v n : is_some (g s) = is_some v -> cnt_held (upd g s v) n = cnt_held g n.
Proof.
  intros Hg. induction n as [|n IH]; [reflexivity|]. cbn [cnt_held]. rewrite IH.
  destruct (Nat.eq_dec n s) as [->|Hne]; [rewrite upd_same, Hg; reflexivity|rewrite upd_other by exact Hne; reflexivity].
Qed.
Lemma cnt_zero_all g n : cnt_held g n = O -> forall s, (s < n)%nat -> g s = None.
Proof.
  induction n as [|n IH]; intros H s Hs; [lia|]. cbn [cnt_held] in H.
  destruct (g n) eqn:En; cbn [is_some] in H; [lia|].
  destruct (Nat.eq_dec s n) as [->|Hne]; [exact En|apply IH; lia].
Qed.
Lemma cnt_pos g n s x : g s = Some x -> (s < n)%nat -> (1 <= cnt_held g n)%nat.
Proof. intros Hg Hs. rewrite (cnt_upd_some_none g s x n Hg Hs). lia. Qed.


Ltac fn := cbn [walk_of ctx_of slot_of is_kenter in_cphase in_pphase in_lphase in_xphase cblk tmp needs_cb no_cb orb andb negb is_some cell_of rgc rg].
Ltac fn_in H := cbn [walk_of ctx_of slot_of is_kenter in_cphase in_pphase in_lphase in_xphase cblk tmp needs_cb no_cb orb andb negb is_some cell_of rgc rg] in H.

Record tshape (ns : nat) (p : pc) (x : tls) : Prop := {
  ts_need : needs_cb p = true -> cb x <> None;
  ts_no : no_cb p = true -> cb x = None;
  ts_fresh : cb x = None -> nest x = O /\ (forall s, gs x s = None) /\ rg x = None;
  ts_cnt : nest x = (cnt_held (gs x) ns + tmp p x + rgc x)%nat;
  ts_slot : forall s, slot_of p = Some s -> (s < ns)%nat;
  ts_hi : forall s, (ns <= s)%nat -> gs x s = None;
  ts_c : in_cphase p = true -> nest x = O;
  ts_p : in_pphase p = true -> nest x = O;
  ts_l : in_lphase p = true -> nest x = O;
  ts_x : in_xphase p = true -> nest x = O;
  ts_ke : is_kenter p = true -> in_cphase p || in_pphase p = true }.

Ltac cleanup :=
  repeat match goal with
  | H : false = true -> _ |- _ => clear H
  | H : true = true -> _ |- _ => specialize (H eq_refl)
  | H : forall s, None = Some s -> _ |- _ => clear H
  | H : forall s, Some ?a = Some s -> _ |- _ => specialize (H a eq_refl)
  | H : ?a = None -> _, H2 : ?a = None |- _ => specialize (H H2)
  | H : _ /\ _ |- _ => destruct H
  end.

Ltac cnt_tac :=
  repeat match goal with
  | |- context [cnt_held (fun _ => None) ?n] => rewrite (cnt_held_none n)
  | E : ?g ?s0 = Some ?x, L : (?s0 < ?n)%nat |- context [cnt_held (upd ?g ?s0 None) ?n] =>
      rewrite (cnt_upd_some_none g s0 x n E L) in *
  | E : ?g ?s0 = None, L : (?s0 < ?n)%nat |- context [cnt_held (upd ?g ?s0 (Some ?x)) ?n] =>
      rewrite (cnt_upd_none_some g s0 x n E L)
  | E : ?g ?s0 = Some ?y |- context [cnt_held (upd ?g ?s0 (Some ?x)) ?n] =>
      rewrite (cnt_upd_same_kind g s0 (Some x) n) by (rewrite E; reflexivity)
  | E : ?g ?s0 = None |- context [cnt_held (upd ?g ?s0 None) ?n] =>
      rewrite (cnt_upd_same_kind g s0 None n) by (rewrite E; reflexivity)
  end.

Ltac prj_hyps := repeat match goal with H : _ |- _ => progress prj_in H end.
Ltac tfin :=
  try (let X := fresh "X" in intros X);
  cleanup; bool_eqs;
  repeat match goal with
  | |- context [match ?k with KRepl _ _ => _ | _ => _ end] => destruct k
  | H : context [match ?k with KRepl _ _ => _ | _ => _ end] |- _ => destruct k
  end; fn; repeat match goal with H : _ |- _ => progress fn_in H end; prj; prj_hyps; cleanup;
  repeat match goal with
  | E : rg ?x = _ |- _ => rewrite E in *
  end; fn; repeat match goal with H : _ |- _ => progress fn_in H end;
  repeat match goal with
  | |- context [is_some (?g ?s0)] => let E := fresh "Eg" in destruct (g s0) eqn:E; cbn [is_some] in *
  | H : context [is_some (?g ?s0)] |- _ => let E := fresh "Eg" in destruct (g s0) eqn:E; cbn [is_some] in *
  | |- context [is_some (rg ?x)] => let E := fresh "Er" in destruct (rg x) eqn:E; cbn [is_some] in *
  | H : context [is_some (rg ?x)] |- _ => let E := fresh "Er" in destruct (rg x) eqn:E; cbn [is_some] in *
  end; prj;
  repeat match goal with
  | |- context [upd ?f ?a ?v ?b] => destruct (upd_cases f a v b) as [[? ->]|[? ->]]; try subst
  end;
  repeat match goal with
  | H : forall s, ?g s = None, E : ?g ?s0 = Some _ |- _ => rewrite H in E; discriminate E
  end;
  cnt_tac;
  repeat match goal with
  | E : ?g ?s0 = Some ?x, L : (?s0 < ?ns)%nat |- _ =>
    lazymatch goal with | _ : (1 <= cnt_held g ns)%nat |- _ => fail | _ => pose proof (cnt_pos _ _ _ _ E L) end
  end;
  first [ assumption | reflexivity | discriminate | congruence | lia | exfalso; congruence | exfalso; lia | solve [auto]
        | split; first [assumption | lia | congruence | solve [auto]] ].

Lemma rm_top_rm f : exists p f', rm_top f = Rm p f'.
Proof. unfold rm_top. repeat match goal with |- context [if ?c then _ else _] => destruct c end; eauto. Qed.
Lemma rm_back_rm f p : exists p' f', rm_back f p = Rm p' f'.
Proof. unfold rm_back. destruct (fst (flast f)); [apply rm_top_rm|eauto]. Qed.
Lemma rm_skip_rm b f : exists p f', rm_skip b f = Rm p f'.
Proof. unfold rm_skip. repeat match goal with |- context [if ?c then _ else _] => destruct c | |- context [match ?c with Some _ => _ | None => _ end] => destruct c end; eauto. Qed.
Lemma rp_ret_rm w f : exists p f', rp_ret w f = Rm p f'.
Proof. unfold rp_ret. destruct w; eauto. Qed.
Lemma mn_ret_rm w r f : exists p f', mn_ret w r f = Rm p f'.
Proof. unfold mn_ret. destruct w, r; eauto using rp_ret_rm, rm_top_rm. Qed.

(* name the program point a helper of remove returns *)
Ltac rmn :=
  repeat match goal with
  | |- context [rm_top ?f] => let p := fresh "p" in let g := fresh "f" in let E := fresh "Er" in destruct (rm_top_rm f) as (p & g & E); rewrite E in *; clear E
  | |- context [rm_back ?f ?q] => let p := fresh "p" in let g := fresh "f" in let E := fresh "Er" in destruct (rm_back_rm f q) as (p & g & E); rewrite E in *; clear E
  | |- context [rm_skip ?b ?f] => let p := fresh "p" in let g := fresh "f" in let E := fresh "Er" in destruct (rm_skip_rm b f) as (p & g & E); rewrite E in *; clear E
  | |- context [rp_ret ?w ?f] => let p := fresh "p" in let g := fresh "f" in let E := fresh "Er" in destruct (rp_ret_rm w f) as (p & g & E); rewrite E in *; clear E
  | |- context [mn_ret ?w ?r ?f] => let p := fresh "p" in let g := fresh "f" in let E := fresh "Er" in destruct (mn_ret_rm w r f) as (p & g & E); rewrite E in *; clear E
  end.

Lemma tshape_step ns s t s' es : step ns s (Step t) = Some (s', es) ->
  tshape ns (th s t) (tl s t) -> tshape ns (th s' t) (tl s' t).
Proof.
  intros H I. unfold_step H. cbv zeta in H. step_split H.
  all: bool_eqs; prj; rewrite ?upd_same; prj; prj_hyps; rewrite ?upd_same in *; prj_hyps.
  all: try match goal with E : th _ _ = _ |- _ => rewrite E in I end.
  all: destruct I as [Ineed Ino Ifresh Icnt Islot Ihi Ic Ip Il Ix Ike].
  all: unfold rgc in *; fn_in Ineed; fn_in Ino; fn_in Icnt; fn_in Islot; fn_in Ic; fn_in Ip; fn_in Il; fn_in Ix; fn_in Ike.
  all: rmn.
  all: constructor; unfold rgc; prj; fn; intros.
  all: try solve [first [assumption | reflexivity | discriminate | congruence | lia | auto]].
  all: try solve [tfin].
  specialize (Il eq_refl). rewrite Il in Icnt.
  split; [exact Il|]. split.
  - intros s0. destruct (Nat.lt_ge_cases s0 ns) as [Hl|Hl]; [|apply Ihi; exact Hl].
    apply (cnt_zero_all (gs (tl s t)) ns); [lia|exact Hl].
  - destruct (rg (tl s t)); cbn [is_some] in Icnt; [lia|reflexivity].
Qed.

Lemma tshape_start ns s t o s' es : step ns s (Start t o) = Some (s', es) ->
  tshape ns (th s t) (tl s t) -> tshape ns (th s' t) (tl s' t).
Proof.
  intros H I. unfold_step H. cbv zeta in H. step_split H.
  all: bool_eqs; prj; rewrite ?upd_same; prj; prj_hyps.
  all: try match goal with E : th _ _ = _ |- _ => rewrite E in I end.
  all: destruct I as [Ineed Ino Ifresh Icnt Islot Ihi Ic Ip Il Ix Ike].
  all: unfold rgc in *; fn_in Ineed; fn_in Ino; fn_in Icnt; fn_in Islot; fn_in Ic; fn_in Ip; fn_in Il; fn_in Ix; fn_in Ike.
  all: constructor; unfold rgc; prj; fn; intros.
  all: try solve [first [assumption | reflexivity | discriminate | congruence | lia | auto]].
  all: solve [tfin].
Qed.

(** ** the thread-local shape holds for every thread of every reachable state *)
Section Reach.
Variables (ns : nat) (nc : N).
Definition reachable (st : state) : Prop := reach (init nc) (step ns) st.

Lemma step_other_thread s a s' es u : step ns s a = Some (s', es) ->
  (match a with Start t _ => t | Step t => t end) <> u -> th s' u = th s u /\ tl s' u = tl s u.
Proof.
  intros H Hne. destruct a as [t o|t].
  - unfold step, step_gen in H. step_split H. all: prj; rewrite ?upd_other by congruence; split; reflexivity.
  - destruct (step_frame _ _ _ _ _ H) as (F & _). apply F. congruence.
Qed.

Definition T0 (st : state) : Prop := forall u, tshape ns (th st u) (tl st u).

Lemma T0_init : T0 (init nc).
Proof.
  intros u. constructor; cbn; intros; try congruence; try discriminate; try (repeat split; intros; reflexivity); try reflexivity.
  rewrite cnt_held_none. reflexivity.
Qed.

Lemma T0_step s a s' es : T0 s -> step ns s a = Some (s', es) -> T0 s'.
Proof.
  intros I H u. destruct (Nat.eq_dec (match a with Start t _ => t | Step t => t end) u) as [<-|Hne].
  - destruct a as [t o|t]; [eapply tshape_start|eapply tshape_step]; eauto.
  - destruct (step_other_thread _ _ _ _ u H Hne) as [-> ->]. apply I.
Qed.

Lemma T0_reach s : reachable s -> T0 s.
Proof. apply inv_rule; [exact T0_init|exact T0_step]. Qed.
End Reach.

(** * Ownership of control blocks *)
Record O0 (s : state) : Prop := {
  o_own : forall u b, cb (tl s u) = Some b -> g_owner s b = Some u /\ In b (blist s);
  o_ownC : forall u b, cblk (th s u) = Some b -> g_owner s b = Some u /\ ~ In b (blist s);
  o_rev : forall b u, g_owner s b = Some u -> (cb (tl s u) = Some b \/ cblk (th s u) = Some b) /\ bstate s b = 2 /\ b < nalloc s;
  o_inlt : forall b, In b (blist s) -> b < nalloc s;
  o_walk : forall u b, In b (walk_of (th s u)) -> In b (blist s) }.

Lemma owner_untouched s t u b : O0 s -> g_owner s b = Some u -> u <> t -> ~ touched s t b.
Proof.
  intros I Ho Hne [H|[H|[(k & rest & H & H0)|(k & H)]]].
  - apply (o_own s I) in H. destruct H as [H _]. congruence.
  - apply (o_rev s I) in Ho. destruct Ho as (_ & _ & Hlt). subst b. lia.
  - apply (o_rev s I) in Ho. destruct Ho as (_ & Hst & _). rewrite Hst in H0. discriminate.
  - assert (Hc : cblk (th s t) = Some b) by (rewrite H; reflexivity).
    apply (o_ownC s I) in Hc. destruct Hc as [Hc _]. congruence.
Qed.

(** the other threads: nothing they rely on is touched *)
Lemma O0_other ns s t s' es u : O0 s -> step ns s (Step t) = Some (s', es) -> u <> t ->
  (forall b, cb (tl s' u) = Some b -> g_owner s' b = Some u /\ In b (blist s')) /\
  (forall b, cblk (th s' u) = Some b -> g_owner s' b = Some u /\ ~ In b (blist s')) /\
  (forall b, In b (walk_of (th s' u)) -> In b (blist s')).
Proof.
  intros I H Hne. destruct (step_frame _ _ _ _ _ H) as (Fth & Fb & Fl & _).
  destruct (Fth u Hne) as [-> ->].
  assert (Hin : forall b, In b (blist s) -> In b (blist s')).
  { destruct Fl as [->|(k & b0 & h & _ & ->)]; intros b Hb; [exact Hb|right; exact Hb]. }
  repeat split.
  - apply (o_own s I) in H0. destruct H0 as [Ho _].
    destruct (Fb b (owner_untouched _ _ _ _ I Ho Hne)) as (_ & ->). exact Ho.
  - apply Hin. apply (o_own s I) in H0. apply H0.
  - apply (o_ownC s I) in H0. destruct H0 as [Ho _].
    destruct (Fb b (owner_untouched _ _ _ _ I Ho Hne)) as (_ & ->). exact Ho.
  - apply (o_ownC s I) in H0. destruct H0 as (Ho & Hni).
    destruct Fl as [->|(k & b0 & h & Hpc & ->)]; [exact Hni|].
    intros [->|Hi]; [|contradiction].
    assert (Hc : cblk (th s t) = Some b) by (rewrite Hpc; reflexivity).
    apply (o_ownC s I) in Hc. destruct Hc as [Hc _]. congruence.
  - intros b Hb. apply Hin. eapply (o_walk s I); eauto.
Qed.

Ltac split_upd_all :=
  repeat match goal with
  | |- context [upd ?f ?t ?v ?t] => rewrite (upd_same f t v)
  | H : context [upd ?f ?t ?v ?t] |- _ => rewrite (upd_same f t v) in H
  | H : ?u <> ?t |- context [upd ?f ?t ?v ?u] => rewrite (upd_other f t v u H)
  | H : ?u <> ?t, H2 : context [upd ?f ?t ?v ?u] |- _ => rewrite (upd_other f t v u H) in H2
  | |- context [upd ?f ?t ?v ?u] => destruct (Nat.eq_dec u t); [subst u|]
  | H2 : context [upd ?f ?t ?v ?u] |- _ => destruct (Nat.eq_dec u t); [subst u|]
  end.
Ltac split_updN_all :=
  repeat match goal with
  | |- context [updN ?f ?i ?v ?i] => rewrite (updN_same f i v)
  | H : context [updN ?f ?i ?v ?i] |- _ => rewrite (updN_same f i v) in H
  | H : ?j <> ?i |- context [updN ?f ?i ?v ?j] => rewrite (updN_other f i v j H)
  | H : ?j <> ?i, H2 : context [updN ?f ?i ?v ?j] |- _ => rewrite (updN_other f i v j H) in H2
  | |- context [updN ?f ?i ?v ?j] => destruct (N.eq_dec j i); [subst j|]
  | H2 : context [updN ?f ?i ?v ?j] |- _ => destruct (N.eq_dec j i); [subst j|]
  end.

Ltac use_pc :=
  repeat match goal with
  | E : th ?s ?t = _, H : context [th ?s ?t] |- _ => rewrite E in H
  end.
Ltac inj_some :=
  repeat match goal with
  | H : Some ?a = Some ?b |- _ => first [ is_var b; injection H as <- | is_var a; injection H as -> | injection H as H ]
  end.
Ltac ofacts :=
  repeat match goal with
  | Iown : forall u b, cb (tl ?s u) = Some b -> g_owner ?s b = Some u /\ In b (blist ?s), H : cb (tl ?s ?u) = Some ?b |- _ =>
    lazymatch goal with | _ : g_owner s b = Some u |- _ => fail | _ => let X := fresh in pose proof (Iown u b H) as X; destruct X as [? ?] end
  | IownC : forall u b, cblk (th ?s u) = Some b -> g_owner ?s b = Some u /\ ~ In b (blist ?s), H : cblk (th ?s ?u) = Some ?b |- _ =>
    lazymatch goal with | _ : g_owner s b = Some u |- _ => fail | _ => let X := fresh in pose proof (IownC u b H) as X; destruct X as (? & ?) end
  | IownCt : forall b, Some ?b0 = Some b -> _ |- _ =>
    let X := fresh in pose proof (IownCt b0 eq_refl) as X; destruct X as (? & ?); clear IownCt
  | Irev : forall b u, g_owner ?s b = Some u -> (cb (tl ?s u) = Some b \/ cblk (th ?s u) = Some b) /\ bstate ?s b = 2 /\ b < nalloc ?s, H : g_owner ?s ?b = Some ?u |- _ =>
    lazymatch goal with | _ : bstate s b = 2 |- _ => fail | _ => let X := fresh in pose proof (Irev b u H) as X; destruct X as (? & ? & ?) end
  | Iinlt : forall b, In b (blist ?s) -> b < nalloc ?s, H : In ?b (blist ?s) |- _ =>
    lazymatch goal with | _ : b < nalloc s |- _ => fail | _ => pose proof (Iinlt b H) end
  end.

Ltac ofin2 :=
  split_upd_all; prj; prj_hyps; split_updN_all; inj_some; cleanup; ofacts; use_pc;
  repeat match goal with H : _ |- _ => progress fn_in H end; fn;
  repeat match goal with H : _ |- _ => progress fn_in H end; bool_eqs; cleanup;
  repeat match goal with
  | H : _ \/ _ |- _ => destruct H
  | H : In _ (_ :: _) |- _ => destruct H; [subst|]
  | H : In _ [] |- _ => destruct H
  end; inj_some; try subst; ofacts;
  repeat match goal with
  | |- context [Nat.eqb ?a ?b] => destruct (Nat.eqb_spec a b)
  | H : context [Nat.eqb ?a ?b] |- _ => destruct (Nat.eqb_spec a b)
  end;
  first [ assumption | reflexivity | discriminate | congruence | lia | exfalso; congruence | exfalso; lia
        | solve [auto] | solve [eauto 2] | left; assumption | right; assumption | left; congruence | right; congruence
        | match goal with Iwalkt : forall b, In b _ -> In b (blist _) |- In _ (blist _) => apply Iwalkt; simpl; tauto end
        | match goal with Iinlt : forall b, In b (blist ?s) -> b < nalloc ?s |- ~ In _ (blist ?s) => let X := fresh in intros X; apply Iinlt in X; lia end
        | simpl; tauto ].

Lemma O0_self ns s t s' es : O0 s -> tshape ns (th s t) (tl s t) -> step ns s (Step t) = Some (s', es) ->
  (forall b, cb (tl s' t) = Some b -> g_owner s' b = Some t /\ In b (blist s')) /\
  (forall b, cblk (th s' t) = Some b -> g_owner s' b = Some t /\ ~ In b (blist s')) /\
  (forall b, In b (walk_of (th s' t)) -> In b (blist s')) /\
  (forall b u, g_owner s' b = Some u -> (cb (tl s' u) = Some b \/ cblk (th s' u) = Some b) /\ bstate s' b = 2 /\ b < nalloc s') /\
  (forall b, In b (blist s') -> b < nalloc s').
Proof.
  intros I T H. unfold_step H. cbv zeta in H. step_split H.
  all: bool_eqs; prj; rewrite ?upd_same; prj; prj_hyps; rewrite ?upd_same in *; prj_hyps.
  all: try match goal with E : th _ _ = _ |- _ => rewrite E in T end.
  all: destruct T as [Tneed Tno Tfresh Tcnt Tslot Thi Tc Tp Tl Tx Tke].
  all: fn_in Tneed; fn_in Tno; fn_in Tslot; fn_in Tc; fn_in Tp; fn_in Tl; fn_in Tx; clear Tcnt Tke.
  all: destruct I as [Iown IownC Irev Iinlt Iwalk].
  all: match goal with E : th ?s ?t = _ |- _ =>
         pose proof (Iown t) as Iownt; pose proof (IownC t) as IownCt; pose proof (Iwalk t) as Iwalkt;
         rewrite E in IownCt, Iwalkt; fn_in IownCt; fn_in Iwalkt end.
  all: rmn.
  all: repeat split; intros.
  all: try solve [first [assumption | reflexivity | discriminate | congruence | lia | auto | eauto 2]].
  all: try solve [timeout 5 ofin2].
  all: try solve [inj_some; cleanup; apply Iinlt; apply Iwalkt; left; reflexivity].
  all: try solve [match goal with E0 : blist ?s = _ |- In _ (blist ?s) => rewrite E0; assumption end].
  split_updN_all; [apply Iinlt; apply Iwalkt; left; reflexivity | apply Irev in H; apply H].
Qed.

Section ReachO.
Variables (ns : nat) (nc : N).

Lemma O0_init : O0 (init nc).
Proof. constructor; cbn; intros; try congruence; try discriminate; try contradiction; try reflexivity. Qed.

Lemma O0_start s t o s' es : O0 s -> tshape ns (th s t) (tl s t) -> step ns s (Start t o) = Some (s', es) -> O0 s'.
Proof.
  intros I T H. unfold step, step_gen in H. step_split H.
  all: bool_eqs.
  all: try match goal with E : th _ _ = _ |- _ => rewrite E in T end.
  all: destruct T as [Tneed Tno Tfresh Tcnt Tslot Thi Tc Tp Tl Tx Tke].
  all: fn_in Tneed; fn_in Tno; fn_in Tslot; fn_in Tc; fn_in Tp; fn_in Tl; fn_in Tx; clear Tcnt Tke.
  all: destruct I as [Iown IownC Irev Iinlt Iwalk].
  all: match goal with E : th ?s ?t = _ |- _ =>
         pose proof (Iown t) as Iownt; pose proof (IownC t) as IownCt; pose proof (Iwalk t) as Iwalkt;
         rewrite E in IownCt, Iwalkt; fn_in IownCt; fn_in Iwalkt end.
  all: constructor; prj; intros.
  all: try solve [first [assumption | eauto 2]].
  all: try solve [ofin2].
Qed.

Lemma O0_step s a s' es : T0 ns s -> O0 s -> step ns s a = Some (s', es) -> O0 s'.
Proof.
  intros T I H. destruct a as [t o|t]; [eapply O0_start; eauto|].
  destruct (O0_self _ _ _ _ _ I (T t) H) as (S1 & S2 & S3 & S4 & S5).
  constructor; try assumption.
  - intros u b Hb. destruct (Nat.eq_dec u t) as [->|Hne]; [apply S1; exact Hb|].
    destruct (O0_other _ _ _ _ _ u I H Hne) as (X1 & _). apply X1; exact Hb.
  - intros u b Hb. destruct (Nat.eq_dec u t) as [->|Hne]; [apply S2; exact Hb|].
    destruct (O0_other _ _ _ _ _ u I H Hne) as (_ & X2 & _). apply X2; exact Hb.
  - intros u b Hb. destruct (Nat.eq_dec u t) as [->|Hne]; [apply S3; exact Hb|].
    destruct (O0_other _ _ _ _ _ u I H Hne) as (_ & _ & X3). apply X3; exact Hb.
Qed.

Lemma O0_reach s : reachable ns nc s -> O0 s.
Proof.
  apply (inv_rule_aux _ _ _ _ _ (T0 ns) O0 (T0_reach ns nc) O0_init).
  intros s0 a s1 es J _ I H. eapply O0_step; eauto.
Qed.
End ReachO.
