(** C16 for xenium::vyukov_bounded_queue.
    - The WEAK try_push / try_pop are lock-free: from every reachable state a thread inside one of
      them (or in the final store of any push/pop) finishes within 5 solo steps.  The reason is the
      proved cell invariant: the sequence of the cell at a FRESHLY read position is never ahead of
      that position, so the only backward edge of the weak loop (sequence > position: reload) is
      taken at most once, with a stale position, when the thread runs alone.
    - The STRONG try_push / try_pop are blocking: concrete reachable states (capacity 2) from which
      a thread running alone spins forever, waiting for a stopped thread to release a cell.
    Counter wrap-around is excluded as in Proof/VyukovInv.v.  No axioms, no admits. *)
From Coq Require Import NArith ZArith List Bool Lia PeanoNat.
From XV Require Import Base.Word Conc.Lts Conc.Ev Conc.Solo Model.VyukovDefs Proof.VyukovInv.
Import ListNotations.
Local Open Scope N_scope.

Definition idle (s : state) (t : nat) : bool := match th s t with Idle => true | _ => false end.

(** thread is idle, inside a weak operation, or at the final store of an operation *)
Definition weak_pc (p : pc) : bool :=
  match p with
  | Idle | Begin (OPush true _) | Begin (OPop true) | P1 true _ | P1w _ | P2 true _ _ | P3 true _ _ | P6 _ _
  | Q1 true | Q1w | Q2 true _ | Q3 true _ | Q6 _ => true
  | _ => false
  end.

(** remaining solo steps (upper bound): a position is fresh when it equals the shared counter *)
Definition vyu_weak_bound (s : state) (t : nat) : nat :=
  match th s t with
  | Begin (OPush true _) | Begin (OPop true) => 5
  | P1 true _ | P1w _ | Q1 true | Q1w => 4
  | P2 true _ pos => if pos =? enq s then 3 else 5
  | P3 true _ pos => if pos =? enq s then 2 else 4
  | Q2 true pos => if pos =? deq s then 3 else 5
  | Q3 true pos => if pos =? deq s then 2 else 4
  | P6 _ _ | Q6 _ => 1
  | _ => 0
  end.

(** the thread may still append one value to [g_in] *)
Definition pending (p : pc) : N := match p with Idle | P6 _ _ | Q6 _ => 0 | _ => 1 end.

Lemma vyu_weak_bound_le5 s t : (vyu_weak_bound s t <= 5)%nat.
Proof.
  unfold vyu_weak_bound.
  destruct (th s t) as [|[[|] v|[|]]|[|] v|[|] v pos|[|] v pos|v pos|v pos|v|v pos|[|]|[|] pos|[|] pos|pos|pos| |pos];
    try lia; match goal with |- context [if ?c then _ else _] => destruct c end; lia.
Qed.

Section VyukovSolo.
  Variables cap k : N.
  Hypothesis Hk1 : 1 <= k.
  Hypothesis Hk30 : k <= 30.
  Hypothesis Hcap : cap = 2 ^ k.

  Let InvC := Inv cap.
  Let vinv := vyu_inv cap k Hk1 Hk30 Hcap.
  Let cge2 := cap_ge2 cap k Hk1 Hk30 Hcap.

  (** the cell at the current enqueue position is never ahead of it *)
  Lemma fresh_enq_cell st : Inv cap st -> cseq st (cell cap (enq st)) <= enq st.
  Proof.
    intros HI. pose proof (i_le1 _ _ HI). pose proof (i_le2 _ _ HI). pose proof cge2.
    destruct (N.eq_dec (enq st) (deq st + cap)) as [e|ne].
    - rewrite e, (cell_add_cap cap k Hk1 Hk30 Hcap).
      destruct (i_winA _ _ HI (deq st)) as [[? _]|[? _]]; lia.
    - destruct (i_winB _ _ HI (enq st)) as [?|(q & t0 & ? & ? & _)]; lia.
  Qed.

  (** the cell at the current dequeue position is never ahead of "filled for this lap" *)
  Lemma fresh_deq_cell st : Inv cap st -> cseq st (cell cap (deq st)) <= deq st + 1.
  Proof.
    intros HI. pose proof (i_le1 _ _ HI). pose proof (i_le2 _ _ HI). pose proof cge2.
    destruct (N.eq_dec (deq st) (enq st)) as [e|ne].
    - rewrite e. destruct (i_winB _ _ HI (enq st)) as [?|(q & t0 & ? & ? & _)]; lia.
    - destruct (i_winA _ _ HI (deq st)) as [[? _]|[? _]]; lia.
  Qed.

  Definition P (t : nat) (s : state) : Prop :=
    reach init (step cap) s /\ weak_pc (th s t) = true /\ nn (g_in s) + pending (th s t) < 2 ^ 62.

  Ltac done_step :=
    eexists _, _; split; [reflexivity|];
    unfold vyu_weak_bound; cbn [th enq deq g_in]; rewrite ?upd_same; cbn [weak_pc pending];
    rewrite ?N.eqb_refl.

  Lemma vyu_weak_step s t : P t s -> idle s t = false ->
    exists s' es, step cap s (Step t) = Some (s', es) /\ P t s' /\ (vyu_weak_bound s' t < vyu_weak_bound s t)%nat.
  Proof.
    intros (Hr & Hw & Hb) Hi.
    assert (HB : Bnd s) by (unfold Bnd; lia).
    pose proof (vinv s Hr HB) as HI.
    pose proof (i_loc _ _ HI t) as Hl.
    pose proof (bnd_enq cap s HI HB) as He. unfold B62 in He.
    pose proof (i_le1 _ _ HI) as Hle1. pose proof (i_le2 _ _ HI) as Hle2.
    pose proof (fresh_enq_cell s HI) as Hfe. pose proof (fresh_deq_cell s HI) as Hfd.
    rewrite pow2_62 in Hb. unfold B62 in Hb.
    assert (Hgoal : exists s' es, step cap s (Step t) = Some (s', es) /\
              (weak_pc (th s' t) = true /\ nn (g_in s') + pending (th s' t) < 4611686018427387904) /\
              (vyu_weak_bound s' t < vyu_weak_bound s t)%nat).
    { unfold idle in Hi. unfold vyu_weak_bound at 2. cbn [step].
      destruct (th s t) as [|[[|] v|[|]]|[|] v|[|] v pos|[|] v pos|v pos|v pos|v|v pos|[|]|[|] pos|[|] pos|pos|pos| |pos] eqn:E;
        try discriminate; cbn [L pending] in *.
      - (* Begin push *) done_step. split; [split; [reflexivity|lia]|lia].
      - (* Begin pop *) done_step. split; [split; [reflexivity|lia]|lia].
      - (* P1 *) done_step. split; [split; [reflexivity|lia]|lia].
      - (* P2 *)
        destruct (N.eqb_spec pos (enq s)) as [->|Hne].
        + (* fresh *)
          destruct (N.eqb_spec (cseq s (cell cap (enq s))) (enq s)) as [Heq|Hn2].
          * done_step. split; [split; [reflexivity|lia]|lia].
          * assert (Hlt : cseq s (cell cap (enq s)) <? enq s = true) by (apply N.ltb_lt; lia).
            rewrite Hlt. done_step. split; [split; [reflexivity|lia]|lia].
        + destruct (cseq s (cell cap pos) =? pos).
          * done_step. apply N.eqb_neq in Hne. rewrite Hne. split; [split; [reflexivity|lia]|lia].
          * destruct (cseq s (cell cap pos) <? pos).
            -- done_step. split; [split; [reflexivity|lia]|lia].
            -- done_step. split; [split; [reflexivity|lia]|lia].
      - (* P3 *)
        destruct (N.eqb_spec pos (enq s)) as [->|Hne].
        + rewrite N.eqb_refl. done_step. rewrite nn_app. split; [split; [reflexivity|lia]|lia].
        + assert (Hn2 : enq s =? pos = false) by (apply N.eqb_neq; lia). rewrite Hn2.
          done_step. split; [split; [reflexivity|lia]|lia].
      - (* P1w *) done_step. split; [split; [reflexivity|lia]|lia].
      - (* P6 *) done_step. split; [split; [reflexivity|lia]|lia].
      - (* Q1 *) done_step. split; [split; [reflexivity|lia]|lia].
      - (* Q2 *)
        assert (Hp : pos < 4611686018427387904) by lia.
        rewrite (wadd1 cap k Hk1 Hk30 Hcap pos) by (unfold B62; exact Hp).
        destruct (N.eqb_spec pos (deq s)) as [->|Hne].
        + destruct (N.eqb_spec (cseq s (cell cap (deq s))) (deq s + 1)) as [Heq|Hn2].
          * done_step. split; [split; [reflexivity|lia]|lia].
          * assert (Hlt : cseq s (cell cap (deq s)) <? deq s + 1 = true) by (apply N.ltb_lt; lia).
            rewrite Hlt. done_step. split; [split; [reflexivity|lia]|lia].
        + destruct (cseq s (cell cap pos) =? pos + 1).
          * done_step. apply N.eqb_neq in Hne. rewrite Hne. split; [split; [reflexivity|lia]|lia].
          * destruct (cseq s (cell cap pos) <? pos + 1).
            -- done_step. split; [split; [reflexivity|lia]|lia].
            -- done_step. split; [split; [reflexivity|lia]|lia].
      - (* Q3 *)
        destruct (N.eqb_spec pos (deq s)) as [->|Hne].
        + rewrite N.eqb_refl. done_step. split; [split; [reflexivity|lia]|lia].
        + assert (Hn2 : deq s =? pos = false) by (apply N.eqb_neq; lia). rewrite Hn2.
          done_step. split; [split; [reflexivity|lia]|lia].
      - (* Q1w *) done_step. split; [split; [reflexivity|lia]|lia].
      - (* Q6 *) done_step. split; [split; [reflexivity|lia]|lia]. }
    destruct Hgoal as (s' & es & Hst & [Hw' Hb'] & Hmu). exists s', es.
    split; [exact Hst|]. split; [|exact Hmu].
    split; [eapply reach_step; eauto|]. split; [exact Hw'|]. rewrite pow2_62. exact Hb'.
  Qed.

  (** * Weak operations finish within [vyu_weak_bound s t] <= 5 solo steps *)
  Theorem vyu_weak_solo s t :
    reach init (step cap) s -> nn (g_in s) + 1 < 2 ^ 62 -> weak_pc (th s t) = true ->
    finishes_within (step cap) Step idle t (vyu_weak_bound s t) s.
  Proof.
    intros Hr Hb Hw.
    apply (finishes_by_measure _ _ _ (step cap) Step idle (P t) (fun s => vyu_weak_bound s t) t).
    - intros s0 HP Hi. exact (vyu_weak_step s0 t HP Hi).
    - split; [exact Hr|]. split; [exact Hw|]. destruct (th s t); cbn [pending]; lia.
  Qed.

  Theorem vyu_weak_solo_5 s t :
    reach init (step cap) s -> nn (g_in s) + 1 < 2 ^ 62 -> weak_pc (th s t) = true ->
    finishes_within (step cap) Step idle t 5 s.
  Proof.
    intros Hr Hb Hw. eapply finishes_within_mono; [apply vyu_weak_bound_le5|]. apply vyu_weak_solo; assumption.
  Qed.

  Theorem vyu_weak_never_stuck s t :
    reach init (step cap) s -> nn (g_in s) + 1 < 2 ^ 62 -> weak_pc (th s t) = true ->
    never_stuck (step cap) Step idle t s.
  Proof. intros Hr Hb Hw. eapply finishes_never_stuck. apply vyu_weak_solo; eassumption. Qed.

  (** an idle thread that starts a weak operation: 5 steps *)
  Theorem vyu_weak_solo_start s t o s' es :
    reach init (step cap) s -> nn (g_in s) + 1 < 2 ^ 62 ->
    (match o with OPush w _ => w | OPop w => w end) = true ->
    step cap s (Start t o) = Some (s', es) ->
    finishes_within (step cap) Step idle t 5 s'.
  Proof.
    intros Hr Hb Ho Hst. assert (Hr' : reach init (step cap) s') by (eapply reach_step; eauto).
    cbn [step] in Hst. destruct (th s t); try discriminate. injection Hst as Hs Hes; subst s' es.
    apply vyu_weak_solo_5; [exact Hr'|exact Hb|]. cbn [th]. rewrite upd_same.
    destruct o as [[|] ?|[|]]; try discriminate; reflexivity.
  Qed.
End VyukovSolo.

(** * The strong operations block (capacity 2) *)

(** thread 1 fills the queue, thread 2 (strong pop) takes ticket 0 and is stopped before it releases
    cell 0; thread 1 then starts a strong push: cell 0 is neither free nor is the queue full. *)
Definition vyu_block_acts_push : list action :=
  [Start 1%nat (OPush false 10)] ++ repeat (Step 1%nat) 5 ++
  [Start 1%nat (OPush false 11)] ++ repeat (Step 1%nat) 5 ++
  [Start 2%nat (OPop false)] ++ repeat (Step 2%nat) 4 ++
  [Start 1%nat (OPush false 12)].
Definition vyu_block_state_push : state := fst (fst (run (step 2) init vyu_block_acts_push)).

Definition push_spin_P (t : nat) (s : state) : Prop :=
  exists v pos, (th s t = P2 false v pos \/ th s t = P4 v pos \/ th s t = P5 v pos) /\
    enq s = pos /\ cseq s (cell 2 pos) <> pos /\ wadd 64 (wadd 64 (deq s) (mask 2)) 1 <> pos.

Lemma push_spin_closed t s : push_spin_P t s ->
  idle s t = false /\ exists s' es, step 2 s (Step t) = Some (s', es) /\ push_spin_P t s'.
Proof.
  intros (v & pos & [Hp|[Hp|Hp]] & He & Hc & Hd); unfold idle; rewrite Hp; (split; [reflexivity|]);
    cbn [step]; rewrite Hp.
  - apply N.eqb_neq in Hc. rewrite Hc. eexists _, _. split; [reflexivity|].
    exists v, pos. cbn [th enq deq cseq]. rewrite upd_same. apply N.eqb_neq in Hc. auto.
  - rewrite He, N.eqb_refl. eexists _, _. split; [reflexivity|].
    exists v, pos. cbn [th enq deq cseq]. rewrite upd_same. auto.
  - apply N.eqb_neq in Hd. rewrite Hd. eexists _, _. split; [reflexivity|].
    exists v, pos. cbn [th enq deq cseq]. rewrite upd_same. apply N.eqb_neq in Hd. auto.
Qed.

Theorem vyu_strong_push_blocking :
  reach init (step 2) vyu_block_state_push /\
  th vyu_block_state_push 1%nat = Begin (OPush false 12) /\
  blocks (step 2) Step idle 1%nat vyu_block_state_push.
Proof.
  split; [apply run_reach|]. split; [vm_compute; reflexivity|].
  remember (fst (fst (run (step 2) vyu_block_state_push (repeat (Step 1%nat) 2)))) as s2 eqn:E2.
  assert (Hs : solo_steps (step 2) Step idle 1%nat 2 vyu_block_state_push s2).
  { subst s2. repeat (eapply solo_S; [vm_compute; reflexivity|vm_compute; reflexivity|]). constructor. }
  apply (blocks_prefix _ _ _ (step 2) Step idle 1%nat 2 _ s2 Hs).
  apply spins_blocks.
  apply (spins_by_invariant _ _ _ (step 2) Step idle (push_spin_P 1%nat) 1%nat (push_spin_closed 1%nat)).
  subst s2. exists 12, 2. split; [left; vm_compute; reflexivity|].
  split; [vm_compute; reflexivity|]. split; vm_compute; discriminate.
Qed.

(** thread 1 (strong push) takes ticket 0 and is stopped before it publishes the element; thread 2
    starts a strong pop: the queue is not empty (enq = 1) but cell 0 is not filled. *)
Definition vyu_block_acts_pop : list action :=
  [Start 1%nat (OPush false 10)] ++ repeat (Step 1%nat) 4 ++ [Start 2%nat (OPop false)].
Definition vyu_block_state_pop : state := fst (fst (run (step 2) init vyu_block_acts_pop)).

Definition pop_spin_P (t : nat) (s : state) : Prop :=
  exists pos, (th s t = Q2 false pos \/ th s t = Q4 pos \/ th s t = Q5 pos) /\
    deq s = pos /\ cseq s (cell 2 pos) <> wadd 64 pos 1 /\ enq s <> pos.

Lemma pop_spin_closed t s : pop_spin_P t s ->
  idle s t = false /\ exists s' es, step 2 s (Step t) = Some (s', es) /\ pop_spin_P t s'.
Proof.
  intros (pos & [Hp|[Hp|Hp]] & He & Hc & Hd); unfold idle; rewrite Hp; (split; [reflexivity|]);
    cbn [step]; rewrite Hp.
  - apply N.eqb_neq in Hc. rewrite Hc. eexists _, _. split; [reflexivity|].
    exists pos. cbn [th enq deq cseq]. rewrite upd_same. apply N.eqb_neq in Hc. auto.
  - rewrite He, N.eqb_refl. eexists _, _. split; [reflexivity|].
    exists pos. cbn [th enq deq cseq]. rewrite upd_same. auto.
  - apply N.eqb_neq in Hd. rewrite Hd. eexists _, _. split; [reflexivity|].
    exists pos. cbn [th enq deq cseq]. rewrite upd_same. apply N.eqb_neq in Hd. auto.
Qed.

Theorem vyu_strong_pop_blocking :
  reach init (step 2) vyu_block_state_pop /\
  th vyu_block_state_pop 2%nat = Begin (OPop false) /\
  blocks (step 2) Step idle 2%nat vyu_block_state_pop.
Proof.
  split; [apply run_reach|]. split; [vm_compute; reflexivity|].
  remember (fst (fst (run (step 2) vyu_block_state_pop (repeat (Step 2%nat) 2)))) as s2 eqn:E2.
  assert (Hs : solo_steps (step 2) Step idle 2%nat 2 vyu_block_state_pop s2).
  { subst s2. repeat (eapply solo_S; [vm_compute; reflexivity|vm_compute; reflexivity|]). constructor. }
  apply (blocks_prefix _ _ _ (step 2) Step idle 2%nat 2 _ s2 Hs).
  apply spins_blocks.
  apply (spins_by_invariant _ _ _ (step 2) Step idle (pop_spin_P 2%nat) 2%nat (pop_spin_closed 2%nat)).
  subst s2. exists 0. split; [left; vm_compute; reflexivity|].
  split; [vm_compute; reflexivity|]. split; vm_compute; discriminate.
Qed.
