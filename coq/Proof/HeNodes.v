(** Layer N: the life cycle of the nodes and where the retired nodes are (hazard eras model; the structure of
    Proof/HpNodes.v) *)
From Coq Require Import NArith List Bool Arith Lia PeanoNat.
From XV Require Import Conc.Lts Conc.Ev Model.HeDefs Proof.HeBase Proof.HeGuards.
Import ListNotations.

Lemma mem_In n l : mem n l = true <-> In n l.
Proof.
  unfold mem. rewrite existsb_exists. split.
  - intros (x & Hx & He). apply Nat.eqb_eq in He. subst. exact Hx.
  - intros H. exists n. split; [exact H|apply Nat.eqb_refl].
Qed.

Lemma mem_false n l : mem n l = false <-> ~ In n l.
Proof. rewrite <- mem_In. destruct (mem n l); split; intros; congruence. Qed.

Lemma count_notin n l : ~ In n l -> count n l = 0.
Proof.
  unfold count. induction l as [|a l IH]; intros H; [reflexivity|]. cbn [filter].
  destruct (Nat.eqb_spec n a) as [->|Hne]; [exfalso; apply H; left; reflexivity|]. apply IH. intros Hc. apply H. right. exact Hc.
Qed.

Lemma count_nodup n l : NoDup l -> In n l -> count n l = 1.
Proof.
  unfold count. induction l as [|a l IH]; intros Hnd Hin; [destruct Hin|]. apply NoDup_cons_iff in Hnd. destruct Hnd as [Hna Hnd].
  cbn [filter]. destruct (Nat.eqb_spec n a) as [->|Hne].
  - cbn [length]. f_equal. apply (count_notin a l Hna).
  - destruct Hin as [->|Hin]; [congruence|]. apply IH; assumption.
Qed.

Lemma NoDup_app_iff (l1 l2 : list nat) : NoDup (l1 ++ l2) <-> NoDup l1 /\ NoDup l2 /\ (forall x, In x l1 -> ~ In x l2).
Proof.
  induction l1 as [|a l1 IH]; cbn [app].
  - split; [intros H; split; [constructor|split; [exact H|intros x []]]|intros (_ & H & _); exact H].
  - rewrite !NoDup_cons_iff, IH, in_app_iff. split.
    + intros (H1 & H2 & H3 & H4). split; [split; [tauto|exact H2]|]. split; [exact H3|].
      intros x [<-|Hx]; [tauto|apply H4; exact Hx].
    + intros ((H1 & H2) & H3 & H4). split; [intros [Hc|Hc]; [contradiction|apply (H4 a (or_introl eq_refl) Hc)]|].
      split; [exact H2|]. split; [exact H3|]. intros x Hx. apply H4. right. exact Hx.
Qed.

Definition ad_of (p : pc) : list nat :=
  match p with S1 s | S2 s | S3 s | S4 s | S5 s _ _ | S6 s _ _ _ | S7 s => s_ad s | _ => [] end.

Definition gone (st : state) (n : nat) : bool :=
  match g_where st n, g_life st n with PFreed, _ => true | _, LDropped => true | _, _ => false end.

(** the node a program point owns: freshly allocated (true) or unlinked (false) *)
Definition pcn (p : pc) : option (nat * bool) :=
  match p with
  | C1 _ n | R1 _ (Some n) => Some (n, true)
  | R2 o | R3 o => Some (o, false)
  | _ => None
  end.

Definition pcN (st : state) (t : nat) (p : pc) : Prop :=
  match pcn p with
  | Some (n, true) => g_life st n = LFresh t
  | Some (n, false) => g_life st n = LUnl t
  | None => True
  end /\
  match p with S1 s | S2 s | S3 s => s_ad s = [] | _ => True end.

Lemma pcN_keep st st' t p :
  (forall n, g_life st n = LFresh t \/ g_life st n = LUnl t -> g_life st' n = g_life st n) -> pcN st t p -> pcN st' t p.
Proof.
  intros Hk [H1 H2]. split; [|exact H2]. destruct (pcn p) as [[n []]|]; [| |exact I].
  - rewrite Hk; [exact H1|left; exact H1].
  - rewrite Hk; [exact H1|right; exact H1].
Qed.

Lemma pcN_plain st t p : pcn p = None -> (forall s, p <> S1 s /\ p <> S2 s /\ p <> S3 s) -> pcN st t p.
Proof.
  intros H1 H2. split; [rewrite H1; exact I|]. destruct p; try exact I; exfalso; destruct (H2 s) as (A & B & C); congruence.
Qed.

Record InvN (st : state) : Prop := mkN {
  n_cell : forall c n, cells st c = Some n -> g_life st n = LPub c;
  n_lt : forall n, nalloc st <= n -> g_life st n = LNone;
  n_none : forall n, g_where st n = PNone <-> (forall u, g_life st n <> LRet u);
  n_list : forall t n, g_where st n = PList t <-> In n (rl (tl st t));
  n_list_nd : forall t, NoDup (rl (tl st t));
  n_aband : forall n, g_where st n = PAband <-> In n (aband st);
  n_aband_nd : NoDup (aband st);
  n_flight : forall t n, g_where st n = PFlight t <-> In n (ad_of (th st t));
  n_flight_nd : forall t, NoDup (ad_of (th st t));
  n_free : forall n, g_nfree st n = if gone st n then 1 else 0;
  n_pc : forall t, pcN st t (th st t) }.

Lemma InvN_frame st st' :
  (forall c, cells st' c = cells st c) -> (forall n, g_life st' n = g_life st n) -> (forall n, g_where st' n = g_where st n) ->
  (forall n, g_nfree st' n = g_nfree st n) -> aband st' = aband st -> nalloc st <= nalloc st' ->
  (forall t, rl (tl st' t) = rl (tl st t)) -> (forall t, ad_of (th st' t) = ad_of (th st t)) ->
  (forall t, pcN st t (th st t) -> pcN st t (th st' t)) ->
  InvN st -> InvN st'.
Proof.
  intros Hc Hl Hw Hf Ha Hn Hr Had Hp [I1 I2 I3 I4 I5 I6 I7 I8 I9 I10 I11].
  constructor; intros; rewrite ?Ha, ?Hr, ?Had, ?Hw, ?Hf, ?Hl in *; try rewrite Hc in *; auto.
  - apply I2. lia.
  - unfold gone. rewrite Hw, Hl. apply I10.
  - apply (pcN_keep st); [intros n _; apply Hl|]. apply Hp, I11.
Qed.

Lemma pcN_ext st st' t p : (forall n, g_life st' n = g_life st n) -> pcN st t p -> pcN st' t p.
Proof. intros Hl. apply pcN_keep. intros n _. apply Hl. Qed.

(** a node is allocated (repl): block [nalloc st] *)
Lemma InvN_fresh st st' t c :
  InvN st -> ad_of (th st t) = [] ->
  (forall c, cells st' c = cells st c) -> (forall n, g_life st' n = upd (g_life st) (nalloc st) (LFresh t) n) ->
  (forall n, g_where st' n = g_where st n) -> (forall n, g_nfree st' n = g_nfree st n) -> aband st' = aband st ->
  nalloc st' = S (nalloc st) ->
  (forall u, rl (tl st' u) = rl (tl st u)) -> th st' t = C1 c (nalloc st) -> (forall u, u <> t -> th st' u = th st u) ->
  InvN st'.
Proof.
  intros [I1 I2 I3 I4 I5 I6 I7 I8 I9 I10 I11] Had Hc Hl Hw Hf Ha Hn Hr Ht Hu.
  set (b := nalloc st) in *.
  assert (Hb : g_life st b = LNone) by (apply I2; unfold b; lia).
  assert (Hwb : g_where st b = PNone) by (apply I3; intros u; congruence).
  assert (Hlo : forall n, n <> b -> g_life st' n = g_life st n) by (intros n Hne; rewrite Hl; upds; reflexivity).
  assert (Hadu : forall u, ad_of (th st' u) = ad_of (th st u)).
  { intros u. destruct (Nat.eq_dec u t) as [->|Hne]; [rewrite Ht, Had; reflexivity|rewrite Hu by exact Hne; reflexivity]. }
  constructor.
  - intros c0 n. rewrite Hc. intros H.
    assert (n <> b) by (intros ->; rewrite (I1 c0 b H) in Hb; discriminate). rewrite Hlo by assumption. apply I1. exact H.
  - intros n H. assert (n <> b) by lia. rewrite Hlo by assumption. apply I2. lia.
  - intros n. rewrite Hw. destruct (Nat.eq_dec n b) as [->|Hne].
    + rewrite Hl. upds. split; [intros _ u; discriminate|intros _; exact Hwb].
    + rewrite Hlo by exact Hne. apply I3.
  - intros u n. rewrite Hw, Hr. apply I4.
  - intros u. rewrite Hr. apply I5.
  - intros n. rewrite Hw, Ha. apply I6.
  - rewrite Ha. exact I7.
  - intros u n. rewrite Hw, Hadu. apply I8.
  - intros u. rewrite Hadu. apply I9.
  - intros n. rewrite Hf. unfold gone. rewrite Hw. destruct (Nat.eq_dec n b) as [->|Hne].
    + rewrite Hl. upds. specialize (I10 b). unfold gone in I10. rewrite Hwb, Hb in I10. rewrite Hwb. exact I10.
    + rewrite Hlo by exact Hne. apply I10.
  - intros t0. destruct (Nat.eq_dec t0 t) as [->|Hne].
    + rewrite Ht. split; [|exact I]. cbn [pcn]. rewrite Hl. upds. reflexivity.
    + rewrite Hu by exact Hne. apply (pcN_keep st); [|apply I11]. intros n [H|H]; apply Hlo; intros ->; congruence.
Qed.

(** the client's CAS succeeded: [n] is published in cell [c], the old node [o] is unlinked *)
Lemma InvN_cas st st' t c n o p :
  InvN st -> th st t = R1 c n -> cells st c = o ->
  (forall c', cells st' c' = upd (cells st) c n c') ->
  (forall m, g_life st' m = if (match o with Some o' => m =? o' | None => false end) then LUnl t
                            else if (match n with Some n' => m =? n' | None => false end) then LPub c else g_life st m) ->
  (forall n, g_where st' n = g_where st n) -> (forall n, g_nfree st' n = g_nfree st n) -> aband st' = aband st ->
  nalloc st <= nalloc st' ->
  (forall u, rl (tl st' u) = rl (tl st u)) -> th st' t = p -> (forall u, u <> t -> th st' u = th st u) ->
  ad_of p = [] -> (match o with Some o' => p = R2 o' \/ p = R3 o' | None => pcn p = None /\ (forall s, p <> S1 s /\ p <> S2 s /\ p <> S3 s) end) ->
  InvN st'.
Proof.
  intros HN Hth Hco Hc Hl Hw Hf Ha Hn Hr Ht Hu Hadp Hp.
  pose proof HN as [I1 I2 I3 I4 I5 I6 I7 I8 I9 I10 I11].
  assert (Hpc : match n with Some n' => g_life st n' = LFresh t | None => True end).
  { destruct (I11 t) as [Hx _]. rewrite Hth in Hx. destruct n; exact Hx. }
  assert (Hadu : forall u, ad_of (th st' u) = ad_of (th st u)).
  { intros u. destruct (Nat.eq_dec u t) as [->|Hne]; [rewrite Ht, Hth, Hadp; reflexivity|rewrite Hu by exact Hne; reflexivity]. }
  assert (Hon : forall o' n', o = Some o' -> n = Some n' -> o' <> n').
  { intros o' n' -> -> ->. rewrite (I1 c n' Hco) in Hpc. discriminate. }
  assert (Hlo : forall o', o = Some o' -> g_life st o' = LPub c) by (intros o' ->; apply I1; exact Hco).
  assert (Hret : forall m u, g_life st' m = LRet u <-> g_life st m = LRet u).
  { intros m u. rewrite Hl. destruct o as [o'|]; [destruct (Nat.eqb_spec m o') as [->|_]|];
      [rewrite (Hlo o' eq_refl); split; discriminate| |];
      (destruct n as [n'|]; [destruct (Nat.eqb_spec m n') as [->|_]; [rewrite Hpc; split; discriminate|reflexivity]|reflexivity]). }
  constructor.
  - intros c0 n0. rewrite Hc. intros H. rewrite Hl. destruct (Nat.eq_dec c0 c) as [->|Hne]; upds_in H.
    + subst n. destruct o as [o'|]; [destruct (Nat.eqb_spec n0 o') as [->|_]; [exfalso; apply (Hon o' o'); reflexivity|]|];
        rewrite Nat.eqb_refl; reflexivity.
    + pose proof (I1 c0 n0 H) as Hn0.
      destruct o as [o'|]; [destruct (Nat.eqb_spec n0 o') as [->|_]; [rewrite (Hlo o' eq_refl) in Hn0; congruence|]|];
        (destruct n as [n'|]; [destruct (Nat.eqb_spec n0 n') as [->|_]; [congruence|exact Hn0]|exact Hn0]).
  - intros n0 H. rewrite Hl. assert (Hm : g_life st n0 = LNone) by (apply I2; lia).
    destruct o as [o'|]; [destruct (Nat.eqb_spec n0 o') as [->|_]; [rewrite (Hlo o' eq_refl) in Hm; discriminate|]|];
      (destruct n as [n'|]; [destruct (Nat.eqb_spec n0 n') as [->|_]; [congruence|exact Hm]|exact Hm]).
  - intros n0. rewrite Hw, I3. split; intros H u; specialize (H u); rewrite Hret in *; exact H.
  - intros u n0. rewrite Hw, Hr. apply I4.
  - intros u. rewrite Hr. apply I5.
  - intros n0. rewrite Hw, Ha. apply I6.
  - rewrite Ha. exact I7.
  - intros u n0. rewrite Hw, Hadu. apply I8.
  - intros u. rewrite Hadu. apply I9.
  - intros n0. rewrite Hf. unfold gone. rewrite Hw. specialize (I10 n0). unfold gone in I10. rewrite Hl.
    destruct o as [o'|]; [destruct (Nat.eqb_spec n0 o') as [->|_]; [rewrite (Hlo o' eq_refl) in I10; destruct (g_where st o'); exact I10|]|];
      (destruct n as [n'|]; [destruct (Nat.eqb_spec n0 n') as [->|_]; [rewrite Hpc in I10; destruct (g_where st n'); exact I10|exact I10]|exact I10]).
  - intros t0. destruct (Nat.eq_dec t0 t) as [->|Hne].
    + rewrite Ht. destruct o as [o'|].
      * destruct Hp as [-> | ->]; (split; [|exact I]); cbn [pcn]; rewrite Hl, Nat.eqb_refl; reflexivity.
      * destruct Hp as (Hp1 & Hp2). apply pcN_plain; assumption.
    + rewrite Hu by exact Hne. apply (pcN_keep st); [|apply I11]. intros m Hm. rewrite Hl.
      destruct o as [o'|]; [destruct (Nat.eqb_spec m o') as [->|_]; [rewrite (Hlo o' eq_refl) in Hm; destruct Hm; discriminate|]|];
        (destruct n as [n'|]; [destruct (Nat.eqb_spec m n') as [->|_]; [rewrite Hpc in Hm; destruct Hm as [Hm|Hm]; congruence|reflexivity]|reflexivity]).
Qed.

(** the CAS failed: the creator deletes its new node *)
Lemma InvN_drop st st' t c n p :
  InvN st -> th st t = R1 c (Some n) ->
  (forall c', cells st' c' = cells st c') -> (forall m, g_life st' m = upd (g_life st) n LDropped m) ->
  (forall m, g_where st' m = g_where st m) -> (forall m, g_nfree st' m = upd (g_nfree st) n (S (g_nfree st n)) m) ->
  aband st' = aband st -> nalloc st <= nalloc st' ->
  (forall u, rl (tl st' u) = rl (tl st u)) -> th st' t = p -> (forall u, u <> t -> th st' u = th st u) ->
  ad_of p = [] -> pcn p = None -> (forall s, p <> S1 s /\ p <> S2 s /\ p <> S3 s) ->
  InvN st'.
Proof.
  intros HN Hth Hc Hl Hw Hf Ha Hn Hr Ht Hu Hadp Hp Hp2.
  pose proof HN as [I1 I2 I3 I4 I5 I6 I7 I8 I9 I10 I11].
  assert (Hpc : g_life st n = LFresh t) by (destruct (I11 t) as [Hx _]; rewrite Hth in Hx; exact Hx).
  assert (Hadu : forall u, ad_of (th st' u) = ad_of (th st u)).
  { intros u. destruct (Nat.eq_dec u t) as [->|Hne]; [rewrite Ht, Hth, Hadp; reflexivity|rewrite Hu by exact Hne; reflexivity]. }
  assert (Hlo : forall m, m <> n -> g_life st' m = g_life st m) by (intros m Hne; rewrite Hl; upds; reflexivity).
  assert (Hwn : g_where st n = PNone) by (apply I3; intros u; congruence).
  constructor.
  - intros c0 m. rewrite Hc. intros H. assert (m <> n) by (intros ->; rewrite (I1 c0 n H) in Hpc; discriminate).
    rewrite Hlo by assumption. apply I1. exact H.
  - intros m H. assert (m <> n) by (intros ->; rewrite I2 in Hpc by lia; discriminate). rewrite Hlo by assumption. apply I2. lia.
  - intros m. rewrite Hw. destruct (Nat.eq_dec m n) as [->|Hne].
    + rewrite Hl. upds. split; [intros _ u; discriminate|intros _; exact Hwn].
    + rewrite Hlo by exact Hne. apply I3.
  - intros u m. rewrite Hw, Hr. apply I4.
  - intros u. rewrite Hr. apply I5.
  - intros m. rewrite Hw, Ha. apply I6.
  - rewrite Ha. exact I7.
  - intros u m. rewrite Hw, Hadu. apply I8.
  - intros u. rewrite Hadu. apply I9.
  - intros m. rewrite Hf. unfold gone. rewrite Hw. destruct (Nat.eq_dec m n) as [->|Hne]; upds.
    + rewrite Hl. upds. specialize (I10 n). unfold gone in I10. rewrite Hwn, Hpc in I10. rewrite I10, Hwn. reflexivity.
    + rewrite Hlo by exact Hne. apply I10.
  - intros t0. destruct (Nat.eq_dec t0 t) as [->|Hne].
    + rewrite Ht. apply pcN_plain; assumption.
    + rewrite Hu by exact Hne. apply (pcN_keep st); [|apply I11]. intros m Hm. apply Hlo. intros ->. destruct Hm; congruence.
Qed.

(** add_retired_node of the unlinked node *)
Lemma InvN_retire st st' t o p :
  InvN st -> th st t = R3 o ->
  (forall c', cells st' c' = cells st c') -> (forall m, g_life st' m = upd (g_life st) o (LRet t) m) ->
  (forall m, g_where st' m = upd (g_where st) o (PList t) m) -> (forall m, g_nfree st' m = g_nfree st m) ->
  aband st' = aband st -> nalloc st <= nalloc st' ->
  rl (tl st' t) = o :: rl (tl st t) -> th st' t = p -> (forall u, u <> t -> tl st' u = tl st u /\ th st' u = th st u) ->
  ad_of p = [] -> pcn p = None -> (forall s, p <> S1 s /\ p <> S2 s /\ p <> S3 s) ->
  InvN st'.
Proof.
  intros HN Hth Hc Hl Hw Hf Ha Hn Hr Ht Hu Hadp Hp Hp2.
  pose proof HN as [I1 I2 I3 I4 I5 I6 I7 I8 I9 I10 I11].
  assert (Hpc : g_life st o = LUnl t) by (destruct (I11 t) as [Hx _]; rewrite Hth in Hx; exact Hx).
  assert (Hadu : forall u, ad_of (th st' u) = ad_of (th st u)).
  { intros u. destruct (Nat.eq_dec u t) as [->|Hne]; [rewrite Ht, Hth, Hadp; reflexivity|destruct (Hu u Hne) as [_ ->]; reflexivity]. }
  assert (Hlo : forall m, m <> o -> g_life st' m = g_life st m) by (intros m Hne; rewrite Hl; upds; reflexivity).
  assert (Hwo' : forall m, m <> o -> g_where st' m = g_where st m) by (intros m Hne; rewrite Hw; upds; reflexivity).
  assert (Hwo : g_where st o = PNone) by (apply I3; intros u; congruence).
  assert (Hru : forall u, u <> t -> rl (tl st' u) = rl (tl st u)) by (intros u Hne; destruct (Hu u Hne) as [-> _]; reflexivity).
  constructor.
  - intros c0 m. rewrite Hc. intros H. assert (m <> o) by (intros ->; rewrite (I1 c0 o H) in Hpc; discriminate).
    rewrite Hlo by assumption. apply I1. exact H.
  - intros m H. assert (m <> o) by (intros ->; rewrite I2 in Hpc by lia; discriminate). rewrite Hlo by assumption. apply I2. lia.
  - intros m. destruct (Nat.eq_dec m o) as [->|Hne].
    + rewrite Hw, Hl. upds. split; [discriminate|intros H; exfalso; apply (H t); reflexivity].
    + rewrite Hwo', Hlo by exact Hne. apply I3.
  - intros u m. destruct (Nat.eq_dec u t) as [->|Hnu].
    + rewrite Hr. cbn [In]. destruct (Nat.eq_dec m o) as [->|Hne].
      * rewrite Hw. upds. split; [intros _; left; reflexivity|reflexivity].
      * rewrite Hwo' by exact Hne. rewrite I4. split; [intros H; right; exact H|intros [H|H]; [congruence|exact H]].
    + rewrite Hru by exact Hnu. destruct (Nat.eq_dec m o) as [->|Hne].
      * rewrite Hw. upds. split; [intros H; congruence|]. intros H. apply I4 in H. congruence.
      * rewrite Hwo' by exact Hne. apply I4.
  - intros u. destruct (Nat.eq_dec u t) as [->|Hnu]; [|rewrite Hru by exact Hnu; apply I5].
    rewrite Hr. constructor; [|apply I5]. intros H. apply I4 in H. congruence.
  - intros m. rewrite Ha. destruct (Nat.eq_dec m o) as [->|Hne].
    + rewrite Hw. upds. split; [discriminate|]. intros H. apply I6 in H. congruence.
    + rewrite Hwo' by exact Hne. apply I6.
  - rewrite Ha. exact I7.
  - intros u m. rewrite Hadu. destruct (Nat.eq_dec m o) as [->|Hne].
    + rewrite Hw. upds. split; [discriminate|]. intros H. apply I8 in H. congruence.
    + rewrite Hwo' by exact Hne. apply I8.
  - intros u. rewrite Hadu. apply I9.
  - intros m. rewrite Hf. unfold gone. destruct (Nat.eq_dec m o) as [->|Hne].
    + rewrite Hw, Hl. upds. specialize (I10 o). unfold gone in I10. rewrite Hwo, Hpc in I10. exact I10.
    + rewrite Hwo', Hlo by exact Hne. apply I10.
  - intros t0. destruct (Nat.eq_dec t0 t) as [->|Hne].
    + rewrite Ht. apply pcN_plain; assumption.
    + destruct (Hu t0 Hne) as [_ ->]. apply (pcN_keep st); [|apply I11]. intros m Hm. apply Hlo. intros ->. destruct Hm; congruence.
Qed.

(** adopt_abandoned_retired_nodes: the exchange *)
Lemma InvN_adopt st st' t s s' :
  InvN st -> th st t = S3 s -> th st' t = S4 s' -> s_ad s' = aband st ->
  (forall c', cells st' c' = cells st c') -> (forall m, g_life st' m = g_life st m) ->
  (forall m, g_where st' m = if mem m (aband st) then PFlight t else g_where st m) -> (forall m, g_nfree st' m = g_nfree st m) ->
  aband st' = [] -> nalloc st <= nalloc st' ->
  (forall u, rl (tl st' u) = rl (tl st u)) -> (forall u, u <> t -> th st' u = th st u) ->
  InvN st'.
Proof.
  intros HN Hth Ht Hs' Hc Hl Hw Hf Ha Hn Hr Hu.
  pose proof HN as [I1 I2 I3 I4 I5 I6 I7 I8 I9 I10 I11].
  assert (Hpc : s_ad s = []) by (destruct (I11 t) as [_ Hx]; rewrite Hth in Hx; exact Hx).
  assert (Hin : forall m, In m (aband st) -> g_where st' m = PFlight t).
  { intros m Hm. rewrite Hw. apply mem_In in Hm. rewrite Hm. reflexivity. }
  assert (Hout : forall m, ~ In m (aband st) -> g_where st' m = g_where st m).
  { intros m Hm. rewrite Hw. apply mem_false in Hm. rewrite Hm. reflexivity. }
  assert (Hret : forall m, In m (aband st) -> exists u, g_life st m = LRet u).
  { intros m Hm. apply I6 in Hm. destruct (g_life st m) eqn:E; try (exfalso; assert (Hc' : g_where st m = PNone) by (apply I3; intros u; congruence); congruence).
    exists t0. reflexivity. }
  constructor.
  - intros c0 m. rewrite Hc, Hl. apply I1.
  - intros m H. rewrite Hl. apply I2. lia.
  - intros m. rewrite Hl. destruct (in_dec Nat.eq_dec m (aband st)) as [Hm|Hm].
    + rewrite (Hin m Hm). destruct (Hret m Hm) as [u Hu']. split; [discriminate|intros H; exfalso; apply (H u); exact Hu'].
    + rewrite (Hout m Hm). apply I3.
  - intros u m. rewrite Hr. destruct (in_dec Nat.eq_dec m (aband st)) as [Hm|Hm].
    + rewrite (Hin m Hm). split; [discriminate|]. intros H. apply I4 in H. apply I6 in Hm. congruence.
    + rewrite (Hout m Hm). apply I4.
  - intros u. rewrite Hr. apply I5.
  - intros m. rewrite Ha. cbn [In]. destruct (in_dec Nat.eq_dec m (aband st)) as [Hm|Hm].
    + rewrite (Hin m Hm). split; [discriminate|tauto].
    + rewrite (Hout m Hm). rewrite I6. tauto.
  - rewrite Ha. constructor.
  - intros u m. destruct (Nat.eq_dec u t) as [->|Hne].
    + rewrite Ht. cbn [ad_of]. rewrite Hs'. destruct (in_dec Nat.eq_dec m (aband st)) as [Hm|Hm].
      * rewrite (Hin m Hm). tauto.
      * rewrite (Hout m Hm). rewrite I8, Hth. cbn [ad_of]. rewrite Hpc. cbn [In]. tauto.
    + rewrite Hu by exact Hne. destruct (in_dec Nat.eq_dec m (aband st)) as [Hm|Hm].
      * rewrite (Hin m Hm). split; [intros H; congruence|]. intros H. apply I8 in H. apply I6 in Hm. congruence.
      * rewrite (Hout m Hm). apply I8.
  - intros u. destruct (Nat.eq_dec u t) as [->|Hne]; [rewrite Ht; cbn [ad_of]; rewrite Hs'; exact I7|rewrite Hu by exact Hne; apply I9].
  - intros m. rewrite Hf. unfold gone. rewrite Hl. destruct (in_dec Nat.eq_dec m (aband st)) as [Hm|Hm].
    + rewrite (Hin m Hm). specialize (I10 m). unfold gone in I10. apply I6 in Hm. rewrite Hm in I10. exact I10.
    + rewrite (Hout m Hm). apply I10.
  - intros u. destruct (Nat.eq_dec u t) as [->|Hne]; [rewrite Ht; split; exact I|]. rewrite Hu by exact Hne.
    apply (pcN_ext st); [exact Hl|apply I11].
Qed.

(** abandon_retired_nodes: the successful CAS *)
Lemma InvN_abandon st st' t p :
  InvN st -> ad_of (th st t) = [] -> th st' t = p -> ad_of p = [] -> pcN st t p ->
  (forall c', cells st' c' = cells st c') -> (forall m, g_life st' m = g_life st m) ->
  (forall m, g_where st' m = if mem m (rl (tl st t)) then PAband else g_where st m) -> (forall m, g_nfree st' m = g_nfree st m) ->
  aband st' = rl (tl st t) ++ aband st -> nalloc st <= nalloc st' ->
  rl (tl st' t) = [] -> (forall u, u <> t -> tl st' u = tl st u /\ th st' u = th st u) ->
  InvN st'.
Proof.
  intros HN Had Ht Hadp Hp Hc Hl Hw Hf Ha Hn Hr Hu.
  pose proof HN as [I1 I2 I3 I4 I5 I6 I7 I8 I9 I10 I11].
  set (L := rl (tl st t)) in *.
  assert (Hin : forall m, In m L -> g_where st' m = PAband).
  { intros m Hm. rewrite Hw. apply mem_In in Hm. rewrite Hm. reflexivity. }
  assert (Hout : forall m, ~ In m L -> g_where st' m = g_where st m).
  { intros m Hm. rewrite Hw. apply mem_false in Hm. rewrite Hm. reflexivity. }
  assert (HL : forall m, In m L <-> g_where st m = PList t) by (intros m; symmetry; apply I4).
  assert (Hret : forall m, In m L -> exists u, g_life st m = LRet u).
  { intros m Hm. apply HL in Hm. destruct (g_life st m) eqn:E; try (exfalso; assert (Hc' : g_where st m = PNone) by (apply I3; intros u; congruence); congruence).
    exists t0. reflexivity. }
  assert (Hadu : forall u, ad_of (th st' u) = ad_of (th st u)).
  { intros u. destruct (Nat.eq_dec u t) as [->|Hne]; [rewrite Ht, Had, Hadp; reflexivity|destruct (Hu u Hne) as [_ ->]; reflexivity]. }
  assert (Hru : forall u, u <> t -> rl (tl st' u) = rl (tl st u)) by (intros u Hne; destruct (Hu u Hne) as [-> _]; reflexivity).
  constructor.
  - intros c0 m. rewrite Hc, Hl. apply I1.
  - intros m H. rewrite Hl. apply I2. lia.
  - intros m. rewrite Hl. destruct (in_dec Nat.eq_dec m L) as [Hm|Hm].
    + rewrite (Hin m Hm). destruct (Hret m Hm) as [u Hu']. split; [discriminate|intros H; exfalso; apply (H u); exact Hu'].
    + rewrite (Hout m Hm). apply I3.
  - intros u m. destruct (Nat.eq_dec u t) as [->|Hne].
    + rewrite Hr. cbn [In]. destruct (in_dec Nat.eq_dec m L) as [Hm|Hm].
      * rewrite (Hin m Hm). split; [discriminate|tauto].
      * rewrite (Hout m Hm). rewrite <- HL. tauto.
    + rewrite Hru by exact Hne. destruct (in_dec Nat.eq_dec m L) as [Hm|Hm].
      * rewrite (Hin m Hm). split; [discriminate|]. intros H. apply I4 in H. apply HL in Hm. congruence.
      * rewrite (Hout m Hm). apply I4.
  - intros u. destruct (Nat.eq_dec u t) as [->|Hne]; [rewrite Hr; constructor|rewrite Hru by exact Hne; apply I5].
  - intros m. rewrite Ha, in_app_iff. destruct (in_dec Nat.eq_dec m L) as [Hm|Hm].
    + rewrite (Hin m Hm). tauto.
    + rewrite (Hout m Hm). rewrite I6. tauto.
  - rewrite Ha. apply NoDup_app_iff. split; [apply I5|]. split; [exact I7|]. intros x Hx Hx'. apply HL in Hx. apply I6 in Hx'. congruence.
  - intros u m. rewrite Hadu. destruct (in_dec Nat.eq_dec m L) as [Hm|Hm].
    + rewrite (Hin m Hm). split; [discriminate|]. intros H. apply I8 in H. apply HL in Hm. congruence.
    + rewrite (Hout m Hm). apply I8.
  - intros u. rewrite Hadu. apply I9.
  - intros m. rewrite Hf. unfold gone. rewrite Hl. destruct (in_dec Nat.eq_dec m L) as [Hm|Hm].
    + rewrite (Hin m Hm). specialize (I10 m). unfold gone in I10. apply HL in Hm. rewrite Hm in I10. exact I10.
    + rewrite (Hout m Hm). apply I10.
  - intros u. destruct (Nat.eq_dec u t) as [->|Hne]; [rewrite Ht; apply (pcN_ext st); [exact Hl|exact Hp]|].
    destruct (Hu u Hne) as [_ ->]. apply (pcN_ext st); [exact Hl|apply I11].
Qed.

(** the end of scan(): reclaim_nodes(retire_list); reclaim_nodes(adopted) *)
Lemma InvN_reclaim st st' t s p (keepb : nat -> bool) :
  InvN st -> th st t = S7 s -> th st' t = p -> ad_of p = [] -> pcN st t p ->
  let L := rl (tl st t) ++ s_ad s in
  let freed := filter (fun n => negb (keepb n)) L in
  let kept := rev (filter keepb (s_ad s)) ++ rev (filter keepb (rl (tl st t))) in
  (forall c', cells st' c' = cells st c') -> (forall m, g_life st' m = g_life st m) ->
  (forall m, g_where st' m = if mem m kept then PList t else if mem m freed then PFreed else g_where st m) ->
  (forall m, g_nfree st' m = g_nfree st m + count m freed) ->
  aband st' = aband st -> nalloc st <= nalloc st' ->
  rl (tl st' t) = kept -> (forall u, u <> t -> tl st' u = tl st u /\ th st' u = th st u) ->
  InvN st'.
Proof.
  intros HN Hth Ht Hadp Hp L freed kept Hc Hl Hw Hf Ha Hn Hr Hu.
  pose proof HN as [I1 I2 I3 I4 I5 I6 I7 I8 I9 I10 I11].
  assert (HL : forall m, In m L <-> g_where st m = PList t \/ g_where st m = PFlight t).
  { intros m. unfold L. rewrite in_app_iff, <- I4, I8, Hth. cbn [ad_of]. tauto. }
  assert (HLnd : NoDup L).
  { unfold L. apply NoDup_app_iff. split; [apply I5|]. split; [specialize (I9 t); rewrite Hth in I9; exact I9|].
    intros x Hx Hx'. apply I4 in Hx. specialize (I8 t x). rewrite Hth in I8. apply I8 in Hx'. congruence. }
  assert (Hk : forall m, In m kept <-> In m L /\ keepb m = true).
  { intros m. unfold kept, L. rewrite !in_app_iff, <- !in_rev, !filter_In. tauto. }
  assert (Hfr : forall m, In m freed <-> In m L /\ keepb m = false).
  { intros m. unfold freed. rewrite filter_In, negb_true_iff. tauto. }
  assert (Hknd : NoDup kept).
  { unfold kept. apply NoDup_app_iff. split; [apply NoDup_rev, NoDup_filter; specialize (I9 t); rewrite Hth in I9; exact I9|].
    split; [apply NoDup_rev, NoDup_filter, I5|]. intros x Hx Hx'. apply in_rev, filter_In in Hx. apply in_rev, filter_In in Hx'.
    destruct Hx as [Hx _]. destruct Hx' as [Hx' _]. apply I4 in Hx'. specialize (I8 t x). rewrite Hth in I8. apply I8 in Hx. congruence. }
  assert (Hfnd : NoDup freed) by (apply NoDup_filter; exact HLnd).
  assert (Hwk : forall m, In m kept -> g_where st' m = PList t).
  { intros m Hm. rewrite Hw. apply mem_In in Hm. rewrite Hm. reflexivity. }
  assert (Hwf : forall m, In m freed -> g_where st' m = PFreed).
  { intros m Hm. rewrite Hw. assert (Hnk : ~ In m kept) by (rewrite Hk; apply Hfr in Hm; destruct Hm as [_ Hm]; rewrite Hm; intros [_ Hc']; discriminate).
    apply mem_false in Hnk. apply mem_In in Hm. rewrite Hnk, Hm. reflexivity. }
  assert (Hwo : forall m, ~ In m L -> g_where st' m = g_where st m).
  { intros m Hm. rewrite Hw. assert (Hnk : ~ In m kept) by (rewrite Hk; tauto). assert (Hnf : ~ In m freed) by (rewrite Hfr; tauto).
    apply mem_false in Hnk. apply mem_false in Hnf. rewrite Hnk, Hnf. reflexivity. }
  assert (Hcase : forall m, In m L -> In m kept \/ In m freed).
  { intros m Hm. rewrite Hk, Hfr. destruct (keepb m); tauto. }
  assert (Hret : forall m, In m L -> exists u, g_life st m = LRet u).
  { intros m Hm. apply HL in Hm. destruct (g_life st m) eqn:E;
      try (exfalso; assert (Hc' : g_where st m = PNone) by (apply I3; intros u; congruence); destruct Hm; congruence).
    exists t0. reflexivity. }
  assert (Hadu : forall u, ad_of (th st' u) = if Nat.eq_dec u t then [] else ad_of (th st u)).
  { intros u. destruct (Nat.eq_dec u t) as [->|Hne]; [rewrite Ht, Hadp; reflexivity|destruct (Hu u Hne) as [_ ->]; reflexivity]. }
  assert (Hru : forall u, u <> t -> rl (tl st' u) = rl (tl st u)) by (intros u Hne; destruct (Hu u Hne) as [-> _]; reflexivity).
  constructor.
  - intros c0 m. rewrite Hc, Hl. apply I1.
  - intros m H. rewrite Hl. apply I2. lia.
  - intros m. rewrite Hl. destruct (in_dec Nat.eq_dec m L) as [Hm|Hm].
    + destruct (Hret m Hm) as [u Hu']. destruct (Hcase m Hm) as [Hm'|Hm']; [rewrite (Hwk m Hm')|rewrite (Hwf m Hm')];
        (split; [discriminate|intros H; exfalso; apply (H u); exact Hu']).
    + rewrite (Hwo m Hm). apply I3.
  - intros u m. destruct (Nat.eq_dec u t) as [->|Hne].
    + rewrite Hr. destruct (in_dec Nat.eq_dec m L) as [Hm|Hm].
      * destruct (Hcase m Hm) as [Hm'|Hm']; [rewrite (Hwk m Hm'); tauto|]. rewrite (Hwf m Hm'). split; [discriminate|].
        intros Hc'. apply Hk in Hc'. apply Hfr in Hm'. destruct Hc' as [_ Hc']. destruct Hm' as [_ Hm']. congruence.
      * rewrite (Hwo m Hm). split; [intros H; exfalso; apply Hm; apply HL; left; exact H|]. intros H. apply Hk in H. tauto.
    + rewrite Hru by exact Hne. destruct (in_dec Nat.eq_dec m L) as [Hm|Hm].
      * assert (Hnot : ~ In m (rl (tl st u))) by (intros H; apply I4 in H; apply HL in Hm; destruct Hm; congruence).
        destruct (Hcase m Hm) as [Hm'|Hm']; [rewrite (Hwk m Hm')|rewrite (Hwf m Hm')]; (split; [intros H; congruence|tauto]).
      * rewrite (Hwo m Hm). apply I4.
  - intros u. destruct (Nat.eq_dec u t) as [->|Hne]; [rewrite Hr; exact Hknd|rewrite Hru by exact Hne; apply I5].
  - intros m. rewrite Ha. destruct (in_dec Nat.eq_dec m L) as [Hm|Hm].
    + assert (Hnot : ~ In m (aband st)) by (intros H; apply I6 in H; apply HL in Hm; destruct Hm; congruence).
      destruct (Hcase m Hm) as [Hm'|Hm']; [rewrite (Hwk m Hm')|rewrite (Hwf m Hm')]; (split; [discriminate|tauto]).
    + rewrite (Hwo m Hm). apply I6.
  - rewrite Ha. exact I7.
  - intros u m. rewrite Hadu. destruct (Nat.eq_dec u t) as [->|Hne].
    + cbn [In]. split; [|tauto]. intros H. destruct (in_dec Nat.eq_dec m L) as [Hm|Hm].
      * destruct (Hcase m Hm) as [Hm'|Hm']; [rewrite (Hwk m Hm') in H|rewrite (Hwf m Hm') in H]; discriminate.
      * rewrite (Hwo m Hm) in H. apply Hm. apply HL. right. exact H.
    + destruct (in_dec Nat.eq_dec m L) as [Hm|Hm].
      * assert (Hnot : ~ In m (ad_of (th st u))) by (intros H; apply I8 in H; apply HL in Hm; destruct Hm; congruence).
        destruct (Hcase m Hm) as [Hm'|Hm']; [rewrite (Hwk m Hm')|rewrite (Hwf m Hm')]; (split; [intros H; congruence|tauto]).
      * rewrite (Hwo m Hm). apply I8.
  - intros u. rewrite Hadu. destruct (Nat.eq_dec u t); [constructor|apply I9].
  - intros m. rewrite Hf. unfold gone. rewrite Hl. specialize (I10 m). unfold gone in I10.
    destruct (in_dec Nat.eq_dec m L) as [Hm|Hm].
    + destruct (Hret m Hm) as [u Hu']. rewrite Hu' in *. pose proof Hm as Hm2. apply HL in Hm2.
      assert (H0 : g_nfree st m = 0) by (destruct Hm2 as [Hm2|Hm2]; rewrite Hm2 in I10; exact I10).
      destruct (Hcase m Hm) as [Hm'|Hm'].
      * rewrite (Hwk m Hm'). assert (Hnf : ~ In m freed).
        { rewrite Hfr. apply Hk in Hm'. destruct Hm' as [_ Hm']. rewrite Hm'. intros [_ Hc']. discriminate. }
        rewrite (count_notin m freed Hnf). lia.
      * rewrite (Hwf m Hm'). rewrite (count_nodup m freed Hfnd Hm'). lia.
    + assert (Hnf : ~ In m freed) by (rewrite Hfr; tauto). rewrite (count_notin m freed Hnf), (Hwo m Hm). lia.
  - intros u. destruct (Nat.eq_dec u t) as [->|Hne]; [rewrite Ht; apply (pcN_ext st); [exact Hl|exact Hp]|].
    destruct (Hu u Hne) as [_ ->]. apply (pcN_ext st); [exact Hl|apply I11].
Qed.

Lemma InvN_ush st st1 t : ush t st st1 -> InvN st -> InvN st1.
Proof.
  intros Hu HN. pose proof (ush_same _ _ _ Hu) as HS.
  assert (Hrl : forall u, rl (tl st1 u) = rl (tl st u)).
  { intros u. destruct (Nat.eq_dec u t) as [->|Hne]; [apply (sb_rl _ _ _ HS)|rewrite (sb_tl _ _ _ HS u Hne); reflexivity]. }
  apply (InvN_frame st); try (intros; rewrite ?(sb_cells _ _ _ HS), ?(sb_life _ _ _ HS), ?(sb_where _ _ _ HS), ?(sb_nfree _ _ _ HS), ?(sb_th _ _ _ HS); reflexivity).
  - apply (sb_aband _ _ _ HS).
  - rewrite (sb_nalloc _ _ _ HS). lia.
  - exact Hrl.
  - intros u. rewrite (sb_th _ _ _ HS). tauto.
  - exact HN.
Qed.

Section N.
Variable nslots : nat.

Ltac thn t' t Hth :=
  destruct (Nat.eq_dec t' t) as [->|?]; upds; rewrite ?Hth; cbn [ad_of s_ad]; prj; intros;
  first [reflexivity | assumption | tauto | congruence | discriminate | exact I
        | (apply pcN_plain; [reflexivity|intros; repeat split; discriminate])
        | (match goal with H : pcN _ _ _ |- pcN _ _ _ => destruct H as [H1 H2]; split; [exact H1|first [exact I|exact H2]] end) ].
Ltac frn t Hth := first [reflexivity | assumption | lia | (let t' := fresh "t'" in intros t'; thn t' t Hth)].
Ltac sim := unfold reset_guard, unshare, set_gd; repeat (progress (prj; upds)).
Ltac cl t :=
  intros; sim;
  first [ reflexivity | assumption | lia | discriminate | exact I | tauto
        | (upds; prj; try split; reflexivity)
        | (repeat split; intros; first [discriminate | exact I | reflexivity])
        | (match goal with |- context [upd _ t _ ?u] => destruct (Nat.eq_dec u t) as [->|?]; upds; prj; try split; reflexivity end) ].

Lemma InvN_step st a st' es : InvN st -> step nslots st a = Some (st', es) -> InvN st'.
Proof.
  intros HN Hs. destruct a as [t o|t]; cbn [step] in Hs.
  - destruct (th st t) eqn:Hth; try discriminate Hs. destruct (legal nslots o); [|discriminate Hs].
    injection Hs as <- <-. apply (InvN_frame st); prj; frn t Hth.
  - pose proof (n_pc st HN t) as Hpc. destruct (th st t) eqn:Hth; try discriminate Hs.
    all: leaves Hs.
    all: try (dg; (apply (InvN_frame st); sim; frn t Hth); fail).
    (* thread_end *)
    all: try (match goal with Hu : ush _ ?s0 ?st1 |- InvN (set_pc _ _ ?st1) =>
           assert (HN0 : InvN s0) by (first [exact HN | (apply (InvN_frame st); sim; frn t Hth)]);
           pose proof (InvN_ush _ _ _ Hu HN0) as HN1; pose proof (ush_same _ _ _ Hu) as HSb;
           apply (InvN_frame st1); prj; try reflexivity; try lia; try exact HN1;
           [ intros u; destruct (Nat.eq_dec u t) as [->|?]; upds; rewrite ?(sb_th _ _ _ HSb); unfold reset_guard; prj; rewrite ?Hth; reflexivity
           | intros u _; destruct (Nat.eq_dec u t) as [->|?]; upds; [apply pcN_plain; [reflexivity|intros; repeat split; discriminate]|apply (n_pc _ HN1)] ] end; fail).
    (* S0 -> S1 *)
    all: try (match goal with |- InvN (set_pc _ (S1 _) _) =>
           apply (InvN_frame st); sim; try reflexivity; try lia; try exact HN;
           [ intros u; destruct (Nat.eq_dec u t) as [->|?]; upds; rewrite ?Hth; reflexivity
           | intros u Hu; destruct (Nat.eq_dec u t) as [->|?]; upds; [split; [exact I|reflexivity]|exact Hu] ] end; fail).
    (* repl: the new node *)
    all: try (match goal with |- context [LFresh] =>
           dg; (eapply (InvN_fresh st _ t); [exact HN|rewrite Hth; reflexivity|cl t ..]) end; fail).
    (* the end of scan *)
    all: try (match goal with Hth : th _ _ = S7 ?s |- _ =>
           eapply (InvN_reclaim st _ t s _ (fun n => is_prot (s_prot s) (ce st n) (re st n))); [exact HN|exact Hth|cl t ..] end; fail).
    (* abandon *)
    all: try (match goal with Hth : th _ _ = X3 _ |- _ =>
           eapply (InvN_abandon st _ t); [exact HN|rewrite Hth; reflexivity|cl t ..] end; fail).
    (* adopt *)
    all: try (match goal with Hth : th _ _ = S3 ?s |- _ =>
           eapply (InvN_adopt st _ t s); [exact HN|exact Hth|cl t ..] end; fail).
    (* retire *)
    all: try (match goal with Hth : th _ _ = R3 ?o |- _ =>
           eapply (InvN_retire st _ t o); [exact HN|exact Hth|cl t ..] end; fail).
    (* the lost CAS *)
    all: try (match goal with Hth : th _ _ = R1 ?c (Some ?n) |- context [LDropped] =>
           eapply (InvN_drop st _ t c n); [exact HN|exact Hth|cl t ..] end; fail).
    (* the successful CAS *)
    all: try (match goal with Hth : th _ _ = R1 ?c ?n, Ec : oeqb (cells _ ?c) ?o = true |- _ =>
           apply oeqb_eq in Ec;
           eapply (InvN_cas st _ t c n o); [exact HN|exact Hth|exact Ec|cl t ..] end; fail).
Qed.

Lemma InvN_init ncells : InvN (init ncells).
Proof.
  constructor; unfold init, gone; prj; cbn [tl0 rl ad_of].
  - intros c n H. destruct (c <? ncells) eqn:E; [|discriminate]. injection H as <-. rewrite E. reflexivity.
  - intros n H. destruct (Nat.ltb_spec n ncells); [lia|reflexivity].
  - intros n. split; [intros _ u; destruct (n <? ncells); discriminate|reflexivity].
  - intros t n. split; [discriminate|intros []].
  - intros; constructor.
  - intros n. split; [discriminate|intros []].
  - constructor.
  - intros t n. split; [discriminate|intros []].
  - intros; constructor.
  - intros n. destruct (n <? ncells); reflexivity.
  - intros; split; exact I.
Qed.
End N.
