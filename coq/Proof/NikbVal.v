(** nikolaev_bounded_queue model, invariant layer 3: the values.
    [g_in] / [g_out] / [g_ok] / [g_ret] are lists of (ticket of the allocated ring, value): every ticket
    occurs at most once in each; what a try_pop takes at ticket H is what a try_push published at H
    (the cell is not touched in between); what try_pop returns is what it took; what try_push reports
    as accepted was published. *)
From Coq Require Import NArith List Bool Lia PeanoNat.
From XV Require Import Base.Word Conc.Lts Conc.Ev gen.ScqGen Model.NikbDefs Proof.NikbArith Proof.NikbBase Proof.NikbWf Proof.NikbOwn.
Import ListNotations.
Local Open Scope N_scope.

Set Default Proof Using "All".
Section L3.
  Variable k R : N.
  Hypothesis Hk : k <= 40.
  Notation cap := (2 ^ k).
  Notation step := (step cap R).
  Notation Inv1 := (Inv1 k).
  Notation Inv2 := (Inv2 k).

  (** fates [EPub] and [DTaken] are final *)
  Lemma fate_stable s a s' es : Inv1 s -> Inv2 s -> step s a = Some (s', es) ->
    (forall q T i, g_eq (rg s q) T = EPub i -> g_eq (rg s' q) T = EPub i) /\
    (forall q H i, g_dq (rg s q) H = DTaken i -> g_dq (rg s' q) H = DTaken i).
  Proof.
    intros H1 H2 Hst. pose proof H1 as [HW HT1]. pose proof H2 as (HR & HT & HO).
    unfold NikbDefs.step, step_gen in Hst. destruct a as [t o|t].
    - destruct (th s t) eqn:E; try discriminate. inversion Hst; subst; clear Hst. sim. split; intros; assumption.
    - pose proof (HT t) as (Ta & Tb & Tc & Td).
      pose proof (ticket_fresh_dq k R Hk s) as Fd. pose proof (ticket_fresh_eq k R Hk s) as Fe.
      destruct (th s t) as [|[v|tp]|q x|q x|q x hd att|q x hd e|q x hd att e|q x hd att e enew|q x hd|q x|q x tl hd|q x tl|q x
                           |q x idx gk|q x idx gk tl|q x idx gk tl e|q x idx gk tl e|q x idx gk|q x idx gk] eqn:E; try discriminate;
        cbn [dtk etk hidx] in Ta, Tb, Tc.
      all: try (specialize (Ta _ _ eq_refl)); try (specialize (Tb _ _ eq_refl)).
      all: try (specialize (Fd q H1 H2)); try (specialize (Fe q H1 H2)).
      all: unfold mark_left, mark_skip in Hst.
      all: repeat match type of Hst with context [if ?c then _ else _] => destruct c end.
      all: try destruct q.
      all: inversion Hst; subst; clear Hst; sim.
      all: split; [intros q' T i Hx|intros q' H i Hx]; try destruct q'; sim; try exact Hx.
      all: unfold setf.
      all: match goal with |- context [if ?a =? ?b then _ else _] => destruct (N.eqb_spec a b) as [Heq|Hneq]; [|exact Hx] end.
      all: exfalso; rewrite Heq in Hx; congruence.
  Qed.

  (** a dequeue ticket of the allocated ring becomes [DTaken] only by the fetch_or of a try_pop *)
  Lemma fate_back s a s' es : step s a = Some (s', es) ->
    forall H i, g_dq (ra s') H = DTaken i ->
    g_dq (ra s) H = DTaken i \/ (exists t x hd e, a = Step t /\ th s t = D3 RA x hd e /\ H = hd / 2).
  Proof.
    intros Hst. unfold NikbDefs.step, step_gen in Hst. destruct a as [t o|t].
    - destruct (th s t) eqn:E; try discriminate. inversion Hst; subst; clear Hst. sim. intros; left; assumption.
    - destruct (th s t) as [|[v|tp]|q x|q x|q x hd att|q x hd e|q x hd att e|q x hd att e enew|q x hd|q x|q x tl hd|q x tl|q x
                           |q x idx gk|q x idx gk tl|q x idx gk tl e|q x idx gk tl e|q x idx gk|q x idx gk] eqn:E; try discriminate.
      all: unfold mark_left, mark_skip in Hst.
      all: repeat match type of Hst with context [if ?c then _ else _] => destruct c end.
      all: try destruct q.
      all: inversion Hst; subst; clear Hst; sim.
      all: intros H i Hx; try (left; exact Hx).
      all: unfold setf in Hx.
      all: match type of Hx with context [if ?a =? ?b then _ else _] => destruct (N.eqb_spec a b) as [Heq|Hneq]; [|left; exact Hx] end.
      all: try discriminate Hx.
      all: right; exists t; do 3 eexists; ssplit; [reflexivity|exact E|exact Heq].
  Qed.

  Definition T3 (st : state) (t : nat) (p : pc) : Prop :=
    match p with
    | E2 RA x i gk _ | E3 RA x i gk _ _ | E4 RA x i gk _ _ => store st i = x
    | E5 RA x i gk | E6 RA x i gk => In (gk, x) (g_in st) /\ g_ebusy st gk = Some t
    | E1 RF x i gk => In (gk, store st i) (g_out st) /\ g_dbusy st gk = Some t
    | E2 RF x i gk _ | E3 RF x i gk _ _ | E4 RF x i gk _ _ =>
      In (gk, x) (g_out st) /\ g_dbusy st gk = Some t /\ store st i = x
    | E5 RF x i gk | E6 RF x i gk => In (gk, x) (g_out st) /\ g_dbusy st gk = Some t
    | _ => True
    end.

  Record Inv3 (st : state) : Prop := mkI3 {
    v1 : forall i T, i < cap -> g_own st i = OFull T -> In (T, store st i) (g_in st);
    v2 : forall T v, In (T, v) (g_in st) -> exists i, g_eq (ra st) T = EPub i;
    v2n : NoDup (map fst (g_in st));
    v3 : forall H v, In (H, v) (g_out st) -> In (H, v) (g_in st) /\ exists i, g_dq (ra st) H = DTaken i;
    v3n : NoDup (map fst (g_out st));
    v4 : forall H i, g_dq (ra st) H = DTaken i -> exists v, In (H, v) (g_out st);
    vok : forall T v, In (T, v) (g_ok st) -> In (T, v) (g_in st) /\ g_ebusy st T = None;
    vokn : NoDup (map fst (g_ok st));
    vret : forall H v, In (H, v) (g_ret st) -> In (H, v) (g_out st) /\ g_dbusy st H = None;
    vretn : NoDup (map fst (g_ret st));
    vb1 : forall T u, g_ebusy st T = Some u -> exists i, g_eq (ra st) T = EPub i;
    vb2 : forall H u, g_dbusy st H = Some u -> exists i, g_dq (ra st) H = DTaken i;
    vt : forall t, T3 st t (th st t) }.

  Lemma Inv3_init : Inv3 (init cap).
  Proof.
    constructor; cbn [init g_own g_in g_out g_ok g_ret g_ebusy g_dbusy th store rgs g_dq]; try (intros; contradiction); try constructor;
      try (intros; discriminate); try (intros t; exact I).
  Qed.

  Lemma T3_frame s s' u p :
    (forall i, store s' i = store s i) -> g_in s' = g_in s -> g_out s' = g_out s ->
    (forall T, g_ebusy s' T = g_ebusy s T) -> (forall H, g_dbusy s' H = g_dbusy s H) ->
    T3 s u p -> T3 s' u p.
  Proof.
    intros Hs Hi Ho He Hd. destruct p; cbn [T3]; try tauto; destruct q; rewrite ?Hs, ?Hi, ?Ho, ?He, ?Hd; tauto.
  Qed.

  Lemma Inv3_frame s s' t p' :
    Inv3 s ->
    (forall T i, g_eq (ra s) T = EPub i -> g_eq (ra s') T = EPub i) ->
    (forall H i, g_dq (ra s) H = DTaken i -> g_dq (ra s') H = DTaken i) ->
    (forall H i, g_dq (ra s') H = DTaken i -> g_dq (ra s) H = DTaken i) ->
    (forall i, store s' i = store s i) -> (forall i T, g_own s' i = OFull T -> g_own s i = OFull T) ->
    g_in s' = g_in s -> g_out s' = g_out s -> g_ok s' = g_ok s -> g_ret s' = g_ret s ->
    (forall T, g_ebusy s' T = g_ebusy s T) -> (forall H, g_dbusy s' H = g_dbusy s H) ->
    th s' = upd (th s) t p' -> T3 s' t p' -> Inv3 s'.
  Proof.
    intros [a1 a2 a2n a3 a3n a4 aok aokn aret aretn ab1 ab2 at_] Fe Fd Fr Hs Hown Hi Ho Hok Hret Heb Hdb Hth Hp.
    constructor; rewrite ?Hi, ?Ho, ?Hok, ?Hret; try assumption.
    - intros i T Hlt Hx. rewrite Hs. apply a1; [exact Hlt|apply Hown; exact Hx].
    - intros T v Hx. destruct (a2 T v Hx) as [i Hy]. exists i. apply Fe. exact Hy.
    - intros H v Hx. destruct (a3 H v Hx) as [X [i Hy]]. split; [exact X|]. exists i. apply Fd. exact Hy.
    - intros H i Hx. apply (a4 H i). apply Fr. exact Hx.
    - intros T v Hx. rewrite Heb. apply aok. exact Hx.
    - intros H v Hx. rewrite Hdb. apply aret. exact Hx.
    - intros T u. rewrite Heb. intros Hx. destruct (ab1 T u Hx) as [i Hy]. exists i. apply Fe. exact Hy.
    - intros H u. rewrite Hdb. intros Hx. destruct (ab2 H u Hx) as [i Hy]. exists i. apply Fd. exact Hy.
    - intros u. rewrite Hth. destruct (Nat.eq_dec u t) as [->|Hne]; [rewrite upd_same; exact Hp|rewrite upd_other by exact Hne].
      apply (T3_frame s s'); try assumption. apply at_.
  Qed.

  Lemma in_app_l {A} (x : A) l l' : In x l -> In x (l ++ l'). Proof. intros; apply in_or_app; left; assumption. Qed.

  Lemma NoDup_snocN (l : list N) n : NoDup l -> ~ In n l -> NoDup (l ++ [n]).
  Proof.
    induction l as [|a l IH]; cbn; intros Hnd Hni; [constructor; [intros []|constructor]|].
    inversion Hnd; subst. constructor.
    - rewrite in_app_iff. cbn. intuition.
    - apply IH; [assumption|intuition].
  Qed.

  Lemma nodup_snoc (l : list (N * N)) a v : NoDup (map fst l) -> (forall w, ~ In (a, w) l) -> NoDup (map fst (l ++ [(a, v)])).
  Proof.
    intros Hn Hni. rewrite map_app. cbn [map fst]. apply NoDup_snocN; [exact Hn|].
    intros Hin. apply in_map_iff in Hin. destruct Hin as ([a' w] & Ha & Hin). cbn in Ha. subst a'. apply (Hni w Hin).
  Qed.

  Lemma in_snoc {A} (x y : A) l : In x (l ++ [y]) -> In x l \/ x = y.
  Proof. intros H. apply in_app_or in H. destruct H as [H|[H|[]]]; [left; exact H|right; symmetry; exact H]. Qed.

  (** * try_pop takes ticket H0 of the allocated ring *)
  Lemma V_take s s' t x hd e :
    Inv1 s -> Inv2 s -> Inv3 s -> th s t = D3 RA x hd e ->
    (forall T i, g_eq (ra s) T = EPub i -> g_eq (ra s') T = EPub i) ->
    (forall H i, g_dq (ra s) H = DTaken i -> g_dq (ra s') H = DTaken i) ->
    g_dq (ra s') (hd / 2) = DTaken (eidx k e) ->
    (forall H i, g_dq (ra s') H = DTaken i -> g_dq (ra s) H = DTaken i \/ H = hd / 2) ->
    (forall i, store s' i = store s i) ->
    (forall i, g_own s' i = if i =? eidx k e then ORead t else g_own s i) ->
    g_in s' = g_in s -> g_out s' = g_out s ++ [(hd / 2, store s (eidx k e))] -> g_ok s' = g_ok s -> g_ret s' = g_ret s ->
    (forall T, g_ebusy s' T = g_ebusy s T) ->
    (forall H, g_dbusy s' H = if H =? hd / 2 then Some t else g_dbusy s H) ->
    th s' = upd (th s) t (E1 RF x (eidx k e) (hd / 2)) -> Inv3 s'.
  Proof.
    intros [HW HT1] (HR & HT & HO) [a1 a2 a2n a3 a3n a4 aok aokn aret aretn ab1 ab2 at_] Et Fe Fd Hnew Fr Hs Hown Hi Ho Hok Hret Heb Hdb Hth.
    pose proof (HT1 t) as Ht1. rewrite Et in Ht1. cbn [T1] in Ht1. destruct Ht1 as ([Hhd2 Hhdlt] & _).
    pose proof (HT t) as (Ta & _ & _ & Td). rewrite Et in Ta, Td. specialize (Ta RA hd eq_refl). destruct Td as (Hidx & Hsi & Hsc).
    set (H0 := hd / 2) in *. set (idx := eidx k e) in *.
    assert (HH0 : 2 * H0 < 2 ^ 62) by (rewrite <- Hhd2; exact Hhdlt).
    assert (Hcyc0 : ecyc k hd = H0 / nn cap) by (rewrite Hhd2 at 1; apply (ecyc_tick k Hk)).
    rewrite Hcyc0 in Hsc.
    destruct (HR RA) as [_ _ _ _ qs2 _ _ _ _].
    assert (Hsi' : eidx k (slot k s RA H0) < cap) by (rewrite Hsi; exact Hidx).
    destruct (qs2 H0 HH0 Hsi' Hsc) as (Hpub & Hown0 & _). rewrite Hsi in Hown0. fold idx in Hown0. cbn [inring] in Hown0.
    assert (Hfresh : forall v, ~ In (H0, v) (g_out s)).
    { intros v Hin. destruct (a3 H0 v Hin) as [_ [i Hx]]. rewrite Ta in Hx. discriminate. }
    constructor; rewrite ?Hi, ?Ho, ?Hok, ?Hret; try assumption.
    - intros i T Hlt. rewrite Hown, Hs. destruct (i =? idx); [discriminate|]. apply a1. exact Hlt.
    - intros T v Hx. destruct (a2 T v Hx) as [i Hy]. exists i. apply Fe. exact Hy.
    - intros H v Hx. apply in_snoc in Hx. destruct Hx as [Hx|Hx].
      + destruct (a3 H v Hx) as [X [i Hy]]. split; [exact X|]. exists i. apply Fd. exact Hy.
      + inversion Hx; subst H v. split; [apply a1; [exact Hidx|exact Hown0]|exists idx; exact Hnew].
    - apply nodup_snoc; assumption.
    - intros H i Hx. destruct (Fr H i Hx) as [Hy|Hy].
      + destruct (a4 H i Hy) as [v Hv]. exists v. apply in_app_l. exact Hv.
      + subst H. exists (store s idx). apply in_or_app; right; left; reflexivity.
    - intros T v Hx. rewrite Heb. apply aok. exact Hx.
    - intros H v Hx. destruct (aret H v Hx) as [X Y]. split; [apply in_app_l; exact X|]. rewrite Hdb.
      destruct (N.eqb_spec H H0) as [->|_]; [exfalso; apply (Hfresh v X)|exact Y].
    - intros T u. rewrite Heb. intros Hx. destruct (ab1 T u Hx) as [i Hy]. exists i. apply Fe. exact Hy.
    - intros H u. rewrite Hdb. destruct (N.eqb_spec H H0) as [->|_]; [intros _; exists idx; exact Hnew|].
      intros Hx. destruct (ab2 H u Hx) as [i Hy]. exists i. apply Fd. exact Hy.
    - intros u. rewrite Hth. destruct (Nat.eq_dec u t) as [->|Hne]; [rewrite upd_same|rewrite upd_other by exact Hne].
      + cbn [T3]. rewrite Ho, Hs, Hdb, N.eqb_refl. split; [apply in_or_app; right; left; reflexivity|reflexivity].
      + pose proof (at_ u) as Hu.
        assert (Hkeep : forall gk, g_dbusy s gk = Some u -> g_dbusy s' gk = Some u).
        { intros gk Hx. rewrite Hdb. destruct (N.eqb_spec gk H0) as [->|_]; [|exact Hx].
          exfalso. destruct (ab2 H0 u Hx) as [i Hy]. rewrite Ta in Hy. discriminate. }
        pose proof (HT u) as (_ & _ & Tc & _).
        destruct (th s u); cbn [T3] in *; try exact I; destruct q; rewrite ?Hi, ?Ho, ?Hs, ?Heb; try exact Hu;
          try (destruct Hu as [X Y]; split; [apply in_app_l; exact X|];
               first [apply Hkeep; exact Y | destruct Y as [Y Z]; split; [apply Hkeep; exact Y|exact Z] | exact Y | (destruct Y as [Y Z]; split; [exact Y|exact Z])]).
  Qed.

  (** * try_push writes the cell it holds *)
  Lemma V_write s s' t x idx gk tl :
    Inv2 s -> Inv3 s -> th s t = E1 RA x idx gk ->
    (forall T i, g_eq (ra s) T = EPub i -> g_eq (ra s') T = EPub i) ->
    (forall H i, g_dq (ra s) H = DTaken i -> g_dq (ra s') H = DTaken i) ->
    (forall H i, g_dq (ra s') H = DTaken i -> g_dq (ra s) H = DTaken i) ->
    (forall i, store s' i = if i =? idx then x else store s i) ->
    (forall i, g_own s' i = g_own s i) ->
    g_in s' = g_in s -> g_out s' = g_out s -> g_ok s' = g_ok s -> g_ret s' = g_ret s ->
    (forall T, g_ebusy s' T = g_ebusy s T) -> (forall H, g_dbusy s' H = g_dbusy s H) ->
    th s' = upd (th s) t (E2 RA x idx gk tl) -> Inv3 s'.
  Proof.
    intros (HR & HT & HO) [a1 a2 a2n a3 a3n a4 aok aokn aret aretn ab1 ab2 at_] Et Fe Fd Fr Hs Hown Hi Ho Hok Hret Heb Hdb Hth.
    pose proof (HT t) as (_ & _ & Tc & _). rewrite Et in Tc. destruct (Tc RA idx eq_refl) as [Hmine _]. cbn [held] in Hmine.
    constructor; rewrite ?Hi, ?Ho, ?Hok, ?Hret; try assumption.
    - intros i T Hlt. rewrite Hown, Hs. intros Hx. destruct (N.eqb_spec i idx) as [->|_]; [congruence|]. apply a1; assumption.
    - intros T v Hx. destruct (a2 T v Hx) as [i Hy]. exists i. apply Fe. exact Hy.
    - intros H v Hx. destruct (a3 H v Hx) as [X [i Hy]]. split; [exact X|]. exists i. apply Fd. exact Hy.
    - intros H i Hx. apply (a4 H i). apply Fr. exact Hx.
    - intros T v Hx. rewrite Heb. apply aok. exact Hx.
    - intros H v Hx. rewrite Hdb. apply aret. exact Hx.
    - intros T u. rewrite Heb. intros Hx. destruct (ab1 T u Hx) as [i Hy]. exists i. apply Fe. exact Hy.
    - intros H u. rewrite Hdb. intros Hx. destruct (ab2 H u Hx) as [i Hy]. exists i. apply Fd. exact Hy.
    - intros u. rewrite Hth. destruct (Nat.eq_dec u t) as [->|Hne]; [rewrite upd_same|rewrite upd_other by exact Hne].
      + cbn [T3]. rewrite Hs, N.eqb_refl. reflexivity.
      + pose proof (at_ u) as Hu. pose proof (HT u) as (_ & _ & Tcu & _).
        destruct (th s u); cbn [T3] in *; try exact I; destruct q; rewrite ?Hi, ?Ho, ?Heb, ?Hdb; try exact Hu;
          cbn [hidx] in Tcu; destruct (Tcu _ _ eq_refl) as [Hu_own _]; cbn [held] in Hu_own;
          rewrite Hs; (destruct (N.eqb_spec idx0 idx) as [Heq|_]; [exfalso; subst idx0; congruence|exact Hu]).
  Qed.

  (** * try_push publishes its index in the allocated ring *)
  Lemma V_pub s s' t x idx gk tl e :
    Inv1 s -> Inv2 s -> Inv3 s -> th s t = E4 RA x idx gk tl e ->
    (forall T i, g_eq (ra s) T = EPub i -> g_eq (ra s') T = EPub i) ->
    (forall H i, g_dq (ra s) H = DTaken i -> g_dq (ra s') H = DTaken i) ->
    (forall H i, g_dq (ra s') H = DTaken i -> g_dq (ra s) H = DTaken i) ->
    g_eq (ra s') (tl / 2) = EPub idx ->
    (forall i, store s' i = store s i) ->
    (forall i, g_own s' i = if i =? idx then OFull (tl / 2) else g_own s i) ->
    g_in s' = g_in s ++ [(tl / 2, x)] -> g_out s' = g_out s -> g_ok s' = g_ok s -> g_ret s' = g_ret s ->
    (forall T, g_ebusy s' T = if T =? tl / 2 then Some t else g_ebusy s T) ->
    (forall H, g_dbusy s' H = g_dbusy s H) ->
    th s' = upd (th s) t (E5 RA x idx (tl / 2)) -> Inv3 s'.
  Proof.
    intros [HW HT1] (HR & HT & HO) [a1 a2 a2n a3 a3n a4 aok aokn aret aretn ab1 ab2 at_] Et Fe Fd Fr Hnew Hs Hown Hi Ho Hok Hret Heb Hdb Hth.
    pose proof (HT t) as (_ & Tb & _). rewrite Et in Tb. specialize (Tb RA tl eq_refl).
    pose proof (at_ t) as Hst. rewrite Et in Hst. cbn [T3] in Hst.
    set (T0 := tl / 2) in *.
    assert (Hfresh : forall v, ~ In (T0, v) (g_in s)).
    { intros v Hin. destruct (a2 T0 v Hin) as [i Hx]. rewrite Tb in Hx. discriminate. }
    constructor; rewrite ?Hi, ?Ho, ?Hok, ?Hret; try assumption.
    - intros i T Hlt. rewrite Hown, Hs. destruct (N.eqb_spec i idx) as [->|_].
      + intros Hx. inversion Hx; subst T. rewrite Hst. apply in_or_app; right; left; reflexivity.
      + intros Hx. apply in_app_l. apply a1; assumption.
    - intros T v Hx. apply in_snoc in Hx. destruct Hx as [Hx|Hx].
      + destruct (a2 T v Hx) as [i Hy]. exists i. apply Fe. exact Hy.
      + inversion Hx; subst T v. exists idx. exact Hnew.
    - apply nodup_snoc; assumption.
    - intros H v Hx. destruct (a3 H v Hx) as [X [i Hy]]. split; [apply in_app_l; exact X|]. exists i. apply Fd. exact Hy.
    - intros H i Hx. apply (a4 H i). apply Fr. exact Hx.
    - intros T v Hx. destruct (aok T v Hx) as [X Y]. split; [apply in_app_l; exact X|]. rewrite Heb.
      destruct (N.eqb_spec T T0) as [->|_]; [exfalso; apply (Hfresh v X)|exact Y].
    - intros H v Hx. rewrite Hdb. apply aret. exact Hx.
    - intros T u. rewrite Heb. destruct (N.eqb_spec T T0) as [->|_]; [intros _; exists idx; exact Hnew|].
      intros Hx. destruct (ab1 T u Hx) as [i Hy]. exists i. apply Fe. exact Hy.
    - intros H u. rewrite Hdb. intros Hx. destruct (ab2 H u Hx) as [i Hy]. exists i. apply Fd. exact Hy.
    - intros u. rewrite Hth. destruct (Nat.eq_dec u t) as [->|Hne]; [rewrite upd_same|rewrite upd_other by exact Hne].
      + cbn [T3]. rewrite Hi, Heb, N.eqb_refl. split; [apply in_or_app; right; left; reflexivity|reflexivity].
      + pose proof (at_ u) as Hu.
        assert (Hkeep : forall gk', g_ebusy s gk' = Some u -> g_ebusy s' gk' = Some u).
        { intros gk' Hx. rewrite Heb. destruct (N.eqb_spec gk' T0) as [->|_]; [|exact Hx].
          exfalso. destruct (ab1 T0 u Hx) as [i Hy]. rewrite Tb in Hy. discriminate. }
        destruct (th s u); cbn [T3] in *; try exact I; destruct q; rewrite ?Hi, ?Ho, ?Hs, ?Hdb; try exact Hu;
          try (destruct Hu as [X Y]; split; [apply in_app_l; exact X|];
               first [apply Hkeep; exact Y | destruct Y as [Y Z]; split; [apply Hkeep; exact Y|exact Z] | exact Y | (destruct Y as [Y Z]; split; [exact Y|exact Z])]).
  Qed.

  (** * returns *)
  Lemma V_retA s s' t x gk :
    Inv3 s -> T3 s t (E5 RA x 0 gk) ->
    (forall T i, g_eq (ra s) T = EPub i -> g_eq (ra s') T = EPub i) ->
    (forall H i, g_dq (ra s) H = DTaken i -> g_dq (ra s') H = DTaken i) ->
    (forall H i, g_dq (ra s') H = DTaken i -> g_dq (ra s) H = DTaken i) ->
    (forall i, store s' i = store s i) -> (forall i, g_own s' i = g_own s i) ->
    g_in s' = g_in s -> g_out s' = g_out s -> g_ok s' = g_ok s ++ [(gk, x)] -> g_ret s' = g_ret s ->
    (forall T, g_ebusy s' T = if T =? gk then None else g_ebusy s T) ->
    (forall H, g_dbusy s' H = g_dbusy s H) ->
    th s' = upd (th s) t Idle -> Inv3 s'.
  Proof.
    intros [a1 a2 a2n a3 a3n a4 aok aokn aret aretn ab1 ab2 at_] [Hin Hbusy] Fe Fd Fr Hs Hown Hi Ho Hok Hret Heb Hdb Hth.
    constructor; rewrite ?Hi, ?Ho, ?Hok, ?Hret; try assumption.
    - intros i T Hlt. rewrite Hown, Hs. apply a1. exact Hlt.
    - intros T v Hx. destruct (a2 T v Hx) as [i Hy]. exists i. apply Fe. exact Hy.
    - intros H v Hx. destruct (a3 H v Hx) as [X [i Hy]]. split; [exact X|]. exists i. apply Fd. exact Hy.
    - intros H i Hx. apply (a4 H i). apply Fr. exact Hx.
    - intros T v Hx. rewrite Heb. apply in_snoc in Hx. destruct Hx as [Hx|Hx].
      + destruct (aok T v Hx) as [X Y]. split; [exact X|]. destruct (T =? gk); [reflexivity|exact Y].
      + inversion Hx; subst T v. rewrite N.eqb_refl. split; [exact Hin|reflexivity].
    - apply nodup_snoc; [exact aokn|]. intros w Hx. destruct (aok gk w Hx) as [_ Y]. congruence.
    - intros H v Hx. rewrite Hdb. apply aret. exact Hx.
    - intros T u. rewrite Heb. destruct (T =? gk); [discriminate|].
      intros Hx. destruct (ab1 T u Hx) as [i Hy]. exists i. apply Fe. exact Hy.
    - intros H u. rewrite Hdb. intros Hx. destruct (ab2 H u Hx) as [i Hy]. exists i. apply Fd. exact Hy.
    - intros u. rewrite Hth. destruct (Nat.eq_dec u t) as [->|Hne]; [rewrite upd_same; exact I|rewrite upd_other by exact Hne].
      pose proof (at_ u) as Hu.
      assert (Hkeep : forall gk', g_ebusy s gk' = Some u -> g_ebusy s' gk' = Some u).
      { intros gk' Hx. rewrite Heb. destruct (N.eqb_spec gk' gk) as [->|_]; [|exact Hx]. congruence. }
      destruct (th s u); cbn [T3] in *; try exact I; destruct q; rewrite ?Hi, ?Ho, ?Hs, ?Hdb; try exact Hu;
        try (destruct Hu as [X Y]; split; [exact X|];
             first [apply Hkeep; exact Y | destruct Y as [Y Z]; split; [apply Hkeep; exact Y|exact Z] | exact Y | (destruct Y as [Y Z]; split; [exact Y|exact Z])]).
  Qed.

  Lemma V_retF s s' t x gk :
    Inv3 s -> T3 s t (E5 RF x 0 gk) ->
    (forall T i, g_eq (ra s) T = EPub i -> g_eq (ra s') T = EPub i) ->
    (forall H i, g_dq (ra s) H = DTaken i -> g_dq (ra s') H = DTaken i) ->
    (forall H i, g_dq (ra s') H = DTaken i -> g_dq (ra s) H = DTaken i) ->
    (forall i, store s' i = store s i) -> (forall i, g_own s' i = g_own s i) ->
    g_in s' = g_in s -> g_out s' = g_out s -> g_ok s' = g_ok s -> g_ret s' = g_ret s ++ [(gk, x)] ->
    (forall T, g_ebusy s' T = g_ebusy s T) ->
    (forall H, g_dbusy s' H = if H =? gk then None else g_dbusy s H) ->
    th s' = upd (th s) t Idle -> Inv3 s'.
  Proof.
    intros [a1 a2 a2n a3 a3n a4 aok aokn aret aretn ab1 ab2 at_] [Hin Hbusy] Fe Fd Fr Hs Hown Hi Ho Hok Hret Heb Hdb Hth.
    constructor; rewrite ?Hi, ?Ho, ?Hok, ?Hret; try assumption.
    - intros i T Hlt. rewrite Hown, Hs. apply a1. exact Hlt.
    - intros T v Hx. destruct (a2 T v Hx) as [i Hy]. exists i. apply Fe. exact Hy.
    - intros H v Hx. destruct (a3 H v Hx) as [X [i Hy]]. split; [exact X|]. exists i. apply Fd. exact Hy.
    - intros H i Hx. apply (a4 H i). apply Fr. exact Hx.
    - intros T v Hx. rewrite Heb. apply aok. exact Hx.
    - intros H v Hx. rewrite Hdb. apply in_snoc in Hx. destruct Hx as [Hx|Hx].
      + destruct (aret H v Hx) as [X Y]. split; [exact X|]. destruct (H =? gk); [reflexivity|exact Y].
      + inversion Hx; subst H v. rewrite N.eqb_refl. split; [exact Hin|reflexivity].
    - apply nodup_snoc; [exact aretn|]. intros w Hx. destruct (aret gk w Hx) as [_ Y]. congruence.
    - intros T u. rewrite Heb. intros Hx. destruct (ab1 T u Hx) as [i Hy]. exists i. apply Fe. exact Hy.
    - intros H u. rewrite Hdb. destruct (H =? gk); [discriminate|].
      intros Hx. destruct (ab2 H u Hx) as [i Hy]. exists i. apply Fd. exact Hy.
    - intros u. rewrite Hth. destruct (Nat.eq_dec u t) as [->|Hne]; [rewrite upd_same; exact I|rewrite upd_other by exact Hne].
      pose proof (at_ u) as Hu.
      assert (Hkeep : forall gk', g_dbusy s gk' = Some u -> g_dbusy s' gk' = Some u).
      { intros gk' Hx. rewrite Hdb. destruct (N.eqb_spec gk' gk) as [->|_]; [|exact Hx]. congruence. }
      destruct (th s u); cbn [T3] in *; try exact I; destruct q; rewrite ?Hi, ?Ho, ?Hs, ?Heb; try exact Hu;
        try (destruct Hu as [X Y]; split; [exact X|];
             first [apply Hkeep; exact Y | destruct Y as [Y Z]; split; [apply Hkeep; exact Y|exact Z] | exact Y | (destruct Y as [Y Z]; split; [exact Y|exact Z])]).
  Qed.

  Ltac frame_hyps :=
    sim; try reflexivity; try (intros; reflexivity); try (intros; assumption);
    try (intros ? ?; unfold setf; match goal with |- context [if ?a =? ?b then _ else _] => destruct (a =? b) end; [discriminate|auto]).

  Ltac t3_close Hme :=
    first [exact Hme | exact I
          | (let X := fresh in let Y := fresh in let Z := fresh in destruct Hme as (X & Y & Z); first [rewrite Z; split; assumption | split; assumption])
          | (let X := fresh in let Y := fresh in destruct Hme as [X Y]; ssplit; [exact X|exact Y|reflexivity])].

  Ltac frz := let t' := fresh in let Ea := fresh in intros t' ? ? ? Ea; try discriminate Ea; inversion Ea; subst t';
              match goal with E : th _ _ = _ |- _ => rewrite E; discriminate end.

  Lemma Inv3_step s a s' es : Inv1 s -> Inv2 s -> Inv3 s -> step s a = Some (s', es) -> Inv3 s'.
  Proof.
    intros H1 H2 H3 Hst. destruct (fate_stable s a s' es H1 H2 Hst) as [Fe0 Fd0].
    pose proof (Fe0 RA) as Fe. pose proof (Fd0 RA) as Fd. clear Fe0 Fd0.
    pose proof (fate_back s a s' es Hst) as Fb.
    assert (Fr : (forall t x hd e, a = Step t -> th s t <> D3 RA x hd e) -> forall H i, g_dq (ra s') H = DTaken i -> g_dq (ra s) H = DTaken i).
    { intros Hno H i Hx. destruct (Fb H i Hx) as [Hy|(t' & x' & hd' & e' & Ea & Et & _)]; [exact Hy|]. exfalso. apply (Hno t' x' hd' e' Ea Et). }
    unfold NikbDefs.step, step_gen in Hst. destruct a as [t o|t].
    - destruct (th s t) eqn:E; try discriminate. inversion Hst; subst; clear Hst.
      eapply (Inv3_frame s _ t); [exact H3|exact Fe|exact Fd|apply Fr; frz|frame_hyps..|exact I].
    - pose proof (vt s H3 t) as Hme.
      destruct (th s t) as [|[v|tp]|q x|q x|q x hd att|q x hd e|q x hd att e|q x hd att e enew|q x hd|q x|q x tl hd|q x tl|q x
                           |q x idx gk|q x idx gk tl|q x idx gk tl e|q x idx gk tl e|q x idx gk|q x idx gk] eqn:E; try discriminate.
      + inversion Hst; subst; clear Hst. eapply (Inv3_frame s _ t); [exact H3|exact Fe|exact Fd|apply Fr; frz|frame_hyps..|exact I].
      + inversion Hst; subst; clear Hst. eapply (Inv3_frame s _ t); [exact H3|exact Fe|exact Fd|apply Fr; frz|frame_hyps..|exact I].
      + (* D0 *) destruct (lt0 _); inversion Hst; subst; clear Hst;
        (eapply (Inv3_frame s _ t); [exact H3|exact Fe|exact Fd|apply Fr; frz|frame_hyps..|exact I]).
      + (* D1 *) inversion Hst; subst; clear Hst. eapply (Inv3_frame s _ t); [exact H3|exact Fe|exact Fd|apply Fr; frz|frame_hyps..|exact I].
      + (* D2 *) inversion Hst; subst; clear Hst. unfold mark_left in *. destruct (leaves _);
        (eapply (Inv3_frame s _ t); [exact H3|exact Fe|exact Fd|apply Fr; frz|frame_hyps..|]);
        (destruct (dq_eval_cases cap q x hd att (rdata (rg s q) (phys cap hd))) as [[C1 ->]|[C1 [[C2 [[C3 ->]|[C3 [[C4 ->]|[C4 ->]]]]]|[C2 ->]]]]; exact I).
      + (* D3 *) destruct q.
        * inversion Hst; subst; clear Hst. rewrite (land_vmask k Hk) in *.
          eapply (V_take s _ t x hd e); [exact H1|exact H2|exact H3|exact E|exact Fe|exact Fd|sim; unfold setf; rewrite N.eqb_refl; reflexivity| |frame_hyps..].
          intros H i Hx. destruct (Fb H i Hx) as [Hy|(t' & x' & hd' & e' & Ea & Et & Eh)]; [left; exact Hy|right].
          inversion Ea; subst t'. rewrite E in Et. inversion Et; subst. reflexivity.
        * inversion Hst; subst; clear Hst. eapply (Inv3_frame s _ t); [exact H3|exact Fe|exact Fd|apply Fr; frz|frame_hyps..|exact I].
      + (* D4 *) inversion Hst; subst; clear Hst. unfold mark_left in *. destruct (leaves _);
        (eapply (Inv3_frame s _ t); [exact H3|exact Fe|exact Fd|apply Fr; frz|frame_hyps..|]);
        (destruct (gt0 _ && _); [exact I|destruct (lt0 _); exact I]).
      + (* D5 *) destruct (_ =? e); inversion Hst; subst; clear Hst.
        * eapply (Inv3_frame s _ t); [exact H3|exact Fe|exact Fd|apply Fr; frz|frame_hyps..|exact I].
        * unfold mark_left in *. destruct (leaves _);
          (eapply (Inv3_frame s _ t); [exact H3|exact Fe|exact Fd|apply Fr; frz|frame_hyps..|]);
          (destruct (dq_eval_cases cap q x hd att (rdata (rg s q) (phys cap hd))) as [[C1 ->]|[C1 [[C2 [[C3 ->]|[C3 [[C4 ->]|[C4 ->]]]]]|[C2 ->]]]]; exact I).
      + (* D6 *) destruct (gt0 _); inversion Hst; subst; clear Hst;
        (eapply (Inv3_frame s _ t); [exact H3|exact Fe|exact Fd|apply Fr; frz|frame_hyps..|exact I]).
      + (* D7 *) destruct (sle 64 _ 0); inversion Hst; subst; clear Hst;
        (eapply (Inv3_frame s _ t); [exact H3|exact Fe|exact Fd|apply Fr; frz|frame_hyps..|exact I]).
      + (* C1 *) destruct (_ =? tl); inversion Hst; subst; clear Hst;
        (eapply (Inv3_frame s _ t); [exact H3|exact Fe|exact Fd|apply Fr; frz|frame_hyps..|exact I]).
      + (* C2 *) destruct (lt0 _); inversion Hst; subst; clear Hst;
        (eapply (Inv3_frame s _ t); [exact H3|exact Fe|exact Fd|apply Fr; frz|frame_hyps..|exact I]).
      + (* D8 *) inversion Hst; subst; clear Hst;
        (eapply (Inv3_frame s _ t); [exact H3|exact Fe|exact Fd|apply Fr; frz|frame_hyps..|exact I]).
      + (* E1 *) destruct q; inversion Hst; subst; clear Hst.
        * eapply (V_write s _ t x idx gk); [exact H2|exact H3|exact E|exact Fe|exact Fd|apply Fr; frz|frame_hyps..].
        * eapply (Inv3_frame s _ t); [exact H3|exact Fe|exact Fd|apply Fr; frz|frame_hyps..|]. cbn [T3] in *. sim. t3_close Hme.
      + (* E2 *) inversion Hst; subst; clear Hst. unfold mark_skip in *. destruct (skips _);
        (eapply (Inv3_frame s _ t); [exact H3|exact Fe|exact Fd|apply Fr; frz|frame_hyps..|]);
        (destruct (en_eval_cases cap q x idx gk tl (rdata (rg s q) (phys cap tl))) as [(C1 & C2 & Ee)|[(C1 & C2 & C3 & Ee)|Ee]]; rewrite Ee; destruct q; cbn [T3] in *; sim; t3_close Hme).
      + (* E3 *) destruct (gt0 _); inversion Hst; subst; clear Hst; unfold mark_skip in *; cbn [skips] in *;
        (eapply (Inv3_frame s _ t); [exact H3|exact Fe|exact Fd|apply Fr; frz|frame_hyps..|]); destruct q; cbn [T3] in *; sim; t3_close Hme.
      + (* E4 *) destruct (_ =? e).
        * destruct q; inversion Hst; subst; clear Hst.
          -- eapply (V_pub s _ t x idx gk tl e); [exact H1|exact H2|exact H3|exact E|exact Fe|exact Fd|apply Fr; frz|sim; unfold setf; rewrite N.eqb_refl; reflexivity|frame_hyps..].
          -- eapply (Inv3_frame s _ t); [exact H3|exact Fe|exact Fd|apply Fr; frz|frame_hyps..|]. cbn [T3] in *. sim. t3_close Hme.
        * inversion Hst; subst; clear Hst. unfold mark_skip in *. destruct (skips _);
          (eapply (Inv3_frame s _ t); [exact H3|exact Fe|exact Fd|apply Fr; frz|frame_hyps..|]);
          (destruct (en_eval_cases cap q x idx gk tl (rdata (rg s q) (phys cap tl))) as [(C1 & C2 & Ee)|[(C1 & C2 & C3 & Ee)|Ee]]; rewrite Ee; destruct q; cbn [T3] in *; sim; t3_close Hme).
      + (* E5 *) destruct (_ =? thr_full cap); [destruct q|]; inversion Hst; subst; clear Hst.
        * eapply (V_retA s _ t x gk); [exact H3|exact Hme|exact Fe|exact Fd|apply Fr; frz|frame_hyps..].
        * eapply (V_retF s _ t x gk); [exact H3|exact Hme|exact Fe|exact Fd|apply Fr; frz|frame_hyps..].
        * eapply (Inv3_frame s _ t); [exact H3|exact Fe|exact Fd|apply Fr; frz|frame_hyps..|]. destruct q; cbn [T3] in *; sim; t3_close Hme.
      + (* E6 *) destruct q; inversion Hst; subst; clear Hst.
        * eapply (V_retA s _ t x gk); [exact H3|exact Hme|exact Fe|exact Fd|apply Fr; frz|frame_hyps..].
        * eapply (V_retF s _ t x gk); [exact H3|exact Hme|exact Fe|exact Fd|apply Fr; frz|frame_hyps..].
  Qed.

  Theorem Inv123_reach s : reach (init cap) step s -> g_ovf s = false -> Inv1 s /\ Inv2 s /\ Inv3 s.
  Proof.
    intros Hr. induction Hr as [|s a s' es Hr IH Hst]; intros Hov.
    - ssplit; [apply (Inv1_init k R Hk)|apply (Inv2_init k R Hk)|apply Inv3_init].
    - destruct IH as (I1 & I2 & I3); [eapply ovf_sticky; eauto|].
      ssplit; [eapply (Inv1_step k R Hk); eauto|eapply (Inv2_step k R Hk); eauto|eapply Inv3_step; eauto].
  Qed.
End L3.
