(** Safety of guard_ptr in the stamp_it model (Model/StampDefs.v), C01, relative to the lower-bound property of the tail
    stamp:  [Tinv s]  the stamp of tail is not larger than the stamp of any block inside a critical region.
    Along every run that keeps [Tinv] ([reach_in Tinv]) a node held by a persistent guard_ptr is never reclaimed and no
    dereference hits a destroyed node ([G0], [guards_safe]): the thread of the guard is inside its critical region since
    before the node was retired, so the node's stamp (head->stamp at the time of the retirement) is larger than the
    thread's stamp, and nodes are reclaimed only up to a tail stamp read earlier.  No axioms. *)
From Coq Require Import NArith List Bool Arith Lia PeanoNat Setoid Permutation.
From XV Require Import Conc.Lts Conc.Ev Model.StampDefs Proof.StampBase Proof.StampNodes Proof.StampStamps.
Import ListNotations.
Local Open Scope N_scope.

Definition Tinv (s : state) : Prop := forall b, g_reg s b = true -> qstamp s TTail <= cst (qstamp s (TB b)).

(** runs that stay inside P *)
Section ReachIn.
Variables (ns : nat) (nc : N) (P : state -> Prop).
Inductive reach_in : state -> Prop :=
| ri_init : P (init nc) -> reach_in (init nc)
| ri_step : forall s a s' es, reach_in s -> step ns s a = Some (s', es) -> P s' -> reach_in s'.
Lemma reach_in_reach s : reach_in s -> reachable ns nc s /\ P s.
Proof.
  induction 1 as [Hi|s a s' es Hr [IH1 IH2] Hst Hp]; [split; [apply reach_init|exact Hi]|].
  split; [eapply reach_step; eauto|exact Hp].
Qed.
Lemma reach_reach_in s : (forall x, reachable ns nc x -> P x) -> reachable ns nc s -> reach_in s.
Proof.
  intros HP. induction 1 as [|s a s' es Hr IH Hst]; [apply ri_init; apply HP; apply reach_init|].
  eapply ri_step; eauto. apply HP. eapply reach_step; eauto.
Qed.
End ReachIn.

(** a retired node: its life cycle and its stamp *)
Lemma retired_somewhere s n : N0 s -> g_where s n <> PNone -> exists v r, g_life s n = LRet v r /\ nstamp s n = r.
Proof.
  intros I Hw. destruct (wh_ret_some _ _ _ (n_where s I n) Hw) as (v & r & E). exists v, r. split; [exact E|eapply n_stamp; eauto].
Qed.

Lemma in_list_retired s u n : N0 s -> In n (rl (tl s u)) -> exists v r, g_life s n = LRet v r /\ nstamp s n = r.
Proof. intros I H. apply retired_somewhere; [exact I|]. apply (n_list s I) in H. congruence. Qed.
Lemma in_glob_retired s n : N0 s -> In n (concat (gret s)) -> exists v r, g_life s n = LRet v r /\ nstamp s n = r.
Proof. intros I H. apply retired_somewhere; [exact I|]. apply (n_glob s I) in H. congruence. Qed.
Lemma in_flight_retired s u n : N0 s -> In n (flight (th s u)) -> exists v r, g_life s n = LRet v r /\ nstamp s n = r.
Proof. intros I H. apply retired_somewhere; [exact I|]. apply (n_flight s I) in H. congruence. Qed.

Lemma split_chunk_in ns ts l f r n : split_chunk ns ts l = (f, r) -> In n f -> In n l /\ ns n <= ts.
Proof.
  intros E H. split.
  - pose proof (split_chunk_app ns ts l) as A. rewrite E in A. rewrite A. apply in_or_app. left. exact H.
  - pose proof (split_chunk_le ns ts l n) as L. rewrite E in L. apply L. exact H.
Qed.
Lemma proc_chunks_in ns ts chs fl rest n : proc_chunks ns ts chs = (fl, rest) -> In n fl -> In n (concat chs) /\ ns n <= ts.
Proof.
  intros E H. split.
  - pose proof (proc_chunks_perm ns ts chs) as P. rewrite E in P. eapply Permutation_in; [apply Permutation_sym; exact P|].
    apply in_or_app. left. exact H.
  - pose proof (proc_chunks_le ns ts chs n) as L. rewrite E in L. apply L. exact H.
Qed.
Lemma in_chain_retired s t stolen n : N0 s -> (stolen = gret s \/ stolen = []) ->
  In n (concat (if is_nil (rl (tl s t)) then stolen else rl (tl s t) :: stolen)) -> exists v r, g_life s n = LRet v r /\ nstamp s n = r.
Proof.
  intros I Hs H. rewrite concat_ifnil in H. apply in_app_or in H. destruct H as [H|H]; [eapply in_list_retired; eauto|].
  destruct Hs as [-> | ->]; [eapply in_glob_retired; eauto|destruct H].
Qed.

(** * what one step does to guards and nodes *)
Lemma step_neffects ns s t s' es : N0 s -> S0 s -> step ns s (Step t) = Some (s', es) ->
  (forall u i n, gs (tl s' u) i = Some n -> gs (tl s u) i = Some n \/ (u = t /\ exists c, th s t = A2 (KHold c i) /\ cells s c = Some n)) /\
  (forall n, g_life s' n = g_life s n \/ g_life s n = LNone \/ (exists u, g_life s n = LFresh u) \/
             (exists c, g_life s n = LPub c /\ g_life s' n = LUnl t) \/
             (g_life s n = LUnl t /\ g_life s' n = LRet t (qstamp s THead))) /\
  (forall n, g_where s' n = PFreed -> g_where s n = PFreed \/ (exists v r, g_life s n = LRet v r /\ r <= qstamp s TTail)).
Proof.
  intros I S H. unfold_step H. cbv zeta in H. step_split H.
  all: bool_eqs; prj; prj_hyps; rewrite ?upd_same in *; prj_hyps.
  all: (split; [intros gu gi gn Hg|split; [intros gn|intros gn Hw]]).
  all: try solve [left; first [assumption|reflexivity]].
  (* guards *)
  all: try solve [match goal with Hg : gs (upd _ ?t0 _ ?u0) _ = Some _ |- _ =>
    (destruct (Nat.eq_dec u0 t0) as [->|Hne]; [rewrite ?upd_same in Hg|rewrite ?upd_other in Hg by exact Hne; left; exact Hg]); prj_in Hg;
    try match type of Hg with context [upd ?f ?a ?v ?x] => destruct (Nat.eq_dec x a) as [->|Hne2]; [rewrite upd_same in Hg|rewrite upd_other in Hg by exact Hne2] end;
    first [ discriminate Hg | left; assumption
          | try subst; right; (split; [reflexivity|eexists; (split; [first [eassumption|reflexivity]|cbn [cell_of] in *; congruence])]) ] end].
  (* life cycle *)
  all: try solve [match goal with |- g_life _ _ = _ \/ _ => idtac | |- updN _ _ _ _ = _ \/ _ => idtac end;
    destruct I as [Ilt Icell If1 If2 Iu1 Iu2 Iwh Ilist Iglob Ifl Indl Indg Indf Ist Ixe];
    match goal with E : th ?s ?t = _ |- _ =>
         pose proof (If1 t) as If1t; pose proof (Iu1 t) as Iu1t; rewrite E in If1t, Iu1t; nfn_in If1t; nfn_in Iu1t end;
    nfacts; inj_some;
    repeat match goal with |- context [updN ?f ?a ?v ?x] => destruct (updN_cases f a v x) as [[-> ->]|[? ->]] end;
    first [ left; reflexivity | right; left; assumption | right; right; left; solve [eauto]
          | right; right; right; left; eexists; split; [eassumption|reflexivity]
          | right; right; right; right; split; [assumption|reflexivity] ]].
  (* reclaimed: only retired nodes whose stamp is not above the tail stamp *)
  all: try solve [match goal with Hw : _ = PFreed |- _ =>
    pose proof (s_ts s S t) as Hts; match goal with E : th _ _ = _ |- _ => rewrite E in Hts end; sfn_in Hts;
    repeat match type of Hw with context [updN ?f ?a ?v ?x] => destruct (updN_cases f a v x) as [[? E']|[? E']]; rewrite E' in Hw; clear E' end;
    mem_split; try discriminate Hw; try (left; exact Hw);
    right;
    first [ match goal with E : split_chunk _ _ _ = (?f, _), M : In _ ?f |- _ =>
              destruct (split_chunk_in _ _ _ _ _ _ E M) as [X1 X2]; destruct (in_list_retired _ _ _ I X1) as (vv & rr & L1 & L2) end
          | match goal with E : proc_chunks _ _ (if is_nil _ then gret _ else _) = (?f, _), M : In _ ?f |- _ =>
              destruct (proc_chunks_in _ _ _ _ _ _ E M) as [X1 X2]; destruct (in_chain_retired _ _ _ _ I (or_introl eq_refl) X1) as (vv & rr & L1 & L2) end
          | match goal with E : proc_chunks _ _ (if is_nil _ then [] else _) = (?f, _), M : In _ ?f |- _ =>
              destruct (proc_chunks_in _ _ _ _ _ _ E M) as [X1 X2]; destruct (in_chain_retired _ _ _ _ I (or_intror eq_refl) X1) as (vv & rr & L1 & L2) end
          | match goal with E : proc_chunks _ _ ?ch = (?f, _), M : In _ ?f, Ep : th _ ?t0 = _ |- _ =>
              destruct (proc_chunks_in _ _ _ _ _ _ E M) as [X1 X2];
              assert (X3 : In gn (flight (th s t0))) by (rewrite Ep; exact X1);
              destruct (in_flight_retired _ _ _ I X3) as (vv & rr & L1 & L2) end ];
    exists vv, rr; (split; [exact L1|]); rewrite <- L2; lia end].
Qed.
(** * the guard invariant *)
Definition glife_ok (s : state) (b n : N) : Prop :=
  match g_life s n with
  | LPub _ | LUnl _ => True
  | LRet _ r => cst (qstamp s (TB b)) < r
  | _ => False
  end.

Definition G0 (s : state) : Prop :=
  forall u i n, gs (tl s u) i = Some n ->
    g_where s n <> PFreed /\ exists b, cb (tl s u) = Some b /\ g_reg s b = true /\ glife_ok s b n.

Lemma G0_init nc : G0 (init nc).
Proof. intros u i n H. discriminate H. Qed.

(** a thread that holds a guard is inside its critical region *)
Lemma guard_in_region ns s u i n : T0 ns s -> S0 s -> gs (tl s u) i = Some n ->
  exists b, cb (tl s u) = Some b /\ g_reg s b = true.
Proof.
  intros T S Hg. pose proof (T u) as Tu.
  destruct (cb (tl s u)) as [b|] eqn:Ecb.
  - exists b. split; [reflexivity|]. destruct (s_own s S u b Ecb) as (_ & _ & ->).
    assert (Hi : (i < ns)%nat). { destruct (Nat.lt_ge_cases i ns) as [L|L]; [exact L|]. rewrite (ts_hi _ _ _ Tu i L) in Hg. discriminate. }
    pose proof (cnt_pos _ _ _ _ Hg Hi) as Hp. pose proof (ts_cnt _ _ _ Tu) as Hc.
    assert (Hn : (1 <= nest (tl s u))%nat) by lia.
    unfold inreg. destruct (nest (tl s u)); [lia|]. destruct (th s u); try reflexivity. destruct p; reflexivity.
  - destruct (ts_fresh _ _ _ Tu Ecb) as (_ & Hn & _). rewrite Hn in Hg. discriminate.
Qed.

Lemma cst_stable ns s t s' es u b : T0 ns s -> O0 s -> S0 s -> step ns s (Step t) = Some (s', es) ->
  cb (tl s u) = Some b -> g_reg s b = true -> cst (qstamp s' (TB b)) = cst (qstamp s (TB b)).
Proof.
  intros T O S H Hcb Hr.
  destruct (step_qwrites ns s t s' es (T t) H) as (WA & _).
  destruct (s_own s S u b Hcb) as (F1 & _ & F3). rewrite Hr in F3.
  destruct (WA (TB b)) as [E|[[(b0 & Hb0 & X) Hk]|[[X E]|[(X & _)|[(f & Ef & E1 & E2)|(X & _)]]]]]; try discriminate X.
  - rewrite E. reflexivity.
  - injection X as <-.
    assert (u = t). { destruct (o_own s O u b Hcb) as [X1 _]. destruct (o_own s O t b Hb0) as [X2 _]. congruence. } subst u.
    destruct Hk as [(k & hp & v & Ef & E)|[(k & v & my & Ef & E)|(f & Ef & E)]]; rewrite Ef in F1, F3; sfn_in F1; sfn_in F3.
    + pose proof (ts_p _ _ _ (T t)) as L. rewrite Ef in L. rewrite (L eq_refl) in F3. discriminate.
    + pose proof (s_pc s S t) as P. rewrite Ef in P. sfn_in P. destruct P as (P1 & _). rewrite E, F1. apply (cst_m4 v P1).
    + pose proof (ts_l _ _ _ (T t)) as L. rewrite Ef in L. rewrite (L eq_refl) in F3. discriminate.
  - exfalso. unfold fresh_blk in X. injection X as ->. destruct (o_own s O u _ Hcb) as [X1 _]. apply (o_rev s O) in X1. lia.
  - pose proof (s_pc s S t) as P. rewrite Ef in P. sfn_in P. rewrite E2, <- E1. apply cst_pending. rewrite E1. exact P.
Qed.

Lemma G0_step ns s t s' es : T0 ns s -> O0 s -> N0 s -> S0 s -> T0 ns s' -> S0 s' -> Tinv s -> G0 s ->
  step ns s (Step t) = Some (s', es) -> G0 s'.
Proof.
  intros T O I S T' S' TI G H u i n Hg.
  destruct (step_neffects _ _ _ _ _ I S H) as (NE1 & NE2 & NE3).
  destruct (step_qwrites ns s t s' es (T t) H) as (WA & _ & _ & WD).
  destruct (step_frame _ _ _ _ _ H) as (Fth & _).
  destruct (guard_in_region _ _ _ _ _ T' S' Hg) as (b' & Hcb' & Hr').
  destruct (NE1 u i n Hg) as [Hold|(-> & c & Epc & Ec)].
  - (* held before *)
    destruct (G u i n Hold) as (Hw & b & Hcb & Hr & Hl).
    assert (Eb : b' = b).
    { destruct (Nat.eq_dec u t) as [->|Hne].
      - destruct (WD b Hcb) as [X|[X _]]; [congruence|].
        exfalso. pose proof (T t) as Tt. rewrite X in Tt.
        pose proof (ts_l _ _ _ Tt eq_refl) as L. pose proof (ts_cnt _ _ _ Tt) as C. rewrite L in C.
        assert (Hi : (i < ns)%nat). { destruct (Nat.lt_ge_cases i ns) as [Q|Q]; [exact Q|]. rewrite (ts_hi _ _ _ Tt i Q) in Hold. discriminate. }
        pose proof (cnt_pos _ _ _ _ Hold Hi). lia.
      - destruct (Fth u Hne) as [_ Et]. rewrite Et in Hcb'. congruence. }
    subst b'.
    assert (Hcst : cst (qstamp s' (TB b)) = cst (qstamp s (TB b))) by (eapply cst_stable; eauto).
    assert (Hl' : glife_ok s' b n).
    { unfold glife_ok in *. rewrite Hcst.
      destruct (NE2 n) as [E|[E|[(v & E)|[(c & E1 & E2)|(E1 & E2)]]]].
      - rewrite E. exact Hl.
      - rewrite E in Hl. contradiction.
      - rewrite E in Hl. contradiction.
      - rewrite E2. exact Logic.I.
      - rewrite E2. pose proof (s_sb s S b). lia. }
    split; [|exists b; auto].
    intros Hf. destruct (NE3 n Hf) as [X|(v & r & X1 & X2)]; [contradiction|].
    unfold glife_ok in Hl. rewrite X1 in Hl. specialize (TI b Hr). lia.
  - (* a new guard: the node is in a cell *)
    pose proof (n_cell s I c n Ec) as Hp.
    destruct (wh_not_ret _ _ _ (n_where s I n) ltac:(rewrite Hp; intros; discriminate)) as [Hw0 _].
    split.
    + intros Hf. destruct (NE3 n Hf) as [X|(v & r & X1 & _)]; congruence.
    + exists b'. split; [exact Hcb'|]. split; [exact Hr'|].
      unfold glife_ok. destruct (NE2 n) as [E|[E|[(v & E)|[(c' & E1 & E2)|(E1 & E2)]]]]; try congruence.
      * rewrite E, Hp. exact Logic.I.
      * rewrite E2. exact Logic.I.
Qed.

Lemma G0_start ns s t o s' es : G0 s -> step ns s (Start t o) = Some (s', es) -> G0 s'.
Proof.
  intros G H. unfold step, step_gen in H. step_split H.
  all: bool_eqs; prj.
  all: intros gu gi gn Hg; prj_in Hg.
  all: unfold glife_ok; prj.
  all: try solve [destruct (G _ _ _ Hg) as (Hw & b & Hcb & Hr & Hl); unfold glife_ok in Hl; split; [exact Hw|exists b; repeat split; assumption]].
  all: destruct (Nat.eq_dec gu t) as [->|Hne]; [rewrite ?upd_same in *; prj_hyps; try discriminate Hg|rewrite ?upd_other in * by exact Hne].
  all: try solve [destruct (G _ _ _ Hg) as (Hw & b & Hcb & Hr & Hl); unfold glife_ok in Hl; split; [exact Hw|exists b; repeat split; assumption]].
Qed.

(** * no dereference of a destroyed node *)
Lemma dead_false s n : N0 s -> g_where s n <> PFreed -> g_life s n <> LDropped -> dead s n = false.
Proof.
  intros I Hw Hl. unfold dead. pose proof (n_where s I n) as W.
  assert (Hn : g_nfree s n = O). { destruct (g_where s n); cbn in W; try apply W. contradiction. }
  rewrite Hn. cbn. destruct (g_life s n); try reflexivity. contradiction.
Qed.
Lemma dead_cell s c n : N0 s -> cells s c = Some n -> dead s n = false.
Proof.
  intros I Hc. pose proof (n_cell s I c n Hc) as Hp.
  destruct (wh_not_ret _ _ _ (n_where s I n) ltac:(rewrite Hp; intros; discriminate)) as [Hw0 _].
  apply dead_false; [exact I|congruence|congruence].
Qed.

Lemma uaf_step ns s t s' es : N0 s -> G0 s -> g_uaf s = false -> step ns s (Step t) = Some (s', es) -> g_uaf s' = false.
Proof.
  intros I G U H. unfold_step H. cbv zeta in H. step_split H.
  all: bool_eqs; prj; rewrite ?U; cbn [orb].
  all: try reflexivity.
  all: try solve [eapply dead_cell; eauto].
  all: try solve [match goal with E : gs (tl _ _) _ = Some _ |- _ => destruct (G _ _ _ E) as (Hw & b & _ & _ & Hl) end;
                  apply dead_false; [exact I|exact Hw|]; unfold glife_ok in Hl; intros X; rewrite X in Hl; exact Hl].
  all: match goal with E : cells _ _ = Some ?n |- dead _ ?n = false =>
         pose proof (dead_cell _ _ _ I E) as D; unfold dead in *; prj; apply orb_false_elim in D; destruct D as [D1 D2]; rewrite D1; cbn [orb] end.
  all: try exact D2.
  all: repeat match goal with |- context [updN ?f ?a ?v ?x] => destruct (updN_cases f a v x) as [[-> ->]|[? ->]] end; try reflexivity; try exact D2.
Qed.

(** * the theorems *)
Section Safe.
Variables (ns : nat) (nc : N).

Lemma G0_reach_in s : reach_in ns nc Tinv s -> G0 s /\ g_uaf s = false.
Proof.
  induction 1 as [Hi|s a s' es Hr [IH1 IH2] Hst Hp]; [split; [apply G0_init|reflexivity]|].
  destruct (reach_in_reach _ _ _ _ Hr) as [Hre HT].
  assert (Hre' : reachable ns nc s') by (eapply reach_step; eauto).
  destruct a as [t o|t].
  - split; [eapply G0_start; eauto|]. unfold step, step_gen in Hst. step_split Hst; prj; exact IH2.
  - split.
    + eapply (G0_step ns s t s' es); [eapply T0_reach; exact Hre | eapply O0_reach; exact Hre | eapply N0_reach; exact Hre | eapply S0_reach; exact Hre
        | eapply T0_reach; exact Hre' | eapply S0_reach; exact Hre' | exact HT | exact IH1 | exact Hst].
    + eapply (uaf_step ns s t s' es); [eapply N0_reach; exact Hre | exact IH1 | exact IH2 | exact Hst].
Qed.

(** C01: along every run that keeps the tail stamp below the stamps of the blocks inside a critical region, a node held
    by a guard_ptr is not reclaimed (its deleter has not run, nor was it dropped) and no dereference hit a destroyed node *)
Theorem guards_safe s : reach_in ns nc Tinv s ->
  (forall u i n, gs (tl s u) i = Some n -> dead s n = false /\ g_nfree s n = O) /\ g_uaf s = false.
Proof.
  intros Hr. destruct (G0_reach_in s Hr) as [G U]. split; [|exact U].
  destruct (reach_in_reach _ _ _ _ Hr) as [Hre _]. pose proof (N0_reach ns nc s Hre) as I.
  intros u i n Hg. destruct (G u i n Hg) as (Hw & b & _ & _ & Hl).
  assert (Hd : dead s n = false).
  { apply dead_false; [exact I|exact Hw|]. unfold glife_ok in Hl. intros X. rewrite X in Hl. exact Hl. }
  split; [exact Hd|]. unfold dead in Hd. apply orb_false_elim in Hd. destruct Hd as [Hd _].
  destruct (g_nfree s n); [reflexivity|discriminate].
Qed.
End Safe.

