(** vyukov_hash_map with several buckets and grow (Model/VhmGrowDefs.v): generic lemmas, step inversion, the
    structural invariant [Lk]: blocks, the resize lock, the bucket locks (also of replaced blocks) and the
    state words. *)
From Coq Require Import NArith List Bool Lia PeanoNat.
From XV Require Import Base.Word Conc.Lts Conc.Ev gen.BucketStateGen Proof.BucketState Model.VhmGrowDefs.
From XV Require Proof.VhmBase.
Import ListNotations.
Local Open Scope N_scope.

Notation W := VhmBase.W.
Notation wf_s := VhmBase.wf_s.
Notation mark := VhmBase.mark.

Definition isS {X : Type} (o : option X) : bool := match o with Some _ => true | None => false end.

Lemma setf2_same {X} (f : N -> N -> X) b j v : setf2 f b j v b j = v.
Proof. unfold setf2. rewrite !N.eqb_refl. reflexivity. Qed.
Lemma setf2_other {X} (f : N -> N -> X) b j v b' j' : b' <> b \/ j' <> j -> setf2 f b j v b' j' = f b' j'.
Proof.
  unfold setf2. intros H. destruct (N.eqb_spec b' b); destruct (N.eqb_spec j' j); cbn [andb]; try reflexivity.
  exfalso. tauto.
Qed.
Lemma setf3_same {X} (f : N -> N -> N -> X) b j i v : setf3 f b j i v b j i = v.
Proof. unfold setf3. rewrite !N.eqb_refl. reflexivity. Qed.
Lemma setf3_other {X} (f : N -> N -> N -> X) b j i v b' j' i' : b' <> b \/ j' <> j \/ i' <> i -> setf3 f b j i v b' j' i' = f b' j' i'.
Proof.
  unfold setf3. intros H. destruct (N.eqb_spec b' b); destruct (N.eqb_spec j' j); destruct (N.eqb_spec i' i); cbn [andb]; try reflexivity.
  exfalso. tauto.
Qed.
Lemma setf1_same {X} (f : N -> X) b v : setf1 f b v b = v.
Proof. unfold setf1. rewrite N.eqb_refl. reflexivity. Qed.
Lemma setf1_other {X} (f : N -> X) b v b' : b' <> b -> setf1 f b v b' = f b'.
Proof. unfold setf1. intros H. destruct (N.eqb_spec b' b); [contradiction|reflexivity]. Qed.
Lemma clr2_same {X} (f : N -> N -> X) b z j : clr2 f b z b j = z.
Proof. unfold clr2. rewrite N.eqb_refl. reflexivity. Qed.
Lemma clr2_other {X} (f : N -> N -> X) b z b' j : b' <> b -> clr2 f b z b' j = f b' j.
Proof. unfold clr2. intros H. destruct (N.eqb_spec b' b); [contradiction|reflexivity]. Qed.
Lemma clr3_same {X} (f : N -> N -> N -> X) b z j i : clr3 f b z b j i = z.
Proof. unfold clr3. rewrite N.eqb_refl. reflexivity. Qed.
Lemma clr3_other {X} (f : N -> N -> N -> X) b z b' j i : b' <> b -> clr3 f b z b' j i = f b' j i.
Proof. unfold clr3. intros H. destruct (N.eqb_spec b' b); [contradiction|reflexivity]. Qed.

(** * what a program point says about locks and blocks *)
(** the bucket whose lock a thread at [p] holds (lock_bucket / do_extract) *)
Definition pc_bkt (p : pc) : option (N * N) :=
  match p with
  | IK _ _ _ b j _ _ | IV _ _ _ b j _ _ | IUold _ _ _ b j _ _ | ISK _ _ _ b j _ | ISV _ _ _ b j _ | IUnew _ _ _ b j _
  | IH _ _ _ b j _ | GR1 _ _ _ b j _ | GR2 _ _ _ b j _ _
  | XK _ _ b j _ _ | XV _ _ b j _ _ | XH _ _ b j _ _ _ | XB1 _ _ b j _ _ _ | XB2 _ _ b j _ _ _ | XB3 _ _ b j _ _ _ _
  | XB4 _ _ b j _ _ _ _ _ | XB5 _ _ b j _ _ _ _ | XB6 _ _ b j _ _ _ | XHH _ _ b j _ | XU _ _ b j _ => Some (b, j)
  | _ => None
  end.
(** the word [bucket.state] holds meanwhile *)
Definition pc_bst (p : pc) : option N :=
  match p with
  | IK _ _ _ _ _ s _ | IV _ _ _ _ _ s _ | IUold _ _ _ _ _ s _ | ISK _ _ _ _ _ s | ISV _ _ _ _ _ s | IUnew _ _ _ _ _ s
  | IH _ _ _ _ _ s | GR1 _ _ _ _ _ s | GR2 _ _ _ _ _ s _
  | XK _ _ _ _ s _ | XV _ _ _ _ s _ | XH _ _ _ _ s _ _ | XB1 _ _ _ _ s _ _ | XHH _ _ _ _ s | XU _ _ _ _ s => Some (bs_locked s)
  | XB2 _ _ _ _ s i _ | XB3 _ _ _ _ s i _ _ | XB4 _ _ _ _ s i _ _ _ | XB5 _ _ _ _ s i _ _ => Some (mark s i)
  | XB6 _ _ _ _ s i _ => Some (if i =? bs_item_count s - 1 then bs_locked s else mark s i)
  | _ => None
  end.
(** the bucket locks a thread at [p] holds: one bucket, or (do_grow) the first buckets / all buckets of the old block *)
Definition holds (p : pc) (b j : N) : Prop :=
  match p with
  | DGL _ ob _ _ i | DGC _ ob _ _ i _ => b = ob /\ j < i
  | DMS _ ob _ n _ | DMK _ ob _ n _ _ _ | DMN _ ob _ n _ _ _ _ _ | DMV _ ob _ n _ _ _ _ _ _ | DMSK _ ob _ n _ _ _ _ _ _ _
  | DMSV _ ob _ n _ _ _ _ _ _ | DMSS _ ob _ n _ _ _ _ _ | DMH _ ob _ n _ | DP1 _ ob _ n => b = ob /\ j < n
  | _ => pc_bkt p = Some (b, j)
  end.
(** the bucket (of a block loaded from data_block) and the key a thread at [p] works on *)
Definition pc_ref (p : pc) : option (N * N * N) :=
  match p with
  | L2 _ k _ b j | L3 _ k _ b j _
  | IK _ k _ b j _ _ | IV _ k _ b j _ _ | IUold _ k _ b j _ _ | ISK _ k _ b j _ | ISV _ k _ b j _ | IUnew _ k _ b j _
  | IH _ k _ b j _ | GR1 _ k _ b j _ | GR2 _ k _ b j _ _
  | X2 _ k b j | X3 _ k b j _
  | XK _ k b j _ _ | XV _ k b j _ _ | XH _ k b j _ _ _ | XB1 _ k b j _ _ _ | XB2 _ k b j _ _ _ | XB3 _ k b j _ _ _ _
  | XB4 _ k b j _ _ _ _ _ | XB5 _ k b j _ _ _ _ | XB6 _ k b j _ _ _ | XHH _ k b j _ | XU _ k b j _
  | G2 k b j | GK k b j _ _ | GV k b j _ _ | GD k b j _ _ _ | GS k b j _ _ _ | GH k b j _ | GE k b j _ => Some (b, j, k)
  | _ => None
  end.
(** local facts about the state word [s] a thread has read, and its indices *)
Definition pc_wf (p : pc) : Prop :=
  match p with
  | L3 _ _ _ _ _ s => bs_is_locked s = false
  | X3 _ _ _ _ s => bs_is_locked s = false /\ bs_item_count s <> 0
  | IK _ _ _ _ _ s i | IV _ _ _ _ _ s i => wf_s s /\ i < bs_item_count s
  | IUold _ _ _ _ _ s _ => wf_s s
  | ISK _ _ _ _ _ s | ISV _ _ _ _ _ s | IUnew _ _ _ _ _ s => wf_s s /\ bs_item_count s < 3
  | IH _ _ _ _ _ s | GR1 _ _ _ _ _ s | GR2 _ _ _ _ _ s _ => wf_s s /\ bs_item_count s = 3
  | XK _ _ _ _ s i | XV _ _ _ _ s i | XH _ _ _ _ s i _ | XB6 _ _ _ _ s i _ => wf_s s /\ i < bs_item_count s
  | XB1 _ _ _ _ s i _ | XB2 _ _ _ _ s i _ | XB3 _ _ _ _ s i _ _ | XB4 _ _ _ _ s i _ _ _ | XB5 _ _ _ _ s i _ _ =>
    wf_s s /\ i < bs_item_count s /\ i <> bs_item_count s - 1
  | XHH _ _ _ _ s | XU _ _ _ _ s => wf_s s /\ bs_item_count s <> 0
  | DGL _ _ _ n i => i < n
  | DGC _ _ _ n i s => i < n /\ bs_is_locked s = false
  | DMS _ _ _ n i | DMH _ _ _ n i => i < n
  | DMK _ _ _ n i _ _ | DMN _ _ _ n i _ _ _ _ | DMV _ _ _ n i _ _ _ _ _ | DMSK _ _ _ n i _ _ _ _ _ _
  | DMSV _ _ _ n i _ _ _ _ _ | DMSS _ _ _ n i _ _ _ _ => i < n
  | _ => True
  end.
(** a thread between the successful exchange on resize_lock and the store that releases it *)
Definition rs_pc (p : pc) : bool :=
  match p with
  | GR2 _ _ _ _ _ _ ar => ar =? 0
  | DG1 _ | DGL _ _ _ _ _ | DGC _ _ _ _ _ _ | DMS _ _ _ _ _ | DMK _ _ _ _ _ _ _ | DMN _ _ _ _ _ _ _ _ _ | DMV _ _ _ _ _ _ _ _ _ _
  | DMSK _ _ _ _ _ _ _ _ _ _ _ | DMSV _ _ _ _ _ _ _ _ _ _ | DMSS _ _ _ _ _ _ _ _ _ | DMH _ _ _ _ _ | DP1 _ _ _ _ | DP2 _ _ _ => true
  | _ => false
  end.
(** old and new block of do_grow *)
Definition pc_blocks (p : pc) : option (N * N * N) :=
  match p with
  | DGL _ ob nb n _ | DGC _ ob nb n _ _ | DMS _ ob nb n _ | DMK _ ob nb n _ _ _ | DMN _ ob nb n _ _ _ _ _ | DMV _ ob nb n _ _ _ _ _ _
  | DMSK _ ob nb n _ _ _ _ _ _ _ | DMSV _ ob nb n _ _ _ _ _ _ | DMSS _ ob nb n _ _ _ _ _ | DMH _ ob nb n _ | DP1 _ ob nb n => Some (ob, nb, n)
  | _ => None
  end.

(** * Step inversion *)
Ltac step_inv H :=
  match type of H with
  | step _ ?st ?a = Some _ =>
    destruct a as [?t ?o | ?t]; cbn [step] in H; unfold g_next_slot in H;
    match type of H with
    | context [th st ?t] => destruct (th st t) eqn:?Epc; try discriminate H
    end;
    repeat match type of H with
    | (if ?c then _ else _) = Some _ => destruct c eqn:?Ec
    | (match ?o with _ => _ end) = Some _ => destruct o
    end;
    try discriminate H;
    repeat match type of H with
    | context [if ?c then _ else _] => destruct c eqn:?Ei
    end;
    inversion H; subst; clear H
  end.

Ltac st_simpl :=
  cbn [db rlock nalloc bcnt bst akey aval th g_map g_own g_frozen g_rown g_nver g_lp g_rv g_obs g_hist g_retired
       s_db s_rlock s_nalloc s_bcnt s_bst s_akey s_aval s_th s_g_map s_g_own s_g_frozen s_g_rown s_g_nver s_g_lp s_g_rv
       s_g_obs s_g_hist s_g_retired go obs obs_all lp ret bump wst own] in *.
Ltac st_simpl_goal :=
  cbn [db rlock nalloc bcnt bst akey aval th g_map g_own g_frozen g_rown g_nver g_lp g_rv g_obs g_hist g_retired
       s_db s_rlock s_nalloc s_bcnt s_bst s_akey s_aval s_th s_g_map s_g_own s_g_frozen s_g_rown s_g_nver s_g_lp s_g_rv
       s_g_obs s_g_hist s_g_retired go obs obs_all lp ret bump wst own].

Ltac st_eval x :=
  eval cbn [db rlock nalloc bcnt bst akey aval th g_map g_own g_frozen g_rown g_nver g_lp g_rv g_obs g_hist g_retired
       s_db s_rlock s_nalloc s_bcnt s_bst s_akey s_aval s_th s_g_map s_g_own s_g_frozen s_g_rown s_g_nver s_g_lp s_g_rv
       s_g_obs s_g_hist s_g_retired go obs obs_all lp ret bump wst own] in x.
Ltac b2p := VhmBase.b2p.
Ltac rsplit := repeat match goal with |- _ /\ _ => split end.

Section VhmGrowBase.
  Variable hash : N -> N.
  Notation step := (step hash).

  (** what do_grow knows about its blocks *)
  Definition pc_gw (st : state) (p : pc) : Prop :=
    match p with
    | DP2 _ ob nb => nb = db st /\ g_frozen st ob = true
    | _ => match pc_blocks p with
           | Some (ob, nb, n) => ob = db st /\ n = bcnt st ob /\ nb < nalloc st /\ nb <> ob /\ g_frozen st nb = false /\
                                 1 <= nb /\ bcnt st nb = dbl n
           | None => True
           end
    end.

  Record Lk (st : state) : Prop := mkLk {
    K_db : 1 <= db st /\ db st < nalloc st /\ 0 < bcnt st (db st) /\ g_frozen st (db st) = false;
    K_fr : forall b, g_frozen st b = true -> b < nalloc st /\ 0 < bcnt st b;
    K_lt : forall b j, bst st b j < 2 ^ 32;
    K_ic : forall b j, bs_item_count (bst st b j) <= 3;
    K_ver : forall b j, bs_version (bst st b j) = g_nver st b j mod 2 ^ 27;
    K_bit : forall b j, bs_is_locked (bst st b j) = (isS (g_own st b j) || (g_frozen st b && (j <? bcnt st b)));
    K_mk : forall b j, (forall t, g_own st b j = Some t -> pc_bst (th st t) = None) -> bs_delete_marker (bst st b j) = 0;
    K_hold : forall t b j, holds (th st t) b j -> g_own st b j = Some t;
    K_pc : forall t b j, g_own st b j = Some t -> holds (th st t) b j;
    K_cur : forall t b j, holds (th st t) b j -> b = db st /\ j < bcnt st b;
    K_bst : forall t b j w, pc_bkt (th st t) = Some (b, j) -> pc_bst (th st t) = Some w -> bst st b j = w;
    K_wf : forall t, pc_wf (th st t);
    K_ref : forall t b j k, pc_ref (th st t) = Some (b, j, k) -> (b = db st \/ g_frozen st b = true) /\ j = hash k mod bcnt st b;
    K_gw : forall t, pc_gw st (th st t);
    K_rl : rlock st = match g_rown st with Some _ => 1 | None => 0 end;
    K_rown : forall t, rs_pc (th st t) = true -> g_rown st = Some t;
    K_rpc : forall t, g_rown st = Some t -> rs_pc (th st t) = true
  }.

  Lemma Lk_init cap : 0 < cap -> Lk (init cap).
  Proof.
    intros cap_pos. constructor; cbn; try (intros; discriminate); try reflexivity; try lia; try (intros; congruence); try tauto.
  Qed.

  (** the capacity of the buckets of the new block during the migration (follows from the migration invariant,
      Proof/VhmGrowAbs.v) *)
  Definition MC (st : state) : Prop :=
    forall t c ob nb n i cn x jn ns, th st t = DMSS c ob nb n i cn x jn ns -> ns = bst st nb jn /\ bs_item_count ns < 3.

  Ltac split_t' t' :=
    intros t'; match goal with |- context [upd ?f ?t ?p t'] => destruct (VhmBase.upd_cases f t p t') as [[-> E]|[Hne E]]; rewrite E; clear E end.

  Ltac prep HI t Epc :=
    pose proof (K_wf _ HI t) as Hwf; rewrite Epc in Hwf; cbn [pc_wf] in Hwf;
    pose proof (K_gw _ HI t) as Hgw; rewrite Epc in Hgw; cbn [pc_gw pc_blocks] in Hgw;
    pose proof (K_ref _ HI t) as Href; rewrite Epc in Href; cbn [pc_ref] in Href;
    try (specialize (Href _ _ _ eq_refl)).

  Lemma Lk_step_blk st a st' es : Lk st -> step st a = Some (st', es) ->
    (1 <= db st' /\ db st' < nalloc st' /\ 0 < bcnt st' (db st') /\ g_frozen st' (db st') = false) /\
    (forall b, g_frozen st' b = true -> b < nalloc st' /\ 0 < bcnt st' b) /\
    rlock st' = match g_rown st' with Some _ => 1 | None => 0 end.
  Proof.
    intros HI H. pose proof (K_db _ HI) as Hdb. pose proof (K_fr _ HI) as Hfr. pose proof (K_rl _ HI) as Hrl.
    step_inv H; st_simpl.
    all: try (split; [exact Hdb | split; [exact Hfr | exact Hrl]]).
    all: prep HI t Epc.
    - (* GR1, free *) rsplit; auto; tauto.
    - (* GR1, taken *) rsplit; auto; try tauto. b2p. destruct (g_rown st); [reflexivity | congruence].
    - (* DG1 *) destruct Hdb as (D1 & D2 & D3 & D4). rewrite setf1_other by lia. rsplit; try assumption; try lia.
      intros b Hb. destruct (Hfr b Hb) as [F1 F2]. rewrite setf1_other by lia. split; [lia | exact F2].
    - (* DP1 *) destruct Hgw as (G1 & G2 & G3 & G4 & G5 & G6 & G7). destruct Hdb as (D1 & D2 & D3 & D4). subst ob.
      rewrite setf1_other by exact G4. unfold dbl in G7. rsplit; try assumption; try lia.
      intros b. unfold setf1. destruct (N.eqb_spec b (db st)) as [->|Hne]; [intros _; split; assumption | apply Hfr].
    - (* DP2 *) rsplit; auto; tauto.
  Qed.

  Lemma Lk_step_rs st a st' es : Lk st -> step st a = Some (st', es) ->
    (forall t', rs_pc (th st' t') = true -> g_rown st' = Some t') /\
    (forall t', g_rown st' = Some t' -> rs_pc (th st' t') = true).
  Proof.
    intros HI H. pose proof (K_rown _ HI) as Ho. pose proof (K_rpc _ HI) as Hp. pose proof (K_rl _ HI) as Hrl.
    step_inv H; st_simpl.
    all: split; split_t' t'.
    all: try exact (Ho t'); try exact (Hp t').
    all: cbn [rs_pc]; try discriminate; try (intros _; reflexivity).
    all: try (intros _; apply Ho; rewrite Epc; reflexivity).
    all: try (intros Hg; pose proof (Hp t Hg) as Hc; rewrite Epc in Hc; cbn [rs_pc] in Hc; first [discriminate Hc | exact Hc]).
    - intros Hc. apply Ho in Hc. rewrite Hc in Hrl. b2p. congruence.
    - intros _. exact Ei.
    - intros E. injection E as E. congruence.
    - congruence.
    - intros _. apply Ho. rewrite Epc. exact Ei.
    - intros Hg. apply Hp in Hg. rewrite Epc in Hg. cbn [rs_pc] in Hg. congruence.
    - intros Hc. apply Ho in Hc. assert (Ht : g_rown st = Some t) by (apply Ho; rewrite Epc; reflexivity). congruence.
  Qed.

  Lemma unlocked_free st b j : Lk st -> bs_is_locked (bst st b j) = false ->
    g_own st b j = None /\ (g_frozen st b && (j <? bcnt st b)) = false /\ bs_delete_marker (bst st b j) = 0.
  Proof.
    intros HI H. rewrite (K_bit _ HI) in H. apply orb_false_iff in H. destruct H as [H1 H2].
    assert (Ho : g_own st b j = None) by (destruct (g_own st b j); [discriminate H1 | reflexivity]).
    split; [exact Ho|]. split; [exact H2|]. apply (K_mk _ HI). intros t Ht. congruence.
  Qed.

  Lemma Lk_step_wf st a st' es : Lk st -> step st a = Some (st', es) -> forall t', pc_wf (th st' t').
  Proof.
    intros HI H. step_inv H; st_simpl.
    all: split_t' t'.
    all: try exact (K_wf _ HI t').
    all: try exact I.
    all: prep HI t Epc.
    all: pose proof (K_lt _ HI) as Hlt; pose proof (K_ic _ HI) as Hic; pose proof (K_db _ HI) as Hdb.
    all: b2p; rewrite ?VhmBase.C_bic in *.
    all: cbn [pc_wf]; unfold VhmBase.wf_s in *.
    all: repeat match goal with H : _ /\ _ |- _ => destruct H end.
    all: try (subst s; match goal with HI0 : Lk ?st0, E : bs_is_locked (bst ?st0 ?b ?j) = false |- _ => destruct (unlocked_free st0 b j HI0 E) as (Hfo & Hff & Hfm) end).
    all: try match goal with |- context [bst ?st0 ?b ?j] => pose proof (Hlt b j); pose proof (Hic b j) end.
    all: try (intuition lia).
  Qed.

  Lemma Lk_step_ref st a st' es : Lk st -> step st a = Some (st', es) ->
    forall t' b j k, pc_ref (th st' t') = Some (b, j, k) -> (b = db st' \/ g_frozen st' b = true) /\ j = hash k mod bcnt st' b.
  Proof.
    intros HI H. pose proof (K_ref _ HI) as Hr. pose proof (K_db _ HI) as Hdb. pose proof (K_fr _ HI) as Hfr.
    step_inv H; st_simpl.
    all: split_t' t'.
    all: try exact (Hr t').
    all: cbn [pc_ref]; try discriminate.
    all: try (intros b0 j0 k0 E; injection E as <- <- <-;
              first [solve [unfold bix; auto] | apply (Hr t); rewrite Epc; reflexivity]).
    - (* DG1 *) intros b j k E. destruct (Hr t' b j k E) as [H1 H2]. split; [exact H1|].
      rewrite setf1_other; [exact H2|]. destruct H1 as [->|H1]; [lia | apply Hfr in H1; lia].
    - (* DP1 *) intros b j k E. destruct (Hr t' b j k E) as [H1 H2]. split; [|exact H2].
      pose proof (K_gw _ HI t) as Hgw. rewrite Epc in Hgw. cbn [pc_gw pc_blocks] in Hgw. destruct Hgw as (G1 & _). subst ob.
      right. unfold setf1. destruct (N.eqb_spec b (db st)); [reflexivity|]. destruct H1; [contradiction | assumption].
  Qed.

  Lemma pc_gw_nonrs st p : rs_pc p = false -> pc_gw st p.
  Proof. destruct p; cbn [rs_pc pc_gw pc_blocks]; intros H; try exact I; discriminate H. Qed.

  Lemma rs_unique st t t' : Lk st -> rs_pc (th st t) = true -> rs_pc (th st t') = true -> t = t'.
  Proof. intros HI H1 H2. pose proof (K_rown _ HI _ H1). pose proof (K_rown _ HI _ H2). congruence. Qed.

  Lemma Lk_step_gw st a st' es : Lk st -> step st a = Some (st', es) -> forall t', pc_gw st' (th st' t').
  Proof.
    intros HI H. pose proof (K_gw _ HI) as Hg. pose proof (K_db _ HI) as Hdb. pose proof (K_fr _ HI) as Hfr.
    step_inv H; st_simpl.
    all: split_t' t'.
    all: try exact (Hg t').
    all: try exact I.
    all: try (pose proof (Hg t) as Hgt; rewrite Epc in Hgt; exact Hgt).
    all: try (apply pc_gw_nonrs; destruct (rs_pc (th st t')) eqn:Ers; [|reflexivity];
              exfalso; apply Hne; apply (rs_unique st); [exact HI | exact Ers | rewrite Epc; reflexivity]).
    - (* DG1 *) destruct Hdb as (D1 & D2 & D3 & D4). cbn [pc_gw pc_blocks]. st_simpl.
      rewrite setf1_same, setf1_other by lia. rsplit; try reflexivity; try lia.
      destruct (g_frozen st (nalloc st)) eqn:E; [|reflexivity]. apply Hfr in E. lia.
    - (* DP1 *) cbn [pc_gw]. st_simpl. rewrite setf1_same. split; reflexivity.
  Qed.

  (** a thread that holds one bucket lock: its block is the current one, the word is the one its pc says *)
  Lemma holder_facts st t b j w : Lk st -> pc_bkt (th st t) = Some (b, j) -> pc_bst (th st t) = Some w ->
    bst st b j = w /\ g_own st b j = Some t /\ b = db st /\ j < bcnt st b /\ g_frozen st b = false.
  Proof.
    intros HI H1 H2. assert (Hh : holds (th st t) b j) by (destruct (th st t); cbn [holds pc_bkt] in *; try discriminate H1; exact H1).
    destruct (K_cur _ HI t b j Hh) as [Hc1 Hc2]. rsplit; try assumption.
    - apply (K_bst _ HI t); assumption.
    - apply (K_hold _ HI); exact Hh.
    - subst b. apply (K_db _ HI).
  Qed.

  Lemma word0 : 0 < 2 ^ 32 /\ bs_item_count 0 = 0 /\ bs_version 0 = 0 /\ bs_is_locked 0 = false /\ bs_delete_marker 0 = 0.
  Proof. vm_compute. repeat split. Qed.

  Lemma not_frozen_fresh st b : Lk st -> nalloc st <= b -> g_frozen st b = false.
  Proof. intros HI H. destruct (g_frozen st b) eqn:E; [|reflexivity]. apply (K_fr _ HI) in E. lia. Qed.

  (** nobody holds a lock on a bucket outside the current block *)
  Lemma own_cur st t b j : Lk st -> g_own st b j = Some t -> b = db st /\ j < bcnt st b.
  Proof. intros HI H. apply (K_cur _ HI t). apply (K_pc _ HI). exact H. Qed.

  Definition word_ok (st : state) (b j : N) : Prop :=
    bst st b j < 2 ^ 32 /\ bs_item_count (bst st b j) <= 3 /\ bs_version (bst st b j) = g_nver st b j mod 2 ^ 27 /\
    bs_is_locked (bst st b j) = (isS (g_own st b j) || (g_frozen st b && (j <? bcnt st b))).

  Lemma word_ok_Lk st b j : Lk st -> word_ok st b j.
  Proof. intros HI. repeat split; [apply (K_lt _ HI) | apply (K_ic _ HI) | apply (K_ver _ HI) | apply (K_bit _ HI)]. Qed.

  Lemma Lk_step_word st a st' es : Lk st -> MC st -> step st a = Some (st', es) -> forall b0 j0, word_ok st' b0 j0.
  Proof.
    intros HI HMC H. step_inv H; st_simpl.
    all: intros b0 j0.
    all: try exact (word_ok_Lk _ b0 j0 HI).
    all: pose proof (word_ok_Lk _ b0 j0 HI) as Hw0; unfold word_ok in *; st_simpl.
    all: try match goal with |- context [setf2 _ ?b ?j _ ?b1 ?j1] =>
           destruct (N.eq_dec b1 b) as [->|Hnb]; [destruct (N.eq_dec j1 j) as [->|Hnj]|];
           [rewrite ?setf2_same | rewrite ?setf2_other by (right; exact Hnj); exact Hw0 | rewrite ?setf2_other by (left; exact Hnb); exact Hw0] end.
    all: pose proof (K_wf _ HI t) as Hwf; rewrite Epc in Hwf; cbn [pc_wf] in Hwf.
    all: try (destruct (holder_facts st t _ _ _ HI ltac:(rewrite Epc; reflexivity) ltac:(rewrite Epc; reflexivity)) as (Hb & Ho & Hcur & Hjlt & Hfz)).
    all: repeat match goal with H : _ /\ _ |- _ => destruct H end.
    all: try (b2p; subst s; match goal with HI0 : Lk ?st0, E : bs_is_locked (bst ?st0 ?b ?j) = false |- _ =>
                destruct (unlocked_free st0 b j HI0 E) as (Hfo & Hff & Hfm);
                assert (Hs : W (bst st0 b j) false (bs_item_count (bst st0 b j)) 0 (bs_version (bst st0 b j))) by (unfold VhmBase.W; auto) end).
    all: try (assert (Hs : W s false (bs_item_count s) 0 (bs_version s)) by (apply VhmBase.wf_W; assumption)).
    all: try VhmBase.Wall.
    all: unfold VhmBase.wf_s in *; repeat match goal with H : _ /\ _ |- _ => destruct H end.
    all: try match goal with Hi : ?i < bs_item_count ?s, HWl : W (bs_locked ?s) _ _ _ _ |- _ =>
           assert (HWm := VhmBase.W_mark _ _ _ _ (i + 1) HWl ltac:(lia)) end.
    all: try (unfold VhmBase.mark in Hb;
              repeat match goal with E : ?c = _ |- _ => match type of Hb with context [if c then _ else _] => rewrite E in Hb end end;
              rewrite Hb in * ).
    all: repeat match goal with H : W _ _ _ _ _ |- _ => destruct H as (? & ? & ? & ? & ?) end.
    all: try rewrite <- VhmBase.mod27_succ.
    all: rewrite ?Hfz, ?Hff, ?Ho; cbn [isS orb andb].
    all: try (repeat split; try congruence; lia).
    - (* DG1 *) destruct word0 as (Z1 & Z2 & Z3 & Z4 & Z5). destruct (N.eq_dec b0 (nalloc st)) as [->|Hne].
      + rewrite !clr2_same, Z2, Z3, Z4, (not_frozen_fresh st (nalloc st) HI) by lia. rsplit; try reflexivity; lia.
      + rewrite !clr2_other, setf1_other by exact Hne. tauto.
    - (* DMSS *) destruct (HMC _ _ _ _ _ _ _ _ _ _ Epc) as [-> Hc].
      pose proof (VhmBase.W_inc _ _ _ _ _ (VhmBase.W_ex _ H) Hc) as (W1 & W2 & W3 & W4 & W5).
      rewrite W2, W3, W5. rsplit; try assumption. lia.
    - destruct (HMC _ _ _ _ _ _ _ _ _ _ Epc) as [-> Hc].
      pose proof (VhmBase.W_inc _ _ _ _ _ (VhmBase.W_ex _ H) Hc) as (W1 & W2 & W3 & W4 & W5).
      rewrite W2, W3, W5. rsplit; try assumption. lia.
    - (* DP1 *) rsplit; try assumption. rewrite H2.
      pose proof (K_gw _ HI t) as Hgw. rewrite Epc in Hgw. cbn [pc_gw pc_blocks] in Hgw. destruct Hgw as (G1 & G2 & _).
      destruct (N.eq_dec b0 ob) as [->|Hne].
      + rewrite clr2_same, setf1_same. cbn [isS orb andb]. subst ob. rewrite (proj2 (proj2 (proj2 (K_db _ HI)))). cbn [andb]. rewrite orb_false_r.
        destruct (N.ltb_spec j0 (bcnt st (db st))) as [Hlt|Hge].
        * rewrite (K_hold _ HI t (db st) j0); [reflexivity|]. rewrite Epc. cbn [holds]. split; [reflexivity | lia].
        * destruct (g_own st (db st) j0) as [u|] eqn:Eo; [|reflexivity]. destruct (own_cur _ _ _ _ HI Eo). lia.
      + rewrite clr2_other, setf1_other by exact Hne. reflexivity.
  Qed.

  (** ** ownership of the bucket locks *)
  Definition own_ok (st : state) : Prop :=
    (forall t b j, holds (th st t) b j -> g_own st b j = Some t) /\
    (forall t b j, g_own st b j = Some t -> holds (th st t) b j) /\
    (forall t b j, holds (th st t) b j -> b = db st /\ j < bcnt st b).

  Lemma own_ok_Lk st : Lk st -> own_ok st.
  Proof. intros HI. split; [exact (K_hold _ HI) | split; [exact (K_pc _ HI) | exact (K_cur _ HI)]]. Qed.

  Lemma own_same st st' t p' : Lk st -> g_own st' = g_own st -> th st' = upd (th st) t p' -> db st' = db st -> bcnt st' = bcnt st ->
    (forall b j, holds p' b j <-> holds (th st t) b j) -> own_ok st'.
  Proof.
    intros HI Eo Et Ed Eb Hh. destruct (own_ok_Lk _ HI) as (H1 & H2 & H3). unfold own_ok. rewrite Eo, Et, Ed, Eb.
    rsplit; intros t' b j; destruct (VhmBase.upd_cases (th st) t p' t') as [[-> E]|[Hne E]]; rewrite E.
    - intros H. apply H1. apply Hh. exact H.
    - auto.
    - intros H. apply Hh. auto.
    - auto.
    - intros H. apply H3 with (t := t). apply Hh. exact H.
    - intros H. exact (H3 _ _ _ H).
  Qed.

  Lemma own_acq st st' t p' b j : Lk st -> g_own st' = setf2 (g_own st) b j (Some t) -> g_own st b j = None ->
    th st' = upd (th st) t p' -> db st' = db st -> bcnt st' = bcnt st -> b = db st -> j < bcnt st b ->
    (forall b0 j0, holds p' b0 j0 <-> holds (th st t) b0 j0 \/ (b0 = b /\ j0 = j)) -> own_ok st'.
  Proof.
    intros HI Eo Hn Et Ed Eb Hb Hj Hh. destruct (own_ok_Lk _ HI) as (H1 & H2 & H3). unfold own_ok. rewrite Eo, Et, Ed, Eb.
    rsplit; intros t' b0 j0; destruct (VhmBase.upd_cases (th st) t p' t') as [[-> E]|[Hne E]]; rewrite E; rewrite ?Hh.
    - intros [H|[-> ->]]; [|apply setf2_same]. rewrite setf2_other; [auto|].
      destruct (N.eq_dec b0 b) as [->|]; [|auto]. destruct (N.eq_dec j0 j) as [->|]; [|auto]. apply H1 in H. congruence.
    - intros H. rewrite setf2_other; [auto|].
      destruct (N.eq_dec b0 b) as [->|]; [|auto]. destruct (N.eq_dec j0 j) as [->|]; [|auto]. apply H1 in H. congruence.
    - destruct (N.eq_dec b0 b) as [->|Hnb]; [destruct (N.eq_dec j0 j) as [->|Hnj]|].
      + intros _. right. auto.
      + rewrite setf2_other by auto. intros H. left. auto.
      + rewrite setf2_other by auto. intros H. left. auto.
    - destruct (N.eq_dec b0 b) as [->|Hnb]; [destruct (N.eq_dec j0 j) as [->|Hnj]|].
      + rewrite setf2_same. intros E'. injection E' as E'. congruence.
      + rewrite setf2_other by auto. auto.
      + rewrite setf2_other by auto. auto.
    - intros [H|[-> ->]]; [exact (H3 _ _ _ H)|]. split; assumption.
    - intros H. exact (H3 _ _ _ H).
  Qed.

  Lemma own_rel st st' t p' b j : Lk st -> g_own st' = setf2 (g_own st) b j None ->
    th st' = upd (th st) t p' -> db st' = db st -> bcnt st' = bcnt st ->
    (forall b0 j0, holds (th st t) b0 j0 <-> (b0 = b /\ j0 = j)) -> (forall b0 j0, ~ holds p' b0 j0) -> own_ok st'.
  Proof.
    intros HI Eo Et Ed Eb Hh Hn. destruct (own_ok_Lk _ HI) as (H1 & H2 & H3). unfold own_ok. rewrite Eo, Et, Ed, Eb.
    assert (Hown : g_own st b j = Some t) by (apply H1; apply Hh; auto).
    rsplit; intros t' b0 j0; destruct (VhmBase.upd_cases (th st) t p' t') as [[-> E]|[Hne E]]; rewrite E.
    - intros H. exfalso. exact (Hn _ _ H).
    - intros H. rewrite setf2_other; [auto|].
      destruct (N.eq_dec b0 b) as [->|]; [|auto]. destruct (N.eq_dec j0 j) as [->|]; [|auto]. apply H1 in H. congruence.
    - destruct (N.eq_dec b0 b) as [->|Hnb]; [destruct (N.eq_dec j0 j) as [->|Hnj]|].
      + rewrite setf2_same. discriminate.
      + rewrite setf2_other by auto. intros H. apply H2 in H. apply Hh in H. tauto.
      + rewrite setf2_other by auto. intros H. apply H2 in H. apply Hh in H. tauto.
    - destruct (N.eq_dec b0 b) as [->|Hnb]; [destruct (N.eq_dec j0 j) as [->|Hnj]|].
      + rewrite setf2_same. discriminate.
      + rewrite setf2_other by auto. auto.
      + rewrite setf2_other by auto. auto.
    - intros H. exfalso. exact (Hn _ _ H).
    - intros H. exact (H3 _ _ _ H).
  Qed.

  Lemma ref_lt st t b j k : Lk st -> pc_ref (th st t) = Some (b, j, k) -> j < bcnt st b.
  Proof.
    intros HI H. destruct (K_ref _ HI t b j k H) as [H1 ->]. apply N.mod_lt.
    destruct H1 as [->|H1]; [pose proof (K_db _ HI) | apply (K_fr _ HI) in H1]; lia.
  Qed.

  (** a successful CAS on the state word of a bucket reached through data_block: the block is still current *)
  Lemma acq_facts st t b j k : Lk st -> pc_ref (th st t) = Some (b, j, k) -> bs_is_locked (bst st b j) = false ->
    g_own st b j = None /\ b = db st /\ j < bcnt st b /\ bs_delete_marker (bst st b j) = 0.
  Proof.
    intros HI H Hl. pose proof (ref_lt _ _ _ _ _ HI H) as Hlt. destruct (unlocked_free _ _ _ HI Hl) as (H1 & H2 & H3).
    rsplit; try assumption. destruct (K_ref _ HI t b j k H) as [[->|Hf] _]; [reflexivity|].
    rewrite Hf in H2. apply N.ltb_lt in Hlt. rewrite Hlt in H2. discriminate H2.
  Qed.

  Lemma Lk_step_own st a st' es : Lk st -> step st a = Some (st', es) -> own_ok st'.
  Proof.
    intros HI H. step_inv H.
    all: try solve [eapply (own_same st); [exact HI | reflexivity | reflexivity | reflexivity | reflexivity |
                      intros b0 j0; rewrite Epc; cbn [holds pc_bkt]; tauto]].
    all: try solve [eapply (own_rel st); [exact HI | reflexivity | reflexivity | reflexivity | reflexivity |
                      intros b0 j0; rewrite Epc; cbn [holds pc_bkt]; split; [intros E; injection E as <- <-; auto | intros [-> ->]; reflexivity] |
                      intros b0 j0; cbn [holds pc_bkt]; discriminate]].
    all: pose proof (K_wf _ HI t) as Hwf; rewrite Epc in Hwf; cbn [pc_wf] in Hwf.
    all: try (b2p; subst s; destruct (acq_facts st t _ _ _ HI ltac:(rewrite Epc; reflexivity) ltac:(tauto)) as (A1 & A2 & A3 & A4);
              eapply (own_acq st); [exact HI | reflexivity | exact A1 | reflexivity | reflexivity | reflexivity | exact A2 | exact A3 |
                intros b0 j0; rewrite Epc; cbn [holds pc_bkt];
                split; [intros E; injection E as <- <-; right; auto | intros [H|[-> ->]]; [discriminate | reflexivity]]]).
    all: pose proof (K_gw _ HI t) as Hgw; rewrite Epc in Hgw; cbn [pc_gw pc_blocks] in Hgw.
    all: destruct (own_ok_Lk _ HI) as (H1 & H2 & H3); pose proof (K_db _ HI) as (D1 & D2 & D3 & D4).
    - (* DG1 *) unfold own_ok. st_simpl. rsplit; intros t' b j; destruct (VhmBase.upd_cases (th st) t (DGL c (db st) (nalloc st) (bcnt st (db st)) 0) t') as [[-> E]|[Hne E]]; rewrite E.
      + cbn [holds]. lia.
      + intros H. destruct (H3 _ _ _ H) as [-> _]. rewrite clr2_other by lia. auto.
      + destruct (N.eq_dec b (nalloc st)) as [->|Hnb]; [rewrite clr2_same; discriminate|]. rewrite clr2_other by exact Hnb.
        intros H. apply H2 in H. rewrite Epc in H. cbn [holds pc_bkt] in H. discriminate H.
      + destruct (N.eq_dec b (nalloc st)) as [->|Hnb]; [rewrite clr2_same; discriminate|]. rewrite clr2_other by exact Hnb. auto.
      + cbn [holds]. lia.
      + intros H. destruct (H3 _ _ _ H) as [-> Hlt]. rewrite setf1_other by lia. auto.
    - (* DGC, last bucket *) b2p. subst s. destruct Hwf as [Hi Hl]. destruct (unlocked_free _ _ _ HI Hl) as (A1 & _). destruct Hgw as (G1 & G2 & _).
      eapply (own_acq st); [exact HI | reflexivity | exact A1 | reflexivity | reflexivity | reflexivity | exact G1 | lia |].
      intros b0 j0. rewrite Epc. cbn [holds]. lia.
    - (* DGC *) b2p. subst s. destruct Hwf as [Hi Hl]. destruct (unlocked_free _ _ _ HI Hl) as (A1 & _). destruct Hgw as (G1 & G2 & _).
      eapply (own_acq st); [exact HI | reflexivity | exact A1 | reflexivity | reflexivity | reflexivity | exact G1 | lia |].
      intros b0 j0. rewrite Epc. cbn [holds]. lia.
    - (* DP1 *) destruct Hgw as (G1 & G2 & _). subst ob n.
      assert (Hno : forall t' b j, t' <> t -> ~ holds (th st t') b j).
      { intros t' b j Hne H. destruct (H3 _ _ _ H) as [-> Hlt]. pose proof (H1 _ _ _ H) as Ho.
        assert (Ht : g_own st (db st) j = Some t) by (apply H1; rewrite Epc; cbn [holds]; split; [reflexivity | lia]). congruence. }
      unfold own_ok. st_simpl. rsplit; intros t' b j; destruct (VhmBase.upd_cases (th st) t (DP2 c (db st) nb) t') as [[-> E]|[Hne E]]; rewrite E.
      + cbn [holds pc_bkt]. discriminate.
      + intros H. exfalso. exact (Hno _ _ _ Hne H).
      + destruct (N.eq_dec b (db st)) as [->|Hnb]; [rewrite clr2_same; discriminate|]. rewrite clr2_other by exact Hnb.
        intros H. destruct (own_cur _ _ _ _ HI H). congruence.
      + destruct (N.eq_dec b (db st)) as [->|Hnb]; [rewrite clr2_same; discriminate|]. rewrite clr2_other by exact Hnb.
        intros H. destruct (own_cur _ _ _ _ HI H). congruence.
      + cbn [holds pc_bkt]. discriminate.
      + intros H. exfalso. exact (Hno _ _ _ Hne H).
  Qed.

  Lemma other_bkt st t' b0 j0 b j : Lk st -> pc_bkt (th st t') = Some (b0, j0) -> g_own st b j <> Some t' -> b0 <> b \/ j0 <> j.
  Proof.
    intros HI H Hn. assert (Hh : holds (th st t') b0 j0) by (destruct (th st t'); cbn [holds pc_bkt] in *; try discriminate H; exact H).
    apply (K_hold _ HI) in Hh. destruct (N.eq_dec b0 b) as [->|]; [|auto]. destruct (N.eq_dec j0 j) as [->|]; [|auto]. contradiction.
  Qed.

  Lemma Lk_step_bst st a st' es : Lk st -> step st a = Some (st', es) ->
    forall t' b0 j0 w, pc_bkt (th st' t') = Some (b0, j0) -> pc_bst (th st' t') = Some w -> bst st' b0 j0 = w.
  Proof.
    intros HI H. step_inv H; st_simpl.
    all: split_t' t'.
    all: try exact (K_bst _ HI t').
    all: cbn [pc_bkt pc_bst]; try discriminate.
    all: try (intros b0 j0 w E1 E2; injection E1 as <- <-; injection E2 as <-;
              first [ apply setf2_same
                    | apply (K_bst _ HI t); rewrite Epc; reflexivity ]).
    all: pose proof (K_wf _ HI t) as Hwf; rewrite Epc in Hwf; cbn [pc_wf] in Hwf.
    all: try (destruct (holder_facts st t _ _ _ HI ltac:(rewrite Epc; reflexivity) ltac:(rewrite Epc; reflexivity)) as (Hb & Ho & Hcur & Hjlt & Hfz)).
    all: try (intros b0 j0 w E1 E2; rewrite setf2_other; [exact (K_bst _ HI t' _ _ _ E1 E2)|];
              apply (other_bkt st t' b0 j0 _ _ HI E1); rewrite Ho; congruence).
    all: try (intros b0 j0 w E1 E2; rewrite setf2_other; [exact (K_bst _ HI t' _ _ _ E1 E2)|]; b2p; subst s;
              match goal with HI0 : Lk ?st0, E : context [bs_is_locked (bst ?st0 ?b ?j) = false] |- _ =>
                destruct (unlocked_free st0 b j HI0 ltac:(tauto)) as (Hfo & _) end;
              apply (other_bkt st t' b0 j0 _ _ HI E1); rewrite Hfo; discriminate).
    all: pose proof (K_gw _ HI t) as Hgw; rewrite Epc in Hgw; cbn [pc_gw pc_blocks] in Hgw.
    all: pose proof (K_db _ HI) as (D1 & D2 & D3 & D4).
    - (* DG1 *) intros b0 j0 w E1 E2. rewrite clr2_other; [exact (K_bst _ HI t' _ _ _ E1 E2)|].
      assert (Hh : holds (th st t') b0 j0) by (destruct (th st t'); cbn [holds pc_bkt] in *; try discriminate E1; exact E1).
      destruct (K_cur _ HI _ _ _ Hh). lia.
    - (* DMSS *) intros b0 j0 w E1 E2. rewrite setf2_other; [exact (K_bst _ HI t' _ _ _ E1 E2)|].
      assert (Hh : holds (th st t') b0 j0) by (destruct (th st t'); cbn [holds pc_bkt] in *; try discriminate E1; exact E1).
      destruct (K_cur _ HI _ _ _ Hh). left. intuition congruence.
    - intros b0 j0 w E1 E2. rewrite setf2_other; [exact (K_bst _ HI t' _ _ _ E1 E2)|].
      assert (Hh : holds (th st t') b0 j0) by (destruct (th st t'); cbn [holds pc_bkt] in *; try discriminate E1; exact E1).
      destruct (K_cur _ HI _ _ _ Hh). left. intuition congruence.
    - (* XH -> XB6 *) intros b0 j0 w E1 E2. injection E1 as <- <-. injection E2 as <-. b2p. rewrite Hb.
      destruct (N.eqb_spec i (bs_item_count s - 1)); [reflexivity | contradiction].
    - (* XB5 -> XB6 *) intros b0 j0 w E1 E2. injection E1 as <- <-. injection E2 as <-. rewrite Hb.
      destruct (N.eqb_spec i (bs_item_count s - 1)); [tauto | reflexivity].
  Qed.

  Definition mk_ok (st : state) (b j : N) : Prop :=
    (forall u, g_own st b j = Some u -> pc_bst (th st u) = None) -> bs_delete_marker (bst st b j) = 0.

  Lemma mk_keep st st' t p' b0 j0 : Lk st -> bst st' b0 j0 = bst st b0 j0 -> g_own st' b0 j0 = g_own st b0 j0 ->
    th st' = upd (th st) t p' -> (g_own st b0 j0 = Some t -> pc_bst p' = None -> pc_bst (th st t) = None) -> mk_ok st' b0 j0.
  Proof.
    intros HI Eb Eo Et Hp Hprem. rewrite Eb. apply (K_mk _ HI). intros u Hu. rewrite Eo, Et in Hprem. specialize (Hprem u Hu).
    destruct (VhmBase.upd_cases (th st) t p' u) as [[-> E]|[Hne E]]; rewrite E in Hprem; auto.
  Qed.

  Lemma Lk_step_mk st a st' es : Lk st -> MC st -> step st a = Some (st', es) -> forall b0 j0, mk_ok st' b0 j0.
  Proof.
    intros HI HMC H. step_inv H.
    all: intros b0 j0.
    all: try solve [eapply (mk_keep st); [exact HI | reflexivity | reflexivity | reflexivity |
                      intros _; rewrite Epc; cbn [pc_bst]; intros E; first [reflexivity | discriminate E]]].
    all: pose proof (K_wf _ HI t) as Hwf; rewrite Epc in Hwf; cbn [pc_wf] in Hwf.
    all: pose proof (K_gw _ HI t) as Hgw; rewrite Epc in Hgw; cbn [pc_gw pc_blocks] in Hgw.
    all: try (destruct (holder_facts st t _ _ _ HI ltac:(rewrite Epc; reflexivity) ltac:(rewrite Epc; reflexivity)) as (Hb & Ho & Hcur & Hjlt & Hfz)).
    (* a different bucket *)
    all: try match goal with |- mk_ok ?s1 ?b1 ?j1 =>
           let x := st_eval (bst s1 b1 j1) in
           match x with setf2 _ ?b ?j _ _ _ =>
             destruct (N.eq_dec b1 b) as [->|Hnb]; [destruct (N.eq_dec j1 j) as [->|Hnj]|];
             [ | eapply (mk_keep st); [exact HI | st_simpl_goal; apply setf2_other; auto | st_simpl_goal; first [reflexivity | apply setf2_other; auto] | reflexivity |
                   rewrite Epc; cbn [pc_bst]; intros Hg E; first [reflexivity | discriminate E |
                     apply (K_pc _ HI) in Hg; rewrite Epc in Hg; cbn [holds pc_bkt] in Hg; injection Hg; intros; congruence]]
               | eapply (mk_keep st); [exact HI | st_simpl_goal; apply setf2_other; auto | st_simpl_goal; first [reflexivity | apply setf2_other; auto] | reflexivity |
                   rewrite Epc; cbn [pc_bst]; intros Hg E; first [reflexivity | discriminate E |
                     apply (K_pc _ HI) in Hg; rewrite Epc in Hg; cbn [holds pc_bkt] in Hg; injection Hg; intros; congruence]] ]
           end end.
    all: unfold mk_ok; st_simpl; rewrite ?setf2_same.
    all: try solve [intros Hp; first [specialize (Hp t eq_refl) | specialize (Hp t Ho)]; rewrite upd_same in Hp; discriminate Hp].
    all: try solve [intros _; unfold VhmBase.wf_s in *; repeat match goal with H : _ /\ _ |- _ => destruct H end;
                    assert (Hs : W s false (bs_item_count s) 0 (bs_version s)) by (unfold VhmBase.W; auto);
                    VhmBase.Wall; repeat match goal with H : W _ _ _ _ _ |- _ => destruct H as (? & ? & ? & ? & ?) end; assumption].
    all: try solve [intros _; b2p; subst s; destruct Hwf as [Hi Hl]; destruct (unlocked_free _ _ _ HI Hl) as (_ & _ & Hm);
                    rewrite bs_locked_delete_marker; exact Hm].
    - (* DG1 *) intros Hp. destruct (N.eq_dec b0 (nalloc st)) as [->|Hne].
      + rewrite clr2_same. apply word0.
      + rewrite clr2_other in * by exact Hne. apply (K_mk _ HI). intros u Hu. specialize (Hp u). rewrite clr2_other in Hp by exact Hne. specialize (Hp Hu).
        destruct (VhmBase.upd_cases (th st) t (DGL c (db st) (nalloc st) (bcnt st (db st)) 0) u) as [[-> E]|[Hn E]]; rewrite E in Hp; [rewrite Epc; reflexivity | exact Hp].
    - (* DMSS *) intros Hp. destruct (HMC _ _ _ _ _ _ _ _ _ _ Epc) as [-> Hc].
      pose proof (VhmBase.W_inc _ _ _ _ _ (VhmBase.W_ex _ (K_lt _ HI nb jn)) Hc) as (W1 & W2 & W3 & W4 & W5). rewrite W4.
      apply (K_mk _ HI). intros u Hu. specialize (Hp u Hu).
      destruct (VhmBase.upd_cases (th st) t (DMH c ob nb n i) u) as [[-> E]|[Hn E]]; rewrite E in Hp; [rewrite Epc; reflexivity | exact Hp].
    - intros Hp. destruct (HMC _ _ _ _ _ _ _ _ _ _ Epc) as [-> Hc].
      pose proof (VhmBase.W_inc _ _ _ _ _ (VhmBase.W_ex _ (K_lt _ HI nb jn)) Hc) as (W1 & W2 & W3 & W4 & W5). rewrite W4.
      apply (K_mk _ HI). intros u Hu. specialize (Hp u Hu).
      destruct (VhmBase.upd_cases (th st) t (DMK c ob nb n i cn (x + 1)) u) as [[-> E]|[Hn E]]; rewrite E in Hp; [rewrite Epc; reflexivity | exact Hp].
    - (* DP1 *) intros Hp. apply (K_mk _ HI). intros u Hu. destruct (N.eq_dec b0 ob) as [->|Hne].
      + destruct Hgw as (G1 & G2 & _). destruct (own_cur _ _ _ _ HI Hu) as [_ Hlt].
        assert (Ht : g_own st ob j0 = Some t) by (apply (K_hold _ HI); rewrite Epc; cbn [holds]; split; [reflexivity | lia]).
        assert (u = t) by congruence. subst u. rewrite Epc. reflexivity.
      + specialize (Hp u). rewrite clr2_other in Hp by exact Hne. specialize (Hp Hu).
        destruct (VhmBase.upd_cases (th st) t (DP2 c ob nb) u) as [[-> E]|[Hn E]]; rewrite E in Hp; [rewrite Epc; reflexivity | exact Hp].
  Qed.

  Lemma Lk_step st a st' es : Lk st -> MC st -> step st a = Some (st', es) -> Lk st'.
  Proof.
    intros HI HMC H. destruct (Lk_step_blk _ _ _ _ HI H) as (B1 & B2 & B3). destruct (Lk_step_rs _ _ _ _ HI H) as (R1 & R2).
    destruct (Lk_step_own _ _ _ _ HI H) as (O1 & O2 & O3). pose proof (Lk_step_word _ _ _ _ HI HMC H) as Hw.
    constructor; try assumption.
    - intros b j. apply Hw.
    - intros b j. apply Hw.
    - intros b j. apply Hw.
    - intros b j. apply Hw.
    - exact (Lk_step_mk _ _ _ _ HI HMC H).
    - exact (Lk_step_bst _ _ _ _ HI H).
    - exact (Lk_step_wf _ _ _ _ HI H).
    - exact (Lk_step_ref _ _ _ _ HI H).
    - exact (Lk_step_gw _ _ _ _ HI H).
  Qed.

  Theorem Lk_step_all st a st' es : Lk st -> MC st -> step st a = Some (st', es) -> Lk st'.
  Proof. exact (Lk_step st a st' es). Qed.

  (** ** who writes where: a step changes (the word and the slots of) a bucket only if the stepping thread holds its
      lock before or after the step, or the bucket belongs to the block do_grow is filling / has just allocated *)
  Definition same_bkt (st st' : state) (b j : N) : Prop :=
    bst st' b j = bst st b j /\ (forall i, akey st' b j i = akey st b j i /\ aval st' b j i = aval st b j i) /\
    g_nver st' b j = g_nver st b j.

  Lemma step_frame st a st' es : Lk st -> step st a = Some (st', es) -> forall b j,
    same_bkt st st' b j \/
    (exists t, a = Step t /\ (g_own st b j = Some t \/ g_own st' b j = Some t)) \/
    (exists t ob n, a = Step t /\ pc_blocks (th st t) = Some (ob, b, n)) \/
    (exists t c, a = Step t /\ th st t = DG1 c /\ b = nalloc st).
  Proof.
    intros HI H. step_inv H; st_simpl.
    all: intros b0 j0; unfold same_bkt; st_simpl.
    all: try (left; split; [reflexivity | split; [intros; split; reflexivity | reflexivity]]).
    all: try (destruct (holder_facts st t _ _ _ HI ltac:(rewrite Epc; reflexivity) ltac:(rewrite Epc; reflexivity)) as (Hb & Ho & Hcur & Hjlt & Hfz)).
    all: try match goal with |- context [setf2 _ ?b ?j _ ?b1 ?j1] =>
           destruct (N.eq_dec b1 b) as [->|Hnb]; [destruct (N.eq_dec j1 j) as [->|Hnj]|];
           [ | left; rewrite ?setf2_other by auto; split; [reflexivity | split; [intros; split; reflexivity | reflexivity]]
             | left; rewrite ?setf2_other by auto; split; [reflexivity | split; [intros; split; reflexivity | reflexivity]] ] end.
    all: try match goal with |- context [setf3 _ ?b ?j _ _ ?b1 ?j1] =>
           destruct (N.eq_dec b1 b) as [->|Hnb]; [destruct (N.eq_dec j1 j) as [->|Hnj]|];
           [ | left; split; [reflexivity | split; [intros; rewrite ?setf3_other by auto; split; reflexivity | reflexivity]]
             | left; split; [reflexivity | split; [intros; rewrite ?setf3_other by auto; split; reflexivity | reflexivity]] ] end.
    all: try solve [right; left; exists t; split; [reflexivity | left; exact Ho]].
    all: try solve [right; left; exists t; split; [reflexivity | right; st_simpl_goal; apply setf2_same]].
    all: try solve [right; right; left; eexists t, _, _; split; [reflexivity | rewrite Epc; reflexivity]].
    - (* DG1 *) destruct (N.eq_dec b0 (nalloc st)) as [->|Hne].
      + right. right. right. exists t, c. auto.
      + left. rewrite !clr2_other by exact Hne. split; [reflexivity | split; [intros; rewrite !clr3_other by exact Hne; split; reflexivity | reflexivity]].
  Qed.
End VhmGrowBase.
