(** Ramalhete queue model: second invariant layer - tickets.  Every ticket (node n, k < E) has a fate;
    it belongs to at most one pusher and at most one popper; the entry [slot (S*k)] of the node is
    null / the value / taken according to the fate. *)
From Coq Require Import NArith List Bool Lia PeanoNat.
From XV Require Import Base.Word Conc.Lts Conc.Ev gen.RamalheteNodeGen Proof.RamalheteNode Model.RamDefs Proof.RamBase.
Import ListNotations.
Local Open Scope N_scope.

(** generic: an [option]-valued tag of the program counters that is unique among the threads *)
Lemma uniq_upd {X : Type} (g : pc -> option X) f t p :
  (forall t1 t2 x, g (f t1) = Some x -> g (f t2) = Some x -> t1 = t2) ->
  (g p = None \/ g p = g (f t) \/ (forall x, g p = Some x -> forall t', g (f t') <> Some x)) ->
  forall t1 t2 x, g (upd f t p t1) = Some x -> g (upd f t p t2) = Some x -> t1 = t2.
Proof.
  intros HU Hp a b n Ha Hb.
  destruct (Nat.eq_dec a t) as [->|Ha']; destruct (Nat.eq_dec b t) as [->|Hb']; [reflexivity| | |].
  - rewrite upd_same in Ha. rewrite upd_other in Hb by exact Hb'.
    destruct Hp as [Hp|[Hp|Hp]]; [congruence| |exfalso; exact (Hp n Ha b Hb)].
    rewrite Hp in Ha. exfalso. apply Hb'. exact (HU _ _ _ Hb Ha).
  - rewrite upd_same in Hb. rewrite upd_other in Ha by exact Ha'.
    destruct Hp as [Hp|[Hp|Hp]]; [congruence| |exfalso; exact (Hp n Hb a Ha)].
    rewrite Hp in Hb. exfalso. apply Ha'. exact (HU _ _ _ Ha Hb).
  - rewrite upd_other in Ha by assumption. rewrite upd_other in Hb by assumption. exact (HU _ _ _ Ha Hb).
Qed.

Lemma own_upd (Q : pc -> Prop) f t p :
  (exists t0, Q (f t0)) -> (Q (f t) -> Q p) -> exists t0, Q (upd f t p t0).
Proof.
  intros [t0 H0] Hp. destruct (Nat.eq_dec t0 t) as [->|Hne].
  - exists t. rewrite upd_same. apply Hp. exact H0.
  - exists t0. rewrite upd_other by exact Hne. exact H0.
Qed.

Section LayerB.
  Variables E R : N.
  Hypothesis HE : 1 <= E.
  Hypothesis HM : C_step_size E * E < 2 ^ 32.
  Notation S := (SS E).
  Notation tk := (tick_of E).
  Notation al := (aligned E).
  Notation pa := (pa E).
  Notation pd := (pd E).
  Notation InvA := (InvA E).
  Local Notation tick_mono := (tick_mono E HE HM).
  Local Notation aligned_step := (aligned_step E HE HM).
  Local Notation aligned_0 := (aligned_0 E HE HM).
  Local Notation aligned_SS := (aligned_SS E HE HM).
  Local Notation tick_0 := (tick_0 E HE HM).
  Local Notation tick_SS := (tick_SS E HE HM).
  Local Notation tick_mul := (tick_mul E HE HM).
  Local Notation maxi_le := (maxi_le E HE HM).
  Local Notation slot_inj := (slot_inj E HE HM).
  Local Notation slot_nz := (slot_nz E HE HM).
  Local Notation slot_lt := (slot_lt E HE HM).
  Local Notation slot_0 := (slot_0 E HE HM).
  Local Notation old_in_nodes := (old_in_nodes E HE HM).
  Local Notation tick_step_le := (tick_step_le E HE HM).

  (** the ticket (node, counter value) a pusher / a popper is working on *)
  Definition ptk (p : pc) : option (N * N) := match p with P8 _ n idx => Some (n, idx) | _ => None end.
  Definition dtk (p : pc) : option (N * N) := match p with D9 h idx _ | D11 h idx => Some (h, idx) | _ => None end.
  (** the ticket a popper holds, including the final re-read (D10) *)
  Definition dtk2 (p : pc) : option (N * N) := match p with D9 h idx _ | D10 h idx _ | D11 h idx => Some (h, idx) | _ => None end.
  Definition pown (n k : N) (p : pc) : Prop := ptk p = Some (n, S * k).
  Definition down (n k : N) (p : pc) : Prop := dtk p = Some (n, S * k).
  Definition powner (st : state) (n k : N) : Prop := exists t, pown n k (th st t).
  Definition downer (st : state) (n k : N) : Prop := exists t, down n k (th st t).

  Definition TK (st : state) (n k : N) : Prop :=
    let i := slot_of E (S * k) in
    match g_fate st n k with
    | FNone => ent st n i = CNull /\ (k < pa st n -> powner st n k) /\ (k < pd st n -> downer st n k)
    | FFilled b => ent st n i = CVal b /\ k < pa st n /\ (k < pd st n -> downer st n k)
    | FPoisoned => ent st n i = CTaken /\ k < pd st n
    | FConsumed b => (ent st n i = CVal b \/ ent st n i = CTaken) /\ k < pa st n /\ k < pd st n
    end.

  Definition TB (st : state) (p : pc) : Prop :=
    match p with
    | P8 _ t idx => idx = S * tk idx /\ tk idx < E /\ tk idx < pa st t
    | D9 h idx _ | D11 h idx => idx = S * tk idx /\ tk idx < E /\ tk idx < pd st h /\
                    (g_fate st h (tk idx) = FNone \/ exists b, g_fate st h (tk idx) = FFilled b)
    | D10 h idx b => idx = S * tk idx /\ tk idx < E /\ g_fate st h (tk idx) = FConsumed b
    | D3 h p => p <= popi st h
    | P5 _ _ n _ | P6 _ _ n => forall k, g_fate st n k = FNone
    | _ => True
    end.

  Record InvB (st : state) : Prop := mkInvB {
    b_tk : forall n k, In n (g_nodes st) -> k < E -> TK st n k;
    b_thr : forall t, TB st (th st t);
    b_up : forall t1 t2 x, ptk (th st t1) = Some x -> ptk (th st t2) = Some x -> t1 = t2;
    b_ud : forall t1 t2 x, dtk2 (th st t1) = Some x -> dtk2 (th st t2) = Some x -> t1 = t2
  }.

  (** frame rule for a ticket that the step does not touch *)
  Lemma TK_frame st st' n k :
    g_fate st' n k = g_fate st n k ->
    ent st' n (slot_of E (S * k)) = ent st n (slot_of E (S * k)) ->
    pa st n <= pa st' n -> pd st n <= pd st' n ->
    (k < pa st' n -> k < pa st n \/ powner st' n k) ->
    (k < pd st' n -> k < pd st n \/ downer st' n k) ->
    (g_fate st n k = FNone -> powner st n k -> powner st' n k) ->
    (downer st n k -> downer st' n k) ->
    TK st n k -> TK st' n k.
  Proof using HE HM.
    intros Hf He Hpa Hpd Hpo Hdo Hop Hod H. unfold TK in *. rewrite Hf, He.
    destruct (g_fate st n k) eqn:Ef.
    - destruct H as (H1 & H2 & H3). split; [exact H1|]. split.
      + intros Hk. destruct (Hpo Hk) as [Hk'|Hk']; [apply Hop; [reflexivity|apply H2; exact Hk']|exact Hk'].
      + intros Hk. destruct (Hdo Hk) as [Hk'|Hk']; [apply Hod; apply H3; exact Hk'|exact Hk'].
    - destruct H as (H1 & H2 & H3). split; [exact H1|]. split; [lia|].
      intros Hk. destruct (Hdo Hk) as [Hk'|Hk']; [apply Hod; apply H3; exact Hk'|exact Hk'].
    - destruct H as (H1 & H2). split; [exact H1|lia].
    - destruct H as (H1 & H2 & H3). split; [exact H1|]. split; lia.
  Qed.

  Lemma TB_frame st st' q :
    (forall n, In n (g_nodes st) -> pa st n <= pa st' n /\ pd st n <= pd st' n /\ popi st n <= popi st' n) ->
    (forall n idx, dtk q = Some (n, idx) ->
       g_fate st' n (tk idx) = g_fate st n (tk idx) \/
       (g_fate st n (tk idx) = FNone /\ exists b, g_fate st' n (tk idx) = FFilled b)) ->
    (forall n k b, In n (g_nodes st) -> g_fate st n k = FConsumed b -> g_fate st' n k = FConsumed b) ->
    (forall n, priv q = Some n -> forall k, g_fate st' n k = g_fate st n k) ->
    (forall h, in_old st h -> In h (g_nodes st)) ->
    TA E st q -> TB st q -> TB st' q.
  Proof using HE HM.
    intros Hc Hd Hcons Hp Hio Ha H. destruct q; cbn [TB TA dtk priv] in *; try exact I.
    - intros k. rewrite (Hp n eq_refl). apply H.
    - intros k. rewrite (Hp n eq_refl). apply H.
    - destruct H as (H1 & H2 & H3). specialize (Hc _ Ha). repeat split; try assumption; lia.
    - specialize (Hc _ (Hio _ Ha)). lia.
    - destruct H as (H1 & H2 & H3 & H4). specialize (Hc _ Ha). repeat split; try assumption; try lia.
      destruct (Hd h idx eq_refl) as [->|(Hn & b & ->)]; [exact H4|]. right. exists b. reflexivity.
    - destruct H as (H1 & H2 & H3). repeat split; try assumption. apply Hcons; assumption.
    - destruct H as (H1 & H2 & H3 & H4). specialize (Hc _ Ha). repeat split; try assumption; try lia.
      destruct (Hd h idx eq_refl) as [->|(Hn & b & ->)]; [exact H4|]. right. exists b. reflexivity.
  Qed.

  Ltac hb := repeat match goal with
    | H : (_ =? _) = true |- _ => apply N.eqb_eq in H
    | H : (_ =? _) = false |- _ => apply N.eqb_neq in H
    | H : (_ <? _) = true |- _ => apply N.ltb_lt in H
    | H : (_ <? _) = false |- _ => apply N.ltb_ge in H
    end.
  Ltac eqbs := repeat match goal with |- context [?a =? ?b] => destruct (N.eqb_spec a b); subst end.

  Ltac own_p := unfold powner; prj; intros ? Ho; apply own_upd; [exact Ho|];
    match goal with Hpc : th _ _ = _ |- _ => rewrite Hpc end; unfold pown; cbn [ptk]; try (intros Hq; discriminate Hq).
  Ltac own_d := unfold downer; prj; intros Ho; apply own_upd; [exact Ho|];
    match goal with Hpc : th _ _ = _ |- _ => rewrite Hpc end; unfold down; cbn [dtk]; try (intros Hq; first [discriminate Hq | exact Hq]).

  (* a step that only moves the program counter of t: the ticket is untouched *)
  Ltac tk_go Htk :=
    let n0 := fresh "n0" in let k0 := fresh "k0" in let Hn0 := fresh "Hn0" in let Hk0 := fresh "Hk0" in
    intros n0 k0 Hn0 Hk0; refine (TK_frame _ _ n0 k0 _ _ _ _ _ _ _ _ (Htk n0 k0 Hn0 Hk0)); prj;
    [ reflexivity | reflexivity | apply N.le_refl | apply N.le_refl | (intros; left; assumption) | (intros; left; assumption)
    | own_p | own_d ].

  (* the other threads: fates untouched *)
  Ltac tb_other HA Hthr t' :=
    refine (TB_frame _ _ _ _ _ _ _ (fun h => old_in_nodes _ h (a_head _ _ HA)) (a_thr _ _ HA t') (Hthr t')); prj;
    [ let n0 := fresh "n0" in let Hn0 := fresh "Hn0" in
      intros n0 Hn0; pose proof (a_lt _ _ HA n0 Hn0); unfold RamBase.pa, RamBase.pd; prj; unfold setf; eqbs;
      repeat split; first [apply N.le_refl | apply tick_step_le | lia | tauto]
    | try (intros; left; reflexivity) | try (intros; assumption) | try (intros; reflexivity) ].

  Lemma ent_null_fate st n k : TK st n k -> ent st n (slot_of E (S * k)) = CNull -> g_fate st n k = FNone.
  Proof using HE HM.
    unfold TK. destruct (g_fate st n k); intros H He; try reflexivity; rewrite He in H;
      try (destruct H as [H _]; discriminate H). destruct H as [[H|H] _]; discriminate H.
  Qed.

  (** a step of thread t that leaves the counters alone and does not touch ticket (n0,k0) *)
  Lemma TK_other st st' t p n0 k0 :
    TK st n0 k0 ->
    g_fate st' n0 k0 = g_fate st n0 k0 ->
    ent st' n0 (slot_of E (S * k0)) = ent st n0 (slot_of E (S * k0)) ->
    pushi st' = pushi st -> popi st' = popi st -> th st' = upd (th st) t p ->
    (g_fate st n0 k0 = FNone -> pown n0 k0 (th st t) -> pown n0 k0 p) ->
    (down n0 k0 (th st t) -> down n0 k0 p) ->
    TK st' n0 k0.
  Proof using HE HM.
    intros H Hf He Hpu Hpo Hth Hp Hd.
    refine (TK_frame st st' n0 k0 Hf He _ _ _ _ _ _ H); unfold RamBase.pa, RamBase.pd; rewrite ?Hpu, ?Hpo.
    - apply N.le_refl.
    - apply N.le_refl.
    - intros; left; assumption.
    - intros; left; assumption.
    - intros Hfn Ho. unfold powner in *. rewrite Hth. apply own_upd; [exact Ho|]. apply Hp. exact Hfn.
    - intros Ho. unfold downer in *. rewrite Hth. apply own_upd; [exact Ho|]. exact Hd.
  Qed.

  Lemma tick_inj_al x k : x = S * tk x -> x = S * k -> tk x = k.
  Proof using HE HM. intros H1 H2. rewrite H2. apply tick_mul. Qed.

  Lemma InvB_step s a s' es :
    InvA s -> InvA s' -> InvB s -> step E R s a = Some (s', es) -> g_ovf s' = false -> InvB s'.
  Proof using HE HM.
    intros HA HA' HB H. step_cases H t.
    all: intros Hov; pose proof HB as [Htk Hthr Hup Hud]; pose proof (Hthr t) as Ht; pose proof (a_thr _ _ HA t) as Hta;
      match goal with Hpc0 : th _ _ = _ |- _ => rename Hpc0 into Hpc; rewrite Hpc in Ht, Hta; cbn [TB TA] in Ht, Hta; unfold fresh_node in Hta end.
    all: hb.
    all: prj_in Hov; try (apply orb_false_ovf in Hov; destruct Hov as [Hov Hw]; rewrite Hw in * ).
    all: constructor; prj.
    all: try (apply uniq_upd; [assumption|];
              match goal with Hpc : th _ _ = _ |- _ => rewrite Hpc; cbn [ptk dtk2]; first [left; reflexivity | right; left; reflexivity] end).
    all: try (apply threads_upd; [intros t' Hne; first [exact (Hthr t') | solve [tb_other HA Hthr t'] | idtac] | cbn [TB]; prj; try exact I; try assumption; try tauto]).
    all: try solve [tk_go Htk].
    - (* P2 -> P3 *) intros n0 k0 Hn0 Hk0. pose proof (a_al _ _ HA t0 Hta) as [A1 _].
      match goal with Hb : (MAXI E <=? _) = true |- _ => rewrite maxi_le in Hb by exact A1; apply N.leb_le in Hb end.
      refine (TK_frame _ _ n0 k0 _ _ _ _ _ _ _ _ (Htk n0 k0 Hn0 Hk0)); prj;
      [ reflexivity | reflexivity | | apply N.le_refl | | (intros; left; assumption) | own_p | own_d ].
      + unfold RamBase.pa; prj. unfold setf. destruct (N.eqb_spec n0 t0) as [->|Hd0]; [apply tick_step_le|apply N.le_refl].
      + unfold RamBase.pa; prj. unfold setf. destruct (N.eqb_spec n0 t0) as [->|Hd0]; intros Hk; left; [lia|exact Hk].
    - (* P2 -> P8 *) intros n0 k0 Hn0 Hk0. pose proof (a_al _ _ HA t0 Hta) as [A1 _].
      destruct (aligned_step _ A1) as [_ Hts].
      refine (TK_frame _ _ n0 k0 _ _ _ _ _ _ _ _ (Htk n0 k0 Hn0 Hk0)); prj;
      [ reflexivity | reflexivity | | apply N.le_refl | | (intros; left; assumption) | own_p | own_d ].
      + unfold RamBase.pa; prj. unfold setf. destruct (N.eqb_spec n0 t0) as [->|Hd0]; [apply tick_step_le|apply N.le_refl].
      + unfold RamBase.pa; prj. unfold setf. destruct (N.eqb_spec n0 t0) as [->|Hd0]; intros Hk; [|left; exact Hk].
        rewrite Hts in Hk. destruct (N.eq_dec k0 (tk (pushi s t0))) as [->|Hd]; [right|left; lia].
        exists t. unfold pown. prj. rewrite upd_same. cbn [ptk]. unfold aligned in A1. rewrite <- A1. reflexivity.
    - pose proof (a_al _ _ HA t0 Hta) as [A1 _]. destruct (aligned_step _ A1) as [_ Hts].
      match goal with Hb : (MAXI E <=? _) = false |- _ => rewrite maxi_le in Hb by exact A1; apply N.leb_gt in Hb;
        split; [exact A1|]; split; [exact Hb|] end. unfold RamBase.pa; prj. rewrite setf_same. lia.
    - apply uniq_upd; [exact Hup|]. right; right. cbn [ptk]. intros x Hx t' Hc. inversion Hx; subst.
      pose proof (Hthr t') as Ht'. destruct (th s t'); cbn [ptk] in Hc; try discriminate. inversion Hc; subst.
      cbn [TB] in Ht'. destruct Ht' as (_ & _ & Hlt'). unfold RamBase.pa in Hlt'. lia.
    - (* P4 alloc *) intros n0 k0 Hn0 Hk0. pose proof (a_lt _ _ HA n0 Hn0) as Hl. assert (Hd : n0 <> nalloc s) by lia.
      refine (TK_frame _ _ n0 k0 _ _ _ _ _ _ _ _ (Htk n0 k0 Hn0 Hk0)); prj;
      [ | reflexivity | | | | | own_p | own_d ].
      + destruct (N.eqb_spec n0 (nalloc s)); [contradiction|reflexivity].
      + unfold RamBase.pa; prj. rewrite setf_other by exact Hd. apply N.le_refl.
      + unfold RamBase.pd; prj. rewrite setf_other by exact Hd. apply N.le_refl.
      + unfold RamBase.pa; prj. rewrite setf_other by exact Hd. intros; left; assumption.
      + unfold RamBase.pd; prj. rewrite setf_other by exact Hd. intros; left; assumption.
    - refine (TB_frame _ _ _ _ _ _ _ (fun h => old_in_nodes _ h (a_head _ _ HA)) (a_thr _ _ HA t') (Hthr t')); prj.
      + intros n0 Hn0. pose proof (a_lt _ _ HA n0 Hn0). unfold RamBase.pa, RamBase.pd; prj. rewrite !setf_other by lia.
        repeat split; apply N.le_refl.
      + intros n0 idx0 Hq. left. pose proof (a_thr _ _ HA t') as Ha'. destruct (th s t'); cbn [dtk] in Hq; try discriminate; inversion Hq; subst;
        cbn [TA] in Ha'; pose proof (a_lt _ _ HA _ Ha'); destruct (N.eqb_spec n0 (nalloc s)); try lia; reflexivity.
      + intros n0 k0 b0 Hn0 Hf. pose proof (a_lt _ _ HA n0 Hn0). destruct (N.eqb_spec n0 (nalloc s)); [lia|exact Hf].
      + intros n0 Hq k0. pose proof (priv_fresh E HE HM s t' n0 (a_thr _ _ HA t') Hq) as (_ & Hl & _).
        destruct (N.eqb_spec n0 (nalloc s)); [lia|reflexivity].
    - intros k. rewrite N.eqb_refl. reflexivity.
    - intros n0 k0 Hn0 Hk0. assert (Hd : n0 <> n) by (intros ->; tauto).
      refine (TK_frame _ _ n0 k0 _ _ _ _ _ _ _ _ (Htk n0 k0 Hn0 Hk0)); prj;
      [ reflexivity | apply setf2_other_n; exact Hd | apply N.le_refl | apply N.le_refl | (intros; left; assumption) | (intros; left; assumption) | own_p | own_d ].
    - intros n0 k0 Hn0 Hk0. assert (Hd : n0 <> n) by (intros ->; tauto).
      refine (TK_frame _ _ n0 k0 _ _ _ _ _ _ _ _ (Htk n0 k0 Hn0 Hk0)); prj;
      [ reflexivity | apply setf2_other_n; exact Hd | apply N.le_refl | apply N.le_refl | (intros; left; assumption) | (intros; left; assumption) | own_p | own_d ].
    - intros n0 k0 Hn0 Hk0. assert (Hd : n0 <> n) by (intros ->; tauto).
      refine (TK_frame _ _ n0 k0 _ _ _ _ _ _ _ _ (Htk n0 k0 Hn0 Hk0)); prj;
      [ reflexivity | apply setf2_other_n; exact Hd | apply N.le_refl | apply N.le_refl | (intros; left; assumption) | (intros; left; assumption) | own_p | own_d ].
    - intros n0 k0 Hn0 Hk0. assert (Hd : n0 <> n) by (intros ->; tauto).
      refine (TK_frame _ _ n0 k0 _ _ _ _ _ _ _ _ (Htk n0 k0 Hn0 Hk0)); prj;
      [ reflexivity | apply setf2_other_n; exact Hd | apply N.le_refl | apply N.le_refl | (intros; left; assumption) | (intros; left; assumption) | own_p | own_d ].
    - (* P6 link *) destruct Hta as (H1 & H2 & H3 & (H4 & H4' & H4'') & H5 & H6 & H7 & H8).
      intros n0 k0 Hn0 Hk0. apply in_app_or in Hn0. destruct Hn0 as [Hn0|[<-|[]]].
      + assert (Hd : n0 <> n) by (intros ->; contradiction).
        refine (TK_frame _ _ n0 k0 _ _ _ _ _ _ _ _ (Htk n0 k0 Hn0 Hk0)); prj;
        [ apply setf2_other_n; exact Hd | reflexivity | apply N.le_refl | apply N.le_refl | (intros; left; assumption) | (intros; left; assumption) | own_p | own_d ].
      + unfold TK; prj. unfold RamBase.pa, RamBase.pd; prj. rewrite H5, H6, tick_SS, tick_0.
        destruct (N.eq_dec k0 0) as [->|Hk].
        * rewrite setf2_same. rewrite N.mul_0_r, slot_0. rewrite (H8 0) by lia. split; [reflexivity|]. split; [lia|]. intros Hc; lia.
        * rewrite setf2_other by (right; exact Hk). rewrite Ht. rewrite H8 by apply slot_lt.
          unfold ctor_ent. destruct (N.eqb_spec (slot_of E (S * k0)) 0) as [Hz|Hz]; [exfalso; exact (slot_nz k0 Hk0 Hk Hz)|].
          split; [reflexivity|]. split; intros Hc; lia.
    - destruct Hta as (H1 & H2 & H3 & (H4 & H4' & H4'') & H5 & H6 & H7 & H8).
      refine (TB_frame _ _ _ _ _ _ _ (fun h => old_in_nodes _ h (a_head _ _ HA)) (a_thr _ _ HA t') (Hthr t')); prj.
      + intros n0 Hn0. unfold RamBase.pa, RamBase.pd; prj. repeat split; apply N.le_refl.
      + intros n0 idx0 Hq. left. pose proof (a_thr _ _ HA t') as Ha'. destruct (th s t'); cbn [dtk] in Hq; try discriminate; inversion Hq; subst;
        cbn [TA] in Ha'; apply setf2_other_n; intros ->; contradiction.
      + intros n0 k0 b0 Hn0 Hf. rewrite setf2_other_n by (intros ->; contradiction). exact Hf.
      + intros n0 Hq k0. apply setf2_other_n. intros ->. apply Hne. apply (a_priv _ _ HA t' t n Hq).
        match goal with Hpc : th _ _ = _ |- _ => rewrite Hpc end. reflexivity.
    - (* P6a *) intros n0 k0 Hn0 Hk0. assert (Hd : n0 <> n) by (intros ->; tauto).
      refine (TK_frame _ _ n0 k0 _ _ _ _ _ _ _ _ (Htk n0 k0 Hn0 Hk0)); prj;
      [ reflexivity | reflexivity | | apply N.le_refl | | (intros; left; assumption) | own_p | own_d ].
      + unfold RamBase.pa; prj. rewrite setf_other by exact Hd. apply N.le_refl.
      + unfold RamBase.pa; prj. rewrite setf_other by exact Hd. intros; left; assumption.
    - (* P8 success: TK *)
      destruct Ht as (Hal1 & HkE & Hkp).
      assert (Hf1 : g_fate s t0 (tk idx) = FNone).
      { apply ent_null_fate; [apply Htk; assumption|]. rewrite <- Hal1. assumption. }
      intros n0 k0 Hn0 Hk0.
      destruct (N.eq_dec n0 t0) as [->|Hdn]; [destruct (N.eq_dec k0 (tk idx)) as [->|Hdk]|].
      + pose proof (Htk t0 (tk idx) Hn0 Hk0) as Ho. unfold TK in Ho |- *; prj. rewrite Hf1 in Ho. rewrite setf2_same.
        rewrite <- Hal1. rewrite setf2_same. destruct Ho as (_ & _ & Hd). split; [reflexivity|]. split; [exact Hkp|].
        intros Hk. specialize (Hd Hk). revert Hd. own_d.
      + (* same node, other ticket *)
        eapply (TK_other s _ t _ t0 k0 (Htk t0 k0 Hn0 Hk0)); prj;
        [ apply setf2_other; right; exact Hdk
        | apply setf2_other; right; rewrite Hal1; intros Hc; apply slot_inj in Hc; [|assumption|assumption]; exact (Hdk Hc)
        | reflexivity | reflexivity | reflexivity
        | intros _; rewrite Hpc; unfold pown; cbn [ptk]; intros Hq; inversion Hq as [Hq']; try (exfalso; apply Hdk; symmetry; apply (tick_inj_al idx k0 Hal1 Hq'))
        | rewrite Hpc; unfold down; cbn [dtk]; intros Hq; inversion Hq as [Hq']; try (exfalso; apply Hdk; symmetry; apply (tick_inj_al idx k0 Hal1 Hq')) ].
      + (* other node *)
        eapply (TK_other s _ t _ n0 k0 (Htk n0 k0 Hn0 Hk0)); prj;
        [ apply setf2_other_n; exact Hdn
        | apply setf2_other_n; exact Hdn
        | reflexivity | reflexivity | reflexivity
        | intros _; rewrite Hpc; unfold pown; cbn [ptk]; intros Hq; inversion Hq; try congruence
        | rewrite Hpc; unfold down; cbn [dtk]; intros Hq; inversion Hq; try congruence ].
    - (* P8 success: other threads *)
      destruct Ht as (Hal1 & HkE & Hkp).
      assert (Hf1 : g_fate s t0 (tk idx) = FNone).
      { apply ent_null_fate; [apply Htk; assumption|]. rewrite <- Hal1. assumption. }
      refine (TB_frame _ _ _ _ _ _ _ (fun h => old_in_nodes _ h (a_head _ _ HA)) (a_thr _ _ HA t') (Hthr t')); prj.
      + intros n0 Hn0. unfold RamBase.pa, RamBase.pd; prj. repeat split; apply N.le_refl.
      + intros n0 idx0 Hq. unfold setf2, setf.
        destruct (N.eqb_spec n0 t0) as [->|Hdn]; [|left; reflexivity].
        destruct (N.eqb_spec (tk idx0) (tk idx)) as [He|Hdk]; [|left; reflexivity].
        right. rewrite He. split; [exact Hf1|]. eexists; reflexivity.
      + intros n0 k0 b0 Hn0 Hf. unfold setf2, setf.
        destruct (N.eqb_spec n0 t0) as [->|Hdn]; [|exact Hf].
        destruct (N.eqb_spec k0 (tk idx)) as [->|Hdk]; [congruence|exact Hf].
      + intros n0 Hq k0. apply setf2_other_n. intros ->.
        pose proof (priv_fresh E HE HM s t' t0 (a_thr _ _ HA t') Hq) as (_ & _ & Hc). contradiction.
    - (* P8 lost (value) *)
      destruct Ht as (Hal1 & HkE & Hkp). intros n0 k0 Hn0 Hk0.
      eapply (TK_other s _ t _ n0 k0 (Htk n0 k0 Hn0 Hk0)); prj;
      [ reflexivity | reflexivity | reflexivity | reflexivity | reflexivity | | rewrite Hpc; unfold down; cbn [dtk]; intros Hq; discriminate Hq ].
      intros Hfn. rewrite Hpc. unfold pown; cbn [ptk]. intros Hq; inversion Hq as [[Hq1 Hq2]].
      exfalso. subst n0. pose proof (Htk t0 k0 Hn0 Hk0) as Ho. unfold TK in Ho. rewrite Hfn in Ho. destruct Ho as [Ho _].
      rewrite <- Hq2 in Ho. congruence.
    - (* P8 lost (taken) *)
      destruct Ht as (Hal1 & HkE & Hkp). intros n0 k0 Hn0 Hk0.
      eapply (TK_other s _ t _ n0 k0 (Htk n0 k0 Hn0 Hk0)); prj;
      [ reflexivity | reflexivity | reflexivity | reflexivity | reflexivity | | rewrite Hpc; unfold down; cbn [dtk]; intros Hq; discriminate Hq ].
      intros Hfn. rewrite Hpc. unfold pown; cbn [ptk]. intros Hq; inversion Hq as [[Hq1 Hq2]].
      exfalso. subst n0. pose proof (Htk t0 k0 Hn0 Hk0) as Ho. unfold TK in Ho. rewrite Hfn in Ho. destruct Ho as [Ho _].
      rewrite <- Hq2 in Ho. congruence.
    - (* D2 *) apply N.le_refl.
    - (* D5 -> D6 *) intros n0 k0 Hn0 Hk0. pose proof (old_in_nodes _ h (a_head _ _ HA) Hta) as Hin.
      pose proof (a_al _ _ HA h Hin) as [_ A1].
      match goal with Hb : (MAXI E <=? _) = true |- _ => rewrite maxi_le in Hb by exact A1; apply N.leb_le in Hb end.
      refine (TK_frame _ _ n0 k0 _ _ _ _ _ _ _ _ (Htk n0 k0 Hn0 Hk0)); prj;
      [ reflexivity | reflexivity | apply N.le_refl | | (intros; left; assumption) | | own_p | own_d ].
      + unfold RamBase.pd; prj. unfold setf. destruct (N.eqb_spec n0 h) as [->|Hd0]; [apply tick_step_le|apply N.le_refl].
      + unfold RamBase.pd; prj. unfold setf. destruct (N.eqb_spec n0 h) as [->|Hd0]; intros Hk; left; [lia|exact Hk].
    - (* D5 -> D9 *) intros n0 k0 Hn0 Hk0. pose proof (old_in_nodes _ h (a_head _ _ HA) Hta) as Hin.
      pose proof (a_al _ _ HA h Hin) as [_ A1]. destruct (aligned_step _ A1) as [_ Hts].
      refine (TK_frame _ _ n0 k0 _ _ _ _ _ _ _ _ (Htk n0 k0 Hn0 Hk0)); prj;
      [ reflexivity | reflexivity | apply N.le_refl | | (intros; left; assumption) | | own_p | own_d ].
      + unfold RamBase.pd; prj. unfold setf. destruct (N.eqb_spec n0 h) as [->|Hd0]; [apply tick_step_le|apply N.le_refl].
      + unfold RamBase.pd; prj. unfold setf. destruct (N.eqb_spec n0 h) as [->|Hd0]; intros Hk; [|left; exact Hk].
        rewrite Hts in Hk. destruct (N.eq_dec k0 (tk (popi s h))) as [->|Hd]; [right|left; lia].
        exists t. unfold down. prj. rewrite upd_same. cbn [dtk]. unfold aligned in A1. rewrite <- A1. reflexivity.
    - pose proof (old_in_nodes _ h (a_head _ _ HA) Hta) as Hin.
      pose proof (a_al _ _ HA h Hin) as [_ A1]. destruct (aligned_step _ A1) as [_ Hts].
      match goal with Hb : (MAXI E <=? _) = false |- _ => rewrite maxi_le in Hb by exact A1; apply N.leb_gt in Hb;
        split; [exact A1|]; split; [exact Hb|]; pose proof (Htk h _ Hin Hb) as Ho end.
      split; [unfold RamBase.pd; prj; rewrite setf_same; lia|].
      unfold TK, RamBase.pd in Ho. destruct (g_fate s h (tk (popi s h))) eqn:Ef.
      + left; reflexivity.
      + right; eexists; reflexivity.
      + destruct Ho as (_ & Ho). lia.
      + destruct Ho as (_ & _ & Ho). lia.
    - apply uniq_upd; [exact Hud|]. right; right. cbn [dtk2]. intros x Hx t' Hc. inversion Hx; subst.
      pose proof (old_in_nodes _ h (a_head _ _ HA) Hta) as Hin.
      pose proof (Hthr t') as Ht'. destruct (th s t'); cbn [dtk2] in Hc; try discriminate; inversion Hc; subst;
      cbn [TB] in Ht'.
      + destruct Ht' as (_ & _ & Hlt' & _); unfold RamBase.pd in Hlt'; lia.
      + destruct Ht' as (_ & HkE' & Hf'). pose proof (Htk h _ Hin HkE') as Ho. unfold TK in Ho. rewrite Hf' in Ho.
        destruct Ho as (_ & _ & Ho). unfold RamBase.pd in Ho. lia.
      + destruct Ht' as (_ & _ & Hlt' & _); unfold RamBase.pd in Hlt'; lia.
    - (* D9 sees a value: TK *)
      destruct Ht as (Hal1 & HkE & Hkp & Hfa).
      pose proof (Htk h (tk idx) Hta HkE) as Ho. unfold TK in Ho. rewrite <- Hal1 in Ho.
      assert (Hf1 : g_fate s h (tk idx) = FFilled b).
      { destruct Hfa as [Hfa|[b' Hfa]]; rewrite Hfa in Ho; destruct Ho as [Ho _]; congruence. }
      rewrite Hf1 in Ho. destruct Ho as (Ho1 & Ho2 & Ho3).
      intros n0 k0 Hn0 Hk0.
      destruct (N.eq_dec n0 h) as [->|Hdn]; [destruct (N.eq_dec k0 (tk idx)) as [->|Hdk]|].
      + unfold TK; prj. rewrite setf2_same. rewrite <- Hal1. split; [left; exact Ho1|]. split; assumption.
      + (* same node, other ticket *)
        eapply (TK_other s _ t _ h k0 (Htk h k0 Hn0 Hk0)); prj;
        [ apply setf2_other; right; exact Hdk
        | reflexivity
        | reflexivity | reflexivity | reflexivity
        | intros _; rewrite Hpc; unfold pown; cbn [ptk]; intros Hq; inversion Hq as [Hq']; try (exfalso; apply Hdk; symmetry; apply (tick_inj_al idx k0 Hal1 Hq'))
        | rewrite Hpc; unfold down; cbn [dtk]; intros Hq; inversion Hq as [Hq']; try (exfalso; apply Hdk; symmetry; apply (tick_inj_al idx k0 Hal1 Hq')) ].
      + (* other node *)
        eapply (TK_other s _ t _ n0 k0 (Htk n0 k0 Hn0 Hk0)); prj;
        [ apply setf2_other_n; exact Hdn
        | reflexivity
        | reflexivity | reflexivity | reflexivity
        | intros _; rewrite Hpc; unfold pown; cbn [ptk]; intros Hq; inversion Hq; try congruence
        | rewrite Hpc; unfold down; cbn [dtk]; intros Hq; inversion Hq; try congruence ].
    - (* D9 sees a value: other threads *)
      destruct Ht as (Hal1 & HkE & Hkp & Hfa).
      pose proof (Htk h (tk idx) Hta HkE) as Ho. unfold TK in Ho. rewrite <- Hal1 in Ho.
      assert (Hf1 : g_fate s h (tk idx) = FFilled b).
      { destruct Hfa as [Hfa|[b' Hfa]]; rewrite Hfa in Ho; destruct Ho as [Ho _]; congruence. }
      refine (TB_frame _ _ _ _ _ _ _ (fun h => old_in_nodes _ h (a_head _ _ HA)) (a_thr _ _ HA t') (Hthr t')); prj.
      + intros n0 Hn0. unfold RamBase.pa, RamBase.pd; prj. repeat split; apply N.le_refl.
      + intros n0 idx0 Hq. left. apply setf2_other.
        destruct (N.eq_dec n0 h) as [->|Hdn]; [|left; exact Hdn]. right. intros He.
        pose proof (Hthr t') as Ht'. destruct (th s t') eqn:Et'; cbn [dtk] in Hq; try discriminate Hq; inversion Hq; subst; cbn [TB] in Ht';
          destruct Ht' as (Hal2 & _); apply Hne; apply (Hud t' t (h, idx)); rewrite ?Et', ?Hpc; cbn [dtk2];
          (replace idx with idx0 by (rewrite Hal2, Hal1, He; reflexivity)); reflexivity.
      + intros n0 k0 b0 Hn0 Hf. unfold setf2, setf.
        destruct (N.eqb_spec n0 h) as [->|Hdn]; [|exact Hf].
        destruct (N.eqb_spec k0 (tk idx)) as [->|Hdk]; [|exact Hf]. exfalso. congruence.
      + intros n0 Hq k0. apply setf2_other_n. intros ->.
        pose proof (priv_fresh E HE HM s t' h (a_thr _ _ HA t') Hq) as (_ & _ & Hc). contradiction.
    - (* D10 facts *) destruct Ht as (Hal1 & HkE & Hkp & Hfa). split; [exact Hal1|]. split; [exact HkE|]. apply setf2_same.
    - (* D9 sees taken: impossible *)
      exfalso. destruct Ht as (Hal1 & HkE & Hkp & Hfa).
      pose proof (Htk h (tk idx) Hta HkE) as Ho. unfold TK in Ho. rewrite <- Hal1 in Ho.
      destruct Hfa as [Hfa|[b' Hfa]]; rewrite Hfa in Ho; destruct Ho as [Ho _]; congruence.
    - (* D11 null: TK *)
      destruct Ht as (Hal1 & HkE & Hkp & Hfa).
      pose proof (Htk h (tk idx) Hta HkE) as Ho. unfold TK in Ho. rewrite <- Hal1 in Ho.
      assert (Hf1 : g_fate s h (tk idx) = FNone).
      { destruct Hfa as [Hfa|[b' Hfa]]; [exact Hfa|]. rewrite Hfa in Ho; destruct Ho as [Ho _]; congruence. }
      intros n0 k0 Hn0 Hk0.
      destruct (N.eq_dec n0 h) as [->|Hdn]; [destruct (N.eq_dec k0 (tk idx)) as [->|Hdk]|].
      + unfold TK; prj. rewrite setf2_same. rewrite <- Hal1. rewrite setf2_same. split; [reflexivity|exact Hkp].
      + (* same node, other ticket *)
        eapply (TK_other s _ t _ h k0 (Htk h k0 Hn0 Hk0)); prj;
        [ apply setf2_other; right; exact Hdk
        | apply setf2_other; right; rewrite Hal1; intros Hc; apply slot_inj in Hc; [|assumption|assumption]; exact (Hdk Hc)
        | reflexivity | reflexivity | reflexivity
        | intros _; rewrite Hpc; unfold pown; cbn [ptk]; intros Hq; inversion Hq as [Hq']; try (exfalso; apply Hdk; symmetry; apply (tick_inj_al idx k0 Hal1 Hq'))
        | rewrite Hpc; unfold down; cbn [dtk]; intros Hq; inversion Hq as [Hq']; try (exfalso; apply Hdk; symmetry; apply (tick_inj_al idx k0 Hal1 Hq')) ].
      + (* other node *)
        eapply (TK_other s _ t _ n0 k0 (Htk n0 k0 Hn0 Hk0)); prj;
        [ apply setf2_other_n; exact Hdn
        | apply setf2_other_n; exact Hdn
        | reflexivity | reflexivity | reflexivity
        | intros _; rewrite Hpc; unfold pown; cbn [ptk]; intros Hq; inversion Hq; try congruence
        | rewrite Hpc; unfold down; cbn [dtk]; intros Hq; inversion Hq; try congruence ].
    - (* D11 null: other threads *)
      destruct Ht as (Hal1 & HkE & Hkp & Hfa).
      pose proof (Htk h (tk idx) Hta HkE) as Ho. unfold TK in Ho. rewrite <- Hal1 in Ho.
      assert (Hf1 : g_fate s h (tk idx) = FNone).
      { destruct Hfa as [Hfa|[b' Hfa]]; [exact Hfa|]. rewrite Hfa in Ho; destruct Ho as [Ho _]; congruence. }
      refine (TB_frame _ _ _ _ _ _ _ (fun h => old_in_nodes _ h (a_head _ _ HA)) (a_thr _ _ HA t') (Hthr t')); prj.
      + intros n0 Hn0. unfold RamBase.pa, RamBase.pd; prj. repeat split; apply N.le_refl.
      + intros n0 idx0 Hq. left. apply setf2_other.
        destruct (N.eq_dec n0 h) as [->|Hdn]; [|left; exact Hdn]. right. intros He.
        pose proof (Hthr t') as Ht'. destruct (th s t') eqn:Et'; cbn [dtk] in Hq; try discriminate Hq; inversion Hq; subst; cbn [TB] in Ht';
          destruct Ht' as (Hal2 & _); apply Hne; apply (Hud t' t (h, idx)); rewrite ?Et', ?Hpc; cbn [dtk2];
          (replace idx with idx0 by (rewrite Hal2, Hal1, He; reflexivity)); reflexivity.
      + intros n0 k0 b0 Hn0 Hf. unfold setf2, setf.
        destruct (N.eqb_spec n0 h) as [->|Hdn]; [|exact Hf].
        destruct (N.eqb_spec k0 (tk idx)) as [->|Hdk]; [|exact Hf]. exfalso. congruence.
      + intros n0 Hq k0. apply setf2_other_n. intros ->.
        pose proof (priv_fresh E HE HM s t' h (a_thr _ _ HA t') Hq) as (_ & _ & Hc). contradiction.
    - (* D11 value: TK *)
      destruct Ht as (Hal1 & HkE & Hkp & Hfa).
      pose proof (Htk h (tk idx) Hta HkE) as Ho. unfold TK in Ho. rewrite <- Hal1 in Ho.
      assert (Hf1 : g_fate s h (tk idx) = FFilled b).
      { destruct Hfa as [Hfa|[b' Hfa]]; rewrite Hfa in Ho; destruct Ho as [Ho _]; congruence. }
      rewrite Hf1 in Ho. destruct Ho as (Ho1 & Ho2 & Ho3).
      intros n0 k0 Hn0 Hk0.
      destruct (N.eq_dec n0 h) as [->|Hdn]; [destruct (N.eq_dec k0 (tk idx)) as [->|Hdk]|].
      + unfold TK; prj. rewrite setf2_same. rewrite <- Hal1. rewrite setf2_same. split; [right; reflexivity|]. split; assumption.
      + (* same node, other ticket *)
        eapply (TK_other s _ t _ h k0 (Htk h k0 Hn0 Hk0)); prj;
        [ apply setf2_other; right; exact Hdk
        | apply setf2_other; right; rewrite Hal1; intros Hc; apply slot_inj in Hc; [|assumption|assumption]; exact (Hdk Hc)
        | reflexivity | reflexivity | reflexivity
        | intros _; rewrite Hpc; unfold pown; cbn [ptk]; intros Hq; inversion Hq as [Hq']; try (exfalso; apply Hdk; symmetry; apply (tick_inj_al idx k0 Hal1 Hq'))
        | rewrite Hpc; unfold down; cbn [dtk]; intros Hq; inversion Hq as [Hq']; try (exfalso; apply Hdk; symmetry; apply (tick_inj_al idx k0 Hal1 Hq')) ].
      + (* other node *)
        eapply (TK_other s _ t _ n0 k0 (Htk n0 k0 Hn0 Hk0)); prj;
        [ apply setf2_other_n; exact Hdn
        | apply setf2_other_n; exact Hdn
        | reflexivity | reflexivity | reflexivity
        | intros _; rewrite Hpc; unfold pown; cbn [ptk]; intros Hq; inversion Hq; try congruence
        | rewrite Hpc; unfold down; cbn [dtk]; intros Hq; inversion Hq; try congruence ].
    - (* D11 value: other threads *)
      destruct Ht as (Hal1 & HkE & Hkp & Hfa).
      pose proof (Htk h (tk idx) Hta HkE) as Ho. unfold TK in Ho. rewrite <- Hal1 in Ho.
      assert (Hf1 : g_fate s h (tk idx) = FFilled b).
      { destruct Hfa as [Hfa|[b' Hfa]]; rewrite Hfa in Ho; destruct Ho as [Ho _]; congruence. }
      refine (TB_frame _ _ _ _ _ _ _ (fun h => old_in_nodes _ h (a_head _ _ HA)) (a_thr _ _ HA t') (Hthr t')); prj.
      + intros n0 Hn0. unfold RamBase.pa, RamBase.pd; prj. repeat split; apply N.le_refl.
      + intros n0 idx0 Hq. left. apply setf2_other.
        destruct (N.eq_dec n0 h) as [->|Hdn]; [|left; exact Hdn]. right. intros He.
        pose proof (Hthr t') as Ht'. destruct (th s t') eqn:Et'; cbn [dtk] in Hq; try discriminate Hq; inversion Hq; subst; cbn [TB] in Ht';
          destruct Ht' as (Hal2 & _); apply Hne; apply (Hud t' t (h, idx)); rewrite ?Et', ?Hpc; cbn [dtk2];
          (replace idx with idx0 by (rewrite Hal2, Hal1, He; reflexivity)); reflexivity.
      + intros n0 k0 b0 Hn0 Hf. unfold setf2, setf.
        destruct (N.eqb_spec n0 h) as [->|Hdn]; [|exact Hf].
        destruct (N.eqb_spec k0 (tk idx)) as [->|Hdk]; [|exact Hf]. exfalso. congruence.
      + intros n0 Hq k0. apply setf2_other_n. intros ->.
        pose proof (priv_fresh E HE HM s t' h (a_thr _ _ HA t') Hq) as (_ & _ & Hc). contradiction.
    - (* D11 sees taken: impossible *)
      exfalso. destruct Ht as (Hal1 & HkE & Hkp & Hfa).
      pose proof (Htk h (tk idx) Hta HkE) as Ho. unfold TK in Ho. rewrite <- Hal1 in Ho.
      destruct Hfa as [Hfa|[b' Hfa]]; rewrite Hfa in Ho; destruct Ho as [Ho _]; congruence.
  Qed.

  Lemma InvB_init : InvB init.
  Proof using HE HM.
    constructor; cbn [init head tail popi pushi ent nnext nalloc tokv th g_pushed g_popped g_fate g_nodes g_retired g_ptk g_dtk g_ovf].
    - intros n k _ _. unfold TK, RamBase.pa, RamBase.pd; cbn [init g_fate ent pushi popi]. rewrite tick_0.
      split; [reflexivity|]. split; intros Hc; lia.
    - intros t. exact I.
    - intros t1 t2 x Hc. discriminate Hc.
    - intros t1 t2 x Hc. discriminate Hc.
  Qed.

  Theorem InvB_reach s : reach init (step E R) s -> g_ovf s = false -> InvB s.
  Proof using HE HM.
    intros Hr. induction Hr as [|s a s' es Hr IH Hst]; intros Hov.
    - exact InvB_init.
    - pose proof (ovf_sticky _ _ _ _ _ _ Hst Hov) as Hov0.
      eapply InvB_step; [apply (InvA_reach E R HE HM); [exact Hr|exact Hov0] | apply (InvA_reach E R HE HM); [eapply reach_step; eauto|exact Hov]
                        | apply IH; exact Hov0 | exact Hst | exact Hov].
  Qed.
End LayerB.
