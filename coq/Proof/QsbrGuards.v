(** Guards of the quiescent state based reclamation model (Model/QsbrDefs.v), the core of C01:
    [guard_ok]  a node held by a guard_ptr of thread u (a persistent guard of the client or the guard of the running
                repl / clear) is still published in its cell, or unlinked but not yet retired, or it was retired while
                the global epoch was g with  local_epoch(u) <= g  (u entered its region no later than epoch g);
    [guard_not_freed]  hence (with [P1]: the global epoch is at most one ahead of every registered thread, and [G0]:
                a node retired at g is freed only when the global epoch is >= g + 2) a guarded node is not freed;
    [uaf_reach] no dereference ever hits a destroyed node.  No axioms. *)
From Coq Require Import NArith ZArith List Bool Arith Lia PeanoNat Setoid.
From XV Require Import Conc.Lts Conc.Ev Model.QsbrDefs Proof.QsbrBase Proof.QsbrEpoch Proof.QsbrNodes Proof.QsbrTags.
Import ListNotations.
Local Open Scope N_scope.

(** * Guards *)
Definition holds (s : state) (u : nat) (n : N) : Prop :=
  (exists sl, gs (tl s u) sl = Some n) \/ tmpg (th s u) = Some n.

Definition guard_ok (s : state) (u : nat) (n : N) : Prop :=
  (exists c, g_life s n = LPub c) \/ (exists t', g_life s n = LUnl t') \/
  (exists t' r g b, g_life s n = LRet t' r g /\ cb (tl s u) = Some b /\ g_lepc s b <= g).

(** a thread that holds a guard is inside a region: it owns a control block and has published its epoch *)
Lemma holds_shape ns p x n : tshape ns p x -> ((exists sl, gs x sl = Some n) \/ tmpg p = Some n) ->
  cb x <> None /\ (1 <= nest x)%nat /\ in_cphase p = false /\ in_qphase p = false /\ in_xphase p = false /\ synced p = true.
Proof.
  intros T Hh.
  assert (H1 : (1 <= nest x)%nat).
  { pose proof (ts_cnt _ _ _ T) as Hn. destruct Hh as [(sl & Hs)|Hp].
    - assert (Hlt : (sl < ns)%nat). { destruct (le_lt_dec ns sl) as [Hle|]; [|assumption]. rewrite (ts_hi _ _ _ T sl Hle) in Hs. discriminate. }
      pose proof (cnt_pos _ _ _ _ Hs Hlt). lia.
    - destruct p; cbn in Hp; try discriminate; [destruct g; [|discriminate]|]; cbn in Hn; lia. }
  assert (Hcb : cb x <> None). { intros E. destruct (ts_fresh _ _ _ T E) as [E0 _]. lia. }
  assert (Hc : in_cphase p = false). { destruct (in_cphase p) eqn:E; [|reflexivity]. pose proof (ts_c _ _ _ T E). lia. }
  assert (Hq : in_qphase p = false). { destruct (in_qphase p) eqn:E; [|reflexivity]. pose proof (ts_q _ _ _ T E). lia. }
  assert (Hx : in_xphase p = false). { destruct (in_xphase p) eqn:E; [|reflexivity]. pose proof (ts_x _ _ _ T E). lia. }
  repeat split; try assumption. destruct p; cbn in Hc |- *; try reflexivity; discriminate.
Qed.

Lemma guard_not_freed ns s u n : T0 ns s -> O0 s -> EI s -> N0 s -> G0 s -> guard_ok s u n -> holds s u n ->
  g_where s n <> PFreed /\ g_nfree s n = O /\ g_life s n <> LDropped.
Proof.
  intros T O (_ & P & _) I G Hg Hh.
  destruct (holds_shape _ _ _ _ (T u) Hh) as (_ & _ & _ & _ & _ & Hsy).
  pose proof (n_where s I n) as W.
  destruct Hg as [(c & L)|[(t' & L)|(t' & r & g & b & L & C & B)]].
  - destruct (wh_not_ret _ _ _ W) as [W1 W2]; [rewrite L; reflexivity|]. rewrite W1, L. repeat split; [discriminate|exact W2|discriminate].
  - destruct (wh_not_ret _ _ _ W) as [W1 W2]; [rewrite L; reflexivity|]. rewrite W1, L. repeat split; [discriminate|exact W2|discriminate].
  - assert (Hw : g_where s n <> PFreed).
    { intros Wf. pose proof (g_freed s G n Wf) as Hf. rewrite L in Hf. cbn in Hf.
      destruct (P u b C) as (P1' & _). destruct (P1' Hsy) as (A1 & A2 & _). lia. }
    split; [exact Hw|]. split; [|rewrite L; discriminate].
    rewrite L in W. destruct (g_where s n); cbn in W; first [congruence | destruct W as [W _]; discriminate W | destruct W as [_ W]; exact W].
Qed.

Ltac gfn := cbn [tmpg fresh_of unl_of].
Ltac gfn_in H := cbn [tmpg fresh_of unl_of] in H.

Lemma GI_step ns s t s' es : T0 ns s -> O0 s -> EI s -> N0 s -> (forall u n, holds s u n -> guard_ok s u n) ->
  step ns s (Step t) = Some (s', es) -> forall u n, holds s' u n -> guard_ok s' u n.
Proof.
  intros T O (_ & P & _) I G H.
  destruct (step_frame _ _ _ _ _ H) as (Fth & Fb & _ & _ & Fg).
  pose proof (T t) as Tt. pose proof (P t) as Pt. unfold P1 in Pt.
  unfold_step H. cbv zeta in H. step_split H.
  all: bool_eqs; prj; rewrite ?upd_same; prj; prj_hyps; rewrite ?upd_same in *; prj_hyps.
  all: try match goal with E : th _ _ = _ |- _ => try rewrite E in Tt; try rewrite E in Pt end.
  all: intros u nn Hh; unfold holds, guard_ok in *; prj; prj_in Hh.
  all: destruct (Nat.eq_dec u t) as [->|Hne]; [assert (Self : True) by exact Logic.I; rewrite ?upd_same in *; prj; prj_hyps; gfn_in Hh | rewrite ?upd_other in * by exact Hne].
  all: destruct I as [Ilt Icell If1 If2 Iu1 Iu2 Iwh Ilist Iab Ihand Iin Iinlt Indl Inda Indi Irl3 Iotgt Ixd Ice].
  all: match goal with E : th ?s ?t = _ |- _ => pose proof (If1 t) as If1t; pose proof (Iu1 t) as Iu1t; rewrite E in If1t, Iu1t; nfn_in If1t; nfn_in Iu1t end.
  (* another thread: its guards, its control block and its local epoch are untouched *)
  all: try solve [match goal with Self : True |- _ => fail 1 | _ => idtac end; nfacts;
    destruct (G u nn Hh) as [(c0 & L)|[(tq & L)|(tq & rq & gq & bq & L & C & B)]];
    [ split_updN_all; first [ left; exists c0; first [assumption | congruence] | right; left; eexists; reflexivity | congruence ]
    | (* R4: the unlinked node is retired *)
      destruct (holds_shape _ _ _ _ (T u) Hh) as (Hcb & _ & _ & _ & _ & Hsy);
      destruct (cb (tl s u)) as [bu|] eqn:Ebu; [|congruence];
      destruct (P u bu Ebu) as (PL & _); destruct (PL Hsy) as (PL1 & _);
      split_updN_all; first [ right; left; exists tq; first [assumption | congruence] | congruence
                            | right; right; eexists _, _, _, bu; repeat split; first [reflexivity | lia] ]
    | right; right; exists tq, rq, gq, bq; destruct (o_own s O u bq C) as [Ho _];
      destruct (Fb bq (owner_untouched _ _ _ _ O Ho Hne)) as (_ & _ & El & _); prj_in El; try rewrite El;
      repeat split; first [assumption | split_updN_all; first [assumption | congruence]] ]].
  (* the stepping thread: a guard it holds afterwards was held before, or was just read from a cell *)
  all: try solve [match goal with Self : True |- _ => idtac end; nfacts;
    assert (Hold : ((exists sl, gs (tl s t) sl = Some nn) \/ tmpg (th s t) = Some nn) \/ (exists c, cells s c = Some nn));
    [ destruct Hh as [(sl & Hs)|Hp];
      [ try match type of Hs with upd ?g ?a ?v ?x = _ =>
              destruct (upd_cases g a v x) as [[-> Eu]|[Hsl Eu]]; rewrite Eu in Hs;
              [first [discriminate Hs | injection Hs as <-; right; eexists; eassumption]|] end;
        first [discriminate Hs | left; left; exists sl; exact Hs]
      | xn; gfn_in Hp; first [discriminate Hp | injection Hp as <-; first [right; eexists; eassumption | left; right; rewrite E; reflexivity]
              | left; right; rewrite E; exact Hp ] ]
    | destruct Hold as [Hold|(c0 & Hc0)];
      [ pose proof Hold as Hold'; rewrite E in Hold'; destruct (holds_shape _ _ _ _ Tt Hold') as (Hcb & Hn1 & Hc & Hq & Hx & Hsy); cbn in Hc, Hq, Hx;
        first [ discriminate Hc | discriminate Hq | discriminate Hx | exfalso; congruence
        | destruct (G t nn Hold) as [(c1 & L)|[(tq & L)|(tq & rq & gq & bq & L & C & B)]];
          [ split_updN_all; first [ left; exists c1; first [assumption | congruence] | right; left; eexists; reflexivity | congruence ]
          | destruct (cb (tl s t)) as [bu|] eqn:Ebu; [|congruence]; inj_some;
            destruct (Pt _ eq_refl) as (PL & _); destruct (PL Hsy) as (PL1 & _);
            split_updN_all; first [ right; left; exists tq; first [assumption | congruence] | congruence
                                  | right; right; eexists _, _, _, bu; repeat split; first [reflexivity | eassumption | lia] ]
          | right; right; exists tq, rq, gq, bq; repeat split; first [assumption | split_updN_all; first [assumption | congruence]] ] ]
      | pose proof (Icell _ _ Hc0); split_updN_all; first [left; exists c0; first [assumption | congruence] | right; left; eexists; reflexivity | congruence] ] ]].
Qed.

Lemma GI_start ns s t o s' es : (forall u n, holds s u n -> guard_ok s u n) ->
  step ns s (Start t o) = Some (s', es) -> forall u n, holds s' u n -> guard_ok s' u n.
Proof.
  intros G H. destruct (start_same _ _ _ _ _ _ H) as (Hidle & Es & Hp).
  assert (Etm : forall u, tmpg (th s' u) = tmpg (th s u)).
  { intros u. rewrite Es. prj. destruct (Nat.eq_dec u t) as [->|Hne]; [rewrite upd_same, Hidle|rewrite upd_other by exact Hne; reflexivity].
    destruct Hp as [->|[->|[->|[o' ->]]]]; reflexivity. }
  intros u n Hh. unfold holds, guard_ok in *. rewrite Etm in Hh. rewrite Es in Hh |- *. prj. prj_in Hh. apply G. exact Hh.
Qed.

Section ReachG.
Variables (ns : nat) (nc : N).
Lemma GI_reach s : reachable ns nc s -> forall u n, holds s u n -> guard_ok s u n.
Proof.
  apply (inv_rule_aux _ _ _ _ _ (fun s => T0 ns s /\ O0 s /\ EI s /\ N0 s) (fun s => forall u n, holds s u n -> guard_ok s u n)).
  - intros s0 Hr. split; [apply (T0_reach ns nc); exact Hr|]. split; [apply (O0_reach ns nc); exact Hr|]. split; [apply (EI_reach ns nc); exact Hr|apply (N0_reach ns nc); exact Hr].
  - intros u n [(sl & Hs)|Hp]; cbn in *; discriminate.
  - intros s0 a s1 es (J1 & J2 & J3 & J4) _ I H. destruct a as [t o|t]; [eapply GI_start; eauto|eapply GI_step; eauto].
Qed.
End ReachG.

(** * No dereference of a destroyed node *)
Lemma dead_false s n : g_nfree s n = O -> g_life s n <> LDropped -> dead s n = false.
Proof. intros H1 H2. unfold dead. rewrite H1. cbn. destruct (g_life s n); try reflexivity. congruence. Qed.

Lemma uaf_step ns s a s' es : T0 ns s -> O0 s -> EI s -> N0 s -> G0 s -> (forall u n, holds s u n -> guard_ok s u n) ->
  g_uaf s = false -> step ns s a = Some (s', es) -> g_uaf s' = false.
Proof.
  intros T O EIs I Tg G U H. destruct a as [t o|t].
  { destruct (start_same _ _ _ _ _ _ H) as (_ & -> & _). prj. exact U. }
  assert (Hcell : forall c n, cells s c = Some n -> dead s n = false).
  { intros c n Hc. pose proof (n_cell s I c n Hc) as L. apply dead_false; [|rewrite L; discriminate].
    destruct (wh_not_ret _ _ _ (n_where s I n)) as [_ W]; [rewrite L; reflexivity|exact W]. }
  assert (Hslot : forall sl n, gs (tl s t) sl = Some n -> dead s n = false).
  { intros sl n Hs. assert (Hh : holds s t n) by (left; exists sl; exact Hs).
    destruct (guard_not_freed _ _ _ _ T O EIs I Tg (G t n Hh) Hh) as (_ & H1 & H2). apply dead_false; assumption. }
  unfold_step H. cbv zeta in H. step_split H.
  all: bool_eqs; prj; try exact U.
  all: rewrite U; cbn [orb]; unfold dead; prj.
  all: first [ eapply Hslot; eassumption | eapply Hcell; eassumption | idtac ].
  all: match goal with Ec : cells _ _ = Some ?n0 |- _ => pose proof (Hcell _ _ Ec) as Hd end; unfold dead in Hd; apply orb_false_iff in Hd; destruct Hd as [Hd1 Hd2]; rewrite Hd1; cbn [orb];
       match goal with |- context [updN ?f ?a ?v ?b] => destruct (updN_cases f a v b) as [[_ ->]|[_ ->]] end; [reflexivity|exact Hd2].
Qed.

Section ReachU.
Variables (ns : nat) (nc : N).
Lemma uaf_reach s : reachable ns nc s -> g_uaf s = false.
Proof.
  apply (inv_rule_aux _ _ _ _ _ (fun s => T0 ns s /\ O0 s /\ EI s /\ N0 s /\ G0 s /\ (forall u n, holds s u n -> guard_ok s u n)) (fun s => g_uaf s = false)).
  - intros s0 Hr. split; [apply (T0_reach ns nc); exact Hr|]. split; [apply (O0_reach ns nc); exact Hr|]. split; [apply (EI_reach ns nc); exact Hr|].
    split; [apply (N0_reach ns nc); exact Hr|]. split; [apply (G0_reach ns nc); exact Hr|apply (GI_reach ns nc); exact Hr].
  - reflexivity.
  - intros s0 a s1 es (J1 & J2 & J3 & J4 & J5 & J6) _ I H. eapply uaf_step; eauto.
Qed.
End ReachU.
